(* diff_bisect, part 3: the invariant [HI] of one half of the search, and its preservation
   by one k-loop (given that the new entries stay out of the closed quadrant beyond the far
   corner, which is what the interplay with the other half guarantees). *)
From Coq Require Import List ZArith NArith Bool Lia.
Import ListNotations.
Require Import XV.DMP XV.DMPBase XV.DMPBisect1 XV.DMPBisect2.
Local Open Scope Z_scope.

Section HalfInv.
  Variables n1 n2 : Z.
  Variable M : Z -> Z -> bool.
  Variable delta : Z.
  Hypothesis Hdelta : delta = n1 - n2.
  Hypothesis Hn1 : 2 <= n1.
  Hypothesis Hn2 : 2 <= n2.

  Notation snake := (snake n1 n2 M).
  Notation scond := (scond n1 n2 M).
  Notation newval := (newval n1 n2 M).

  (* state of a half after depth D: f, kstart = s, kend = e; sp/ep: kstart/kend before depth D;
     [L, H]: the diagonals written so far *)
  Record HI (D : Z) (f : Z -> Z) (s e sp ep L H : Z) : Prop := {
    hi_D : 0 <= D;
    hi_even : exists a b c c', s = 2 * a /\ e = 2 * b /\ sp = 2 * c /\ ep = 2 * c';
    hi_se : 0 <= sp <= s /\ 0 <= ep <= e;
    hi_d0 : D = 0 -> s = 0 /\ e = 0;
    hi_prange : - D + sp <= D - ep;
    hi_range : - (D + 1) + s <= D + 1 - e;
    hi_LH : L <= 0 <= H /\ - D <= L /\ H <= D /\ L <= - D + sp /\ D - ep <= H;
    hi_valid : forall k, L <= k <= H -> 0 <= f k /\ 0 <= f k - k;
    hi_unw : forall k, ~ (L <= k <= H) -> f k = -1 \/ (k = 1 /\ D = 0 /\ f k = 0);
    hi_max : forall k, L <= k <= H -> scond (f k) (f k - k) = false;
    hi_link : forall j, 0 <= j -> - D + sp + 2 * j <= D - ep ->
                (L <= - D + sp + 2 * j - 1 -> f (- D + sp + 2 * j - 1) + 1 <= f (- D + sp + 2 * j)) /\
                (- D + sp + 2 * j + 1 <= H -> f (- D + sp + 2 * j + 1) <= f (- D + sp + 2 * j));
    hi_nc : forall k, L <= k <= H -> ~ (n1 <= f k /\ n2 <= f k - k);
    hi_baR : forall k, L <= k <= H -> n1 < f k -> L <= k - 2 /\ n1 <= f (k - 1) /\ n1 <= f (k - 2);
    hi_baB : forall k, L <= k <= H -> n2 < f k - k ->
                k + 2 <= H /\ n2 <= f (k + 1) - (k + 1) /\ n2 <= f (k + 2) - (k + 2);
    hi_bqR : forall k, L <= k <= H -> n1 < f k ->
                L <= k - 2 * (f k - n1) /\ n1 <= f (k - 2 * (f k - n1));
    hi_bqB : forall k, L <= k <= H -> n2 < f k - k ->
                k + 2 * (f k - k - n2) <= H /\
                n2 <= f (k + 2 * (f k - k - n2)) - (k + 2 * (f k - k - n2));
    hi_sealR : 0 < e -> exists k, L <= k <= H /\ k <= D - e /\ n1 <= f k;
    hi_sealB : 0 < s -> exists k, L <= k <= H /\ - D + s <= k /\ n2 <= f k - k;
    hi_tgt : Z.min delta (D + 1) <= D + 1 - e /\ - (D + 1) + s <= Z.max delta (- (D + 1))
  }.

  (* ---------------------------------------------------------------- *)
  (** ** the value picked on a diagonal of the next k-loop *)

  Section Next.
    Variables (D : Z) (f : Z -> Z) (s e sp ep L H : Z).
    Hypothesis I : HI D f s e sp ep L H.
    Let d := D + 1.
    Let lo := - d + s.
    Let hi := d - e.

    Lemma vals_ge k : -1 <= f k.
    Proof.
      destruct (Z_le_dec L k) as [H1|H1]; [destruct (Z_le_dec k H) as [H2|H2]|].
      - pose proof (hi_valid _ _ _ _ _ _ _ _ I k ltac:(lia)). lia.
      - destruct (hi_unw _ _ _ _ _ _ _ _ I k ltac:(lia)) as [E|(_ & _ & E)]; lia.
      - destruct (hi_unw _ _ _ _ _ _ _ _ I k ltac:(lia)) as [E|(_ & _ & E)]; lia.
    Qed.

    (* the k-loop runs over lo, lo + 2, ..: one of the two neighbours of each was in the last loop *)
    Lemma pick_spec i : 0 <= i -> lo + 2 * i <= hi ->
      let k := lo + 2 * i in
      let x0 := pickx f d k in
      (L <= k - 1 <= H -> f (k - 1) + 1 <= x0) /\
      (L <= k + 1 <= H -> f (k + 1) <= x0) /\
      ((L <= k - 1 <= H /\ x0 = f (k - 1) + 1) \/ (L <= k + 1 <= H /\ x0 = f (k + 1))).
    Proof.
      intros Hi Hk k x0.
      destruct I as [ID (a & b & c & c' & Ea & Eb & Ec & Ec') (Is1 & Is2) I0 Ipr Ir (IL1 & IL2 & IL3 & IL4 & IL5) Iv Iu _ _ _ _ _ _ _ _ _ _].
      unfold x0, pickx.
      destruct (k =? - d) eqn:E1; bz.
      - (* natural bottom: s = 0, only k + 1 = -D is there *)
        assert (s = 0 /\ i = 0) as [-> ->] by (unfold k, lo, d in *; lia).
        assert (L = - D) by lia.
        unfold k, lo, d in *. repeat split; try lia; try (right; split; [lia|reflexivity]).
      - destruct (k =? d) eqn:E2; bz; cbn [negb].
        + (* natural top: e = 0 *)
          assert (e = 0) by (unfold k, hi, lo, d in *; lia).
          assert (H = D) by lia.
          unfold k, lo, d in *. repeat split; try lia; try (left; split; [lia|reflexivity]).
        + assert (HD : 1 <= D).
          { destruct (Z.eq_dec D 0) as [->|]; [|lia]. destruct (I0 eq_refl) as [-> ->].
            unfold k, hi, lo, d in *. lia. }
          assert (Hun : forall k', ~ (L <= k' <= H) -> f k' = -1).
          { intros k' Hk'. destruct (Iu k' Hk') as [E|(_ & E0 & _)]; [exact E|lia]. }
          assert (Hfresh : L <= k - 1 <= H \/ L <= k + 1 <= H) by (unfold k, hi, lo, d in *; lia).
          pose proof (vals_ge (k - 1)) as G1. pose proof (vals_ge (k + 1)) as G2.
          destruct (f (k - 1) <? f (k + 1)) eqn:E3; bz.
          * assert (W : L <= k + 1 <= H).
            { destruct (Z_le_dec L (k + 1)) as [W1|W1]; [destruct (Z_le_dec (k + 1) H) as [W2|W2]|]; try lia;
                rewrite (Hun (k + 1)) in E3 by lia; lia. }
            repeat split; try lia; try (right; split; [lia|reflexivity]).
          * assert (W : L <= k - 1 <= H).
            { destruct (Z_le_dec L (k - 1)) as [W1|W1]; [destruct (Z_le_dec (k - 1) H) as [W2|W2]; [lia|]|];
                (assert (Hk1 : f (k - 1) = -1) by (apply Hun; lia));
                (assert (L <= k + 1 <= H) as W by lia); pose proof (Iv (k + 1) W); lia. }
            repeat split; try lia; try (left; split; [lia|reflexivity]).
    Qed.

    Lemma pick_valid i : 0 <= i -> lo + 2 * i <= hi ->
      let k := lo + 2 * i in
      0 <= pickx f d k /\ 0 <= pickx f d k - k /\ 1 <= pickx f d k + (pickx f d k - k).
    Proof.
      intros Hi Hk k.
      destruct (pick_spec i Hi Hk) as (_ & _ & [(W & E)|(W & E)]); fold k in W, E; rewrite E;
        pose proof (hi_valid _ _ _ _ _ _ _ _ I _ W); lia.
    Qed.

    Lemma newval_facts i : 0 <= i -> lo + 2 * i <= hi ->
      let k := lo + 2 * i in
      let x0 := pickx f d k in
      x0 <= newval f d k /\ (x0 < newval f d k -> newval f d k <= n1 /\ newval f d k - k <= n2) /\
      scond (newval f d k) (newval f d k - k) = false.
    Proof.
      intros Hi Hk k x0. unfold newval. fold x0.
      pose proof (snake_diag n1 n2 M x0 (x0 - k)) as (S1 & S2 & S3).
      pose proof (snake_stop n1 n2 M x0 (x0 - k)) as S4.
      replace (snd (snake x0 (x0 - k))) with (fst (snake x0 (x0 - k)) - k) in * by lia.
      repeat split; try lia; try assumption; apply S3; assumption.
    Qed.

    (* everything about the value written on the i-th diagonal of the next loop *)
    Lemma nv_facts i : 0 <= i -> lo + 2 * i <= hi ->
      let k := lo + 2 * i in
      let x0 := pickx f d k in
      let x := newval f d k in
      0 <= x0 /\ 0 <= x0 - k /\ 1 <= x0 + (x0 - k) /\ x0 <= x /\
      (x0 < x -> x <= n1 /\ x - k <= n2 /\ M (x - 1) (x - k - 1) = true) /\ scond x (x - k) = false /\
      (L <= k - 1 <= H -> f (k - 1) + 1 <= x0) /\
      (L <= k + 1 <= H -> f (k + 1) <= x0) /\
      ((L <= k - 1 <= H /\ x0 = f (k - 1) + 1) \/ (L <= k + 1 <= H /\ x0 = f (k + 1))).
    Proof.
      intros Hi Hk k x0 x.
      pose proof (pick_spec i Hi Hk) as (P1 & P2 & P3).
      pose proof (pick_valid i Hi Hk) as (V1 & V2 & V3).
      pose proof (newval_facts i Hi Hk) as (F1 & F2 & F3).
      fold k in P1, P2, P3, V1, V2, V3, F1, F2, F3. fold x0 in P1, P2, P3, V1, V2, V3, F1, F2. fold x in F1, F2, F3.
      repeat split; try assumption; try (apply F2; assumption).
      match goal with Hl : x0 < x |- _ => rename Hl into Hlt end.
      pose proof (snake_last n1 n2 M x0 (x0 - k)) as SL.
      pose proof (snake_diag n1 n2 M x0 (x0 - k)) as (S1 & _ & _).
      unfold x, newval in *. fold x0 in SL, S1 |- *.
      replace (fst (snake x0 (x0 - k)) - k - 1) with (snd (snake x0 (x0 - k)) - 1) by lia.
      apply SL. exact Hlt.
    Qed.

    (* an invariant of the snake holds of the new value *)
    Lemma nv_inv (P : Z -> Z -> Prop) k :
      (forall x y, P x y -> x < n1 -> y < n2 -> M x y = true -> P (x + 1) (y + 1)) ->
      P (pickx f d k) (pickx f d k - k) -> P (newval f d k) (newval f d k - k).
    Proof.
      intros Hs H0. unfold newval.
      pose proof (snake_diag n1 n2 M (pickx f d k) (pickx f d k - k)) as (S1 & _ & _).
      replace (fst (snake (pickx f d k) (pickx f d k - k)) - k) with (snd (snake (pickx f d k) (pickx f d k - k))) by lia.
      now apply snake_inv.
    Qed.

    (* the new values stay out of the closed quadrant beyond the far corner, provided no entry
       on or beyond the border is near diagonal 0 of the other half (whose entry there is its origin) *)
    Lemma nc_generic i : 0 <= i -> lo + 2 * i <= hi ->
      M (n1 - 1) (n2 - 1) = false ->
      (forall k, L <= k <= H -> n1 <= f k \/ n2 <= f k - k -> ~ (-1 <= k - delta <= 1)) ->
      ~ (n1 <= newval f d (lo + 2 * i) /\ n2 <= newval f d (lo + 2 * i) - (lo + 2 * i)).
    Proof.
      intros Hi Hk HMc Hblk [Hx Hy].
      destruct (nv_facts i Hi Hk) as (V1 & V2 & V3 & F1 & F2 & F3 & P1 & P2 & P3).
      set (k := lo + 2 * i) in *. set (x := newval f d k) in *. set (x0 := pickx f d k) in *.
      destruct (Z_lt_le_dec x0 x) as [Hlt|Hge].
      - destruct (F2 Hlt) as (G1 & G2 & G3).
        assert (x = n1) by lia. assert (x - k = n2) by lia.
        replace (x - 1) with (n1 - 1) in G3 by lia. replace (x - k - 1) with (n2 - 1) in G3 by lia. congruence.
      - assert (Ex : x0 = x) by lia.
        destruct I as [ID _ _ _ _ _ (IL1 & IL2 & IL3 & IL4 & IL5) Iv _ _ _ Inc _ _ IbqR IbqB _ _ _].
        destruct P3 as [(Wk & Ek)|(Wk & Ek)].
        + pose proof (Inc _ Wk) as N1.
          assert (Hx1 : x = n1) by lia.
          destruct (Z.eq_dec (x - k) n2) as [Ey|Ey].
          * apply (Hblk _ Wk); lia.
          * destruct (IbqB _ Wk ltac:(lia)) as (B1 & B2).
            set (t := k - 1 + 2 * (f (k - 1) - (k - 1) - n2)) in *.
            pose proof (Inc t ltac:(unfold t in *; lia)) as N2. unfold t in *. lia.
        + pose proof (Inc _ Wk) as N1.
          assert (Hy1 : x - k = n2) by lia.
          destruct (Z.eq_dec x n1) as [Ey|Ey].
          * apply (Hblk _ Wk); lia.
          * destruct (IbqR _ Wk ltac:(lia)) as (B1 & B2).
            set (t := k + 1 - 2 * (f (k + 1) - n1)) in *.
            pose proof (Inc t ltac:(unfold t in *; lia)) as N2. unfold t in *. lia.
    Qed.

    (* a value that is rewritten grows *)
    Lemma newval_mono i : 0 <= i -> lo + 2 * i <= hi -> L <= lo + 2 * i <= H ->
      f (lo + 2 * i) + 1 <= newval f d (lo + 2 * i).
    Proof.
      intros Hi Hk W.
      destruct (newval_facts i Hi Hk) as (N1 & _).
      destruct (pick_spec i Hi Hk) as (P1 & P2 & _).
      destruct I as [ID (a & b & c & c' & Ea & Eb & Ec & Ec') (Is1 & Is2) I0 Ipr Ir (IL1 & IL2 & IL3 & IL4 & IL5) Iv Iu _ Ilink _ _ _ _ _ _ _ _].
      set (k := lo + 2 * i) in *.
      destruct (Z_le_dec (k + 1) (D - ep)) as [Hf|Hf].
      - (* k + 1 was in the last loop *)
        destruct (Ilink (i + a - c) ltac:(lia) ltac:(unfold k, lo, d in *; lia)) as (K1 & _).
        replace (- D + sp + 2 * (i + a - c)) with (k + 1) in K1 by (unfold k, lo, d; lia).
        replace (k + 1 - 1) with k in K1 by lia.
        specialize (K1 ltac:(lia)). specialize (P2 ltac:(lia)). lia.
      - (* then k - 1 was *)
        assert (Hj : 0 <= i + a - c - 1) by (unfold k, hi, lo, d in *; lia).
        destruct (Ilink (i + a - c - 1) Hj ltac:(unfold k, hi, lo, d in *; lia)) as (_ & K2).
        replace (- D + sp + 2 * (i + a - c - 1)) with (k - 1) in K2 by (unfold k, lo, d; lia).
        replace (k - 1 + 1) with k in K2 by lia.
        specialize (K2 ltac:(lia)). specialize (P1 ltac:(unfold k, hi, lo, d in *; lia)). lia.
    Qed.
  End Next.

  (* ---------------------------------------------------------------- *)
  (** ** one k-loop preserves the invariant *)

  Section Step.
    Variables (D : Z) (f : Z -> Z) (s e sp ep L H : Z) (f' : Z -> Z) (s' e' N : Z).
    Variables (off vlen : Z) (chk : bool) (g : Z -> Z).
    Hypothesis I : HI D f s e sp ep L H.
    Let d := D + 1.
    Let lo := - d + s.
    Let hi := d - e.
    Hypothesis HN : 2 * N = hi - lo + 2.
    Hypothesis C : Cur n1 n2 M delta off vlen chk g d lo f s e N f' s' e'.
    (* the new entries do not enter the closed quadrant beyond the far corner *)
    Hypothesis NCnew : forall i, 0 <= i < N ->
      ~ (n1 <= newval f d (lo + 2 * i) /\ n2 <= newval f d (lo + 2 * i) - (lo + 2 * i)).

    Let L' := Z.min L lo.
    Let H' := Z.max H hi.

    Lemma st_basic : 0 <= D /\ 1 <= N /\ L - 1 <= lo /\ hi <= H + 1 /\ lo <= hi /\
      L <= 0 <= H /\ - D <= L /\ H <= D /\ 0 <= s /\ 0 <= e.
    Proof.
      destruct I as [ID _ (Is1 & Is2) _ Ipr Ir (IL1 & IL2 & IL3 & IL4 & IL5) _ _ _ _ _ _ _ _ _ _ _ _].
      unfold hi, lo, d in *. lia.
    Qed.

    Lemma st_new i : 0 <= i < N -> f' (lo + 2 * i) = newval f d (lo + 2 * i).
    Proof. intros Hi. exact (cur_new _ _ _ _ _ _ _ _ _ _ _ _ _ _ _ _ _ C i Hi). Qed.

    Lemma st_form k : (exists i, 0 <= i < N /\ k = lo + 2 * i) \/ (L <= k <= H /\ f' k = f k) \/ (~ (L' <= k <= H') /\ f' k = f k).
    Proof.
      pose proof st_basic as B.
      destruct (Z.Even_or_Odd (k - lo)) as [[q Hq]|[q Hq]].
      - destruct (Z_le_dec lo k) as [H1|H1]; [destruct (Z_le_dec k hi) as [H2|H2]|].
        + left. exists q. lia.
        + right. assert (E : f' k = f k) by (apply (cur_old _ _ _ _ _ _ _ _ _ _ _ _ _ _ _ _ _ C); intros i Hi; lia).
          destruct (Z_le_dec k H'); [left; split; [unfold H' in *; lia|exact E]|right; split; [unfold L', H' in *; lia|exact E]].
        + right. assert (E : f' k = f k) by (apply (cur_old _ _ _ _ _ _ _ _ _ _ _ _ _ _ _ _ _ C); intros i Hi; lia).
          destruct (Z_le_dec L' k); [left; split; [unfold L' in *; lia|exact E]|right; split; [unfold L', H' in *; lia|exact E]].
      - right. assert (E : f' k = f k) by (apply (cur_old _ _ _ _ _ _ _ _ _ _ _ _ _ _ _ _ _ C); intros i Hi; lia).
        destruct (Z_le_dec L' k) as [H1|H1]; [destruct (Z_le_dec k H') as [H2|H2]|].
        + left. split; [|exact E]. unfold L', H' in *. lia.
        + right. split; [lia|exact E].
        + right. split; [lia|exact E].
    Qed.

    (* diagonals of the other parity keep their value *)
    Lemma st_old i : f' (lo + 2 * i + 1) = f (lo + 2 * i + 1).
    Proof. apply (cur_old _ _ _ _ _ _ _ _ _ _ _ _ _ _ _ _ _ C). intros j Hj. lia. Qed.
    Lemma st_old' i : f' (lo + 2 * i - 1) = f (lo + 2 * i - 1).
    Proof. apply (cur_old _ _ _ _ _ _ _ _ _ _ _ _ _ _ _ _ _ C). intros j Hj. lia. Qed.

    Lemma st_grow k : L <= k <= H -> f k <= f' k.
    Proof.
      intros W. destruct (st_form k) as [(i & Hi & ->)|[(_ & E)|(_ & E)]]; try lia.
      rewrite st_new by assumption.
      pose proof (newval_mono D f s e sp ep L H I i ltac:(lia) ltac:(fold d lo hi; lia) W). fold d lo in H0. lia.
    Qed.

    Ltac dI := destruct I as [ID (a & b & c & c' & Ea & Eb & Ec & Ec') (Is1 & Is2) I0 Ipr Ir
                 (IL1 & IL2 & IL3 & IL4 & IL5) Iv Iu Imax Ilink Inc IbaR IbaB IbqR IbqB IsR IsB (It1 & It2)].

    (* facts about the i-th new value, in one package *)
    Lemma st_nv i : 0 <= i < N ->
      let k := lo + 2 * i in
      let x0 := pickx f d k in
      let x := newval f d k in
      f' k = x /\ 0 <= x0 /\ 0 <= x0 - k /\ 1 <= x0 + (x0 - k) /\ x0 <= x /\
      (x0 < x -> x <= n1 /\ x - k <= n2) /\ scond x (x - k) = false /\
      (L <= k - 1 <= H -> f (k - 1) + 1 <= x0) /\
      (L <= k + 1 <= H -> f (k + 1) <= x0) /\
      ((L <= k - 1 <= H /\ x0 = f (k - 1) + 1) \/ (L <= k + 1 <= H /\ x0 = f (k + 1))) /\
      ~ (n1 <= x /\ n2 <= x - k).
    Proof.
      intros Hi k x0 x.
      assert (Hk : lo + 2 * i <= hi) by lia.
      pose proof (pick_spec D f s e sp ep L H I i ltac:(lia) Hk) as (P1 & P2 & P3).
      pose proof (pick_valid D f s e sp ep L H I i ltac:(lia) Hk) as (V1 & V2 & V3).
      pose proof (newval_facts D f s e i ltac:(lia) Hk) as (F1 & F2 & F3).
      fold d lo k in P1, P2, P3, V1, V2, V3, F1, F2, F3. fold x0 in P1, P2, P3, V1, V2, V3, F1, F2. fold x in F1, F2, F3.
      repeat split; try assumption; try (apply st_new; assumption); try (apply F2; assumption).
      apply NCnew. assumption.
    Qed.

    Lemma st_valid k : L' <= k <= H' -> 0 <= f' k /\ 0 <= f' k - k.
    Proof.
      intros W. destruct (st_form k) as [(i & Hi & ->)|[(W' & E)|(W' & E)]]; [| |lia].
      - destruct (st_nv i Hi) as (E & V1 & V2 & _ & F1 & _). rewrite E. lia.
      - rewrite E. dI. apply Iv. assumption.
    Qed.

    Lemma st_unw k : ~ (L' <= k <= H') -> f' k = -1 \/ (k = 1 /\ D + 1 = 0 /\ f' k = 0).
    Proof.
      intros W. pose proof st_basic as B. left.
      destruct (st_form k) as [(i & Hi & ->)|[(W' & E)|(W' & E)]].
      - exfalso. apply W. unfold L', H'. lia.
      - exfalso. apply W. unfold L', H'. lia.
      - rewrite E. dI. destruct (Iu k ltac:(unfold L', H' in *; lia)) as [Hu|(K1 & K2 & K3)]; [exact Hu|].
        exfalso. apply W. destruct (I0 K2). unfold L', H', hi, lo, d in *. lia.
    Qed.

    Lemma st_max k : L' <= k <= H' -> scond (f' k) (f' k - k) = false.
    Proof.
      intros W. destruct (st_form k) as [(i & Hi & ->)|[(W' & E)|(W' & E)]]; [| |lia].
      - destruct (st_nv i Hi) as (E & _ & _ & _ & _ & _ & F3 & _). rewrite E. exact F3.
      - rewrite E. dI. apply Imax. assumption.
    Qed.

    Lemma st_link j : 0 <= j -> - (D + 1) + s + 2 * j <= D + 1 - e ->
      (L' <= - (D + 1) + s + 2 * j - 1 -> f' (- (D + 1) + s + 2 * j - 1) + 1 <= f' (- (D + 1) + s + 2 * j)) /\
      (- (D + 1) + s + 2 * j + 1 <= H' -> f' (- (D + 1) + s + 2 * j + 1) <= f' (- (D + 1) + s + 2 * j)).
    Proof.
      intros Hj Hk. pose proof st_basic as B.
      replace (- (D + 1) + s + 2 * j) with (lo + 2 * j) by (unfold lo, d; lia).
      assert (Hi : 0 <= j < N) by (unfold hi, lo, d in *; lia).
      destruct (st_nv j Hi) as (E & _ & _ & _ & F1 & _ & _ & P1 & P2 & _).
      rewrite E, st_old, st_old'. split; intros W.
      - specialize (P1 ltac:(unfold L', hi, lo, d in *; lia)). lia.
      - specialize (P2 ltac:(unfold H', hi, lo, d in *; lia)). lia.
    Qed.

    Lemma st_nc k : L' <= k <= H' -> ~ (n1 <= f' k /\ n2 <= f' k - k).
    Proof.
      intros W. destruct (st_form k) as [(i & Hi & ->)|[(W' & E)|(W' & E)]]; [| |lia].
      - rewrite st_new by assumption. apply NCnew. assumption.
      - rewrite E. dI. apply Inc. assumption.
    Qed.

    Lemma st_baR k : L' <= k <= H' -> n1 < f' k -> L' <= k - 2 /\ n1 <= f' (k - 1) /\ n1 <= f' (k - 2).
    Proof.
      intros W Hb. pose proof st_basic as B.
      destruct (st_form k) as [(i & Hi & ->)|[(W' & E)|(W' & E)]]; [| |lia].
      - destruct (st_nv i Hi) as (E & V1 & V2 & _ & F1 & F2 & _ & P1 & P2 & P3 & NC).
        rewrite E in Hb. set (k := lo + 2 * i) in *. set (x := newval f d k) in *. set (x0 := pickx f d k) in *.
        assert (Ex : x0 = x) by lia.
        assert (A : L <= k - 1 <= H /\ n1 <= f (k - 1)).
        { dI. destruct P3 as [(Wk & Ek)|(Wk & Ek)].
          - split; lia.
          - destruct (IbaR (k + 1) Wk ltac:(lia)) as (B1 & B2 & B3).
            replace (k + 1 - 2) with (k - 1) in * by lia. replace (k + 1 - 1) with k in * by lia.
            split; [unfold k, hi, lo, d in *; lia|exact B3]. }
        destruct A as (A1 & A2).
        destruct (Z.eq_dec i 0) as [->|Hi0].
        + exfalso. dI. unfold k, lo, d in *. lia.
        + assert (Hi' : 0 <= i - 1 < N) by lia.
          destruct (st_nv (i - 1) Hi') as (E' & _ & _ & _ & F1' & _ & _ & _ & P2' & _).
          replace (lo + 2 * (i - 1)) with (k - 2) in * by (unfold k; lia).
          replace (k - 2 + 1) with (k - 1) in P2' by lia.
          specialize (P2' A1).
          unfold k at 2. rewrite st_old'. fold k. rewrite E'.
          repeat split; try lia; unfold L', k; lia.
      - rewrite E in Hb. dI. destruct (IbaR k W' Hb) as (B1 & B2 & B3).
        pose proof (st_grow (k - 1) ltac:(lia)). pose proof (st_grow (k - 2) ltac:(lia)).
        unfold L'. lia.
    Qed.

    Lemma st_baB k : L' <= k <= H' -> n2 < f' k - k ->
      k + 2 <= H' /\ n2 <= f' (k + 1) - (k + 1) /\ n2 <= f' (k + 2) - (k + 2).
    Proof.
      intros W Hb. pose proof st_basic as B.
      destruct (st_form k) as [(i & Hi & ->)|[(W' & E)|(W' & E)]]; [| |lia].
      - destruct (st_nv i Hi) as (E & V1 & V2 & _ & F1 & F2 & _ & P1 & P2 & P3 & NC).
        rewrite E in Hb. set (k := lo + 2 * i) in *. set (x := newval f d k) in *. set (x0 := pickx f d k) in *.
        assert (Ex : x0 = x) by lia.
        assert (A : L <= k + 1 <= H /\ n2 <= f (k + 1) - (k + 1)).
        { dI. destruct P3 as [(Wk & Ek)|(Wk & Ek)].
          - destruct (IbaB (k - 1) Wk ltac:(lia)) as (B1 & B2 & B3).
            replace (k - 1 + 2) with (k + 1) in * by lia. replace (k - 1 + 1) with k in * by lia.
            split; [unfold k, hi, lo, d in *; lia|exact B3].
          - split; lia. }
        destruct A as (A1 & A2).
        destruct (Z.eq_dec i (N - 1)) as [->|Hi0].
        + exfalso. dI. unfold k, hi, lo, d in *. lia.
        + assert (Hi' : 0 <= i + 1 < N) by lia.
          destruct (st_nv (i + 1) Hi') as (E' & _ & _ & _ & F1' & _ & _ & P1' & _).
          replace (lo + 2 * (i + 1)) with (k + 2) in * by (unfold k; lia).
          replace (k + 2 - 1) with (k + 1) in P1' by lia.
          specialize (P1' A1).
          unfold k at 2. rewrite st_old. fold k. rewrite E'.
          repeat split; try lia; unfold H', k, hi, lo, d in *; lia.
      - rewrite E in Hb. dI. destruct (IbaB k W' Hb) as (B1 & B2 & B3).
        pose proof (st_grow (k + 1) ltac:(lia)). pose proof (st_grow (k + 2) ltac:(lia)).
        unfold H'. lia.
    Qed.

    Lemma st_bqR k : L' <= k <= H' -> n1 < f' k ->
      L' <= k - 2 * (f' k - n1) /\ n1 <= f' (k - 2 * (f' k - n1)).
    Proof.
      intros W Hb. pose proof st_basic as B.
      destruct (st_form k) as [(i & Hi & ->)|[(W' & E)|(W' & E)]]; [| |lia].
      - destruct (st_nv i Hi) as (E & V1 & V2 & _ & F1 & F2 & _ & P1 & P2 & P3 & NC).
        rewrite E in *. set (k := lo + 2 * i) in *. set (x := newval f d k) in *. set (x0 := pickx f d k) in *.
        assert (Ex : x0 = x) by lia.
        set (bb := x - n1) in *.
        assert (A : L <= k - 2 * bb + 1 <= H /\ n1 <= f (k - 2 * bb + 1)).
        { dI. destruct P3 as [(Wk & Ek)|(Wk & Ek)].
          - destruct (Z.eq_dec bb 1) as [Eb1|Eb1].
            + replace (k - 2 * bb + 1) with (k - 1) by lia. split; lia.
            + destruct (IbqR (k - 1) Wk ltac:(lia)) as (B1 & B2).
              replace (k - 1 - 2 * (f (k - 1) - n1)) with (k - 2 * bb + 1) in * by (unfold bb; lia).
              split; [lia|exact B2].
          - destruct (IbqR (k + 1) Wk ltac:(lia)) as (B1 & B2).
            replace (k + 1 - 2 * (f (k + 1) - n1)) with (k - 2 * bb + 1) in * by (unfold bb; lia).
            split; [unfold k, hi, lo, d in *; lia|exact B2]. }
        destruct A as (A1 & A2).
        destruct (Z_lt_le_dec (i - bb) 0) as [Hneg|Hpos].
        + exfalso. dI. specialize (Inc _ A1). unfold k, lo, d in *. lia.
        + assert (Hi' : 0 <= i - bb < N) by (unfold bb in *; lia).
          destruct (st_nv (i - bb) Hi') as (E' & _ & _ & _ & F1' & _ & _ & _ & P2' & _).
          replace (lo + 2 * (i - bb)) with (k - 2 * bb) in * by (unfold k; lia).
          replace (k - 2 * bb + 1) with (k - 2 * bb + 1) in P2' by lia.
          specialize (P2' A1).
          rewrite E'. split; [unfold L', k; lia|lia].
      - rewrite E in *. dI. destruct (IbqR k W' Hb) as (B1 & B2).
        pose proof (st_grow (k - 2 * (f k - n1)) ltac:(lia)).
        unfold L'. lia.
    Qed.

    Lemma st_bqB k : L' <= k <= H' -> n2 < f' k - k ->
      k + 2 * (f' k - k - n2) <= H' /\
      n2 <= f' (k + 2 * (f' k - k - n2)) - (k + 2 * (f' k - k - n2)).
    Proof.
      intros W Hb. pose proof st_basic as B.
      destruct (st_form k) as [(i & Hi & ->)|[(W' & E)|(W' & E)]]; [| |lia].
      - destruct (st_nv i Hi) as (E & V1 & V2 & _ & F1 & F2 & _ & P1 & P2 & P3 & NC).
        rewrite E in *. set (k := lo + 2 * i) in *. set (x := newval f d k) in *. set (x0 := pickx f d k) in *.
        assert (Ex : x0 = x) by lia.
        set (bb := x - k - n2) in *.
        assert (A : L <= k + 2 * bb - 1 <= H /\ n2 <= f (k + 2 * bb - 1) - (k + 2 * bb - 1)).
        { dI. destruct P3 as [(Wk & Ek)|(Wk & Ek)].
          - destruct (IbqB (k - 1) Wk ltac:(lia)) as (B1 & B2).
            replace (k - 1 + 2 * (f (k - 1) - (k - 1) - n2)) with (k + 2 * bb - 1) in * by (unfold bb; lia).
            split; [unfold k, hi, lo, d in *; lia|exact B2].
          - destruct (Z.eq_dec bb 1) as [Eb1|Eb1].
            + replace (k + 2 * bb - 1) with (k + 1) by lia. split; lia.
            + destruct (IbqB (k + 1) Wk ltac:(lia)) as (B1 & B2).
              replace (k + 1 + 2 * (f (k + 1) - (k + 1) - n2)) with (k + 2 * bb - 1) in * by (unfold bb; lia).
              split; [lia|exact B2]. }
        destruct A as (A1 & A2).
        destruct (Z_lt_le_dec (i + bb) N) as [Hin|Hout].
        + assert (Hi' : 0 <= i + bb < N) by (unfold bb in *; lia).
          destruct (st_nv (i + bb) Hi') as (E' & _ & _ & _ & F1' & _ & _ & P1' & _).
          replace (lo + 2 * (i + bb)) with (k + 2 * bb) in * by (unfold k; lia).
          specialize (P1' A1).
          rewrite E'. split; [unfold H', k, hi, lo, d in *; lia|lia].
        + exfalso. dI. specialize (Inc _ A1). unfold k, hi, lo, d in *. lia.
      - rewrite E in *. dI. destruct (IbqB k W' Hb) as (B1 & B2).
        pose proof (st_grow (k + 2 * (f k - k - n2)) ltac:(lia)).
        unfold H'. lia.
    Qed.

    Lemma st_sealR : 0 < e' -> exists k, L' <= k <= H' /\ k <= D + 1 - e' /\ n1 <= f' k.
    Proof.
      intros He. pose proof st_basic as B.
      destruct (cur_se _ _ _ _ _ _ _ _ _ _ _ _ _ _ _ _ _ C) as (S1 & S2 & _ & S3).
      destruct (Z_lt_le_dec e e') as [Hlt|Hge].
      - destruct (cur_e _ _ _ _ _ _ _ _ _ _ _ _ _ _ _ _ _ C Hlt) as (i & Hi & Hv & Hc).
        unfold nv in Hv.
        assert (Wk : L' <= lo + 2 * i <= H') by (unfold L', H'; lia).
        destruct (st_baR (lo + 2 * i) Wk ltac:(rewrite st_new by assumption; exact Hv)) as (B1 & B2 & B3).
        exists (lo + 2 * i - 2). repeat split; try assumption; unfold L', H', hi, lo, d in *; lia.
      - assert (Ee : e' = e) by lia. dI. destruct (IsR ltac:(lia)) as (k & Wk & Hk & Hv).
        exists k. pose proof (st_grow k Wk). unfold L', H'. repeat split; lia.
    Qed.

    Lemma st_sealB : 0 < s' -> exists k, L' <= k <= H' /\ - (D + 1) + s' <= k /\ n2 <= f' k - k.
    Proof.
      intros Hs. pose proof st_basic as B.
      destruct (cur_se _ _ _ _ _ _ _ _ _ _ _ _ _ _ _ _ _ C) as (S1 & S2 & _ & S3).
      destruct (Z_lt_le_dec s s') as [Hlt|Hge].
      - destruct (cur_s _ _ _ _ _ _ _ _ _ _ _ _ _ _ _ _ _ C Hlt) as (i & Hi & Hv1 & Hv & Hc).
        unfold nv in Hv, Hv1.
        assert (Wk : L' <= lo + 2 * i <= H') by (unfold L', H'; lia).
        destruct (st_baB (lo + 2 * i) Wk ltac:(rewrite st_new by assumption; exact Hv)) as (B1 & B2 & B3).
        exists (lo + 2 * i + 2). repeat split; try assumption; unfold L', H', hi, lo, d in *; lia.
      - assert (Es : s' = s) by lia. dI. destruct (IsB ltac:(lia)) as (k & Wk & Hk & Hv).
        exists k. pose proof (st_grow k Wk). unfold L', H'. repeat split; lia.
    Qed.

    Lemma st_tgt : Z.min delta (D + 1 + 1) <= D + 1 + 1 - e' /\ - (D + 1 + 1) + s' <= Z.max delta (- (D + 1 + 1)).
    Proof.
      pose proof st_basic as B.
      destruct (cur_se _ _ _ _ _ _ _ _ _ _ _ _ _ _ _ _ _ C) as (S1 & S2 & _ & S3).
      split.
      - destruct (Z_lt_le_dec e e') as [Hlt|Hge].
        + destruct (cur_e _ _ _ _ _ _ _ _ _ _ _ _ _ _ _ _ _ C Hlt) as (i & Hi & Hv & Hc).
          unfold nv in Hv. pose proof (NCnew i Hi). unfold hi, lo, d in *. lia.
        + dI. lia.
      - destruct (Z_lt_le_dec s s') as [Hlt|Hge].
        + destruct (cur_s _ _ _ _ _ _ _ _ _ _ _ _ _ _ _ _ _ C Hlt) as (i & Hi & Hv1 & Hv & Hc).
          unfold nv in Hv, Hv1. pose proof (NCnew i Hi). unfold hi, lo, d in *. lia.
        + dI. lia.
    Qed.

    Theorem HI_step : HI (D + 1) f' s' e' s e L' H'.
    Proof.
      pose proof st_basic as B.
      destruct (cur_se _ _ _ _ _ _ _ _ _ _ _ _ _ _ _ _ _ C) as (S1 & S2 & (a' & b' & Sa & Sb) & S3).
      split.
      - lia.
      - dI. exists (a + a'), (b + b'), a, b. lia.
      - lia.
      - lia.
      - dI. lia.
      - unfold hi, lo, d in *. lia.
      - unfold L', H', hi, lo, d in *. lia.
      - exact st_valid.
      - exact st_unw.
      - exact st_max.
      - exact st_link.
      - exact st_nc.
      - exact st_baR.
      - exact st_baB.
      - exact st_bqR.
      - exact st_bqB.
      - exact st_sealR.
      - exact st_sealB.
      - exact st_tgt.
    Qed.
  End Step.
End HalfInv.
