(* Executable model of xmldiff.formatting.PlaceholderMaker (property C11).
   Definitions only; every proof lives in PlaceholderProofs*.v.

   Modelling decisions (each is exercised by the correspondence check in
   harness/props/C11.py on every run):

   * Strings are lists of code points ([list N]).
   * An element is [XNode tag attrs text tail kids].  [text] keeps Python's
     None / "" distinction ([None] / [Some []]) because lxml serialises
     <b/> and <b></b> differently and the serialisation is the table key.
     A tail is never serialised differently for None and "", and the code only
     tests it for truthiness, so [tail] is a plain string ([] = None = "").
   * The table key [etree.tounicode(element)] is modelled by [knorm element]
     (the subtree itself, with an empty-string text in front of children
     identified with no text, which lxml prints identically).  That the
     string key of the code and this key identify the same elements is proved
     in SerializeProofs.v for a model of lxml's serialisation (XV.Serialize,
     itself compared with lxml on every run); see Properties/C11_serial.v.  Documents do not use namespaces / the diff namespace.
   * Comments and processing instructions are read as childless nodes with
     reserved tag names ("#comment", "#pi:<target>", [text] = content, [tail]
     = tail).  The code handles them exactly like a non-formatting child
     (`element.tag` of such a node is a function, never a member of
     formatting_tags; xpath("//t") never selects them): one T_SINGLE
     placeholder keyed by tounicode of the node.  No definition needs a case
     for them PROVIDED the reserved names never occur in text_tags /
     formatting_tags.  mark_diff on the placeholder of such a node is not
     modelled (lxml silently ignores attribute assignment on them).
   * [placeholder2tag] holds *live element objects* that do_element mutates
     later.  The model stores in the table the value the object has when the
     enclosing [do_tree] call returns:
       - a formatting child ends up stripped ([strip]) whatever happens, so
         the stripped value is stored at once;
       - a non-formatting child is stored intact and is mutated when do_tree
         later visits text tags inside the *detached* subtree (they are still
         in the xpath result list).  [dw] replays this in document order and
         writes the final value back with [set_elem], but only when this very
         object was stored (the get_placeholder call was a miss: [marks]; the
         object is then the one filed under the placeholder of its key --
         keys are never removed or re-bound).
     [entry.element] is read only by undo_string / mark_diff / wrap_diff,
     never during do_tree, so intermediate values are unobservable.
   * chr() fails beyond U+10FFFF; the model counter is unbounded.  The theorems
     carry an explicit [room] hypothesis.
   * Recursion through the table (undo_element -> undo_string -> deepcopy of a
     table element -> undo_element) is not structural: explicit fuel, and
     [Err EFuel] when exhausted (Python: RecursionError).                     *)
From Coq Require Import List NArith Bool.
Import ListNotations.
Local Open Scope N_scope.

Definition str := list N.

Inductive xtree :=
  XNode (tag : str) (attrs : list (str * str)) (text : option str) (tail : str) (kids : list xtree).

Definition xtag (t : xtree) := let 'XNode a _ _ _ _ := t in a.
Definition xattrs (t : xtree) := let 'XNode _ a _ _ _ := t in a.
Definition xtext (t : xtree) := let 'XNode _ _ a _ _ := t in a.
Definition xtail (t : xtree) := let 'XNode _ _ _ a _ := t in a.
Definition xkids (t : xtree) := let 'XNode _ _ _ _ a := t in a.

(* [x or ""] *)
Definition otxt (o : option str) : str := match o with Some l => l | None => [] end.
(* [x or None] *)
Definition ornone (l : str) : option str := match l with [] => None | _ => Some l end.

(* Induction principle for the nested inductive type (a term, not a proof script). *)
Definition xtree_ind2 (P : xtree -> Prop)
  (H : forall tag attrs text tail kids, Forall P kids -> P (XNode tag attrs text tail kids)) :
  forall t, P t :=
  fix F (t : xtree) : P t :=
    match t with
    | XNode tag attrs text tail kids =>
      H tag attrs text tail kids
        ((fix G (l : list xtree) : Forall P l :=
            match l with
            | [] => Forall_nil P
            | k :: r => Forall_cons k (F k) (G r)
            end) kids)
    end.

(* ---------------------------------------------------------------- equality *)
Fixpoint str_eqb (a b : str) : bool :=
  match a, b with
  | [], [] => true
  | x :: a', y :: b' => N.eqb x y && str_eqb a' b'
  | _, _ => false
  end.
Fixpoint mem (x : str) (l : list str) : bool :=
  match l with [] => false | y :: r => str_eqb x y || mem x r end.
Fixpoint attrs_eqb (a b : list (str * str)) : bool :=
  match a, b with
  | [], [] => true
  | (k, v) :: a', (k', v') :: b' => str_eqb k k' && str_eqb v v' && attrs_eqb a' b'
  | _, _ => false
  end.
Definition ostr_eqb (a b : option str) : bool :=
  match a, b with
  | None, None => true
  | Some x, Some y => str_eqb x y
  | _, _ => false
  end.
Fixpoint xtree_eqb (a b : xtree) {struct a} : bool :=
  match a, b with
  | XNode t1 a1 x1 l1 k1, XNode t2 a2 x2 l2 k2 =>
    str_eqb t1 t2 && attrs_eqb a1 a2 && ostr_eqb x1 x2 && str_eqb l1 l2 &&
    (fix go (k1 k2 : list xtree) {struct k1} : bool :=
       match k1, k2 with
       | [], [] => true
       | c1 :: r1, c2 :: r2 => xtree_eqb c1 c2 && go r1 r2
       | _, _ => false
       end) k1 k2
  end.

(* The key: what etree.tounicode can distinguish. *)
Fixpoint knorm (t : xtree) : xtree :=
  match t with
  | XNode tag attrs text tail kids =>
    XNode tag attrs (match text, kids with Some [], _ :: _ => None | x, _ => x end) tail (map knorm kids)
  end.

(* ------------------------------------------------------------- the tables *)
Inductive ttype := TOpen | TClose | TSingle.     (* T_OPEN = 0, T_CLOSE = 1, T_SINGLE = 2 *)
Definition ttype_eqb (a b : ttype) : bool :=
  match a, b with TOpen, TOpen | TClose, TClose | TSingle, TSingle => true | _, _ => false end.
Definition on_eqb (a b : option N) : bool :=
  match a, b with None, None => true | Some x, Some y => N.eqb x y | _, _ => false end.

Definition key := (xtree * ttype * option N)%type.     (* (tounicode(element), ttype, close_ph) *)
Definition entry := (xtree * ttype * option N)%type.   (* PlaceholderEntry(element, ttype, close_ph) *)
Definition key_eqb (a b : key) : bool :=
  let '(e1, t1, c1) := a in let '(e2, t2, c2) := b in
  xtree_eqb e1 e2 && ttype_eqb t1 t2 && on_eqb c1 c2.

Record state := mkst { p2t : list (N * entry); t2p : list (key * N); ctr : N }.

Fixpoint p2t_get (m : list (N * entry)) (c : N) : option entry :=
  match m with [] => None | (c', e) :: r => if N.eqb c c' then Some e else p2t_get r c end.
Fixpoint t2p_get (m : list (key * N)) (k : key) : option N :=
  match m with [] => None | (k', c) :: r => if key_eqb k k' then Some c else t2p_get r k end.

Definition PLACEHOLDER_START : N := 57344.   (* 0xE000 *)
Definition PUA_END : N := 63743.             (* 0xF8FF *)

(* get_placeholder, with the value to keep in placeholder2tag made explicit
   ([store]; see the header) and a flag telling whether a new entry was made. *)
Definition gp (s : state) (el store : xtree) (ty : ttype) (cl : option N) : state * N * bool :=
  let k := (knorm el, ty, cl) in
  match t2p_get (t2p s) k with
  | Some ph => (s, ph, false)
  | None =>
    let c := ctr s + 1 in
    (mkst ((c, (store, ty, cl)) :: p2t s) ((k, c) :: t2p s) c, c, true)
  end.

Definition get_placeholder (s : state) (k : key) : state * N :=
  let '(el, ty, cl) := k in
  let '(s', ph, _) := gp s el el ty cl in (s', ph).

Definition placeholder_of (s : state) (k : key) : option N :=
  let '(el, ty, cl) := k in t2p_get (t2p s) (knorm el, ty, cl).

(* the object stored under [ph] now has value [e] *)
Fixpoint set_elem_l (m : list (N * entry)) (ph : N) (e : xtree) : list (N * entry) :=
  match m with
  | [] => []
  | (c, (el, ty, cl)) :: r => if N.eqb ph c then (c, (e, ty, cl)) :: r else (c, (el, ty, cl)) :: set_elem_l r ph e
  end.
Definition set_elem (s : state) (ph : N) (e : xtree) : state :=
  mkst (set_elem_l (p2t s) ph e) (t2p s) (ctr s).

(* "{http://namespaces.shoobx.com/diff}" *)
Definition DIFF_NS_BRACED : str :=
  [123;104;116;116;112;58;47;47;110;97;109;101;115;112;97;99;101;115;46;115;104;111;111;98;120;46;99;111;109;47;100;105;102;102;125].
Definition s_insert : str := [105;110;115;101;114;116].
Definition s_delete : str := [100;101;108;101;116;101].
Definition s_replace : str := [114;101;112;108;97;99;101].
Definition s_formatting : str := [45;102;111;114;109;97;116;116;105;110;103].   (* "-formatting" *)
Definition diff_elem (name : str) : xtree := XNode (DIFF_NS_BRACED ++ name) [] None [] [].

Definition init_pair (s : state) (name : str) : state :=
  let '(s1, c, _) := gp s (diff_elem name) (diff_elem name) TClose None in
  let '(s2, _, _) := gp s1 (diff_elem name) (diff_elem name) TOpen (Some c) in s2.

(* PlaceholderMaker.__init__ *)
Definition ph_init : state :=
  init_pair (init_pair (init_pair (mkst [] [] PLACEHOLDER_START) s_insert) s_delete) s_replace.

Inductive dact := AIns | ADel | ARep.
(* self.diff_tags[action] = (open, close) *)
Definition diff_tags (a : dact) : N * N :=
  match a with
  | AIns => (57346, 57345) | ADel => (57348, 57347) | ARep => (57350, 57349)
  end.

(* ------------------------------------------------------------- do_element *)
Definition strip (t : xtree) : xtree := XNode (xtag t) (xattrs t) (Some []) [] [].

(* The contribution of one child to its parent's text, [marks] = for every
   non-formatting child met (document order): true if its object was stored. *)
Fixpoint flat_kid (fmt : list str) (s : state) (c : xtree) {struct c} : state * str * list bool :=
  match c with
  | XNode tag attrs text tail kids =>
    let c0 := XNode tag attrs text [] kids in
    if mem tag fmt then
      let '(s1, phc, _) := gp s c0 (strip c0) TClose None in
      let '(s2, pho, _) := gp s1 c0 (strip c0) TOpen (Some phc) in
      let '(s3, inner, mk) :=
        (fix go (s : state) (ks : list xtree) {struct ks} : state * str * list bool :=
           match ks with
           | [] => (s, [], [])
           | k :: ks' =>
             let '(s', t1, m1) := flat_kid fmt s k in
             let '(s'', t2, m2) := go s' ks' in (s'', t1 ++ t2, m1 ++ m2)
           end) s2 kids in
      (s3, pho :: otxt text ++ inner ++ phc :: tail, mk)
    else
      let '(s1, ph, miss) := gp s c0 c0 TSingle None in
      (s1, ph :: tail, [miss])
  end.

Fixpoint flat_kids (fmt : list str) (s : state) (ks : list xtree) : state * str * list bool :=
  match ks with
  | [] => (s, [], [])
  | k :: ks' =>
    let '(s', t1, m1) := flat_kid fmt s k in
    let '(s'', t2, m2) := flat_kids fmt s' ks' in (s'', t1 ++ t2, m1 ++ m2)
  end.

(* the stored object [c0] (filed under the placeholder of its key) now has value [t'] *)
Definition store_final (s : state) (c0 t' : xtree) : state :=
  match t2p_get (t2p s) (knorm c0, TSingle, None) with
  | Some ph => set_elem s ph t'
  | None => s
  end.

(* do_tree: every element of tree.xpath("//t1|//t2...") in document order.
   [post = true]: [t] is a child inside an element that do_element has just
   flattened (so [t] has been replaced by placeholders and is detached);
   [post = false]: [t] is still attached to an unflattened parent (or is the
   root of a detached, stored subtree). *)
Fixpoint dw (tt fmt : list str) (post : bool) (s : state) (marks : list bool) (t : xtree)
  {struct t} : state * list bool * xtree :=
  match t with
  | XNode tag attrs text tail kids =>
    let live (tail' : str) (s : state) : state * xtree :=
      if mem tag tt then
        match kids with
        | [] => (s, XNode tag attrs text tail' [])
        | _ :: _ =>
          let '(s1, txt1, mk) := flat_kids fmt s kids in
          let '(s2, _) :=
            (fix go (s : state) (mk : list bool) (ks : list xtree) {struct ks} : state * list bool :=
               match ks with
               | [] => (s, mk)
               | k :: ks' => let '(s', mk', _) := dw tt fmt true s mk k in go s' mk' ks'
               end) s1 mk kids in
          (s2, XNode tag attrs (Some (otxt text ++ txt1)) tail' [])
        end
      else
        let '(s1, kids') :=
          (fix go (s : state) (ks : list xtree) {struct ks} : state * list xtree :=
             match ks with
             | [] => (s, [])
             | k :: ks' =>
               let '(s', _, k') := dw tt fmt false s [] k in
               let '(s'', r) := go s' ks' in (s'', k' :: r)
             end) s kids in
        (s1, XNode tag attrs text tail' kids') in
    if post then
      if mem tag fmt then
        (* stripped: do_element on it (if it is a text tag) finds no children *)
        let '(s', mk') :=
          (fix go (s : state) (mk : list bool) (ks : list xtree) {struct ks} : state * list bool :=
             match ks with
             | [] => (s, mk)
             | k :: ks' => let '(s', mk', _) := dw tt fmt true s mk k in go s' mk' ks'
             end) s marks kids in
        (s', mk', t)
      else
        let '(s1, t') := live [] s in
        match marks with
        | true :: rest => (store_final s1 (XNode tag attrs text [] kids) t', rest, t')
        | false :: rest => (s1, rest, t')
        | [] => (s1, [], t')
        end
    else
      let '(s1, t') := live tail s in (s1, marks, t')
  end.

(* the loops over children, as stand-alone functions (equal to the inner fixes) *)
Fixpoint dw_post_kids (tt fmt : list str) (s : state) (mk : list bool) (ks : list xtree) : state * list bool :=
  match ks with
  | [] => (s, mk)
  | k :: ks' => let '(s', mk', _) := dw tt fmt true s mk k in dw_post_kids tt fmt s' mk' ks'
  end.
Fixpoint dw_live_kids (tt fmt : list str) (s : state) (ks : list xtree) : state * list xtree :=
  match ks with
  | [] => (s, [])
  | k :: ks' =>
    let '(s', _, k') := dw tt fmt false s [] k in
    let '(s'', r) := dw_live_kids tt fmt s' ks' in (s'', k' :: r)
  end.

Definition do_tree (tt fmt : list str) (s : state) (T : xtree) : state * xtree :=
  let '(s', _, T') := dw tt fmt false s [] T in (s', T').

(* ------------------------------------------------------------------- undo *)
Inductive err := EFuel | EIndex | ENoParent | EKey.
Inductive res (A : Type) := Ok (a : A) | Err (e : err).
Arguments Ok {A} a.
Arguments Err {A} e.
Definition bind {A B} (r : res A) (f : A -> res B) : res B :=
  match r with Ok a => f a | Err e => Err e end.

Definition is_ph (s : state) (c : N) : bool :=
  match p2t_get (p2t s) c with Some _ => true | None => false end.

(* re.split("([<all placeholders>])", text): plain, ph, plain, ..., plain *)
Fixpoint split_string (s : state) (text : str) : list str :=
  match text with
  | [] => [[]]
  | c :: r =>
    if is_ph s c then [] :: [c] :: split_string s r
    else match split_string s r with
         | h :: t => (c :: h) :: t
         | [] => [[c]]
         end
  end.

Definition seg_is (cl : option N) (sg : str) : bool :=
  match cl with Some c => str_eqb sg [c] | None => false end.

(* next_seg = pop(0); while next_seg != close_ph: new_text += next_seg; next_seg = pop(0) *)
Fixpoint take_until (cl : option N) (segs : list str) (acc : str) : option (str * list str) :=
  match segs with
  | [] => None
  | sg :: r => if seg_is cl sg then Some (acc, r) else take_until cl r (acc ++ sg)
  end.

Definition set_text_tail (t : xtree) (x : option str) (l : str) : xtree :=
  XNode (xtag t) (xattrs t) x l (xkids t).
(* element.tail = element.tail or "" + seg   ==  element.tail or seg *)
Definition tail_or (t : xtree) (sg : str) : xtree :=
  match xtail t with [] => XNode (xtag t) (xattrs t) (xtext t) sg (xkids t) | _ => t end.

(* The while loop of undo_string.  [uel] = undo_element on a parentless copy.
   [acc] = children of <wrap> so far, last one first (its head is `element`);
   [rtext] = wrap.text ([] = None).  [n] bounds the iterations (length of the
   segment list suffices). *)
Fixpoint us_loop (s : state) (uel : xtree -> res xtree) (n : nat) (segs : list str)
         (rtext : str) (acc : list xtree) : res (str * list xtree) :=
  match segs with
  | [] => Ok (rtext, rev acc)
  | sg :: rest =>
    match n with
    | O => Err EFuel
    | S n' =>
      match sg with
      | [] => us_loop s uel n' rest rtext acc
      | c :: sg' =>
        match (match sg' with [] => p2t_get (p2t s) c | _ => None end) with
        | Some (el, ty, cl) =>
          match ty with
          | TOpen =>
            match take_until cl rest [] with
            | None => Err EIndex
            | Some (nt, rest') =>
              bind (uel (set_text_tail el (ornone nt) []))
                   (fun e' => us_loop s uel n' rest' rtext (e' :: acc))
            end
          | _ => bind (uel el) (fun e' => us_loop s uel n' rest rtext (e' :: acc))
          end
        | None =>
          match acc with
          | e :: acc' => us_loop s uel n' rest rtext (tail_or e sg :: acc')
          | [] => us_loop s uel n' rest (match rtext with [] => sg | _ => rtext end) acc
          end
        end
      end
    end
  end.

Fixpoint mapM {A B} (f : A -> res B) (l : list A) : res (list B) :=
  match l with
  | [] => Ok []
  | a :: r => bind (f a) (fun b => bind (mapM f r) (fun r' => Ok (b :: r')))
  end.

(* undo_element.  Result: the element and the new siblings inserted after it
   (from placeholders in its tail).  [has_parent = false]: getparent() is None. *)
Fixpoint undo_element (fuel : nat) (s : state) (has_parent : bool) (e : xtree) {struct fuel}
  : res (xtree * list xtree) :=
  match fuel with
  | O => Err EFuel
  | S f =>
    match p2t s with
    | [] => Ok (e, [])
    | _ :: _ =>
      let ustr (x : str) : res (str * list xtree) :=
        let segs := split_string s x in
        us_loop s (fun el => bind (undo_element f s false el) (fun r => Ok (fst r)))
                (S (length segs)) segs [] [] in
      (* `for child in content: self.undo_element(child); X.insert(index, child)`:
         siblings a child inserts after itself stay behind in <wrap> and are lost *)
      let ucontent (cs : list xtree) : res (list xtree) :=
        mapM (fun c => bind (undo_element f s true c) (fun r => Ok (fst r))) cs in
      let '(XNode tag attrs text tail kids) := e in
      (* if elem.text: *)
      bind (match otxt text with
            | [] => Ok (text, kids)
            | _ :: _ =>
              bind (ustr (otxt text)) (fun '(rt, cs) =>
                if str_eqb (otxt text) rt then Ok (text, kids)
                else bind (ucontent cs) (fun cs' => Ok (ornone rt, cs' ++ kids)))
            end) (fun '(text1, kids1) =>
      (* for child in elem: self.undo_element(child)  (new siblings are skipped by the iterator but stay) *)
      bind (mapM (fun c => bind (undo_element f s true c) (fun r => Ok (fst r :: snd r))) kids1) (fun kk =>
      let kids2 := concat kk in
      (* if elem.tail: *)
      match tail with
      | [] => Ok (XNode tag attrs text1 tail kids2, [])
      | _ :: _ =>
        bind (ustr tail) (fun '(rt, cs) =>
          if str_eqb tail rt then Ok (XNode tag attrs text1 tail kids2, [])
          else if has_parent
               then bind (ucontent cs) (fun cs' => Ok (XNode tag attrs text1 rt kids2, cs'))
               else Err ENoParent)
      end))
    end
  end.

(* undo_string as a stand-alone function *)
Definition undo_string (fuel : nat) (s : state) (x : str) : res (str * list xtree) :=
  let segs := split_string s x in
  us_loop s (fun el => bind (undo_element fuel s false el) (fun r => Ok (fst r)))
          (S (length segs)) segs [] [].

Definition undo_tree_fuel (fuel : nat) (s : state) (T : xtree) : res xtree :=
  bind (undo_element fuel s false T) (fun r => Ok (fst r)).

(* The fuel undo_tree runs with.  One unit is used per level of nesting of the
   restored document (C11_roundtrip: any fuel above the nesting depth of the
   original document gives the answer, and the answer does not depend on fuel),
   so UNDO_DEPTH is the model's counterpart of Python's recursion limit (1000
   frames, about three per level); the size-dependent part keeps documents
   that are deep but acyclic working. *)
Definition UNDO_DEPTH : nat := 400.
Fixpoint xsize (t : xtree) : nat :=
  match t with
  | XNode _ _ _ _ kids => S ((fix go (l : list xtree) : nat := match l with [] => O | k :: r => (xsize k + go r)%nat end) kids)
  end.
Fixpoint tsize (t : xtree) : nat :=   (* nodes + characters *)
  match t with
  | XNode _ _ x l kids =>
    S (length (otxt x) + length l +
       (fix go (l : list xtree) : nat := match l with [] => O | k :: r => (tsize k + go r)%nat end) kids)%nat
  end.
Fixpoint xheight (t : xtree) : nat :=   (* nesting depth *)
  match t with
  | XNode _ _ _ _ kids =>
    S ((fix go (l : list xtree) : nat := match l with [] => O | k :: r => Nat.max (xheight k) (go r) end) kids)
  end.
Definition table_size (s : state) : nat :=
  fold_right (fun pe acc => tsize (fst (fst (snd pe))) + acc)%nat O (p2t s).
Definition default_fuel (s : state) (T : xtree) : nat := (UNDO_DEPTH + 2 * tsize T + 2 * table_size s)%nat.

Definition undo_tree (s : state) (T : xtree) : res xtree := undo_tree_fuel (default_fuel s T) s T.

(* -------------------------------------------------- mark_diff / wrap_diff *)
(* elem.attrib[k] = v *)
Fixpoint set_attr (a : list (str * str)) (k v : str) : list (str * str) :=
  match a with
  | [] => [(k, v)]
  | (k', v') :: r => if str_eqb k k' then (k', v) :: r else (k', v') :: set_attr r k v
  end.
Definition set_attrs (a : list (str * str)) (upd : list (str * str)) : list (str * str) :=
  fold_left (fun a kv => set_attr a (fst kv) (snd kv)) upd a.
Definition with_attrs (t : xtree) (a : list (str * str)) : xtree :=
  XNode (xtag t) a (xtext t) (xtail t) (xkids t).

Definition mark_diff (fmt : list str) (s : state) (ph : N) (action : str) (attributes : list (str * str))
  : res (state * N) :=
  match p2t_get (p2t s) ph with
  | None => Err EKey
  | Some (el, ty, cl) =>
    match ty with
    | TClose => Ok (s, ph)
    | _ =>
      let action' := if mem (xtag el) fmt then action ++ s_formatting else action in
      let el' := with_attrs el (set_attrs (set_attr (xattrs el) (DIFF_NS_BRACED ++ action') []) attributes) in
      let '(s', c, _) := gp s el' el' ty cl in Ok (s', c)
    end
  end.

Definition wrap_diff (s : state) (text : str) (action : dact) (attributes : list (str * str))
  : res (state * str) :=
  let '(open_ph, close_ph) := diff_tags action in
  match attributes with
  | [] => Ok (s, open_ph :: text ++ [close_ph])
  | _ :: _ =>
    match p2t_get (p2t s) open_ph with
    | None => Err EKey
    | Some (el, ty, cl) =>
      let el' := with_attrs el (set_attrs (xattrs el) attributes) in
      let '(s', c, _) := gp s el' el' ty cl in Ok (s', c :: text ++ [close_ph])
    end
  end.

(* ----------------------------------------------------------- histories *)
Inductive op :=
| OpGet (el : xtree) (ty : ttype) (cl : option N)                     (* get_placeholder *)
| OpMark (ph : N) (action : str) (attributes : list (str * str))      (* mark_diff *)
| OpWrap (text : str) (action : dact) (attributes : list (str * str)) (* wrap_diff *)
| OpDo (T : xtree).                                                   (* do_tree *)

(* one call on a maker configured with (text_tags, formatting_tags); a call
   that raises leaves the tables as they are *)
Definition ph_step (tt fmt : list str) (s : state) (o : op) : state :=
  match o with
  | OpGet el ty cl => fst (get_placeholder s (el, ty, cl))
  | OpMark ph a at_ => match mark_diff fmt s ph a at_ with Ok (s', _) => s' | Err _ => s end
  | OpWrap x a at_ => match wrap_diff s x a at_ with Ok (s', _) => s' | Err _ => s end
  | OpDo T => fst (do_tree tt fmt s T)
  end.

(* the value returned by the call, for the correspondence check *)
Inductive opres := RPh (c : N) | RStr (x : str) | RTree (t : xtree) | RErr (e : err).
Definition ph_step_res (tt fmt : list str) (s : state) (o : op) : opres :=
  match o with
  | OpGet el ty cl => RPh (snd (get_placeholder s (el, ty, cl)))
  | OpMark ph a at_ => match mark_diff fmt s ph a at_ with Ok (_, c) => RPh c | Err e => RErr e end
  | OpWrap x a at_ => match wrap_diff s x a at_ with Ok (_, r) => RStr r | Err e => RErr e end
  | OpDo T => RTree (snd (do_tree tt fmt s T))
  end.
