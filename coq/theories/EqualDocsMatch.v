(* EqualDocsMatch.v -- Differ.match() on two equal documents returns the
   identity matching, under the three strategies (C03, matcher half).

   ORACLE LAWS USED (all hold of the float oracle: ratio(s, s) == 1.0,
   sqrt((1 + (n/n)^2)/2) == 1.0, 0 < 1.0, F <= 1.0):
     leaf_refl : forall s, sim_is_one (leaf_sim s s) = true
     comb_full : forall m n, sim_is_one m = true -> 0 < n -> sim_is_one (combine m n n) = true
     one_one   : sim_is_one one = true
     one_pos   : forall x, sim_is_one x = true -> sim_ltb zero x = true
     one_geF   : forall x, sim_is_one x = true -> sim_leb F x = true
   and, ONLY for fast_match (ofast o = true):
     F_pos     : sim_leb F zero = false
     comb0     : forall s t n x n', 0 < n -> sim_leb F (combine (leaf_sim s t) 0 n) = true ->
                   sim_is_one x = true -> 0 < n' -> sim_leb F (combine x 0 n') = true
   (with no child matched, the ratio sqrt(m^2/2) of a pair of nodes passes the
   threshold only if sqrt(1/2) does; true of floats since m <= 1.0 and the
   operations are monotone, and 0/n = 0 whatever n). *)
From Coq Require Import List NArith ZArith Bool Arith Lia Sorting.Sorted Sorting.Permutation.
Import ListNotations.
Require Import XV.Str XV.Forest XV.LCS XV.LCSProofs XV.Matcher XV.MatcherProofs XV.Differ XV.WF
               XV.ForestProofs XV.TreeProofs XV.AttrProofs XV.EqualDocsBase.

(* ------------------------------------------------------------------ *)
(** * Small facts                                                       *)
(* ------------------------------------------------------------------ *)
Lemma flat_map_ext_in {A B} (f g : A -> list B) (l : list A) :
  (forall x, In x l -> f x = g x) -> flat_map f l = flat_map g l.
Proof.
  induction l as [|x l IH]; intros H; cbn [flat_map]; [reflexivity|].
  rewrite (H x (or_introl eq_refl)). f_equal. apply IH. intros y Hy. apply H. right; exact Hy.
Qed.

Lemma count_matched_none : forall lk rk, count_matched (fun _ => None) lk rk = 0.
Proof. induction lk as [|c lk IH]; intros rk; cbn [count_matched]; [reflexivity|apply IH]. Qed.

Lemma count_matched_self (l2r : l2rmap) : forall lk rk,
  NoDup lk -> incl lk rk -> (forall c, In c lk -> l2r c = Some c) ->
  count_matched l2r lk rk = length lk.
Proof.
  induction lk as [|c lk IH]; intros rk Hnd Hincl Hm; cbn [count_matched length]; [reflexivity|].
  inversion Hnd as [|? ? Hc Hnd']; subst.
  rewrite (Hm c (or_introl eq_refl)).
  assert (Hmem : mem c rk = true) by (apply MatcherProofs.mem_In, Hincl; left; reflexivity).
  rewrite Hmem. f_equal. apply IH; [exact Hnd'| |intros x Hx; apply Hm; right; exact Hx].
  intros x Hx. apply MatcherProofs.remove_id_In. split; [apply Hincl; right; exact Hx|].
  intros ->. contradiction.
Qed.

Lemma drop_positions_complete ps : forall l i x k,
  nth_error l k = Some x -> ~ In (i + k) ps -> In x (drop_positions i ps l).
Proof.
  induction l as [|y l IH]; intros i x k Hk Hn; [destruct k; discriminate|].
  cbn [drop_positions]. destruct k as [|k]; cbn [nth_error] in Hk.
  - injection Hk as ->. rewrite Nat.add_0_r in Hn.
    destruct (existsb (Nat.eqb i) ps) eqn:E; [|left; reflexivity].
    exfalso. apply Hn. apply existsb_eqb_In. exact E.
  - assert (Hin : In x (drop_positions (S i) ps l)).
    { apply (IH (S i) x k Hk). replace (S i + k) with (i + S k) by lia. exact Hn. }
    destruct (existsb (Nat.eqb i) ps); [exact Hin|right; exact Hin].
Qed.

Lemma SS_drop_positions {Rel : id -> id -> Prop} ps : forall l i,
  StronglySorted Rel l -> StronglySorted Rel (drop_positions i ps l).
Proof.
  induction l as [|y l IH]; intros i H; cbn [drop_positions]; [constructor|].
  inversion H as [|? ? Hs Hall]; subst.
  destruct (existsb (Nat.eqb i) ps); [apply IH, Hs|].
  constructor; [apply IH, Hs|]. rewrite Forall_forall in *. intros x Hx.
  apply Hall. eapply drop_positions_incl. exact Hx.
Qed.

(* the l2r map after recording a list of diagonal pairs *)
Lemma fold_append_diag_l2r (g : Z * Z -> id) : forall ps s x,
  (forall y, ms_l2r s y = Some y \/ ms_l2r s y = None) ->
  let s' := fold_left (fun s p => append_match s (g p) (g p)) ps s in
  (In x (map g ps) -> ms_l2r s' x = Some x) /\
  (forall y, ms_l2r s' y = Some y \/ ms_l2r s' y = None).
Proof.
  induction ps as [|p ps IH]; intros s x Hs; cbn [fold_left map].
  - split; [intros []|exact Hs].
  - assert (Hs' : forall y, ms_l2r (append_match s (g p) (g p)) y = Some y \/
                            ms_l2r (append_match s (g p) (g p)) y = None).
    { intros y. cbn [append_match ms_l2r]. unfold upd.
      destruct (Nat.eqb_spec y (g p)) as [->|_]; [left; reflexivity|apply Hs]. }
    destruct (IH (append_match s (g p) (g p)) x Hs') as [I1 I2].
    split; [|exact I2]. intros [E|Hin]; [|apply I1, Hin].
    (* x recorded first: later records cannot change it to something else *)
    clear I1. subst x.
    assert (G : forall qs t, ms_l2r t (g p) = Some (g p) ->
              ms_l2r (fold_left (fun s p => append_match s (g p) (g p)) qs t) (g p) = Some (g p)).
    { induction qs as [|q qs IHq]; intros t Ht; cbn [fold_left]; [exact Ht|].
      apply IHq. cbn [append_match ms_l2r]. unfold upd.
      destruct (Nat.eqb_spec (g p) (g q)) as [E|_]; [rewrite <- E; reflexivity|exact Ht]. }
    apply G. cbn [append_match ms_l2r]. unfold upd. rewrite Nat.eqb_refl. reflexivity.
Qed.

(* ------------------------------------------------------------------ *)
(** * The unique-attribute loop                                         *)
(* ------------------------------------------------------------------ *)
Section Uniq.
Variable sim : Type.
Variables zero one : sim.
Variable o : mopts sim.
Local Notation ign := (oignored sim o).
Local Notation ud := (uniq_decide sim zero one o).

Definition trig (u : uattr) (lt rt : tagt) (la ra : list (str * str)) : bool :=
  ua_appliesb u lt rt && negb (smem (ua_name u) ign)
  && (ahas la (ua_name u) || ahas ra (ua_name u)).

Lemma ud_cons u rest lt rt la ra found :
  ud (u :: rest) lt rt la ra found =
  if trig u lt rt la ra
  then if ostr_eqb (aget la (ua_name u)) (aget ra (ua_name u))
       then ud rest lt rt la ra true else Some zero
  else ud rest lt rt la ra found.
Proof. apply uniq_decide_cons. Qed.

Lemma ud_found lt rt la ra : forall us, ud us lt rt la ra true <> None.
Proof.
  induction us as [|u us IH]; [cbn; discriminate|]. rewrite ud_cons.
  destruct (trig u lt rt la ra); [|exact IH].
  destruct (ostr_eqb _ _); [exact IH|discriminate].
Qed.

Lemma ud_none lt rt la ra : forall us,
  ud us lt rt la ra false = None -> forall u, In u us -> trig u lt rt la ra = false.
Proof.
  induction us as [|u us IH]; intros H u' Hin; [destruct Hin|].
  rewrite ud_cons in H. destruct (trig u lt rt la ra) eqn:T.
  - exfalso. destruct (ostr_eqb _ _); [|discriminate]. exact (ud_found _ _ _ _ _ H).
  - destruct Hin as [<-|Hin]; [exact T|exact (IH H u' Hin)].
Qed.

(* if the left node carries no triggering attribute, the loop cannot accept *)
Lemma ud_left_absent lt rt la ra : forall us,
  (forall u, In u us -> ua_appliesb u lt rt = true -> smem (ua_name u) ign = false ->
             ahas la (ua_name u) = false) ->
  ud us lt rt la ra false = None \/ ud us lt rt la ra false = Some zero.
Proof.
  induction us as [|u us IH]; intros H; [left; reflexivity|]. rewrite ud_cons.
  destruct (trig u lt rt la ra) eqn:T.
  - right. unfold trig in T. apply andb_true_iff in T as [T T3]. apply andb_true_iff in T as [T1 T2].
    apply negb_true_iff in T2. pose proof (H u (or_introl eq_refl) T1 T2) as Hl.
    rewrite Hl in T3. cbn [orb] in T3.
    rewrite (MatcherProofs.ahas_false _ _ Hl).
    unfold ahas in T3. destruct (aget ra (ua_name u)); [reflexivity|discriminate].
  - apply IH. intros u' Hin. apply H. right; exact Hin.
Qed.

Lemma ud_right_absent lt rt la ra : forall us,
  (forall u, In u us -> ua_appliesb u lt rt = true -> smem (ua_name u) ign = false ->
             ahas ra (ua_name u) = false) ->
  ud us lt rt la ra false = None \/ ud us lt rt la ra false = Some zero.
Proof.
  induction us as [|u us IH]; intros H; [left; reflexivity|]. rewrite ud_cons.
  destruct (trig u lt rt la ra) eqn:T.
  - right. unfold trig in T. apply andb_true_iff in T as [T T3]. apply andb_true_iff in T as [T1 T2].
    apply negb_true_iff in T2. pose proof (H u (or_introl eq_refl) T1 T2) as Hr.
    rewrite Hr, orb_false_r in T3.
    rewrite (MatcherProofs.ahas_false _ _ Hr).
    unfold ahas in T3. destruct (aget la (ua_name u)); [reflexivity|discriminate].
  - apply IH. intros u' Hin. apply H. right; exact Hin.
Qed.

(* a node against a copy of itself: accepted or undecided *)
Lemma ud_self t la ra found :
  aeq la ra -> ud (ouniq sim o) t t la ra found = Some one \/ ud (ouniq sim o) t t la ra found = None.
Proof.
  intros H. apply uniq_decide_agree. intros u _ _ _. apply H.
Qed.
End Uniq.

(* ------------------------------------------------------------------ *)
(** * What the matcher needs of the two documents                       *)
(* ------------------------------------------------------------------ *)
(* same shape, same tags, same attributes up to order, same similarity strings
   (node_text), comments with the same text: everything node_ratio looks at.
   Equal documents are an instance ([same_doc_sim]); so are documents that only
   differ by white space that node_text collapses (TextOnly.v). *)
Definition sim_doc (sim : Type) (o : mopts sim) (L R : forest) (root : id) : Prop :=
  fnext L = fnext R /\
  (forall n, n < fnext L -> fkids L n = fkids R n) /\
  (forall n, n < fnext L -> ltag (flab L n) = ltag (flab R n) /\
                            Permutation (lattrs (flab L n)) (lattrs (flab R n))) /\
  (forall n, desc L root n -> node_text sim o R n = node_text sim o L n) /\
  (forall n, desc L root n -> is_comment (ltag (flab L n)) = true ->
             otext (ltext (flab R n)) = otext (ltext (flab L n))).

Lemma same_doc_sim sim (o : mopts sim) L R root :
  wf_forest L root -> same_doc L R -> sim_doc sim o L R root.
Proof.
  intros Hwf (Hn & Hk & Hl).
  split; [exact Hn|]. split; [exact Hk|]. split; [|split].
  - intros n Hx. destruct (Hl n Hx) as (H1 & _ & _ & H4). split; assumption.
  - intros x Hd. pose proof (desc_lt_root L root Hwf x Hd) as Hx.
    destruct (Hl x Hx) as (Htag & Htext & _ & Hperm).
    assert (Ht : text_nodes R x = text_nodes L x).
    { unfold text_nodes, labof, kidsof. rewrite <- Htext, <- (Hk x Hx).
      replace (map (fun c => otext (ltail (flab R c))) (fkids L x))
        with (map (fun c => otext (ltail (flab L c))) (fkids L x)); [reflexivity|].
      apply map_ext_in. intros c Hc.
      destruct (Hl c (wf_kids_lt L root Hwf x c Hx Hc)) as (_ & _ & H & _). rewrite H. reflexivity. }
    assert (Hs : sort_attrs (node_attribs sim o (lattrs (labof R x)))
                 = sort_attrs (node_attribs sim o (lattrs (labof L x)))).
    { change (node_attribs sim o) with (node_attribs_d (oignored sim o)). unfold labof.
      assert (NDl : NoDup (map fst (lattrs (flab L x)))) by apply (wf_attrs L root Hwf x Hx).
      assert (NDr : NoDup (map fst (lattrs (flab R x)))).
      { eapply Permutation_NoDup; [apply Permutation_map; exact Hperm|exact NDl]. }
      apply sort_attrs_aeq.
      + apply node_attribs_NoDup, NDr.
      + apply node_attribs_NoDup, NDl.
      + apply node_attribs_aeq, aeq_sym, aget_perm; assumption. }
    unfold node_text. unfold labof in *. rewrite <- Htag, Ht, Hs. reflexivity.
  - intros n Hd _. destruct (Hl n (desc_lt_root L root Hwf n Hd)) as (_ & H & _). rewrite H. reflexivity.
Qed.

(* ------------------------------------------------------------------ *)
(** * The matcher on equal documents                                    *)
(* ------------------------------------------------------------------ *)
Section Match.
Variable sim : Type.
Variables (sim_ltb sim_leb : sim -> sim -> bool) (sim_is_one : sim -> bool) (zero one : sim).
Variable leaf_sim : str -> str -> sim.
Variable combine : sim -> nat -> nat -> sim.
Variable o : mopts sim.
Variables L R : forest.
Variable root : id.

Local Notation nratio := (node_ratio sim zero one leaf_sim combine o L R).
Local Notation F := (oF sim o).
Local Notation PO := (po L root).

Hypothesis Hwf : wf_forest L root.
Hypothesis Hsim : sim_doc sim o L R root.

Hypothesis leaf_refl : forall s, sim_is_one (leaf_sim s s) = true.
Hypothesis comb_full : forall m n, sim_is_one m = true -> 0 < n -> sim_is_one (combine m n n) = true.
Hypothesis one_one : sim_is_one one = true.
Hypothesis one_pos : forall x, sim_is_one x = true -> sim_ltb zero x = true.
Hypothesis one_geF : forall x, sim_is_one x = true -> sim_leb F x = true.

(* ---- labels of the two copies of a node ---- *)
Lemma lab_tag x : x < fnext L -> ltag (labof R x) = ltag (labof L x).
Proof. intros Hx. destruct Hsim as (_ & _ & Hl & _). destruct (Hl x Hx) as (H & _). symmetry; exact H. Qed.
Lemma lab_attrs x : x < fnext L -> aeq (lattrs (labof L x)) (lattrs (labof R x)).
Proof.
  intros Hx. destruct Hsim as (_ & _ & Hl & _). destruct (Hl x Hx) as (_ & H).
  apply aget_perm; [apply (wf_attrs L root Hwf x Hx)|exact H].
Qed.
Lemma kids_same x : x < fnext L -> kidsof R x = kidsof L x.
Proof. intros Hx. destruct Hsim as (_ & Hk & _). symmetry. apply Hk, Hx. Qed.
Lemma node_text_same x : desc L root x -> node_text sim o R x = node_text sim o L x.
Proof. intros Hx. destruct Hsim as (_ & _ & _ & H & _). apply H, Hx. Qed.
Lemma comment_text x : desc L root x -> is_comment (ltag (labof L x)) = true ->
  otext (ltext (labof R x)) = otext (ltext (labof L x)).
Proof. intros Hx Hc. destruct Hsim as (_ & _ & _ & _ & H). apply H; assumption. Qed.

(* ---- a node against itself ---- *)
(* the value of node_ratio on (x, x): a "one", or -- for an element with children
   on which the unique-attribute loop is silent -- combine m c n *)
Lemma node_ratio_self_cases l2r x :
  desc L root x ->
  sim_is_one (nratio l2r x x) = true \/
  (is_comment (ltag (labof L x)) = false /\
   uniq_decide sim zero one o (ouniq sim o) (ltag (labof L x)) (ltag (labof R x))
               (lattrs (labof L x)) (lattrs (labof R x)) false = None /\
   kidsof L x <> [] /\
   exists m, sim_is_one m = true /\
     nratio l2r x x = combine m (count_matched l2r (kidsof L x) (kidsof L x)) (length (kidsof L x))).
Proof.
  intros Hd. pose proof (desc_lt_root L root Hwf x Hd) as Hx. unfold node_ratio. rewrite (lab_tag x Hx).
  destruct (is_comment (ltag (labof L x))) eqn:Hc; cbn [orb andb].
  - left. rewrite (comment_text x Hd Hc). apply leaf_refl.
  - destruct (ud_self sim zero one o (ltag (labof L x)) (lattrs (labof L x)) (lattrs (labof R x)) false
                (lab_attrs x Hx)) as [E|E]; rewrite E.
    + left. exact one_one.
    + rewrite (node_text_same x Hd). unfold child_ratio. rewrite (kids_same x Hx).
      destruct (kidsof L x) as [|c ks] eqn:Ek.
      * left. apply leaf_refl.
      * right. split; [reflexivity|]. split; [reflexivity|]. split; [discriminate|].
        eexists. split; [apply leaf_refl|]. rewrite Nat.max_id. reflexivity.
Qed.

Lemma node_ratio_self l2r x :
  desc L root x -> (forall c, In c (fkids L x) -> l2r c = Some c) ->
  sim_is_one (nratio l2r x x) = true.
Proof.
  intros Hd Hk. pose proof (desc_lt_root L root Hwf x Hd) as Hx.
  destruct (node_ratio_self_cases l2r x Hd) as [H|(_ & _ & Hne & m & Hm & E)]; [exact H|].
  rewrite E. rewrite count_matched_self.
  - apply comb_full; [exact Hm|]. destruct (kidsof L x); [congruence|cbn; lia].
  - apply (wf_kids_nodup L root Hwf x Hx).
  - apply incl_refl.
  - exact Hk.
Qed.

(* ---- the loops ---- *)
Fixpoint ready (l2r : l2rmap) (pend : list id) : Prop :=
  match pend with
  | [] => True
  | x :: rest => desc L root x /\ ~ In x rest /\ (forall c, In c (fkids L x) -> l2r c = Some c) /\
                 ready (upd l2r x (Some x)) rest
  end.

Lemma ready_sub : forall pend l2r,
  StronglySorted (nokid L) pend -> NoDup pend ->
  (forall x, In x pend -> desc L root x) ->
  (forall x c, In x pend -> In c (fkids L x) -> In c pend \/ l2r c = Some c) ->
  ready l2r pend.
Proof.
  induction pend as [|x rest IH]; intros l2r Hss Hnd Hd Hk; cbn [ready]; [exact I|].
  inversion Hss as [|? ? Hss' Hall]; subst. inversion Hnd as [|? ? Hx Hnd']; subst.
  rewrite Forall_forall in Hall.
  split; [apply Hd; left; reflexivity|]. split; [exact Hx|]. split.
  - intros c Hc. destruct (Hk x c (or_introl eq_refl) Hc) as [[E|Hin]|H]; [| |exact H].
    + subst c. exfalso. eapply (kid_not_self L root Hwf x); [apply Hd; left; reflexivity|exact Hc].
    + exfalso. apply (Hall c Hin). exact Hc.
  - apply IH; [exact Hss'|exact Hnd'|intros y Hy; apply Hd; right; exact Hy|].
    intros y c Hy Hc. unfold upd.
    destruct (Hk y c (or_intror Hy) Hc) as [[E|Hin]|H].
    + subst c. right. rewrite Nat.eqb_refl. reflexivity.
    + left. exact Hin.
    + right. destruct (Nat.eqb_spec c x) as [->|_]; [reflexivity|exact H].
Qed.

Definition diag (l : list id) : list (id * id) := map (fun x => (x, x)) l.

Lemma best_cand_first l2r x rest :
  sim_is_one (nratio l2r x x) = true ->
  best_cand sim sim_ltb sim_is_one zero one leaf_sim combine o L R l2r x (x :: rest) None zero
  = (Some x, nratio l2r x x).
Proof. intros H. cbn [best_cand]. rewrite (one_pos _ H), H. reflexivity. Qed.

Lemma perfect_cand_first l2r x rest :
  sim_is_one (nratio l2r x x) = true ->
  perfect_cand sim sim_ltb sim_is_one zero one leaf_sim combine o L R l2r x (x :: rest) None zero
  = inl x.
Proof. intros H. cbn [perfect_cand]. rewrite H. reflexivity. Qed.

Lemma remove_head x rest : ~ In x rest -> remove_id x (x :: rest) = rest.
Proof.
  intros H. unfold remove_id. cbn [filter]. rewrite Nat.eqb_refl. cbn [negb].
  apply filter_all. intros y Hy. apply negb_true_iff, Nat.eqb_neq. intros ->. contradiction.
Qed.

Lemma default_loop_ready : forall pend s,
  ready (ms_l2r s) pend ->
  ms_matches (default_loop sim sim_ltb sim_leb sim_is_one zero one leaf_sim combine o L R pend pend s)
  = ms_matches s ++ diag pend.
Proof.
  induction pend as [|x rest IH]; intros s Hr; cbn [default_loop diag map].
  - rewrite app_nil_r. reflexivity.
  - destruct Hr as (Hx & Hnin & Hk & Hr).
    pose proof (node_ratio_self (ms_l2r s) x Hx Hk) as Hone.
    rewrite (best_cand_first (ms_l2r s) x rest Hone). rewrite (one_geF _ Hone).
    rewrite (remove_head x rest Hnin). rewrite IH by exact Hr.
    cbn [append_match ms_matches]. rewrite <- app_assoc. reflexivity.
Qed.

Lemma best_stage1_ready : forall pend s un,
  ready (ms_l2r s) pend ->
  exists s', best_stage1 sim sim_ltb sim_is_one zero one leaf_sim combine o L R pend pend s un
             = ([], s', un) /\ ms_matches s' = ms_matches s ++ diag pend.
Proof.
  induction pend as [|x rest IH]; intros s un Hr; cbn [best_stage1 diag map].
  - exists s. rewrite app_nil_r. split; reflexivity.
  - destruct Hr as (Hx & Hnin & Hk & Hr).
    pose proof (node_ratio_self (ms_l2r s) x Hx Hk) as Hone.
    rewrite (perfect_cand_first (ms_l2r s) x rest Hone).
    rewrite (remove_head x rest Hnin).
    destruct (IH (append_match s x x) un Hr) as (s' & E & Hm). exists s'. split; [exact E|].
    rewrite Hm. cbn [append_match ms_matches]. rewrite <- app_assoc. reflexivity.
Qed.

(* ---- the node lists ---- *)
Lemma post_order_same : forall k a, a < fnext L -> post_order k R a = post_order k L a.
Proof.
  induction k as [|k IH]; intros a Ha; cbn [post_order]; [reflexivity|].
  rewrite (kids_same a Ha). f_equal. apply flat_map_ext_in. intros c Hc.
  apply IH. apply (wf_kids_lt L root Hwf a c Ha Hc).
Qed.

Definition pend0 : list id := remove_id root PO.

Lemma pend0_In x : In x pend0 <-> desc L root x /\ x <> root.
Proof. unfold pend0. rewrite MatcherProofs.remove_id_In, (po_In L root Hwf). reflexivity. Qed.

Lemma pend0_NoDup : NoDup pend0.
Proof. apply NoDup_filter, (po_NoDup L root Hwf). Qed.

Lemma pend0_sorted : StronglySorted (nokid L) pend0.
Proof. apply SS_filter, (po_sorted L root Hwf). Qed.

Lemma kid_in_pend0 x c : desc L root x -> In c (fkids L x) -> In c pend0.
Proof.
  intros Hd Hc. apply pend0_In. split; [eapply desc_step; eauto|].
  intros ->. apply (wf_root_top L root Hwf x); [apply (desc_lt_root L root Hwf), Hd|exact Hc].
Qed.

Lemma rs_same : remove_id root (post_order (S (fnext R)) R root) = pend0.
Proof.
  destruct Hsim as (Hn & _). rewrite <- Hn.
  rewrite post_order_same by apply (wf_root_lt L root Hwf). reflexivity.
Qed.

Lemma identity_intro (ms : list id) :
  (forall x, In x ms <-> In x pend0) ->
  identity_matching L root (diag ms ++ [(root, root)]).
Proof.
  intros H. split.
  - intros l r Hin. apply in_app_or in Hin as [Hin|[E|[]]]; [|congruence].
    unfold diag in Hin. apply in_map_iff in Hin as (x & E & _). congruence.
  - intros n Hd. apply in_or_app. destruct (Nat.eq_dec n root) as [->|Hne]; [right; left; reflexivity|].
    left. unfold diag. apply in_map_iff. exists n. split; [reflexivity|].
    apply H, pend0_In. split; assumption.
Qed.

Lemma ready_pend0 : ready (fun _ => None) pend0.
Proof.
  apply ready_sub; [apply pend0_sorted|apply pend0_NoDup|intros x Hx; apply pend0_In, Hx|].
  intros x c Hx Hc. left. apply (kid_in_pend0 x c); [apply pend0_In, Hx|exact Hc].
Qed.

(* ---- fast_match ---- *)
Section Fast.
Hypothesis F_pos : sim_leb F zero = false.
Hypothesis comb0 : forall s t n x n', 0 < n -> sim_leb F (combine (leaf_sim s t) 0 n) = true ->
  sim_is_one x = true -> 0 < n' -> sim_leb F (combine x 0 n') = true.

Local Notation e0 := (fun _ : id => @None id).
Definition pass (x y : id) : bool := sim_leb F (nratio e0 x y).

(* the shape of node_ratio on a passing pair of elements on which the
   unique-attribute loop is silent *)
Lemma pass_self_or a :
  desc L root a ->
  (exists s t n, 0 < n /\ sim_leb F (combine (leaf_sim s t) 0 n) = true) ->
  pass a a = true.
Proof.
  intros Ha (s & t & n & Hn & Hst). unfold pass.
  destruct (node_ratio_self_cases e0 a Ha) as [H|(_ & _ & Hne & m & Hm & E)]; [apply one_geF, H|].
  rewrite E, count_matched_none. eapply comb0; [exact Hn|exact Hst|exact Hm|].
  destruct (kidsof L a); [congruence|cbn; lia].
Qed.

Lemma pass_closed a b :
  desc L root a -> desc L root b -> pass a b = true -> pass a a = true /\ pass b b = true.
Proof.
  intros Hda Hdb Hp.
  pose proof (desc_lt_root L root Hwf a Hda) as Ha. pose proof (desc_lt_root L root Hwf b Hdb) as Hb.
  (* either side passes against itself outright, or is an element with children
     on which the unique-attribute loop is silent *)
  assert (Hshape : forall x, desc L root x ->
            pass x x = true \/
            (is_comment (ltag (labof L x)) = false /\
             uniq_decide sim zero one o (ouniq sim o) (ltag (labof L x)) (ltag (labof R x))
               (lattrs (labof L x)) (lattrs (labof R x)) false = None /\ kidsof L x <> [])).
  { intros x Hx. destruct (node_ratio_self_cases e0 x Hx) as [H|(H1 & H2 & H3 & _)].
    - left. apply one_geF, H.
    - right. auto. }
  (* in the second case for a or b, the pair (a, b) has the combine shape *)
  assert (Hcomb : (exists x, (x = a \/ x = b) /\ is_comment (ltag (labof L x)) = false /\
             uniq_decide sim zero one o (ouniq sim o) (ltag (labof L x)) (ltag (labof R x))
               (lattrs (labof L x)) (lattrs (labof R x)) false = None /\ kidsof L x <> []) ->
            exists s t n, 0 < n /\ sim_leb F (combine (leaf_sim s t) 0 n) = true).
  { intros (x & Hx & Hcx & Hux & Hkx).
    unfold pass, node_ratio in Hp.
    destruct (is_comment (ltag (labof L a)) || is_comment (ltag (labof R b))) eqn:Hcc.
    { (* a comment is involved: b is not x-like ... the value is leaf_sim or zero *)
      destruct (is_comment (ltag (labof L a)) && is_comment (ltag (labof R b))) eqn:Hboth;
        [|rewrite F_pos in Hp; discriminate].
      apply andb_true_iff in Hboth as [C1 C2]. rewrite (lab_tag b Hb) in C2.
      destruct Hx as [->| ->]; congruence. }
    apply orb_false_iff in Hcc as [Ca Cb].
    set (U := uniq_decide sim zero one o (ouniq sim o) (ltag (labof L a)) (ltag (labof R b))
                (lattrs (labof L a)) (lattrs (labof R b)) false) in *.
    assert (HU : U = None \/ U = Some zero).
    { destruct Hx as [-> | ->].
      - apply ud_left_absent. intros u Hu Happ Hign.
        pose proof (ud_none sim zero one o _ _ _ _ _ Hux u Hu) as T. unfold trig in T.
        assert (Happ' : ua_appliesb u (ltag (labof L a)) (ltag (labof R a)) = true).
        { rewrite (lab_tag a Ha). destruct u as [k|t k]; [reflexivity|]. cbn [ua_appliesb] in *.
          apply andb_true_iff in Happ as [H1 _]. rewrite H1. reflexivity. }
        rewrite Happ', Hign in T. cbn [negb andb] in T. apply orb_false_iff in T as [T _]. exact T.
      - apply ud_right_absent. intros u Hu Happ Hign.
        pose proof (ud_none sim zero one o _ _ _ _ _ Hux u Hu) as T. unfold trig in T.
        assert (Happ' : ua_appliesb u (ltag (labof L b)) (ltag (labof R b)) = true).
        { rewrite <- (lab_tag b Hb). destruct u as [k|t k]; [reflexivity|]. cbn [ua_appliesb] in *.
          apply andb_true_iff in Happ as [_ H2]. rewrite H2. reflexivity. }
        rewrite Happ', Hign in T. cbn [negb andb] in T. apply orb_false_iff in T as [_ T]. exact T. }
    destruct HU as [HU|HU]; rewrite HU in Hp; [|rewrite F_pos in Hp; discriminate].
    unfold child_ratio in Hp.
    assert (Hkb : kidsof R b = kidsof L b) by apply (kids_same b Hb).
    destruct (kidsof L a) as [|ca ka] eqn:Eka; destruct (kidsof R b) as [|cb kb] eqn:Ekb.
    - exfalso. destruct Hx as [-> | ->]; [congruence|]. rewrite <- Hkb in Hkx. congruence.
    - rewrite count_matched_none in Hp. do 3 eexists. split; [|exact Hp]. cbn [length]; lia.
    - rewrite count_matched_none in Hp. do 3 eexists. split; [|exact Hp]. cbn [length]; lia.
    - rewrite count_matched_none in Hp. do 3 eexists. split; [|exact Hp]. cbn [length]; lia. }
  split.
  - destruct (Hshape a Hda) as [H|(H1 & H2 & H3)]; [exact H|].
    apply pass_self_or; [exact Hda|]. apply Hcomb. exists a. auto.
  - destruct (Hshape b Hdb) as [H|(H1 & H2 & H3)]; [exact H|].
    apply pass_self_or; [exact Hdb|]. apply Hcomb. exists b. auto.
Qed.

Lemma pend0_lt x : In x pend0 -> x < fnext L.
Proof. intros H. apply (desc_lt_root L root Hwf), pend0_In, H. Qed.

Theorem fast_stage ps :
  lcs_seq pass pend0 pend0 = Some ps ->
  let s1 := fold_left (fun s p => append_match s (nth_id pend0 (fst p)) (nth_id pend0 (snd p))) ps
                      (MS [] (fun _ => None)) in
  let ls' := drop_positions 0 (map (fun p => Z.to_nat (fst p)) ps) pend0 in
  let rs' := drop_positions 0 (map (fun p => Z.to_nat (snd p)) ps) pend0 in
  rs' = ls' /\ ready (ms_l2r s1) ls' /\
  exists ms, ms_matches s1 = diag ms /\ (forall x, In x (ms ++ ls') <-> In x pend0) /\ NoDup (ms ++ ls').
Proof.
  intros Hlcs.
  assert (Hps : ps = map (fun i => (i, i)) (self_positions pass pend0)).
  { apply lcs_seq_diag; [|exact Hlcs]. intros a b Ha Hb. apply pass_closed; [apply pend0_In, Ha|apply pend0_In, Hb]. }
  set (SP := self_positions pass pend0) in *.
  cbv zeta. rewrite Hps. rewrite !map_map. cbn [fst snd].
  set (g := fun p : Z * Z => nth_id pend0 (fst p)).
  assert (Hfold : forall s,
    fold_left (fun s p => append_match s (nth_id pend0 (fst p)) (nth_id pend0 (snd p)))
              (map (fun i => (i, i)) SP) s
    = fold_left (fun s p => append_match s (g p) (g p)) (map (fun i => (i, i)) SP) s).
  { generalize SP. intros l. induction l as [|i l IHl]; intros s; cbn [map fold_left]; [reflexivity|]. apply IHl. }
  rewrite Hfold.
  set (ls' := drop_positions 0 (map (fun x => Z.to_nat x) SP) pend0).
  set (M := map (fun i => nth_id pend0 i) SP).
  assert (HM : map g (map (fun i => (i, i)) SP) = M) by (rewrite map_map; reflexivity).
  (* every non-root node is recorded or still pending *)
  assert (Hdich : forall c, In c pend0 -> In c M \/ In c ls').
  { intros c Hc. apply In_nth_error in Hc as (k & Hk).
    destruct (in_dec Nat.eq_dec k (map (fun x => Z.to_nat x) SP)) as [Hin|Hnin].
    - left. apply in_map_iff in Hin as (i & Ei & Hi). apply in_map_iff. exists i. split; [|exact Hi].
      unfold nth_id. cbv beta in Ei. rewrite Ei. apply nth_error_nth. exact Hk.
    - right. apply (drop_positions_complete _ pend0 0 c k Hk). exact Hnin. }
  assert (HMin : forall c, In c M -> In c pend0).
  { intros c Hc. apply in_map_iff in Hc as (i & <- & Hi).
    apply self_positions_In in Hi as (Hi & a & Ea & _).
    unfold nth_id. cbv beta. apply nth_In. apply nth_error_Some. rewrite Ea. discriminate. }
  split; [reflexivity|].
  pose proof (fold_append_diag_l2r g (map (fun i => (i, i)) SP) (MS [] (fun _ => None))) as Hl2r.
  split.
  - apply ready_sub.
    + apply SS_drop_positions, pend0_sorted.
    + apply drop_positions_NoDup, pend0_NoDup.
    + intros x Hx. apply pend0_In. eapply drop_positions_incl; exact Hx.
    + intros x c Hx Hc.
      assert (Hcp : In c pend0).
      { apply (kid_in_pend0 x c); [|exact Hc]. apply pend0_In. eapply drop_positions_incl; exact Hx. }
      destruct (Hdich c Hcp) as [HcM|Hcl]; [right|left; exact Hcl].
      destruct (Hl2r c (fun _ => or_intror eq_refl)) as [H1 _]. apply H1. rewrite HM. exact HcM.
  - exists M. split.
    + rewrite (fold_append_matches g g). cbn [ms_matches app]. rewrite map_map. unfold diag, M.
      rewrite map_map. reflexivity.
    + split.
      { intros x. rewrite in_app_iff. split.
        * intros [H|H]; [apply HMin, H|eapply drop_positions_incl; exact H].
        * apply Hdich. }
      assert (HSPr : forall i, In i SP -> (0 <= i)%Z /\ Z.to_nat i < length pend0).
      { intros i Hi. apply self_positions_In in Hi as (Hi & a & Ea & _). split; [exact Hi|].
        apply nth_error_Some. rewrite Ea. discriminate. }
      apply NoDup_app_iff. split; [|split].
      * unfold M. rewrite <- (map_map (fun i => (i, i)) (fun p : Z * Z => nth_id pend0 (fst p))).
        apply (nth_id_NoDup pend0 fst); [apply pend0_NoDup| |].
        -- intros q Hq. apply in_map_iff in Hq as (i & <- & Hi). cbn [fst]. apply HSPr, Hi.
        -- eapply SS_map; [|apply diag_list_sorted]. intros a b Hab. exact Hab.
      * apply drop_positions_NoDup, pend0_NoDup.
      * intros x HxM Hxl. apply in_map_iff in HxM as (i & Ei & Hi).
        destruct (HSPr i Hi) as [Hi0 Hil].
        destruct (drop_positions_In _ _ _ _ Hxl) as (k & Hk & Hn). apply Hn. cbn [Nat.add].
        apply in_map_iff. exists i. split; [|exact Hi].
        apply (proj1 (NoDup_nth_error pend0) pend0_NoDup); [exact Hil|].
        rewrite Hk. unfold nth_id in Ei. rewrite <- Ei. apply nth_error_nth'. exact Hil.
Qed.
End Fast.

(* ------------------------------------------------------------------ *)
(** * match_nodes                                                       *)
(* ------------------------------------------------------------------ *)
Theorem match_identity_gen :
  (ofast sim o = true -> sim_leb F zero = false) ->
  (ofast sim o = true ->
   forall s t n x n', 0 < n -> sim_leb F (combine (leaf_sim s t) 0 n) = true ->
                      sim_is_one x = true -> 0 < n' -> sim_leb F (combine x 0 n') = true) ->
  exists ms,
    match_nodes sim sim_ltb sim_leb sim_is_one zero one leaf_sim combine o L R root root
      = Some (diag ms ++ [(root, root)]) /\
    NoDup ms /\ (forall x, In x ms <-> desc L root x /\ x <> root).
Proof.
  intros F_pos comb0. unfold match_nodes. rewrite rs_same. fold PO. fold pend0.
  destruct (ofast sim o) eqn:Hfast.
  - specialize (F_pos eq_refl). specialize (comb0 eq_refl).
    change (fun x y : id => sim_leb F (nratio (fun _ : id => None) x y)) with pass.
    destruct (lcs_seq pass pend0 pend0) as [ps|] eqn:Hlcs.
    + destruct (fast_stage F_pos comb0 ps Hlcs) as (Hrs & Hready & ms & Hms & Hcover & Hnd).
      cbv zeta in Hrs, Hready, Hms, Hcover, Hnd. rewrite Hrs.
      eexists. split; [|split; [exact Hnd|]].
      * cbn [append_match ms_matches]. rewrite (default_loop_ready _ _ Hready), Hms.
        unfold diag. rewrite <- map_app. reflexivity.
      * intros x. rewrite Hcover. apply pend0_In.
    + exfalso. destruct (lcs_seq_total pass pend0 pend0) as [ps Hps]. congruence.
  - destruct (obest sim o) eqn:Hbest.
    + destruct (best_stage1_ready pend0 (MS [] (fun _ => None)) [] ready_pend0) as (s' & E & Hm).
      rewrite E. cbn [best_stage2 default_loop]. exists pend0.
      split; [|split; [apply pend0_NoDup|apply pend0_In]].
      cbn [append_match ms_matches]. rewrite Hm. reflexivity.
    + exists pend0. split; [|split; [apply pend0_NoDup|apply pend0_In]].
      cbn [append_match ms_matches]. rewrite (default_loop_ready pend0 (MS [] (fun _ => None)) ready_pend0).
      reflexivity.
Qed.

End Match.

(* a list of diagonal pairs over the non-root document nodes, plus the root
   pair, is the identity matching *)
Lemma identity_of_diag L root (ms : list id) :
  (forall x, In x ms <-> desc L root x /\ x <> root) ->
  identity_matching L root (map (fun x => (x, x)) ms ++ [(root, root)]).
Proof.
  intros H. split.
  - intros l r Hin. apply in_app_or in Hin as [Hin|[E|[]]]; [|congruence].
    apply in_map_iff in Hin as (x & E & _). congruence.
  - intros n Hd. apply in_or_app. destruct (Nat.eq_dec n root) as [->|Hne]; [right; left; reflexivity|].
    left. apply in_map_iff. exists n. split; [reflexivity|]. apply H. split; assumption.
Qed.

(* the statement used by EqualDocs.v (C03): equal documents *)
Theorem match_identity :
  forall (sim : Type) (sim_ltb sim_leb : sim -> sim -> bool) (sim_is_one : sim -> bool)
         (zero one : sim) (leaf_sim : str -> str -> sim) (combine : sim -> nat -> nat -> sim)
         (o : mopts sim) (L R : forest) (root : id),
  wf_forest L root -> same_doc L R ->
  (forall s, sim_is_one (leaf_sim s s) = true) ->
  (forall m n, sim_is_one m = true -> 0 < n -> sim_is_one (combine m n n) = true) ->
  sim_is_one one = true ->
  (forall x, sim_is_one x = true -> sim_ltb zero x = true) ->
  (forall x, sim_is_one x = true -> sim_leb (oF sim o) x = true) ->
  (ofast sim o = true -> sim_leb (oF sim o) zero = false) ->
  (ofast sim o = true ->
   forall s t n x n', 0 < n -> sim_leb (oF sim o) (combine (leaf_sim s t) 0 n) = true ->
                      sim_is_one x = true -> 0 < n' -> sim_leb (oF sim o) (combine x 0 n') = true) ->
  exists m,
    match_nodes sim sim_ltb sim_leb sim_is_one zero one leaf_sim combine o L R root root = Some m /\
    identity_matching L root m.
Proof.
  intros sim sim_ltb sim_leb sim_is_one zero one leaf_sim combine o L R root Hwf Hsame
         H1 H2 H3 H4 H5 H6 H7.
  destruct (match_identity_gen sim sim_ltb sim_leb sim_is_one zero one leaf_sim combine o L R root
              Hwf (same_doc_sim sim o L R root Hwf Hsame) H1 H2 H3 H4 H5 H6 H7) as (ms & Hm & _ & Hcover).
  eexists. split; [exact Hm|]. apply identity_of_diag, Hcover.
Qed.
