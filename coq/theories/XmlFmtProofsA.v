(* XmlFmtProofsA -- prepare() without text tags does nothing beyond removing comments;
   and the defect of _remove_comments (the text after a comment is lost).
   No axioms. *)
From Coq Require Import List NArith Bool.
Import ListNotations.
Require Import XV.Str XV.Forest XV.XmlFmt.
Require XV.Placeholder.
Local Open Scope N_scope.

Lemma dw_notags fmt : forall t s, Placeholder.dw [] fmt false s [] t = (s, [], t).
Proof.
  induction t as [tag attrs text tail kids IH] using Placeholder.xtree_ind2. intros s.
  cbn [Placeholder.dw Placeholder.mem].
  assert (E : forall s0, (fix go (s : Placeholder.state) (ks : list xtree) {struct ks} : Placeholder.state * list xtree :=
                 match ks with
                 | [] => (s, [])
                 | k :: ks' =>
                     let '(s', _, k') := Placeholder.dw [] fmt false s [] k in
                     let '(s'', r) := go s' ks' in (s'', k' :: r)
                 end) s0 kids = (s0, kids)).
  { induction IH as [|k r Hk _ IHr]; intros s0; [reflexivity|]. rewrite Hk, IHr. reflexivity. }
  rewrite E. reflexivity.
Qed.

Theorem prepare_notags c L R : c_tt c = [] ->
  prepare c L R = (Placeholder.ph_init, remove_comments L, remove_comments R).
Proof.
  intros H. unfold prepare, Placeholder.do_tree. rewrite H, !dw_notags. reflexivity.
Qed.

(* the defect: <a><!--c-->tail<b/></a> -- prepare loses "tail", the correct removal keeps it *)
Definition wit_comment_tail : tree :=
  Node (Lab (TElem [97]) [] None None)
       [Node (Lab TComment [] (Some [99]) (Some [116; 97; 105; 108])) [];
        Node (Lab (TElem [98]) [] None None) []].

Theorem remove_comments_drops_tail_refuted :
  exists t, remove_comments t <> strip_comments t /\
            Placeholder.xtext (remove_comments t) = None /\
            Placeholder.xtext (strip_comments t) = Some [116; 97; 105; 108].
Proof. exists wit_comment_tail. split; [discriminate|]. split; reflexivity. Qed.
