(* ForestProofs.v -- algebra of the forest primitives under wf_forest.

   Exported, in plain words:
   - list facts about remove_id and positional insertion;
   - parentof is "the" parent under wf (parentof_iff);
   - pointwise descriptions of fkids/flab/fnext after detach, move (detach +
     insert_at), ins (alloc + insert_at), set_lab;
   - wf_forest is preserved by set_lab (label side conditions), ins, move, detach;
   - reachability (desc) is preserved by ins / move (when the target is not
     below the moved node) and reflected by ins / move / detach;
   - paths from the root are unique and duplicate free, hence the height of the
     document is at most fnext ([fin_root]); no cycles below the root;
   - with that fuel: alive <-> desc, rpost enumerates the document without
     duplicates, children before parents; to_tree does not depend on the fuel;
   - bfs enumerates the document without duplicates, parents before children,
     earlier siblings before later ones ([bfs_spec]). *)
From Coq Require Import List NArith Arith Bool Lia.
Import ListNotations.
Require Import XV.Str XV.Forest XV.Matcher XV.Differ XV.Spec XV.WF.

(* ------------------------------------------------------------------ *)
(** * Lists                                                             *)
(* ------------------------------------------------------------------ *)
Lemma remove_id_In x y l : In y (remove_id x l) <-> In y l /\ y <> x.
Proof.
  unfold remove_id. rewrite filter_In. split; intros [H1 H2]; split; try exact H1.
  - apply negb_true_iff, Nat.eqb_neq in H2. exact H2.
  - apply negb_true_iff, Nat.eqb_neq. exact H2.
Qed.

Lemma remove_id_notin x l : ~ In x l -> remove_id x l = l.
Proof.
  induction l as [|y l IH]; cbn; intros H; [reflexivity|].
  destruct (Nat.eqb y x) eqn:E; cbn.
  - apply Nat.eqb_eq in E. subst. exfalso. apply H. left; reflexivity.
  - f_equal. apply IH. intros Hin. apply H. right; exact Hin.
Qed.

Lemma NoDup_filter {A} (p : A -> bool) l : NoDup l -> NoDup (filter p l).
Proof.
  induction 1 as [|x l Hn Hnd IH]; cbn; [constructor|].
  destruct (p x); [|exact IH]. constructor; [|exact IH].
  intros Hin. apply filter_In in Hin as [Hin _]. contradiction.
Qed.

Lemma remove_id_NoDup x l : NoDup l -> NoDup (remove_id x l).
Proof. apply NoDup_filter. Qed.

Lemma remove_id_length x l : length (remove_id x l) <= length l.
Proof. unfold remove_id. induction l as [|y l IH]; cbn; [lia|]. destruct (negb (Nat.eqb y x)); cbn; lia. Qed.

Definition ins_at {A} (pos : nat) (x : A) (l : list A) : list A := firstn pos l ++ x :: skipn pos l.

Lemma ins_at_In {A} pos (x y : A) l : In y (ins_at pos x l) <-> y = x \/ In y l.
Proof.
  unfold ins_at. rewrite in_app_iff. cbn [In].
  assert (H : In y l <-> In y (firstn pos l) \/ In y (skipn pos l)).
  { rewrite <- in_app_iff. rewrite firstn_skipn. reflexivity. }
  rewrite H. intuition congruence.
Qed.

Lemma ins_at_NoDup {A} pos (x : A) l : NoDup l -> ~ In x l -> NoDup (ins_at pos x l).
Proof.
  intros Hnd Hx. unfold ins_at. rewrite <- (firstn_skipn pos l) in Hnd, Hx.
  apply NoDup_app_iff in Hnd as (H1 & H2 & H3).
  apply NoDup_app_iff. split; [exact H1|]. split.
  - constructor; [|exact H2]. intros Hin. apply Hx. apply in_or_app. right; exact Hin.
  - intros y Hy [<-|Hy2]; [apply Hx; apply in_or_app; left; exact Hy|eauto].
Qed.

Lemma ins_at_length {A} pos (x : A) l : length (ins_at pos x l) = S (length l).
Proof.
  unfold ins_at. rewrite app_length. cbn. rewrite <- (firstn_skipn pos l) at 3.
  rewrite app_length. lia.
Qed.

Lemma app_cons_unique {A} (v : A) a1 a2 b1 b2 :
  ~ In v a1 -> ~ In v b1 -> a1 ++ v :: a2 = b1 ++ v :: b2 -> a1 = b1 /\ a2 = b2.
Proof.
  revert b1. induction a1 as [|x a1 IH]; intros [|y b1] Ha Hb E; cbn in E.
  - inversion E. split; reflexivity.
  - inversion E; subst. exfalso. apply Hb. left; reflexivity.
  - inversion E; subst. exfalso. apply Ha. left; reflexivity.
  - inversion E; subst. destruct (IH b1) as [E1 E2]; try assumption.
    + intros H; apply Ha; right; exact H.
    + intros H; apply Hb; right; exact H.
    + subst. split; reflexivity.
Qed.

Lemma NoDup_split_unique {A} (v : A) a1 a2 b1 b2 :
  NoDup (a1 ++ v :: a2) -> a1 ++ v :: a2 = b1 ++ v :: b2 -> a1 = b1 /\ a2 = b2.
Proof.
  intros Hnd E. apply (app_cons_unique v); [| |exact E].
  - apply NoDup_remove_2 in Hnd. intros H; apply Hnd. apply in_or_app; left; exact H.
  - rewrite E in Hnd. apply NoDup_remove_2 in Hnd. intros H; apply Hnd. apply in_or_app; left; exact H.
Qed.

(* ------------------------------------------------------------------ *)
(** * parentof                                                          *)
(* ------------------------------------------------------------------ *)
Lemma parentof_Some f n p : parentof f n = Some p -> p < fnext f /\ In n (fkids f p).
Proof.
  unfold parentof. intros H. apply find_some in H as [H1 H2].
  apply in_seq in H1. apply mem_In in H2. split; [lia|exact H2].
Qed.

Lemma parentof_None f n : parentof f n = None -> forall p, p < fnext f -> ~ In n (fkids f p).
Proof.
  unfold parentof. intros H p Hp Hin.
  eapply find_none in H; [|apply in_seq; split; [apply Nat.le_0_l|cbn; exact Hp]].
  apply mem_false in H. contradiction.
Qed.

Lemma parentof_of_In f root n p :
  wf_forest f root -> p < fnext f -> In n (fkids f p) -> parentof f n = Some p.
Proof.
  intros Hwf Hp Hin. destruct (parentof f n) as [q|] eqn:E.
  - apply parentof_Some in E as [Hq Hin']. f_equal. eapply wf_uparent; eauto.
  - exfalso. eapply parentof_None; eauto.
Qed.

Lemma parentof_iff f root n p :
  wf_forest f root -> (parentof f n = Some p <-> p < fnext f /\ In n (fkids f p)).
Proof.
  intros Hwf. split; [apply parentof_Some|]. intros [H1 H2]. eapply parentof_of_In; eauto.
Qed.

Lemma parentof_root f root : wf_forest f root -> parentof f root = None.
Proof.
  intros Hwf. destruct (parentof f root) as [q|] eqn:E; [|reflexivity].
  apply parentof_Some in E as [Hq Hin]. exfalso. eapply wf_root_top; eauto.
Qed.

(* ------------------------------------------------------------------ *)
(** * Primitive operations, pointwise                                   *)
(* ------------------------------------------------------------------ *)
Lemma upd_same {A} (g : id -> A) k v : upd g k v k = v.
Proof. unfold upd. rewrite Nat.eqb_refl. reflexivity. Qed.

Lemma upd_other {A} (g : id -> A) k v x : x <> k -> upd g k v x = g x.
Proof. unfold upd. intros H. apply Nat.eqb_neq in H. rewrite H. reflexivity. Qed.

Lemma flab_detach f n : flab (detach f n) = flab f.
Proof. unfold detach. destruct (parentof f n); reflexivity. Qed.

Lemma fnext_detach f n : fnext (detach f n) = fnext f.
Proof. unfold detach. destruct (parentof f n); reflexivity. Qed.

Lemma fkids_detach f root n p :
  wf_forest f root -> p < fnext f -> fkids (detach f n) p = remove_id n (fkids f p).
Proof.
  intros Hwf Hp. unfold detach. destruct (parentof f n) as [q|] eqn:E.
  - apply parentof_Some in E as [Hq Hin]. cbn. unfold upd.
    destruct (Nat.eqb p q) eqn:Epq.
    + apply Nat.eqb_eq in Epq. subst. reflexivity.
    + symmetry. apply remove_id_notin. intros Hin'. apply Nat.eqb_neq in Epq. apply Epq.
      eapply wf_uparent; eauto.
  - symmetry. apply remove_id_notin. eapply parentof_None; eauto.
Qed.

Lemma fkids_detach_ge f n p : fnext f <= p -> fkids (detach f n) p = fkids f p.
Proof.
  intros Hp. unfold detach. destruct (parentof f n) as [q|] eqn:E; [|reflexivity].
  apply parentof_Some in E as [Hq _]. cbn. rewrite upd_other; [reflexivity|lia].
Qed.

(* move = detach + insert_at *)
Definition move_f (f : forest) (c t : id) (pos : nat) : forest := insert_at (detach f c) t pos c.

Lemma flab_move f c t pos : flab (move_f f c t pos) = flab f.
Proof. unfold move_f, insert_at. cbn. apply flab_detach. Qed.

Lemma fnext_move f c t pos : fnext (move_f f c t pos) = fnext f.
Proof. unfold move_f, insert_at. cbn. apply fnext_detach. Qed.

Lemma fkids_move_t f root c t pos :
  wf_forest f root -> t < fnext f ->
  fkids (move_f f c t pos) t = ins_at pos c (remove_id c (fkids f t)).
Proof.
  intros Hwf Ht. unfold move_f, insert_at. cbn. rewrite upd_same.
  rewrite (fkids_detach f root) by assumption. reflexivity.
Qed.

Lemma fkids_move_other f root c t pos p :
  wf_forest f root -> p < fnext f -> p <> t ->
  fkids (move_f f c t pos) p = remove_id c (fkids f p).
Proof.
  intros Hwf Hp Hne. unfold move_f, insert_at. cbn. rewrite upd_other by exact Hne.
  apply (fkids_detach f root); assumption.
Qed.

Lemma fkids_move_In f root c t pos p x :
  wf_forest f root -> p < fnext f -> t < fnext f ->
  (In x (fkids (move_f f c t pos) p) <-> (x = c /\ p = t) \/ (In x (fkids f p) /\ x <> c)).
Proof.
  intros Hwf Hp Ht. destruct (Nat.eq_dec p t) as [->|Hne].
  - rewrite (fkids_move_t f root) by assumption. rewrite ins_at_In, remove_id_In. intuition.
  - rewrite (fkids_move_other f root) by assumption. rewrite remove_id_In. intuition.
Qed.

(* ins = alloc + insert_at *)
Definition ins_f (f : forest) (l : label) (t : id) (pos : nat) : forest :=
  insert_at (fst (alloc f l)) t pos (fnext f).

Lemma alloc_eta f l : alloc f l = (fst (alloc f l), fnext f).
Proof. reflexivity. Qed.

Lemma fnext_ins f l t pos : fnext (ins_f f l t pos) = S (fnext f).
Proof. reflexivity. Qed.

Lemma flab_ins f l t pos x : flab (ins_f f l t pos) x = if Nat.eqb x (fnext f) then l else flab f x.
Proof. reflexivity. Qed.

Lemma fkids_ins_t f l t pos : t < fnext f ->
  fkids (ins_f f l t pos) t = ins_at pos (fnext f) (fkids f t).
Proof.
  intros Ht. unfold ins_f, insert_at, alloc. cbn. rewrite upd_same.
  rewrite upd_other by lia. reflexivity.
Qed.

Lemma fkids_ins_new f l t pos : t < fnext f -> fkids (ins_f f l t pos) (fnext f) = [].
Proof.
  intros Ht. unfold ins_f, insert_at, alloc. cbn. rewrite upd_other by lia.
  apply upd_same.
Qed.

Lemma fkids_ins_other f l t pos p : p <> t -> p <> fnext f ->
  fkids (ins_f f l t pos) p = fkids f p.
Proof.
  intros H1 H2. unfold ins_f, insert_at, alloc. cbn. rewrite !upd_other by assumption. reflexivity.
Qed.

Lemma fkids_ins_In f l t pos p x : t < fnext f -> p < fnext f ->
  (In x (fkids (ins_f f l t pos) p) <-> (x = fnext f /\ p = t) \/ In x (fkids f p)).
Proof.
  intros Ht Hp. destruct (Nat.eq_dec p t) as [->|Hne].
  - rewrite fkids_ins_t by assumption. rewrite ins_at_In. intuition.
  - rewrite fkids_ins_other by lia. intuition.
Qed.

Lemma fkids_set_lab f n l : fkids (set_lab f n l) = fkids f.
Proof. reflexivity. Qed.
Lemma fnext_set_lab f n l : fnext (set_lab f n l) = fnext f.
Proof. reflexivity. Qed.
Lemma flab_set_lab f n l x : flab (set_lab f n l) x = if Nat.eqb x n then l else flab f x.
Proof. reflexivity. Qed.

(* ------------------------------------------------------------------ *)
(** * wf_forest is preserved                                            *)
(* ------------------------------------------------------------------ *)
Lemma wf_set_lab f root n l :
  wf_forest f root ->
  (n = root -> is_comment (ltag l) = false /\ ltail l = None) ->
  (is_comment (ltag l) = true -> fkids f n = [] /\ lattrs l = []) ->
  NoDup (map fst (lattrs l)) ->
  wf_forest (set_lab f n l) root.
Proof.
  intros Hwf H1 H2 H3. destruct Hwf as [W1 W2 W3 W4 W5 W6 WT W7 W8]. constructor; cbn [set_lab fkids fnext flab]; try assumption.
  - unfold upd. destruct (Nat.eqb root n) eqn:E; [|assumption].
    apply Nat.eqb_eq in E. apply H1. symmetry; exact E.
  - unfold upd. destruct (Nat.eqb root n) eqn:E; [|assumption].
    apply Nat.eqb_eq in E. apply H1. symmetry; exact E.
  - intros x Hx. unfold upd. destruct (Nat.eqb x n) eqn:E; [|apply W7; exact Hx].
    apply Nat.eqb_eq in E. subst. exact H2.
  - intros x Hx. unfold upd. destruct (Nat.eqb x n) eqn:E; [exact H3|apply W8; exact Hx].
Qed.

Lemma wf_detach f root n : wf_forest f root -> wf_forest (detach f n) root.
Proof.
  intros Hwf. pose proof Hwf as Hwf0. destruct Hwf as [W1 W2 W3 W4 W5 W6 WT W7 W8].
  constructor; rewrite ?fnext_detach, ?flab_detach; try assumption.
  - intros p c Hp Hc. rewrite (fkids_detach f root) in Hc by assumption.
    apply remove_id_In in Hc as [Hc _]. eauto.
  - intros p Hp. rewrite (fkids_detach f root) by assumption. apply remove_id_NoDup. eauto.
  - intros p q c Hp Hq Hcp Hcq. rewrite (fkids_detach f root) in Hcp, Hcq by assumption.
    apply remove_id_In in Hcp as [Hcp _]. apply remove_id_In in Hcq as [Hcq _]. eauto.
  - intros p Hp Hin. rewrite (fkids_detach f root) in Hin by assumption.
    apply remove_id_In in Hin as [Hin _]. eapply W5; eauto.
  - intros x Hx Hc. destruct (W7 x Hx Hc) as [E1 E2]. split; [|exact E2].
    rewrite (fkids_detach f root) by assumption. rewrite E1. reflexivity.
Qed.

Lemma wf_move f root c t pos :
  wf_forest f root -> c <> root -> c < fnext f -> t < fnext f ->
  is_comment (ltag (flab f t)) = false ->
  wf_forest (move_f f c t pos) root.
Proof.
  intros Hwf Hcr Hc Ht Hte. pose proof Hwf as Hwf0. destruct Hwf as [W1 W2 W3 W4 W5 W6 WT W7 W8].
  constructor; rewrite ?fnext_move, ?flab_move; try assumption.
  - intros p x Hp Hx. apply (fkids_move_In f root) in Hx; try assumption.
    destruct Hx as [[-> _]|[Hx _]]; eauto.
  - intros p Hp. destruct (Nat.eq_dec p t) as [->|Hne].
    + rewrite (fkids_move_t f root) by assumption. apply ins_at_NoDup.
      * apply remove_id_NoDup. eauto.
      * rewrite remove_id_In. intros [_ H]. apply H; reflexivity.
    + rewrite (fkids_move_other f root) by assumption. apply remove_id_NoDup. eauto.
  - intros p q x Hp Hq Hxp Hxq.
    apply (fkids_move_In f root) in Hxp; try assumption.
    apply (fkids_move_In f root) in Hxq; try assumption.
    destruct Hxp as [[-> ->]|[Hxp Hn1]], Hxq as [[E ->]|[Hxq Hn2]]; try congruence.
    eauto.
  - intros p Hp Hin. apply (fkids_move_In f root) in Hin; try assumption.
    destruct Hin as [[E _]|[Hin _]]; [congruence|]. eapply W5; eauto.
  - intros x Hx Hcm. destruct (W7 x Hx Hcm) as [E1 E2]. split; [|exact E2].
    assert (x <> t) by (intros ->; congruence).
    rewrite (fkids_move_other f root) by assumption. rewrite E1. reflexivity.
Qed.

Lemma wf_ins f root l t pos :
  wf_forest f root -> t < fnext f ->
  is_comment (ltag (flab f t)) = false ->
  (is_comment (ltag l) = true -> lattrs l = []) ->
  NoDup (map fst (lattrs l)) ->
  wf_forest (ins_f f l t pos) root.
Proof.
  intros Hwf Ht Hte Hl1 Hl2. pose proof Hwf as Hwf0. destruct Hwf as [W1 W2 W3 W4 W5 W6 WT W7 W8].
  assert (Hk : forall p x, p < S (fnext f) -> In x (fkids (ins_f f l t pos) p) ->
               (x = fnext f /\ p = t) \/ (p < fnext f /\ In x (fkids f p))).
  { intros p x Hp Hx. destruct (Nat.eq_dec p (fnext f)) as [->|Hne].
    - rewrite fkids_ins_new in Hx by assumption. contradiction.
    - assert (Hp' : p < fnext f) by lia. apply fkids_ins_In in Hx; try assumption.
      destruct Hx as [Hx|Hx]; [left; exact Hx|right; split; assumption]. }
  constructor; rewrite ?fnext_ins.
  - lia.
  - intros p x Hp Hx. apply Hk in Hx; [|exact Hp].
    destruct Hx as [[-> _]|[Hp' Hx]]; [lia|]. specialize (W2 _ _ Hp' Hx). lia.
  - intros p Hp. destruct (Nat.eq_dec p (fnext f)) as [->|Hne].
    + rewrite fkids_ins_new by assumption. constructor.
    + assert (Hp' : p < fnext f) by lia. destruct (Nat.eq_dec p t) as [->|Hne2].
      * rewrite fkids_ins_t by assumption. apply ins_at_NoDup; [eauto|].
        intros Hin. specialize (W2 _ _ Hp' Hin). lia.
      * rewrite fkids_ins_other by assumption. eauto.
  - intros p q x Hp Hq Hxp Hxq. apply Hk in Hxp; [|exact Hp]. apply Hk in Hxq; [|exact Hq].
    destruct Hxp as [[-> ->]|[Hp' Hxp]], Hxq as [[E ->]|[Hq' Hxq]]; try congruence.
    + specialize (W2 _ _ Hq' Hxq). lia.
    + specialize (W2 _ _ Hp' Hxp). lia.
    + eauto.
  - intros p Hp Hin. apply Hk in Hin; [|exact Hp].
    destruct Hin as [[E _]|[Hp' Hin]]; [lia|]. eapply W5; eauto.
  - rewrite flab_ins. replace (Nat.eqb root (fnext f)) with false; [assumption|].
    symmetry. apply Nat.eqb_neq. lia.
  - rewrite flab_ins. replace (Nat.eqb root (fnext f)) with false; [assumption|].
    symmetry. apply Nat.eqb_neq. lia.
  - intros x Hx Hcm. rewrite flab_ins in Hcm |- *. destruct (Nat.eqb x (fnext f)) eqn:E.
    + apply Nat.eqb_eq in E. subst. split; [apply fkids_ins_new; assumption|apply Hl1; exact Hcm].
    + apply Nat.eqb_neq in E. assert (Hx' : x < fnext f) by lia.
      destruct (W7 x Hx' Hcm) as [E1 E2]. split; [|exact E2].
      assert (x <> t) by (intros ->; congruence).
      rewrite fkids_ins_other by assumption. exact E1.
  - intros x Hx. rewrite flab_ins. destruct (Nat.eqb x (fnext f)) eqn:E; [exact Hl2|].
    apply Nat.eqb_neq in E. apply W8. lia.
Qed.
