(* XmlFmtProofs5 -- along a script: the REJECT side of the refinement (C10).

   * [run_ok]       the side conditions [step_ok] hold at every step of the run;
   * [handle_all_reject]  the handlers keep the invariant and the rejected view;
   * [reject_format]  rejecting every marked change in the output of xml_format gives back
                    the (prepared) left document: tags, structure, texts and tails exactly
                    (whitespace-normalised when normalize & WS_TEXT) -- attributes set aside.
   No axioms. *)
From Coq Require Import List NArith ZArith Bool Arith Lia.
Import ListNotations.
Require Import XV.Str XV.Json XV.TextFormat XV.Forest XV.Matcher XV.Differ XV.Path XV.WF XV.AttrProofs XV.XmlFmt XV.Projections
               XV.XmlFmtProofs0 XV.XmlFmtProofs1 XV.XmlFmtProofs2 XV.XmlFmtProofs3 XV.XmlFmtProofs4.
Require XV.Placeholder XV.PlaceholderUndo.
Local Open Scope nat_scope.

Section Script.
Variable c : cfg.
Variable o : oracle.
Variable rootns : list (option str * str).
Hypothesis Hrep : c_replace c = false.
Let ws := ws_text c.

Fixpoint run_ok (st : fstate) (script : list gaction) : Prop :=
  match script with
  | [] => True
  | a :: r =>
      match decode a with
      | FOk d => step_ok rootns st d /\ forall st', handle_d c o rootns st d = FOk st' -> run_ok st' r
      | FErr _ => True
      end
  end.

Theorem handle_all_reject script : forall st st',
  winv (fs_tree st) -> fs_ph st = ph_init -> run_ok st script ->
  handle_all c o rootns st script = FOk st' ->
  winv (fs_tree st') /\ fs_ph st' = ph_init /\ vr ws (fs_tree st') = vr ws (fs_tree st).
Proof.
  induction script as [|a r IH]; intros st st' HW Hph Hok H; cbn [handle_all] in H.
  - inversion H; subst. auto.
  - apply fbind_ok in H as (st1 & E1 & H). rewrite handle_action_decode in E1.
    cbn [run_ok] in Hok. destruct (decode a) as [d|e]; [|discriminate]. cbn [fbind] in E1.
    destruct Hok as [Hs Hr].
    destruct (step_reject c o rootns Hrep st d st1 HW Hph Hs E1) as (I1 & P1 & V1).
    destruct (IH st1 st' I1 P1 (Hr st1 E1) H) as (I2 & P2 & V2).
    split; [exact I2|]. split; [exact P2|]. unfold ws in *. congruence.
Qed.
End Script.

(* ------------------------------------------------------------------ *)
(** * From the view to the projection of the output *)

Fixpoint erase_attrs (t : xtree) : xtree :=
  match t with XNode tag _ text tail kids => XNode tag [] text tail (map erase_attrs kids) end.

Lemma canon_unfold ws0 tag attrs text tail kids :
  canon ws0 (XNode tag attrs text tail kids)
  = XNode tag (sort_attrs attrs) (Some (ntxt ws0 (otxt text))) (ntxt ws0 tail) (map (canon ws0) kids).
Proof. reflexivity. Qed.

Lemma vr_canon ws0 : forall W, vr ws0 W = canon ws0 (erase_attrs (rw W)).
Proof.
  induction W as [tag attrs text tail kids IH] using Placeholder.xtree_ind2.
  rewrite vr_unfold, rw_unfold. cbn [erase_attrs]. rewrite canon_unfold. cbn [xtext xtail xkids otxt sort_attrs fold_right].
  f_equal. rewrite !map_map.
  induction kids as [|k r IHr]; [reflexivity|]. inversion IH as [|? ? Hk Hr]; subst.
  cbn [filter]. destruct (alive_r k); cbn [map]; [f_equal; [exact Hk|]|]; apply IHr, Hr.
Qed.

(* a document without marks: no diff:insert / diff:rename attribute anywhere *)
Inductive unmarked : xtree -> Prop :=
| UM tag attrs text tail kids :
    aget attrs INSERT_NAME = None -> aget attrs RENAME_NAME = None -> Forall unmarked kids ->
    unmarked (XNode tag attrs text tail kids).

Lemma vr_plain ws0 : forall L, unmarked L -> PlaceholderUndo.npua L = true -> vr ws0 L = canon ws0 (erase_attrs L).
Proof.
  induction L as [tag attrs text tail kids IH] using Placeholder.xtree_ind2.
  intros HU HP. inversion HU as [? ? ? ? ? Hi Hr Hk]; subst.
  cbn [PlaceholderUndo.npua] in HP. apply andb_true_iff in HP as [HP Hpk]. apply andb_true_iff in HP as [Ht Htl].
  rewrite vr_unfold. cbn [erase_attrs]. rewrite canon_unfold. cbn [xtext xtail xkids otxt sort_attrs fold_right proj_tag xattrs xtag].
  change (dn l_rename) with RENAME_NAME. rewrite Hr.
  rewrite (rstr_plain _ Ht), (rstr_plain _ Htl). f_equal. rewrite map_map.
  clear Ht Htl Hi Hr HU.
  induction kids as [|k r IHr]; [reflexivity|].
  inversion IH as [|? ? IHk IHrest]; subst. inversion Hk as [|? ? Uk Ur]; subst.
  cbn [forallb] in Hpk. apply andb_true_iff in Hpk as [Pk Pr].
  cbn [filter]. assert (Ha : alive_r k = true).
  { inversion Uk; subst. unfold alive_r, is_inserted, ahas. cbn [xattrs]. now rewrite H. }
  rewrite Ha. cbn [map]. f_equal; [apply IHk; assumption|apply IHr; assumption].
Qed.

Lemma npua_run_tree : forall L, PlaceholderUndo.npua L = true -> run_tree L.
Proof.
  induction L as [tag attrs text tail kids IH] using Placeholder.xtree_ind2. intros HP.
  cbn [PlaceholderUndo.npua] in HP. apply andb_true_iff in HP as [HP Hpk]. apply andb_true_iff in HP as [Ht Htl].
  constructor; [apply is_run_plain, Ht|apply is_run_plain, Htl|].
  rewrite forallb_forall in Hpk. rewrite Forall_forall in *. intros k Hin. apply IH; auto.
Qed.

Lemma erase_set_tail t l : erase_attrs (set_tail t l) = set_tail (erase_attrs t) l.
Proof. destruct t; reflexivity. Qed.

Lemma canon_drop_set_tail ws0 t l : canon ws0 (drop_root_tail (set_tail t l)) = canon ws0 (drop_root_tail t).
Proof. destruct t; reflexivity. Qed.

Lemma canon_drop ws0 t : canon ws0 (drop_root_tail t) = drop_root_tail (canon ws0 t).
Proof. destruct t; cbn. unfold ntxt. destruct ws0; reflexivity. Qed.

(* C10, tags / structure / texts / tails: the left document is what remains of the output when
   every marked change is rejected *)
Theorem reject_format c o rootns script L T :
  c_replace c = false ->
  PlaceholderUndo.npua L = true -> clean_tags L -> unmarked L ->
  run_ok c o rootns (FS L ph_init [(Some DIFF_PREFIX, DIFF_NS)]) script ->
  xml_format c o rootns ph_init script L = FOk T ->
  xequiv (ws_text c) (erase_attrs (reject T)) (erase_attrs L).
Proof.
  intros Hrep HP HC HU Hok H. unfold xml_format in H. apply fbind_ok in H as (st & E & H).
  assert (HW : winv L).
  { split; [apply npua_run_tree, HP|exact HC| |].
    - destruct L. cbn [PlaceholderUndo.npua] in HP. apply andb_true_iff in HP as [HP _]. apply andb_true_iff in HP as [_ HP]. exact HP.
    - inversion HU; subst. unfold is_inserted, ahas. cbn [xattrs]. now rewrite H0. }
  destruct (handle_all_reject c o rootns Hrep script (FS L ph_init [(Some DIFF_PREFIX, DIFF_NS)]) st HW eq_refl Hok E) as (I & P & V).
  cbn [fs_tree] in V. rewrite P in H.
  destruct (finalize_run (fs_tree st) (wi_run _ I) (wi_tags _ I) (wi_tail _ I)) as (T' & F & _ & R).
  rewrite F in H. inversion H; subst T'. unfold xequiv.
  rewrite R, erase_set_tail, canon_drop_set_tail, !canon_drop, <- vr_canon, V, (vr_plain _ L HU HP). reflexivity.
Qed.

(* ------------------------------------------------------------------ *)
(** * The side conditions as a boolean run (evaluated by the harness on every script) *)

Section RunB.
Variable c : cfg.
Variable o : oracle.
Variable rootns : list (option str * str).

Definition tag_okb (tag : str) : bool :=
  match wrapper_kind (XNode tag [] None [] []) with None => true | Some _ => false end.

Definition at_node (st : fstate) (nd : str) (f : pos -> xtree -> bool) : bool :=
  match resolve rootns st nd with
  | FOk p => match get_at (fs_tree st) p with Some n => f p n | None => true end
  | FErr _ => true
  end.

Definition step_okb (st : fstate) (d : dact) : bool :=
  match d with
  | DRenameNode nd tag => tag_okb tag && at_node st nd (fun _ n => negb (ahas (xattrs n) RENAME_NAME))
  | DInsertNode _ tag _ => tag_okb tag
  | DTextIn nd t => plainb (otxt t) && at_node st nd (fun _ n => is_inserted n || plainb (otxt (xtext n)))
  | DTextAfter nd t => plainb (otxt t) && at_node st nd (fun p n => match p with [] => false | _ => plainb (xtail n) end)
  | DUpdAttr _ k _ | DDelAttr _ k | DInsAttr _ k _ => negb (is_diff_name k)
  | DRenAttr _ k k' => negb (is_diff_name k) && negb (is_diff_name k')
  | _ => true
  end.

Fixpoint run_okb (st : fstate) (script : list gaction) : bool :=
  match script with
  | [] => true
  | a :: r =>
      match decode a with
      | FOk d => step_okb st d && match handle_d c o rootns st d with FOk st' => run_okb st' r | FErr _ => true end
      | FErr _ => true
      end
  end.

Lemma step_okb_sound st d : step_okb st d = true -> step_ok rootns st d.
Proof.
  destruct d; cbn [step_okb step_ok]; intros H; try exact I.
  - unfold tag_okb in H. unfold tag_ok. destruct (wrapper_kind _); [discriminate|reflexivity].
  - apply andb_true_iff in H as [H1 H2]. split.
    + unfold tag_okb in H1. unfold tag_ok. destruct (wrapper_kind _); [discriminate|reflexivity].
    + intros p n Ep G. unfold at_node in H2. rewrite Ep, G in H2. apply negb_true_iff in H2.
      unfold ahas in H2. destruct (aget (xattrs n) RENAME_NAME); [discriminate|reflexivity].
  - apply andb_true_iff in H as [H1 H2]. split; [exact H1|].
    intros p n Ep G Hi. unfold at_node in H2. rewrite Ep, G, Hi in H2. exact H2.
  - apply andb_true_iff in H as [H1 H2]. split; [exact H1|].
    intros p n Ep G. unfold at_node in H2. rewrite Ep, G in H2. destruct p; [discriminate|]. split; [discriminate|exact H2].
  - apply negb_true_iff in H. exact H.
  - apply negb_true_iff in H. exact H.
  - apply negb_true_iff in H. exact H.
  - apply andb_true_iff in H as [H1 H2]. apply negb_true_iff in H1. apply negb_true_iff in H2. split; assumption.
Qed.

Lemma run_okb_sound script : forall st, run_okb st script = true -> run_ok c o rootns st script.
Proof.
  induction script as [|a r IH]; intros st H; cbn [run_okb run_ok] in *; [exact I|].
  destruct (decode a) as [d|e]; [|exact I]. apply andb_true_iff in H as [H1 H2].
  split; [apply step_okb_sound, H1|]. intros st' E. rewrite E in H2. apply IH, H2.
Qed.
End RunB.
