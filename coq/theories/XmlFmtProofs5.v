(* XmlFmtProofs5 -- along a script: the REJECT side of the refinement (C10).

   * [run_ok]       the side conditions [step_ok] hold at every step of the run;
   * [handle_all_reject]  the handlers keep the invariant and the rejected view;
   * [reject_format]  rejecting every marked change in the output of xml_format gives back
                    the (prepared) left document: tags, structure, texts and tails exactly
                    (whitespace-normalised when normalize & WS_TEXT) -- attributes set aside.
   No axioms. *)
From Coq Require Import List NArith ZArith Bool Arith Lia.
Import ListNotations.
Require Import XV.Str XV.Json XV.TextFormat XV.Forest XV.Matcher XV.Differ XV.Path XV.WF XV.AttrProofs XV.XmlFmt XV.Projections
               XV.XmlFmtProofs0 XV.XmlFmtProofs1 XV.XmlFmtProofs2 XV.XmlFmtProofsR2 XV.XmlFmtProofs3 XV.XmlFmtProofs4.
Require XV.Placeholder XV.PlaceholderUndo.
Local Open Scope nat_scope.

Section Script.
Variable c : cfg.
Variable o : oracle.
Variable rootns : list (option str * str).
Let ws := ws_text c.

Fixpoint run_ok (st : fstate) (script : list gaction) : Prop :=
  match script with
  | [] => True
  | a :: r =>
      match decode a with
      | FOk d => step_ok rootns st d /\ room_ok c st d /\ forall st', handle_d c o rootns st d = FOk st' -> run_ok st' r
      | FErr _ => True
      end
  end.

(* the maker along the run: it only grows, by diff:replace openers *)
Theorem handle_all_ph script : forall st st',
  tinv (fs_ph st) -> run_ok st script -> handle_all c o rootns st script = FOk st' ->
  tinv (fs_ph st') /\ sext (fs_ph st) (fs_ph st').
Proof.
  induction script as [|a r IH]; intros st st' Hph Hok H; cbn [handle_all] in H.
  - inversion H; subst. split; [exact Hph|apply sext_refl].
  - apply fbind_ok in H as (st1 & E1 & H). rewrite handle_action_decode in E1.
    cbn [run_ok] in Hok. destruct (decode a) as [d|e]; [|discriminate]. cbn [fbind] in E1.
    destruct Hok as (Hs & Hroom & Hr).
    destruct (step_ph c o rootns st d st1 Hph Hs Hroom E1) as [P1 X1].
    destruct (IH st1 st' P1 (Hr st1 E1) H) as [P2 X2]. split; [exact P2|eapply sext_trans; eauto].
Qed.

(* read with the final maker (or any later one) *)
Theorem handle_all_reject S script : tinv S -> forall st st',
  winv S (fs_tree st) -> tinv (fs_ph st) -> run_ok st script ->
  handle_all c o rootns st script = FOk st' -> sext (fs_ph st') S ->
  winv S (fs_tree st') /\ vr S ws (fs_tree st') = vr S ws (fs_tree st).
Proof.
  intros HS. induction script as [|a r IH]; intros st st' HW Hph Hok H HX; cbn [handle_all] in H.
  - inversion H; subst. auto.
  - apply fbind_ok in H as (st1 & E1 & H). rewrite handle_action_decode in E1.
    cbn [run_ok] in Hok. destruct (decode a) as [d|e]; [|discriminate]. cbn [fbind] in E1.
    destruct Hok as (Hs & Hroom & Hr).
    destruct (step_ph c o rootns st d st1 Hph Hs Hroom E1) as [P1 X1].
    destruct (handle_all_ph r st1 st' P1 (Hr st1 E1) H) as [P2 X2].
    destruct (step_reject S HS c o rootns st d st1 HW Hph (sext_trans _ _ _ X2 HX) Hs Hroom E1) as (I1 & _ & V1).
    destruct (IH st1 st' I1 P1 (Hr st1 E1) H HX) as (I2 & V2).
    split; [exact I2|]. unfold ws in *. congruence.
Qed.
End Script.

(* ------------------------------------------------------------------ *)
(** * From the view to the projection of the output *)

Fixpoint erase_attrs (t : xtree) : xtree :=
  match t with XNode tag _ text tail kids => XNode tag [] text tail (map erase_attrs kids) end.

Lemma canon_unfold ws0 tag attrs text tail kids :
  canon ws0 (XNode tag attrs text tail kids)
  = XNode tag (sort_attrs attrs) (Some (ntxt ws0 (otxt text))) (ntxt ws0 tail) (map (canon ws0) kids).
Proof. reflexivity. Qed.

Lemma vr_canon S ws0 : forall W, vr S ws0 W = canon ws0 (erase_attrs (rw S W)).
Proof.
  induction W as [tag attrs text tail kids IH] using Placeholder.xtree_ind2.
  rewrite vr_unfold, rw_unfold. cbn [erase_attrs]. rewrite canon_unfold. cbn [xtext xtail xkids otxt sort_attrs fold_right].
  f_equal. rewrite !map_map.
  induction kids as [|k r IHr]; [reflexivity|]. inversion IH as [|? ? Hk Hr]; subst.
  cbn [filter]. destruct (alive_r k); cbn [map]; [f_equal; [exact Hk|]|]; apply IHr, Hr.
Qed.

(* a document without marks: no diff:insert / diff:rename attribute anywhere *)
Inductive unmarked : xtree -> Prop :=
| UM tag attrs text tail kids :
    aget attrs INSERT_NAME = None -> aget attrs RENAME_NAME = None -> Forall unmarked kids ->
    unmarked (XNode tag attrs text tail kids).

Lemma vr_plain S ws0 : tinv S -> forall L, unmarked L -> PlaceholderUndo.npua L = true -> vr S ws0 L = canon ws0 (erase_attrs L).
Proof.
  intros HS.
  induction L as [tag attrs text tail kids IH] using Placeholder.xtree_ind2.
  intros HU HP. inversion HU as [? ? ? ? ? Hi Hr Hk]; subst.
  cbn [PlaceholderUndo.npua] in HP. apply andb_true_iff in HP as [HP Hpk]. apply andb_true_iff in HP as [Ht Htl].
  rewrite vr_unfold. cbn [erase_attrs]. rewrite canon_unfold. cbn [xtext xtail xkids otxt sort_attrs fold_right proj_tag xattrs xtag].
  change (dn l_rename) with RENAME_NAME. rewrite Hr.
  rewrite (rstr_plain S HS _ Ht), (rstr_plain S HS _ Htl). f_equal. rewrite map_map.
  clear Ht Htl Hi Hr HU.
  induction kids as [|k r IHr]; [reflexivity|].
  inversion IH as [|? ? IHk IHrest]; subst. inversion Hk as [|? ? Uk Ur]; subst.
  cbn [forallb] in Hpk. apply andb_true_iff in Hpk as [Pk Pr].
  cbn [filter]. assert (Ha : alive_r k = true).
  { inversion Uk; subst. unfold alive_r, is_inserted, ahas. cbn [xattrs]. now rewrite H. }
  rewrite Ha. cbn [map]. f_equal; [apply IHk; assumption|apply IHr; assumption].
Qed.

Lemma npua_run_tree S : forall L, PlaceholderUndo.npua L = true -> run_tree S L.
Proof.
  induction L as [tag attrs text tail kids IH] using Placeholder.xtree_ind2. intros HP.
  cbn [PlaceholderUndo.npua] in HP. apply andb_true_iff in HP as [HP Hpk]. apply andb_true_iff in HP as [Ht Htl].
  constructor; [apply is_run_plain, Ht|apply is_run_plain, Htl|].
  rewrite forallb_forall in Hpk. rewrite Forall_forall in *. intros k Hin. apply IH; auto.
Qed.

Lemma erase_set_tail t l : erase_attrs (set_tail t l) = set_tail (erase_attrs t) l.
Proof. destruct t; reflexivity. Qed.

Lemma canon_drop_set_tail ws0 t l : canon ws0 (drop_root_tail (set_tail t l)) = canon ws0 (drop_root_tail t).
Proof. destruct t; reflexivity. Qed.

Lemma canon_drop ws0 t : canon ws0 (drop_root_tail t) = drop_root_tail (canon ws0 t).
Proof. destruct t; cbn. unfold ntxt. destruct ws0; reflexivity. Qed.

(* C10, tags / structure / texts / tails: the left document is what remains of the output when
   every marked change is rejected *)
Theorem reject_format c o rootns script L T :
  PlaceholderUndo.npua L = true -> clean_tags L -> unmarked L ->
  run_ok c o rootns (FS L ph_init [(Some DIFF_PREFIX, DIFF_NS)]) script ->
  xml_format c o rootns ph_init script L = FOk T ->
  xequiv (ws_text c) (erase_attrs (reject T)) (erase_attrs L).
Proof.
  intros HP HC HU Hok H. unfold xml_format in H. apply fbind_ok in H as (st & E & H).
  destruct (handle_all_ph c o rootns script (FS L ph_init [(Some DIFF_PREFIX, DIFF_NS)]) st tinv_init Hok E) as [HS _].
  set (S := fs_ph st) in *.
  assert (HW : winv S L).
  { split; [apply npua_run_tree, HP|exact HC| |].
    - destruct L. cbn [PlaceholderUndo.npua] in HP. apply andb_true_iff in HP as [HP _]. apply andb_true_iff in HP as [_ HP]. exact HP.
    - inversion HU; subst. unfold is_inserted, ahas. cbn [xattrs]. now rewrite H0. }
  destruct (handle_all_reject c o rootns S script HS (FS L ph_init [(Some DIFF_PREFIX, DIFF_NS)]) st HW tinv_init Hok E (sext_refl _)) as (I & V).
  cbn [fs_tree] in V.
  destruct (finalize_run S HS (fs_tree st) (wi_run _ _ I) (wi_tags _ _ I) (wi_tail _ _ I)) as (T' & F & _ & R).
  rewrite F in H. inversion H; subst T'. unfold xequiv.
  rewrite R, erase_set_tail, canon_drop_set_tail, !canon_drop, <- vr_canon, V, (vr_plain S _ HS L HU HP). reflexivity.
Qed.

(* ------------------------------------------------------------------ *)
(** * The side conditions as a boolean run (evaluated by the harness on every script) *)

Section RunB.
Variable c : cfg.
Variable o : oracle.
Variable rootns : list (option str * str).

Definition tag_okb (tag : str) : bool :=
  match wrapper_kind (XNode tag [] None [] []) with None => true | Some _ => false end.

Definition at_node (st : fstate) (nd : str) (f : pos -> xtree -> bool) : bool :=
  match resolve rootns st nd with
  | FOk p => match get_at (fs_tree st) p with Some n => f p n | None => true end
  | FErr _ => true
  end.

Definition step_okb (st : fstate) (d : dact) : bool :=
  match d with
  | DRenameNode nd tag => tag_okb tag && at_node st nd (fun _ n => negb (ahas (xattrs n) RENAME_NAME))
  | DInsertNode _ tag _ => tag_okb tag
  | DTextIn nd t => plainb (otxt t) && at_node st nd (fun _ n => is_inserted n || plainb (otxt (xtext n)))
  | DTextAfter nd t => plainb (otxt t) && at_node st nd (fun p n => match p with [] => false | _ => plainb (xtail n) end)
  | DUpdAttr _ k _ | DDelAttr _ k | DInsAttr _ k _ => negb (is_diff_name k)
  | DRenAttr _ k k' => negb (is_diff_name k) && negb (is_diff_name k')
  | _ => true
  end.

Definition room_okb (st : fstate) (d : dact) : bool :=
  match d with
  | DTextIn _ t | DTextAfter _ t =>
      negb (c_replace c) || N.leb (Placeholder.ctr (fs_ph st) + N.of_nat (length (norm_if c (otxt t)))) Placeholder.PUA_END
  | _ => true
  end.

Lemma room_okb_sound st d : room_okb st d = true -> room_ok c st d.
Proof.
  destruct d; cbn [room_okb room_ok]; intros H; try exact I; intros Hr; rewrite Hr in H; cbn [negb orb] in H;
    apply N.leb_le, H.
Qed.

Fixpoint run_okb (st : fstate) (script : list gaction) : bool :=
  match script with
  | [] => true
  | a :: r =>
      match decode a with
      | FOk d => step_okb st d && room_okb st d &&
                 match handle_d c o rootns st d with FOk st' => run_okb st' r | FErr _ => true end
      | FErr _ => true
      end
  end.

Lemma step_okb_sound st d : step_okb st d = true -> step_ok rootns st d.
Proof.
  destruct d; cbn [step_okb step_ok]; intros H; try exact I.
  - unfold tag_okb in H. unfold tag_ok. destruct (wrapper_kind _); [discriminate|reflexivity].
  - apply andb_true_iff in H as [H1 H2]. split.
    + unfold tag_okb in H1. unfold tag_ok. destruct (wrapper_kind _); [discriminate|reflexivity].
    + intros p n Ep G. unfold at_node in H2. rewrite Ep, G in H2. apply negb_true_iff in H2.
      unfold ahas in H2. destruct (aget (xattrs n) RENAME_NAME); [discriminate|reflexivity].
  - apply andb_true_iff in H as [H1 H2]. split; [exact H1|].
    intros p n Ep G Hi. unfold at_node in H2. rewrite Ep, G, Hi in H2. exact H2.
  - apply andb_true_iff in H as [H1 H2]. split; [exact H1|].
    intros p n Ep G. unfold at_node in H2. rewrite Ep, G in H2. destruct p; [discriminate|]. split; [discriminate|exact H2].
  - apply negb_true_iff in H. exact H.
  - apply negb_true_iff in H. exact H.
  - apply negb_true_iff in H. exact H.
  - apply andb_true_iff in H as [H1 H2]. apply negb_true_iff in H1. apply negb_true_iff in H2. split; assumption.
Qed.

Lemma run_okb_sound script : forall st, run_okb st script = true -> run_ok c o rootns st script.
Proof.
  induction script as [|a r IH]; intros st H; cbn [run_okb run_ok] in *; [exact I|].
  destruct (decode a) as [d|e]; [|exact I]. apply andb_true_iff in H as [H1 H2]. apply andb_true_iff in H1 as [H1 H3].
  split; [apply step_okb_sound, H1|]. split; [apply room_okb_sound, H3|]. intros st' E. rewrite E in H2. apply IH, H2.
Qed.
End RunB.
