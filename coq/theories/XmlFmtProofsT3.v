(* XmlFmtProofsT3 -- C08 with text tags (use_replace = false): _make_diff_tags returns -- in particular the assert of
   _realign_placeholders does not fail -- under the premise that excludes the open finding
   "identical-formatting-elements-cross":

     [apart cls l r]   no formatting element starts in the NEW text r and ends in the OLD text l: if the OPEN placeholder
                       of a formatting element occurs in r, its CLOSE placeholder does not occur in l.  (One placeholder
                       pair stands for ALL formatting elements with the same serialisation; a formatting element that
                       occurs in both documents is what breaks the pairing.  The premise is implied by: no formatting
                       element, by serialisation, occurs in both texts.)

   * [realign_total]        _realign_placeholders returns on a diff in which the OPEN segment of a pair never has a greater
                            operation (DELETE < EQUAL < INSERT) than a segment holding its CLOSE placeholder;
   * [make_diff_tags_total_tt]  _make_diff_tags returns under [apart] (and: every OPEN entry of the maker has a close
                            placeholder, which is a CLOSE entry; 32 is not a placeholder).
   NOT covered: finalize (undo_string's IndexError, witness (B) of the finding, is raised there), use_replace.
   No axioms. *)
From Coq Require Import List NArith ZArith Bool Arith Lia.
Import ListNotations.
Require Import XV.Str XV.Json XV.TextFormat XV.Forest XV.Matcher XV.Differ XV.Path XV.WF XV.AttrProofs XV.XmlFmt XV.Projections
               XV.XmlFmtProofs1 XV.XmlFmtProofs2 XV.XmlFmtProofsR2 XV.XmlFmtProofsT1.
Require XV.Placeholder XV.PlaceholderProofs.
Require XV.DMP XV.DMPBase XV.DMPMain XV.DMPSemantic XV.DMPRealign XV.DMPTotal XV.DMPTotalMain XV.DMPTotalSem XV.DMPBisect5.
Local Open Scope Z_scope.

Section Realign.
Variable cls : DMP.cls_t.
Variable d : list DMP.seg.

(* every OPEN entry has a close placeholder *)
Definition wf_open : Prop := forall c0 cl, cls c0 = Some (DMP.T_OPEN, cl) -> cl <> None.
(* the OPEN of a pair is never in a segment with a greater operation than a segment holding its CLOSE *)
Definition ordered : Prop :=
  forall c0 cl sop t0 o t, cls c0 = Some (DMP.T_OPEN, Some cl) -> In (sop, t0) d -> In c0 t0 -> In (o, t) d -> In cl t ->
                           DMP.op_code sop <= DMP.op_code o.
Hypothesis Hwo : wf_open.
Hypothesis Hord : ordered.

Definition stack_inv (st : DMP.rstack) : Prop :=
  Forall (fun e : DMP.op * option N =>
            match snd e with
            | Some cl => forall o t, In (o, t) d -> In cl t -> DMP.op_code (fst e) <= DMP.op_code o
            | None => False
            end) st.

Lemma close_loop_total c st : stack_inv st -> forall nd, exists sop st' nd',
  DMP.close_loop c st nd = DMP.Ok (sop, st', nd') /\ stack_inv st' /\
  (forall so, sop = Some so -> forall o t, In (o, t) d -> In c t -> DMP.op_code so <= DMP.op_code o).
Proof.
  induction 1 as [|[sop cl] rest H1 H2 IH]; intros nd; cbn [DMP.close_loop].
  - exists None, [], nd. split; [reflexivity|]. split; [constructor|discriminate].
  - cbn [snd fst] in H1. destruct cl as [clc|]; [|contradiction].
    destruct (N.eqb_spec clc c) as [->|Hne].
    + exists (Some sop), rest, nd. split; [reflexivity|]. split; [exact H2|]. intros so E o t Hin Hc. inversion E; subst. eauto.
    + apply IH.
Qed.

Lemma realign_seg_total o t sg nd st : In (o, t) d -> (forall c, In c sg -> In c t) -> stack_inv st ->
  exists nd' st', DMP.realign_seg cls o sg (nd, st) = DMP.Ok (nd', st') /\ stack_inv st'.
Proof.
  intros Hin Hsub Hst. unfold DMP.realign_seg. destruct sg as [|c [|c2 r]]; try (eexists _, _; split; [reflexivity|exact Hst]).
  destruct (cls c) as [[ty cl]|] eqn:E; [|eexists _, _; split; [reflexivity|exact Hst]].
  destruct ty.
  - eexists _, _. split; [reflexivity|]. constructor; [|exact Hst]. cbn [snd fst].
    destruct cl as [clc|]; [|exact (Hwo c None E eq_refl)].
    intros o2 t2 Hin2 Hc2. apply (Hord c clc o t o2 t2 E Hin (Hsub c (or_introl eq_refl)) Hin2 Hc2).
  - destruct (close_loop_total c st Hst nd) as (sop & st' & nd' & Ec & Hst' & Hso). rewrite Ec. cbn [DMP.bind].
    destruct sop as [so|]; [|eexists _, _; split; [reflexivity|exact Hst']].
    pose proof (Hso so eq_refl o t Hin (Hsub c (or_introl eq_refl))) as Hle.
    destruct (Z.leb_spec (DMP.op_code so) (DMP.op_code o)); [|lia]. eexists _, _. split; [reflexivity|exact Hst'].
  - eexists _, _. split; [reflexivity|exact Hst].
Qed.

Lemma realign_segs_total o t sgs : In (o, t) d -> (forall sg c, In sg sgs -> In c sg -> In c t) -> forall nd st, stack_inv st ->
  exists nd' st', DMP.realign_segs cls o sgs (nd, st) = DMP.Ok (nd', st') /\ stack_inv st'.
Proof.
  intros Hin. induction sgs as [|sg sgs IH]; intros Hsub nd st Hst; cbn [DMP.realign_segs].
  - eexists _, _. split; [reflexivity|exact Hst].
  - destruct (realign_seg_total o t sg nd st Hin (fun c Hc => Hsub sg c (or_introl eq_refl) Hc) Hst) as (nd1 & st1 & E1 & H1).
    rewrite E1. cbn [DMP.bind]. apply IH; [|exact H1]. intros sg' c Hs Hc. apply (Hsub sg' c (or_intror Hs) Hc).
Qed.

Lemma split_string_sub t sg c : In sg (DMP.split_string cls t) -> In c sg -> In c t.
Proof.
  intros Hs Hc. rewrite <- (DMPRealign.split_string_concat cls t). apply in_concat. exists sg. auto.
Qed.

Lemma realign_loop_total d0 : (forall sg, In sg d0 -> In sg d) -> forall nd st, stack_inv st ->
  exists r, DMP.realign_loop cls d0 (nd, st) = DMP.Ok r.
Proof.
  induction d0 as [|[o t] d0 IH]; intros Hsub nd st Hst; cbn [DMP.realign_loop]; [eauto|].
  destruct (realign_segs_total o t (DMP.split_string cls t) (Hsub _ (or_introl eq_refl))
              (fun sg c Hs Hc => split_string_sub t sg c Hs Hc) nd st Hst) as (nd1 & st1 & E1 & H1).
  rewrite E1. cbn [DMP.bind]. apply IH; [|exact H1]. intros sg Hs. apply Hsub. now right.
Qed.

Theorem realign_total : exists d', DMP.realign cls d = DMP.Ok d'.
Proof.
  unfold DMP.realign. destruct (DMP.realign_loop _ _ _) as [[nd st]|e] eqn:E; [cbn [DMP.bind]; eauto|].
  destruct (realign_loop_total d (fun sg H => H) [] [] ltac:(constructor)) as [r Er].
  assert (X : DMP.Ok r = DMP.Err e) by (rewrite <- Er; exact E). discriminate X.
Qed.
End Realign.

(* ------------------------------------------------------------------ *)
(** * _make_diff_tags with text tags returns *)

(* no formatting element starts in one text and ends in the other *)
Definition apart (cls : DMP.cls_t) (l r : str) : Prop :=
  forall c0 cl, cls c0 = Some (DMP.T_OPEN, Some cl) -> In c0 r -> ~ In cl l.

Lemma seg_sides (d : list DMP.seg) o t c : In (o, t) d -> In c t ->
  (o <> DMP.INSERT -> In c (DMP.t1 d)) /\ (o <> DMP.DELETE -> In c (DMP.t2 d)).
Proof.
  rewrite DMPBase.t1_proj, DMPBase.t2_proj. induction d as [|[o' t'] d IH]; intros Hin Hc; [contradiction|].
  rewrite !DMPBase.proj_cons. destruct Hin as [E|Hin].
  - inversion E; subst o' t'. split; intros Ho; apply in_or_app; left; unfold DMPBase.keep1, DMPBase.keep2; destruct o; cbn; try exact Hc; congruence.
  - destruct (IH Hin Hc) as [A B]. split; intros Ho; apply in_or_app; right; auto.
Qed.

Lemma apart_ordered cls d : apart cls (DMP.t1 d) (DMP.t2 d) -> ordered cls d.
Proof.
  intros Ha c0 cl sop t0 o t E Hin0 Hc0 Hin Hc.
  pose proof (Ha c0 cl E) as B.
  destruct (seg_sides d sop t0 c0 Hin0 Hc0) as [S1 S2]. destruct (seg_sides d o t cl Hin Hc) as [T1 T2].
  destruct sop, o; cbn [DMP.op_code]; try lia; exfalso;
    apply (B (S2 ltac:(discriminate)) (T1 ltac:(discriminate))).
Qed.

Local Open Scope N_scope.

Lemma mdt_loop_total_tt fmt it d : forall s out any,
  exists r, mdt_loop fmt it (s, out, any) (map (fun sg : DMP.seg => DMP.JS (fst sg) (snd sg)) d) = FOk r.
Proof.
  induction d as [|[o t] d IH]; intros s out any; cbn [map mdt_loop fst snd]; [eauto|].
  assert (M : forall action dact, exists r1, mdt_marked fmt it (s, out, any) t action dact [] = FOk r1).
  { intros action dact. unfold mdt_marked. destruct (is_placeholder s t) as [ph|] eqn:Ei.
    - assert (Hp : exists e, p2t_get (p2t s) ph = Some e).
      { unfold is_placeholder in Ei. destruct t as [|c [|c2 r]]; try discriminate. unfold Placeholder.is_ph in Ei.
        destruct (p2t_get (p2t s) c) as [e|] eqn:E; [|discriminate]. inversion Ei; subst. eauto. }
      destruct Hp as [[[el ty] cl] Hp]. unfold Placeholder.mark_diff. rewrite Hp. cbv zeta.
      destruct ty.
      + destruct (Placeholder.gp _ _ _ _ _) as [[s2 c2] m]. cbn [of_ph fbind]. destruct it; eauto.
      + cbn [of_ph fbind]. destruct it; eauto.
      + destruct (Placeholder.gp _ _ _ _ _) as [[s2 c2] m]. cbn [of_ph fbind]. destruct it; eauto.
    - unfold Placeholder.wrap_diff. destruct (Placeholder.diff_tags dact). cbn [of_ph fbind]. eauto. }
  destruct o; cbn [mdt_seg].
  - destruct (M Placeholder.s_delete Placeholder.ADel) as [[[s1 o1] a1] E1]. rewrite E1. cbn [fbind]. apply IH.
  - destruct (M Placeholder.s_insert Placeholder.AIns) as [[[s1 o1] a1] E1]. rewrite E1. cbn [fbind]. apply IH.
  - cbn [fbind]. apply IH.
Qed.

Theorem make_diff_tags_total_tt c o s left right in_tail :
  c_replace c = false -> wf_open (cls_of s) -> DMP.wf_cls (cls_of s) -> cls_of s 32 = None ->
  apart (cls_of s) left right ->
  exists r, make_diff_tags c o s left right in_tail = FOk r.
Proof.
  intros Hrep Hwo Hwf H32 Hap. unfold make_diff_tags, text_diff. fold (norm_if c left). fold (norm_if c right).
  destruct (DMPTotalMain.diff_main_total (o_cc o) (o_clock o) (norm_if c left) (norm_if c right) DMPBisect5.bisect_safe_holds) as [d0 E0].
  rewrite E0. cbn [of_dmp fbind].
  destruct (DMPTotalSem.cleanupSemantic_total (o_cc o) d0) as [d1 E1]. rewrite E1. cbn [of_dmp fbind].
  apply DMPMain.diff_main_spec in E0 as (A1 & A2 & _).
  apply DMPSemantic.cleanupSemantic_t12 in E1 as (B1 & B2 & _).
  (* the characters of the normalised texts are characters of the texts, or the space *)
  assert (Hn : forall x ch, In ch (norm_if c x) -> In ch x \/ ch = 32).
  { intros x ch. assert (F : Forall (fun k => In k x \/ k = 32) (norm_if c x)).
    { apply (norm_if_all (fun k => In k x \/ k = 32) (or_intror eq_refl) c x). apply Forall_forall. intros k Hk. now left. }
    rewrite Forall_forall in F. apply F. }
  assert (Hap' : apart (cls_of s) (DMP.t1 d1) (DMP.t2 d1)).
  { rewrite B1, B2, A1, A2. intros c0 cl E. pose proof (Hap c0 cl E) as B.
    assert (Hc0 : c0 <> 32) by (intros ->; congruence).
    assert (Hcl : cl <> 32).
    { intros ->. pose proof (Hwf c0 32 E) as W. unfold DMP.is_close in W. rewrite H32 in W. discriminate. }
    intros H0 H1; apply Hn in H0; apply Hn in H1; destruct H0 as [H0| ->]; try congruence;
      destruct H1 as [H1| ->]; try congruence; exact (B H0 H1). }
  destruct (realign_total (cls_of s) d1 Hwo (apart_ordered _ _ Hap')) as [d2 E2]. rewrite E2. cbn [of_dmp fbind]. rewrite Hrep.
  apply mdt_loop_total_tt.
Qed.

(* ------------------------------------------------------------------ *)
(** * Non-vacuity: a maker with one formatting pair; a<b>x</b> -> ax *)

Definition ex3_b : xtree := XNode [98] [] None [] [].
Definition ex3_s1 : pstate := fst (fst (Placeholder.gp ph_init ex3_b ex3_b Placeholder.TClose None)).
Definition ex3_s : pstate := fst (fst (Placeholder.gp ex3_s1 ex3_b ex3_b Placeholder.TOpen (Some 57351))).
Definition ex3_cfg : cfg := Cfg 0 false [[112]] [[98]].

Lemma ex3_p2t : p2t ex3_s = (57352, (ex3_b, Placeholder.TOpen, Some 57351)) :: (57351, (ex3_b, Placeholder.TClose, None)) :: p2t ph_init.
Proof. vm_compute. reflexivity. Qed.

Lemma ex3_premises :
  wf_open (cls_of ex3_s) /\ DMP.wf_cls (cls_of ex3_s) /\ cls_of ex3_s 32 = None /\
  apart (cls_of ex3_s) [97; 57352; 120; 57351] [97; 120].
Proof.
  split; [|split; [|split]].
  - intros c0 cl Hc. unfold cls_of in Hc. rewrite ex3_p2t, ph_init_p2t in Hc. cbn [Placeholder.p2t_get] in Hc.
    repeat match type of Hc with context [N.eqb c0 ?k] => destruct (N.eqb_spec c0 k); [inversion Hc; subst; discriminate|] end.
    discriminate.
  - intros c0 cl Hc. unfold cls_of, DMP.is_close in *. rewrite ex3_p2t, ph_init_p2t in *. cbn [Placeholder.p2t_get] in Hc.
    repeat match type of Hc with context [N.eqb c0 ?k] => destruct (N.eqb_spec c0 k); [inversion Hc; subst; reflexivity|] end.
    discriminate.
  - vm_compute. reflexivity.
  - intros c0 cl Hc Hin. cbn [In] in Hin. destruct Hin as [<-|[<-|[]]]; vm_compute in Hc; discriminate.
Qed.

Example ex3_total : exists r, make_diff_tags ex3_cfg ex_o ex3_s [97; 57352; 120; 57351] [97; 120] false = FOk r.
Proof.
  destruct ex3_premises as (A & B & C & D). exact (make_diff_tags_total_tt ex3_cfg ex_o ex3_s _ _ false eq_refl A B C D).
Qed.
