(* Proofs about the PlaceholderMaker model, part 2: what do_tree computes
   (a pure description relative to the final key table), the invariant on table
   elements, and its preservation. *)
From Coq Require Import List NArith Bool Lia.
Import ListNotations.
Require Import XV.Placeholder XV.PlaceholderProofs.
Local Open Scope N_scope.

(* ---------------------------------------------- pure description of do_tree *)
Definition tkeys := list (key * N).

Definition phd (m : tkeys) (el : xtree) (ty : ttype) (cl : option N) : N :=
  match t2p_get m (knorm el, ty, cl) with Some c => c | None => 0 end.

(* what do_element writes into the parent's text for child [c] *)
Fixpoint enc (fmt : list str) (m : tkeys) (c : xtree) : str :=
  match c with
  | XNode tag attrs text tail kids =>
    let c0 := XNode tag attrs text [] kids in
    if mem tag fmt then
      let phc := phd m c0 TClose None in
      let pho := phd m c0 TOpen (Some phc) in
      pho :: otxt text ++ concat (map (enc fmt m) kids) ++ phc :: tail
    else phd m c0 TSingle None :: tail
  end.
Definition enc_kids (fmt : list str) (m : tkeys) (ks : list xtree) : str := concat (map (enc fmt m) ks).

(* all keys do_element asks for on child [c] are bound *)
Fixpoint fcov (fmt : list str) (m : tkeys) (c : xtree) : bool :=
  match c with
  | XNode tag attrs text tail kids =>
    let c0 := XNode tag attrs text [] kids in
    if mem tag fmt then
      match t2p_get m (knorm c0, TClose, None) with
      | Some phc =>
        match t2p_get m (knorm c0, TOpen, Some phc) with
        | Some _ => forallb (fcov fmt m) kids
        | None => false
        end
      | None => false
      end
    else match t2p_get m (knorm c0, TSingle, None) with Some _ => true | None => false end
  end.

(* the value of a live element when do_tree returns *)
Fixpoint dlive (tt fmt : list str) (m : tkeys) (t : xtree) : xtree :=
  match t with
  | XNode tag attrs text tail kids =>
    if mem tag tt then
      match kids with
      | [] => XNode tag attrs text tail []
      | _ :: _ => XNode tag attrs (Some (otxt text ++ concat (map (enc fmt m) kids))) tail []
      end
    else XNode tag attrs text tail (map (dlive tt fmt m) kids)
  end.

(* all keys do_tree asks for below [t] are bound *)
Fixpoint dcov (tt fmt : list str) (m : tkeys) (post : bool) (t : xtree) : bool :=
  match t with
  | XNode tag attrs text tail kids =>
    let live :=
      if mem tag tt then
        match kids with
        | [] => true
        | _ :: _ => forallb (fcov fmt m) kids && forallb (dcov tt fmt m true) kids
        end
      else forallb (dcov tt fmt m false) kids in
    if post then if mem tag fmt then forallb (dcov tt fmt m true) kids else live else live
  end.

Definition kext (m m' : tkeys) : Prop := forall k c, t2p_get m k = Some c -> t2p_get m' k = Some c.
Lemma kext_refl : forall m, kext m m.
Proof. intros m k c H. exact H. Qed.
Lemma kext_trans : forall a b c, kext a b -> kext b c -> kext a c.
Proof. intros a b c H1 H2 k x H. auto. Qed.
Lemma ext_kext : forall s s', ext s s' -> kext (t2p s) (t2p s').
Proof. intros s s' (H & _). exact H. Qed.

Lemma forallb_Forall_impl : forall (A : Type) (f g : A -> bool) (l : list A),
  Forall (fun x => f x = true -> g x = true) l -> forallb f l = true -> forallb g l = true.
Proof.
  intros A f g l F. induction F as [|x l Hx _ IH]; cbn; [auto|].
  intro H. apply andb_true_iff in H. destruct H as [H1 H2]. rewrite (Hx H1), (IH H2). reflexivity.
Qed.
Lemma map_ext_Forall : forall (A B : Type) (f g : A -> B) (l : list A),
  Forall (fun x => f x = g x) l -> map f l = map g l.
Proof. intros A B f g l F. induction F as [|x l Hx _ IH]; cbn; [reflexivity | rewrite Hx, IH; reflexivity]. Qed.

Lemma fcov_mono : forall fmt m m' c, kext m m' -> fcov fmt m c = true ->
  fcov fmt m' c = true /\ enc fmt m' c = enc fmt m c.
Proof.
  intros fmt m m' c K. induction c as [tag attrs text tail kids IH] using xtree_ind2.
  cbn [fcov enc]. cbv zeta. destruct (mem tag fmt).
  - destruct (t2p_get m (knorm (XNode tag attrs text [] kids), TClose, None)) as [phc|] eqn:L1; [|discriminate].
    destruct (t2p_get m (knorm (XNode tag attrs text [] kids), TOpen, Some phc)) as [pho|] eqn:L2; [|discriminate].
    intro H. unfold phd. rewrite (K _ _ L1), L1, (K _ _ L2), L2. split.
    + revert H. apply forallb_Forall_impl. eapply Forall_impl; [|exact IH]. cbn. intros a Ha Hc. apply Ha. exact Hc.
    + f_equal. f_equal. f_equal. f_equal. apply map_ext_Forall.
      rewrite Forall_forall in IH. apply Forall_forall. intros x Hx. apply IH; [exact Hx|].
      rewrite forallb_forall in H. apply H. exact Hx.
  - destruct (t2p_get m (knorm (XNode tag attrs text [] kids), TSingle, None)) as [ph|] eqn:L1; [|discriminate].
    intros _. unfold phd. rewrite (K _ _ L1), L1. split; reflexivity.
Qed.

Lemma fcov_kids_mono : forall fmt m m' ks, kext m m' -> forallb (fcov fmt m) ks = true ->
  forallb (fcov fmt m') ks = true /\ enc_kids fmt m' ks = enc_kids fmt m ks.
Proof.
  intros fmt m m' ks K H. rewrite forallb_forall in H. split.
  - apply forallb_forall. intros x Hx. apply (fcov_mono fmt m m' x K). auto.
  - unfold enc_kids. f_equal. apply map_ext_Forall. apply Forall_forall. intros x Hx.
    apply (fcov_mono fmt m m' x K). auto.
Qed.

Lemma dcov_mono : forall tt fmt m m' t, kext m m' -> forall post, dcov tt fmt m post t = true ->
  dcov tt fmt m' post t = true.
Proof.
  intros tt fmt m m' t K. induction t as [tag attrs text tail kids IH] using xtree_ind2. intro post.
  assert (HK : forall p, forallb (dcov tt fmt m p) kids = true -> forallb (dcov tt fmt m' p) kids = true).
  { intro p. apply forallb_Forall_impl. eapply Forall_impl; [|exact IH]. cbn. intros a Ha. apply Ha. }
  cbn [dcov]. cbv zeta.
  assert (HL : (if mem tag tt then match kids with [] => true | _ :: _ => forallb (fcov fmt m) kids && forallb (dcov tt fmt m true) kids end
                else forallb (dcov tt fmt m false) kids) = true ->
               (if mem tag tt then match kids with [] => true | _ :: _ => forallb (fcov fmt m') kids && forallb (dcov tt fmt m' true) kids end
                else forallb (dcov tt fmt m' false) kids) = true).
  { destruct (mem tag tt); [|apply HK]. destruct kids as [|k0 ks0]; [auto|].
    intro H. apply andb_true_iff in H. destruct H as [H1 H2]. apply andb_true_iff. split.
    - apply (fcov_kids_mono fmt m m' _ K H1).
    - apply HK. exact H2. }
  destruct post; [destruct (mem tag fmt)|]; auto.
Qed.

Lemma dlive_mono : forall tt fmt m m' t, kext m m' -> dcov tt fmt m false t = true ->
  dlive tt fmt m' t = dlive tt fmt m t.
Proof.
  intros tt fmt m m' t K. induction t as [tag attrs text tail kids IH] using xtree_ind2.
  cbn [dcov dlive]. cbv zeta. destruct (mem tag tt).
  - destruct kids as [|k0 ks0]; [reflexivity|]. intro H. apply andb_true_iff in H. destruct H as [H1 _].
    destruct (fcov_kids_mono fmt m m' _ K H1) as [_ E]. unfold enc_kids in E. rewrite E. reflexivity.
  - intro H. f_equal. apply map_ext_Forall. rewrite forallb_forall in H. rewrite Forall_forall in IH.
    apply Forall_forall. intros x Hx. apply IH; auto.
Qed.

(* ------------------------------------------- the invariant on table elements *)
(* A T_SINGLE entry holds its key element, intact or as do_tree leaves it; a
   T_OPEN entry holds a childless element with the tag and attributes of its key. *)
Definition good (tt fmt : list str) (s : state) : Prop :=
  forall c e ty cl k, p2t_get (p2t s) c = Some (e, ty, cl) -> t2p_get (t2p s) (k, ty, cl) = Some c ->
    match ty with
    | TSingle => exists c0, knorm c0 = k /\
                   (e = c0 \/ (e = dlive tt fmt (t2p s) c0 /\ dcov tt fmt (t2p s) false c0 = true))
    | TOpen => xkids e = [] /\ xtag e = xtag k /\ xattrs e = xattrs k
    | TClose => True
    end.

Definition store_cond (ty : ttype) (el store : xtree) : Prop :=
  match ty with
  | TSingle => store = el
  | TOpen => xkids store = [] /\ xtag store = xtag el /\ xattrs store = xattrs el
  | TClose => True
  end.

Lemma knorm_tag : forall t, xtag (knorm t) = xtag t.
Proof. destruct t; reflexivity. Qed.
Lemma knorm_attrs : forall t, xattrs (knorm t) = xattrs t.
Proof. destruct t; reflexivity. Qed.

Lemma good_kext : forall tt fmt m m' e ty k,
  kext m m' ->
  match ty with
  | TSingle => exists c0, knorm c0 = k /\ (e = c0 \/ (e = dlive tt fmt m c0 /\ dcov tt fmt m false c0 = true))
  | TOpen => xkids e = [] /\ xtag e = xtag k /\ xattrs e = xattrs k
  | TClose => True
  end ->
  match ty with
  | TSingle => exists c0, knorm c0 = k /\ (e = c0 \/ (e = dlive tt fmt m' c0 /\ dcov tt fmt m' false c0 = true))
  | TOpen => xkids e = [] /\ xtag e = xtag k /\ xattrs e = xattrs k
  | TClose => True
  end.
Proof.
  intros tt fmt m m' e ty k K. destruct ty; auto.
  intros (c0 & E & [H|[H1 H2]]); exists c0; split; auto.
  right. split; [rewrite (dlive_mono tt fmt m m' c0 K H2); exact H1 | eapply dcov_mono; eauto].
Qed.

Lemma gp_good : forall tt fmt s el store ty cl s' c m,
  gp s el store ty cl = (s', c, m) -> ph_inv s -> good tt fmt s -> store_cond ty el store -> good tt fmt s'.
Proof.
  intros tt fmt s el store ty cl s' c m G INV GD SC.
  destruct (t2p_get (t2p s) (knorm el, ty, cl)) as [c0|] eqn:L.
  - rewrite (gp_hit _ _ _ _ _ _ L) in G. inversion G; subst. exact GD.
  - assert (K : kext (t2p s) (t2p s')) by (apply ext_kext; eapply gp_ext; eauto).
    rewrite (gp_miss _ _ _ _ _ L) in G. inversion G; subst. clear G.
    destruct INV as ((I1 & I2) & J & (C1 & C2 & C3 & C4)).
    intros c e ty0 cl0 k HP HT. cbn [p2t t2p p2t_get t2p_get] in HP, HT.
    destruct (key_eqb (k, ty0, cl0) (knorm el, ty, cl)) eqn:E.
    + apply key_eqb_eq in E. inversion E; subst. inversion HT; subst. rewrite N.eqb_refl in HP.
      inversion HP; subst. destruct ty; cbn in SC |- *; auto.
      * rewrite knorm_tag, knorm_attrs. exact SC.
      * exists el. split; [reflexivity | left; exact SC].
    + destruct (C2 _ _ HT) as [Ha Hb]. destruct (N.eqb c (ctr s + 1)) eqn:E2; [apply N.eqb_eq in E2; lia|].
      eapply good_kext; [exact K|]. eapply GD; eauto.
Qed.

Lemma set_elem_good : forall tt fmt s ph c0,
  ph_inv s -> good tt fmt s -> t2p_get (t2p s) (knorm c0, TSingle, None) = Some ph ->
  dcov tt fmt (t2p s) false c0 = true ->
  good tt fmt (set_elem s ph (dlive tt fmt (t2p s) c0)).
Proof.
  intros tt fmt s ph c0 ((I1 & I2) & J & _) GD L DC c e ty cl k HP HT. cbn [set_elem p2t t2p] in HP, HT |- *.
  destruct (N.eq_dec c ph) as [->|NE].
  - destruct (I1 _ _ _ _ L) as [e0 P0]. rewrite (p2t_get_set_elem_same _ _ _ _ _ _ P0) in HP.
    inversion HP; subst. pose proof (J _ _ _ L HT) as EQ. inversion EQ; subst.
    exists c0. split; [reflexivity|]. right. split; [reflexivity | exact DC].
  - rewrite p2t_get_set_elem_other in HP by exact NE. eapply GD; eauto.
Qed.

(* --------------------------------------------------- do_element, specified *)
Definition flat_specP (tt fmt : list str) (c : xtree) : Prop :=
  forall s s' txt mk, flat_kid fmt s c = (s', txt, mk) -> ph_inv s -> good tt fmt s ->
    good tt fmt s' /\ fcov fmt (t2p s') c = true /\ txt = enc fmt (t2p s') c.

Lemma flat_kids_spec_of : forall tt fmt ks, Forall (flat_specP tt fmt) ks ->
  forall s s' txt mk, flat_kids fmt s ks = (s', txt, mk) -> ph_inv s -> good tt fmt s ->
    good tt fmt s' /\ forallb (fcov fmt (t2p s')) ks = true /\ txt = enc_kids fmt (t2p s') ks.
Proof.
  intros tt fmt ks F. induction F as [|k ks Hk _ IH]; intros s s' txt mk E I G; cbn [flat_kids] in E.
  - inversion E; subst. auto.
  - destruct (flat_kid fmt s k) as [[s1 t1] m1] eqn:E1. destruct (flat_kids fmt s1 ks) as [[s2 t2] m2] eqn:E2.
    inversion E; subst. clear E.
    destruct (Hk _ _ _ _ E1 I G) as (G1 & F1 & T1).
    destruct (flat_kid_ok _ _ _ _ _ _ E1 I) as [I1 X1].
    destruct (IH _ _ _ _ E2 I1 G1) as (G2 & F2 & T2).
    destruct (flat_kids_ok _ _ _ _ _ _ E2 I1) as [I2 X2].
    destruct (fcov_mono fmt _ _ k (ext_kext _ _ X2) F1) as [F1' T1'].
    split; [exact G2|]. split.
    + cbn [forallb]. rewrite F1', F2. reflexivity.
    + unfold enc_kids. cbn [map concat]. rewrite T1'. subst. reflexivity.
Qed.

Lemma flat_kid_spec : forall tt fmt c, flat_specP tt fmt c.
Proof.
  intros tt fmt c. induction c as [tag attrs text tail kids IH] using xtree_ind2. intros s s' txt mk E I G.
  rewrite flat_kid_unfold in E. cbv zeta in E. cbn [fcov enc]. cbv zeta. destruct (mem tag fmt).
  - destruct (gp s _ _ TClose None) as [[s1 phc] m1] eqn:G1.
    destruct (gp s1 _ _ TOpen (Some phc)) as [[s2 pho] m2] eqn:G2.
    destruct (flat_kids fmt s2 kids) as [[s3 inner] mk3] eqn:E3. inversion E; subst. clear E.
    destruct (gp_ok _ _ _ _ _ _ _ _ G1 I) as [I1 X1].
    destruct (gp_ok _ _ _ _ _ _ _ _ G2 I1) as [I2 X2].
    destruct (flat_kids_ok _ _ _ _ _ _ E3 I2) as [I3 X3].
    assert (GD1 : good tt fmt s1) by (eapply gp_good; eauto; exact Logic.I).
    assert (GD2 : good tt fmt s2).
    { eapply gp_good; eauto. cbn. auto. }
    destruct (flat_kids_spec_of tt fmt kids IH _ _ _ _ E3 I2 GD2) as (GD3 & F3 & T3).
    pose proof (gp_bound _ _ _ _ _ _ _ _ G1) as L1. pose proof (gp_bound _ _ _ _ _ _ _ _ G2) as L2.
    apply (ext_kext _ _ X2) in L1. apply (ext_kext _ _ X3) in L1. apply (ext_kext _ _ X3) in L2.
    unfold phd. rewrite L1, L2. split; [exact GD3|]. split; [exact F3|]. subst. reflexivity.
  - destruct (gp s _ _ TSingle None) as [[s1 ph] miss] eqn:G1. inversion E; subst. clear E.
    pose proof (gp_bound _ _ _ _ _ _ _ _ G1) as L1. unfold phd. rewrite L1.
    split; [|split; reflexivity]. eapply gp_good; eauto. reflexivity.
Qed.

Lemma flat_kids_spec : forall tt fmt ks s s' txt mk,
  flat_kids fmt s ks = (s', txt, mk) -> ph_inv s -> good tt fmt s ->
  good tt fmt s' /\ forallb (fcov fmt (t2p s')) ks = true /\ txt = enc_kids fmt (t2p s') ks.
Proof.
  intros tt fmt ks. apply flat_kids_spec_of. apply Forall_forall. intros c _. apply flat_kid_spec.
Qed.

(* -------------------------------------------------------- do_tree, specified *)
Definition dw_specP (tt fmt : list str) (t : xtree) : Prop :=
  forall post s marks s' mk' t', dw tt fmt post s marks t = (s', mk', t') -> ph_inv s -> good tt fmt s ->
    good tt fmt s' /\ dcov tt fmt (t2p s') post t = true /\ (post = false -> t' = dlive tt fmt (t2p s') t).

Lemma dw_post_kids_spec_of : forall tt fmt ks, Forall (dw_specP tt fmt) ks ->
  forall s mk s' mk', dw_post_kids tt fmt s mk ks = (s', mk') -> ph_inv s -> good tt fmt s ->
    good tt fmt s' /\ forallb (dcov tt fmt (t2p s') true) ks = true.
Proof.
  intros tt fmt ks F. induction F as [|k ks Hk _ IH]; intros s mk s' mk' E I G; cbn [dw_post_kids] in E.
  - inversion E; subst. auto.
  - destruct (dw tt fmt true s mk k) as [[s1 mk1] k'] eqn:E1.
    destruct (Hk _ _ _ _ _ _ E1 I G) as (G1 & D1 & _).
    destruct (dw_ok _ _ _ _ _ _ _ _ _ E1 I) as [I1 X1].
    destruct (IH _ _ _ _ E I1 G1) as (G2 & D2).
    destruct (dw_post_kids_ok_of tt fmt ks (proj2 (Forall_forall _ _) (fun x _ => dw_ok tt fmt x)) _ _ _ _ E I1) as [I2 X2].
    split; [exact G2|]. cbn [forallb]. rewrite D2. rewrite (dcov_mono tt fmt _ _ k (ext_kext _ _ X2) true D1). reflexivity.
Qed.

Lemma dw_live_kids_spec_of : forall tt fmt ks, Forall (dw_specP tt fmt) ks ->
  forall s s' ks', dw_live_kids tt fmt s ks = (s', ks') -> ph_inv s -> good tt fmt s ->
    good tt fmt s' /\ forallb (dcov tt fmt (t2p s') false) ks = true /\ ks' = map (dlive tt fmt (t2p s')) ks.
Proof.
  intros tt fmt ks F. induction F as [|k ks Hk _ IH]; intros s s' ks' E I G; cbn [dw_live_kids] in E.
  - inversion E; subst. auto.
  - destruct (dw tt fmt false s [] k) as [[s1 mk1] k'] eqn:E1.
    destruct (dw_live_kids tt fmt s1 ks) as [s2 r] eqn:E2. inversion E; subst. clear E.
    destruct (Hk _ _ _ _ _ _ E1 I G) as (G1 & D1 & T1).
    destruct (dw_ok _ _ _ _ _ _ _ _ _ E1 I) as [I1 X1].
    destruct (IH _ _ _ E2 I1 G1) as (G2 & D2 & T2).
    destruct (dw_live_kids_ok_of tt fmt ks (proj2 (Forall_forall _ _) (fun x _ => dw_ok tt fmt x)) _ _ _ E2 I1) as [I2 X2].
    split; [exact G2|]. cbn [forallb map].
    rewrite D2. rewrite (dcov_mono tt fmt _ _ k (ext_kext _ _ X2) false D1).
    rewrite (dlive_mono tt fmt _ _ k (ext_kext _ _ X2) D1). rewrite (T1 eq_refl), T2. auto.
Qed.

Lemma dw_live_spec_of : forall tt fmt kids, Forall (dw_specP tt fmt) kids ->
  forall s tag attrs text tail' s' t', dw_live tt fmt s tag attrs text tail' kids = (s', t') ->
    ph_inv s -> good tt fmt s ->
    good tt fmt s' /\ dcov tt fmt (t2p s') false (XNode tag attrs text tail' kids) = true /\
    t' = dlive tt fmt (t2p s') (XNode tag attrs text tail' kids).
Proof.
  intros tt fmt kids F s tag attrs text tail' s' t' E I G. unfold dw_live in E. cbn [dcov dlive]. cbv zeta.
  destruct (mem tag tt).
  - destruct kids as [|k0 ks0]; [inversion E; subst; auto|].
    destruct (flat_kids fmt s (k0 :: ks0)) as [[s1 txt1] mk] eqn:E1.
    destruct (dw_post_kids tt fmt s1 mk (k0 :: ks0)) as [s2 mk2] eqn:E2. inversion E; subst. clear E.
    destruct (flat_kids_spec tt fmt _ _ _ _ _ E1 I G) as (G1 & F1 & T1).
    destruct (flat_kids_ok _ _ _ _ _ _ E1 I) as [I1 X1].
    destruct (dw_post_kids_spec_of tt fmt _ F _ _ _ _ E2 I1 G1) as (G2 & D2).
    destruct (dw_post_kids_ok_of tt fmt _ (proj2 (Forall_forall _ _) (fun x _ => dw_ok tt fmt x)) _ _ _ _ E2 I1) as [I2 X2].
    destruct (fcov_kids_mono fmt _ _ _ (ext_kext _ _ X2) F1) as [F2 T2].
    split; [exact G2|]. split.
    + rewrite F2, D2. reflexivity.
    + unfold enc_kids in T2. rewrite T2. subst. reflexivity.
  - destruct (dw_live_kids tt fmt s kids) as [s1 kids'] eqn:E1. inversion E; subst. clear E.
    destruct (dw_live_kids_spec_of tt fmt _ F _ _ _ E1 I G) as (G1 & D1 & T1).
    split; [exact G1|]. split; [exact D1|]. rewrite T1. reflexivity.
Qed.

Lemma store_final_good : forall tt fmt s c0,
  ph_inv s -> good tt fmt s -> dcov tt fmt (t2p s) false c0 = true ->
  good tt fmt (store_final s c0 (dlive tt fmt (t2p s) c0)).
Proof.
  intros tt fmt s c0 I G D. unfold store_final.
  destruct (t2p_get (t2p s) (knorm c0, TSingle, None)) as [ph|] eqn:L; [|exact G].
  apply set_elem_good; auto.
Qed.

Lemma dw_spec : forall tt fmt t, dw_specP tt fmt t.
Proof.
  intros tt fmt t. induction t as [tag attrs text tail kids IH] using xtree_ind2.
  intros post s marks s' mk' t' E I G. rewrite dw_unfold in E. destruct post; [destruct (mem tag fmt) eqn:MF|].
  - destruct (dw_post_kids tt fmt s marks kids) as [s1 mk1] eqn:E1. inversion E; subst. clear E.
    destruct (dw_post_kids_spec_of tt fmt _ IH _ _ _ _ E1 I G) as (G1 & D1).
    split; [exact G1|]. split; [|discriminate]. cbn [dcov]. cbv zeta. rewrite MF. exact D1.
  - destruct (dw_live tt fmt s tag attrs text [] kids) as [s1 t1] eqn:E1.
    destruct (dw_live_spec_of tt fmt _ IH _ _ _ _ _ _ _ E1 I G) as (G1 & D1 & T1).
    destruct (dw_live_ok_of tt fmt _ (proj2 (Forall_forall _ _) (fun x _ => dw_ok tt fmt x)) _ _ _ _ _ _ _ E1 I) as [I1 X1].
    assert (DC : forall m, dcov tt fmt m true (XNode tag attrs text tail kids) = dcov tt fmt m false (XNode tag attrs text [] kids)).
    { intro m. cbn [dcov]. cbv zeta. rewrite MF. reflexivity. }
    destruct marks as [|[|] rest]; inversion E; subst; clear E.
    + split; [exact G1|]. split; [|discriminate]. rewrite DC. exact D1.
    + split; [|split; [|discriminate]].
      * apply store_final_good; auto.
      * rewrite DC. unfold store_final. destruct (t2p_get (t2p s1) _); exact D1.
    + split; [exact G1|]. split; [|discriminate]. rewrite DC. exact D1.
  - destruct (dw_live tt fmt s tag attrs text tail kids) as [s1 t1] eqn:E1. inversion E; subst. clear E.
    destruct (dw_live_spec_of tt fmt _ IH _ _ _ _ _ _ _ E1 I G) as (G1 & D1 & T1).
    split; [exact G1|]. split; [exact D1|]. intros _. exact T1.
Qed.

(* do_tree: invariants, and the document it leaves *)
Lemma do_tree_spec : forall tt fmt s T s' T',
  do_tree tt fmt s T = (s', T') -> ph_inv s -> good tt fmt s ->
  ph_inv s' /\ ext s s' /\ good tt fmt s' /\ dcov tt fmt (t2p s') false T = true /\ T' = dlive tt fmt (t2p s') T.
Proof.
  intros tt fmt s T s' T' E I G. unfold do_tree in E.
  destruct (dw tt fmt false s [] T) as [[s1 mk1] T1] eqn:E1. inversion E; subst. clear E.
  destruct (dw_ok _ _ _ _ _ _ _ _ _ E1 I) as [I1 X1].
  destruct (dw_spec tt fmt T _ _ _ _ _ _ E1 I G) as (G1 & D1 & T1').
  split; [exact I1|]. split; [exact X1|]. split; [exact G1|]. split; [exact D1|]. apply T1'. reflexivity.
Qed.
