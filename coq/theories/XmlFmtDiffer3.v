(* XmlFmtDiffer3 -- the side conditions of the formatter theorems for the differ's own scripts.

   * [fscript_of_script_ok]  PatcherProofs.script_ok (PrefixProofs.differ_script_ok) gives XmlFmtProofs9.fscript_ok:
                     the formatter looks prefixes up in the root's declarations first, then in the diff prefix and the
                     inserted namespaces, last first; the prologue only inserts prefixes the left root does not bind;
   * [parts_side]    from the block structure of the script (XmlFmtDiffer2.gen_script_parts): no node is the target of two
                     text updates / tail updates / renames; the new texts are texts of the right document;
   * [keys_run]      attribute names an action takes from the working document are names of the document as it is then.
   No axioms. *)
From Coq Require Import List NArith ZArith Bool Arith Lia.
Import ListNotations.
Require Import XV.Str XV.Json XV.TextFormat XV.Forest XV.LCS XV.Matcher XV.Differ XV.Spec XV.Path XV.WF XV.ForestProofs XV.TreeProofs
               XV.AttrProofs XV.PathProofs XV.PatcherProofs XV.Render XV.DifferFrame XV.DifferCounters XV.DifferSound
               XV.PipelineProofs XV.PrefixProofs
               XV.XmlFmt XV.Projections
               XV.XmlFmtProofs0 XV.XmlFmtProofs1 XV.XmlFmtProofs2 XV.XmlFmtProofsR2 XV.XmlFmtProofs3 XV.XmlFmtProofs4 XV.XmlFmtProofs5
               XV.XmlFmtProofs6 XV.XmlFmtProofs7 XV.XmlFmtProofs8 XV.XmlFmtProofs9 XV.XmlFmtProofsB XV.XmlFmtProofsC XV.XmlFmtDiffer1 XV.XmlFmtDiffer2.
Require XV.Placeholder XV.PlaceholderUndo.
Local Open Scope nat_scope.

(* ------------------------------------------------------------------ *)
(** * The namespace environment *)

Lemma env_get_app a b q : env_get (a ++ b) q = match env_get a q with Some x => Some x | None => env_get b q end.
Proof. induction a as [|[k v] a IH]; cbn [app env_get]; [reflexivity|]. destruct (str_eqb k q); [reflexivity|exact IH]. Qed.

Lemma some_ns_app a b : some_ns (a ++ b) = some_ns a ++ some_ns b.
Proof. unfold some_ns. apply flat_map_app. Qed.

Definition env_le (e1 e2 : nsenv) : Prop := forall q w, env_get e1 q = Some w -> env_get e2 q = Some w.

Lemma env_agrees_le pe e1 e2 f root : env_le e1 e2 -> env_agrees pe e1 f root -> env_agrees pe e2 f root.
Proof. intros Hle H n Hn name u l p Et Eu Ep. apply Hle. eapply H; eauto. Qed.

(* an InsertNamespace of the script binds a prefix the root does not bind *)
Definition ns_new (rootns : list (option str * str)) (a : iact) : Prop :=
  match a with IInsNs (Some p) _ => env_get (some_ns rootns) p = None | _ => True end.

Theorem fscript_of_script_ok rootns pe root script : forall env ns f,
  script_ok pe root env f script -> env_le env (some_ns rootns ++ some_ns (rev ns)) ->
  Forall (ns_new rootns) script -> fscript_ok rootns pe root ns f script.
Proof.
  induction script as [|a r IH]; intros env ns f Hok Hle Hnew; [exact I|].
  cbn [script_ok fscript_ok] in *. destruct Hok as (He & Hnm & Hns & Hok). apply Forall_cons_iff in Hnew as [Hn Hnew].
  split; [eapply env_agrees_le; eauto|]. split; [exact Hnm|].
  destruct (spec_apply root f a) as [f'|]; [|exact I].
  apply (IH (env_after a env)); [exact Hok| |exact Hnew].
  destruct a as [| | | | | | | | | | |[p|] u|]; cbn [env_after ns_after]; try exact Hle; [|contradiction].
  cbn [ns_new] in Hn. rewrite rev_app_distr. cbn [rev app]. unfold some_ns at 2. cbn [flat_map fst snd app].
  fold (some_ns (rev ns)). intros q w. unfold env_set. cbn [env_get]. rewrite env_get_app. cbn [env_get].
  destruct (str_eqb p q) eqn:E.
  - apply streqb_true in E. subst q. intros H. inversion H; subst w. now rewrite Hn.
  - intros H. specialize (Hle q w H). rewrite env_get_app in Hle. exact Hle.
Qed.

(* ------------------------------------------------------------------ *)
(** * Targets and texts, from the blocks *)

Lemma flat_map_flat_map {A B C} (g : B -> list C) (h : A -> list B) l :
  flat_map g (flat_map h l) = flat_map (fun x => flat_map g (h x)) l.
Proof. induction l as [|x l IH]; [reflexivity|]. cbn [flat_map]. now rewrite flat_map_app, IH. Qed.

Lemma tgts_app g a b : tgts g (a ++ b) = tgts g a ++ tgts g b.
Proof. apply flat_map_app. Qed.

Lemma tgts_none g l : (forall a, In a l -> g a = []) -> tgts g l = [].
Proof. unfold tgts. induction l as [|a l IH]; intros H; [reflexivity|]. cbn [flat_map]. rewrite (H a (or_introl eq_refl)), IH; [reflexivity|]. intros b Hb. apply H. now right. Qed.

Lemma len_ttext l : length (tgts ttext l) = cnt is_text l.
Proof. unfold tgts, cnt. induction l as [|a l IH]; [reflexivity|]. cbn [flat_map filter]. rewrite app_length, IH. destruct a; reflexivity. Qed.
Lemma len_ttail l : length (tgts ttail l) = cnt is_tail l.
Proof. unfold tgts, cnt. induction l as [|a l IH]; [reflexivity|]. cbn [flat_map filter]. rewrite app_length, IH. destruct a; reflexivity. Qed.
Lemma len_tren l : length (tgts tren l) = cnt is_ren l.
Proof. unfold tgts, cnt. induction l as [|a l IH]; [reflexivity|]. cbn [flat_map filter]. rewrite app_length, IH. destruct a; reflexivity. Qed.

(* blocks of at most one target each, aimed at the partners of distinct nodes *)
Lemma blocks_nodup (rf : id -> option id) (T : list iact -> list id) (parts : list (id * list iact)) :
  (forall x x' w, rf x = Some w -> rf x' = Some w -> x = x') ->
  NoDup (map fst parts) ->
  Forall (fun p => length (T (snd p)) <= 1 /\ forall n, In n (T (snd p)) -> rf (fst p) = Some n) parts ->
  NoDup (flat_map (fun p => T (snd p)) parts).
Proof.
  intros Hinj. induction parts as [|p parts IH]; intros ND F; [constructor|].
  cbn [map flat_map] in *. inversion ND as [|? ? Hnin ND']; subst. apply Forall_cons_iff in F as [[Hl Hp] F].
  apply NoDup_app_iff. split; [|split; [apply IH; assumption|]].
  - destruct (T (snd p)) as [|a [|b r]]; [constructor|constructor; [intros []|constructor]|cbn in Hl; lia].
  - intros n H1 H2. apply in_flat_map in H2 as (q & Hq & Hn). rewrite Forall_forall in F. destruct (F q Hq) as [_ Hq'].
    apply Hnin. rewrite (Hinj (fst p) (fst q) n (Hp n H1) (Hq' n Hn)). apply in_map, Hq.
Qed.

Section FromParts.
Variable R : forest.
Variable rf : id -> option id.
Variable parts : list (id * list iact).
Variable dels : list id.
Hypothesis Hinj : forall x x' w, rf x = Some w -> rf x' = Some w -> x = x'.
Hypothesis Hnd : NoDup (map fst parts).
Hypothesis HP : Forall (part_ok R rf) parts.
Let body := flat_map snd parts ++ map IDelete dels.

Lemma vq_ttext y acts n : Forall (vq R y rf rf) acts -> In n (tgts ttext acts) -> rf y = Some n.
Proof.
  unfold tgts. intros F H. apply in_flat_map in H as (a & Ha & Hn). rewrite Forall_forall in F. specialize (F a Ha).
  destruct a; cbn [ttext In] in Hn; try contradiction. destruct Hn as [<-|[]]. apply F.
Qed.
Lemma vq_ttail y acts n : Forall (vq R y rf rf) acts -> In n (tgts ttail acts) -> rf y = Some n.
Proof.
  unfold tgts. intros F H. apply in_flat_map in H as (a & Ha & Hn). rewrite Forall_forall in F. specialize (F a Ha).
  destruct a; cbn [ttail In] in Hn; try contradiction. destruct Hn as [<-|[]]. apply F.
Qed.
Lemma vq_tren y acts n : Forall (vq R y rf rf) acts -> In n (tgts tren acts) -> rf y = Some n.
Proof.
  unfold tgts. intros F H. apply in_flat_map in H as (a & Ha & Hn). rewrite Forall_forall in F. specialize (F a Ha).
  destruct a; cbn [tren In] in Hn; try contradiction. destruct Hn as [<-|[]]. apply F.
Qed.

Lemma body_tgts g : (forall n, g (IDelete n) = []) -> tgts g body = flat_map (fun p => tgts g (snd p)) parts.
Proof.
  intros Hg. unfold body. rewrite tgts_app, (tgts_none g (map IDelete dels)), app_nil_r.
  - unfold tgts. apply flat_map_flat_map.
  - intros a Ha. apply in_map_iff in Ha as (n & <- & _). apply Hg.
Qed.

Theorem parts_nodup :
  NoDup (tgts ttext body) /\ NoDup (tgts ttail body) /\ NoDup (tgts tren body).
Proof.
  rewrite !body_tgts by reflexivity. repeat split; apply (blocks_nodup rf _ parts Hinj Hnd);
    (eapply Forall_impl; [|exact HP]); intros [y acts] (F & C1 & C2 & C3); cbn [fst snd] in *.
  - split; [rewrite len_ttext; exact C2|intros n; apply vq_ttext, F].
  - split; [rewrite len_ttail; exact C3|intros n; apply vq_ttail, F].
  - split; [rewrite len_tren; exact C1|intros n; apply vq_tren, F].
Qed.

(* the characters of the new texts *)
Definition node_text_size (y : id) : N :=
  (N.of_nat (length (otxt (ltext (flab R y)))) + N.of_nat (length (otxt (ltail (flab R y)))))%N.

Lemma budget_app a b : budget (a ++ b) = (budget a + budget b)%N.
Proof. induction a as [|x a IH]; [reflexivity|]. cbn [app]. rewrite !budget_cons, IH. lia. Qed.

Lemma budget_block y acts : Forall (vq R y rf rf) acts ->
  (budget acts <= N.of_nat (cnt is_text acts) * N.of_nat (length (otxt (ltext (flab R y))))
                  + N.of_nat (cnt is_tail acts) * N.of_nat (length (otxt (ltail (flab R y)))))%N.
Proof.
  induction 1 as [|a acts Ha _ IH]; [unfold cnt; cbn [filter length budget fold_right]; lia|]. rewrite budget_cons.
  set (lt := N.of_nat (length (otxt (ltext (flab R y))))) in *. set (ll := N.of_nat (length (otxt (ltail (flab R y))))) in *.
  assert (E1 : cnt is_text (a :: acts) = (if is_text a then 1 else 0) + cnt is_text acts) by (unfold cnt; cbn [filter]; destruct (is_text a); reflexivity).
  assert (E2 : cnt is_tail (a :: acts) = (if is_tail a then 1 else 0) + cnt is_tail acts) by (unfold cnt; cbn [filter]; destruct (is_tail a); reflexivity).
  rewrite E1, E2, !Nat2N.inj_add.
  destruct a; cbn [vq is_text is_tail] in *; try (cbn [N.of_nat]; lia).
  - destruct Ha as [-> _]. fold lt. cbn [N.of_nat]. lia.
  - destruct Ha as [-> _]. fold ll. cbn [N.of_nat]. lia.
Qed.

Theorem parts_budget : (budget body <= fold_right (fun p acc => node_text_size (fst p) + acc) 0 parts)%N.
Proof.
  unfold body. rewrite budget_app.
  assert (Hd : budget (map IDelete dels) = 0%N) by (induction dels as [|n l IH]; [reflexivity|cbn [map]; rewrite budget_cons; exact IH]).
  rewrite Hd, N.add_0_r. clear Hd.
  assert (G : forall ps, Forall (part_ok R rf) ps ->
            (budget (flat_map snd ps) <= fold_right (fun p acc => node_text_size (fst p) + acc) 0 ps)%N).
  { induction 1 as [|[y acts] ps (F & C1 & C2 & C3) _ IH]; [apply N.le_refl|].
    cbn [flat_map fold_right fst snd] in *. rewrite budget_app. pose proof (budget_block y acts F) as Hb. unfold node_text_size at 1.
    set (lt := N.of_nat (length (otxt (ltext (flab R y))))) in *. set (ll := N.of_nat (length (otxt (ltail (flab R y))))) in *.
    assert (Hq1 : (N.of_nat (cnt is_text acts) * lt <= lt)%N).
    { assert (Hc : cnt is_text acts = 0 \/ cnt is_text acts = 1) by lia. destruct Hc as [-> | ->]; cbn [N.of_nat]; lia. }
    assert (Hq2 : (N.of_nat (cnt is_tail acts) * ll <= ll)%N).
    { assert (Hc : cnt is_tail acts = 0 \/ cnt is_tail acts = 1) by lia. destruct Hc as [-> | ->]; cbn [N.of_nat]; lia. }
    lia. }
  apply G, HP.
Qed.
End FromParts.

(* ------------------------------------------------------------------ *)
(** * Attribute names along the documented semantics *)

Section Keys.
Variable P : str -> Prop.
Variable root : id.

(* every attribute name of every node slot *)
Definition keys_ok (f : forest) : Prop := forall n, n < fnext f -> Forall P (map fst (lattrs (flab f n))).

(* the names an action brings / all the names it mentions *)
Definition act_new_keys (a : iact) : Prop :=
  match a with IInsAttr _ k _ => P k | IRenAttr _ _ k' => P k' | _ => True end.
Definition act_all_keys (a : iact) : Prop :=
  match a with
  | IUpdAttr _ k _ | IInsAttr _ k _ | IDelAttr _ k => P k
  | IRenAttr _ k k' => P k /\ P k'
  | _ => True
  end.

Lemma ahas_In_keys l k : ahas l k = true -> In k (map fst l).
Proof.
  unfold ahas. induction l as [|[k0 v0] l IH]; cbn [aget map fst In]; [discriminate|].
  destruct (str_eqb k k0) eqn:E; [intros _; left; symmetry; now apply streqb_true|intros H; right; auto].
Qed.

Lemma keys_aput l k v : Forall P (map fst l) -> P k -> Forall P (map fst (aput l k v)).
Proof.
  intros Hl Hk. destruct (ahas l k) eqn:E; [rewrite (aput_keys_has l k v E); exact Hl|].
  rewrite (aput_keys_new l k v E). apply Forall_app. split; [exact Hl|constructor; [exact Hk|constructor]].
Qed.
Lemma keys_adel l k : Forall P (map fst l) -> Forall P (map fst (adel l k)).
Proof. intros Hl. rewrite adel_keys. rewrite Forall_forall in *. intros x Hx. apply filter_In in Hx as [Hx _]. auto. Qed.

Lemma keys_set_lab f n l : keys_ok f -> Forall P (map fst (lattrs l)) -> keys_ok (set_lab f n l).
Proof.
  intros Hf Hl m Hm. rewrite fnext_set_lab in Hm. rewrite flab_set_lab. destruct (Nat.eqb m n); [exact Hl|apply Hf, Hm].
Qed.

Theorem keys_run script : forall f fT, wf_forest f root -> keys_ok f -> run_spec root f script = Some fT ->
  Forall act_new_keys script -> Forall act_all_keys script.
Proof.
  induction script as [|a r IH]; intros f fT Hwf Hk Hrun Hnew; [constructor|].
  cbn [run_spec] in Hrun. destruct (spec_apply root f a) as [f1|] eqn:Hs; [|discriminate].
  apply Forall_cons_iff in Hnew as [Hn Hnew].
  assert (Hlt : forall n, alive f root n = true -> n < fnext f).
  { intros n Ha. apply (alive_iff f root n Hwf) in Ha. eapply desc_lt; [exact Hwf|apply (wf_root_lt _ _ Hwf)|exact Ha]. }
  assert (Hwf1 : wf_forest f1 root) by (eapply spec_apply_wf; eauto).
  assert (Step : act_all_keys a /\ keys_ok f1).
  { destruct a as [t tag pos n|t pos txt n|n t pos|n|n tag|n t|n t|n k v|n k v|n k|n k k'|p u|p]; cbn [spec_apply act_all_keys act_new_keys] in *.
    - (* Insert *) destruct (alive f root t && is_elem f t && Nat.leb pos (length (kidsof f t)) && Nat.eqb n (fnext f)); [|discriminate].
      inversion Hs; subst f1. split; [exact I|]. intros m Hm. cbn [fnext fst alloc insert_at set_kids flab] in Hm |- *. unfold upd.
      destruct (Nat.eqb m (fnext f)) eqn:E; [constructor|]. apply Nat.eqb_neq in E. apply Hk. lia.
    - destruct (alive f root t && is_elem f t && Nat.leb pos (length (kidsof f t)) && Nat.eqb n (fnext f)); [|discriminate].
      inversion Hs; subst f1. split; [exact I|]. intros m Hm. cbn [fnext fst alloc insert_at set_kids flab] in Hm |- *. unfold upd.
      destruct (Nat.eqb m (fnext f)) eqn:E; [constructor|]. apply Nat.eqb_neq in E. apply Hk. lia.
    - destruct (_ && _); [|discriminate]. inversion Hs; subst f1. split; [exact I|]. intros m Hm.
      change (fnext (insert_at (detach f n) t pos n)) with (fnext (detach f n)) in Hm. rewrite fnext_detach in Hm.
      change (flab (insert_at (detach f n) t pos n) m) with (flab (detach f n) m). rewrite flab_detach. apply Hk, Hm.
    - destruct (_ && _); [|discriminate]. inversion Hs; subst f1. split; [exact I|]. intros m Hm.
      rewrite fnext_detach in Hm. rewrite flab_detach. apply Hk, Hm.
    - destruct (alive f root n && is_elem f n) eqn:C; [|discriminate]. apply andb_true_iff in C as [C1 _]. inversion Hs; subst f1.
      split; [exact I|]. apply keys_set_lab; [exact Hk|]. cbn [lattrs]. apply Hk, Hlt, C1.
    - destruct (alive f root n) eqn:C1; [|discriminate]. inversion Hs; subst f1.
      split; [exact I|]. apply keys_set_lab; [exact Hk|]. cbn [lattrs]. apply Hk, Hlt, C1.
    - destruct (alive f root n && negb (Nat.eqb n root)) eqn:C; [|discriminate]. apply andb_true_iff in C as [C1 _]. inversion Hs; subst f1.
      split; [exact I|]. apply keys_set_lab; [exact Hk|]. cbn [lattrs]. apply Hk, Hlt, C1.
    - destruct (alive f root n && is_elem f n && ahas (lattrs (labof f n)) k) eqn:C; [|discriminate]. apply and3 in C as (C1 & _ & C3).
      inversion Hs; subst f1. pose proof (Hk n (Hlt n C1)) as Hkn. rewrite Forall_forall in Hkn.
      assert (Pk : P k) by (apply Hkn, ahas_In_keys, C3). split; [exact Pk|].
      unfold set_attrs_f. apply keys_set_lab; [exact Hk|]. cbn [lattrs]. apply keys_aput; [apply Hk, Hlt, C1|exact Pk].
    - destruct (alive f root n && is_elem f n && negb (ahas (lattrs (labof f n)) k)) eqn:C; [|discriminate]. apply and3 in C as (C1 & _ & C3).
      inversion Hs; subst f1. split; [exact Hn|].
      unfold set_attrs_f. apply keys_set_lab; [exact Hk|]. cbn [lattrs]. apply keys_aput; [apply Hk, Hlt, C1|exact Hn].
    - destruct (alive f root n && is_elem f n && ahas (lattrs (labof f n)) k) eqn:C; [|discriminate]. apply and3 in C as (C1 & _ & C3).
      inversion Hs; subst f1. pose proof (Hk n (Hlt n C1)) as Hkn. rewrite Forall_forall in Hkn.
      split; [apply Hkn, ahas_In_keys, C3|].
      unfold set_attrs_f. apply keys_set_lab; [exact Hk|]. cbn [lattrs]. apply keys_adel, Hk, Hlt, C1.
    - destruct (aget (lattrs (labof f n)) k) as [v|] eqn:Ev; [|discriminate].
      destruct (alive f root n && is_elem f n && negb (ahas (lattrs (labof f n)) k')) eqn:C; [|discriminate]. apply and3 in C as (C1 & _ & C3).
      inversion Hs; subst f1. pose proof (Hk n (Hlt n C1)) as Hkn. rewrite Forall_forall in Hkn.
      assert (Pk : P k) by (apply Hkn, ahas_In_keys; unfold ahas; unfold labof in Ev; now rewrite Ev).
      split; [split; [exact Pk|exact Hn]|].
      unfold set_attrs_f. apply keys_set_lab; [exact Hk|]. cbn [lattrs]. apply keys_adel, keys_aput; [apply Hk, Hlt, C1|exact Hn].
    - inversion Hs; subst f1. auto.
    - inversion Hs; subst f1. auto. }
  destruct Step as [S1 S2]. constructor; [exact S1|]. apply (IH f1 fT Hwf1 S2 Hrun Hnew).
Qed.
End Keys.

(* ------------------------------------------------------------------ *)
(** * Conditions on the documents *)

(* a label of a (prepared, comment-free) document: an element; tag, attribute names and values, text and tail without
   private-use characters; tag and attribute names outside the diff namespace *)
Definition kv_okb (kv : str * str) : bool :=
  PlaceholderUndo.plainb (fst kv) && negb (is_diff_name (fst kv)) && PlaceholderUndo.plainb (snd kv).
Definition lab_okb (l : label) : bool :=
  match ltag l with TElem t => PlaceholderUndo.plainb t && negb (is_diff_name t) | TComment => false end
  && forallb kv_okb (lattrs l) && PlaceholderUndo.plainb (otxt (ltext l)) && PlaceholderUndo.plainb (otxt (ltail l)).
(* every node slot of the forest *)
Definition doc_okb (f : forest) : bool := forallb (fun n => lab_okb (flab f n)) (seq 0 (fnext f)).

Definition Pk (k : str) : Prop := plain k /\ is_diff_name k = false.

Lemma lab_ok_inv l : lab_okb l = true ->
  (exists t, ltag l = TElem t /\ plain t /\ is_diff_name t = false) /\
  (forall k v, In (k, v) (lattrs l) -> Pk k /\ plain v) /\
  plain (otxt (ltext l)) /\ plain (otxt (ltail l)).
Proof.
  unfold lab_okb. intros H. apply andb_true_iff in H as [H H4]. apply andb_true_iff in H as [H H3]. apply andb_true_iff in H as [H1 H2].
  split; [|split; [|split; assumption]].
  - destruct (ltag l) as [t|]; [|discriminate]. apply andb_true_iff in H1 as [A B]. apply negb_true_iff in B. eauto.
  - intros k v Hin. rewrite forallb_forall in H2. specialize (H2 _ Hin). unfold kv_okb in H2. cbn [fst snd] in H2.
    apply andb_true_iff in H2 as [H2 C]. apply andb_true_iff in H2 as [A B]. apply negb_true_iff in B. unfold Pk. auto.
Qed.

Lemma doc_ok_lab f n : doc_okb f = true -> n < fnext f -> lab_okb (flab f n) = true.
Proof. unfold doc_okb. rewrite forallb_forall. intros H Hn. apply H, in_seq. lia. Qed.

Lemma doc_keys_ok f : doc_okb f = true -> keys_ok Pk f.
Proof.
  intros H n Hn. destruct (lab_ok_inv _ (doc_ok_lab f n H Hn)) as (_ & H2 & _).
  apply Forall_forall. intros k Hk. apply in_map_iff in Hk as ([k0 v0] & <- & Hin). apply (H2 k0 v0 Hin).
Qed.

Lemma not_diff_tag_ok tag : is_diff_name tag = false -> tag_ok tag.
Proof.
  intros H. unfold tag_ok, wrapper_kind. cbn [xtag].
  destruct (str_eqb tag (dn l_insert)) eqn:E1; [apply streqb_true in E1; subst; unfold dn, is_diff_name in H; rewrite prefixb_app in H; discriminate|].
  destruct (str_eqb tag (dn l_delete)) eqn:E2; [apply streqb_true in E2; subst; unfold dn, is_diff_name in H; rewrite prefixb_app in H; discriminate|].
  destruct (str_eqb tag (dn l_replace)) eqn:E3; [apply streqb_true in E3; subst; unfold dn, is_diff_name in H; rewrite prefixb_app in H; discriminate|].
  reflexivity.
Qed.

(* the literals an action takes from the right document *)
Definition lit_ok (a : iact) : Prop :=
  match a with
  | IInsert _ tag _ _ | IRename _ tag => plain tag /\ is_diff_name tag = false
  | IInsertComment _ _ _ _ => False
  | IText _ t | ITail _ t => plain (otxt t)
  | IUpdAttr _ k v | IInsAttr _ k v => Pk k /\ plain v
  | IRenAttr _ _ k' => Pk k'
  | _ => True
  end.

Lemma vq_lit R y rf a : lab_okb (flab R y) = true -> vq R y rf rf a -> lit_ok a.
Proof.
  intros Hl H. destruct (lab_ok_inv _ Hl) as ((t & Et & Pt & Dt) & HA & Htx & Htl).
  destruct a; cbn [vq lit_ok] in *; try exact I; try contradiction.
  - rewrite Et in H. inversion H; subst. auto.
  - rewrite Et in H. discriminate.
  - destruct H as [H _]. rewrite Et in H. inversion H; subst. auto.
  - destruct H as [-> _]. exact Htx.
  - destruct H as [-> _]. exact Htl.
  - apply (HA _ _ H).
  - apply (HA _ _ H).
  - apply in_map_iff in H as ([k0 v0] & <- & Hin). apply (proj1 (HA k0 v0 Hin)).
Qed.

Lemma lit_new a : lit_ok a -> act_new_keys Pk a.
Proof. destruct a; cbn; tauto. Qed.

(* literals + names: everything the formatter theorems ask of one action *)
Lemma lit_all a : lit_ok a -> act_all_keys Pk a -> act_ok a /\ iact_plain a /\ names_plain a.
Proof.
  unfold Pk. destruct a; cbn [lit_ok act_all_keys act_ok iact_plain names_plain plain_name]; intros H1 H2;
    try (repeat split; try tauto; try exact I); try (apply not_diff_tag_ok; tauto).
Qed.

(* ------------------------------------------------------------------ *)
(** * The working tree of a document that satisfies the conditions *)

Section DocTree.
Variable f : forest.
Variable root : id.
Hypothesis Hwf : wf_forest f root.
Hypothesis Hdoc : doc_okb f = true.

Lemma desc_lab n : desc f root n -> lab_okb (flab f n) = true.
Proof. intros D. apply (doc_ok_lab f n Hdoc). eapply desc_lt; [exact Hwf|apply (wf_root_lt _ _ Hwf)|exact D]. Qed.

Lemma doc_no_comments n : desc f root n -> is_comment (ltag (flab f n)) = false.
Proof. intros D. destruct (lab_ok_inv _ (desc_lab n D)) as ((t & -> & _) & _). reflexivity. Qed.

Lemma erase_dt_S k n :
  erase (dt_of (S k) f n) = XNode (lab_tag (flab f n)) (lattrs (flab f n)) (ltext (flab f n)) (otxt (ltail (flab f n)))
                                  (map (fun c => erase (dt_of k f c)) (fkids f n)).
Proof. cbn [dt_of]. rewrite erase_node. unfold node_of, with_kids. cbn [xtag xattrs xtext xtail]. now rewrite map_map. Qed.

Lemma attrs_clean_of l : lab_okb l = true -> forallb attr_clean (lattrs l) = true /\
  Forall (fun kv : str * str => is_diff_name (fst kv) = false) (lattrs l).
Proof.
  intros H. destruct (lab_ok_inv l H) as (_ & HA & _). split.
  - apply forallb_forall. intros [k v] Hin. destruct (HA k v Hin) as [[P1 P2] P3]. unfold attr_clean, name_ok. cbn [fst snd].
    unfold plain in P1, P3. rewrite P1, P3, P2. reflexivity.
  - apply Forall_forall. intros [k v] Hin. apply (HA k v Hin).
Qed.

Theorem doc_tree_ok : forall k n, fin f n k -> desc f root n ->
  let t := erase (dt_of k f n) in
  PlaceholderUndo.npua t = true /\ clean_tags t /\ nodiff t /\ wclean t.
Proof.
  induction k as [|k IH]; intros n HF D; [inversion HF|]. cbv zeta. rewrite erase_dt_S.
  destruct (lab_ok_inv _ (desc_lab n D)) as ((t & Et & Pt & Dt) & HA & Htx & Htl).
  destruct (attrs_clean_of _ (desc_lab n D)) as [AC ND].
  assert (Hk : forall c, In c (fkids f n) -> let tc := erase (dt_of k f c) in
             PlaceholderUndo.npua tc = true /\ clean_tags tc /\ nodiff tc /\ wclean tc).
  { intros c Hc. apply IH; [eapply fin_kid; eauto|eapply desc_step; eauto]. }
  unfold lab_tag. rewrite Et. split; [|split; [|split]].
  - cbn [PlaceholderUndo.npua]. unfold plain in Htx, Htl. rewrite Htx, Htl. cbn [andb]. apply forallb_forall.
    intros x Hx. apply in_map_iff in Hx as (c & <- & Hc). apply (Hk c Hc).
  - constructor; [apply (not_diff_tag_ok t Dt)|]. apply Forall_forall. intros x Hx. apply in_map_iff in Hx as (c & <- & Hc). apply (Hk c Hc).
  - constructor; [exact ND|]. apply Forall_forall. intros x Hx. apply in_map_iff in Hx as (c & <- & Hc). apply (Hk c Hc).
  - constructor; [unfold own_wclean; cbn [xtag xattrs]; auto|]. cbn [xkids]. apply Forall_forall. intros x Hx.
    apply in_map_iff in Hx as (c & <- & Hc). apply (Hk c Hc).
Qed.

(* the live nodes of the initial decorated tree are nodes of the document, with their labels *)
Lemma lnodes_dt_of : forall k n e, desc f root n -> In e (lnodes (dt_of k f n)) ->
  exists m, desc f root m /\ e = (m, node_of (flab f m)).
Proof.
  induction k as [|k IH]; intros n e D H; cbn [dt_of] in H; rewrite lnodes_unfold in H.
  - destruct H as [<-|[]]. eauto.
  - destruct H as [<-|H]; [eauto|]. apply klnodes_inv in H as (kd & Hin & _ & He).
    apply in_map_iff in Hin as (c & <- & Hc). apply (IH c e); [eapply desc_step; eauto|exact He].
Qed.

Theorem J_init script k : J script (dt_of k f root).
Proof.
  intros e He. destruct (lnodes_dt_of k root e ltac:(constructor) He) as (m & D & ->).
  destruct (lab_ok_inv _ (desc_lab m D)) as (_ & HA & Htx & Htl). unfold Jn, node_of. cbn [xtext xtail xattrs].
  split; [intros _ _; exact Htx|]. split; [intros _; exact Htl|]. intros _.
  apply aget_None. intros Hin. apply in_map_iff in Hin as ([k0 v0] & E & Hin). cbn [fst] in E. subst k0.
  destruct (HA _ _ Hin) as [[_ Hd] _]. unfold RENAME_NAME in Hd. rewrite is_diff_dname in Hd. discriminate.
Qed.
End DocTree.
