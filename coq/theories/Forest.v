(* Mutable lxml trees with node identity: an id-indexed forest.
   Model only -- no proofs in this file.

   lxml semantics written into the primitives:
   - parent.remove(node) detaches the node TOGETHER WITH its tail (the tail is a
     field of the node and travels with it);
   - parent.insert(pos, node) has list.insert semantics (clamped position;
     negative positions do not occur);
   - a new element has no text, no tail, no attributes, no children. *)
From Coq Require Import List NArith ZArith Bool Arith.
Import ListNotations.
Require Export XV.Str.

Definition id := nat.

(* node.tag: a Clark-notation string, or the Comment factory function *)
Inductive tagt := TElem (name : str) | TComment.
Definition tag_eqb (a b : tagt) : bool :=
  match a, b with
  | TElem x, TElem y => str_eqb x y
  | TComment, TComment => true
  | _, _ => false
  end.
Definition is_comment (t : tagt) : bool := match t with TComment => true | _ => false end.

Record label := Lab { ltag : tagt; lattrs : list (str * str);      (* document order *)
                      ltext : option str; ltail : option str }.

Definition empty_label : label := Lab TComment [] None None.

(* total maps as functions; `fnext` bounds the ids in use (all ids < fnext) *)
Record forest := Forest { fkids : id -> list id; flab : id -> label; fnext : id }.

Definition upd {A} (f : id -> A) (k : id) (v : A) : id -> A :=
  fun x => if Nat.eqb x k then v else f x.

Definition mem (x : id) (l : list id) : bool := existsb (Nat.eqb x) l.
Definition remove_id (x : id) (l : list id) : list id := filter (fun c => negb (Nat.eqb c x)) l.

Definition kidsof (f : forest) (n : id) : list id := fkids f n.
Definition labof (f : forest) (n : id) : label := flab f n.

(* node.getparent() *)
Definition parentof (f : forest) (n : id) : option id :=
  find (fun p => mem n (fkids f p)) (seq 0 (fnext f)).

Definition set_kids (f : forest) (n : id) (l : list id) : forest :=
  Forest (upd (fkids f) n l) (flab f) (fnext f).
Definition set_lab (f : forest) (n : id) (l : label) : forest :=
  Forest (fkids f) (upd (flab f) n l) (fnext f).

(* node.getparent().remove(node) *)
Definition detach (f : forest) (n : id) : forest :=
  match parentof f n with
  | Some p => set_kids f p (remove_id n (fkids f p))
  | None => f
  end.

(* target.insert(pos, node) for a detached node *)
Definition insert_at (f : forest) (p : id) (pos : nat) (n : id) : forest :=
  let ks := fkids f p in set_kids f p (firstn pos ks ++ n :: skipn pos ks).

(* allocate a fresh childless node with the given label *)
Definition alloc (f : forest) (l : label) : forest * id :=
  let n := fnext f in
  (Forest (upd (fkids f) n []) (upd (flab f) n l) (S n), n).

(* building a forest from association lists (what the harness writes) *)
Fixpoint alook {A} (l : list (id * A)) (k : id) : option A :=
  match l with
  | [] => None
  | (k', v) :: r => if Nat.eqb k k' then Some v else alook r k
  end.
Definition mk_forest (kids : list (id * list id)) (labs : list (id * label)) (n : nat) : forest :=
  Forest (fun x => match alook kids x with Some l => l | None => [] end)
         (fun x => match alook labs x with Some l => l | None => empty_label end) n.

(* ---- immutable trees and the conversions (pre-order ids) ---- *)
Inductive tree := Node (l : label) (kids : list tree).

Fixpoint to_tree (fuel : nat) (f : forest) (n : id) : tree :=
  match fuel with
  | O => Node (flab f n) []
  | S fu => Node (flab f n) (map (to_tree fu f) (fkids f n))
  end.

(* equality used by C01: absent and empty text identified; the tail of the root
   is outside the document *)
Definition otext_eqb (a b : option str) : bool :=
  str_eqb (match a with Some s => s | None => [] end) (match b with Some s => s | None => [] end).

Fixpoint insert_attr (x : str * str) (l : list (str * str)) : list (str * str) :=
  match l with
  | [] => [x]
  | y :: r => if str_leb (fst x) (fst y) then x :: l else y :: insert_attr x r
  end.
Definition sort_attrs (l : list (str * str)) : list (str * str) := fold_right insert_attr [] l.
Definition attr_eqb (a b : str * str) : bool := str_eqb (fst a) (fst b) && str_eqb (snd a) (snd b).

Fixpoint lst_eqb {A} (f : A -> A -> bool) (a b : list A) : bool :=
  match a, b with
  | [], [] => true
  | x :: a', y :: b' => f x y && lst_eqb f a' b'
  | _, _ => false
  end.

(* label equality up to attribute order and None/"" ; with_tail = false for the root *)
Definition label_equivb (with_tail : bool) (a b : label) : bool :=
  tag_eqb (ltag a) (ltag b)
  && lst_eqb attr_eqb (sort_attrs (lattrs a)) (sort_attrs (lattrs b))
  && otext_eqb (ltext a) (ltext b)
  && (negb with_tail || otext_eqb (ltail a) (ltail b)).

Fixpoint tree_equivb_aux (with_tail : bool) (a b : tree) : bool :=
  match a, b with
  | Node la ka, Node lb kb =>
      label_equivb with_tail la lb &&
      (fix go (x y : list tree) : bool :=
         match x, y with
         | [], [] => true
         | t :: x', u :: y' => tree_equivb_aux true t u && go x' y'
         | _, _ => false
         end) ka kb
  end.
Definition tree_equivb (a b : tree) : bool := tree_equivb_aux false a b.

(* apply g to the attribute list of every node *)
Fixpoint tree_map_attrs (g : list (str * str) -> list (str * str)) (t : tree) : tree :=
  match t with
  | Node l ks => Node (Lab (ltag l) (g (lattrs l)) (ltext l) (ltail l)) (map (tree_map_attrs g) ks)
  end.
