(* EqualDocsBase.v -- common ground for property C03 (forward direction):
   "diffing a document against an equal document gives an empty edit script".

   Contents:
   - [same_doc L R]: R is the same document as L.  Both documents are numbered
     in pre-order by the front end, so two equal documents carry the SAME ids;
     [same_doc] therefore compares the two forests pointwise (same fnext, same
     child lists, same tags / texts / tails, attribute lists equal up to a
     permutation).  This is without loss of generality.
   - [identity_matching]: what the matcher returns on such a pair.
   - the LCS helper on a relation that is "diagonal-closed" returns exactly the
     diagonal over the self-related positions ([lcs_diag], [lcs_seq_refl]);
   - post_order of a well-formed forest: no duplicates, exactly the descendants,
     children strictly before their parent (via the mirrored forest and the
     rpost lemmas of TreeProofs). *)
From Coq Require Import List NArith ZArith Bool Arith Lia Sorting.Sorted Sorting.Permutation.
Import ListNotations.
Require Import XV.Str XV.Forest XV.LCS XV.LCSProofs XV.Matcher XV.Differ XV.WF
               XV.ForestProofs XV.TreeProofs.

(* ------------------------------------------------------------------ *)
(** * Equal documents                                                   *)
(* ------------------------------------------------------------------ *)
Definition same_label (a b : label) : Prop :=
  ltag a = ltag b /\ ltext a = ltext b /\ ltail a = ltail b /\
  Permutation (lattrs a) (lattrs b).

Definition same_doc (L R : forest) : Prop :=
  fnext L = fnext R /\
  (forall n, n < fnext L -> fkids L n = fkids R n) /\
  (forall n, n < fnext L -> same_label (flab L n) (flab R n)).

Lemma same_doc_refl L : same_doc L L.
Proof.
  split; [reflexivity|]. split; [reflexivity|].
  intros n _. repeat split; apply Permutation_refl.
Qed.

(* the matching returned on equal documents: the identity on the document *)
Definition identity_matching (L : forest) (root : id) (m : list (id * id)) : Prop :=
  (forall l r, In (l, r) m -> l = r) /\
  (forall n, desc L root n -> In (n, n) m).

(* ------------------------------------------------------------------ *)
(** * Lists                                                             *)
(* ------------------------------------------------------------------ *)
Lemma SS_filter {A} (Rel : A -> A -> Prop) (p : A -> bool) (l : list A) :
  StronglySorted Rel l -> StronglySorted Rel (filter p l).
Proof.
  induction 1 as [|a l Hs IH Hall]; cbn [filter]; [constructor|].
  destruct (p a); [|exact IH]. constructor; [exact IH|].
  rewrite Forall_forall in *. intros x Hx. apply filter_In in Hx as [Hx _]. auto.
Qed.

Lemma SS_map {A B} (R1 : A -> A -> Prop) (R2 : B -> B -> Prop) (f : A -> B) (l : list A) :
  (forall a b, R1 a b -> R2 (f a) (f b)) -> StronglySorted R1 l -> StronglySorted R2 (map f l).
Proof.
  intros Himp. induction 1 as [|a l Hs IH Hall]; cbn [map]; [constructor|].
  constructor; [exact IH|]. rewrite Forall_forall in *. intros y Hy.
  apply in_map_iff in Hy as (x & <- & Hx). auto.
Qed.

Lemma SS_lt_NoDup (l : list Z) : StronglySorted Z.lt l -> NoDup l.
Proof.
  induction 1 as [|a l Hs IH Hall]; constructor; [|exact IH].
  intros Hin. rewrite Forall_forall in Hall. specialize (Hall a Hin). lia.
Qed.

(* a strictly increasing list drawn from a strictly increasing list of no
   greater length is that list *)
Lemma sorted_incl_eq : forall (e l : list Z),
  StronglySorted Z.lt l -> StronglySorted Z.lt e -> incl l e ->
  (length e <= length l)%nat -> l = e.
Proof.
  induction e as [|a e IH]; intros l Hl He Hincl Hlen.
  - destruct l as [|x l]; [reflexivity|]. exfalso. apply (Hincl x). left; reflexivity.
  - destruct l as [|x l]; [cbn in Hlen; lia|].
    inversion Hl as [|? ? Hl' Hxl]; subst. inversion He as [|? ? He' Hae]; subst.
    rewrite Forall_forall in Hxl, Hae.
    destruct (Hincl x (or_introl eq_refl)) as [Hx|Hx].
    + subst x. f_equal. apply IH; [exact Hl'|exact He'| |cbn in Hlen; lia].
      intros y Hy. destruct (Hincl y (or_intror Hy)) as [E|Hin]; [|exact Hin].
      subst y. specialize (Hxl a Hy). lia.
    + exfalso.
      assert (Hsub : incl (x :: l) e).
      { intros y Hy. destruct (Hincl y Hy) as [E|Hin]; [|exact Hin]. subst y.
        destruct Hy as [E|Hy]; [subst x; specialize (Hae a Hx); lia|].
        specialize (Hxl a Hy). specialize (Hae x Hx). lia. }
      pose proof (NoDup_incl_length (SS_lt_NoDup _ Hl) Hsub) as Hle.
      cbn [length] in Hle, Hlen. lia.
Qed.

Lemma zrange_sorted k : forall a, StronglySorted Z.lt (zrange k a).
Proof.
  induction k as [|k IH]; intros a; cbn [zrange]; constructor; [apply IH|].
  apply Forall_forall. intros x Hx. apply zrange_In in Hx. lia.
Qed.

Lemma pairs_of_projections (e : list Z) : forall ps : list (Z * Z),
  map fst ps = e -> map snd ps = e -> ps = map (fun i => (i, i)) e.
Proof.
  induction e as [|a e IH]; intros [|[x y] ps] H1 H2; cbn [map fst snd] in *;
    try reflexivity; try discriminate.
  injection H1 as -> H1. injection H2 as -> H2. f_equal. apply IH; assumption.
Qed.

Lemma fold_left_id {A B} (f : A -> B -> A) (l : list B) (s : A) :
  (forall k, In k l -> f s k = s) -> fold_left f l s = s.
Proof.
  induction l as [|k l IH]; intros H; cbn [fold_left]; [reflexivity|].
  rewrite (H k (or_introl eq_refl)). apply IH. intros k' Hk'. apply H. right; exact Hk'.
Qed.

Lemma filter_nil {A} (p : A -> bool) (l : list A) :
  (forall x, In x l -> p x = false) -> filter p l = [].
Proof.
  induction l as [|x l IH]; intros H; cbn [filter]; [reflexivity|].
  rewrite (H x (or_introl eq_refl)). apply IH. intros y Hy. apply H. right; exact Hy.
Qed.

Lemma filter_all {A} (p : A -> bool) (l : list A) :
  (forall x, In x l -> p x = true) -> filter p l = l.
Proof.
  induction l as [|x l IH]; intros H; cbn [filter]; [reflexivity|].
  rewrite (H x (or_introl eq_refl)). f_equal. apply IH. intros y Hy. apply H. right; exact Hy.
Qed.

(* ------------------------------------------------------------------ *)
(** * The LCS helper on a diagonal-closed relation                      *)
(* ------------------------------------------------------------------ *)
Section Diag.
Local Open Scope Z_scope.
Variable eqf : Z -> Z -> bool.
Variable n : Z.
Hypothesis Hn : 0 <= n.
(* whenever two positions are related, each of them is related to itself *)
Hypothesis Hclosed : forall i j, 0 <= i < n -> 0 <= j < n -> eqf i j = true ->
                                 eqf i i = true /\ eqf j j = true.

Definition diag_list : list Z := filter (fun i => eqf i i) (zrange (Z.to_nat n) 0).

Lemma diag_list_In i : In i diag_list <-> 0 <= i < n /\ eqf i i = true.
Proof.
  unfold diag_list. rewrite filter_In, zrange_In.
  split; intros [H1 H2]; (split; [lia|exact H2]).
Qed.

Lemma diag_list_sorted : StronglySorted Z.lt diag_list.
Proof. apply SS_filter, zrange_sorted. Qed.

Lemma diag_common : common_subseq eqf n n (map (fun i => (i, i)) diag_list).
Proof.
  split.
  - eapply SS_map; [|apply diag_list_sorted]. intros a b Hab. split; exact Hab.
  - apply Forall_forall. intros p Hp. apply in_map_iff in Hp as (i & <- & Hi).
    apply diag_list_In in Hi. cbn [fst snd]. tauto.
Qed.

Theorem lcs_diag ps : lcs eqf n n = Some ps -> ps = map (fun i => (i, i)) diag_list.
Proof.
  intros H.
  pose proof (lcs_valid eqf n n ps Hn Hn H) as [Hch Hall].
  pose proof (lcs_maximal eqf n n ps _ Hn Hn H diag_common) as Hmax.
  rewrite map_length in Hmax. rewrite Forall_forall in Hall.
  apply pairs_of_projections.
  - apply sorted_incl_eq.
    + eapply SS_map; [|exact Hch]. intros a b [Hab _]. exact Hab.
    + apply diag_list_sorted.
    + intros x Hx. apply in_map_iff in Hx as (p & <- & Hp).
      destruct (Hall p Hp) as (H1 & H2 & H3). apply diag_list_In.
      split; [exact H1|]. apply (Hclosed _ _ H1 H2 H3).
    + rewrite map_length. exact Hmax.
  - apply sorted_incl_eq.
    + eapply SS_map; [|exact Hch]. intros a b [_ Hab]. exact Hab.
    + apply diag_list_sorted.
    + intros x Hx. apply in_map_iff in Hx as (p & <- & Hp).
      destruct (Hall p Hp) as (H1 & H2 & H3). apply diag_list_In.
      split; [exact H2|]. apply (Hclosed _ _ H1 H2 H3).
    + rewrite map_length. exact Hmax.
Qed.
End Diag.

(* on sequences *)
Section DiagSeq.
Context {A : Type}.
Variable eqfn : A -> A -> bool.
Variable xs : list A.
Hypothesis Hclosed : forall a b, In a xs -> In b xs -> eqfn a b = true ->
                                 eqfn a a = true /\ eqfn b b = true.

Definition self_positions : list Z :=
  diag_list (seq_eqf eqfn xs xs) (Z.of_nat (length xs)).

Lemma seq_eqf_closed i j :
  (0 <= i < Z.of_nat (length xs))%Z -> (0 <= j < Z.of_nat (length xs))%Z ->
  seq_eqf eqfn xs xs i j = true ->
  seq_eqf eqfn xs xs i i = true /\ seq_eqf eqfn xs xs j j = true.
Proof.
  unfold seq_eqf. intros Hi Hj H.
  destruct (nth_error xs (Z.to_nat i)) as [a|] eqn:Ea; [|discriminate].
  destruct (nth_error xs (Z.to_nat j)) as [b|] eqn:Eb; [|discriminate].
  apply Hclosed; [eapply nth_error_In; eauto|eapply nth_error_In; eauto|exact H].
Qed.

Theorem lcs_seq_diag ps :
  lcs_seq eqfn xs xs = Some ps -> ps = map (fun i => (i, i)) self_positions.
Proof.
  intros H. apply (lcs_diag (seq_eqf eqfn xs xs) (Z.of_nat (length xs))); [lia| |exact H].
  apply seq_eqf_closed.
Qed.

Lemma self_positions_In i :
  In i self_positions <->
  (0 <= i)%Z /\ exists a, nth_error xs (Z.to_nat i) = Some a /\ eqfn a a = true.
Proof.
  unfold self_positions. rewrite diag_list_In. unfold seq_eqf. split.
  - intros [Hi H]. split; [lia|].
    destruct (nth_error xs (Z.to_nat i)) as [a|] eqn:Ea; [|discriminate]. eauto.
  - intros [Hi (a & Ea & H)]. split.
    + assert (Z.to_nat i < length xs) by (apply nth_error_Some; rewrite Ea; discriminate). lia.
    + rewrite Ea. exact H.
Qed.
End DiagSeq.

(* every element related to itself: the full diagonal, in order *)
Lemma lcs_seq_refl {A} (eqfn : A -> A -> bool) (xs : list A) ps :
  (forall a b, In a xs -> In b xs -> eqfn a b = true -> eqfn a a = true /\ eqfn b b = true) ->
  (forall a, In a xs -> eqfn a a = true) ->
  lcs_seq eqfn xs xs = Some ps ->
  ps = map (fun i => (i, i)) (zrange (length xs) 0).
Proof.
  intros Hc Hr H. rewrite (lcs_seq_diag eqfn xs Hc ps H). f_equal.
  unfold self_positions, diag_list. rewrite Nat2Z.id. apply filter_all.
  intros i Hi. apply zrange_In in Hi. unfold seq_eqf.
  destruct (nth_error xs (Z.to_nat i)) as [a|] eqn:Ea.
  - apply Hr. eapply nth_error_In; eauto.
  - apply nth_error_None in Ea. lia.
Qed.

(* ------------------------------------------------------------------ *)
(** * post_order through the mirrored forest                            *)
(* ------------------------------------------------------------------ *)
Definition mirror (f : forest) : forest :=
  Forest (fun n => rev (fkids f n)) (flab f) (fnext f).

Lemma post_order_mirror k : forall f a, post_order k f a = rpost k (mirror f) a.
Proof.
  induction k as [|k IH]; intros f a; cbn [post_order rpost]; [reflexivity|].
  unfold kidsof. cbn [mirror fkids]. rewrite rev_involutive. f_equal.
  apply flat_map_ext. intros c. apply IH.
Qed.

Lemma wf_mirror f root : wf_forest f root -> wf_forest (mirror f) root.
Proof.
  intros Hwf.
  pose proof (wf_kids_lt f root Hwf) as H2. pose proof (wf_kids_nodup f root Hwf) as H3.
  pose proof (wf_uparent f root Hwf) as H4. pose proof (wf_root_top f root Hwf) as H5.
  pose proof (wf_comment f root Hwf) as H7.
  destruct Hwf. constructor; cbn [mirror fkids flab fnext]; try assumption.
  - intros p c Hp Hc. apply in_rev in Hc. eapply H2; eauto.
  - intros p Hp. apply NoDup_rev, H3, Hp.
  - intros p q c Hp Hq Hc1 Hc2. apply in_rev in Hc1, Hc2. eapply H4; eauto.
  - intros p Hp Hin. apply in_rev in Hin. eapply H5; eauto.
  - intros n Hn Hc. destruct (H7 n Hn Hc) as [E1 E2]. rewrite E1. split; [reflexivity|exact E2].
Qed.

Lemma desc_mirror f a n : desc (mirror f) a n <-> desc f a n.
Proof.
  split; induction 1 as [|b c Hd IH Hin]; try constructor.
  - eapply desc_step; [exact IH|]. cbn [mirror fkids] in Hin. apply in_rev in Hin. exact Hin.
  - eapply desc_step; [exact IH|]. cbn [mirror fkids]. apply -> in_rev. exact Hin.
Qed.

Section PostOrder.
Variables (f : forest) (root : id).
Hypothesis Hwf : wf_forest f root.

Definition po : list id := post_order (S (fnext f)) f root.

Lemma fin_mirror_root : fin (mirror f) root (S (fnext f)).
Proof.
  eapply fin_mono; [apply (fin_root (mirror f) root), wf_mirror, Hwf|]. cbn [mirror fnext]. lia.
Qed.

Lemma po_In n : In n po <-> desc f root n.
Proof.
  unfold po. rewrite post_order_mirror. rewrite <- desc_mirror. split.
  - apply rpost_desc.
  - apply rpost_complete. apply fin_mirror_root.
Qed.

Lemma po_NoDup : NoDup po.
Proof.
  unfold po. rewrite post_order_mirror.
  apply (rpost_NoDup (mirror f) root); [apply wf_mirror, Hwf|apply (wf_root_lt f root Hwf)|].
  apply fin_mirror_root.
Qed.

(* a child never comes after its parent *)
Lemma po_kids_first p1 x p2 c :
  po = p1 ++ x :: p2 -> In c (fkids f x) -> In c p1.
Proof.
  intros E Hc. eapply before_split; [apply po_NoDup| |exact E].
  unfold po. rewrite post_order_mirror. apply rpost_before.
  - apply fin_mirror_root.
  - rewrite <- post_order_mirror. fold po. rewrite E. apply in_or_app. right; left; reflexivity.
  - cbn [mirror fkids]. apply -> in_rev. exact Hc.
Qed.

Lemma desc_lt_root n : desc f root n -> n < fnext f.
Proof. apply (desc_lt f root root n Hwf), (wf_root_lt f root Hwf). Qed.

Lemma kid_not_self x : desc f root x -> ~ In x (fkids f x).
Proof. intros Hd Hin. eapply (no_cycle f root x x Hwf Hd Hin). constructor. Qed.

(* the order "no later element is a child of an earlier one" *)
Definition nokid (a b : id) : Prop := ~ In b (fkids f a).

Lemma po_sorted : StronglySorted nokid po.
Proof.
  assert (G : forall l p1, po = p1 ++ l -> StronglySorted nokid l).
  { induction l as [|x l IH]; intros p1 E; constructor.
    - apply (IH (p1 ++ [x])). rewrite <- app_assoc. exact E.
    - apply Forall_forall. intros y Hy Hkid.
      pose proof (po_kids_first p1 x l y E Hkid) as Hin.
      pose proof po_NoDup as Hnd. rewrite E in Hnd.
      apply NoDup_app_iff in Hnd as (_ & _ & Hdisj).
      apply (Hdisj y Hin). right. exact Hy. }
  apply (G po []). reflexivity.
Qed.
End PostOrder.

(* ------------------------------------------------------------------ *)
(** * parentof and desc only depend on the child lists below fnext       *)
(* ------------------------------------------------------------------ *)
Lemma find_ext_in {A} (p q : A -> bool) (l : list A) :
  (forall x, In x l -> p x = q x) -> find p l = find q l.
Proof.
  induction l as [|x l IH]; intros H; cbn [find]; [reflexivity|].
  rewrite (H x (or_introl eq_refl)). destruct (q x); [reflexivity|].
  apply IH. intros y Hy. apply H. right; exact Hy.
Qed.

Lemma parentof_same L R n : same_doc L R -> parentof R n = parentof L n.
Proof.
  intros (Hn & Hk & _). unfold parentof. rewrite <- Hn. apply find_ext_in.
  intros p Hp. apply in_seq in Hp. rewrite Hk by lia. reflexivity.
Qed.

Lemma desc_same L R root a n :
  wf_forest L root -> same_doc L R -> a < fnext L -> desc L a n -> desc R a n.
Proof.
  intros Hwf (Hn & Hk & _) Ha Hd. induction Hd as [|b c Hd IH Hin]; [constructor|].
  eapply desc_step; [exact IH|]. rewrite <- Hk; [exact Hin|].
  eapply desc_lt; eauto.
Qed.

Lemma desc_same_rev L R root a n :
  wf_forest L root -> same_doc L R -> a < fnext L -> desc R a n -> desc L a n.
Proof.
  intros Hwf (Hn & Hk & _) Ha Hd. induction Hd as [|b c Hd IH Hin]; [constructor|].
  eapply desc_step; [exact IH|]. rewrite Hk; [exact Hin|].
  eapply desc_lt; eauto.
Qed.

(* the parent of a non-root document node is a document node *)
Lemma parentof_doc L root n :
  wf_forest L root -> desc L root n -> n <> root ->
  exists p, parentof L n = Some p /\ desc L root p /\ In n (fkids L p).
Proof.
  intros Hwf Hd Hne. apply desc_last in Hd as [->|(b & Hb & Hin)]; [congruence|].
  exists b. split; [|split; assumption].
  eapply parentof_of_In; [exact Hwf| |exact Hin].
  eapply desc_lt_root; eauto.
Qed.
