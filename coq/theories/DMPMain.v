(* diff_main: both texts are reconstructed by the segment list, and no segment
   is empty -- for every clock, every character classification and all inputs. *)
From Coq Require Import List ZArith NArith Bool Lia.
Import ListNotations.
Require Import XV.DMP XV.DMPBase XV.DMPCommon XV.DMPMerge XV.DMPSemantic.
Local Open Scope Z_scope.

(* what a call of diff_main must deliver *)
Definition diff_ok (a b : str) (d : list seg) : Prop :=
  (forall k, good_keep k -> proj k d = sel k a b) /\ Forall nonempty d.

Definition rec_ok (rec : rec_t) : Prop :=
  forall cl tick a b d tick', rec cl tick a b = Ok (d, tick') -> diff_ok a b d.

Lemma sel_nil_l k (b : str) : good_keep k -> sel k [] b = proj k [(INSERT, b)].
Proof. intros [_ Hx]. rewrite proj_sing. unfold sel. rewrite Hx. now destruct (k INSERT). Qed.
Lemma sel_nil_r k (a : str) : good_keep k -> sel k a [] = proj k [(DELETE, a)].
Proof. intros [_ Hx]. rewrite proj_sing. unfold sel. rewrite Hx. now destruct (k INSERT). Qed.
Lemma proj_del_ins k (a b : str) : good_keep k -> proj k [(DELETE, a); (INSERT, b)] = sel k a b.
Proof.
  intros [_ Hx]. rewrite !proj_cons, proj_nil. unfold sel. rewrite Hx.
  destruct (k INSERT); cbn; now rewrite ?app_nil_r.
Qed.

Lemma diff_ok_app a1 b1 d1 a2 b2 d2 : diff_ok a1 b1 d1 -> diff_ok a2 b2 d2 -> diff_ok (a1 ++ a2) (b1 ++ b2) (d1 ++ d2).
Proof.
  intros [P1 N1] [P2 N2]. split.
  - intros k Hk. now rewrite proj_app, (P1 k Hk), (P2 k Hk), sel_app.
  - apply Forall_app. now split.
Qed.

Lemma diff_ok_eq (c : str) : c <> [] -> diff_ok c c [(EQUAL, c)].
Proof.
  intros Hc. split.
  - intros k Hk. now rewrite (proj_eq_sing k c Hk), sel_same.
  - repeat constructor. exact Hc.
Qed.

Lemma diff_ok_del_ins (a b : str) : a <> [] -> b <> [] -> diff_ok a b [(DELETE, a); (INSERT, b)].
Proof.
  intros Ha Hb. split.
  - intros k Hk. now apply proj_del_ins.
  - repeat constructor; assumption.
Qed.

(* ------------------------------------------------------------------ *)
(** * diff_linesToChars / diff_charsToLines *)

Lemma expand_chars_app la a b ta tb :
  expand_chars la a = Ok ta -> expand_chars la b = Ok tb -> expand_chars la (a ++ b) = Ok (ta ++ tb).
Proof.
  revert ta. induction a as [|c a IH]; intros ta Ha Hb; cbn in *.
  - ok_inv. assumption.
  - inv_bind Ha as l El. inv_bind Ha as r Er. ok_inv. rewrite El. cbn [bind].
    rewrite (IH r Er Hb). cbn [bind]. now rewrite app_assoc.
Qed.

Lemma expand_chars_app_inv la a b t :
  expand_chars la (a ++ b) = Ok t -> exists ta tb, expand_chars la a = Ok ta /\ expand_chars la b = Ok tb /\ t = ta ++ tb.
Proof.
  revert t. induction a as [|c a IH]; intros t H; cbn in *.
  - exists [], t. auto.
  - inv_bind H as l El. inv_bind H as r Er. ok_inv.
    destruct (IH r Er) as (ta & tb & Ha & Hb & ->).
    exists (l ++ ta), tb. rewrite El, Ha. cbn [bind]. repeat split; auto. now rewrite app_assoc.
Qed.

(* the table only grows *)
Lemma py_get_ext {A} (l ext : list A) i x : 0 <= i -> py_get l i = Ok x -> py_get (l ++ ext) i = Ok x.
Proof.
  intros Hi H. apply py_get_split in H as (pre & post & -> & Hp); [|assumption].
  rewrite <- app_assoc. cbn [app]. apply get0. lia.
Qed.

Lemma expand_chars_ext la ext cs t : expand_chars la cs = Ok t -> expand_chars (la ++ ext) cs = Ok t.
Proof.
  revert t. induction cs as [|c cs IH]; intros t H; cbn in *; [assumption|].
  inv_bind H as l El. inv_bind H as r Er. ok_inv.
  rewrite (py_get_ext la ext _ l) by (auto; lia). cbn [bind]. rewrite (IH r Er). reflexivity.
Qed.

Lemma charsToLines_proj la d d' k :
  charsToLines la d = Ok d' -> expand_chars la (proj k d) = Ok (proj k d').
Proof.
  revert d'. induction d as [|[o t] d IH]; intros d' H; cbn in H.
  - ok_inv. reflexivity.
  - inv_bind H as t' Et. inv_bind H as r' Er. ok_inv.
    rewrite !proj_cons. destruct (k o); cbn [app]; [|auto].
    apply expand_chars_app; auto.
Qed.

Lemma index_of_spec line arr i k : index_of line arr i = Some k ->
  exists j, k = i + Z.of_nat j /\ nth_error arr j = Some line.
Proof.
  revert i. induction arr as [|l arr IH]; intros i H; cbn in H; [discriminate|].
  destruct (str_eqb line l) eqn:E.
  - apply str_eqb_eq in E. subst l. inversion H; subst. exists O. split; [lia|reflexivity].
  - apply IH in H as (j & -> & Hj). exists (S j). split; [lia|exact Hj].
Qed.

Lemma hash_lookup_spec line la k : hash_lookup line la = Some k -> 0 <= k /\ py_get la k = Ok line.
Proof.
  unfold hash_lookup. intros H. apply index_of_spec in H as (j & -> & Hj).
  split; [lia|].
  assert (Hn : nth_error la (S j) = Some line).
  { destruct la as [|x la]; [destruct j; discriminate|]. exact Hj. }
  apply nth_error_split in Hn as (pre & post & -> & Hl).
  apply get0. unfold zlen. lia.
Qed.

Section Munge.
  Variables (text : str) (maxLines : Z) (la0 : list str).

  Definition inv_mg (s : list str * str * Z * Z) : Prop :=
    let '(la, chars, lineStart, lineEnd) := s in
    (exists ext, la = la0 ++ ext) /\ lineStart = lineEnd + 1 /\ -1 <= lineEnd /\
    expand_chars la chars = Ok (slice_to text lineStart).

  Lemma slice_to_slice (s : str) i j : 0 <= i <= j -> j <= zlen s -> slice_to s i ++ slice s i j = slice_to s j.
  Proof.
    intros H1 H2. rewrite !slice_to_in, slice_in by lia.
    rewrite (firstn_split (Z.to_nat i) (Z.to_nat j)) by lia. f_equal. f_equal. lia.
  Qed.

  Lemma slice_to_big (s : str) i : zlen s <= i -> slice_to s i = s.
  Proof.
    intros H. unfold slice_to, clampi. pose proof (zlen_nonneg s).
    destruct (i <? 0) eqn:E; [lia|]. rewrite Z.min_r by lia. rewrite to_nat_zlen. apply firstn_all.
  Qed.

  Lemma inv_mg_step s s' : inv_mg s -> munge_step text maxLines s = Ok (inl s') -> inv_mg s'.
  Proof.
    destruct s as [[[la chars] lineStart] lineEnd].
    intros ((ext & Hla) & Hls & Hle & Hex) Hs. unfold munge_step in Hs.
    destruct (lineEnd <? zlen text - 1) eqn:Elt; [|discriminate].
    set (f := find_from [LF] text lineStart) in Hs.
    set (le' := if f =? -1 then zlen text - 1 else f) in Hs.
    assert (Hle' : lineStart <= le' < zlen text).
    { subst le'. destruct (find_from_spec [LF] text lineStart f eq_refl) as [Hf|(pre & post & Hf & Hfl & Hge)]; [lia| |].
      - rewrite Hf. cbn. lia.
      - destruct (f =? -1) eqn:Ef; [lia|]. split; [lia|].
        pose proof (f_equal zlen Hf) as Hz. rewrite !zlen_app, zlen_sing in Hz.
        pose proof (zlen_nonneg post). pose proof (zlen_nonneg pre). lia. }
    clearbody le'.
    set (line := slice text lineStart (le' + 1)) in Hs.
    assert (Hline : slice_to text lineStart ++ line = slice_to text (le' + 1)).
    { apply slice_to_slice; lia. }
    destruct (hash_lookup line la) as [k|] eqn:Ehl.
    - ok_inv. apply hash_lookup_spec in Ehl as [Hk Hget].
      split; [eauto|]. split; [reflexivity|]. split; [lia|].
      rewrite <- Hline. apply expand_chars_app; [assumption|].
      cbn. rewrite Z2N.id by lia. rewrite Hget. cbn [bind]. now rewrite app_nil_r.
    - destruct (zlen la =? maxLines) eqn:Emax; ok_inv.
      + split; [exists (ext ++ [slice_from text lineStart]); rewrite Hla; now rewrite <- app_assoc|].
        split; [reflexivity|]. split; [pose proof (zlen_nonneg text); lia|].
        rewrite (slice_to_big text (zlen text + 1)) by lia.
        rewrite <- (slice_to_from text lineStart) at 3.
        apply expand_chars_app; [now apply expand_chars_ext|].
        cbn. rewrite zlen_app, zlen_sing.
        replace (Z.of_N (Z.to_N (zlen la + 1 - 1))) with (zlen la) by (pose proof (zlen_nonneg la); lia).
        rewrite get0 by reflexivity. cbn [bind]. now rewrite app_nil_r.
      + split; [exists (ext ++ [line]); rewrite Hla; now rewrite <- app_assoc|].
        split; [reflexivity|]. split; [lia|].
        rewrite <- Hline.
        apply expand_chars_app; [now apply expand_chars_ext|].
        cbn. rewrite zlen_app, zlen_sing.
        replace (Z.of_N (Z.to_N (zlen la + 1 - 1))) with (zlen la) by (pose proof (zlen_nonneg la); lia).
        rewrite get0 by reflexivity. cbn [bind]. now rewrite app_nil_r.
  Qed.

  Lemma munge_spec la chars : munge text maxLines la0 = Ok (la, chars) ->
    (exists ext, la = la0 ++ ext) /\ expand_chars la chars = Ok text.
  Proof.
    unfold munge.
    apply (loop_inv inv_mg (fun r : list str * str => let '(la, chars) := r in
             (exists ext, la = la0 ++ ext) /\ expand_chars la chars = Ok text)).
    - apply inv_mg_step.
    - intros [[[la' chars'] lineStart] lineEnd] [la'' chars''] ((ext & Hla) & Hls & Hle & Hex) Hs.
      unfold munge_step in Hs.
      destruct (lineEnd <? zlen text - 1) eqn:Elt.
      + exfalso. bind_discr Hs.
      + ok_inv. split; [eauto|]. rewrite Hex. f_equal. apply slice_to_big. lia.
    - split; [exists []; now rewrite app_nil_r|]. split; [reflexivity|]. split; [lia|].
      cbn [expand_chars]. f_equal. unfold slice_to. rewrite clampi_in by (pose proof (zlen_nonneg text); lia). reflexivity.
  Qed.
End Munge.

Lemma linesToChars_spec text1 text2 chars1 chars2 la :
  linesToChars text1 text2 = Ok (chars1, chars2, la) ->
  expand_chars la chars1 = Ok text1 /\ expand_chars la chars2 = Ok text2.
Proof.
  unfold linesToChars. intros H.
  inv_bind H as r1 E1. destruct r1 as [la1 c1]. inv_bind H as r2 E2. destruct r2 as [la2 c2]. ok_inv.
  apply munge_spec in E1 as [_ X1]. apply munge_spec in E2 as [(ext & ->) X2].
  split; [now apply expand_chars_ext|assumption].
Qed.

(* ------------------------------------------------------------------ *)
(** * the recursion *)

(* nonempty except for the dummy (EQUAL, "") at the end *)
Definition NEL0 (l : list seg) : Prop := exists body, l = body ++ [(EQUAL, [])] /\ Forall nonempty body.

Lemma NEL0_app_inv a l : NEL0 (a ++ l) -> l <> [] -> Forall nonempty a /\ NEL0 l.
Proof.
  intros (body & H & Hb) Hl.
  destruct l as [|x l] using rev_ind; [congruence|]. clear IHl.
  rewrite app_assoc in H. apply app_inj_tail in H as [H ->].
  subst body. apply Forall_app in Hb as [Ha Hb]. split; [assumption|].
  exists l. now split.
Qed.

Lemma NEL0_app a l : Forall nonempty a -> NEL0 l -> NEL0 (a ++ l).
Proof.
  intros Ha (body & -> & Hb). exists (a ++ body). split; [now rewrite app_assoc|].
  apply Forall_app. now split.
Qed.

Section Main.
  Variable cc : charcls.
  Variable clock : nat -> bool.
  Variable rec : rec_t.
  Hypothesis Hrec : rec_ok rec.

  Lemma bisectSplit_ok tick text1 text2 x y d tick' :
    bisectSplit rec tick text1 text2 x y = Ok (d, tick') -> diff_ok text1 text2 d.
  Proof.
    unfold bisectSplit. intros H.
    inv_bind H as r1 E1. destruct r1 as [da t1]. inv_bind H as r2 E2. destruct r2 as [db t2]. ok_inv.
    apply Hrec in E1, E2.
    rewrite <- (slice_to_from text1 x) at 1. rewrite <- (slice_to_from text2 y) at 1.
    now apply diff_ok_app.
  Qed.

  Lemma bisect_ok tick text1 text2 d tick' : text1 <> [] -> text2 <> [] ->
    bisect clock rec tick text1 text2 = Ok (d, tick') -> diff_ok text1 text2 d.
  Proof.
    unfold bisect. intros H1 H2 H.
    inv_bind H as r Er. destruct r as [kr t]. destruct kr as [x y|].
    - eapply bisectSplit_ok; eassumption.
    - ok_inv. now apply diff_ok_del_ins.
  Qed.

  (* the re-diff loop of diff_lineMode *)
  Section LineLoop.
    Variable d0 : list seg.

    Definition inv_lm (s : lmstate) : Prop :=
      let '(d, p, cd, ci, td, ti, _) := s in
      exists pre run post,
        d = pre ++ run ++ post /\ p = zlen pre + zlen run /\ zlen run = cd + ci /\ 0 <= cd /\ 0 <= ci /\
        (forall k, good_keep k -> proj k run = sel k td ti) /\
        preserves d0 d /\ NEL0 d.

    Lemma inv_lm_step s s' : inv_lm s -> linemode_step rec s = Ok (inl s') -> inv_lm s'.
    Proof.
      destruct s as [[[[[[d p] cd] ci] td] ti] tick].
      intros (pre & run & post & Hd & Hp & Hrl & Hcd & Hci & Hsel & Hpres & Hnel) Hs.
      unfold linemode_step in Hs.
      destruct (p <? zlen d) eqn:Elt; cbn [negb] in Hs; [|discriminate].
      destruct post as [|[o t] post].
      { exfalso. subst d. rewrite app_nil_r, zlen_app in Elt. lia. }
      subst d. rewrite (app_assoc pre run) in Hs.
      rewrite get0 in Hs by (rewrite zlen_app; lia). cbn [bind] in Hs.
      rewrite <- (app_assoc pre run) in Hs.
      destruct o.
      - ok_inv. exists pre, (run ++ [(DELETE, t)]), post.
        rewrite <- !app_assoc. cbn [app]. repeat split; auto; try lia;
          try (rewrite zlen_app, zlen_sing; lia).
        intros k Hk. rewrite proj_app, proj_sing, (Hsel k Hk). unfold sel.
        destruct Hk as [_ Hx]. destruct (k DELETE); [reflexivity|now rewrite app_nil_r].
      - ok_inv. exists pre, (run ++ [(INSERT, t)]), post.
        rewrite <- !app_assoc. cbn [app]. repeat split; auto; try lia;
          try (rewrite zlen_app, zlen_sing; lia).
        intros k Hk. rewrite proj_app, proj_sing, (Hsel k Hk). unfold sel.
        destruct Hk as [_ Hx]. rewrite Hx. destruct (k INSERT); cbn; [reflexivity|now rewrite app_nil_r].
      - destruct ((cd >=? 1) && (ci >=? 1)) eqn:Eb.
        + inv_bind Hs as r Er. destruct r as [sub tick1]. ok_inv.
          apply Hrec in Er as [Ps Ns].
          replace (zlen pre + zlen run - cd - ci) with (zlen pre) by lia.
          rewrite slice_assign0 by lia.
          exists (pre ++ sub ++ [(EQUAL, t)]), [], post.
          rewrite <- !app_assoc. cbn [app]. repeat split; auto; try lia;
            try (intros k Hk; unfold sel; now destruct (k DELETE)).
          * rewrite !zlen_app, zlen_sing. change (zlen (@nil seg)) with 0. lia.
          * apply (preserves_window d0 pre run sub ((EQUAL, t) :: post)); [assumption|].
            intros k Hk. now rewrite (Ps k Hk), (Hsel k Hk).
          * apply NEL0_app_inv in Hnel as [Hn1 Hnel]; [|destruct run; discriminate].
            apply NEL0_app_inv in Hnel as [Hn2 Hnel]; [|discriminate].
            apply NEL0_app; [assumption|]. apply NEL0_app; assumption.
        + ok_inv. exists (pre ++ run ++ [(EQUAL, t)]), [], post.
          rewrite <- !app_assoc. cbn [app]. repeat split; auto; try lia;
            try (intros k Hk; unfold sel; now destruct (k DELETE)).
          rewrite !zlen_app, zlen_sing. change (zlen (@nil seg)) with 0. lia.
    Qed.

    Lemma inv_lm_exit s d tick : inv_lm s -> linemode_step rec s = Ok (inr (d, tick)) ->
      preserves d0 d /\ NEL0 d.
    Proof.
      destruct s as [[[[[[d' p] cd] ci] td] ti] tick'].
      intros (pre & run & post & Hd & Hp & Hrl & Hcd & Hci & Hsel & Hpres & Hnel) Hs.
      unfold linemode_step in Hs.
      destruct (p <? zlen d') eqn:Elt; cbn [negb] in Hs.
      - exfalso. bind_discr Hs.
      - ok_inv. split; assumption.
    Qed.
  End LineLoop.

  Lemma lineMode_ok tick text1 text2 d tick' :
    lineMode cc rec tick text1 text2 = Ok (d, tick') -> diff_ok text1 text2 d.
  Proof.
    unfold lineMode. intros H.
    inv_bind H as r1 E1. destruct r1 as [[chars1 chars2] la].
    inv_bind H as r2 E2. destruct r2 as [d1 tick1].
    inv_bind H as d2 E3. inv_bind H as d3 E4.
    inv_bind H as r5 E5. destruct r5 as [d5 tick5]. inv_bind H as d6 E6. ok_inv.
    apply linesToChars_spec in E1 as [X1 X2].
    apply Hrec in E2 as [P1 _].
    assert (P2 : forall k, good_keep k -> proj k d2 = sel k text1 text2).
    { intros k Hk. pose proof (charsToLines_proj la d1 d2 k E3) as Hc. rewrite (P1 k Hk) in Hc.
      unfold sel in *. destruct (k DELETE); congruence. }
    apply cleanupSemantic_spec in E4 as [P3 N3].
    assert (H5 : preserves (d3 ++ [(EQUAL, [])]) d5 /\ NEL0 d5).
    { revert E5. apply (loop_inv (inv_lm (d3 ++ [(EQUAL, [])]))
                         (fun r : list seg * nat => let '(d, _) := r in preserves (d3 ++ [(EQUAL, [])]) d /\ NEL0 d)).
      - apply inv_lm_step.
      - intros s [dd tt] Hi Hs. eapply inv_lm_exit; eassumption.
      - exists [], [], (d3 ++ [(EQUAL, [])]). cbn [app]. change (zlen (@nil seg)) with 0.
        repeat split; auto; try lia; try (intros k Hk; unfold sel; now destruct (k DELETE));
          try apply preserves_refl; try (exists d3; split; [reflexivity|assumption]). }
    destruct H5 as [P5 (body & -> & Nb)].
    rewrite py_pop_app in E6. ok_inv. split; [|assumption].
    intros k Hk. specialize (P5 k Hk). rewrite !proj_app, !proj_cons, !proj_nil, (gk_eq _ Hk), !app_nil_r in P5.
    now rewrite P5, (P3 k Hk), (P2 k Hk).
  Qed.

  (* the texts handed to diff_compute: not both empty, no common prefix, no common suffix *)
  Definition stripped (a b : str) : Prop := (a <> [] \/ b <> []) /\ nohead a b /\ nolast a b.

  Lemma nohead_sym a b : nohead a b -> nohead b a.
  Proof. destruct a, b; cbn; auto. Qed.
  Lemma nolast_sym a b : nolast a b -> nolast b a.
  Proof. unfold nolast. apply nohead_sym. Qed.

  Lemma inside_nonempty (long short pre post : str) :
    short <> [] -> long = pre ++ short ++ post -> nohead long short -> nolast long short ->
    pre <> [] /\ post <> [].
  Proof.
    intros Hs -> Hh Hl. split.
    - intros ->. cbn in Hh. destruct short as [|c s]; [congruence|]. cbn in Hh. congruence.
    - intros ->. unfold nolast in Hl. rewrite app_nil_r, rev_app_distr in Hl.
      destruct (rev short) as [|c s] eqn:E.
      + apply (f_equal (@rev N)) in E. rewrite rev_involutive in E. cbn in E. congruence.
      + cbn in Hl. congruence.
  Qed.

  Lemma compute_ok cl tick text1 text2 d tick' : stripped text1 text2 ->
    compute cc clock rec cl tick text1 text2 = Ok (d, tick') -> diff_ok text1 text2 d.
  Proof.
    intros (Hne & Hh & Hl) H. unfold compute in H.
    destruct text1 as [|c1 t1'].
    { ok_inv. split.
      - intros k Hk. symmetry. now apply sel_nil_l.
      - repeat constructor. destruct Hne as [Hne|Hne]; [congruence|exact Hne]. }
    destruct text2 as [|c2 t2'].
    { ok_inv. split.
      - intros k Hk. symmetry. now apply sel_nil_r.
      - repeat constructor. discriminate. }
    set (text1 := (c1 :: t1' : str)) in *. set (text2 := (c2 :: t2' : str)) in *.
    assert (Hn1 : text1 <> []) by discriminate. assert (Hn2 : text2 <> []) by discriminate.
    clearbody text1 text2. cbv zeta in H.
    set (swap := zlen text1 >? zlen text2) in H.
    set (longtext := if swap then text1 else text2) in H.
    set (shorttext := if swap then text2 else text1) in H.
    destruct (find_spec shorttext longtext _ eq_refl) as [Hf|(pre & post & Hf & Hfl)].
    - (* not inside *)
      rewrite Hf in H. change (-1 =? -1) with true in H. cbn [negb] in H.
      destruct (zlen shorttext =? 1).
      + ok_inv. now apply diff_ok_del_ins.
      + inv_bind H as hm Ehm. destruct hm as [[[[[a1 b1] a2] b2] c]|].
        * apply halfMatch_spec in Ehm as (E1 & E2 & Hc).
          inv_bind H as r1 R1. destruct r1 as [da ta]. inv_bind H as r2 R2. destruct r2 as [db tb]. ok_inv.
          apply Hrec in R1, R2. rewrite E1, E2.
          apply diff_ok_app; [assumption|]. apply (diff_ok_app c c [(EQUAL, c)]); [now apply diff_ok_eq|assumption].
        * destruct (cl && (zlen text1 >? 100) && (zlen text2 >? 100)).
          -- eapply lineMode_ok; eassumption.
          -- eapply bisect_ok; eassumption.
    - (* the shorter text is inside the longer one *)
      set (i := find shorttext longtext) in *.
      pose proof (zlen_nonneg pre).
      destruct (i =? -1) eqn:Ei; [lia|]. cbn [negb] in H. ok_inv.
      assert (Hsn : shorttext <> []) by (subst shorttext; destruct swap; assumption).
      assert (Hpp : pre <> [] /\ post <> []).
      { apply (inside_nonempty longtext shorttext); auto; subst longtext shorttext; destruct swap; auto using nohead_sym, nolast_sym. }
      destruct Hpp as [Hpre Hpost].
      replace (slice_to longtext i) with pre by (rewrite Hf; symmetry; apply slice_to_app; lia).
      replace (slice_from longtext (i + zlen shorttext)) with post
        by (rewrite Hf, app_assoc; symmetry; apply slice_from_app; rewrite zlen_app; lia).
      split.
      + intros k Hk. rewrite !proj_cons, proj_nil, (gk_eq _ Hk), app_nil_r. unfold sel.
        destruct Hk as [_ Hx]. subst longtext shorttext.
        destruct swap; rewrite Hx; destruct (k INSERT); cbn [negb app]; rewrite ?app_nil_r; auto.
      + repeat constructor; assumption.
  Qed.

  Lemma nohead_prefix (m1 m2 s1 s2 : str) : nohead (m1 ++ s1) (m2 ++ s2) -> m1 <> [] -> m2 <> [] -> nohead m1 m2.
  Proof. destruct m1, m2; cbn; auto; congruence. Qed.

  Lemma main_body_ok : rec_ok (main_body cc clock rec).
  Proof.
    intros cl tick text1 text2 d tick' H. unfold main_body in H.
    destruct (str_eqb text1 text2) eqn:Eeq.
    { apply str_eqb_eq in Eeq. subst text2. destruct text1 as [|c t]; ok_inv.
      - split; [intros k Hk; unfold sel; now destruct (k DELETE)|constructor].
      - apply diff_ok_eq. discriminate. }
    apply str_eqb_neq in Eeq.
    inv_bind H as n1 E1. apply commonPrefix_spec in E1 as (c & r1 & r2 & -> & -> & Hc & Hh).
    rewrite slice_to_app in H by lia. rewrite !slice_from_app in H by lia.
    inv_bind H as n2 E2. apply commonSuffix_spec in E2 as (s & m1 & m2 & -> & -> & Hs & Hl).
    assert (Hst : (if n2 =? 0 then ([], m1 ++ s, m2 ++ s)
                   else (slice_from (m1 ++ s) (- n2), slice_to (m1 ++ s) (- n2), slice_to (m2 ++ s) (- n2)))
                  = (s, m1, m2)).
    { destruct (n2 =? 0) eqn:En.
      - assert (s = []) by (apply zlen_0; lia). subst s. now rewrite !app_nil_r.
      - assert (s <> []). { intros ->. change (zlen (@nil N)) with 0 in Hs. lia. }
        rewrite slice_from_app_neg, !slice_to_app_neg by (auto; lia). reflexivity. }
    rewrite Hst in H. clear Hst.
    inv_bind H as r Er. destruct r as [diffs tick1]. inv_bind H as d' Em. ok_inv.
    assert (Hstr : stripped m1 m2).
    { split; [|split].
      - destruct m1, m2; try (left; discriminate); try (right; discriminate). exfalso. now apply Eeq.
      - destruct m1 as [|x m1]; [exact I|]. destruct m2 as [|y m2]; [exact I|]. exact Hh.
      - exact Hl. }
    apply compute_ok in Er; [|assumption].
    apply cleanupMerge_spec in Em as [Pm Nm].
    assert (Hfull : diff_ok (c ++ m1 ++ s) (c ++ m2 ++ s)
              (match s with [] => match c with [] => diffs | _ => (EQUAL, c) :: diffs end
                          | _ => match c with [] => diffs | _ => (EQUAL, c) :: diffs end ++ [(EQUAL, s)] end)).
    { assert (Hc' : diff_ok (c ++ m1) (c ++ m2) (match c with [] => diffs | _ => (EQUAL, c) :: diffs end)).
      { destruct c as [|x c']; [assumption|].
        apply (diff_ok_app (x :: c') (x :: c') [(EQUAL, x :: c')]); [apply diff_ok_eq; discriminate|assumption]. }
      destruct s as [|y s'].
      - now rewrite !app_nil_r.
      - rewrite !(app_assoc c). apply diff_ok_app; [assumption|]. apply diff_ok_eq. discriminate. }
    destruct Hfull as [Pf Nf]. split.
    - intros k Hk. rewrite (Pm k Hk). apply Pf. assumption.
    - auto.
  Qed.
End Main.

Lemma diff_main_f_ok cc clock fuel : rec_ok (diff_main_f cc clock fuel).
Proof.
  induction fuel as [|f IH]; cbn [diff_main_f].
  - intros cl tick a b d tick' H. discriminate.
  - now apply main_body_ok.
Qed.

Theorem diff_main_spec cc clock a b d : diff_main cc clock a b = Ok d ->
  t1 d = a /\ t2 d = b /\ Forall (fun s => snd s <> []) d.
Proof.
  unfold diff_main. intros H. inv_bind H as r Er. destruct r as [d' tick]. ok_inv.
  apply diff_main_f_ok in Er as [P N].
  split; [|split].
  - rewrite t1_proj, (P keep1 good_keep1). reflexivity.
  - rewrite t2_proj, (P keep2 good_keep2). reflexivity.
  - exact N.
Qed.
