(* DifferFrame.v -- the differ's transitions, one at a time.

   Exported, in plain words:
   - [run_gen chk] is run_spec (chk = false) or run_checked (chk = true);
     [Step chk root s s']: s' extends the script of s by actions which, replayed
     from the working forest of s by the documented meaning of the actions, are
     all applicable (and, for chk = true, all effective) and lead exactly to the
     working forest of s'; serr is unchanged.  Step is reflexive and transitive.
   - criteria for an action to be effective ([same_doc_kids], [same_doc_lab]);
   - [visit] is one of three compositions ([visit_ins], [visit_move],
     [visit_stay]) of the transitions do_ins / do_move / upd_tag / upd_attr /
     align / upd_text;
   - which state fields upd_tag, upd_text, upd_attr, align, the delete step change. *)
From Coq Require Import List NArith ZArith Arith Bool Lia.
Import ListNotations.
Require Import XV.Str XV.Forest XV.LCS XV.Matcher XV.Differ XV.Spec XV.WF XV.ForestProofs XV.TreeProofs.
Require Import XV.AttrProofs.

(* ------------------------------------------------------------------ *)
(** * Scripts                                                           *)
(* ------------------------------------------------------------------ *)
Definition run_gen (chk : bool) (root : id) (f : forest) (sc : list iact) : option forest :=
  if chk then run_checked root f sc else run_spec root f sc.

Lemma run_spec_app root a : forall f b,
  run_spec root f (a ++ b) = match run_spec root f a with Some g => run_spec root g b | None => None end.
Proof.
  induction a as [|x a IH]; intros f b; cbn; [reflexivity|].
  destruct (spec_apply root f x); [apply IH|reflexivity].
Qed.

Lemma run_checked_app root a : forall f b,
  run_checked root f (a ++ b) = match run_checked root f a with Some g => run_checked root g b | None => None end.
Proof.
  induction a as [|x a IH]; intros f b; cbn; [reflexivity|].
  destruct (spec_apply root f x) as [f'|]; [|reflexivity].
  destruct (is_ns_action x || negb (same_doc root f f')); [apply IH|reflexivity].
Qed.

Lemma run_checked_spec root sc : forall f g, run_checked root f sc = Some g -> run_spec root f sc = Some g.
Proof.
  induction sc as [|x a IH]; intros f g H; cbn in *; [exact H|].
  destruct (spec_apply root f x) as [f'|]; [|discriminate].
  destruct (is_ns_action x || negb (same_doc root f f')); [apply IH; exact H|discriminate].
Qed.

Lemma run_gen_app chk root a f b :
  run_gen chk root f (a ++ b) = match run_gen chk root f a with Some g => run_gen chk root g b | None => None end.
Proof. destruct chk; [apply run_checked_app|apply run_spec_app]. Qed.

Lemma run_gen_weaken chk root f sc g : run_gen chk root f sc = Some g -> run_spec root f sc = Some g.
Proof. destruct chk; [apply run_checked_spec|auto]. Qed.

Definition Step (chk : bool) (root : id) (s s' : st) : Prop :=
  serr s' = serr s /\
  exists acts, out s' = out s ++ acts /\ run_gen chk root (W s) acts = Some (W s').

Lemma Step_nop chk root s s' : serr s' = serr s -> out s' = out s -> W s' = W s -> Step chk root s s'.
Proof.
  intros H1 H2 H3. split; [exact H1|]. exists []. rewrite app_nil_r. split; [exact H2|].
  rewrite H3. destruct chk; reflexivity.
Qed.

Lemma Step_refl chk root s : Step chk root s s.
Proof. apply Step_nop; reflexivity. Qed.

Lemma Step_trans chk root s1 s2 s3 : Step chk root s1 s2 -> Step chk root s2 s3 -> Step chk root s1 s3.
Proof.
  intros (E1 & a1 & O1 & R1) (E2 & a2 & O2 & R2). split; [congruence|].
  exists (a1 ++ a2). split; [rewrite O2, O1, app_assoc; reflexivity|].
  rewrite run_gen_app, R1. exact R2.
Qed.

Lemma Step_weaken chk root s s' : Step chk root s s' -> Step false root s s'.
Proof.
  intros (E & a & O & Rn). split; [exact E|]. exists a. split; [exact O|].
  eapply run_gen_weaken; eauto.
Qed.

Lemma Step_one chk root s s' a :
  serr s' = serr s -> out s' = out s ++ [a] ->
  spec_apply root (W s) a = Some (W s') ->
  (is_ns_action a || negb (same_doc root (W s) (W s')) = true) ->
  Step chk root s s'.
Proof.
  intros H1 H2 H3 H4. split; [exact H1|]. exists [a]. split; [exact H2|].
  destruct chk; cbn; rewrite H3; [rewrite H4|]; reflexivity.
Qed.

Lemma Step_one_gen chk root s s' a :
  serr s' = serr s -> out s' = out s ++ [a] ->
  spec_apply root (W s) a = Some (W s') ->
  (chk = true -> is_ns_action a || negb (same_doc root (W s) (W s')) = true) ->
  Step chk root s s'.
Proof.
  intros H1 H2 H3 H4. split; [exact H1|]. exists [a]. split; [exact H2|].
  destruct chk; cbn; rewrite H3; [rewrite H4|]; reflexivity.
Qed.

(* ------------------------------------------------------------------ *)
(** * Effectiveness criteria                                            *)
(* ------------------------------------------------------------------ *)
Lemma lst_eqb_nat_true l : forall l', lst_eqb Nat.eqb l l' = true -> l = l'.
Proof.
  induction l as [|x l IH]; intros [|y l'] H; cbn in H; try discriminate; [reflexivity|].
  apply andb_true_iff in H as [H1 H2]. apply Nat.eqb_eq in H1. f_equal; [exact H1|apply IH; exact H2].
Qed.

Lemma same_doc_kids root f g t :
  wf_forest f root -> desc f root t -> fkids f t <> fkids g t -> same_doc root f g = false.
Proof.
  intros Hwf Ht Hne. unfold same_doc. apply andb_false_iff. right.
  destruct (forallb _ (doc_nodes f root)) eqn:E; [|reflexivity]. exfalso.
  rewrite forallb_forall in E. specialize (E t (proj2 (doc_nodes_iff f root t Hwf) Ht)).
  apply andb_true_iff in E as [E _]. apply lst_eqb_nat_true in E. apply Hne. exact E.
Qed.

Lemma same_doc_lab root f g n :
  wf_forest f root -> desc f root n -> label_eqb (flab f n) (flab g n) = false -> same_doc root f g = false.
Proof.
  intros Hwf Hn Hne. unfold same_doc. apply andb_false_iff. right.
  destruct (forallb _ (doc_nodes f root)) eqn:E; [|reflexivity]. exfalso.
  rewrite forallb_forall in E. specialize (E n (proj2 (doc_nodes_iff f root n Hwf) Hn)).
  apply andb_true_iff in E as [_ E]. unfold labof in E. congruence.
Qed.

(* ------------------------------------------------------------------ *)
(** * visit, decomposed                                                 *)
(* ------------------------------------------------------------------ *)
Definition new_act (R : forest) (lt : id) (pos : nat) (n y : id) : iact * label :=
  let r := labof R y in
  match ltag r with
  | TComment => (IInsertComment lt pos (ltext r) n, Lab TComment [] (ltext r) None)
  | TElem t => (IInsert lt t pos n, Lab (TElem t) [] None None)
  end.

Definition do_ins (R : forest) (s : st) (lt : id) (pos : nat) (y : id) : st :=
  let n := fnext (W s) in
  let an := new_act R lt pos n y in
  mark (withW (addmatch (emit s (fst an)) n y) (ins_f (W s) (snd an) lt pos)) n y.

Definition finish (R : forest) (s1 : st) (ln y : id) : st :=
  let s2 := align R s1 ln y in
  match r2l s2 y with
  | Some ln' => upd_text R s2 ln' y
  | None => fail s2
  end.

Lemma visit_ins ign R s y x lt pos :
  r2l s y = None -> parentof R y = Some x -> r2l s x = Some lt -> find_pos R s y = Some pos ->
  visit ign R s y = finish R (upd_attr ign R (do_ins R s lt pos y) (fnext (W s)) y) (fnext (W s)) y.
Proof.
  intros H1 H2 H3 H4. unfold visit, finish, do_ins, new_act. rewrite H1, H2, H3, H4.
  destruct (ltag (labof R y)); reflexivity.
Qed.

Lemma visit_move ign R s y c x lt pos :
  r2l s y = Some c -> parentof R y = Some x -> r2l s x = Some lt ->
  oid_eqb (Some lt) (parentof (W s) c) = false -> find_pos R s y = Some pos ->
  visit ign R s y = finish R (upd_attr ign R (upd_tag R (do_move s c lt pos y) c y) c y) c y.
Proof.
  intros H1 H2 H3 H4 H5. unfold visit, finish. rewrite H1, H2, H3, H4, H5. reflexivity.
Qed.

Lemma visit_stay ign R s y c :
  r2l s y = Some c ->
  oid_eqb (match parentof R y with Some rp => r2l s rp | None => None end) (parentof (W s) c) = true ->
  visit ign R s y = finish R (upd_attr ign R (upd_tag R s c y) c y) c y.
Proof.
  intros H1 H2. unfold visit, finish. rewrite H1, H2. reflexivity.
Qed.

(* ------------------------------------------------------------------ *)
(** * Fields                                                            *)
(* ------------------------------------------------------------------ *)
Lemma oid_eqb_true a b : oid_eqb a b = true <-> a = b.
Proof.
  destruct a, b; cbn; split; intros H; try discriminate; try reflexivity.
  - apply Nat.eqb_eq in H. congruence.
  - inversion H. apply Nat.eqb_refl.
Qed.

Lemma oid_eqb_false a b : oid_eqb a b = false <-> a <> b.
Proof.
  split.
  - intros H E. apply oid_eqb_true in E. congruence.
  - intros H. destruct (oid_eqb a b) eqn:E; [apply oid_eqb_true in E; contradiction|reflexivity].
Qed.

(* do_move *)
Lemma do_move_W s c t pos y : W (do_move s c t pos y) = move_f (W s) c t pos.
Proof. reflexivity. Qed.
Lemma do_move_out s c t pos y : out (do_move s c t pos y) = out s ++ [IMove c t pos].
Proof. reflexivity. Qed.

(* do_ins *)
Lemma do_ins_W R s lt pos y :
  W (do_ins R s lt pos y) = ins_f (W s) (snd (new_act R lt pos (fnext (W s)) y)) lt pos.
Proof. reflexivity. Qed.
Lemma do_ins_out R s lt pos y :
  out (do_ins R s lt pos y) = out s ++ [fst (new_act R lt pos (fnext (W s)) y)].
Proof. reflexivity. Qed.

(* the marks made by a fold of [mark] *)
Lemma fold_mark_fields (g h : Z * Z -> id) ps : forall s,
  let s' := fold_left (fun s p => mark s (g p) (h p)) ps s in
  W s' = W s /\ l2r s' = l2r s /\ r2l s' = r2l s /\ out s' = out s /\ serr s' = serr s /\
  (forall u, inoL s' u = inoL s u || mem u (map g ps)) /\
  (forall v, inoR s' v = inoR s v || mem v (map h ps)).
Proof.
  induction ps as [|p ps IH]; intros s; cbn [fold_left map].
  - repeat split; try reflexivity; intros; cbn; rewrite orb_false_r; reflexivity.
  - destruct (IH (mark s (g p) (h p))) as (H1 & H2 & H3 & H4 & H5 & H6 & H7).
    cbn zeta in *. rewrite H1, H2, H3, H4, H5. repeat split; try reflexivity.
    + intros u. rewrite H6. cbn. unfold upd. destruct (Nat.eqb u (g p)); cbn;
        [rewrite orb_true_r|]; reflexivity.
    + intros v. rewrite H7. cbn. unfold upd. destruct (Nat.eqb v (h p)); cbn;
        [rewrite orb_true_r|]; reflexivity.
Qed.

(* upd_tag *)
Lemma upd_tag_fields R s ln rn :
  let s' := upd_tag R s ln rn in
  l2r s' = l2r s /\ r2l s' = r2l s /\ inoL s' = inoL s /\ inoR s' = inoR s /\
  fkids (W s') = fkids (W s) /\ fnext (W s') = fnext (W s).
Proof.
  unfold upd_tag. destruct (tag_eqb _ _); [repeat split; reflexivity|].
  destruct (ltag (labof R rn)); repeat split; reflexivity.
Qed.

(* upd_text *)
Lemma upd_text_fields R s ln rn :
  let s' := upd_text R s ln rn in
  l2r s' = l2r s /\ r2l s' = r2l s /\ inoL s' = inoL s /\ inoR s' = inoR s /\
  fkids (W s') = fkids (W s) /\ fnext (W s') = fnext (W s) /\ serr s' = serr s.
Proof.
  unfold upd_text. destruct (ostr_eqb (ltext _) _); cbn zeta;
    match goal with |- context [if ?b then _ else _] => destruct b end; repeat split; reflexivity.
Qed.
