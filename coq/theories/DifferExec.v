(* Executable instances used by the correspondence checks: the similarity oracle
   instantiated with IEEE doubles (PrimFloat) and a table of leaf ratios computed
   by the implementation itself; boolean comparison of scripts.  No proofs. *)
From Coq Require Import List NArith ZArith Bool Arith PrimFloat Uint63.
Import ListNotations.
Require Import XV.Str XV.Forest XV.LCS XV.Matcher XV.Differ.

Definition f_of_nat (n : nat) : float := PrimFloat.of_uint63 (Uint63.of_Z (Z.of_nat n)).
(* sqrt((match**2 + (count/child_count)**2) / 2) *)
Definition fcombine (m : float) (c n : nat) : float :=
  let r := (f_of_nat c / f_of_nat n)%float in PrimFloat.sqrt ((m * m + r * r) / 2)%float.

Definition ftable := list (str * str * float).
Fixpoint tlookup (t : ftable) (a b : str) : float :=
  match t with
  | [] => 0%float
  | (x, y, v) :: r => if str_eqb a x && str_eqb b y then v else tlookup r a b
  end.

Definition fopts := mopts float.
Definition match_float (o : fopts) (tab : ftable) (L R : forest) (rootL rootR : id) :=
  match_nodes float PrimFloat.ltb PrimFloat.leb (fun x => PrimFloat.eqb x 1%float) 0%float 1%float
              (tlookup tab) fcombine o L R rootL rootR.
Definition node_ratio_float (o : fopts) (tab : ftable) (L R : forest) :=
  node_ratio float 0%float 1%float (tlookup tab) fcombine o L R.

Definition ostr_eq := ostr_eqb.
Definition iact_eqb (a b : iact) : bool :=
  match a, b with
  | IInsert t g p n, IInsert t' g' p' n' => Nat.eqb t t' && str_eqb g g' && Nat.eqb p p' && Nat.eqb n n'
  | IInsertComment t p x n, IInsertComment t' p' x' n' => Nat.eqb t t' && Nat.eqb p p' && ostr_eqb x x' && Nat.eqb n n'
  | IMove n t p, IMove n' t' p' => Nat.eqb n n' && Nat.eqb t t' && Nat.eqb p p'
  | IDelete n, IDelete n' => Nat.eqb n n'
  | IRename n g, IRename n' g' => Nat.eqb n n' && str_eqb g g'
  | IText n x, IText n' x' => Nat.eqb n n' && ostr_eqb x x'
  | ITail n x, ITail n' x' => Nat.eqb n n' && ostr_eqb x x'
  | IUpdAttr n k v, IUpdAttr n' k' v' => Nat.eqb n n' && str_eqb k k' && str_eqb v v'
  | IInsAttr n k v, IInsAttr n' k' v' => Nat.eqb n n' && str_eqb k k' && str_eqb v v'
  | IDelAttr n k, IDelAttr n' k' => Nat.eqb n n' && str_eqb k k'
  | IRenAttr n k v, IRenAttr n' k' v' => Nat.eqb n n' && str_eqb k k' && str_eqb v v'
  | IInsNs p u, IInsNs p' u' => ostr_eqb p p' && str_eqb u u'
  | IDelNs p, IDelNs p' => ostr_eqb p p'
  | _, _ => false
  end.

Definition pairs_eqb (a b : list (id * id)) : bool :=
  lst_eqb (fun p q => Nat.eqb (fst p) (fst q) && Nat.eqb (snd p) (snd q)) a b.

Record dcase := DCase {
  dL : forest; dR : forest; dlns : nsmap; drns : nsmap;
  dopts : fopts; dtab : ftable;
  dltexts : list (id * str); drtexts : list (id * str);     (* Differ.node_text per element *)
  dmatches : list (id * id);                                (* Differ.match(), by pre-order id *)
  dscript : option (list iact) }.                           (* Differ.diff(), None = exception *)

Definition texts_ok (o : fopts) (f : forest) (ts : list (id * str)) : bool :=
  forallb (fun p => str_eqb (node_text float o f (fst p)) (snd p)) ts.

Definition check_match (c : dcase) : bool :=
  texts_ok (dopts c) (dL c) (dltexts c) && texts_ok (dopts c) (dR c) (drtexts c) &&
  match match_float (dopts c) (dtab c) (dL c) (dR c) 0 0 with
  | Some m => pairs_eqb m (dmatches c)
  | None => false
  end.

Definition check_script (c : dcase) : bool :=
  match diff_given (oignored float (dopts c)) (dR c) 0 (dL c) 0 (dlns c) (drns c) (dmatches c), dscript c with
  | Some (acts, _), Some e => lst_eqb iact_eqb acts e
  | None, None => true
  | _, _ => false
  end.

Definition check_dcase (c : dcase) : bool := check_match c && check_script c.

(* Model-level evaluation of C01/C05/C17 (identity level) on the implementation's script *)
Require Import XV.Spec.
Definition tree_of (f : forest) (root : id) : tree := to_tree (S (fnext f)) f root.
Definition check_spec (c : dcase) : bool :=
  match dscript c with
  | None => true
  | Some script =>
      match run_checked 0 (dL c) script with
      | Some T => let g := node_attribs float (dopts c) in
                  tree_equivb (tree_map_attrs g (tree_of T 0)) (tree_map_attrs g (tree_of (dR c) 0))
      | None => false
      end
  end.
Definition check_all (c : dcase) : bool := check_dcase c && check_spec c.
