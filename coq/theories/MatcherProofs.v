(* Proofs about the model of Differ.match() (Matcher.v): property C07.

   For EVERY similarity oracle (sim, sim_ltb, sim_leb, sim_is_one, zero, one,
   leaf_sim, combine) -- hence for the three ratio modes -- and for the three
   matching strategies (default, fast_match, best_match), the list of matches
     - is injective in both directions,
     - contains the pair of the roots,
     - only mentions nodes of the two documents,
     - never pairs a comment with an element (root pair excepted),
     - never pairs two elements that disagree on an applicable, non-ignored
       unique attribute (root pair excepted).

   ORACLE LAWS USED (the only two):
     (F_pos)   sim_leb (oF o) zero = false      "not (0 >= F)", i.e. 0 < F
     (one_nz)  sim_is_one zero = false          "0 != 1.0"
   Nothing is assumed about sim_ltb, leaf_sim, combine, nor about any order
   property of sim_leb.  Totality (match_total) needs no hypothesis at all. *)
From Coq Require Import List NArith ZArith Bool Arith Lia Sorting.Sorted.
Import ListNotations.
Require Import XV.Str XV.Forest XV.LCS XV.LCSProofs XV.Matcher.

(* ------------------------------------------------------------------ *)
(** * Elementary facts on strings, tags, lists                          *)
(* ------------------------------------------------------------------ *)
Lemma mp_str_eqb_eq (a b : str) : str_eqb a b = true <-> a = b.
Proof.
  revert b. induction a as [|x a IH]; intros [|y b]; simpl; split; intros H;
    try reflexivity; try discriminate.
  - apply andb_true_iff in H. destruct H as [H1 H2].
    apply N.eqb_eq in H1. apply IH in H2. subst. reflexivity.
  - inversion H; subst. apply andb_true_iff. split; [apply N.eqb_refl|].
    apply IH. reflexivity.
Qed.

Lemma mp_ostr_eqb_eq (a b : option str) : ostr_eqb a b = true <-> a = b.
Proof.
  destruct a as [x|], b as [y|]; simpl; split; intros H;
    try reflexivity; try discriminate.
  - apply mp_str_eqb_eq in H. subst. reflexivity.
  - inversion H; subst. apply mp_str_eqb_eq. reflexivity.
Qed.

Lemma mp_smem_In (x : str) (l : list str) : smem x l = true <-> In x l.
Proof.
  unfold smem. rewrite existsb_exists. split.
  - intros (y & Hy & E). apply mp_str_eqb_eq in E. subst. exact Hy.
  - intros H. exists x. split; [exact H|]. apply mp_str_eqb_eq. reflexivity.
Qed.

Lemma mp_tag_eqb_eq (a b : tagt) : tag_eqb a b = true <-> a = b.
Proof.
  destruct a as [x|], b as [y|]; simpl; split; intros H;
    try reflexivity; try discriminate.
  - apply mp_str_eqb_eq in H. subst. reflexivity.
  - inversion H; subst. apply mp_str_eqb_eq. reflexivity.
Qed.

Lemma ahas_false (l : list (str * str)) (k : str) : ahas l k = false -> aget l k = None.
Proof. unfold ahas. destruct (aget l k); [discriminate|reflexivity]. Qed.

Lemma remove_id_In (x y : id) (l : list id) : In y (remove_id x l) <-> In y l /\ y <> x.
Proof.
  unfold remove_id. rewrite filter_In, negb_true_iff, Nat.eqb_neq. tauto.
Qed.

Lemma mem_In (x : id) (l : list id) : mem x l = true <-> In x l.
Proof.
  unfold mem. rewrite existsb_exists. split.
  - intros (y & Hy & E). apply Nat.eqb_eq in E. subst. exact Hy.
  - intros H. exists x. split; [exact H|apply Nat.eqb_refl].
Qed.

Lemma existsb_eqb_In (i : nat) (l : list nat) : existsb (Nat.eqb i) l = true <-> In i l.
Proof.
  rewrite existsb_exists. split.
  - intros (y & Hy & E). apply Nat.eqb_eq in E. subst. exact Hy.
  - intros H. exists i. split; [exact H|apply Nat.eqb_refl].
Qed.

Lemma post_order_root (fuel : nat) (f : forest) (n : id) : In n (post_order (S fuel) f n).
Proof. simpl. apply in_or_app. right. left. reflexivity. Qed.

Lemma NoDup_snoc {A} (l : list A) (x : A) : NoDup l -> ~ In x l -> NoDup (l ++ [x]).
Proof.
  intros Hl Hx. induction Hl as [|y l Hy Hl IH]; simpl.
  - constructor; [intros []|constructor].
  - constructor.
    + intros Hin. apply in_app_or in Hin. destruct Hin as [Hin|[E|[]]].
      * exact (Hy Hin).
      * apply Hx. left. symmetry. exact E.
    + apply IH. intros Hin. apply Hx. right. exact Hin.
Qed.

(* ------------------------------------------------------------------ *)
(** * The unique-attribute rule in elementary terms                     *)
(* ------------------------------------------------------------------ *)
Definition ua_name (u : uattr) : str := match u with UA a => a | UTA _ a => a end.
Definition ua_appliesb (u : uattr) (lt rt : tagt) : bool :=
  match u with UA _ => true | UTA t _ => tag_eqb (TElem t) lt && tag_eqb (TElem t) rt end.
Definition ua_applies (u : uattr) (lt rt : tagt) : Prop :=
  match u with UA _ => True | UTA t _ => lt = TElem t /\ rt = TElem t end.

(* every applicable, non-ignored entry of [us] has the same value (or is absent)
   on both attribute lists *)
Definition uniq_agree (ign : list str) (us : list uattr) (lt rt : tagt)
           (la ra : list (str * str)) : Prop :=
  forall u, In u us -> ua_applies u lt rt -> ~ In (ua_name u) ign ->
            aget la (ua_name u) = aget ra (ua_name u).

Lemma ua_appliesb_true u lt rt : ua_appliesb u lt rt = true <-> ua_applies u lt rt.
Proof.
  destruct u as [a|t a]; unfold ua_appliesb, ua_applies; [tauto|].
  rewrite andb_true_iff, !mp_tag_eqb_eq. split; intros [H1 H2]; split; congruence.
Qed.

Section UniqDecide.
Variable sim : Type.
Variables zero one : sim.
Variable o : mopts sim.

Lemma uniq_decide_cons u rest lt rt la ra found :
  uniq_decide sim zero one o (u :: rest) lt rt la ra found =
  if ua_appliesb u lt rt && negb (smem (ua_name u) (oignored sim o))
     && (ahas la (ua_name u) || ahas ra (ua_name u))
  then if ostr_eqb (aget la (ua_name u)) (aget ra (ua_name u))
       then uniq_decide sim zero one o rest lt rt la ra true
       else Some zero
  else uniq_decide sim zero one o rest lt rt la ra found.
Proof. destruct u; reflexivity. Qed.

(* the loop either rejects (Some zero) or all relevant attributes agree *)
Lemma uniq_decide_zero_or_agree lt rt la ra : forall us found,
  uniq_decide sim zero one o us lt rt la ra found = Some zero \/
  uniq_agree (oignored sim o) us lt rt la ra.
Proof.
  induction us as [|u rest IH]; intros found.
  - right. intros u [].
  - rewrite uniq_decide_cons.
    destruct (ua_appliesb u lt rt) eqn:Happ; simpl.
    + destruct (smem (ua_name u) (oignored sim o)) eqn:Hign; simpl.
      * destruct (IH found) as [Hz|Hag]; [left; exact Hz|right].
        intros u' [E|Hin] Ha Hni; [subst u'|exact (Hag u' Hin Ha Hni)].
        exfalso. apply Hni. apply mp_smem_In. exact Hign.
      * destruct (ahas la (ua_name u) || ahas ra (ua_name u)) eqn:Hpres.
        -- destruct (ostr_eqb (aget la (ua_name u)) (aget ra (ua_name u))) eqn:Heq.
           ++ destruct (IH true) as [Hz|Hag]; [left; exact Hz|right].
              intros u' [E|Hin] Ha Hni; [subst u'|exact (Hag u' Hin Ha Hni)].
              apply mp_ostr_eqb_eq. exact Heq.
           ++ left. reflexivity.
        -- destruct (IH found) as [Hz|Hag]; [left; exact Hz|right].
           intros u' [E|Hin] Ha Hni; [subst u'|exact (Hag u' Hin Ha Hni)].
           apply orb_false_iff in Hpres. destruct Hpres as [H1 H2].
           rewrite (ahas_false _ _ H1), (ahas_false _ _ H2). reflexivity.
    + destruct (IH found) as [Hz|Hag]; [left; exact Hz|right].
      intros u' [E|Hin] Ha Hni; [subst u'|exact (Hag u' Hin Ha Hni)].
      apply ua_appliesb_true in Ha. rewrite Ha in Happ. discriminate.
Qed.

(* when all relevant attributes agree the loop never rejects *)
Lemma uniq_decide_agree lt rt la ra : forall us found,
  uniq_agree (oignored sim o) us lt rt la ra ->
  uniq_decide sim zero one o us lt rt la ra found = Some one \/
  uniq_decide sim zero one o us lt rt la ra found = None.
Proof.
  induction us as [|u rest IH]; intros found Hag.
  - simpl. destruct found; [left|right]; reflexivity.
  - assert (Hag' : uniq_agree (oignored sim o) rest lt rt la ra).
    { intros u' Hin. apply Hag. right. exact Hin. }
    rewrite uniq_decide_cons.
    destruct (ua_appliesb u lt rt && negb (smem (ua_name u) (oignored sim o))
              && (ahas la (ua_name u) || ahas ra (ua_name u))) eqn:Hc.
    + apply andb_true_iff in Hc. destruct Hc as [Hc _].
      apply andb_true_iff in Hc. destruct Hc as [Happ Hign].
      apply ua_appliesb_true in Happ. apply negb_true_iff in Hign.
      assert (Heq : aget la (ua_name u) = aget ra (ua_name u)).
      { apply Hag; [left; reflexivity|exact Happ|].
        intros Hin. apply mp_smem_In in Hin. rewrite Hin in Hign. discriminate. }
      apply mp_ostr_eqb_eq in Heq. rewrite Heq. apply IH. exact Hag'.
    + apply IH. exact Hag'.
Qed.
End UniqDecide.

(* ------------------------------------------------------------------ *)
(** * Positions and LCS index lists                                     *)
(* ------------------------------------------------------------------ *)
Lemma drop_positions_In ps : forall l i x,
  In x (drop_positions i ps l) ->
  exists k, nth_error l k = Some x /\ ~ In (i + k) ps.
Proof.
  induction l as [|y l IH]; intros i x Hin; simpl in Hin; [destruct Hin|].
  destruct (existsb (Nat.eqb i) ps) eqn:E.
  - destruct (IH _ _ Hin) as (k & Hk & Hn). exists (S k). split; [exact Hk|].
    replace (i + S k) with (S i + k) by lia. exact Hn.
  - destruct Hin as [Hx|Hin].
    + subst. exists 0. split; [reflexivity|]. rewrite Nat.add_0_r.
      intros Hi. apply existsb_eqb_In in Hi. rewrite Hi in E. discriminate.
    + destruct (IH _ _ Hin) as (k & Hk & Hn). exists (S k). split; [exact Hk|].
      replace (i + S k) with (S i + k) by lia. exact Hn.
Qed.

Lemma drop_positions_incl ps l i x : In x (drop_positions i ps l) -> In x l.
Proof.
  intros H. destruct (drop_positions_In _ _ _ _ H) as (k & Hk & _).
  eapply nth_error_In. exact Hk.
Qed.

Lemma drop_positions_NoDup ps : forall l i, NoDup l -> NoDup (drop_positions i ps l).
Proof.
  induction l as [|y l IH]; intros i Hnd; simpl; [constructor|].
  inversion Hnd as [|? ? Hy Hl]; subst.
  destruct (existsb (Nat.eqb i) ps).
  - apply IH. exact Hl.
  - constructor; [|apply IH; exact Hl].
    intros Hin. apply Hy. eapply drop_positions_incl. exact Hin.
Qed.

(* distinct in-range positions of a duplicate-free list hold distinct elements *)
Lemma nth_id_NoDup (xs : list id) (key : Z * Z -> Z) (ps : list (Z * Z)) :
  NoDup xs ->
  (forall p, In p ps -> (0 <= key p)%Z /\ Z.to_nat (key p) < length xs) ->
  StronglySorted (fun p q => (key p < key q)%Z) ps ->
  NoDup (map (fun p => nth_id xs (key p)) ps).
Proof.
  intros Hnd Hrng Hss. induction Hss as [|p ps Hss IH Hall]; simpl; [constructor|].
  constructor.
  - intros Hin. apply in_map_iff in Hin. destruct Hin as (q & Hq & Hqin).
    rewrite Forall_forall in Hall. specialize (Hall q Hqin).
    destruct (Hrng p (or_introl eq_refl)) as [Hp0 Hpl].
    destruct (Hrng q (or_intror Hqin)) as [Hq0 Hql].
    unfold nth_id in Hq.
    apply (proj1 (NoDup_nth xs 0) Hnd) in Hq; [lia|exact Hql|exact Hpl].
  - apply IH. intros q Hq. apply Hrng. right. exact Hq.
Qed.

Lemma StronglySorted_impl {A} (R1 R2 : A -> A -> Prop) (l : list A) :
  (forall a b, R1 a b -> R2 a b) -> StronglySorted R1 l -> StronglySorted R2 l.
Proof.
  intros Himp H. induction H as [|a l Hs IH Hall]; constructor; [exact IH|].
  eapply Forall_impl; [|exact Hall]. intros b. apply Himp.
Qed.

(* ------------------------------------------------------------------ *)
(** * The matcher                                                       *)
(* ------------------------------------------------------------------ *)
Section Proofs.
Variable sim : Type.
Variables (sim_ltb sim_leb : sim -> sim -> bool) (sim_is_one : sim -> bool) (zero one : sim).
Variable leaf_sim : str -> str -> sim.
Variable combine : sim -> nat -> nat -> sim.
Variable o : mopts sim.
Variables L R : forest.

Local Notation nratio := (node_ratio sim zero one leaf_sim combine o L R).
Local Notation F := (oF sim o).

(* a pair the matcher is allowed to record *)
Definition good (l r : id) : Prop :=
  is_comment (ltag (labof L l)) = is_comment (ltag (labof R r)) /\
  (is_comment (ltag (labof L l)) = false ->
   uniq_agree (oignored sim o) (ouniq sim o) (ltag (labof L l)) (ltag (labof R r))
              (lattrs (labof L l)) (lattrs (labof R r))).

(* any other pair has similarity [zero], whatever the current matching *)
Lemma node_ratio_good l2r l r : nratio l2r l r = zero \/ good l r.
Proof.
  unfold node_ratio, good.
  destruct (is_comment (ltag (labof L l))) eqn:HL;
    destruct (is_comment (ltag (labof R r))) eqn:HR; simpl.
  - right. split; [reflexivity|discriminate].
  - left. reflexivity.
  - left. reflexivity.
  - destruct (uniq_decide_zero_or_agree sim zero one o (ltag (labof L l)) (ltag (labof R r))
                (lattrs (labof L l)) (lattrs (labof R r)) (ouniq sim o) false) as [Hz|Hag].
    + left. rewrite Hz. reflexivity.
    + right. split; [reflexivity|]. intros _. exact Hag.
Qed.

Section Loops.
Hypothesis F_pos : sim_leb F zero = false.
Hypothesis one_nz : sim_is_one zero = false.

Lemma leb_good l2r l r : sim_leb F (nratio l2r l r) = true -> good l r.
Proof.
  intros H. destruct (node_ratio_good l2r l r) as [Hz|Hg]; [|exact Hg].
  rewrite Hz, F_pos in H. discriminate.
Qed.

Lemma is_one_good l2r l r : sim_is_one (nratio l2r l r) = true -> good l r.
Proof.
  intros H. destruct (node_ratio_good l2r l r) as [Hz|Hg]; [|exact Hg].
  rewrite Hz, one_nz in H. discriminate.
Qed.

(* LS, RS: the non-root nodes of the two documents *)
Variables LS RS : list id.

(* the recorded matches are well formed *)
Definition W (ms : list (id * id)) : Prop :=
  NoDup (map fst ms) /\ NoDup (map snd ms) /\
  (forall l r, In (l, r) ms -> In l LS /\ In r RS /\ good l r).

(* pend: left nodes still to be processed; rs: right candidates *)
Definition Avail (pend rs : list id) (ms : list (id * id)) : Prop :=
  NoDup pend /\
  (forall l, In l pend -> In l LS /\ ~ In l (map fst ms)) /\
  (forall r, In r rs -> In r RS /\ ~ In r (map snd ms)).

Definition Inv (pend rs : list id) (ms : list (id * id)) : Prop := W ms /\ Avail pend rs ms.

Lemma inv_match p1 l p2 rs ms r :
  Inv (p1 ++ l :: p2) rs ms -> In r rs -> good l r ->
  Inv (p1 ++ p2) (remove_id r rs) (ms ++ [(l, r)]).
Proof.
  intros [(Hf & Hs & Hg) (Hnd & Hp & Hr)] Hin Hgood.
  assert (Hl : In l (p1 ++ l :: p2)) by (apply in_or_app; right; left; reflexivity).
  destruct (Hp l Hl) as [HlLS Hlf]. destruct (Hr r Hin) as [HrRS Hrs].
  split; [split; [|split]|split; [|split]].
  - rewrite map_app. simpl. apply NoDup_snoc; assumption.
  - rewrite map_app. simpl. apply NoDup_snoc; assumption.
  - intros l' r' H. apply in_app_or in H. destruct H as [H|[H|[]]].
    + apply Hg. exact H.
    + inversion H; subst. auto.
  - eapply NoDup_remove_1. exact Hnd.
  - intros l' Hl'.
    assert (Hne : l' <> l).
    { intros ->. exact (NoDup_remove_2 _ _ _ Hnd Hl'). }
    assert (Hl'' : In l' (p1 ++ l :: p2)).
    { apply in_app_or in Hl'. apply in_or_app. destruct Hl' as [H|H]; [left|right; right]; exact H. }
    destruct (Hp l' Hl'') as [H1 H2]. split; [exact H1|].
    rewrite map_app. simpl. intros H. apply in_app_or in H.
    destruct H as [H|[H|[]]]; [exact (H2 H)|]. apply Hne. symmetry. exact H.
  - intros r' Hr'. apply remove_id_In in Hr'. destruct Hr' as [Hr' Hne].
    destruct (Hr r' Hr') as [H1 H2]. split; [exact H1|].
    rewrite map_app. simpl. intros H. apply in_app_or in H.
    destruct H as [H|[H|[]]]; [exact (H2 H)|]. apply Hne. symmetry. exact H.
Qed.

Lemma inv_skip l rest rs ms : Inv (l :: rest) rs ms -> Inv rest rs ms.
Proof.
  intros [HW (Hnd & Hp & Hr)]. split; [exact HW|]. split; [|split].
  - inversion Hnd; assumption.
  - intros l' Hl'. apply Hp. right. exact Hl'.
  - exact Hr.
Qed.

(* ---- default strategy ---- *)
Lemma best_cand_spec l2r l rs0 : forall rs mn mx,
  incl rs rs0 ->
  (forall r, mn = Some r -> In r rs0 /\ mx = nratio l2r l r) ->
  forall r, fst (best_cand sim sim_ltb sim_is_one zero one leaf_sim combine o L R l2r l rs mn mx) = Some r ->
            In r rs0 /\
            snd (best_cand sim sim_ltb sim_is_one zero one leaf_sim combine o L R l2r l rs mn mx)
            = nratio l2r l r.
Proof.
  induction rs as [|c rest IH]; intros mn mx Hincl Hinit r; simpl.
  - exact (Hinit r).
  - assert (Hc : In c rs0) by (apply Hincl; left; reflexivity).
    assert (Hrest : incl rest rs0) by (intros x Hx; apply Hincl; right; exact Hx).
    destruct (sim_ltb mx (nratio l2r l c)) eqn:Hlt.
    + destruct (sim_is_one (nratio l2r l c)) eqn:H1; simpl.
      * intros E. inversion E; subst. auto.
      * apply IH; [exact Hrest|]. intros r' E. inversion E; subst. auto.
    + destruct (sim_is_one (nratio l2r l c)) eqn:H1; simpl.
      * exact (Hinit r).
      * apply IH; [exact Hrest|exact Hinit].
Qed.

Lemma default_loop_W : forall ls rs s,
  Inv ls rs (ms_matches s) ->
  W (ms_matches (default_loop sim sim_ltb sim_leb sim_is_one zero one leaf_sim combine o L R ls rs s)).
Proof.
  induction ls as [|l rest IH]; intros rs s HI; simpl.
  - exact (proj1 HI).
  - pose proof (best_cand_spec (ms_l2r s) l rs rs None zero (incl_refl rs)) as Hspec.
    destruct (best_cand sim sim_ltb sim_is_one zero one leaf_sim combine o L R
                        (ms_l2r s) l rs None zero) as [mn mx] eqn:Hbc.
    simpl in Hspec.
    destruct (sim_leb F mx) eqn:Hleb.
    + destruct mn as [r|].
      * destruct (Hspec ltac:(intros ? E; discriminate E) r eq_refl) as [Hin Hmx].
        apply IH. simpl.
        apply (inv_match [] l rest rs (ms_matches s) r); [exact HI|exact Hin|].
        apply (leb_good (ms_l2r s)). rewrite <- Hmx. exact Hleb.
      * apply IH. eapply inv_skip. exact HI.
    + apply IH. eapply inv_skip. exact HI.
Qed.

(* ---- best_match strategy ---- *)
Lemma perfect_cand_spec l2r l rs0 : forall rs mn mx,
  incl rs rs0 ->
  (forall r, mn = Some r -> In r rs0 /\ mx = nratio l2r l r) ->
  match perfect_cand sim sim_ltb sim_is_one zero one leaf_sim combine o L R l2r l rs mn mx with
  | inl r => In r rs0 /\ sim_is_one (nratio l2r l r) = true
  | inr (mn', mx') => forall r, mn' = Some r -> In r rs0 /\ mx' = nratio l2r l r
  end.
Proof.
  induction rs as [|c rest IH]; intros mn mx Hincl Hinit; simpl.
  - exact Hinit.
  - assert (Hc : In c rs0) by (apply Hincl; left; reflexivity).
    assert (Hrest : incl rest rs0) by (intros x Hx; apply Hincl; right; exact Hx).
    destruct (sim_is_one (nratio l2r l c)) eqn:H1.
    + split; assumption.
    + destruct (sim_ltb mx (nratio l2r l c)) eqn:Hlt.
      * apply IH; [exact Hrest|]. intros r' E. inversion E; subst. auto.
      * apply IH; [exact Hrest|exact Hinit].
Qed.

Definition unl (x : id * option id * sim) : id := fst (fst x).
Definition UnOK (un : list (id * option id * sim)) : Prop :=
  forall l r mx, In (l, Some r, mx) un -> sim_leb F mx = true -> good l r.

Lemma best_stage1_inv : forall ls rs s un rs1 s1 un1,
  Inv (map unl un ++ ls) rs (ms_matches s) -> UnOK un ->
  best_stage1 sim sim_ltb sim_is_one zero one leaf_sim combine o L R ls rs s un = (rs1, s1, un1) ->
  Inv (map unl un1) rs1 (ms_matches s1) /\ UnOK un1.
Proof.
  induction ls as [|l rest IH]; intros rs s un rs1 s1 un1 HI HU E; simpl in E.
  - inversion E; subst. rewrite app_nil_r in HI. split; assumption.
  - pose proof (perfect_cand_spec (ms_l2r s) l rs rs None zero (incl_refl rs)
                  ltac:(intros ? E'; discriminate E')) as Hspec.
    destruct (perfect_cand sim sim_ltb sim_is_one zero one leaf_sim combine o L R
                           (ms_l2r s) l rs None zero) as [r|[mn mx]] eqn:Hpc.
    + destruct Hspec as [Hin H1].
      apply (IH (remove_id r rs) (append_match s l r) un rs1 s1 un1); [|exact HU|exact E].
      simpl. exact (inv_match _ _ _ _ _ _ HI Hin (is_one_good _ _ _ H1)).
    + apply (IH rs s (un ++ [(l, mn, mx)])); [| |exact E].
      * rewrite map_app. simpl. rewrite <- app_assoc. simpl. exact HI.
      * intros l' r' mx' Hin Hleb. apply in_app_or in Hin.
        destruct Hin as [Hin|[Hin|[]]]; [exact (HU _ _ _ Hin Hleb)|].
        inversion Hin; subst.
        destruct (Hspec r' eq_refl) as [_ Hmx]. subst mx'.
        exact (leb_good _ _ _ Hleb).
Qed.

Lemma best_stage2_inv : forall un rs s ls ls' rs' s',
  Inv (ls ++ map unl un) rs (ms_matches s) -> UnOK un ->
  best_stage2 sim sim_leb o un rs s ls = (ls', rs', s') ->
  Inv ls' rs' (ms_matches s').
Proof.
  induction un as [|[[l mn] mx] rest IH]; intros rs s ls ls' rs' s' HI HU E; simpl in E.
  - inversion E; subst. rewrite app_nil_r in HI. exact HI.
  - assert (HU' : UnOK rest).
    { intros l' r' mx' Hin. apply HU. right. exact Hin. }
    assert (Hskip : Inv ((ls ++ [l]) ++ map unl rest) rs (ms_matches s)).
    { rewrite <- app_assoc. exact HI. }
    simpl in HI. unfold unl at 1 in HI. simpl in HI.
    destruct mn as [r|].
    + destruct (sim_leb F mx && mem r rs) eqn:Hc.
      * apply andb_true_iff in Hc. destruct Hc as [Hleb Hmem]. apply mem_In in Hmem.
        apply (IH (remove_id r rs) (append_match s l r) ls ls' rs' s'); [|exact HU'|exact E].
        simpl. exact (inv_match _ _ _ _ _ _ HI Hmem (HU l r mx (or_introl eq_refl) Hleb)).
      * exact (IH _ _ _ _ _ _ Hskip HU' E).
    + exact (IH _ _ _ _ _ _ Hskip HU' E).
Qed.

(* ---- fast_match strategy ---- *)
Lemma fold_append_matches (f g : Z * Z -> id) : forall ps s,
  ms_matches (fold_left (fun s p => append_match s (f p) (g p)) ps s) =
  ms_matches s ++ map (fun p => (f p, g p)) ps.
Proof.
  induction ps as [|p ps IH]; intros s; simpl.
  - rewrite app_nil_r. reflexivity.
  - rewrite IH. simpl. rewrite <- app_assoc. reflexivity.
Qed.

Lemma fast_inv (eqfn : id -> id -> bool) (ls rs : list id) (ps : list (Z * Z)) :
  NoDup ls -> NoDup rs -> incl ls LS -> incl rs RS ->
  (forall a b, eqfn a b = true -> good a b) ->
  seq_common_subseq eqfn ls rs ps ->
  Inv (drop_positions 0 (map (fun p => Z.to_nat (fst p)) ps) ls)
      (drop_positions 0 (map (fun p => Z.to_nat (snd p)) ps) rs)
      (map (fun p => (nth_id ls (fst p), nth_id rs (snd p))) ps).
Proof.
  intros Hndl Hndr Hil Hir Hgood [Hss Hmp].
  rewrite Forall_forall in Hmp.
  assert (Hl : forall p, In p ps ->
             (0 <= fst p)%Z /\ nth_error ls (Z.to_nat (fst p)) = Some (nth_id ls (fst p)) /\
             (0 <= snd p)%Z /\ nth_error rs (Z.to_nat (snd p)) = Some (nth_id rs (snd p)) /\
             good (nth_id ls (fst p)) (nth_id rs (snd p))).
  { intros p Hp. destruct (Hmp p Hp) as (H0 & H1 & a & b & Ha & Hb & Hab).
    unfold nth_id. rewrite (nth_error_nth ls (Z.to_nat (fst p)) 0 Ha), (nth_error_nth rs (Z.to_nat (snd p)) 0 Hb).
    split; [exact H0|]. split; [exact Ha|]. split; [exact H1|]. split; [exact Hb|]. apply Hgood. exact Hab. }
  assert (Hlen : forall (xs : list id) n x, nth_error xs n = Some x -> n < length xs).
  { intros xs n x H. apply nth_error_Some. rewrite H. discriminate. }
  split; [split; [|split]|split; [|split]].
  - rewrite map_map. simpl.
    apply (nth_id_NoDup ls fst ps Hndl).
    + intros p Hp. destruct (Hl p Hp) as (H0 & H1 & _). split; [exact H0|]. eapply Hlen. exact H1.
    + eapply StronglySorted_impl; [|exact Hss]. intros a b [H _]. exact H.
  - rewrite map_map. simpl.
    apply (nth_id_NoDup rs snd ps Hndr).
    + intros p Hp. destruct (Hl p Hp) as (_ & _ & H0 & H1 & _). split; [exact H0|]. eapply Hlen. exact H1.
    + eapply StronglySorted_impl; [|exact Hss]. intros a b [_ H]. exact H.
  - intros l r Hin. apply in_map_iff in Hin. destruct Hin as (p & E & Hp).
    inversion E; subst. destruct (Hl p Hp) as (_ & H1 & _ & H2 & H3).
    split; [|split; [|exact H3]].
    + apply Hil. eapply nth_error_In. exact H1.
    + apply Hir. eapply nth_error_In. exact H2.
  - apply drop_positions_NoDup. exact Hndl.
  - intros l Hin. split; [apply Hil; eapply drop_positions_incl; exact Hin|].
    destruct (drop_positions_In _ _ _ _ Hin) as (k & Hk & Hn). simpl in Hn.
    rewrite map_map. simpl. intros H. apply in_map_iff in H. destruct H as (p & E & Hp).
    destruct (Hl p Hp) as (_ & H1 & _). rewrite E in H1. rewrite <- Hk in H1.
    apply (proj1 (NoDup_nth_error ls) Hndl) in H1.
    + apply Hn. apply in_map_iff. exists p. split; [exact H1|exact Hp].
    + rewrite Hk in H1. eapply Hlen. exact H1.
  - intros r Hin. split; [apply Hir; eapply drop_positions_incl; exact Hin|].
    destruct (drop_positions_In _ _ _ _ Hin) as (k & Hk & Hn). simpl in Hn.
    rewrite map_map. simpl. intros H. apply in_map_iff in H. destruct H as (p & E & Hp).
    destruct (Hl p Hp) as (_ & _ & _ & H1 & _). rewrite E in H1. rewrite <- Hk in H1.
    apply (proj1 (NoDup_nth_error rs) Hndr) in H1.
    + apply Hn. apply in_map_iff. exists p. split; [exact H1|exact Hp].
    + rewrite Hk in H1. eapply Hlen. exact H1.
Qed.

(* ---- adding the root pair ---- *)
Lemma W_root ms rootL rootR :
  W ms -> ~ In rootL LS -> ~ In rootR RS ->
  NoDup (map fst (ms ++ [(rootL, rootR)])) /\ NoDup (map snd (ms ++ [(rootL, rootR)])) /\
  In (rootL, rootR) (ms ++ [(rootL, rootR)]) /\
  (forall l r, In (l, r) (ms ++ [(rootL, rootR)]) -> (l, r) <> (rootL, rootR) ->
               In l LS /\ In r RS /\ good l r).
Proof.
  intros (Hf & Hs & Hg) HL HR. split; [|split; [|split]].
  - rewrite map_app. simpl. apply NoDup_snoc; [exact Hf|].
    intros H. apply in_map_iff in H. destruct H as ([l r] & E & Hin). simpl in E. subst.
    apply HL. apply (Hg _ _ Hin).
  - rewrite map_app. simpl. apply NoDup_snoc; [exact Hs|].
    intros H. apply in_map_iff in H. destruct H as ([l r] & E & Hin). simpl in E. subst.
    apply HR. apply (Hg _ _ Hin).
  - apply in_or_app. right. left. reflexivity.
  - intros l r Hin Hne. apply in_app_or in Hin. destruct Hin as [Hin|[E|[]]].
    + apply Hg. exact Hin.
    + exfalso. apply Hne. symmetry. exact E.
Qed.

End Loops.

(* ------------------------------------------------------------------ *)
(** * Main theorems                                                     *)
(* ------------------------------------------------------------------ *)
Variables rootL rootR : id.
Local Notation POL := (post_order (S (fnext L)) L rootL).
Local Notation POR := (post_order (S (fnext R)) R rootR).
Local Notation matchn := (match_nodes sim sim_ltb sim_leb sim_is_one zero one leaf_sim combine o L R rootL rootR).

Theorem match_core m :
  sim_leb F zero = false -> sim_is_one zero = false ->
  NoDup POL -> NoDup POR ->
  matchn = Some m ->
  NoDup (map fst m) /\ NoDup (map snd m) /\ In (rootL, rootR) m /\
  (forall l r, In (l, r) m -> (l, r) <> (rootL, rootR) ->
     In l (remove_id rootL POL) /\ In r (remove_id rootR POR) /\ good l r).
Proof.
  intros F_pos one_nz HndL HndR Hm.
  set (LS := remove_id rootL POL) in *. set (RS := remove_id rootR POR) in *.
  assert (HLS : NoDup LS) by (apply NoDup_filter; exact HndL).
  assert (HRS : NoDup RS) by (apply NoDup_filter; exact HndR).
  assert (HrL : ~ In rootL LS) by (intros H; apply remove_id_In in H; destruct H as [_ H]; apply H; reflexivity).
  assert (HrR : ~ In rootR RS) by (intros H; apply remove_id_In in H; destruct H as [_ H]; apply H; reflexivity).
  assert (HI0 : Inv LS RS LS RS []).
  { split; [split; [constructor|split; [constructor|intros ? ? []]]|].
    split; [exact HLS|]. split; intros x Hx; (split; [exact Hx|intros []]). }
  assert (Hfin : forall ls' rs' s1, Inv LS RS ls' rs' (ms_matches s1) ->
            Some (ms_matches (append_match
               (default_loop sim sim_ltb sim_leb sim_is_one zero one leaf_sim combine o L R ls' rs' s1)
               rootL rootR)) = Some m ->
            NoDup (map fst m) /\ NoDup (map snd m) /\ In (rootL, rootR) m /\
            (forall l r, In (l, r) m -> (l, r) <> (rootL, rootR) -> In l LS /\ In r RS /\ good l r)).
  { intros ls' rs' s1 HI E. inversion E as [E']. simpl.
    apply W_root; [|exact HrL|exact HrR].
    apply default_loop_W; assumption. }
  unfold match_nodes in Hm. fold LS RS in Hm.
  destruct (ofast sim o) eqn:Hfast.
  - destruct (lcs_seq (fun x y => sim_leb F (nratio (fun _ => None) x y)) LS RS) as [ps|] eqn:Hlcs;
      [|discriminate].
    apply lcs_seq_valid in Hlcs.
    eapply Hfin; [|exact Hm].
    rewrite fold_append_matches. simpl.
    apply fast_inv with (eqfn := fun x y => sim_leb F (nratio (fun _ => None) x y));
      try assumption; try apply incl_refl.
    intros a b. apply leb_good. exact F_pos.
  - destruct (obest sim o) eqn:Hbest.
    + destruct (best_stage1 sim sim_ltb sim_is_one zero one leaf_sim combine o L R LS RS
                            (MS [] (fun _ => None)) []) as [[rs1 s1] un] eqn:H1.
      destruct (best_stage2 sim sim_leb o un rs1 s1 []) as [[ls2 rs2] s2] eqn:H2.
      destruct (best_stage1_inv F_pos one_nz LS RS LS RS (MS [] (fun _ => None)) [] rs1 s1 un
                  HI0 ltac:(intros ? ? ? []) H1)
        as [HI1 HU1].
      pose proof (best_stage2_inv LS RS un rs1 s1 [] ls2 rs2 s2 HI1 HU1 H2) as HI2.
      eapply Hfin; [exact HI2|exact Hm].
    + eapply Hfin; [|exact Hm]. exact HI0.
Qed.

(* the unique-attribute clause in the form "uniq_decide never says zero" *)
Lemma good_uniq_decide l r :
  good l r -> is_comment (ltag (labof L l)) = false ->
  forall s, uniq_decide sim zero one o (ouniq sim o) (ltag (labof L l)) (ltag (labof R r))
              (lattrs (labof L l)) (lattrs (labof R r)) false = Some s -> s = one.
Proof.
  intros [_ Hg] Hc s Hs. specialize (Hg Hc).
  destruct (uniq_decide_agree sim zero one o _ _ _ _ _ false Hg) as [H|H];
    rewrite H in Hs; [inversion Hs; reflexivity|discriminate].
Qed.

Theorem match_valid m :
  sim_leb F zero = false -> sim_is_one zero = false ->
  NoDup POL -> NoDup POR ->
  matchn = Some m ->
  NoDup (map fst m) /\ NoDup (map snd m) /\ In (rootL, rootR) m /\
  (forall l r, In (l, r) m -> In l POL /\ In r POR) /\
  (forall l r, In (l, r) m -> (l, r) <> (rootL, rootR) ->
     is_comment (ltag (labof L l)) = is_comment (ltag (labof R r))) /\
  (forall l r, In (l, r) m -> (l, r) <> (rootL, rootR) ->
     is_comment (ltag (labof L l)) = false ->
     forall s, uniq_decide sim zero one o (ouniq sim o) (ltag (labof L l)) (ltag (labof R r))
                 (lattrs (labof L l)) (lattrs (labof R r)) false = Some s -> s = one).
Proof.
  intros F_pos one_nz HndL HndR Hm.
  destruct (match_core m F_pos one_nz HndL HndR Hm) as (H1 & H2 & H3 & H4).
  split; [exact H1|]. split; [exact H2|]. split; [exact H3|]. split; [|split].
  - intros l r Hin.
    assert (Hdec : {(l, r) = (rootL, rootR)} + {(l, r) <> (rootL, rootR)}).
    { decide equality; apply Nat.eq_dec. }
    destruct Hdec as [E|Hne].
    + inversion E; subst. split; apply post_order_root.
    + destruct (H4 l r Hin Hne) as (Hl & Hr & _).
      apply remove_id_In in Hl. apply remove_id_In in Hr. tauto.
  - intros l r Hin Hne. destruct (H4 l r Hin Hne) as (_ & _ & [Hk _]). exact Hk.
  - intros l r Hin Hne Hc. destruct (H4 l r Hin Hne) as (_ & _ & Hg).
    apply good_uniq_decide; assumption.
Qed.

(* the unique-attribute clause in elementary terms *)
Theorem match_unique_attr m :
  sim_leb F zero = false -> sim_is_one zero = false ->
  NoDup POL -> NoDup POR ->
  matchn = Some m ->
  forall l r, In (l, r) m -> (l, r) <> (rootL, rootR) ->
  is_comment (ltag (labof L l)) = false ->
  let la := lattrs (labof L l) in let ra := lattrs (labof R r) in
  (forall a, In (UA a) (ouniq sim o) -> ~ In a (oignored sim o) ->
             ahas la a || ahas ra a = true -> aget la a = aget ra a) /\
  (forall t a, In (UTA t a) (ouniq sim o) ->
             ltag (labof L l) = TElem t -> ltag (labof R r) = TElem t ->
             ~ In a (oignored sim o) ->
             ahas la a || ahas ra a = true -> aget la a = aget ra a).
Proof.
  intros F_pos one_nz HndL HndR Hm l r Hin Hne Hc la ra.
  destruct (match_core m F_pos one_nz HndL HndR Hm) as (_ & _ & _ & H4).
  destruct (H4 l r Hin Hne) as (_ & _ & [_ Hg]). specialize (Hg Hc).
  split.
  - intros a Hu Hign _. exact (Hg (UA a) Hu I Hign).
  - intros t a Hu Ht1 Ht2 Hign _. exact (Hg (UTA t a) Hu (conj Ht1 Ht2) Hign).
Qed.

Theorem match_total : exists m, matchn = Some m.
Proof.
  unfold match_nodes.
  destruct (ofast sim o).
  - match goal with |- context [lcs_seq ?f ?a ?b] =>
      destruct (lcs_seq_total f a b) as [ps Hps]; rewrite Hps end.
    eexists. reflexivity.
  - destruct (obest sim o).
    + destruct (best_stage1 _ _ _ _ _ _ _ _ _ _ _ _ _ _) as [[rs1 s1] un].
      destruct (best_stage2 _ _ _ _ _ _ _) as [[ls2 rs2] s2].
      eexists. reflexivity.
    + eexists. reflexivity.
Qed.

End Proofs.
