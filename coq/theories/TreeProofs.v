(* TreeProofs.v -- the document below the root of a well-formed forest is a
   finite tree; the fuel S (fnext f) used by the fuelled traversals suffices.

   Exported, in plain words:
   - desc is transitive, stays below fnext, can be decomposed at either end,
     and is linear upwards (two ancestors of a node are comparable);
   - paths from the root are unique and duplicate free, so their length is at
     most fnext; [fin f n h] (the height below n is at most h) holds for the
     root with h = fnext ([fin_root]) and for every document node ([fin_alive]);
     there is no cycle through a node of finite height ([fin_no_cycle], [no_cycle]);
   - alive_iff : alive f root n = true <-> desc f root n;
   - rpost (reverse post-order): exactly the descendants, no duplicates,
     children strictly before their parent ([rpost_before]);
   - to_tree does not depend on the fuel once it exceeds the height;
   - bfs_spec: the breadth-first list of a well-formed forest enumerates the
     document without duplicates; the parent and the earlier siblings of a node
     come before it; doc_nodes has the same length. *)
From Coq Require Import List NArith Arith Bool Lia.
Import ListNotations.
Require Import XV.Str XV.Forest XV.Matcher XV.Differ XV.Spec XV.WF XV.ForestProofs.

(* ------------------------------------------------------------------ *)
(** * desc                                                              *)
(* ------------------------------------------------------------------ *)
Lemma desc_trans f a b c : desc f a b -> desc f b c -> desc f a c.
Proof. intros H1 H2. induction H2; [exact H1|eapply desc_step; eauto]. Qed.

Lemma desc_child f a c : In c (fkids f a) -> desc f a c.
Proof. intros H. eapply desc_step; [apply desc_refl|exact H]. Qed.

Lemma desc_lt f root a n : wf_forest f root -> a < fnext f -> desc f a n -> n < fnext f.
Proof.
  intros Hwf Ha H. induction H as [|b c Hd IH Hin]; [exact Ha|].
  eapply wf_kids_lt; eauto.
Qed.

Lemma desc_head f a n : desc f a n -> n = a \/ exists c, In c (fkids f a) /\ desc f c n.
Proof.
  induction 1 as [|b c Hd IH Hin]; [left; reflexivity|]. right.
  destruct IH as [->|(c0 & Hc0 & Hd0)].
  - exists c. split; [exact Hin|apply desc_refl].
  - exists c0. split; [exact Hc0|]. eapply desc_step; eauto.
Qed.

Lemma desc_last f a n : desc f a n -> n = a \/ exists b, desc f a b /\ In n (fkids f b).
Proof. intros H. inversion H; subst; [left; reflexivity|right; eauto]. Qed.

Lemma desc_linear f root a b x :
  wf_forest f root -> a < fnext f -> b < fnext f ->
  desc f a x -> desc f b x -> desc f a b \/ desc f b a.
Proof.
  intros Hwf Ha Hb H1. revert b Hb. induction H1 as [|y x Hd IH Hin]; intros b Hb H2.
  - right. exact H2.
  - apply desc_last in H2 as [->|(y' & Hd' & Hin')].
    + left. eapply desc_step; eauto.
    + assert (y = y').
      { apply (wf_uparent f root Hwf y y' x); try assumption.
        - eapply desc_lt; [exact Hwf|exact Ha|exact Hd].
        - eapply desc_lt; [exact Hwf|exact Hb|exact Hd']. }
      subst y'. apply IH; assumption.
Qed.

(* ------------------------------------------------------------------ *)
(** * Paths from the root                                               *)
(* ------------------------------------------------------------------ *)
Inductive pathto (f : forest) (root : id) : list id -> id -> Prop :=
| path_root : pathto f root [root] root
| path_step l b c : pathto f root l b -> In c (fkids f b) -> pathto f root (c :: l) c.

Lemma desc_path f root n : desc f root n -> exists l, pathto f root l n.
Proof.
  induction 1 as [|b c Hd [l IH] Hin]; [exists [root]; constructor|].
  exists (c :: l). econstructor; eauto.
Qed.

Lemma path_desc f root l n : pathto f root l n -> forall x, In x l -> desc f root x.
Proof.
  induction 1 as [|l b c Hp IH Hin]; intros x Hx.
  - destruct Hx as [<-|[]]. constructor.
  - destruct Hx as [<-|Hx]; [|apply IH; exact Hx].
    eapply desc_step; [|exact Hin]. apply IH. inversion Hp; left; reflexivity.
Qed.

Lemma path_head f root l n : pathto f root l n -> exists l', l = n :: l'.
Proof. inversion 1; eauto. Qed.

Lemma path_lt f root l n : wf_forest f root -> pathto f root l n -> forall x, In x l -> x < fnext f.
Proof.
  intros Hwf Hp x Hx. eapply desc_lt; [exact Hwf|apply (wf_root_lt _ _ Hwf)|].
  eapply path_desc; eauto.
Qed.

Lemma path_inv f root l n : pathto f root l n ->
  (l = [root] /\ n = root) \/ exists l0 b, l = n :: l0 /\ pathto f root l0 b /\ In n (fkids f b).
Proof. inversion 1; subst; [left; auto|right; eauto]. Qed.

Lemma path_end_lt f root l n : wf_forest f root -> pathto f root l n -> n < fnext f.
Proof.
  intros Hwf Hp. eapply path_lt; eauto. destruct (path_head _ _ _ _ Hp) as [? ->]. left; reflexivity.
Qed.

Lemma path_unique f root l l' n :
  wf_forest f root -> pathto f root l n -> pathto f root l' n -> l = l'.
Proof.
  intros Hwf H. revert l'. induction H as [|l b c Hp IH Hin]; intros l' H'.
  - apply path_inv in H' as [[-> _]|(l0 & b0 & -> & Hp0 & Hin0)]; [reflexivity|].
    exfalso. eapply (wf_root_top f root Hwf); [|exact Hin0]. eapply path_end_lt; eauto.
  - apply path_inv in H' as [[-> E]|(l0 & b0 & -> & Hp0 & Hin0)].
    + exfalso. subst c. eapply (wf_root_top f root Hwf); [|exact Hin]. eapply path_end_lt; eauto.
    + assert (b = b0).
      { apply (wf_uparent f root Hwf b b0 c); try assumption; eapply path_end_lt; eauto. }
      subst b0. f_equal. apply IH. exact Hp0.
Qed.

Lemma path_suffix f root l n : pathto f root l n ->
  forall l1 x l2, l = l1 ++ x :: l2 -> pathto f root (x :: l2) x.
Proof.
  induction 1 as [|l b c Hp IH Hin]; intros l1 x l2 E.
  - destruct l1 as [|a l1]; cbn in E; inversion E as [[E1 E2]]; subst; [constructor|].
    destruct l1; discriminate.
  - destruct l1 as [|a l1]; cbn in E; inversion E; subst.
    + econstructor; eauto.
    + eapply IH. reflexivity.
Qed.

Lemma path_nodup f root l n : wf_forest f root -> pathto f root l n -> NoDup l.
Proof.
  intros Hwf. induction 1 as [|l b c Hp IH Hin].
  - constructor; [intros []|constructor].
  - constructor; [|exact IH]. intros Hc.
    apply in_split in Hc as (l1 & l2 & ->).
    pose proof (path_suffix _ _ _ _ Hp l1 c l2 eq_refl) as Hs.
    assert (Hfull : pathto f root (c :: l1 ++ c :: l2) c) by (econstructor; eauto).
    pose proof (path_unique _ _ _ _ _ Hwf Hs Hfull) as E.
    apply (f_equal (@length _)) in E. cbn in E. rewrite app_length in E. cbn in E. lia.
Qed.

Lemma path_length f root l n : wf_forest f root -> pathto f root l n -> length l <= fnext f.
Proof.
  intros Hwf Hp. rewrite <- (seq_length (fnext f) 0).
  apply NoDup_incl_length; [eapply path_nodup; eauto|].
  intros x Hx. apply in_seq. pose proof (path_lt _ _ _ _ Hwf Hp x Hx). lia.
Qed.

(* ------------------------------------------------------------------ *)
(** * Finite height                                                     *)
(* ------------------------------------------------------------------ *)
Inductive fin (f : forest) : id -> nat -> Prop :=
| fin_intro n h : (forall c, In c (fkids f n) -> fin f c h) -> fin f n (S h).

Lemma fin_mono f n h : fin f n h -> forall h', h <= h' -> fin f n h'.
Proof.
  induction 1 as [n h Hk IH]; intros h' Hle. destruct h' as [|h']; [lia|].
  constructor. intros c Hc. apply IH; [exact Hc|lia].
Qed.

Lemma fin_kid f n h c : fin f n (S h) -> In c (fkids f n) -> fin f c h.
Proof. inversion 1; subst; auto. Qed.

Lemma fin_of_path f root : wf_forest f root ->
  forall h l n, pathto f root l n -> fnext f < length l + h -> fin f n h.
Proof.
  intros Hwf. induction h as [|h IH]; intros l n Hp Hlen.
  - pose proof (path_length _ _ _ _ Hwf Hp). lia.
  - constructor. intros c Hc. apply (IH (c :: l)); [econstructor; eauto|cbn; lia].
Qed.

Lemma fin_root f root : wf_forest f root -> fin f root (fnext f).
Proof. intros Hwf. apply (fin_of_path f root Hwf _ [root]); [constructor|cbn; lia]. Qed.

Lemma fin_desc f a h n : fin f a h -> desc f a n -> fin f n h.
Proof.
  intros Hf Hd. induction Hd as [|b c Hd IH Hin]; [exact Hf|].
  destruct h as [|h]; [inversion IH|]. eapply fin_mono; [eapply fin_kid; eauto|lia].
Qed.

Lemma fin_alive f root n : wf_forest f root -> desc f root n -> fin f n (fnext f).
Proof. intros Hwf Hd. eapply fin_desc; [apply fin_root; exact Hwf|exact Hd]. Qed.

Lemma fin_no_cycle f n h c : fin f n h -> In c (fkids f n) -> desc f c n -> False.
Proof.
  intros Hf Hc Hd.
  assert (Hdown : forall h', fin f n (S h') -> fin f n h').
  { intros h' H'. eapply fin_desc; [eapply fin_kid; eauto|exact Hd]. }
  clear Hc Hd. induction h as [|h IH]; [inversion Hf|]. apply IH. apply Hdown. exact Hf.
Qed.

Lemma no_cycle f root b c : wf_forest f root -> desc f root b -> In c (fkids f b) -> desc f c b -> False.
Proof. intros Hwf Hb. eapply fin_no_cycle. eapply fin_alive; eauto. Qed.

(* ------------------------------------------------------------------ *)
(** * subtree / alive                                                   *)
(* ------------------------------------------------------------------ *)
Lemma subtree_complete k : forall f a n, fin f a k -> desc f a n -> In n (subtree k f a).
Proof.
  induction k as [|k IH]; intros f a n Hf Hd; [inversion Hf|].
  cbn [subtree]. apply desc_head in Hd as [->|(c & Hc & Hd)]; [left; reflexivity|].
  right. apply in_flat_map. exists c. split; [exact Hc|].
  apply IH; [eapply fin_kid; eauto|exact Hd].
Qed.

Lemma alive_iff f root n : wf_forest f root -> (alive f root n = true <-> desc f root n).
Proof.
  intros Hwf. split; [apply alive_desc|]. intros Hd. unfold alive, doc_nodes. apply mem_In.
  apply subtree_complete; [|exact Hd]. eapply fin_mono; [apply fin_root; exact Hwf|lia].
Qed.

Lemma doc_nodes_iff f root n : wf_forest f root -> (In n (doc_nodes f root) <-> desc f root n).
Proof. intros Hwf. rewrite <- (alive_iff f root n Hwf). unfold alive. symmetry. apply mem_In. Qed.

Lemma subtree_not_in f n t k : ~ desc f n t -> mem t (subtree k f n) = false.
Proof. intros H. apply mem_false. intros Hin. apply H. eapply subtree_desc; eauto. Qed.

(* ------------------------------------------------------------------ *)
(** * rpost                                                             *)
(* ------------------------------------------------------------------ *)
Lemma rpost_desc k : forall f a n, In n (rpost k f a) -> desc f a n.
Proof.
  induction k as [|k IH]; intros f a n H; cbn [rpost] in H; [contradiction|].
  apply in_app_or in H as [H|[<-|[]]]; [|constructor].
  apply in_flat_map in H as (c & Hc & Hn). apply in_rev in Hc.
  eapply desc_trans; [apply desc_child; exact Hc|apply IH; exact Hn].
Qed.

Lemma rpost_complete k : forall f a n, fin f a k -> desc f a n -> In n (rpost k f a).
Proof.
  induction k as [|k IH]; intros f a n Hf Hd; [inversion Hf|].
  cbn [rpost]. apply in_or_app. apply desc_head in Hd as [->|(c & Hc & Hd)]; [right; left; reflexivity|].
  left. apply in_flat_map. exists c. split; [apply -> in_rev; exact Hc|].
  apply IH; [eapply fin_kid; eauto|exact Hd].
Qed.

Lemma NoDup_flat_map_intro {A B} (g : A -> list B) (l : list A) :
  NoDup l -> (forall x, In x l -> NoDup (g x)) ->
  (forall x y b, In x l -> In y l -> x <> y -> In b (g x) -> In b (g y) -> False) ->
  NoDup (flat_map g l).
Proof.
  induction 1 as [|a l Hn Hnd IH]; intros H1 H2; cbn; [constructor|].
  apply NoDup_app_iff. split; [apply H1; left; reflexivity|]. split.
  - apply IH; [intros x Hx; apply H1; right; exact Hx|].
    intros x y b Hx Hy. apply H2; right; assumption.
  - intros b Hb Hb2. apply in_flat_map in Hb2 as (y & Hy & Hby).
    eapply (H2 a y b); try eassumption; [left; reflexivity|right; exact Hy|].
    intros ->. contradiction.
Qed.

Lemma kids_disjoint f root a c1 c2 x h :
  wf_forest f root -> a < fnext f -> fin f a h ->
  In c1 (fkids f a) -> In c2 (fkids f a) -> c1 <> c2 ->
  desc f c1 x -> desc f c2 x -> False.
Proof.
  intros Hwf Ha Hf H1 H2 Hne D1 D2.
  assert (L1 : c1 < fnext f) by (apply (wf_kids_lt f root Hwf a); assumption).
  assert (L2 : c2 < fnext f) by (apply (wf_kids_lt f root Hwf a); assumption).
  assert (Haux : forall u v, In u (fkids f a) -> In v (fkids f a) -> u <> v -> u < fnext f -> desc f u v -> False).
  { intros u v Hu Hv Huv Lu D. apply desc_last in D as [->|(b & Db & Hb)]; [congruence|].
    assert (b = a).
    { apply (wf_uparent f root Hwf b a v); try assumption.
      eapply desc_lt; [exact Hwf|exact Lu|exact Db]. }
    subst b. eapply (fin_no_cycle f a h u); eauto. }
  destruct (desc_linear f root c1 c2 x Hwf L1 L2 D1 D2) as [D|D].
  - eapply (Haux c1 c2); eauto.
  - eapply (Haux c2 c1); eauto.
Qed.

Lemma rpost_NoDup f root k : wf_forest f root -> forall a, a < fnext f -> fin f a k -> NoDup (rpost k f a).
Proof.
  intros Hwf. induction k as [|k IH]; intros a Ha Hf; cbn [rpost]; [constructor|].
  apply NoDup_app_iff. split; [|split].
  - apply NoDup_flat_map_intro.
    + apply NoDup_rev. apply (wf_kids_nodup f root Hwf a Ha).
    + intros c Hc. apply in_rev in Hc.
      apply IH; [apply (wf_kids_lt f root Hwf a c Ha Hc)|apply (fin_kid f a k c Hf Hc)].
    + intros c1 c2 x H1 H2 Hne X1 X2. apply in_rev in H1, H2.
      apply rpost_desc in X1, X2.
      apply (kids_disjoint f root a c1 c2 x (S k) Hwf Ha Hf H1 H2 Hne X1 X2).
  - constructor; [intros []|constructor].
  - intros x Hx [<-|[]]. apply in_flat_map in Hx as (c & Hc & Hx). apply in_rev in Hc.
    apply rpost_desc in Hx. apply (fin_no_cycle f a (S k) c Hf Hc Hx).
Qed.

Definition before {A} (l : list A) (c n : A) : Prop := exists l1 l2, l = l1 ++ n :: l2 /\ In c l1.

Lemma before_app {A} (p l q : list A) c n : before l c n -> before (p ++ l ++ q) c n.
Proof.
  intros (l1 & l2 & -> & Hc). exists (p ++ l1), (l2 ++ q). split.
  - rewrite <- !app_assoc. reflexivity.
  - apply in_or_app. right; exact Hc.
Qed.

Lemma rpost_self k f a : In a (rpost (S k) f a).
Proof. cbn [rpost]. apply in_or_app. right; left; reflexivity. Qed.

Lemma rpost_S k f a : rpost (S k) f a = flat_map (rpost k f) (rev (fkids f a)) ++ [a].
Proof. reflexivity. Qed.

Lemma rpost_before k : forall f a n c, fin f a k ->
  In n (rpost k f a) -> In c (fkids f n) -> before (rpost k f a) c n.
Proof.
  induction k as [|k IH]; intros f a n c Hf Hn Hc; [inversion Hf|].
  rewrite rpost_S in Hn |- *. apply in_app_or in Hn as [Hn|[<-|[]]].
  - apply in_flat_map in Hn as (k0 & Hk0 & Hn).
    pose proof Hk0 as Hk0'. apply in_split in Hk0 as (u1 & u2 & E). rewrite E. rewrite flat_map_app. cbn [flat_map].
    rewrite <- app_assoc. rewrite <- app_assoc. apply before_app.
    apply IH; [|exact Hn|exact Hc]. eapply fin_kid; [exact Hf|].
    apply in_rev. exact Hk0'.
  - exists (flat_map (rpost k f) (rev (fkids f a))), []. split; [reflexivity|].
    apply in_flat_map. exists c. split; [apply -> in_rev; exact Hc|].
    pose proof (fin_kid _ _ _ _ Hf Hc) as Hfc. destruct k as [|k]; [inversion Hfc|]. apply rpost_self.
Qed.

(* with NoDup, "before" determines every split *)
Lemma before_split {A} (l l1 l2 : list A) c n :
  NoDup l -> before l c n -> l = l1 ++ n :: l2 -> In c l1.
Proof.
  intros Hnd (m1 & m2 & E & Hc) E'. subst l.
  apply NoDup_split_unique in E' as [-> _]; [exact Hc|exact Hnd].
Qed.

(* ------------------------------------------------------------------ *)
(** * to_tree                                                           *)
(* ------------------------------------------------------------------ *)
Lemma to_tree_fuel k : forall f a k', fin f a k -> k <= k' -> to_tree k' f a = to_tree k f a.
Proof.
  induction k as [|k IH]; intros f a k' Hf Hle; [inversion Hf|].
  destruct k' as [|k']; [lia|]. cbn [to_tree]. f_equal.
  apply map_ext_in. intros c Hc. apply IH; [eapply fin_kid; eauto|lia].
Qed.

(* ------------------------------------------------------------------ *)
(** * bfs                                                               *)
(* ------------------------------------------------------------------ *)
Definition split_ok (R : forest) (rootR : id) (B : list id) : Prop :=
  forall P y rest, B = P ++ y :: rest ->
    (y = rootR /\ P = []) \/
    (exists x s1 s2, In x P /\ fkids R x = s1 ++ y :: s2 /\ incl s1 P).

Definition bfs_ok (R : forest) (rootR : id) (B : list id) : Prop :=
  NoDup B /\ (forall x, In x B <-> desc R rootR x) /\ split_ok R rootR B.

Lemma snoc_case {A} (l : list A) : l = [] \/ exists l' a, l = l' ++ [a].
Proof.
  destruct l as [|x l]; [left; reflexivity|right].
  destruct (@exists_last _ (x :: l)) as (l' & a & E); [discriminate|]. eauto.
Qed.

Lemma app_snoc_split {A} (V P rest : list A) n y :
  V ++ [n] = P ++ y :: rest ->
  (rest = [] /\ P = V /\ y = n) \/ exists rest', rest = rest' ++ [n] /\ V = P ++ y :: rest'.
Proof.
  intros E. destruct (snoc_case rest) as [->|(r' & z & ->)].
  - left. apply app_inj_tail in E as [E1 E2]. auto.
  - right. replace (P ++ y :: r' ++ [z]) with ((P ++ y :: r') ++ [z]) in E
      by (rewrite <- app_assoc; reflexivity).
    apply app_inj_tail in E as [E1 E2]. subst. eauto.
Qed.

Section BFS.
Variable R : forest.
Variable rootR : id.
Hypothesis Hwf : wf_forest R rootR.

Lemma bfs_gen : forall fuel V Q,
  V ++ Q = rootR :: flat_map (fkids R) V ->
  NoDup (V ++ Q) ->
  (forall x, In x (V ++ Q) -> desc R rootR x) ->
  fnext R < fuel + length V ->
  split_ok R rootR V ->
  let B := V ++ bfs R fuel Q in
  B = rootR :: flat_map (fkids R) B /\ NoDup B /\ (forall x, In x B -> desc R rootR x) /\ split_ok R rootR B.
Proof.
  induction fuel as [|fuel IH]; intros V Q I1 I2 I3 I5 I4.
  - exfalso. assert (length V <= fnext R); [|lia].
    rewrite <- (seq_length (fnext R) 0). apply NoDup_incl_length.
    + apply NoDup_app_iff in I2. tauto.
    + intros x Hx. apply in_seq. assert (x < fnext R); [|lia].
      eapply desc_lt; [exact Hwf|apply (wf_root_lt _ _ Hwf)|]. apply I3. apply in_or_app; left; exact Hx.
  - destruct Q as [|n q]; cbn [bfs].
    + rewrite app_nil_r in *. auto.
    + cbn zeta. replace (V ++ n :: bfs R fuel (q ++ kidsof R n)) with ((V ++ [n]) ++ bfs R fuel (q ++ kidsof R n))
        by (rewrite <- app_assoc; reflexivity).
      assert (Hn : desc R rootR n) by (apply I3; apply in_or_app; right; left; reflexivity).
      assert (Hnlt : n < fnext R) by (eapply desc_lt; [exact Hwf|apply (wf_root_lt _ _ Hwf)|exact Hn]).
      apply IH.
      * rewrite flat_map_app. cbn [flat_map]. rewrite app_nil_r.
        rewrite app_comm_cons. rewrite <- I1. unfold kidsof.
        rewrite <- !app_assoc. reflexivity.
      * rewrite <- app_assoc. cbn [app]. change (n :: q ++ kidsof R n) with ((n :: q) ++ kidsof R n).
        rewrite app_assoc. apply NoDup_app_iff. split; [exact I2|]. split.
        { eapply wf_kids_nodup; eauto. }
        intros c Hc1 Hc2. unfold kidsof in Hc2. rewrite I1 in Hc1. destruct Hc1 as [<-|Hc1].
        { eapply (wf_root_top R rootR Hwf); eauto. }
        apply in_flat_map in Hc1 as (p & Hp & Hcp).
        assert (p = n).
        { eapply (wf_uparent R rootR Hwf); eauto.
          eapply desc_lt; [exact Hwf|apply (wf_root_lt _ _ Hwf)|]. apply I3. apply in_or_app; left; exact Hp. }
        subst p. apply NoDup_remove_2 in I2. apply I2. apply in_or_app. left; exact Hp.
      * intros x Hx. rewrite <- app_assoc in Hx. cbn [app] in Hx.
        change (n :: q ++ kidsof R n) with ((n :: q) ++ kidsof R n) in Hx. rewrite app_assoc in Hx.
        apply in_app_or in Hx as [Hx|Hx]; [apply I3; exact Hx|].
        eapply desc_step; [exact Hn|exact Hx].
      * rewrite app_length. cbn. lia.
      * intros P y rest E. apply app_snoc_split in E as [(-> & -> & ->)|(rest' & -> & E)]; [|eapply I4; eauto].
        destruct V as [|v0 V'].
        { left. cbn in I1. inversion I1. auto. }
        right. pose proof (f_equal (@tl _) I1) as E1. cbn [app tl] in E1.
        pose proof (f_equal (@hd _ 0) I1) as E0. cbn [app hd] in E0. subst v0.
        assert (Hin : In n (flat_map (fkids R) (rootR :: V'))).
        { rewrite <- E1. apply in_or_app. right; left; reflexivity. }
        apply in_flat_map in Hin as (x & Hx & Hnx).
        apply in_split in Hx as (V1 & V2 & EV). apply in_split in Hnx as (s1 & s2 & Es).
        exists x, s1, s2. split; [rewrite EV; apply in_or_app; right; left; reflexivity|].
        split; [exact Es|].
        assert (Hnd : NoDup (flat_map (fkids R) (rootR :: V'))).
        { rewrite <- E1. cbn [app] in I2. inversion I2; assumption. }
        rewrite EV in E1, Hnd. rewrite flat_map_app in E1, Hnd. cbn [flat_map] in E1, Hnd.
        rewrite Es in E1, Hnd.
        replace (flat_map (fkids R) V1 ++ (s1 ++ n :: s2) ++ flat_map (fkids R) V2)
          with ((flat_map (fkids R) V1 ++ s1) ++ n :: (s2 ++ flat_map (fkids R) V2)) in E1, Hnd
          by (rewrite <- !app_assoc; reflexivity).
        symmetry in E1. apply NoDup_split_unique in E1 as [E2 _]; [|exact Hnd].
        intros z Hz. right. rewrite <- E2. apply in_or_app. right; exact Hz.
Qed.

Lemma bfs_spec : bfs_ok R rootR (bfs R (S (fnext R)) [rootR]).
Proof.
  pose proof (bfs_gen (S (fnext R)) [] [rootR]) as H. cbn [app] in H.
  destruct H as (C1 & C2 & C3 & C4).
  - reflexivity.
  - constructor; [intros []|constructor].
  - intros x [<-|[]]. constructor.
  - cbn. lia.
  - intros P y rest E. destruct P; discriminate.
  - split; [exact C2|]. split; [|exact C4].
    intros x. split; [apply C3|]. intros Hd.
    induction Hd as [|b c Hd IH Hin].
    + rewrite C1. left; reflexivity.
    + rewrite C1. right. apply in_flat_map. exists b. split; assumption.
Qed.

Lemma bfs_length : length (bfs R (S (fnext R)) [rootR]) <= length (doc_nodes R rootR).
Proof.
  destruct bfs_spec as (H1 & H2 & _). apply NoDup_incl_length; [exact H1|].
  intros x Hx. apply doc_nodes_iff; [exact Hwf|]. apply H2. exact Hx.
Qed.
End BFS.

(* ------------------------------------------------------------------ *)
(** * Reachability under the operations                                 *)
(* ------------------------------------------------------------------ *)
Lemma desc_incl f f' a n :
  (forall b c, desc f a b -> In c (fkids f b) -> In c (fkids f' b)) -> desc f a n -> desc f' a n.
Proof.
  intros H Hd. induction Hd as [|b c Hd IH Hin]; [constructor|].
  eapply desc_step; [exact IH|]. apply H; assumption.
Qed.

Lemma desc_ext f f' a n : (forall p, fkids f p = fkids f' p) -> desc f a n -> desc f' a n.
Proof. intros H. apply desc_incl. intros b c _ Hc. rewrite <- H. exact Hc. Qed.

Lemma desc_set_lab f m l a n : desc (set_lab f m l) a n <-> desc f a n.
Proof. split; apply desc_ext; intros p; reflexivity. Qed.

Lemma desc_ins f root l t pos a n :
  wf_forest f root -> t < fnext f -> a < fnext f -> desc f a n -> desc (ins_f f l t pos) a n.
Proof.
  intros Hwf Ht Ha. apply desc_incl. intros b c Hb Hc.
  apply fkids_ins_In; [exact Ht|eapply desc_lt; eauto|right; exact Hc].
Qed.

Lemma desc_ins_new f root l t pos a :
  wf_forest f root -> t < fnext f -> a < fnext f -> desc f a t -> desc (ins_f f l t pos) a (fnext f).
Proof.
  intros Hwf Ht Ha Hd. eapply desc_step; [eapply desc_ins; eauto|].
  apply fkids_ins_In; [exact Ht|exact Ht|left; auto].
Qed.

Lemma desc_ins_inv f root l t pos n :
  wf_forest f root -> t < fnext f -> desc (ins_f f l t pos) root n -> n = fnext f \/ desc f root n.
Proof.
  intros Hwf Ht Hd. induction Hd as [|b c Hd IH Hin]; [right; constructor|].
  destruct IH as [->|IH].
  - rewrite fkids_ins_new in Hin by exact Ht. contradiction.
  - assert (Hb : b < fnext f) by (eapply desc_lt; [exact Hwf|apply (wf_root_lt _ _ Hwf)|exact IH]).
    apply fkids_ins_In in Hin; [|exact Ht|exact Hb].
    destruct Hin as [[-> _]|Hin]; [left; reflexivity|right]. eapply desc_step; eauto.
Qed.

Lemma desc_move_avoid f root c t pos a n :
  wf_forest f root -> t < fnext f -> a < fnext f ->
  desc f a n -> ~ desc f c n -> desc (move_f f c t pos) a n.
Proof.
  intros Hwf Ht Ha Hd. induction Hd as [|b x Hd IH Hin]; intros Hn; [constructor|].
  assert (Hb : b < fnext f) by (eapply desc_lt; eauto).
  eapply desc_step.
  - apply IH. intros Hcb. apply Hn. eapply desc_step; eauto.
  - apply (fkids_move_In f root); try assumption. right. split; [exact Hin|].
    intros ->. apply Hn. constructor.
Qed.

Lemma alive_move f root c t pos n :
  wf_forest f root -> desc f root t -> ~ desc f c t ->
  desc f root n -> desc (move_f f c t pos) root n.
Proof.
  intros Hwf Ht Hct Hd.
  assert (Hr : root < fnext f) by apply (wf_root_lt _ _ Hwf).
  assert (Htl : t < fnext f) by (eapply desc_lt; [exact Hwf|exact Hr|exact Ht]).
  assert (Ht' : desc (move_f f c t pos) root t) by (eapply desc_move_avoid; eauto).
  induction Hd as [|b x Hd IH Hin]; [constructor|].
  assert (Hb : b < fnext f) by (eapply desc_lt; [exact Hwf|exact Hr|exact Hd]).
  destruct (Nat.eq_dec x c) as [->|Hne].
  - eapply desc_step; [exact Ht'|]. apply (fkids_move_In f root); try assumption. left; auto.
  - eapply desc_step; [exact IH|]. apply (fkids_move_In f root); try assumption. right; auto.
Qed.

Lemma desc_move_inv f root c t pos n :
  wf_forest f root -> desc f root t -> desc f root c ->
  desc (move_f f c t pos) root n -> desc f root n.
Proof.
  intros Hwf Ht Hc Hd.
  assert (Hr : root < fnext f) by apply (wf_root_lt _ _ Hwf).
  assert (Htl : t < fnext f) by (eapply desc_lt; [exact Hwf|exact Hr|exact Ht]).
  induction Hd as [|b x Hd IH Hin]; [constructor|].
  assert (Hb : b < fnext f) by (eapply desc_lt; [exact Hwf|exact Hr|exact IH]).
  apply (fkids_move_In f root) in Hin; try assumption.
  destruct Hin as [[-> _]|[Hin _]]; [exact Hc|]. eapply desc_step; eauto.
Qed.

Lemma desc_detach_inv f root c a n :
  wf_forest f root -> a < fnext f -> desc (detach f c) a n -> desc f a n.
Proof.
  intros Hwf Ha Hd. induction Hd as [|b x Hd IH Hin]; [constructor|].
  assert (Hb : b < fnext f) by (eapply desc_lt; [exact Hwf|exact Ha|exact IH]).
  rewrite (fkids_detach f root) in Hin by assumption. apply remove_id_In in Hin as [Hin _].
  eapply desc_step; eauto.
Qed.
