(* DifferSound.v -- the breadth-first phase, the delete phase and the final
   theorems about Differ.diff (given a valid matching).

   Exported, in plain words:
   - label transitions (upd_tag, upd_attr, upd_text) preserve Inv, are applicable
     and effective, and establish equality of the node's label with its partner's;
   - [finish_ok], [visit_ok]: one iteration of the main loop preserves the
     invariant, is a [Step], emits at most 1 insert, 1 + #children moves, 1 rename,
     1 text, 1 tail update and |attrs left| + |attrs right| attribute actions, and
     only touches the visited pair;
   - [bfs_fold_ok], [bfs_fold_counts]: the whole loop;
   - [delete_phase_K]: the delete phase removes exactly the unmatched nodes, each
     as a childless non-root node of the document (applicable and effective);
   - [final_equiv]: what remains is the right document;
   - [gen_script_core] (generic in chk: run_spec / run_checked, given that align
     is a Step chk), [gen_script_counts_core];
   - gen_script_replay  : serr = false, run_spec rootL L (out s) = Some (W s)
                          (Leibniz), doc_equiv                     (C01, C04, C05)
   - gen_script_sound   : the same in the requested form (forest_ext_eq).
   The section variable [Orig] of Inv is instantiated with [desc L rootL]. *)
From Coq Require Import List NArith ZArith Arith Bool Lia.
Import ListNotations.
Require Import XV.Str XV.Forest XV.LCS XV.LCSProofs XV.Matcher XV.Differ XV.Spec XV.WF XV.ForestProofs XV.TreeProofs.
Require Import XV.AttrProofs XV.DifferFrame XV.DifferInv XV.DifferAlign XV.DifferCounters.

Lemma tag_eqb_true a b : tag_eqb a b = true -> a = b.
Proof.
  destruct a, b; cbn; intros H; try discriminate; [|reflexivity].
  apply streqb_true in H. congruence.
Qed.

Lemma ostr_eqb_true a b : ostr_eqb a b = true -> a = b.
Proof.
  destruct a, b; cbn; intros H; try discriminate; [|reflexivity].
  apply streqb_true in H. congruence.
Qed.

Lemma Step_true_any chk root s s' : Step true root s s' -> Step chk root s s'.
Proof. destruct chk; [auto|apply Step_weaken]. Qed.

Lemma wf_relabel f f' root n :
  wf_forest f root -> fkids f' = fkids f -> fnext f' = fnext f ->
  (forall m, m <> n -> flab f' m = flab f m) ->
  is_comment (ltag (flab f' n)) = is_comment (ltag (flab f n)) ->
  (n = root -> ltail (flab f' n) = None) ->
  (is_comment (ltag (flab f' n)) = true -> lattrs (flab f' n) = []) ->
  NoDup (map fst (lattrs (flab f' n))) ->
  wf_forest f' root.
Proof.
  intros Hwf Ek En Hl Hc Ht Ha Hnd. destruct Hwf as [W1 W2 W3 W4 W5 W6 WT W7 W8].
  constructor; rewrite ?Ek, ?En; try assumption.
  - destruct (Nat.eq_dec root n) as [->|Hne]; [rewrite Hc; exact W6|rewrite Hl by exact Hne; exact W6].
  - destruct (Nat.eq_dec root n) as [->|Hne]; [apply Ht; reflexivity|rewrite Hl by exact Hne; exact WT].
  - intros m Hm Hcm. destruct (Nat.eq_dec m n) as [->|Hne].
    + split; [|apply Ha; exact Hcm]. rewrite Hc in Hcm. apply (W7 n Hm Hcm).
    + rewrite Hl in Hcm |- * by exact Hne. apply W7; assumption.
  - intros m Hm. destruct (Nat.eq_dec m n) as [->|Hne]; [exact Hnd|].
    rewrite Hl by exact Hne. apply W8. exact Hm.
Qed.

Section Sound.
Variable ign : list str.
Variable R : forest.
Variables rootL rootR : id.
Hypothesis HwfR : wf_forest R rootR.
Variable Orig : id -> Prop.
Notation Inv := (Inv R rootL rootR Orig).

(* the label of a visited left node and of its partner *)
Definition lab_ok (lw lr : label) : Prop :=
  ltag lw = ltag lr /\
  sort_attrs (node_attribs_d ign (lattrs lw)) = sort_attrs (node_attribs_d ign (lattrs lr)) /\
  ltext lw = ltext lr /\ ltail lw = ltail lr.

Lemma Inv_lab Pp Pa Pm s s' n :
  Inv Pp Pa Pm s -> l2r s' = l2r s -> r2l s' = r2l s -> inoL s' = inoL s -> inoR s' = inoR s ->
  fkids (W s') = fkids (W s) -> fnext (W s') = fnext (W s) ->
  (forall m, m <> n -> flab (W s') m = flab (W s) m) ->
  is_comment (ltag (flab (W s') n)) = is_comment (ltag (flab (W s) n)) ->
  (n = rootL -> ltail (flab (W s') n) = None) ->
  (is_comment (ltag (flab (W s') n)) = true -> lattrs (flab (W s') n) = []) ->
  NoDup (map fst (lattrs (flab (W s') n))) ->
  Inv Pp Pa Pm s'.
Proof.
  intros HI E1 E2 E3 E4 Ek En Hl Hc Ht Ha Hnd.
  apply (Inv_shape R rootL rootR Orig Pp Pa Pm s s'); try assumption.
  - eapply wf_relabel; eauto. apply (I_wf _ _ _ _ _ _ _ _ HI).
  - intros l r _. destruct (Nat.eq_dec l n) as [->|Hne]; [exact Hc|rewrite Hl by exact Hne; reflexivity].
Qed.

(* one relabelling action *)
Lemma relabel_step Pp Pa Pm s ln r a lab' :
  Inv Pp Pa Pm s -> l2r s ln = Some r ->
  is_comment (ltag lab') = is_comment (ltag (flab (W s) ln)) ->
  (ln = rootL -> ltail lab' = None) ->
  (is_comment (ltag lab') = true -> lattrs lab' = []) ->
  NoDup (map fst (lattrs lab')) ->
  spec_apply rootL (W s) a = Some (set_lab (W s) ln lab') ->
  is_ns_action a = false -> label_eqb (flab (W s) ln) lab' = false ->
  let s' := withW (emit s a) (set_lab (W s) ln lab') in
  Inv Pp Pa Pm s' /\ Step true rootL s s'.
Proof.
  intros HI Hl Hc Ht Ha Hnd Hsp Hns Hne s'. split.
  - apply (Inv_lab Pp Pa Pm s s' ln); try reflexivity; try assumption.
    + intros m Hm. cbn. apply upd_other. exact Hm.
    + cbn. rewrite upd_same. exact Hc.
    + cbn. rewrite upd_same. exact Ht.
    + cbn. rewrite upd_same. exact Ha.
    + cbn. rewrite upd_same. exact Hnd.
  - apply (Step_one true rootL s s' a); try reflexivity; [exact Hsp|].
    rewrite Hns. cbn [orb]. apply negb_true_iff.
    apply (same_doc_lab rootL (W s) (W s') ln).
    + apply (I_wf _ _ _ _ _ _ _ _ HI).
    + eapply I_aliveL; eauto.
    + cbn. rewrite upd_same. exact Hne.
Qed.

Lemma upd_tag_ok Pp Pa Pm s ln y :
  Inv Pp Pa Pm s -> r2l s y = Some ln ->
  let s' := upd_tag R s ln y in
  Inv Pp Pa Pm s' /\ Step true rootL s s' /\
  l2r s' = l2r s /\ r2l s' = r2l s /\ fnext (W s') = fnext (W s) /\ fkids (W s') = fkids (W s) /\
  (forall m, m <> ln -> flab (W s') m = flab (W s) m) /\
  ltag (flab (W s') ln) = ltag (flab R y) /\
  lattrs (flab (W s') ln) = lattrs (flab (W s) ln) /\
  ltext (flab (W s') ln) = ltext (flab (W s) ln) /\
  ltail (flab (W s') ln) = ltail (flab (W s) ln).
Proof.
  intros HI Hln s'. assert (Hl : l2r s ln = Some y) by (apply (I_bij _ _ _ _ _ _ _ _ HI); exact Hln).
  pose proof (I_wf _ _ _ _ _ _ _ _ HI) as Hwf.
  pose proof (I_cmt _ _ _ _ _ _ _ _ HI ln y Hl) as Hcm.
  assert (Hlnlt : ln < fnext (W s)) by (eapply Inv_lt_l; eauto).
  unfold s', upd_tag, labof. destruct (tag_eqb (ltag (flab (W s) ln)) (ltag (flab R y))) eqn:Et.
  - apply tag_eqb_true in Et. split; [exact HI|]. split; [apply Step_refl|]. repeat split; auto.
  - destruct (ltag (flab R y)) as [t|] eqn:Er.
    + cbn in Hcm.
      set (lab' := Lab (TElem t) (lattrs (flab (W s) ln)) (ltext (flab (W s) ln)) (ltail (flab (W s) ln))).
      destruct (relabel_step Pp Pa Pm s ln y (IRename ln t) lab' HI Hl) as [H1 H2].
      * cbn. symmetry. exact Hcm.
      * intros ->. cbn. apply (wf_root_tail _ _ Hwf).
      * cbn. discriminate.
      * cbn. apply (wf_attrs _ _ Hwf). exact Hlnlt.
      * cbn [spec_apply]. rewrite (proj2 (alive_iff _ _ ln Hwf)) by (eapply I_aliveL; eauto).
        unfold is_elem, labof. rewrite Hcm. reflexivity.
      * reflexivity.
      * unfold label_eqb. cbn [ltag lab']. rewrite Et. reflexivity.
      * split; [exact H1|]. split; [exact H2|]. cbn. rewrite upd_same.
        repeat split; auto. intros m Hm. apply upd_other. exact Hm.
    + exfalso. cbn in Hcm. destruct (ltag (flab (W s) ln)); cbn in *; discriminate.
Qed.

Lemma wf_comment_attrs_R y : y < fnext R -> is_comment (ltag (flab R y)) = true -> lattrs (flab R y) = [].
Proof. intros Hy Hc. apply (wf_comment R rootR HwfR y Hy Hc). Qed.

Lemma upd_attr_ok Pp Pa Pm s ln y :
  Inv Pp Pa Pm s -> r2l s y = Some ln ->
  let s' := upd_attr ign R s ln y in
  Inv Pp Pa Pm s' /\ Step true rootL s s' /\
  l2r s' = l2r s /\ r2l s' = r2l s /\ inoR s' = inoR s /\
  fnext (W s') = fnext (W s) /\ fkids (W s') = fkids (W s) /\
  (forall m, m <> ln -> flab (W s') m = flab (W s) m) /\
  ltag (flab (W s') ln) = ltag (flab (W s) ln) /\
  ltext (flab (W s') ln) = ltext (flab (W s) ln) /\
  ltail (flab (W s') ln) = ltail (flab (W s) ln) /\
  sort_attrs (node_attribs_d ign (lattrs (flab (W s') ln)))
  = sort_attrs (node_attribs_d ign (lattrs (flab R y))).
Proof.
  intros HI Hln s'. assert (Hl : l2r s ln = Some y) by (apply (I_bij _ _ _ _ _ _ _ _ HI); exact Hln).
  pose proof (I_wf _ _ _ _ _ _ _ _ HI) as Hwf.
  pose proof (I_cmt _ _ _ _ _ _ _ _ HI ln y Hl) as Hcm.
  assert (Hlnlt : ln < fnext (W s)) by (eapply Inv_lt_l; eauto).
  assert (Hylt : y < fnext R) by (eapply Inv_lt_r; eauto).
  assert (NDl : NoDup (map fst (cur_attrs s ln))) by (apply (wf_attrs _ _ Hwf); exact Hlnlt).
  assert (NDr : NoDup (map fst (lattrs (labof R y)))) by (apply (wf_attrs _ _ HwfR); exact Hylt).
  pose proof (upd_attr_correct ign R s ln y NDl NDr) as C. unfold attr_script in C. fold s' in C.
  destruct C as (C1 & C2 & C3 & C4 & (F1 & F2 & F3 & F4 & F5 & F6) & C6 & C7 & C8 & C9).
  destruct (upd_attr_final ign R s ln y NDl NDr) as (U1 & _). fold s' in U1.
  pose proof (upd_attr_final_sorted ign R s ln y NDl NDr) as US. fold s' in US.
  unfold labof in F3, F4, F5, F6. unfold cur_attrs, labof in U1, US.
  assert (Hcm' : is_comment (ltag (flab (W s') ln)) = is_comment (ltag (flab (W s) ln))) by (rewrite F4; reflexivity).
  assert (Hcase : (is_comment (ltag (flab (W s) ln)) = true -> lattrs (flab (W s') ln) = [] /\ Step true rootL s s') /\
                  (is_comment (ltag (flab (W s) ln)) = false -> Step true rootL s s')).
  { split; intros Hc.
    - assert (E1 : cur_attrs s ln = []) by (apply (wf_comment _ _ Hwf ln Hlnlt Hc)).
      assert (E2 : lattrs (labof R y) = []) by (apply wf_comment_attrs_R; [exact Hylt|rewrite <- Hcm; exact Hc]).
      rewrite E1, E2, attr_run_nil in C1, C2, C4. cbn in C1, C2, C4. rewrite app_nil_r in C1.
      split; [exact C2|]. apply Step_nop; assumption.
    - destruct (upd_attr_run_spec ign R s ln y NDl NDr rootL) as (R1 & R2 & R3 & R4).
      + apply alive_iff; [exact Hwf|]. eapply I_aliveL; eauto.
      + unfold is_elem, labof. rewrite Hc. reflexivity.
      + fold s' in R1, R2, R3, R4. split; [exact R2|]. eexists. split; [exact R1|exact R4]. }
  split; [|split].
  - apply (Inv_lab Pp Pa Pm s s' ln); try assumption.
    + intros ->. rewrite F6. apply (wf_root_tail _ _ Hwf).
    + intros Hc. rewrite Hcm' in Hc. apply (proj1 Hcase Hc).
  - destruct (is_comment (ltag (flab (W s) ln))) eqn:Hc; [apply (proj1 Hcase); reflexivity|apply (proj2 Hcase); reflexivity].
  - repeat split; auto.
Qed.

Lemma upd_text_ok Pp Pa Pm s ln y :
  Inv Pp Pa Pm s -> r2l s y = Some ln ->
  let s' := upd_text R s ln y in
  Inv Pp Pa Pm s' /\ Step true rootL s s' /\
  l2r s' = l2r s /\ r2l s' = r2l s /\ fnext (W s') = fnext (W s) /\ fkids (W s') = fkids (W s) /\
  (forall m, m <> ln -> flab (W s') m = flab (W s) m) /\
  ltag (flab (W s') ln) = ltag (flab (W s) ln) /\
  lattrs (flab (W s') ln) = lattrs (flab (W s) ln) /\
  ltext (flab (W s') ln) = ltext (flab R y) /\
  ltail (flab (W s') ln) = ltail (flab R y).
Proof.
  intros HI Hln.
  assert (Hl : l2r s ln = Some y) by (apply (I_bij _ _ _ _ _ _ _ _ HI); exact Hln).
  (* first the text *)
  set (s1 := if ostr_eqb (ltext (flab (W s) ln)) (ltext (flab R y)) then s
             else withW (emit s (IText ln (ltext (flab R y))))
                        (set_lab (W s) ln (Lab (ltag (flab (W s) ln)) (lattrs (flab (W s) ln))
                                               (ltext (flab R y)) (ltail (flab (W s) ln))))).
  assert (H1 : Inv Pp Pa Pm s1 /\ Step true rootL s s1 /\
          l2r s1 = l2r s /\ r2l s1 = r2l s /\ fnext (W s1) = fnext (W s) /\ fkids (W s1) = fkids (W s) /\
          (forall m, m <> ln -> flab (W s1) m = flab (W s) m) /\
          ltag (flab (W s1) ln) = ltag (flab (W s) ln) /\
          lattrs (flab (W s1) ln) = lattrs (flab (W s) ln) /\
          ltext (flab (W s1) ln) = ltext (flab R y) /\
          ltail (flab (W s1) ln) = ltail (flab (W s) ln)).
  { pose proof (I_wf _ _ _ _ _ _ _ _ HI) as Hwf.
    assert (Hlnlt : ln < fnext (W s)) by (eapply Inv_lt_l; eauto).
    unfold s1. destruct (ostr_eqb (ltext (flab (W s) ln)) (ltext (flab R y))) eqn:Et.
    - apply ostr_eqb_true in Et. split; [exact HI|]. split; [apply Step_refl|]. repeat split; auto.
    - match goal with |- context [set_lab (W s) ln ?l] => set (lab' := l) end.
      destruct (relabel_step Pp Pa Pm s ln y (IText ln (ltext (flab R y))) lab' HI Hl) as [A1 A2].
      + reflexivity.
      + intros ->. cbn. apply (wf_root_tail _ _ Hwf).
      + cbn. intros Hc. apply (wf_comment _ _ Hwf ln Hlnlt Hc).
      + cbn. apply (wf_attrs _ _ Hwf). exact Hlnlt.
      + cbn [spec_apply]. rewrite (proj2 (alive_iff _ _ ln Hwf)) by (eapply I_aliveL; eauto). reflexivity.
      + reflexivity.
      + unfold label_eqb. cbn [ltext lab']. rewrite Et. rewrite andb_false_r. reflexivity.
      + split; [exact A1|]. split; [exact A2|]. cbn. rewrite upd_same.
        repeat split; auto. intros m Hm. apply upd_other. exact Hm. }
  destruct H1 as (I1 & S1 & E1 & E2 & E3 & E4 & E5 & E6 & E7 & E8 & E9).
  assert (Hln1 : r2l s1 y = Some ln) by (rewrite E2; exact Hln).
  assert (Hl1 : l2r s1 ln = Some y) by (rewrite E1; exact Hl).
  (* then the tail *)
  intros s'. assert (Es' : s' =
     if ostr_eqb (ltail (flab (W s1) ln)) (ltail (flab R y)) then s1
     else withW (emit s1 (ITail ln (ltail (flab R y))))
                (set_lab (W s1) ln (Lab (ltag (flab (W s1) ln)) (lattrs (flab (W s1) ln))
                                        (ltext (flab (W s1) ln)) (ltail (flab R y))))) by reflexivity.
  rewrite Es'. clear Es'.
  pose proof (I_wf _ _ _ _ _ _ _ _ I1) as Hwf1.
  assert (Hlnlt1 : ln < fnext (W s1)) by (eapply Inv_lt_l; eauto).
  destruct (ostr_eqb (ltail (flab (W s1) ln)) (ltail (flab R y))) eqn:Et.
  - apply ostr_eqb_true in Et. split; [exact I1|]. split; [exact S1|].
    repeat split; try congruence. intros m Hm. rewrite E5 by exact Hm. reflexivity.
  - match goal with |- context [set_lab (W s1) ln ?l] => set (lab' := l) end.
    assert (Hnr : ln <> rootL).
    { intros ->. assert (y = rootR) by (eapply (Inv_inj_r _ _ _ _ _ _ _ _ I1); [exact Hln1|apply (I_root _ _ _ _ _ _ _ _ I1)]).
      subst y. rewrite (wf_root_tail _ _ Hwf1), (wf_root_tail _ _ HwfR) in Et. discriminate. }
    destruct (relabel_step Pp Pa Pm s1 ln y (ITail ln (ltail (flab R y))) lab' I1 Hl1) as [A1 A2].
    + reflexivity.
    + intros ->. contradiction.
    + cbn. intros Hc. apply (wf_comment _ _ Hwf1 ln Hlnlt1 Hc).
    + cbn. apply (wf_attrs _ _ Hwf1). exact Hlnlt1.
    + cbn [spec_apply]. rewrite (proj2 (alive_iff _ _ ln Hwf1)) by (eapply I_aliveL; eauto).
      replace (Nat.eqb ln rootL) with false by (symmetry; apply Nat.eqb_neq; exact Hnr). reflexivity.
    + reflexivity.
    + unfold label_eqb. cbn [ltail lab']. rewrite Et. rewrite andb_false_r. reflexivity.
    + split; [exact A1|]. split; [eapply Step_trans; eauto|]. cbn. rewrite upd_same. cbn.
      repeat split; auto. intros m Hm. rewrite upd_other by exact Hm. apply E5. exact Hm.
Qed.

(* ------------------------------------------------------------------ *)
(** * One iteration of the main loop                                    *)
(* ------------------------------------------------------------------ *)
Variable chk : bool.
Hypothesis Halign : forall Pp Pa Pm s ln rn,
  Inv Pp Pa Pm s -> In rn Pm -> r2l s rn = Some ln ->
  (forall z, In z (fkids R rn) -> ~ In z Pp) ->
  (forall v, In v (fkids R rn) -> inoR s v = false) ->
  Step chk rootL s (align R s ln rn).

Lemma NoDup_map_inj_in {A B} (f : A -> B) l :
  (forall x y, In x l -> In y l -> f x = f y -> x = y) -> NoDup l -> NoDup (map f l).
Proof.
  intros Hinj Hnd. induction Hnd as [|a l Ha Hnd IH]; cbn; constructor.
  - intros Hin. apply in_map_iff in Hin as (x & E & Hx). apply Ha.
    rewrite (Hinj a x); auto; [left; reflexivity|right; exact Hx].
  - apply IH. intros x y Hx Hy. apply Hinj; right; assumption.
Qed.

Lemma lch_length Pp Pa Pm s ln rn :
  Inv Pp Pa Pm s -> r2l s rn = Some ln -> length (lch_of R s ln rn) <= length (fkids R rn).
Proof.
  intros HI Hln. destruct (Inv_r2l_lt _ _ _ HwfR _ _ _ _ _ HI _ _ Hln) as [Hlnlt Hrnlt].
  set (partner := fun u => match l2r s u with Some r => r | None => 0 end).
  rewrite <- (map_length partner). apply NoDup_incl_length.
  - apply NoDup_map_inj_in.
    + intros x y Hx Hy E. apply (lch_In R rootR HwfR) in Hx as [_ (rx & Ex & _)]; [|exact Hrnlt].
      apply (lch_In R rootR HwfR) in Hy as [_ (ry & Ey & _)]; [|exact Hrnlt].
      unfold partner in E. rewrite Ex, Ey in E. subst ry.
      eapply (Inv_inj_l _ _ _ _ _ _ _ _ HI); eauto.
    + apply NoDup_filter. apply (wf_kids_nodup _ _ (I_wf _ _ _ _ _ _ _ _ HI)). exact Hlnlt.
  - intros v Hv. apply in_map_iff in Hv as (u & <- & Hu).
    apply (lch_In R rootR HwfR) in Hu as [_ (r & Er & Hr)]; [|exact Hrnlt].
    unfold partner. rewrite Er. exact Hr.
Qed.

Lemma finish_ok P s1 ln y :
  Inv (P ++ [y]) P P s1 -> r2l s1 y = Some ln -> ~ In y P ->
  (forall z, In z (fkids R y) -> ~ In z (P ++ [y])) ->
  ltag (flab (W s1) ln) = ltag (flab R y) ->
  let s' := finish R (upd_attr ign R s1 ln y) ln y in
  Inv (P ++ [y]) (P ++ [y]) (P ++ [y]) s' /\ Step chk rootL s1 s' /\
  r2l s' = r2l s1 /\ l2r s' = l2r s1 /\ fnext (W s') = fnext (W s1) /\
  (forall m, m <> ln -> flab (W s') m = flab (W s1) m) /\
  lab_ok (flab (W s') ln) (flab R y) /\
  Deltas s1 s' 0 0 (length (fkids R y)) 0 1 1
         (length (lattrs (flab (W s1) ln)) + length (lattrs (flab R y))) /\
  CrIn s1 s' [].
Proof.
  intros HI Hln HyP Hkids Htag.
  destruct (upd_attr_ok _ _ _ s1 ln y HI Hln) as (I3 & S3 & A1 & A2 & A3 & A4 & A5 & A6 & A7 & A8 & A9 & A10).
  assert (D3 : Deltas s1 (upd_attr ign R s1 ln y) 0 0 0 0 0 0
                      (length (lattrs (flab (W s1) ln)) + length (lattrs (flab R y)))).
  { apply upd_attr_deltas.
    - apply (wf_attrs _ _ (I_wf _ _ _ _ _ _ _ _ HI)). eapply Inv_lt_l; [exact HI|].
      apply (I_bij _ _ _ _ _ _ _ _ HI). exact Hln.
    - apply (wf_attrs _ _ HwfR). apply (Inv_r2l_lt _ _ _ HwfR _ _ _ _ _ HI _ _ Hln). }
  set (s3 := upd_attr ign R s1 ln y) in *.
  assert (Hln3 : r2l s3 y = Some ln) by (rewrite A2; exact Hln).
  destruct (Inv_r2l_lt _ _ _ HwfR _ _ _ _ _ I3 _ _ Hln3) as [_ Hylt].
  pose proof (unmarked_before_align R rootL rootR HwfR Orig _ _ _ s3 y I3 Hylt HyP) as Hunm.
  assert (HyPp : In y (P ++ [y])) by (apply in_or_app; right; left; reflexivity).
  pose proof (Inv_start_align R rootL rootR Orig _ _ _ s3 y I3 HyPp) as I3'.
  destruct (align_ok R rootL rootR HwfR Orig _ _ _ s3 ln y I3' HyPp Hln3 Hkids Hunm)
    as (I4 & _ & B1 & B2 & B3 & B4).
  pose proof (Halign _ _ _ s3 ln y I3' HyPp Hln3 Hkids Hunm) as S4.
  pose proof (align_deltas R s3 ln y) as D4.
  pose proof (lch_length _ _ _ s3 ln y I3' Hln3) as Llch.
  unfold finish. cbn zeta. set (s4 := align R s3 ln y) in *.
  assert (Hln4 : r2l s4 y = Some ln) by (rewrite B2; exact Hln3).
  rewrite Hln4.
  destruct (upd_text_ok _ _ _ s4 ln y I4 Hln4) as (I5 & S5 & C1 & C2 & C3 & C4 & C5 & C6 & C7 & C8 & C9).
  pose proof (upd_text_deltas R s4 ln y) as D5.
  split; [exact I5|]. split.
  { eapply Step_trans; [apply Step_true_any; exact S3|].
    eapply Step_trans; [exact S4|apply Step_true_any; exact S5]. }
  split; [congruence|]. split; [congruence|]. split; [congruence|]. split.
  { intros m Hm. rewrite C5, B3, A6 by exact Hm. reflexivity. }
  split.
  { unfold lab_ok. rewrite C6, C7, C8, C9, B3, A7, A10. auto. }
  split.
  { eapply Deltas_weaken; [exact (Deltas_trans _ _ _ _ _ _ _ _ _ _ _ _ _ _ _ _ _ D3 (Deltas_trans _ _ _ _ _ _ _ _ _ _ _ _ _ _ _ _ _ D4 D5))|..]; lia. }
  exact (CrIn_trans _ _ _ [] [] (upd_attr_cr ign R s1 ln y)
           (CrIn_trans _ _ _ [] [] (align_cr R s3 ln y) (upd_text_cr R s4 ln y))).
Qed.

Lemma visit_ok P s y :
  Inv P P P s -> P_closed R rootR P -> ~ In y P -> desc R rootR y ->
  ((y = rootR /\ P = []) \/ exists x s1 s2, In x P /\ fkids R x = s1 ++ y :: s2) ->
  (forall z, In z (fkids R y) -> ~ In z (P ++ [y])) ->
  let s' := visit ign R s y in
  Inv (P ++ [y]) (P ++ [y]) (P ++ [y]) s' /\ Step chk rootL s s' /\
  (exists ln, r2l s' y = Some ln /\ lab_ok (flab (W s') ln) (flab R y)) /\
  (forall x, x <> y -> r2l s' x = r2l s x) /\
  (forall m, m < fnext (W s) -> r2l s y <> Some m -> flab (W s') m = flab (W s) m) /\
  (forall l, l < fnext (W s) -> l2r s' l = l2r s l) /\
  fnext (W s) <= fnext (W s') /\
  Deltas s s' 1 0 (1 + length (fkids R y)) 1 1 1
         (match r2l s y with Some c => length (lattrs (flab (W s) c)) | None => 0 end
          + length (lattrs (flab R y))) /\
  (r2l s y = None -> r2l s' y = Some (fnext (W s))) /\
  CrIn s s' (match r2l s y with None => [fnext (W s)] | Some _ => [] end).
Proof.
  intros HI Hcl HyP Hy Hpos Hkids.
  pose proof (I_wf _ _ _ _ _ _ _ _ HI) as Hwf.
  set (la := match r2l s y with Some c => length (lattrs (flab (W s) c)) | None => 0 end).
  (* common tail: s1 is the state after placement and tag update *)
  assert (Htail : forall s1 ln,
            Inv (P ++ [y]) P P s1 -> r2l s1 y = Some ln -> Step chk rootL s s1 ->
            ltag (flab (W s1) ln) = ltag (flab R y) ->
            (forall x, x <> y -> r2l s1 x = r2l s x) ->
            (forall m, m < fnext (W s) -> r2l s y <> Some m -> flab (W s1) m = flab (W s) m /\ m <> ln) ->
            (forall l, l < fnext (W s) -> l2r s1 l = l2r s l) ->
            fnext (W s) <= fnext (W s1) ->
            length (lattrs (flab (W s1) ln)) = la ->
            Deltas s s1 1 0 1 1 0 0 0 ->
            (r2l s y = None -> ln = fnext (W s)) ->
            CrIn s s1 (match r2l s y with None => [fnext (W s)] | Some _ => [] end) ->
            let s' := finish R (upd_attr ign R s1 ln y) ln y in
            Inv (P ++ [y]) (P ++ [y]) (P ++ [y]) s' /\ Step chk rootL s s' /\
            (exists ln, r2l s' y = Some ln /\ lab_ok (flab (W s') ln) (flab R y)) /\
            (forall x, x <> y -> r2l s' x = r2l s x) /\
            (forall m, m < fnext (W s) -> r2l s y <> Some m -> flab (W s') m = flab (W s) m) /\
            (forall l, l < fnext (W s) -> l2r s' l = l2r s l) /\
            fnext (W s) <= fnext (W s') /\
            Deltas s s' 1 0 (1 + length (fkids R y)) 1 1 1 (la + length (lattrs (flab R y))) /\
            (r2l s y = None -> r2l s' y = Some (fnext (W s))) /\
            CrIn s s' (match r2l s y with None => [fnext (W s)] | Some _ => [] end)).
  { intros s1 ln I1 Hln S1 Htag Hfr1 Hfr2 Hfr3 Hfn Hla D1 Hnew C1.
    destruct (finish_ok P s1 ln y I1 Hln HyP Hkids Htag) as (F1 & F2 & F3 & F3' & F4 & F5 & F6 & F7 & F8).
    split; [exact F1|]. split; [eapply Step_trans; eauto|]. split; [exists ln; rewrite F3; auto|].
    split; [intros x Hx; rewrite F3; apply Hfr1; exact Hx|]. split.
    { intros m Hm Hne. destruct (Hfr2 m Hm Hne) as [G1 G2]. rewrite F5 by exact G2. exact G1. }
    split; [intros l Hl; rewrite F3'; apply Hfr3; exact Hl|]. split; [rewrite F4; exact Hfn|].
    rewrite Hla in F7. split; [|split].
    - eapply Deltas_weaken; [exact (Deltas_trans _ _ _ _ _ _ _ _ _ _ _ _ _ _ _ _ _ D1 F7)|..]; lia.
    - intros Hn. rewrite F3, Hln, (Hnew Hn). reflexivity.
    - eapply CrIn_incl; [exact (CrIn_trans _ _ _ _ _ C1 F8)|]. intros z Hz. rewrite app_nil_r in Hz. exact Hz. }
  destruct (r2l s y) as [c|] eqn:Ery.
  - (* matched *)
    assert (Hlc : l2r s c = Some y) by (apply (I_bij _ _ _ _ _ _ _ _ HI); exact Ery).
    (* after the placement (Inv (P ++ [y]) P P s0, same maps and labels), the tag *)
    assert (Hplaced : forall s0, Inv (P ++ [y]) P P s0 -> Step chk rootL s s0 ->
              r2l s0 = r2l s -> l2r s0 = l2r s -> flab (W s0) = flab (W s) -> fnext (W s0) = fnext (W s) ->
              Deltas s s0 0 0 1 0 0 0 0 -> CrIn s s0 [] ->
              let s' := finish R (upd_attr ign R (upd_tag R s0 c y) c y) c y in
              Inv (P ++ [y]) (P ++ [y]) (P ++ [y]) s' /\ Step chk rootL s s' /\
              (exists ln, r2l s' y = Some ln /\ lab_ok (flab (W s') ln) (flab R y)) /\
              (forall x, x <> y -> r2l s' x = r2l s x) /\
              (forall m, m < fnext (W s) -> Some c <> Some m -> flab (W s') m = flab (W s) m) /\
              (forall l, l < fnext (W s) -> l2r s' l = l2r s l) /\
              fnext (W s) <= fnext (W s') /\
              Deltas s s' 1 0 (1 + length (fkids R y)) 1 1 1 (la + length (lattrs (flab R y))) /\
              (Some c = None -> r2l s' y = Some (fnext (W s))) /\
              CrIn s s' []).
    { intros s0 I0 S0 E0 E0' L0 N0 D0 C0.
      assert (Hc0 : r2l s0 y = Some c) by (rewrite E0; exact Ery).
      destruct (upd_tag_ok _ _ _ s0 c y I0 Hc0) as (T1 & T2 & T3 & T4 & T5 & T6 & T7 & T8 & T9 & _).
      apply Htail; auto.
      - rewrite T4. exact Hc0.
      - eapply Step_trans; [exact S0|apply Step_true_any; exact T2].
      - intros x Hx. rewrite T4, E0. reflexivity.
      - intros m Hm Hne. assert (Hmc : m <> c) by (intros ->; apply Hne; reflexivity).
        rewrite T7, L0 by exact Hmc. auto.
      - intros l Hl. rewrite T3, E0'. reflexivity.
      - rewrite T5, N0. lia.
      - rewrite T9, L0. reflexivity.
      - pose proof (upd_tag_deltas R s0 c y) as DT.
        eapply Deltas_weaken; [exact (Deltas_trans _ _ _ _ _ _ _ _ _ _ _ _ _ _ _ _ _ D0 DT)|..]; lia.
      - discriminate.
      - exact (CrIn_trans _ _ _ [] [] C0 (upd_tag_cr R s0 c y)). }
    destruct Hpos as [[-> ->]|(x & s1 & s2 & Hx & Ek)].
    + (* the root *)
      rewrite (I_root _ _ _ _ _ _ _ _ HI) in Ery. inversion Ery; subst c.
      cbn zeta. rewrite (visit_stay ign R s rootR rootL).
      * apply Hplaced; try reflexivity; [|apply Step_refl|eapply Deltas_weaken; [apply Deltas_refl|..]; lia|apply CrIn_refl].
        apply (Inv_extend R rootL rootR Orig [] [] [] s rootR rootL HI Hy (I_root _ _ _ _ _ _ _ _ HI)).
        intros xp Hxp Hin. exfalso. eapply (wf_root_top _ _ HwfR); eauto.
      * apply (I_root _ _ _ _ _ _ _ _ HI).
      * rewrite (parentof_root R rootR HwfR), (parentof_root _ rootL Hwf). reflexivity.
    + assert (Hxlt : x < fnext R) by (apply R_lt with (rootR := rootR); [exact HwfR|eapply I_Pp; eauto]).
      assert (Hyx : In y (fkids R x)) by (rewrite Ek; apply in_or_app; right; left; reflexivity).
      assert (Hpar : parentof R y = Some x) by (eapply parentof_of_In; eauto).
      destruct (I_vis _ _ _ _ _ _ _ _ HI x Hx) as [w Hw].
      destruct (Inv_r2l_lt _ _ _ HwfR _ _ _ _ _ HI _ _ Hw) as [Hwlt _].
      destruct (oid_eqb (Some w) (parentof (W s) c)) eqn:Eo.
      * (* already under the right parent *)
        apply oid_eqb_true in Eo. symmetry in Eo. apply parentof_Some in Eo as [_ Hcw].
        cbn zeta. rewrite (visit_stay ign R s y c Ery).
        2:{ rewrite Hpar, Hw. apply oid_eqb_true. symmetry. eapply parentof_of_In; eauto. }
        apply Hplaced; try reflexivity; [|apply Step_refl|eapply Deltas_weaken; [apply Deltas_refl|..]; lia|apply CrIn_refl].
        apply (Inv_extend R rootL rootR Orig P P P s y c HI Hy Ery).
        intros xp Hxp Hin. assert (xp = x) by (apply (wf_uparent R rootR HwfR xp x y); assumption).
        subst xp. exists w. auto.
      * (* move *)
        destruct (pos_ok_of_find R rootL rootR HwfR Orig _ _ _ s x y w s1 s2 c HI Hxlt Ek Hw (or_introl Ery))
          as (pos & Hf & Hpk).
        assert (Hncw : ~ In c (fkids (W s) w)).
        { intros Hin. apply oid_eqb_false in Eo. apply Eo. symmetry. eapply parentof_of_In; eauto. }
        assert (HLc : inoL s c = false).
        { destruct (inoL s c) eqn:E; [|reflexivity]. exfalso.
          destruct (I_o1L _ _ _ _ _ _ _ _ HI c E) as (v & Hv & Ev). rewrite Hlc in Hv. inversion Hv; subst v.
          destruct (o1R_under R rootL rootR HwfR Orig _ _ _ s HI x w y Hxlt Hyx Hw Ev) as (sm & H1 & _ & H3).
          rewrite Ery in H1. inversion H1; subst sm. contradiction. }
        pose proof (move_target_ok R rootL rootR HwfR Orig _ _ _ s x y w c HI Hcl Hx Hyx Hw Ery) as Hnd.
        destruct (Inv_do_move R rootL rootR HwfR Orig _ _ _ s x y w c s1 s2 pos HI HyP Hx Ek Hw Ery HLc Hnd Hpk)
          as (M1 & M2 & M3 & M4).
        cbn zeta. rewrite (visit_move ign R s y c x w pos Ery Hpar Hw Eo Hf).
        apply Hplaced; try reflexivity.
        -- apply (Inv_extend R rootL rootR Orig P P P _ y c M1 Hy Ery).
           intros xp Hxp Hin. assert (xp = x) by (apply (wf_uparent R rootR HwfR xp x y); assumption).
           subst xp. exists w. auto.
        -- apply Step_true_any. apply (Step_one true rootL s _ (IMove c w pos)); try reflexivity; [exact M2|].
           cbn [is_ns_action orb]. apply negb_true_iff.
           apply (same_doc_kids rootL (W s) _ w Hwf).
           ++ eapply I_aliveL; [exact HI|]. apply (I_bij _ _ _ _ _ _ _ _ HI). exact Hw.
           ++ intros E. apply Hncw. rewrite E. exact M3.
        -- rewrite do_move_W. apply flab_move.
        -- rewrite do_move_W. apply fnext_move.
        -- apply do_move_deltas.
        -- apply do_move_cr.
  - (* unmatched: insert *)
    destruct Hpos as [[-> ->]|(x & s1 & s2 & Hx & Ek)].
    { rewrite (I_root _ _ _ _ _ _ _ _ HI) in Ery. discriminate. }
    assert (Hxlt : x < fnext R) by (apply R_lt with (rootR := rootR); [exact HwfR|eapply I_Pp; eauto]).
    assert (Hyx : In y (fkids R x)) by (rewrite Ek; apply in_or_app; right; left; reflexivity).
    assert (Hpar : parentof R y = Some x) by (eapply parentof_of_In; eauto).
    destruct (I_vis _ _ _ _ _ _ _ _ HI x Hx) as [w Hw].
    destruct (Inv_r2l_lt _ _ _ HwfR _ _ _ _ _ HI _ _ Hw) as [Hwlt _].
    destruct (pos_ok_of_find R rootL rootR HwfR Orig _ _ _ s x y w s1 s2 (fnext (W s)) HI Hxlt Ek Hw
                (or_intror (conj Ery eq_refl))) as (pos & Hf & Hpk).
    destruct (Inv_do_ins R rootL rootR HwfR Orig _ _ _ s x y w s1 s2 pos HI HyP Hy Hx Ek Hw Ery Hpk)
      as (N1 & N2 & N3).
    cbn zeta. rewrite (visit_ins ign R s y x w pos Ery Hpar Hw Hf).
    destruct (new_act_label R w pos (fnext (W s)) y) as (L1 & L2 & _).
    apply Htail; auto.
    + apply Step_true_any. exact N2.
    + rewrite do_ins_W, flab_ins, Nat.eqb_refl. exact L1.
    + intros x' Hne. cbn. apply upd_other. exact Hne.
    + intros m Hm _. assert (Hne' : m <> fnext (W s)) by lia. split; [|exact Hne'].
      rewrite do_ins_W, flab_ins. apply Nat.eqb_neq in Hne'. rewrite Hne'. reflexivity.
    + intros l Hl. cbn. apply upd_other. lia.
    + rewrite do_ins_W, fnext_ins. lia.
    + rewrite do_ins_W, flab_ins, Nat.eqb_refl, L2. reflexivity.
    + eapply Deltas_weaken; [apply do_ins_deltas|..]; lia.
    + apply do_ins_cr.
Qed.

(* ------------------------------------------------------------------ *)
(** * The breadth-first phase                                           *)
(* ------------------------------------------------------------------ *)
Definition LabInv (P : list id) (s : st) : Prop :=
  forall x w, In x P -> r2l s x = Some w -> lab_ok (flab (W s) w) (flab R x).

Lemma bfs_prefix_facts B P y rest : bfs_ok R rootR B -> B = P ++ y :: rest ->
  P_closed R rootR P /\ ~ In y P /\ desc R rootR y /\
  ((y = rootR /\ P = []) \/ exists x s1 s2, In x P /\ fkids R x = s1 ++ y :: s2) /\
  (forall z, In z (fkids R y) -> ~ In z (P ++ [y])).
Proof.
  intros (Hnd & Hmem & Hsplit) E.
  assert (HyP : ~ In y P).
  { rewrite E in Hnd. apply NoDup_remove_2 in Hnd. intros H; apply Hnd; apply in_or_app; left; exact H. }
  assert (Hy : desc R rootR y) by (apply Hmem; rewrite E; apply in_or_app; right; left; reflexivity).
  split; [|split; [exact HyP|split; [exact Hy|split]]].
  - intros x Hx. apply in_split in Hx as (P1 & P2 & ->).
    destruct (Hsplit P1 x (P2 ++ y :: rest)) as [[-> _]|(x' & s1 & s2 & H1 & H2 & _)].
    + rewrite E, <- app_assoc. reflexivity.
    + left; reflexivity.
    + right. exists x'. split; [apply in_or_app; left; exact H1|].
      rewrite H2. apply in_or_app. right; left; reflexivity.
  - destruct (Hsplit P y rest E) as [H|(x & s1 & s2 & H1 & H2 & _)]; [left; exact H|right; eauto].
  - intros z Hz Hin. apply in_split in Hin as (Q1 & Q2 & EQ).
    assert (EB : B = Q1 ++ z :: (Q2 ++ rest)).
    { rewrite E. replace (P ++ y :: rest) with ((P ++ [y]) ++ rest) by (rewrite <- app_assoc; reflexivity).
      rewrite EQ, <- app_assoc. reflexivity. }
    assert (Hylt : y < fnext R).
    { eapply desc_lt; [exact HwfR|apply (wf_root_lt _ _ HwfR)|exact Hy]. }
    destruct (Hsplit Q1 z (Q2 ++ rest) EB) as [[-> _]|(x' & s1 & s2 & H1 & H2 & _)].
    + eapply (wf_root_top _ _ HwfR); eauto.
    + assert (x' = y).
      { apply (wf_uparent R rootR HwfR x' y z); try assumption.
        * eapply desc_lt; [exact HwfR|apply (wf_root_lt _ _ HwfR)|]. apply Hmem. rewrite EB.
          apply in_or_app. left; exact H1.
        * rewrite H2. apply in_or_app. right; left; reflexivity. }
      subst x'. apply app_snoc_split in EQ as [(-> & -> & ->)|(r' & -> & ->)].
      * contradiction.
      * apply HyP. apply in_or_app. left; exact H1.
Qed.

Lemma bfs_fold_ok B : bfs_ok R rootR B -> forall rest P s,
  B = P ++ rest -> Inv P P P s -> LabInv P s ->
  let s' := fold_left (visit ign R) rest s in
  Inv B B B s' /\ LabInv B s' /\ Step chk rootL s s'.
Proof.
  intros HB. induction rest as [|y rest IH]; intros P s E HI HL.
  - rewrite app_nil_r in E. subst P. cbn. split; [exact HI|]. split; [exact HL|apply Step_refl].
  - cbn [fold_left].
    destruct (bfs_prefix_facts B P y rest HB E) as (F1 & F2 & F3 & F4 & F5).
    destruct (visit_ok P s y HI F1 F2 F3 F4 F5) as (V1 & V2 & (ln & V3 & V4) & V5 & V6 & V7 & V8 & V9).
    set (s1 := visit ign R s y) in *.
    assert (HL1 : LabInv (P ++ [y]) s1).
    { intros x w Hx Hw. apply in_app_or in Hx as [Hx|[<-|[]]].
      - assert (Hxy : x <> y) by (intros ->; contradiction).
        rewrite (V5 x Hxy) in Hw. rewrite V6.
        + apply HL; assumption.
        + apply (Inv_r2l_lt _ _ _ HwfR _ _ _ _ _ HI _ _ Hw).
        + intros Hy. apply Hxy. eapply (Inv_inj_r _ _ _ _ _ _ _ _ HI); eauto.
      - rewrite V3 in Hw. inversion Hw; subst w. exact V4. }
    destruct (IH (P ++ [y]) s1) as (R1 & R2 & R3); try assumption.
    + rewrite E, <- app_assoc. reflexivity.
    + split; [exact R1|]. split; [exact R2|]. eapply Step_trans; eauto.
Qed.

(* ------------------------------------------------------------------ *)
(** * The initial state                                                 *)
(* ------------------------------------------------------------------ *)
Lemma find_fst_iff (l : list (id * id)) x r : NoDup (map fst l) ->
  (option_map snd (find (fun p => Nat.eqb (fst p) x) l) = Some r <-> In (x, r) l).
Proof.
  intros Hnd. induction l as [|[a b] l IH]; cbn; [split; [discriminate|intros []]|].
  inversion Hnd as [|? ? Hn Hnd']; subst. destruct (Nat.eqb a x) eqn:E.
  - apply Nat.eqb_eq in E. subst a. cbn. split.
    + intros H. inversion H. left; reflexivity.
    + intros [H|H]; [inversion H; reflexivity|]. exfalso. apply Hn.
      apply in_map_iff. exists (x, r). auto.
  - rewrite IH by exact Hnd'. split; [auto|]. intros [H|H]; [|exact H].
    inversion H; subst. rewrite Nat.eqb_refl in E. discriminate.
Qed.

Lemma find_snd_iff (l : list (id * id)) x r : NoDup (map snd l) ->
  (option_map fst (find (fun p => Nat.eqb (snd p) x) l) = Some r <-> In (r, x) l).
Proof.
  intros Hnd. induction l as [|[a b] l IH]; cbn; [split; [discriminate|intros []]|].
  inversion Hnd as [|? ? Hn Hnd']; subst. destruct (Nat.eqb b x) eqn:E.
  - apply Nat.eqb_eq in E. subst b. cbn. split.
    + intros H. inversion H. left; reflexivity.
    + intros [H|H]; [inversion H; reflexivity|]. exfalso. apply Hn.
      apply in_map_iff. exists (r, x). auto.
  - rewrite IH by exact Hnd'. split; [auto|]. intros [H|H]; [|exact H].
    inversion H; subst. rewrite Nat.eqb_refl in E. discriminate.
Qed.

Lemma init_maps L m l r : NoDup (map fst m) -> NoDup (map snd m) ->
  (l2r (init_state L m) l = Some r <-> In (l, r) m) /\
  (r2l (init_state L m) r = Some l <-> In (l, r) m).
Proof.
  intros H1 H2. cbn. split.
  - rewrite find_fst_iff; [symmetry; apply in_rev|]. rewrite map_rev. apply NoDup_rev. exact H1.
  - rewrite find_snd_iff; [symmetry; apply in_rev|]. rewrite map_rev. apply NoDup_rev. exact H2.
Qed.

Lemma Inv_init L m :
  wf_forest L rootL -> valid_matching L R rootL rootR m ->
  (forall n, desc L rootL n -> Orig n) -> Inv [] [] [] (init_state L m).
Proof.
  intros HwfL (V1 & V2 & V3 & V4 & V5) HO.
  assert (Hl : forall l r, l2r (init_state L m) l = Some r <-> In (l, r) m)
    by (intros l r; apply (init_maps L m l r V1 V2)).
  assert (Hr : forall l r, r2l (init_state L m) r = Some l <-> In (l, r) m)
    by (intros l r; apply (init_maps L m l r V1 V2)).
  constructor.
  - exact HwfL.
  - intros l r. rewrite Hl, Hr. reflexivity.
  - apply Hr. exact V3.
  - intros l r H. apply Hl in H. apply (V4 l r H).
  - intros l r H. apply Hl in H. apply (V4 l r H).
  - intros l r H. apply Hl in H. change (W (init_state L m)) with L.
    destruct (Nat.eq_dec l rootL) as [->|Hne].
    + assert (r = rootR).
      { pose proof (proj2 (Hl rootL rootR) V3) as H3. apply Hl in H. rewrite H in H3. congruence. }
      subst r. rewrite (wf_root_elem _ _ HwfL), (wf_root_elem _ _ HwfR). reflexivity.
    + apply V5; [exact H|]. intros E. inversion E. contradiction.
  - intros x [].
  - intros x [].
  - intros x [].
  - intros x [].
  - intros x xp w [].
  - intros v Hv. discriminate.
  - intros u Hu. discriminate.
  - intros w x _. cbn.
    rewrite (filter_all_false (fun _ => false)) by reflexivity.
    rewrite (filter_all_false (fun _ => false)) by reflexivity. reflexivity.
  - intros x w c y [].
  - intros n Hn. left. apply HO. exact Hn.
Qed.

(* ------------------------------------------------------------------ *)
(** * The delete phase                                                  *)
(* ------------------------------------------------------------------ *)
Lemma before_trans {A} (l : list A) c b a : NoDup l -> before l c b -> before l b a -> before l c a.
Proof.
  intros Hnd (m1 & m2 & E1 & Hc) (l1 & l2 & E2 & Hb).
  exists l1, l2. split; [exact E2|].
  apply in_split in Hb as (u1 & u2 & ->).
  assert (E3 : l = u1 ++ b :: (u2 ++ a :: l2)) by (rewrite E2, <- app_assoc; reflexivity).
  rewrite E1 in E3. pose proof Hnd as Hnd'. rewrite E1 in Hnd'.
  apply NoDup_split_unique in E3 as [-> _]; [|exact Hnd'].
  apply in_or_app. left; exact Hc.
Qed.

Lemma before_not_in_pre {A} (l pre post : list A) n a :
  NoDup l -> l = pre ++ n :: post -> before l n a -> ~ In a pre.
Proof.
  intros Hnd E (l1 & l2 & E2 & Hn) Ha.
  apply in_split in Ha as (p1 & p2 & ->).
  assert (E3 : l = p1 ++ a :: (p2 ++ n :: post)) by (rewrite E, <- app_assoc; reflexivity).
  rewrite E2 in E3. pose proof Hnd as Hnd'. rewrite E2 in Hnd'.
  apply NoDup_split_unique in E3 as [-> _]; [|exact Hnd'].
  rewrite E in Hnd. apply NoDup_remove_2 in Hnd. apply Hnd.
  apply in_or_app. left. apply in_or_app. left; exact Hn.
Qed.

Definition keptb (s1 : st) (pre : list id) (c : id) : bool := negb (unmb s1 c && mem c pre).

Lemma mem_app x a b : mem x (a ++ b) = mem x a || mem x b.
Proof. unfold mem. apply existsb_app. Qed.

Lemma remove_id_filter (f g : id -> bool) n l :
  g n = false -> (forall c, c <> n -> g c = f c) -> remove_id n (filter f l) = filter g l.
Proof.
  intros Hn Hc. induction l as [|x l IH]; [reflexivity|]. cbn [filter].
  destruct (Nat.eq_dec x n) as [->|Hne].
  - rewrite Hn. destruct (f n); [rewrite remove_id_cons_eq|]; exact IH.
  - rewrite (Hc x Hne). destruct (f x); [rewrite remove_id_cons_ne by exact Hne; f_equal|]; exact IH.
Qed.

Lemma filter_true {A} (l : list A) : filter (fun _ => true) l = l.
Proof. induction l as [|x l IH]; cbn; [reflexivity|f_equal; exact IH]. Qed.

Section Delete.
Variable s1 : st.
Let W1 := W s1.
Let D := rpost (S (fnext W1)) W1 rootL.
Hypothesis Hwf1 : wf_forest W1 rootL.
Hypothesis Hrootm : l2r s1 rootL <> None.
Hypothesis Hdown : forall b c, desc W1 rootL b -> In c (fkids W1 b) -> l2r s1 b = None -> l2r s1 c = None.

Lemma fin_W1 : fin W1 rootL (S (fnext W1)).
Proof. eapply fin_mono; [apply fin_root; exact Hwf1|lia]. Qed.

Lemma D_nodup : NoDup D.
Proof. apply (rpost_NoDup W1 rootL); [exact Hwf1|apply (wf_root_lt _ _ Hwf1)|apply fin_W1]. Qed.

Lemma D_in n : In n D <-> desc W1 rootL n.
Proof. split; [apply rpost_desc|apply rpost_complete; apply fin_W1]. Qed.

Lemma anc_after a n : desc W1 rootL a -> desc W1 a n -> a <> n -> before D n a.
Proof.
  intros Ha Hd. induction Hd as [|b c Hd IH Hin]; intros Hne; [congruence|].
  assert (Hb : desc W1 rootL b) by (eapply desc_trans; eauto).
  assert (Hcb : before D c b).
  { apply rpost_before; [apply fin_W1|apply D_in; exact Hb|exact Hin]. }
  destruct (Nat.eq_dec a b) as [->|Hab]; [exact Hcb|].
  eapply before_trans; [apply D_nodup|exact Hcb|apply IH; exact Hab].
Qed.

Definition K (pre : list id) (s : st) : Prop :=
  l2r s = l2r s1 /\ r2l s = r2l s1 /\ fnext (W s) = fnext W1 /\ flab (W s) = flab W1 /\
  wf_forest (W s) rootL /\
  (forall p, p < fnext W1 -> fkids (W s) p = filter (keptb s1 pre) (fkids W1 p)) /\
  Step true rootL s1 s.

Lemma desc_kept pre s : K pre s -> forall m, desc W1 rootL m ->
  (forall a, desc W1 rootL a -> desc W1 a m -> keptb s1 pre a = true) -> desc (W s) rootL m.
Proof.
  intros (_ & _ & _ & _ & _ & Kk & _) m Hm. induction Hm as [|b c Hb IH Hin]; intros Hanc; [constructor|].
  assert (Hblt : b < fnext W1).
  { eapply desc_lt; [exact Hwf1|apply (wf_root_lt _ _ Hwf1)|exact Hb]. }
  eapply desc_step.
  - apply IH. intros a Ha Hab. apply Hanc; [exact Ha|]. eapply desc_step; eauto.
  - rewrite Kk by exact Hblt. apply filter_In. split; [exact Hin|].
    apply Hanc; [eapply desc_step; eauto|constructor].
Qed.

Lemma delete_loop : forall post pre s, D = pre ++ post -> K pre s -> K D (fold_left del_step post s).
Proof.
  induction post as [|n post IH]; intros pre s E HK.
  - rewrite app_nil_r in E. subst pre. exact HK.
  - cbn [fold_left]. apply (IH (pre ++ [n])); [rewrite E, <- app_assoc; reflexivity|].
    pose proof HK as (Kl & Kr & Kn & Kf & Kw & Kk & Ks).
    assert (HnD : In n D) by (rewrite E; apply in_or_app; right; left; reflexivity).
    assert (Hn : desc W1 rootL n) by (apply D_in; exact HnD).
    assert (Hnlt : n < fnext W1).
    { eapply desc_lt; [exact Hwf1|apply (wf_root_lt _ _ Hwf1)|exact Hn]. }
    assert (Hnpre : ~ In n pre).
    { pose proof D_nodup as Hnd. rewrite E in Hnd. apply NoDup_remove_2 in Hnd.
      intros H; apply Hnd; apply in_or_app; left; exact H. }
    unfold del_step. rewrite Kl. destruct (l2r s1 n) as [r|] eqn:Em.
    + (* matched: kept *)
      split; [exact Kl|]. split; [exact Kr|]. split; [exact Kn|]. split; [exact Kf|]. split; [exact Kw|].
      split; [|exact Ks]. intros p Hp. rewrite Kk by exact Hp. apply filter_ext_in'. intros c _.
      unfold keptb. rewrite mem_app. destruct (Nat.eq_dec c n) as [->|Hne].
      * unfold unmb. rewrite Em. reflexivity.
      * replace (mem c [n]) with false; [rewrite orb_false_r; reflexivity|].
        symmetry. apply mem_false. intros [H|[]]. congruence.
    + (* unmatched: deleted *)
      assert (Hnroot : n <> rootL) by (intros ->; contradiction).
      assert (Halive : desc (W s) rootL n).
      { apply (desc_kept pre s HK n Hn). intros a Ha Han. unfold keptb.
        replace (mem a pre) with false; [rewrite andb_false_r; reflexivity|].
        symmetry. apply mem_false. destruct (Nat.eq_dec a n) as [->|Hne]; [exact Hnpre|].
        eapply before_not_in_pre; [apply D_nodup|exact E|]. apply anc_after; assumption. }
      assert (Hnokids : fkids (W s) n = []).
      { rewrite Kk by exact Hnlt. apply filter_all_false. intros c Hc. unfold keptb.
        assert (Hcu : l2r s1 c = None) by (eapply Hdown; eauto).
        unfold unmb. rewrite Hcu. cbn.
        replace (mem c pre) with true; [reflexivity|]. symmetry. apply mem_In.
        eapply before_split; [apply D_nodup| |exact E].
        apply rpost_before; [apply fin_W1|exact HnD|exact Hc]. }
      assert (Hkids' : forall p, p < fnext W1 ->
                fkids (detach (W s) n) p = filter (keptb s1 (pre ++ [n])) (fkids W1 p)).
      { intros p Hp. rewrite (fkids_detach (W s) rootL) by (try exact Kw; rewrite Kn; exact Hp).
        rewrite Kk by exact Hp. apply remove_id_filter.
        - unfold keptb, unmb. rewrite Em, mem_app. cbn. rewrite Nat.eqb_refl, orb_true_r. reflexivity.
        - intros c Hne. unfold keptb. rewrite mem_app.
          replace (mem c [n]) with false; [rewrite orb_false_r; reflexivity|].
          symmetry. apply mem_false. intros [H|[]]. congruence. }
      split; [exact Kl|]. split; [exact Kr|]. split; [cbn; rewrite fnext_detach; exact Kn|].
      split; [cbn; rewrite flab_detach; exact Kf|]. split; [cbn; apply wf_detach; exact Kw|].
      split; [exact Hkids'|].
      eapply Step_trans; [exact Ks|].
      apply (Step_one true rootL s _ (IDelete n)); try reflexivity.
      * cbn [spec_apply]. rewrite (proj2 (alive_iff _ _ n Kw) Halive).
        replace (Nat.eqb n rootL) with false by (symmetry; apply Nat.eqb_neq; exact Hnroot).
        unfold kidsof. rewrite Hnokids. reflexivity.
      * cbn [is_ns_action orb]. apply negb_true_iff.
        apply desc_last in Halive as Hl. destruct Hl as [->|(b & Hb & Hin)]; [contradiction|].
        apply (same_doc_kids rootL (W s) _ b Kw Hb). cbn.
        assert (Hblt : b < fnext (W s)).
        { eapply desc_lt; [exact Kw|apply (wf_root_lt _ _ Kw)|exact Hb]. }
        rewrite (fkids_detach (W s) rootL) by assumption.
        intros Eq. rewrite Eq in Hin. revert Hin. apply remove_id_self_notin.
Qed.

Lemma delete_phase_K : K D (delete_phase rootL s1).
Proof.
  rewrite (delete_phase_unfold rootL). apply (delete_loop D [] s1); [reflexivity|].
  split; [reflexivity|]. split; [reflexivity|]. split; [reflexivity|]. split; [reflexivity|].
  split; [exact Hwf1|]. split; [|apply Step_refl].
  intros p Hp. symmetry. rewrite (filter_ext_in' _ (fun _ => true)).
  2:{ intros x _. unfold keptb. cbn. rewrite andb_false_r. reflexivity. }
  apply filter_true.
Qed.

End Delete.

(* ------------------------------------------------------------------ *)
(** * The result is the right document                                  *)
(* ------------------------------------------------------------------ *)
Lemma tag_eqb_refl t : tag_eqb t t = true.
Proof. destruct t; cbn; [apply streqb_refl|reflexivity]. Qed.

Lemma otext_eqb_refl t : otext_eqb t t = true.
Proof. unfold otext_eqb. apply streqb_refl. Qed.

Lemma label_equivb_ok tl a b : lab_ok a b ->
  label_equivb tl (Lab (ltag a) (node_attribs_d ign (lattrs a)) (ltext a) (ltail a))
                  (Lab (ltag b) (node_attribs_d ign (lattrs b)) (ltext b) (ltail b)) = true.
Proof.
  intros (H1 & H2 & H3 & H4). unfold label_equivb. cbn [ltag lattrs ltext ltail].
  rewrite H1, H2, H3, H4, tag_eqb_refl, lst_eqb_attr_refl, !otext_eqb_refl.
  destruct tl; reflexivity.
Qed.

Lemma tree_equivb_node tl la lb ka kb :
  label_equivb tl la lb = true ->
  Forall2 (fun t u => tree_equivb_aux true t u = true) ka kb ->
  tree_equivb_aux tl (Node la ka) (Node lb kb) = true.
Proof.
  intros Hl Hk. cbn [tree_equivb_aux]. rewrite Hl. cbn [andb].
  induction Hk as [|t u ka kb Htu Hk IH]; [reflexivity|]. rewrite Htu. cbn [andb]. exact IH.
Qed.

Lemma Forall2_of_map {A B C D} (f : A -> option B) (F : A -> C) (G : B -> D) (P : C -> D -> Prop) :
  forall a b, map f a = map Some b -> (forall u v, In u a -> f u = Some v -> P (F u) (G v)) ->
  Forall2 P (map F a) (map G b).
Proof.
  induction a as [|x a IH]; intros [|z b] E H; cbn in E; try discriminate; cbn; constructor.
  - apply H; [left; reflexivity|]. inversion E. reflexivity.
  - apply IH; [inversion E; reflexivity|]. intros u v Hu. apply H. right; exact Hu.
Qed.

Section Final.
Variable s1 : st.
Let B := bfs R (S (fnext R)) [rootR].
Hypothesis HI1 : Inv B B B s1.
Hypothesis HL1 : LabInv B s1.
Let W1 := W s1.
Let D := rpost (S (fnext W1)) W1 rootL.

Lemma B_in x : In x B <-> desc R rootR x.
Proof. destruct (bfs_spec R rootR HwfR) as (_ & H & _). apply H. Qed.

Lemma final_rootm : l2r s1 rootL <> None.
Proof.
  pose proof (I_root _ _ _ _ _ _ _ _ HI1) as H. apply (I_bij _ _ _ _ _ _ _ _ HI1) in H. congruence.
Qed.

(* the parent of a matched non-root node is matched, with the partner's parent *)
Lemma matched_parent c z b :
  l2r s1 c = Some z -> b < fnext W1 -> In c (fkids W1 b) ->
  exists zp, In z (fkids R zp) /\ r2l s1 zp = Some b.
Proof.
  intros Hc Hb Hin. pose proof (I_wf _ _ _ _ _ _ _ _ HI1) as Hwf.
  pose proof (I_aliveR _ _ _ _ _ _ _ _ HI1 c z Hc) as Hz.
  apply desc_last in Hz as Hz'. destruct Hz' as [->|(zp & Hzp & Hzin)].
  - exfalso. pose proof (I_root _ _ _ _ _ _ _ _ HI1) as Hr. apply (I_bij _ _ _ _ _ _ _ _ HI1) in Hc.
    rewrite Hr in Hc. inversion Hc; subst c. eapply (wf_root_top _ _ Hwf); eauto.
  - assert (Hzplt : zp < fnext R) by (eapply R_lt; eauto).
    destruct (I_par _ _ _ _ _ _ _ _ HI1 z zp c (proj2 (B_in z) Hz) Hzplt Hzin) as (wp & Hwp & Hcw).
    { apply (I_bij _ _ _ _ _ _ _ _ HI1). exact Hc. }
    assert (wp = b).
    { apply (wf_uparent _ _ Hwf wp b c); try assumption. apply (Inv_r2l_lt _ _ _ HwfR _ _ _ _ _ HI1 _ _ Hwp). }
    subst wp. exists zp. auto.
Qed.

Lemma final_down b c : desc W1 rootL b -> In c (fkids W1 b) -> l2r s1 b = None -> l2r s1 c = None.
Proof.
  intros Hb Hin Hnone. destruct (l2r s1 c) as [z|] eqn:Hc; [|reflexivity]. exfalso.
  assert (Hblt : b < fnext W1) by (eapply W_lt; eauto).
  destruct (matched_parent c z b Hc Hblt Hin) as (zp & _ & Hzp).
  apply (I_bij _ _ _ _ _ _ _ _ HI1) in Hzp. congruence.
Qed.

Lemma final_kids x w : r2l s1 x = Some w ->
  map (l2r s1) (filter (keptb s1 D) (fkids W1 w)) = map Some (fkids R x).
Proof.
  intros Hw. unfold D, W1 in *. pose proof (I_wf _ _ _ _ _ _ _ _ HI1) as Hwf.
  destruct (Inv_r2l_lt _ _ _ HwfR _ _ _ _ _ HI1 _ _ Hw) as [Hwlt Hxlt].
  assert (Hwalive : desc (W s1) rootL w).
  { eapply I_aliveL; [exact HI1|]. apply (I_bij _ _ _ _ _ _ _ _ HI1). exact Hw. }
  assert (Hx : desc R rootR x).
  { eapply I_aliveR; [exact HI1|]. apply (I_bij _ _ _ _ _ _ _ _ HI1). exact Hw. }
  rewrite (filter_ext_in' (keptb s1 D) (inoL s1)).
  - rewrite (I_o2 _ _ _ _ _ _ _ _ HI1 w x Hw). f_equal.
    rewrite (filter_ext_in' (inoR s1) (fun _ => true)); [apply filter_true|].
    intros y Hy. assert (HyB : In y B) by (apply B_in; eapply desc_step; eauto).
    destruct (I_vis _ _ _ _ _ _ _ _ HI1 y HyB) as [c Hc].
    destruct (I_par _ _ _ _ _ _ _ _ HI1 y x c HyB Hxlt Hy Hc) as (wp & Hwp & Hcw).
    rewrite Hw in Hwp. inversion Hwp; subst wp.
    assert (Hlc : l2r s1 c = Some y) by (apply (I_bij _ _ _ _ _ _ _ _ HI1); exact Hc).
    pose proof (I_o3 _ _ _ _ _ _ _ _ HI1 x w c y (proj2 (B_in x) Hx) Hw Hcw Hlc Hy) as Hm.
    destruct (I_o1L _ _ _ _ _ _ _ _ HI1 c Hm) as (v & Hv & Ev). congruence.
  - intros c Hc. unfold keptb.
    replace (mem c D) with true.
    2:{ symmetry. apply mem_In. apply rpost_complete; [|eapply desc_step; eauto].
        eapply fin_mono; [apply fin_root; exact Hwf|]. lia. }
    rewrite andb_true_r. unfold unmb. destruct (l2r s1 c) as [z|] eqn:Hlc; cbn.
    + symmetry. destruct (matched_parent c z w Hlc Hwlt Hc) as (zp & Hz & Hzp).
      assert (zp = x) by (eapply (Inv_inj_r _ _ _ _ _ _ _ _ HI1); eauto). subst zp.
      eapply (I_o3 _ _ _ _ _ _ _ _ HI1 x w c z); eauto. apply B_in. exact Hx.
    + destruct (inoL s1 c) eqn:Em; [|reflexivity].
      destruct (I_o1L _ _ _ _ _ _ _ _ HI1 c Em) as (v & Hv & _). congruence.
Qed.

Lemma final_equiv sf : K s1 D sf -> doc_equiv ign (W sf) rootL R rootR.
Proof.
  intros (Kl & Kr & Kn & Kf & Kw & Kk & _).
  set (g := node_attribs_d ign).
  assert (T : forall k w x tl, r2l s1 x = Some w ->
            tree_equivb_aux tl (tree_map_attrs g (to_tree k (W sf) w))
                               (tree_map_attrs g (to_tree k R x)) = true).
  { induction k as [|k IH]; intros w x tl Hw.
    - cbn. rewrite andb_true_r. rewrite Kf. apply label_equivb_ok. apply HL1; [|exact Hw].
      apply B_in. eapply I_aliveR; [exact HI1|]. apply (I_bij _ _ _ _ _ _ _ _ HI1). exact Hw.
    - cbn [to_tree tree_map_attrs]. apply tree_equivb_node.
      + rewrite Kf. apply label_equivb_ok. apply HL1; [|exact Hw].
        apply B_in. eapply I_aliveR; [exact HI1|]. apply (I_bij _ _ _ _ _ _ _ _ HI1). exact Hw.
      + destruct (Inv_r2l_lt _ _ _ HwfR _ _ _ _ _ HI1 _ _ Hw) as [Hwlt _].
        rewrite Kk by exact Hwlt. rewrite !map_map.
        apply (Forall2_of_map (l2r s1)); [apply final_kids; exact Hw|].
        intros u v _ Huv. apply IH. apply (I_bij _ _ _ _ _ _ _ _ HI1). exact Huv. }
  unfold doc_equiv, doc_tree, tree_equivb.
  set (k := S (fnext (W sf)) + S (fnext R)).
  rewrite <- (to_tree_fuel (S (fnext (W sf))) (W sf) rootL k).
  2:{ eapply fin_mono; [apply fin_root; exact Kw|lia]. }
  2:{ unfold k. lia. }
  rewrite <- (to_tree_fuel (S (fnext R)) R rootR k).
  2:{ eapply fin_mono; [apply fin_root; exact HwfR|lia]. }
  2:{ unfold k. lia. }
  apply T. apply (I_root _ _ _ _ _ _ _ _ HI1).
Qed.

End Final.

Theorem gen_script_core L m :
  wf_forest L rootL -> valid_matching L R rootL rootR m ->
  (forall n, desc L rootL n -> Orig n) ->
  let s := gen_script ign R rootR L rootL m in
  serr s = false /\ run_gen chk rootL L (out s) = Some (W s) /\ doc_equiv ign (W s) rootL R rootR.
Proof.
  intros HwfL Hvm HO s.
  pose proof (Inv_init L m HwfL Hvm HO) as HI0.
  set (B := bfs R (S (fnext R)) [rootR]).
  destruct (bfs_fold_ok B (bfs_spec R rootR HwfR) B [] (init_state L m) eq_refl HI0) as (HI1 & HL1 & S1).
  { intros x w []. }
  set (s1 := fold_left (visit ign R) B (init_state L m)) in *.
  assert (Hs : s = delete_phase rootL s1) by reflexivity.
  pose proof (delete_phase_K s1 (I_wf _ _ _ _ _ _ _ _ HI1) (final_rootm s1 HI1) (final_down s1 HI1)) as HK.
  rewrite <- Hs in HK.
  assert (S2 : Step chk rootL (init_state L m) s).
  { eapply Step_trans; [exact S1|]. apply Step_true_any. apply HK. }
  destruct S2 as (E1 & acts & E2 & E3).
  split; [rewrite E1; reflexivity|]. split; [rewrite E2; exact E3|].
  eapply final_equiv; eauto.
Qed.

(* ------------------------------------------------------------------ *)
(** * Counting the actions                                              *)
(* ------------------------------------------------------------------ *)
Definition sumf (f : id -> nat) (l : list id) : nat := list_sum (map f l).

Lemma sumf_cons f y l : sumf f (y :: l) = f y + sumf f l.
Proof. reflexivity. Qed.

Lemma sumf_app f a b : sumf f (a ++ b) = sumf f a + sumf f b.
Proof. unfold sumf. rewrite map_app, list_sum_app. reflexivity. Qed.

Section Counts.
(* the initial right-to-left map and the initial labels of the left forest *)
Variable r2l0 : omap.
Variable lab0 : id -> label.

Definition la_of (y : id) : nat :=
  match r2l0 y with Some c => length (lattrs (lab0 c)) | None => 0 end.

(* the partners of the right nodes not visited yet are the initial ones, with
   their initial labels *)
Definition UInv (P : list id) (s : st) : Prop :=
  forall y, ~ In y P -> r2l s y = r2l0 y /\ forall c, r2l0 y = Some c -> flab (W s) c = lab0 c.

(* every id created so far is allocated and matched *)
Definition CrOK (s : st) : Prop :=
  forall a n, In a (out s) -> created a = Some n -> n < fnext (W s) /\ l2r s n <> None.

Lemma bfs_fold_counts B : bfs_ok R rootR B -> forall rest P s,
  B = P ++ rest -> Inv P P P s -> UInv P s -> CrOK s ->
  let s' := fold_left (visit ign R) rest s in
  Deltas s s' (length rest) 0 (length rest + sumf (fun y => length (fkids R y)) rest)
         (length rest) (length rest) (length rest)
         (sumf (fun y => la_of y + length (lattrs (flab R y))) rest) /\
  CrOK s'.
Proof.
  intros HB. induction rest as [|y rest IH]; intros P s E HI HU HC.
  - cbn. split; [apply Deltas_refl|exact HC].
  - cbn [fold_left].
    destruct (bfs_prefix_facts B P y rest HB E) as (F1 & F2 & F3 & F4 & F5).
    destruct (visit_ok P s y HI F1 F2 F3 F4 F5) as (V1 & V2 & _ & V5 & V6 & V7 & V8 & V9 & V10 & V11).
    set (s1 := visit ign R s y) in *.
    assert (HU1 : UInv (P ++ [y]) s1).
    { intros y' Hy'. assert (Hy'P : ~ In y' P) by (intros H; apply Hy'; apply in_or_app; left; exact H).
      assert (Hne : y' <> y) by (intros ->; apply Hy'; apply in_or_app; right; left; reflexivity).
      destruct (HU y' Hy'P) as [U1 U2]. split; [rewrite V5 by exact Hne; exact U1|].
      intros c Hc. rewrite V6; [apply U2; exact Hc| |].
      - apply (Inv_r2l_lt _ _ _ HwfR _ _ _ _ _ HI y' c). rewrite U1. exact Hc.
      - intros Hyc. apply Hne. eapply (Inv_inj_r _ _ _ _ _ _ _ _ HI); [|exact Hyc]. rewrite U1. exact Hc. }
    assert (Hla : match r2l s y with Some c => length (lattrs (flab (W s) c)) | None => 0 end = la_of y).
    { destruct (HU y F2) as [U1 U2]. unfold la_of. rewrite U1. destruct (r2l0 y) as [c|]; [|reflexivity].
      rewrite (U2 c eq_refl). reflexivity. }
    rewrite Hla in V9.
    assert (HC1 : CrOK s1).
    { intros a n Ha Hc. destruct (V11 a n Ha Hc) as [Hold|Hnew].
      - destruct (HC a n Hold Hc) as [H1 H2]. split; [lia|]. rewrite V7 by exact H1. exact H2.
      - destruct (r2l s y) eqn:Ey; [contradiction|]. destruct Hnew as [<-|[]].
        assert (Hl : l2r s1 (fnext (W s)) = Some y).
        { apply (I_bij _ _ _ _ _ _ _ _ V1). apply V10. reflexivity. }
        split; [eapply Inv_lt_l; eauto|congruence]. }
    destruct (IH (P ++ [y]) s1) as (R1 & R2); try assumption.
    + rewrite E, <- app_assoc. reflexivity.
    + split; [|exact R2].
      eapply Deltas_weaken; [exact (Deltas_trans _ _ _ _ _ _ _ _ _ _ _ _ _ _ _ _ _ V9 R1)|..];
        rewrite ?sumf_cons; cbn [length]; lia.
Qed.

End Counts.

Lemma cnt_map_delete p l : (forall n, p (IDelete n) = false) -> cnt p (map IDelete l) = 0.
Proof. intros H. apply cnt_none. intros a Ha. apply in_map_iff in Ha as (n & <- & _). apply H. Qed.

Lemma cnt_del_map_delete l : cnt is_del (map IDelete l) = length l.
Proof. unfold cnt. induction l as [|n l IH]; cbn; [reflexivity|f_equal; exact IH]. Qed.

(* all the counters of the final script, in terms of the breadth-first list *)
Theorem gen_script_counts_core L m :
  wf_forest L rootL -> valid_matching L R rootL rootR m ->
  (forall n, desc L rootL n -> Orig n) -> (forall n, Orig n -> In n (doc_nodes L rootL)) ->
  let s := gen_script ign R rootR L rootL m in
  let B := bfs R (S (fnext R)) [rootR] in
  let s0 := init_state L m in
  cnt is_ins (out s) <= length B /\
  cnt is_del (out s) <= length (doc_nodes L rootL) /\
  cnt is_move (out s) <= length B + sumf (fun y => length (fkids R y)) B /\
  cnt is_ren (out s) <= length B /\ cnt is_text (out s) <= length B /\ cnt is_tail (out s) <= length B /\
  cnt is_attr (out s) <= sumf (fun y => la_of (r2l s0) (flab L) y + length (lattrs (flab R y))) B /\
  (* every created id is matched at the end, every deleted id is not *)
  (forall a n, In a (out s) -> created a = Some n -> l2r s n <> None) /\
  (forall n, In (IDelete n) (out s) -> l2r s n = None).
Proof.
  intros HwfL Hvm HO HO' s B s0.
  pose proof (Inv_init L m HwfL Hvm HO) as HI0. fold s0 in HI0.
  destruct (bfs_fold_ok B (bfs_spec R rootR HwfR) B [] s0 eq_refl HI0) as (HI1 & HL1 & S1).
  { intros x w []. }
  destruct (bfs_fold_counts (r2l s0) (flab L) B (bfs_spec R rootR HwfR) B [] s0 eq_refl HI0)
    as (D1 & HC1).
  { intros y _. split; [reflexivity|]. intros c _. reflexivity. }
  { intros a n []. }
  set (s1 := fold_left (visit ign R) B s0) in *.
  assert (Hs : s = delete_phase rootL s1) by reflexivity.
  destruct (delete_loop_out (rpost (S (fnext (W s1))) (W s1) rootL) s1) as [Eo El].
  rewrite <- (delete_phase_unfold rootL s1), <- Hs in Eo, El.
  set (D := rpost (S (fnext (W s1))) (W s1) rootL) in *.
  pose proof (I_wf _ _ _ _ _ _ _ _ HI1) as Hwf1.
  assert (Hdel : length (filter (unmb s1) D) <= length (doc_nodes L rootL)).
  { apply NoDup_incl_length.
    - apply NoDup_filter. apply (D_nodup s1 Hwf1).
    - intros n Hn. apply filter_In in Hn as [Hn Hu]. apply HO'.
      apply (D_in s1 Hwf1) in Hn. destruct (I_orig _ _ _ _ _ _ _ _ HI1 n Hn) as [Ho|Hm]; [exact Ho|].
      unfold unmb in Hu. destruct (l2r s1 n); [discriminate|congruence]. }
  destruct D1 as (C1 & C2 & C3 & C4 & C5 & C6 & C7). change (out s0) with (@nil iact) in *.
  assert (Hnil : forall p, cnt p (@nil iact) = 0) by reflexivity.
  rewrite !Hnil in C1, C2, C3, C4, C5, C6, C7.
  rewrite Eo, !cnt_app, cnt_del_map_delete.
  rewrite !cnt_map_delete by reflexivity.
  split; [lia|]. split; [lia|]. split; [lia|]. split; [lia|]. split; [lia|]. split; [lia|]. split; [lia|].
  split.
  - (* created ids: created during the breadth-first phase, hence matched *)
    intros a n Ha Hc. apply in_app_or in Ha as [Ha|Ha].
    2:{ apply in_map_iff in Ha as (k & <- & _). discriminate. }
    rewrite El. apply (HC1 a n Ha Hc).
  - intros n Hn. apply in_app_or in Hn as [Hn|Hn].
    + exfalso. assert (H0 : cnt is_del (out s1) = 0) by lia.
      unfold cnt in H0. apply length_zero_iff_nil in H0.
      assert (Hin : In (IDelete n) (filter is_del (out s1))) by (apply filter_In; split; [exact Hn|reflexivity]).
      rewrite H0 in Hin. contradiction.
    + apply in_map_iff in Hn as (k & Ek & Hk). inversion Ek; subst k.
      apply filter_In in Hk as [_ Hu]. rewrite El. unfold unmb in Hu. destruct (l2r s1 n); [discriminate|reflexivity].
Qed.

End Sound.

(* ------------------------------------------------------------------ *)
(** * Main theorem (C01, C04, C05)                                      *)
(* ------------------------------------------------------------------ *)
Theorem gen_script_replay : forall ignored L R rootL rootR m,
  wf_forest L rootL -> wf_forest R rootR -> valid_matching L R rootL rootR m ->
  let s := gen_script ignored R rootR L rootL m in
  serr s = false /\ run_spec rootL L (out s) = Some (W s) /\ doc_equiv ignored (W s) rootL R rootR.
Proof.
  intros ign L R rootL rootR m HwfL HwfR Hvm.
  apply (gen_script_core ign R rootL rootR HwfR (desc L rootL) false); [|exact HwfL|exact Hvm|auto].
  intros Pp Pa Pm s ln rn HI H1 H2 H3 H4.
  apply (align_ok R rootL rootR HwfR _ Pp Pa Pm s ln rn HI H1 H2 H3 H4).
Qed.

Theorem gen_script_sound : forall ignored L R rootL rootR m,
  wf_forest L rootL -> wf_forest R rootR -> valid_matching L R rootL rootR m ->
  let s := gen_script ignored R rootR L rootL m in
  serr s = false
  /\ (exists T, run_spec rootL L (out s) = Some T /\ forest_ext_eq T (W s))
  /\ doc_equiv ignored (W s) rootL R rootR.
Proof.
  intros ign L R rootL rootR m HwfL HwfR Hvm s.
  destruct (gen_script_replay ign L R rootL rootR m HwfL HwfR Hvm) as (H1 & H2 & H3).
  split; [exact H1|]. split; [|exact H3].
  exists (W s). split; [exact H2|]. split; [reflexivity|]. split; intros; reflexivity.
Qed.

Print Assumptions gen_script_sound.
