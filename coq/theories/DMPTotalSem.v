(* Totality, part 3: diff_cleanupSemanticLossless and diff_cleanupSemantic always
   return, for every segment list. *)
From Coq Require Import List ZArith NArith Bool Lia.
Import ListNotations.
Require Import XV.DMP XV.DMPBase XV.DMPCommon XV.DMPMerge XV.DMPSemantic XV.DMPTotal XV.DMPTotalMerge.
Local Open Scope Z_scope.

(* ------------------------------------------------------------------ *)
(** * diff_cleanupSemanticLossless *)

Lemma shift_loop_total cc e1 ed e2 b1 bed b2 bs :
  total (loop (S (S (length e2))) (lossless_shift_step cc) (e1, ed, e2, b1, bed, b2, bs)).
Proof.
  apply (loop_total (fun _ => True) (fun s : lstate => let '(_, _, x2, _, _, _, _) := s in S (length x2))).
  - intros [[[[[[x1 xd] x2] y1] yd] y2] s] _. unfold lossless_shift_step.
    destruct xd as [|c xd']; [eexists; split; [reflexivity|exact I]|].
    destruct x2 as [|c2 x2']; [eexists; split; [reflexivity|exact I]|].
    destruct (N.eqb c c2); [|eexists; split; [reflexivity|exact I]].
    destruct (_ >=? s); (eexists; split; [reflexivity|]); cbn; split; auto; lia.
  - exact I.
  - lia.
Qed.

Definition mu_dp (s : list seg * Z) : nat := let '(d, p) := s in Z.to_nat (zlen d - p).

Lemma lossless_step_total cc s : (let '(_, p) := s in 1 <= p) ->
  exists r, lossless_step cc s = Ok r /\
    match r with inl s' => (let '(_, p') := s' in 1 <= p') /\ (mu_dp s' < mu_dp s)%nat | inr _ => True end.
Proof.
  destruct s as [d p]. intros Hp. unfold lossless_step.
  destruct (p <? zlen d - 1) eqn:Elt; cbn [negb].
  2:{ eexists. split; [reflexivity|exact I]. }
  destruct (window3 d p) as (pre & [o0 t0] & [o1 t1] & [o2 t2] & post & -> & Hpre); [lia|lia|].
  pose proof (zlen_nonneg post) as Zpost.
  rewrite get0 by lia. cbn [bind]. rewrite get2 by lia. cbn [bind].
  destruct (is_equal o0 && is_equal o2) eqn:Eeq.
  2:{ eexists. split; [reflexivity|]. split; [lia|]. cbn [mu_dp]. zlia. }
  apply andb_true_iff in Eeq as [E0 E2].
  destruct o0; try discriminate. destruct o2; try discriminate.
  rewrite get1 by lia. cbn [bind].
  destruct (commonSuffix_total t0 t1) as (co & Eco). rewrite Eco. cbn [bind].
  apply commonSuffix_spec in Eco as (c & r0 & r1 & Ht0 & Ht1 & Hc & _).
  set (K1 := t0 ++ t1 ++ t2). set (K2 := t0 ++ t2). set (L := length t1).
  assert (Htri : exists e1 ed e2,
    (if negb (co =? 0)
     then (slice_to t0 (- co), slice_from t1 (- co) ++ slice_to t1 (- co), slice_from t1 (- co) ++ t2)
     else (t0, t1, t2)) = (e1, ed, e2) /\ tri_ok K1 K2 L e1 ed e2 /\ (e1 = [] -> t0 <> [] -> e2 <> [])).
  { destruct (co =? 0) eqn:Eco; cbn [negb].
    - exists t0, t1, t2. split; [reflexivity|]. split; [repeat split|]. congruence.
    - assert (Hcn : c <> []). { intros ->. change (zlen (@nil N)) with 0 in Hc. lia. }
      exists r0, (c ++ r1), (c ++ t2). split.
      + rewrite Ht0, Ht1. rewrite !slice_to_app_neg, slice_from_app_neg by (auto; lia). reflexivity.
      + split.
        * subst K1 K2 L. rewrite Ht0, Ht1. unfold tri_ok. rewrite <- !app_assoc, !app_length. repeat split. lia.
        * intros _ _ Hx. apply app_eq_nil in Hx as [Hx _]. contradiction. }
  destruct Htri as (e1 & ed & e2 & Heq & Htri & Hne).
  rewrite Heq. clear Heq.
  destruct (shift_loop_total cc e1 ed e2 e1 ed e2 (semantic_score cc e1 ed + semantic_score cc ed e2)) as ([[b1 bed] b2] & Eb).
  rewrite Eb. cbn [bind].
  apply (shift_loop_spec cc K1 K2 L) in Eb as [Hb Hbi]; [|assumption].
  destruct (str_eqb t0 b1) eqn:Et0; cbn [negb].
  { eexists. split; [reflexivity|]. split; [lia|]. cbn [mu_dp]. zlia. }
  apply str_eqb_neq in Et0.
  destruct (str_eqb b1 []) eqn:Eb1; cbn [negb bind].
  - apply str_eqb_eq in Eb1. subst b1.
    assert (Hb2 : b2 <> []).
    { destruct Hbi as [Hbi|Hbi]; [|congruence]. inversion Hbi; subst. apply Hne; [reflexivity|]. congruence. }
    rewrite del0 by lia. cbn [bind]. rewrite get0 by lia. cbn [bind]. rewrite set0 by lia. cbn [bind].
    destruct (str_eqb b2 []) eqn:Eb2; [apply str_eqb_eq in Eb2; congruence|]. cbn [negb bind].
    rewrite get1 by lia. cbn [bind]. rewrite set1 by lia. cbn [bind].
    eexists. split; [reflexivity|]. split; [lia|]. cbn [mu_dp]. zlia.
  - rewrite set0 by lia. cbn [bind]. rewrite get1 by lia. cbn [bind]. rewrite set1 by lia. cbn [bind].
    destruct (str_eqb b2 []) eqn:Eb2; cbn [negb bind].
    + rewrite del2 by lia. cbn [bind]. eexists. split; [reflexivity|]. split; [lia|]. cbn [mu_dp]. zlia.
    + rewrite get2 by lia. cbn [bind]. rewrite set2 by lia. cbn [bind].
      eexists. split; [reflexivity|]. split; [lia|]. cbn [mu_dp]. zlia.
Qed.

Lemma cleanupSemanticLossless_total cc d : total (cleanupSemanticLossless cc d).
Proof.
  unfold cleanupSemanticLossless.
  apply (loop_total (fun s : list seg * Z => let '(_, p) := s in 1 <= p) mu_dp).
  - intros s Hs. destruct (lossless_step_total cc s Hs) as (r & Er & Hr). exists r. split; [assumption|].
    destruct r as [[d' p']|]; [|exact I]. exact Hr.
  - lia.
  - cbn. unfold zlen. lia.
Qed.

(* ------------------------------------------------------------------ *)
(** * diff_cleanupSemantic: the loop that eliminates small equalities *)

Fixpoint neq (d : list seg) : Z := match d with [] => 0 | s :: r => (if is_equal (fst s) then 1 else 0) + neq r end.

Lemma neq_app a b : neq (a ++ b) = neq a + neq b.
Proof. induction a as [|s a IH]; cbn [app neq]; lia. Qed.
Lemma neq_nonneg d : 0 <= neq d.
Proof. induction d as [|s d IH]; cbn [neq]; [lia|]. destruct (is_equal (fst s)); lia. Qed.
Lemma neq_le_len d : neq d <= zlen d.
Proof. induction d as [|s d IH]; cbn [neq]; [reflexivity|]. rewrite zlen_cons. destruct (is_equal (fst s)); lia. Qed.

Section TSem1.
  Variable n : Z.          (* length of the input *)
  Variable C : Z.          (* length + number of equalities: constant *)
  Hypothesis HC : C <= 2 * n.
  Hypothesis Hn : 0 <= n.

  Definition sinv_s1 (s : sstate) : Prop :=
    let '(d, eqs, lastEq, p, _, _, _, _, _) := s in
    0 <= p /\ Forall (fun e => 0 <= e) eqs /\ zlen d + neq d = C /\
    (forall le, lastEq = Some le -> exists e eqs', eqs = e :: eqs' /\ py_get d e = Ok (EQUAL, le)).

  Definition mu_s1 (s : sstate) : nat :=
    let '(d, eqs, lastEq, p, _, _, _, _, _) := s in Z.to_nat (neq d * (2 * n + 2) + (zlen d - p)).

  Lemma sem1_step_total s : sinv_s1 s -> exists r, sem1_step s = Ok r /\
    match r with inl s' => sinv_s1 s' /\ (mu_s1 s' < mu_s1 s)%nat | inr _ => True end.
  Proof.
    destruct s as [[[[[[[[d eqs] lastEq] p] li1] ld1] li2] ld2] ch].
    intros (Hp & Heqs & Hc & Hlast). unfold sem1_step.
    pose proof (neq_nonneg d) as Nd. pose proof (zlen_nonneg d) as Zd.
    destruct (p <? zlen d) eqn:Elt; cbn [negb].
    2:{ eexists. split; [reflexivity|exact I]. }
    destruct (window1 d p) as (pre & [o t] & post & Hd & Hpre); [lia|lia|].
    assert (Hget : py_get d p = Ok (o, t)) by (rewrite Hd; apply get0; lia).
    rewrite Hget. cbn [bind].
    destruct (is_equal o) eqn:Eo.
    - destruct o; try discriminate. eexists. split; [reflexivity|]. split.
      + split; [lia|]. split; [constructor; assumption|]. split; [assumption|].
        intros le Hle. assert (le = t) by congruence. subst le. exists p, eqs. split; [reflexivity|assumption].
      + cbn [mu_s1]. nia.
    - set (li2' := if is_insert o then li2 + zlen t else li2).
      set (ld2' := if is_insert o then ld2 else ld2 + zlen t).
      destruct (truthy lastEq && _ && _) eqn:Econd.
      + apply andb_true_iff in Econd as [Econd _]. apply andb_true_iff in Econd as [Etr _].
        destruct lastEq as [le|]; [|discriminate]. destruct le as [|c0 le']; [discriminate|].
        set (le := c0 :: le') in *.
        destruct (Hlast le eq_refl) as (e & eqs1 & -> & Hge).
        pose proof (Forall_inv Heqs) as He. pose proof (Forall_inv_tail Heqs) as Heqs1. cbn beta in He.
        apply py_get_split in Hge as (pre1 & post1 & Hd1 & Hpre1); [|assumption].
        rewrite Hd1.
        rewrite ins0 by lia. rewrite get1 by lia. cbn [bind]. rewrite set1 by lia. cbn [bind].
        eexists. split; [reflexivity|].
        assert (Hp' : 0 <= match match eqs1 with [] => [] | _ :: r => r end with [] => -1 | e2 :: _ => e2 end + 1).
        { destruct eqs1 as [|e1 [|e2 eqs2]]; try lia.
          pose proof (Forall_inv (Forall_inv_tail Heqs1)) as H2. cbn beta in H2. lia. }
        split.
        * split; [exact Hp'|]. split.
          { destruct eqs1 as [|e1 eqs2]; [constructor|]. exact (Forall_inv_tail Heqs1). }
          split.
          { rewrite Hd1 in Hc. rewrite !zlen_app, !zlen_cons, !neq_app in *. cbn [neq fst is_equal] in *. lia. }
          intros ? Hx. discriminate.
        * cbn [mu_s1].
          assert (Hl : zlen d <= 2 * n) by lia.
          rewrite Hd1 in *. rewrite !zlen_app, !zlen_cons, !neq_app in *. cbn [neq fst is_equal] in *.
          pose proof (neq_nonneg pre1). pose proof (neq_nonneg post1).
          pose proof (zlen_nonneg pre1). pose proof (zlen_nonneg post1). nia.
      + eexists. split; [reflexivity|]. split.
        * split; [lia|]. split; [assumption|]. split; assumption.
        * cbn [mu_s1]. nia.
  Qed.
End TSem1.

(* ------------------------------------------------------------------ *)
(** * diff_cleanupSemantic: the overlap loop *)

Lemma sem2_step_total s : (let '(_, p) := s in 1 <= p) ->
  exists r, sem2_step s = Ok r /\
    match r with inl s' => (let '(_, p') := s' in 1 <= p') /\ (mu_dp s' < mu_dp s)%nat | inr _ => True end.
Proof.
  destruct s as [d p]. intros Hp. unfold sem2_step.
  destruct (p <? zlen d) eqn:Elt; cbn [negb].
  2:{ eexists. split; [reflexivity|exact I]. }
  destruct (window2 d p) as (pre & [o0 x] & [o1 y] & post & -> & Hpre); [lia|lia|].
  pose proof (zlen_nonneg post) as Zpost.
  rewrite get0 by lia. cbn [bind]. rewrite get1 by lia. cbn [bind].
  destruct (is_delete o0 && is_insert o1) eqn:Eops.
  2:{ eexists. split; [reflexivity|]. split; [lia|]. cbn [mu_dp]. zlia. }
  destruct (commonOverlap_total x y) as (ov1 & ->). destruct (commonOverlap_total y x) as (ov2 & ->). cbn [bind].
  destruct (ov1 >=? ov2).
  - destruct ((2 * ov1 >=? zlen x) || (2 * ov1 >=? zlen y)).
    + rewrite ins1 by lia. rewrite set0 by lia. cbn [bind]. rewrite set2 by lia. cbn [bind].
      eexists. split; [reflexivity|]. split; [lia|]. cbn [mu_dp]. zlia.
    + eexists. split; [reflexivity|]. split; [lia|]. cbn [mu_dp]. zlia.
  - destruct ((2 * ov2 >=? zlen x) || (2 * ov2 >=? zlen y)).
    + rewrite ins1 by lia. rewrite set0 by lia. cbn [bind]. rewrite set2 by lia. cbn [bind].
      eexists. split; [reflexivity|]. split; [lia|]. cbn [mu_dp]. zlia.
    + eexists. split; [reflexivity|]. split; [lia|]. cbn [mu_dp]. zlia.
Qed.

Lemma cleanupSemantic_overlap_total d : total (cleanupSemantic_overlap d).
Proof.
  unfold cleanupSemantic_overlap.
  apply (loop_total (fun s : list seg * Z => let '(_, p) := s in 1 <= p) mu_dp).
  - intros s Hs. destruct (sem2_step_total s Hs) as (r & Er & Hr). exists r. split; [assumption|].
    destruct r as [[d' p']|]; [|exact I]. exact Hr.
  - lia.
  - cbn. unfold zlen. lia.
Qed.

(* ------------------------------------------------------------------ *)
(** * diff_cleanupSemantic *)

Lemma cleanupSemantic_pre_total cc d : total (cleanupSemantic_pre cc d).
Proof.
  unfold cleanupSemantic_pre.
  apply total_bind.
  - pose proof (neq_le_len d) as Hle. pose proof (neq_nonneg d) as Hnn. pose proof (zlen_nonneg d) as Zd.
    apply (loop_total (sinv_s1 (zlen d + neq d)) (mu_s1 (zlen d))).
    + apply sem1_step_total; lia.
    + split; [lia|]. split; [constructor|]. split; [reflexivity|]. intros le Hle'. discriminate.
    + cbn [mu_s1]. unfold zlen in *. nia.
  - intros [d1 ch] _. apply total_bind.
    + destruct ch; [apply cleanupMerge_total|apply total_ok].
    + intros d2 _. apply cleanupSemanticLossless_total.
Qed.

Theorem cleanupSemantic_total cc d : total (diff_cleanupSemantic cc d).
Proof.
  unfold diff_cleanupSemantic.
  apply total_bind; [apply cleanupSemantic_pre_total|]. intros d1 _.
  apply total_bind; [apply cleanupSemantic_overlap_total|]. intros d2 _.
  destruct (existsb is_empty_seg d2); [apply cleanupMerge_total|apply total_ok].
Qed.
