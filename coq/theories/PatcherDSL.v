(* patch.Patcher: each `_handle_X` is a straight-line program over a dozen
   instructions; the programs are GENERATED from the Python source on every run
   (Gen/PatcherProg.v); this file is the interpreter.  Model only -- no proofs. *)
From Coq Require Import List NArith ZArith Bool Arith.
Import ListNotations.
Require Import XV.Str XV.Json XV.TextFormat XV.Forest XV.Matcher XV.Differ XV.Path.

Definition var := nat.

Inductive pinstr :=
| PResolve (v : var) (field : str) (with_ns : bool)   (* v = tree.xpath(action.<field>[, namespaces=self.nsmap])[0] *)
| PDetach (v : var)                                   (* v.getparent().remove(v) *)
| PInsertAt (target : var) (posfield : str) (v : var) (* target.insert(action.<pos>, v) *)
| PMakeElement (v target : var) (tagfield : str)      (* v = target.makeelement(action.<tag>) *)
| PMakeComment (v : var) (textfield : str)            (* v = etree.Comment(action.<text>) *)
| PSetTag (v : var) (field : str)
| PSetText (v : var) (field : str)
| PSetTail (v : var) (field : str)
| PAssertHas (v : var) (field : str)                  (* assert action.<field> in v.attrib *)
| PAssertLacks (v : var) (field : str)
| PSetAttr (v : var) (namefield valuefield : str)     (* v.attrib[action.n] = action.v *)
| PDelAttr (v : var) (namefield : str)                (* del v.attrib[action.n] *)
| PCopyAttr (v : var) (newfield oldfield : str)       (* v.attrib[action.new] = v.attrib[action.old] *)
| PBindPrefix (prefixfield urifield : str)            (* self.nsmap[action.prefix] = action.uri *)
| PNop.

Inductive perr := PIndexError | PXPathEvalError | PAssertionError | PKeyError | PAttributeError
                | PTypeError | PValueError.
Inductive pres (A : Type) := POk (a : A) | PErr (e : perr).
Arguments POk {A} a. Arguments PErr {A} e.

Record pstate := PS { ps_f : forest; ps_env : nsenv; ps_vars : var -> option id }.

Section Run.
Variable sig : list (str * list str).
Variable asserts_on : bool.          (* false = python -O *)
Variable root : id.

Definition field (a : gaction) (name : str) : option pyval :=
  match find (fun p => str_eqb (fst p) (ga_ctor a)) sig with
  | None => None
  | Some (_, fl) => match TextFormat.index_of name fl with
                    | Some i => nth_error (ga_fields a) i
                    | None => None
                    end
  end.

Definition get_var (s : pstate) (v : var) : pres id :=
  match ps_vars s v with Some n => POk n | None => PErr PTypeError end.
Definition set_var (s : pstate) (v : var) (n : id) : pstate :=
  PS (ps_f s) (ps_env s) (fun x => if Nat.eqb x v then Some n else ps_vars s x).
Definition with_f (s : pstate) (f : forest) : pstate := PS f (ps_env s) (ps_vars s).

Definition str_field (a : gaction) (name : str) : pres str :=
  match field a name with Some (PStr s) => POk s | _ => PErr PTypeError end.
Definition ostr_field (a : gaction) (name : str) : pres (option str) :=
  match field a name with Some (PStr s) => POk (Some s) | Some PNone => POk None | _ => PErr PTypeError end.
Definition nat_field (a : gaction) (name : str) : pres nat :=
  match field a name with
  | Some (PInt z) => if (z <? 0)%Z then PErr PValueError (* negative positions are not modelled *)
                     else POk (Z.to_nat z)
  | _ => PErr PTypeError
  end.

Definition pbind {A B} (r : pres A) (f : A -> pres B) : pres B :=
  match r with POk a => f a | PErr e => PErr e end.

Definition set_label (f : forest) (n : id) (g : label -> label) : forest := set_lab f n (g (labof f n)).

Definition step_instr (a : gaction) (s : pstate) (i : pinstr) : pres pstate :=
  match i with
  | PResolve v fld with_ns =>
      pbind (str_field a fld) (fun ps =>
      match path_of_str ps with
      | None => PErr PXPathEvalError
      | Some p =>
          match eval_all (if with_ns then ps_env s else []) (ps_f s) root p with
          | None => PErr PXPathEvalError
          | Some [] => PErr PIndexError
          | Some (n :: _) => POk (set_var s v n)
          end
      end)
  | PDetach v =>
      pbind (get_var s v) (fun n =>
      match parentof (ps_f s) n with
      | None => PErr PAttributeError
      | Some _ => POk (with_f s (detach (ps_f s) n))
      end)
  | PInsertAt t posf v =>
      pbind (get_var s t) (fun tn => pbind (get_var s v) (fun n => pbind (nat_field a posf) (fun pos =>
      if is_comment (ltag (labof (ps_f s) tn)) then PErr PTypeError
      else POk (with_f s (insert_at (ps_f s) tn pos n)))))
  | PMakeElement v t tagf =>
      pbind (get_var s t) (fun _ => pbind (str_field a tagf) (fun tag =>
      let '(w, n) := alloc (ps_f s) (Lab (TElem tag) [] None None) in POk (set_var (with_f s w) v n)))
  | PMakeComment v textf =>
      pbind (ostr_field a textf) (fun txt =>
      let '(w, n) := alloc (ps_f s) (Lab TComment [] txt None) in POk (set_var (with_f s w) v n))
  | PSetTag v fld =>
      pbind (get_var s v) (fun n => pbind (str_field a fld) (fun tag =>
      POk (with_f s (set_label (ps_f s) n (fun l => Lab (TElem tag) (lattrs l) (ltext l) (ltail l))))))
  | PSetText v fld =>
      pbind (get_var s v) (fun n => pbind (ostr_field a fld) (fun t =>
      POk (with_f s (set_label (ps_f s) n (fun l => Lab (ltag l) (lattrs l) t (ltail l))))))
  | PSetTail v fld =>
      pbind (get_var s v) (fun n => pbind (ostr_field a fld) (fun t =>
      POk (with_f s (set_label (ps_f s) n (fun l => Lab (ltag l) (lattrs l) (ltext l) t)))))
  | PAssertHas v fld =>
      pbind (get_var s v) (fun n => pbind (str_field a fld) (fun k =>
      if negb asserts_on || ahas (lattrs (labof (ps_f s) n)) k then POk s else PErr PAssertionError))
  | PAssertLacks v fld =>
      pbind (get_var s v) (fun n => pbind (str_field a fld) (fun k =>
      if negb asserts_on || negb (ahas (lattrs (labof (ps_f s) n)) k) then POk s else PErr PAssertionError))
  | PSetAttr v nf vf =>
      pbind (get_var s v) (fun n => pbind (str_field a nf) (fun k => pbind (str_field a vf) (fun x =>
      POk (with_f s (set_label (ps_f s) n (fun l => Lab (ltag l) (aput (lattrs l) k x) (ltext l) (ltail l)))))))
  | PDelAttr v nf =>
      pbind (get_var s v) (fun n => pbind (str_field a nf) (fun k =>
      if ahas (lattrs (labof (ps_f s) n)) k
      then POk (with_f s (set_label (ps_f s) n (fun l => Lab (ltag l) (adel (lattrs l) k) (ltext l) (ltail l))))
      else PErr PKeyError))
  | PCopyAttr v newf oldf =>
      pbind (get_var s v) (fun n => pbind (str_field a newf) (fun k' => pbind (str_field a oldf) (fun k =>
      match aget (lattrs (labof (ps_f s) n)) k with
      | Some x => POk (with_f s (set_label (ps_f s) n (fun l => Lab (ltag l) (aput (lattrs l) k' x) (ltext l) (ltail l))))
      | None => PErr PKeyError
      end)))
  | PBindPrefix pf uf =>
      pbind (ostr_field a pf) (fun p => pbind (str_field a uf) (fun u =>
      match p with
      | Some p => POk (PS (ps_f s) (env_set (ps_env s) p u) (ps_vars s))
      | None => PErr PTypeError       (* nsmap[None]: later xpath calls raise TypeError; not modelled further *)
      end))
  | PNop => POk s
  end.

Fixpoint run_prog (a : gaction) (s : pstate) (prog : list pinstr) : pres pstate :=
  match prog with
  | [] => POk s
  | i :: r => pbind (step_instr a s i) (fun s' => run_prog a s' r)
  end.

Variable progs : list (str * list pinstr).

(* handle_action: getattr(self, "_handle_" + type(action).__name__) *)
Definition handle_action (s : pstate) (a : gaction) : pres pstate :=
  match find (fun p => str_eqb (fst p) (ga_ctor a)) progs with
  | None => PErr PAttributeError
  | Some (_, prog) =>
      pbind (run_prog a (PS (ps_f s) (ps_env s) (fun _ => None)) prog) (fun s' => POk s')
  end.

Fixpoint patch_loop (s : pstate) (acts : list gaction) : pres pstate :=
  match acts with
  | [] => POk s
  | a :: r => pbind (handle_action s a) (fun s' => patch_loop s' r)
  end.

(* Patcher.patch: nsmap = root nsmap without the default namespace; deep copy; loop *)
Definition patch (f : forest) (root_nsmap : list (option str * str)) (acts : list gaction) : pres forest :=
  let env := flat_map (fun kv => match fst kv with Some p => [(p, snd kv)] | None => [] end) root_nsmap in
  pbind (patch_loop (PS f env (fun _ => None)) acts) (fun s => POk (ps_f s)).

End Run.
