(* XmlFmtProofs1 -- the working tree of the XML formatter seen through its marks.

   Contents
   * list / position lemmas (set_nth, map_at, get_at, insert_kid);
   * [lidx]: the index of a child among the children that pass a filter, and how
     filtering commutes with replacing / inserting / killing a child;
   * [rip_spec]  (_get_real_insert_position): a position among the LIVE children
     is mapped to the position among ALL children just before the live child of
     that rank -- inserting there and then forgetting the deleted children is
     inserting at the requested position among the live ones;
   * the two views of a working tree (strings still carry the wrapper
     placeholders): [aw] = every marked change accepted, [rw] = rejected;
   * [xpath_view]: _xpath on the working tree (skipping nodes marked deleted)
     is ordinary step-wise unique resolution in the accepted view, and the
     positions correspond by [lpos].
   No axioms. *)
From Coq Require Import List NArith ZArith Bool Arith Lia.
Import ListNotations.
Require Import XV.Str XV.Json XV.TextFormat XV.Forest XV.Matcher XV.Differ XV.Path XV.WF XV.XmlFmt XV.Projections.
Require XV.Placeholder.
Local Open Scope nat_scope.

(* ------------------------------------------------------------------ *)
(** * Lists *)

Lemma set_nth_length {A} i (x : A) l : length (set_nth i x l) = length l.
Proof. revert i; induction l as [|y l IH]; intros [|i]; cbn; auto. Qed.

Lemma nth_error_set_nth_same {A} i (x : A) l : i < length l -> nth_error (set_nth i x l) i = Some x.
Proof. revert i; induction l as [|y l IH]; intros [|i] H; cbn in *; try lia; [reflexivity|apply IH; lia]. Qed.

Lemma nth_error_set_nth_other {A} i j (x : A) l : i <> j -> nth_error (set_nth i x l) j = nth_error l j.
Proof.
  revert i j; induction l as [|y l IH]; intros [|i] [|j] H; cbn; auto; try congruence.
Qed.

Lemma set_nth_id {A} i (x : A) l : nth_error l i = Some x -> set_nth i x l = l.
Proof. revert i; induction l as [|y l IH]; intros [|i] H; cbn in *; try discriminate; [congruence|f_equal; auto]. Qed.

Lemma set_nth_split {A} i (x y : A) l : nth_error l i = Some y ->
  l = firstn i l ++ y :: skipn (S i) l /\ set_nth i x l = firstn i l ++ x :: skipn (S i) l.
Proof.
  revert i; induction l as [|z l IH]; intros [|i] H; cbn in *; try discriminate.
  - inversion H; subst. split; reflexivity.
  - destruct (IH i H) as [E1 E2]. split; [f_equal; exact E1|f_equal; exact E2].
Qed.

Lemma nth_error_Some_lt {A} (l : list A) i x : nth_error l i = Some x -> i < length l.
Proof. intros H. apply nth_error_Some. congruence. Qed.

(* ------------------------------------------------------------------ *)
(** * Children that pass a filter *)

Section Live.
Context {A : Type} (live : A -> bool).

Definition lidx (ks : list A) (i : nat) : nat := length (filter live (firstn i ks)).

Lemma lidx_0 ks : lidx ks 0 = 0.
Proof. reflexivity. Qed.

Lemma lidx_cons k ks i : lidx (k :: ks) (S i) = (if live k then 1 else 0) + lidx ks i.
Proof. unfold lidx. cbn. destruct (live k); reflexivity. Qed.

Lemma lidx_le ks i : lidx ks i <= length (filter live ks).
Proof.
  unfold lidx. replace (filter live ks) with (filter live (firstn i ks ++ skipn i ks)) by (now rewrite firstn_skipn).
  rewrite filter_app, app_length. lia.
Qed.

Lemma filter_firstn_lidx ks i : filter live (firstn i ks) = firstn (lidx ks i) (filter live ks).
Proof.
  unfold lidx. replace (filter live ks) with (filter live (firstn i ks ++ skipn i ks)) by (now rewrite firstn_skipn).
  rewrite filter_app.
  rewrite firstn_app, firstn_all, Nat.sub_diag. cbn. now rewrite app_nil_r.
Qed.

Lemma filter_skipn_lidx ks i : filter live (skipn i ks) = skipn (lidx ks i) (filter live ks).
Proof.
  unfold lidx. replace (filter live ks) with (filter live (firstn i ks ++ skipn i ks)) by (now rewrite firstn_skipn).
  rewrite filter_app.
  rewrite skipn_app, skipn_all, Nat.sub_diag. reflexivity.
Qed.

Lemma nth_filter ks i k : nth_error ks i = Some k -> live k = true ->
  nth_error (filter live ks) (lidx ks i) = Some k.
Proof.
  revert i; induction ks as [|y ks IH]; intros [|i] H L; cbn [nth_error] in H; try discriminate.
  - inversion H; subst. rewrite lidx_0. cbn. rewrite L. reflexivity.
  - rewrite lidx_cons. cbn [filter]. destruct (live y); cbn; auto.
Qed.

Lemma filter_set_nth ks i k k' : nth_error ks i = Some k -> live k = true -> live k' = true ->
  filter live (set_nth i k' ks) = set_nth (lidx ks i) k' (filter live ks).
Proof.
  revert i; induction ks as [|y ks IH]; intros [|i] H L L'; cbn [nth_error] in H; try discriminate.
  - inversion H; subst. rewrite lidx_0. cbn. rewrite L, L'. reflexivity.
  - rewrite lidx_cons. cbn [set_nth filter]. destruct (live y); cbn; [f_equal|]; eauto.
Qed.

Definition remove_nth (i : nat) (l : list A) : list A := firstn i l ++ skipn (S i) l.

Lemma filter_set_nth_dead ks i k k' : nth_error ks i = Some k -> live k = true -> live k' = false ->
  filter live (set_nth i k' ks) = remove_nth (lidx ks i) (filter live ks).
Proof.
  revert i; induction ks as [|y ks IH]; intros [|i] H L L'; cbn [nth_error] in H; try discriminate.
  - inversion H; subst. rewrite lidx_0. cbn. rewrite L, L'. reflexivity.
  - rewrite lidx_cons. cbn [set_nth filter]. destruct (live y); cbn; [unfold remove_nth in *; cbn; f_equal|]; eauto.
Qed.

Lemma filter_set_nth_same ks i k k' : nth_error ks i = Some k -> live k = false -> live k' = false ->
  filter live (set_nth i k' ks) = filter live ks.
Proof.
  revert i; induction ks as [|y ks IH]; intros [|i] H L L'; cbn [nth_error] in H; try discriminate.
  - inversion H; subst. cbn. rewrite L, L'. reflexivity.
  - cbn [set_nth filter]. destruct (live y); [f_equal|]; eauto.
Qed.

Lemma filter_insert_kid ks r x : r <= length ks -> live x = true ->
  filter live (insert_kid r x ks) = insert_kid (lidx ks r) x (filter live ks).
Proof.
  intros Hr L. unfold insert_kid. rewrite filter_app. cbn. rewrite L.
  now rewrite filter_firstn_lidx, filter_skipn_lidx.
Qed.

Lemma filter_insert_kid_dead ks r x : live x = false -> filter live (insert_kid r x ks) = filter live ks.
Proof.
  intros L. unfold insert_kid. rewrite filter_app. cbn. rewrite L.
  rewrite <- filter_app, firstn_skipn. reflexivity.
Qed.
End Live.

(* ------------------------------------------------------------------ *)
(** * _get_real_insert_position *)

Definition alive_w (t : xtree) : bool := negb (is_deleted t).

Lemma lidx_nil {A} (live : A -> bool) i : lidx live [] i = 0.
Proof. unfold lidx. now rewrite firstn_nil. Qed.

Lemma rip_loop_spec ks : forall position p off,
  p <= position -> position - p <= length (filter alive_w ks) ->
  exists r, rip_loop ks position p off = r + p + off /\ r <= length ks /\ lidx alive_w ks r = position - p.
Proof.
  induction ks as [|c ks IH]; intros position p off Hp Hn.
  - cbn in Hn. exists 0. cbn [rip_loop length]. rewrite lidx_nil. repeat split; lia.
  - cbn [rip_loop]. cbn [filter] in Hn. unfold alive_w at 1 in Hn. destruct (is_deleted c) eqn:Ed; cbn [negb] in Hn.
    + destruct (Nat.ltb position p) eqn:El; [apply Nat.ltb_lt in El; lia|].
      destruct (IH position p (S off) Hp Hn) as (r & E & Hr & Hl).
      exists (S r). split; [rewrite E; lia|]. split; [cbn [length]; lia|].
      rewrite lidx_cons. unfold alive_w at 1. rewrite Ed. exact Hl.
    + cbn [length] in Hn. destruct (Nat.ltb position (S p)) eqn:El.
      * apply Nat.ltb_lt in El. exists 0. split; [lia|]. split; [lia|]. rewrite lidx_0. lia.
      * apply Nat.ltb_ge in El.
        destruct (IH position (S p) off ltac:(lia) ltac:(lia)) as (r & E & Hr & Hl).
        exists (S r). split; [rewrite E; lia|]. split; [cbn [length]; lia|].
        rewrite lidx_cons. unfold alive_w at 1. rewrite Ed. cbn [negb]. lia.
Qed.

(* position among the live children -> position among all children *)
Theorem rip_spec ks position : position <= length (filter alive_w ks) ->
  real_insert_position ks position <= length ks /\
  lidx alive_w ks (real_insert_position ks position) = position.
Proof.
  intros H. unfold real_insert_position.
  destruct (rip_loop_spec ks position 0 0 ltac:(lia) ltac:(lia)) as (r & E & Hr & Hl).
  rewrite E. replace (r + 0 + 0) with r by lia. split; [exact Hr|]. rewrite Hl. lia.
Qed.

(* inserting a live node at the real position = inserting it at the requested
   position among the live children *)
Corollary rip_insert ks position x : position <= length (filter alive_w ks) -> alive_w x = true ->
  filter alive_w (insert_kid (real_insert_position ks position) x ks)
  = insert_kid position x (filter alive_w ks).
Proof.
  intros H L. destruct (rip_spec ks position H) as [Hr Hl].
  rewrite (filter_insert_kid alive_w ks _ x Hr L), Hl. reflexivity.
Qed.

(* ------------------------------------------------------------------ *)
(** * Positions *)

Lemma get_at_app t p q : get_at t (p ++ q) = match get_at t p with Some n => get_at n q | None => None end.
Proof.
  revert t; induction p as [|i p IH]; intros t; cbn; [reflexivity|].
  destruct (nth_error (xkids t) i); [apply IH|reflexivity].
Qed.

Lemma xkids_with_kids t ks : xkids (with_kids t ks) = ks.
Proof. reflexivity. Qed.

Lemma get_at_map_at p f t n : get_at t p = Some n -> get_at (map_at p f t) p = Some (f n).
Proof.
  revert t; induction p as [|i p IH]; intros t H; cbn in *; [congruence|].
  destruct (nth_error (xkids t) i) as [k|] eqn:E; [|discriminate].
  cbn. rewrite nth_error_set_nth_same by (eapply nth_error_Some_lt; eauto). apply IH, H.
Qed.

Lemma map_at_id p t n : get_at t p = Some n -> map_at p (fun _ => n) t = t.
Proof.
  revert t; induction p as [|i p IH]; intros t H; cbn in *; [congruence|].
  destruct (nth_error (xkids t) i) as [k|] eqn:E; [|discriminate].
  rewrite (IH k H), (set_nth_id _ _ _ E). destruct t; reflexivity.
Qed.

Lemma map_at_ext p f g t : (forall n, get_at t p = Some n -> f n = g n) -> map_at p f t = map_at p g t.
Proof.
  revert t; induction p as [|i p IH]; intros t H; cbn in *; [apply H; reflexivity|].
  destruct (nth_error (xkids t) i) as [k|] eqn:E; [|reflexivity].
  rewrite (IH k); [reflexivity|]. intros n Hn. apply H. exact Hn.
Qed.

(* ------------------------------------------------------------------ *)
(** * The two views of a working tree *)

(* the fixed placeholders of PlaceholderMaker.__init__ *)
Definition INS_O : N := 57346%N.
Definition INS_C : N := 57345%N.
Definition DEL_O : N := 57348%N.
Definition DEL_C : N := 57347%N.

(* accepted: the groups opened by the delete placeholder are skipped; every other placeholder (any code
   point of the placeholder range: the insert pair, and the diff:replace openers and closer, which the
   maker allocates as it goes) is transparent *)
Definition is_pua (c : N) : bool := N.ltb 57344 c && N.leb c 63743.
Fixpoint astr_go (skip : bool) (x : str) : str :=
  match x with
  | [] => []
  | c :: r =>
      if N.eqb c DEL_O then astr_go true r
      else if N.eqb c DEL_C then astr_go false r
      else if is_pua c then astr_go skip r
      else if skip then astr_go skip r
      else c :: astr_go skip r
  end.
Definition astr (x : str) : str := astr_go false x.

(* rejected: the groups opened by the insert placeholder are skipped; the opener of a diff:replace group (a
   placeholder the maker [s] has allocated, with the old text in the old-text attribute of its element) gives the
   old text and its group is skipped; every other placeholder is transparent *)
Definition REP_O : N := 57350%N.
Definition REP_C : N := 57349%N.
Definition rold (s : pstate) (c : N) : option str :=
  match Placeholder.p2t_get (Placeholder.p2t s) c with
  | Some (el, Placeholder.TOpen, Some cl) =>
      if N.eqb cl REP_C then Some (match aget (xattrs el) s_old_text with Some o => o | None => [] end) else None
  | _ => None
  end.
Fixpoint rstr_go (s : pstate) (skip : bool) (x : str) : str :=
  match x with
  | [] => []
  | c :: r =>
      if N.eqb c INS_O then rstr_go s true r
      else if N.eqb c INS_C || N.eqb c REP_C then rstr_go s false r
      else match rold s c with
           | Some old => (if skip then [] else old) ++ rstr_go s true r
           | None => if is_pua c then rstr_go s skip r
                     else if skip then rstr_go s skip r else c :: rstr_go s skip r
           end
  end.
Definition rstr (s : pstate) (x : str) : str := rstr_go s false x.

Definition alive_r (t : xtree) : bool := negb (is_inserted t).

Fixpoint aw (W : xtree) : xtree :=
  match W with
  | XNode tag attrs text tail kids =>
      XNode tag (plain_attrs attrs) (Some (astr (otxt text))) (astr tail)
            ((fix go (ks : list xtree) : list xtree :=
                match ks with
                | [] => []
                | k :: r => if alive_w k then aw k :: go r else go r
                end) kids)
  end.

Fixpoint rw (s : pstate) (W : xtree) : xtree :=
  match W with
  | XNode tag attrs text tail kids =>
      XNode (proj_tag false W) (old_attrs attrs) (Some (rstr s (otxt text))) (rstr s tail)
            ((fix go (ks : list xtree) : list xtree :=
                match ks with
                | [] => []
                | k :: r => if alive_r k then rw s k :: go r else go r
                end) kids)
  end.

Lemma aw_unfold tag attrs text tail kids :
  aw (XNode tag attrs text tail kids)
  = XNode tag (plain_attrs attrs) (Some (astr (otxt text))) (astr tail) (map aw (filter alive_w kids)).
Proof.
  cbn [aw]. f_equal. induction kids as [|k r IH]; cbn; [reflexivity|].
  destruct (alive_w k); cbn; [f_equal|]; exact IH.
Qed.

Lemma rw_unfold s tag attrs text tail kids :
  rw s (XNode tag attrs text tail kids)
  = XNode (proj_tag false (XNode tag attrs text tail kids)) (old_attrs attrs)
          (Some (rstr s (otxt text))) (rstr s tail) (map (rw s) (filter alive_r kids)).
Proof.
  cbn [rw]. f_equal. induction kids as [|k r IH]; cbn; [reflexivity|].
  destruct (alive_r k); cbn; [f_equal|]; exact IH.
Qed.

Lemma aw_tag W : xtag (aw W) = xtag W.
Proof. destruct W. rewrite aw_unfold. reflexivity. Qed.
Lemma aw_kids W : xkids (aw W) = map aw (filter alive_w (xkids W)).
Proof. destruct W. rewrite aw_unfold. reflexivity. Qed.
Lemma aw_attrs W : xattrs (aw W) = plain_attrs (xattrs W).
Proof. destruct W. rewrite aw_unfold. reflexivity. Qed.
Lemma aw_text W : xtext (aw W) = Some (astr (otxt (xtext W))).
Proof. destruct W. rewrite aw_unfold. reflexivity. Qed.
Lemma aw_tail W : xtail (aw W) = astr (xtail W).
Proof. destruct W. rewrite aw_unfold. reflexivity. Qed.

(* ---- diff names ---- *)
Arguments is_diff_name : simpl never.
Arguments dname : simpl never.
Arguments dn : simpl never.
Lemma prefixb_app p s : prefixb p (p ++ s) = true.
Proof. induction p as [|a p IH]; cbn; [reflexivity|]. now rewrite N.eqb_refl, IH. Qed.

Lemma is_diff_dname l : is_diff_name (dname l) = true.
Proof. apply prefixb_app. Qed.

Lemma aget_plain_attrs a k : is_diff_name k = true -> aget (plain_attrs a) k = None.
Proof.
  intros Hk. unfold plain_attrs. induction a as [|[k' v] a IH]; cbn [filter fst]; [reflexivity|].
  destruct (is_diff_name k') eqn:E; cbn [negb aget]; [exact IH|].
  destruct (str_eqb k k') eqn:Ek; [|exact IH].
  apply streqb_true in Ek. subst. congruence.
Qed.

Lemma aw_not_deleted W : is_deleted (aw W) = false.
Proof.
  unfold is_deleted, ahas. rewrite aw_attrs, aget_plain_attrs; [reflexivity|]. apply is_diff_dname.
Qed.

Lemma aw_alive W : alive_w (aw W) = true.
Proof. unfold alive_w. now rewrite aw_not_deleted. Qed.

(* ------------------------------------------------------------------ *)
(** * _xpath = resolution in the accepted view *)

(* a position of the working tree, as a position of the accepted view *)
Fixpoint lpos (W : xtree) (p : pos) : pos :=
  match p with
  | [] => []
  | i :: r => lidx alive_w (xkids W) i ::
              match nth_error (xkids W) i with Some k => lpos k r | None => [] end
  end.

Lemma xmatches_view e t ks : forall i j,
  map (fun ik : nat * xtree => (j + lidx alive_w ks (fst ik - i), aw (snd ik))) (xmatches e t i ks)
  = xmatches e t j (map aw (filter alive_w ks)).
Proof.
  induction ks as [|k ks IH]; intros i j; cbn [xmatches map filter]; [reflexivity|].
  specialize (IH (S i)).
  assert (Hge : forall ik, In ik (xmatches e t (S i) ks) -> S i <= fst ik).
  { clear. revert i. induction ks as [|k ks IH]; intros i ik H; cbn in H; [contradiction|].
    destruct (test_matches e t (TElem (xtag k))) as [[|]|]; try (apply IH in H; lia).
    destruct (is_deleted k); [apply IH in H; lia|].
    destruct H as [<-|H]; [cbn; lia|apply IH in H; lia]. }
  assert (Hmap : forall j',
             map (fun ik : nat * xtree => (j' + lidx alive_w (k :: ks) (fst ik - i), aw (snd ik))) (xmatches e t (S i) ks)
             = map (fun ik : nat * xtree => (j' + (if alive_w k then 1 else 0) + lidx alive_w ks (fst ik - S i), aw (snd ik)))
                   (xmatches e t (S i) ks)).
  { intros j'. apply map_ext_in. intros ik Hin. apply Hge in Hin.
    replace (fst ik - i) with (S (fst ik - S i)) by lia. rewrite lidx_cons. f_equal. lia. }
  destruct (test_matches e t (TElem (xtag k))) as [[|]|] eqn:Et.
  - unfold alive_w at 2. destruct (is_deleted k) eqn:Ed; cbn [negb].
    + rewrite Hmap. unfold alive_w at 1. rewrite Ed. cbn [negb]. rewrite Nat.add_0_r. apply IH.
    + cbn [map xmatches fst snd]. rewrite aw_tag, Et, aw_not_deleted.
      rewrite Nat.sub_diag, lidx_0, Nat.add_0_r. f_equal.
      rewrite Hmap. unfold alive_w at 1. rewrite Ed. cbn [negb].
      rewrite <- (IH (S j)). apply map_ext. intros ik. f_equal. lia.
  - unfold alive_w at 2. destruct (is_deleted k) eqn:Ed; cbn [negb].
    + rewrite Hmap. unfold alive_w at 1. rewrite Ed. cbn [negb]. rewrite Nat.add_0_r. apply IH.
    + cbn [map xmatches]. rewrite aw_tag, Et.
      rewrite Hmap. unfold alive_w at 1. rewrite Ed. cbn [negb].
      rewrite <- (IH (S j)). apply map_ext. intros ik. f_equal. lia.
  - unfold alive_w at 2. destruct (is_deleted k) eqn:Ed; cbn [negb].
    + rewrite Hmap. unfold alive_w at 1. rewrite Ed. cbn [negb]. rewrite Nat.add_0_r. apply IH.
    + cbn [map xmatches]. rewrite aw_tag, Et.
      rewrite Hmap. unfold alive_w at 1. rewrite Ed. cbn [negb].
      rewrite <- (IH (S j)). apply map_ext. intros ik. f_equal. lia.
Qed.

Lemma xmatches_sound e t ks : forall i ik, In ik (xmatches e t i ks) ->
  i <= fst ik /\ nth_error ks (fst ik - i) = Some (snd ik) /\ alive_w (snd ik) = true.
Proof.
  induction ks as [|k ks IH]; intros i ik H; cbn [xmatches] in H; [contradiction|].
  assert (Hrest : In ik (xmatches e t (S i) ks) ->
                  i <= fst ik /\ nth_error (k :: ks) (fst ik - i) = Some (snd ik) /\ alive_w (snd ik) = true).
  { intros Hin. destruct (IH _ _ Hin) as (Hle & Hn & Ha). split; [lia|]. split; [|exact Ha].
    replace (fst ik - i) with (S (fst ik - S i)) by lia. exact Hn. }
  destruct (test_matches e t (TElem (xtag k))) as [[|]|]; auto.
  destruct (is_deleted k) eqn:Ed; auto.
  destruct H as [<-|H]; auto. cbn [fst snd]. rewrite Nat.sub_diag. unfold alive_w. rewrite Ed. auto.
Qed.

Lemma pick_In idx ms m : pick idx ms = FOk m -> In m ms.
Proof.
  destruct idx as [[|k]|]; cbn.
  - destruct (rev ms) as [|x r] eqn:E; [discriminate|]. intros H; inversion H; subst.
    apply in_rev. rewrite E. now left.
  - destruct (nth_error ms k) eqn:E; [|discriminate]. intros H; inversion H; subst. eapply nth_error_In; eauto.
  - destruct ms as [|x [|y r]]; try discriminate. intros H; inversion H; subst. now left.
Qed.

Lemma pick_map (f : nat * xtree -> nat * xtree) idx ms :
  pick idx (map f ms) = match pick idx ms with FOk m => FOk (f m) | FErr x => FErr x end.
Proof.
  destruct idx as [[|k]|]; cbn.
  - rewrite <- map_rev. destruct (rev ms); reflexivity.
  - rewrite nth_error_map. destruct (nth_error ms k); reflexivity.
  - destruct ms as [|x [|y r]]; reflexivity.
Qed.

Lemma xp_step_view e s ks :
  xp_step e s (map aw (filter alive_w ks))
  = match xp_step e s ks with
    | FOk ik => FOk (lidx alive_w ks (fst ik), aw (snd ik))
    | FErr x => FErr x
    end.
Proof.
  unfold xp_step. destruct (prefix_ok e (st_test s)); [|reflexivity].
  rewrite <- (xmatches_view e (st_test s) ks 0 0).
  rewrite pick_map. destruct (pick (st_idx s) (xmatches e (st_test s) 0 ks)) as [[i k]|x]; [|reflexivity].
  cbn [fst snd]. now rewrite Nat.sub_0_r.
Qed.

Lemma xp_step_sound e s ks i k : xp_step e s ks = FOk (i, k) -> nth_error ks i = Some k /\ alive_w k = true.
Proof.
  unfold xp_step. destruct (prefix_ok e (st_test s)); [|discriminate]. intros H.
  apply pick_In, xmatches_sound in H. cbn [fst snd] in H. rewrite Nat.sub_0_r in H. tauto.
Qed.

(* every node on the way exists and is alive *)
Fixpoint lpath (W : xtree) (q : pos) : Prop :=
  match q with
  | [] => True
  | i :: r => exists k, nth_error (xkids W) i = Some k /\ alive_w k = true /\ lpath k r
  end.

Lemma get_at_view W q : lpath W q -> get_at (aw W) (lpos W q) = option_map aw (get_at W q).
Proof.
  revert W; induction q as [|i r IH]; intros W H; cbn [lpos get_at lpath] in *; [reflexivity|].
  destruct H as (k & Hk & Ha & Hr). rewrite Hk, aw_kids, nth_error_map.
  rewrite (nth_filter alive_w _ _ _ Hk Ha). cbn [option_map]. apply IH, Hr.
Qed.

Lemma lpath_get W q : lpath W q -> exists n, get_at W q = Some n.
Proof.
  revert W; induction q as [|i r IH]; intros W H; cbn [get_at lpath] in *; [eauto|].
  destruct H as (k & Hk & _ & Hr). rewrite Hk. apply IH, Hr.
Qed.

Lemma xp_steps_view e p : forall W acc acc',
  match xp_steps e W p acc with
  | FOk q => exists q0, q = rev acc ++ q0 /\ lpath W q0 /\
                        xp_steps e (aw W) p acc' = FOk (rev acc' ++ lpos W q0)
  | FErr x => xp_steps e (aw W) p acc' = FErr x
  end.
Proof.
  induction p as [|s p IH]; intros W acc acc'; cbn [xp_steps].
  - exists []. rewrite !app_nil_r. cbn. auto.
  - rewrite aw_kids, xp_step_view.
    destruct (xp_step e s (xkids W)) as [[i k]|x] eqn:Es; [|reflexivity].
    cbn [fst snd]. destruct (xp_step_sound _ _ _ _ _ Es) as [Hk Ha].
    specialize (IH k (i :: acc) (lidx alive_w (xkids W) i :: acc')).
    destruct (xp_steps e k p (i :: acc)) as [q|x]; [|exact IH].
    destruct IH as (q0 & Eq & Hl & Ev). exists (i :: q0). split; [|split].
    + rewrite Eq. cbn [rev]. now rewrite <- app_assoc.
    + cbn [lpath]. eauto.
    + rewrite Ev. cbn [rev lpos]. rewrite Hk, <- app_assoc. reflexivity.
Qed.

(* T3: _xpath on the working tree (nodes marked deleted skipped) is step-wise unique
   resolution in the accepted view; the positions correspond by lpos *)
Theorem xpath_view e W p : alive_w W = true ->
  match xpath_skip_deleted e W p with
  | FOk q => lpath W q /\ xpath_skip_deleted e (aw W) p = FOk (lpos W q)
  | FErr x => xpath_skip_deleted e (aw W) p = FErr x
  end.
Proof.
  intros Ha. destruct p as [|s p]; cbn [xpath_skip_deleted]; [reflexivity|].
  pose proof (xp_step_view e s [W]) as Hv. cbn [filter] in Hv. rewrite Ha in Hv. cbn [map] in Hv. rewrite Hv.
  destruct (xp_step e s [W]) as [[i k]|x] eqn:Es; [|reflexivity].
  destruct (xp_step_sound _ _ _ _ _ Es) as [Hk _].
  assert (k = W) as ->. { destruct i as [|[|i]]; cbn in Hk; congruence. }
  cbn [snd]. pose proof (xp_steps_view e p W [] []) as H.
  destruct (xp_steps e W p []) as [q|x]; [|exact H].
  destruct H as (q0 & Eq & Hl & Ev). cbn in Eq, Ev. subst q0. auto.
Qed.
