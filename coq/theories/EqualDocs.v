(* EqualDocs.v -- property C03, forward direction:
   "Diffing a document against an equal document returns an empty edit script
    under every option combination."

   [equal_docs_empty_script] : for every similarity oracle satisfying the laws
   listed below, every option record o (threshold F, unique attributes, ignored
   attributes, fast_match, best_match), every well-formed document L and every R
   with [same_doc L R]:
     - Differ.match() returns the identity matching (every node of the document
       paired with itself, nothing else), and
     - Differ.diff() with that matching returns the EMPTY script and leaves the
       working tree equal to L.

   Equal documents: both trees are numbered in pre-order by the front end, so
   two equal documents carry the same ids; [same_doc] compares them pointwise
   (same child lists, tags, texts, tails; attribute lists equal up to order).
   Their namespace maps are equal (lns on both sides).

   ORACLE LAWS (hypotheses of the theorem; all true of the float oracle):
     forall s, sim_is_one (leaf_sim s s) = true                     ratio(s,s) == 1.0
     forall m n, sim_is_one m = true -> 0 < n ->
                 sim_is_one (combine m n n) = true                  sqrt((1+1)/2) == 1.0
     sim_is_one one = true
     forall x, sim_is_one x = true -> sim_ltb zero x = true         0 < 1.0
     forall x, sim_is_one x = true -> sim_leb F x = true            F <= 1.0
   and, needed ONLY when fast_match is set:
     sim_leb F zero = false                                         0 < F
     forall s t n x n', 0 < n -> sim_leb F (combine (leaf_sim s t) 0 n) = true ->
        sim_is_one x = true -> 0 < n' -> sim_leb F (combine x 0 n') = true
                                 (F <= sqrt(m^2/2) implies F <= sqrt(1/2), as m <= 1)
   The last law is what makes the LCS stage of fast_match (which compares nodes
   with NO child matched yet) return a sub-diagonal on two identical node lists:
   a pair of positions can pass the threshold only if both positions pass against
   themselves ([pass_closed]); validity and maximality of the LCS helper then
   force the diagonal ([lcs_diag]).  No counterexample exists in the Python
   implementation either (exhaustive search over all documents up to 6 nodes,
   F in {0.1, 0.5, 0.71, 0.9, 1.0}, with/without text, unique attributes).

   Proofs: EqualDocsBase (LCS diagonal, post-order), EqualDocsMatch (matcher),
   EqualDocsScript (script generation). *)
From Coq Require Import List NArith ZArith Bool Arith Lia Sorting.Permutation.
Import ListNotations.
Require Import XV.Str XV.Forest XV.LCS XV.Matcher XV.Differ XV.WF
               XV.EqualDocsBase XV.EqualDocsMatch XV.EqualDocsScript.

Theorem equal_docs_empty_script :
  forall (sim : Type) (sim_ltb sim_leb : sim -> sim -> bool) (sim_is_one : sim -> bool)
         (zero one : sim) (leaf_sim : str -> str -> sim) (combine : sim -> nat -> nat -> sim)
         (o : mopts sim) (L R : forest) (root : id) (lns : nsmap),
  (* oracle laws *)
  (forall s, sim_is_one (leaf_sim s s) = true) ->
  (forall m n, sim_is_one m = true -> 0 < n -> sim_is_one (combine m n n) = true) ->
  sim_is_one one = true ->
  (forall x, sim_is_one x = true -> sim_ltb zero x = true) ->
  (forall x, sim_is_one x = true -> sim_leb (oF sim o) x = true) ->
  (* oracle laws used by fast_match only *)
  (ofast sim o = true -> sim_leb (oF sim o) zero = false) ->
  (ofast sim o = true ->
   forall s t n x n', 0 < n -> sim_leb (oF sim o) (combine (leaf_sim s t) 0 n) = true ->
                      sim_is_one x = true -> 0 < n' ->
                      sim_leb (oF sim o) (combine x 0 n') = true) ->
  (* the documents *)
  wf_forest L root ->
  same_doc L R ->
  (* every binding of the namespace map is found under its own prefix *)
  (forall k v, In (k, v) lns -> ns_get lns k = Some v) ->
  exists m,
    match_nodes sim sim_ltb sim_leb sim_is_one zero one leaf_sim combine o L R root root = Some m /\
    (* the identity matching *)
    (forall l r, In (l, r) m -> l = r) /\
    (forall n, desc L root n -> In (n, n) m) /\
    (* empty script, working tree untouched *)
    diff_given (oignored sim o) R root L root lns lns m = Some ([], L).
Proof.
  intros sim sim_ltb sim_leb sim_is_one zero one leaf_sim combine o L R root lns
         H1 H2 H3 H4 H5 H6 H7 Hwf Hsame Hns.
  destruct (match_identity sim sim_ltb sim_leb sim_is_one zero one leaf_sim combine o L R root
              Hwf Hsame H1 H2 H3 H4 H5 H6 H7) as (m & Hm & Hid).
  exists m. split; [exact Hm|]. split; [apply Hid|]. split; [apply Hid|].
  apply (diff_given_equal (oignored sim o) L R root m Hwf Hsame Hid lns). exact Hns.
Qed.

(* distinct prefixes are enough for the namespace hypothesis *)
Lemma ns_hyp_of_NoDup (lns : nsmap) :
  NoDup (map fst lns) -> forall k v, In (k, v) lns -> ns_get lns k = Some v.
Proof. apply ns_ok_of_NoDup. Qed.

(* ------------------------------------------------------------------ *)
(** * A concrete instance                                               *)
(* ------------------------------------------------------------------ *)
(* <r><a k="1" j="2">x</a><a k="1" j="2">x</a><b><a k="1" j="2">x</a></b></r>
   against the same document with the attributes written in the other order;
   similarities in percent (nat), combine = "m when all children are matched,
   70% of m otherwise".  Default, best_match, fast_match with F = 50 (every node
   passes against itself in the LCS stage) and fast_match with F = 80 (only the
   leaves do). *)
Definition ex_lab_a (flip : bool) : label :=
  Lab (TElem [97%N])
      (if flip then [([106%N], [50%N]); ([107%N], [49%N])] else [([107%N], [49%N]); ([106%N], [50%N])])
      (Some [120%N]) None.
Definition ex_doc (flip : bool) : forest :=
  mk_forest [(0, [1; 2; 3]); (3, [4])]
            [(0, Lab (TElem [114%N]) [] None None); (1, ex_lab_a flip); (2, ex_lab_a flip);
             (3, Lab (TElem [98%N]) [] None None); (4, ex_lab_a flip)] 5.
Definition ex_leaf (a b : str) : nat := if str_eqb a b then 100 else 25.
Definition ex_comb (m c n : nat) : nat := if Nat.ltb 0 n && Nat.eqb c n then m else m * 70 / 100.
Definition ex_opts (F : nat) (fast best : bool) : mopts nat := MOpts nat F [] fast best [].
Definition ex_lns : nsmap := [(None, [117%N])].

Lemma ex_same : same_doc (ex_doc false) (ex_doc true).
Proof.
  split; [reflexivity|]. split.
  - intros n Hn. do 5 (destruct n as [|n]; [reflexivity|]). cbn in Hn. lia.
  - intros n Hn.
    assert (Ha : same_label (ex_lab_a false) (ex_lab_a true)).
    { repeat split. apply perm_swap. }
    assert (Hr : forall l, same_label l l) by (intros l; repeat split; apply Permutation_refl).
    destruct n as [|n]; [apply Hr|]. destruct n as [|n]; [exact Ha|].
    destruct n as [|n]; [exact Ha|]. destruct n as [|n]; [apply Hr|].
    destruct n as [|n]; [exact Ha|]. cbn in Hn. lia.
Qed.

Lemma ex_laws F fast : (F = 50 \/ F = 80) ->
  (forall s, Nat.eqb (ex_leaf s s) 100 = true) /\
  (forall m n, Nat.eqb m 100 = true -> 0 < n -> Nat.eqb (ex_comb m n n) 100 = true) /\
  Nat.eqb 100 100 = true /\
  (forall x, Nat.eqb x 100 = true -> Nat.ltb 0 x = true) /\
  (forall x, Nat.eqb x 100 = true -> Nat.leb (oF nat (ex_opts F fast false)) x = true) /\
  (ofast nat (ex_opts F fast false) = true -> Nat.leb (oF nat (ex_opts F fast false)) 0 = false) /\
  (ofast nat (ex_opts F fast false) = true ->
   forall s t n x n', 0 < n -> Nat.leb (oF nat (ex_opts F fast false)) (ex_comb (ex_leaf s t) 0 n) = true ->
                      Nat.eqb x 100 = true -> 0 < n' ->
                      Nat.leb (oF nat (ex_opts F fast false)) (ex_comb x 0 n') = true).
Proof.
  intros HF. cbn [ex_opts oF ofast].
  split; [intros s; unfold ex_leaf; rewrite (proj2 (WF.streqb_eq s s) eq_refl); reflexivity|].
  split.
  { intros m n Hm Hn. unfold ex_comb. rewrite Nat.eqb_refl.
    replace (Nat.ltb 0 n) with true by (symmetry; apply Nat.ltb_lt; exact Hn). exact Hm. }
  split; [reflexivity|].
  split; [intros x Hx; apply Nat.eqb_eq in Hx; subst; reflexivity|].
  split; [intros x Hx; apply Nat.eqb_eq in Hx; subst; destruct HF as [-> | ->]; reflexivity|].
  split; [intros _; destruct HF as [-> | ->]; reflexivity|].
  intros _ s t n x n' Hn Hp Hx Hn'. apply Nat.eqb_eq in Hx. subst x.
  assert (E : forall m k, 0 < k -> ex_comb m 0 k = m * 70 / 100).
  { intros m k Hk. unfold ex_comb. destruct k as [|k]; [lia|]. reflexivity. }
  rewrite E in Hp |- * by assumption. unfold ex_leaf in Hp.
  destruct HF as [-> | ->]; [reflexivity|].
  destruct (str_eqb s t); vm_compute in Hp; discriminate.
Qed.

Lemma ex_ns : forall k v, In (k, v) ex_lns -> ns_get ex_lns k = Some v.
Proof. apply ns_hyp_of_NoDup. repeat constructor. intros []. Qed.

Lemma ex_wf : wf_forest (ex_doc false) 0.
Proof. apply wf_forestb_sound. vm_compute. reflexivity. Qed.

(* the conclusion of the theorem, by computation, for the four option sets *)
Lemma ex_computes :
  let run := fun F fast best =>
    match_nodes nat Nat.ltb Nat.leb (fun x => Nat.eqb x 100) 0 100 ex_leaf ex_comb
                (ex_opts F fast best) (ex_doc false) (ex_doc true) 0 0 in
  let script := fun m => diff_given [] (ex_doc true) 0 (ex_doc false) 0 ex_lns ex_lns m in
  run 50 false false = Some [(1, 1); (2, 2); (4, 4); (3, 3); (0, 0)] /\
  run 50 false true = Some [(1, 1); (2, 2); (4, 4); (3, 3); (0, 0)] /\
  run 50 true false = Some [(1, 1); (2, 2); (4, 4); (3, 3); (0, 0)] /\
  run 80 true false = Some [(1, 1); (2, 2); (4, 4); (3, 3); (0, 0)] /\
  script [(1, 1); (2, 2); (4, 4); (3, 3); (0, 0)] = Some ([], ex_doc false).
Proof.
  cbv zeta. repeat split; vm_compute; reflexivity.
Qed.
