(* Proofs about the command-line / API plumbing model (C14 switch, C15). *)
From Coq Require Import List NArith ZArith Bool Arith Lia.
Import ListNotations.
From Coq Require String. Import String.StringSyntax.
Require Import XV.Str XV.StrProofs XV.TextFormat XV.TextFormatProofs XV.Cli XV.Whitespace.
Require Import XV.Gen.TextTables.
Require Import XV.Gen.Flags XV.Gen.CliPlumbing XV.Gen.EntryPoints.
Local Open Scope N_scope.

(* ------------------------------------------------------------------------- *)
(* C14 (1): the switch                                                        *)

Lemma switch_ok_sound T : switch_ok T = true ->
  forall k n, In k all_fkinds -> In n all_normalize_args ->
  exists e, effective_normalize T k n = Some e /\ e = expected_normalize k n /\
            remove_blank T k n = Some (fkind_is_none k || N.testbit e 0).
Proof.
  unfold switch_ok. intros H k n Hk Hn.
  rewrite forallb_forall in H. specialize (H k Hk). rewrite forallb_forall in H. specialize (H n Hn).
  destruct (effective_normalize T k n) as [e |]; [| discriminate].
  destruct (remove_blank T k n) as [b |]; [| discriminate].
  apply andb_true_iff in H as [He Hb]. apply N.eqb_eq in He. apply Bool.eqb_prop in Hb.
  exists e. subst b. auto.
Qed.

Lemma cli_switch_ok_sound F T : cli_switch_ok F T = true ->
  forall (keep : bool) key cls, In (key, cls) (ft_formatters F) ->
  exists n, ws_value F (if keep then dcm_norm_then (ct_diff_cmd T) else dcm_norm_else (ct_diff_cmd T)) = Some n /\
            n = (if keep then 0 else 3) /\
            remove_blank_class F (Some cls) (Some n) = Some (negb keep) /\
            ws_text_on F n = Some (negb keep).
Proof.
  unfold cli_switch_ok. intros H keep key cls Hin.
  rewrite forallb_forall in H.
  assert (Hk : In keep [true; false]) by (destruct keep; simpl; auto).
  specialize (H keep Hk).
  destruct (ws_value F _) as [n |] eqn:Ew; [| discriminate].
  apply andb_true_iff in H as [H _]. apply andb_true_iff in H as [Hn H].
  apply N.eqb_eq in Hn. rewrite forallb_forall in H. specialize (H _ Hin). simpl in H.
  destruct (remove_blank_class F (Some cls) (Some n)) as [b |] eqn:Eb; [| discriminate].
  destruct (ws_text_on F n) as [t |] eqn:Et; [| discriminate].
  apply andb_true_iff in H as [Hb Ht]. apply Bool.eqb_prop in Hb. apply Bool.eqb_prop in Ht.
  exists n. rewrite Eb, Et. subst b t. auto.
Qed.

(* ------------------------------------------------------------------------- *)
(* C14 (3): WS_TEXT                                                           *)

Lemma blank_ch_is_space c : is_blank_ch c = true -> is_space c = true.
Proof.
  unfold is_blank_ch. intros H.
  repeat (apply orb_true_iff in H as [H | H]); apply N.eqb_eq in H; subst; reflexivity.
Qed.

Lemma blank_all_space s : blank s = true -> forallb is_space s = true.
Proof.
  unfold blank. rewrite !forallb_forall. intros H c Hc. apply blank_ch_is_space, H, Hc.
Qed.

Lemma cleanup_all_space s : forallb is_space s = true ->
  forall b, cleanup_ws_aux b s = [] \/ cleanup_ws_aux b s = [32].
Proof.
  induction s as [| c r IH]; intros H b; [left; reflexivity |].
  simpl in H. apply andb_true_iff in H as [Hc Hr]. simpl. rewrite Hc.
  destruct b.
  - destruct (IH Hr true) as [E | E]; rewrite E; auto.
  - destruct (IH Hr true) as [E | E]; rewrite E; [right; reflexivity |].
    (* " " followed by more white space: cleanup_ws_aux true never emits *)
    exfalso. clear -Hr E.
    assert (Hno : forall r, forallb is_space r = true -> cleanup_ws_aux true r = []).
    { induction r0 as [| c r0 IH']; intros H; [reflexivity |].
      simpl in H. apply andb_true_iff in H as [Hc Hr']. simpl. rewrite Hc. exact (IH' Hr'). }
    rewrite (Hno r Hr) in E. discriminate.
Qed.

Lemma strip_cleanup_all_space s : forallb is_space s = true -> strip (cleanup_whitespace s) = [].
Proof.
  intros H. unfold cleanup_whitespace. destruct (cleanup_all_space s H false) as [E | E]; rewrite E; reflexivity.
Qed.

Definition blank_or_none (v : option str) : Prop :=
  match v with None => True | Some s => blank s = true end.

Lemma ws_text_normal_flags v :
  ws_text_normal flags v = Some (strip (cleanup_whitespace (match v with Some s => s | None => [] end))).
Proof. reflexivity. Qed.

Theorem ws_text_blank v : blank_or_none v -> ws_text_normal flags v = Some [].
Proof.
  intros H. rewrite ws_text_normal_flags. f_equal. destruct v as [s |]; [| reflexivity].
  apply strip_cleanup_all_space, blank_all_space, H.
Qed.

(* ------------------------------------------------------------------------- *)
(* C15 (4): the list parsers                                                  *)

Definition free_of (c : N) (s : str) : Prop := has_char c s = false.

Lemma has_char_cons c x s : has_char c (x :: s) = (c =? x) || has_char c s.
Proof. reflexivity. Qed.

Lemma split_on_aux_app c x : free_of c x -> forall cur rest,
  split_on_aux c cur (x ++ rest) = split_on_aux c (rev x ++ cur) rest.
Proof.
  induction x as [| a x IH]; intros Hf cur rest; [reflexivity |].
  unfold free_of in Hf. rewrite has_char_cons in Hf. apply orb_false_iff in Hf as [Ha Hx].
  simpl. rewrite N.eqb_sym, Ha. rewrite (IH Hx). now rewrite <- app_assoc.
Qed.

Lemma split_on_aux_end c x cur : free_of c x -> split_on_aux c cur x = [rev cur ++ x].
Proof.
  intros Hf. rewrite <- (app_nil_r x) at 1. rewrite (split_on_aux_app c x Hf). simpl.
  now rewrite rev_app_distr, rev_involutive.
Qed.

Lemma split_on_join c xs : xs <> [] -> Forall (free_of c) xs -> split_on c (join [c] xs) = xs.
Proof.
  unfold split_on. induction xs as [| x r IH]; intros Hne Hf; [congruence |].
  inversion Hf as [| ? ? Hx Hr]; subst.
  destruct r as [| y r'].
  - simpl. now rewrite (split_on_aux_end c x [] Hx).
  - rewrite join_cons2. rewrite (split_on_aux_app c x Hx). simpl app at 1.
    change ([c] ++ join [c] (y :: r')) with (c :: join [c] (y :: r')).
    cbn [split_on_aux]. rewrite N.eqb_refl, app_nil_r, rev_involutive.
    f_equal. apply IH; [discriminate | exact Hr].
Qed.

Theorem parse_render_ignored_attrs xs :
  Forall (free_of 44) xs -> parse_ignored_attrs (render_ignored_attrs xs) = xs.
Proof.
  intros Hf. destruct xs as [| x r]; [reflexivity |].
  unfold render_ignored_attrs, parse_ignored_attrs, parse_ignored_attrs_with.
  apply split_on_join; [discriminate | exact Hf].
Qed.

Lemma split1_aux_app c t : free_of c t -> forall cur a,
  split1_aux c cur (t ++ c :: a) = (rev cur ++ t, Some a).
Proof.
  induction t as [| x t IH]; intros Hf cur a.
  - simpl. now rewrite N.eqb_refl, app_nil_r.
  - unfold free_of in Hf. rewrite has_char_cons in Hf. apply orb_false_iff in Hf as [Hx Ht].
    simpl. rewrite N.eqb_sym, Hx. rewrite (IH Ht). simpl. now rewrite <- app_assoc.
Qed.

Lemma has_char_app c a b : has_char c (a ++ b) = has_char c a || has_char c b.
Proof. unfold has_char. apply existsb_app. Qed.

Definition uattr_clean (u : uattr) : Prop :=
  match u with
  | UPlain a => free_of 44 a /\ free_of 64 a
  | UPair t a => free_of 44 t /\ free_of 64 t /\ free_of 44 a
  end.

Theorem parse_render_uniqueattrs us :
  Forall uattr_clean us -> parse_uniqueattrs (render_uniqueattrs us) = us.
Proof.
  intros Hc. destruct us as [| u r]; [reflexivity |].
  unfold render_uniqueattrs, parse_uniqueattrs, parse_uniqueattrs_with.
  rewrite split_on_join.
  - rewrite map_map. rewrite <- (map_id (u :: r)) at 2. apply map_ext_in.
    intros x Hx. rewrite Forall_forall in Hc. specialize (Hc x Hx).
    destruct x as [a | t a]; simpl in *.
    + destruct Hc as [_ Ha]. unfold free_of in Ha. now rewrite Ha.
    + destruct Hc as (_ & Ht & _).
      rewrite has_char_app. change (has_char 64 ([64] ++ a)) with true. rewrite orb_true_r.
      unfold split1. change (t ++ [64] ++ a) with (t ++ 64 :: a). now rewrite (split1_aux_app 64 t Ht).
  - discriminate.
  - rewrite Forall_forall in *. intros s Hs. apply in_map_iff in Hs as (x & <- & Hx).
    specialize (Hc x Hx). destruct x as [a | t a]; [exact (proj1 Hc) |].
    destruct Hc as (Ht & _ & Ha). unfold free_of in *. unfold render_uattr.
    rewrite !has_char_app, Ht, Ha. reflexivity.
Qed.

(* ------------------------------------------------------------------------- *)
(* C15 (1): the plumbing of diff_command                                      *)

(* the Namespace parse_args builds from make_diff_parser: optionals in source
   order, then the positionals *)
Definition opt_ns (chk : bool) (fmt : str) (kw pp : bool) (F ua : argval) (rm : str) (fm bm : bool) (ia : argval)
  : list (str * argval) :=
  [(L "check", AVBool chk); (L "formatter", AVStr fmt); (L "keep_whitespace", AVBool kw); (L "pretty_print", AVBool pp);
   (L "F", F); (L "unique_attributes", ua); (L "ratio_mode", AVStr rm); (L "fast_match", AVBool fm);
   (L "best_match", AVBool bm); (L "ignored_attributes", ia)].
Definition mk_ns chk fmt kw pp F ua rm fm bm ia (f1 f2 : str) : list (str * argval) :=
  opt_ns chk fmt kw pp F ua rm fm bm ia ++ [(L "file1", AVStr f1); (L "file2", AVStr f2)].
Definition ostr_val (v : argval) : bool := match v with AVNone | AVStr _ => true | _ => false end.
Definition formatter_keys : list str := map fst (ft_formatters flags).

Theorem plan_spec : forall chk fmt kw pp F ua rm fm bm ia f1 f2,
  ostr_val ua = true -> ostr_val ia = true -> smem fmt formatter_keys = true ->
  diff_plan_of_ns flags cli (mk_ns chk fmt kw pp F ua rm fm bm ia f1 f2)
  = spec_plan (mk_ns chk fmt kw pp F ua rm fm bm ia f1 f2).
Proof.
  intros chk fmt kw pp F ua rm fm bm ia f1 f2 Hua Hia Hf.
  assert (Hc : In fmt formatter_keys).
  { unfold smem in Hf. apply existsb_exists in Hf as (k & Hk & E). apply str_eqb_true in E. now subst. }
  destruct ua; try discriminate; destruct ia; try discriminate; destruct chk, kw.
  all: repeat (destruct Hc as [<- | Hc]; [reflexivity |]); contradiction.
Qed.

(* ---- parse_args yields exactly such a Namespace ---- *)

Section ParseInvariant.
  Variable X : pctx.
  Variable opts : list cli_opt.
  Variable Sh : list (str * argval) -> Prop.         (* shape of the optional part of the Namespace *)
  Variable ok : str -> argval -> Prop.               (* admissible value for a dest *)
  Hypothesis H_set : forall ns d v, Sh ns -> ok d v -> Sh (set_ns d v ns).
  Hypothesis H_true : forall o, In o (optionals opts) -> opt_kind o = Some KStoreTrue -> ok (dest_of o) (AVBool true).
  Hypothesis H_conv : forall o s v, In o (optionals opts) -> opt_kind o = Some KStore ->
                                    convert X o s = CvOk v -> ok (dest_of o) v.
  Hypothesis H_none : forall o, In o (optionals opts) -> opt_kind o = Some KStore ->
                                nargs_optional o = Some true -> ok (dest_of o) AVNone.

  Lemma find_flag_in f o : find_flag opts f = Some o -> In o (optionals opts).
  Proof. unfold find_flag. intros H. apply find_some in H. tauto. Qed.

  Lemma store_sh o v st st' : Sh (ps_ns st) -> ok (dest_of o) v -> store o v st = SDone st' -> Sh (ps_ns st').
  Proof.
    unfold store. intros Hs Hv H. destruct (group_conflict o st); [discriminate |].
    injection H as <-. simpl. now apply H_set.
  Qed.

  Lemma store_converted_sh o s st st' :
    In o (optionals opts) -> opt_kind o = Some KStore -> Sh (ps_ns st) ->
    store_converted X o s st = SDone st' -> Sh (ps_ns st').
  Proof.
    unfold store_converted. intros Hin Hk Hs H. destruct (convert X o s) as [v | |] eqn:Ec; try discriminate.
    eapply store_sh; [exact Hs | | exact H]. eapply H_conv; eassumption.
  Qed.

  Definition sres_inv (r : sres) : Prop :=
    match r with
    | SDone st' => Sh (ps_ns st')
    | SNeed o' st' => In o' (optionals opts) /\ Sh (ps_ns st') /\ opt_kind o' = Some KStore
    | _ => True
    end.

  Lemma store_res o v st :
    store o v st = SErr \/ exists st', store o v st = SDone st' /\ ps_ns st' = set_ns (dest_of o) v (ps_ns st).
  Proof. unfold store. destruct (group_conflict o st); [left; reflexivity | right; eexists; split; reflexivity]. Qed.

  Lemma store_converted_res o s st :
    match store_converted X o s st with SDone _ | SErr | SUnm => True | _ => False end.
  Proof.
    unfold store_converted. destruct (convert X o s); try exact I.
    destruct (store_res o v st) as [E | (st' & E & _)]; rewrite E; exact I.
  Qed.

  Lemma consume_opt_inv : forall fuel o flag expl st,
    In o (optionals opts) -> Sh (ps_ns st) -> sres_inv (consume_opt X opts fuel o flag expl st).
  Proof.
    induction fuel as [| fuel IH]; intros o flag expl st Hin Hs.
    - cbn [consume_opt].
      destruct (opt_kind o) as [k |] eqn:Hk; [| exact I].
      destruct (nargs_optional o) eqn:Hn; [| destruct k; exact I].
      destruct k.
      + destruct expl as [[| c r] |]; [exact I | |].
        * destruct (is_long flag); [exact I |].
          destruct (store_res o (AVBool true) st) as [E | (st' & E & _)]; rewrite E; exact I.
        * destruct (store_res o (AVBool true) st) as [E | (st' & E & Ens)]; rewrite E; [exact I |].
          simpl. rewrite Ens. apply H_set; [exact Hs | now apply H_true].
      + destruct expl as [[| c r] |]; try exact I. destruct (is_long flag); exact I.
      + destruct expl as [[| c r] |]; try exact I. destruct (is_long flag); exact I.
      + destruct expl as [v |]; [| simpl; tauto].
        pose proof (store_converted_res o v st) as Hr.
        destruct (store_converted X o v st) as [| | | | st'] eqn:Es; try exact I; try contradiction.
        simpl. eapply store_converted_sh; eassumption.
    - cbn [consume_opt].
      destruct (opt_kind o) as [k |] eqn:Hk; [| exact I].
      destruct (nargs_optional o) eqn:Hn; [| destruct k; exact I].
      destruct k.
      + destruct expl as [[| c r] |]; [exact I | |].
        * destruct (is_long flag); [exact I |].
          destruct (store_res o (AVBool true) st) as [E | (st' & E & Ens)]; rewrite E; [exact I |].
          destruct (find_flag opts [45; c]) as [o' |] eqn:Ef; [| exact I].
          apply IH; [exact (find_flag_in _ _ Ef) |].
          rewrite Ens. apply H_set; [exact Hs | now apply H_true].
        * destruct (store_res o (AVBool true) st) as [E | (st' & E & Ens)]; rewrite E; [exact I |].
          simpl. rewrite Ens. apply H_set; [exact Hs | now apply H_true].
      + destruct expl as [[| c r] |]; try exact I. destruct (is_long flag); exact I.
      + destruct expl as [[| c r] |]; try exact I. destruct (is_long flag); exact I.
      + destruct expl as [v |]; [| simpl; tauto].
        pose proof (store_converted_res o v st) as Hr.
        destruct (store_converted X o v st) as [| | | | st'] eqn:Es; try exact I; try contradiction.
        simpl. eapply store_converted_sh; eassumption.
  Qed.

  Definition tok_ok (t : tok * nat) : Prop :=
    match fst t with TOpt o _ _ => In o (optionals opts) | _ => True end.

  Lemma run_tokens_inv : forall n toks st st',
    (length toks <= n)%nat -> Forall tok_ok toks -> Sh (ps_ns st) ->
    run_tokens X opts toks st = inr st' -> Sh (ps_ns st').
  Proof.
    induction n as [| n IH]; intros toks st st' Hlen Hall Hs H.
    - destruct toks; [| simpl in Hlen; lia]. simpl in H. now injection H as <-.
    - destruct toks as [| [t len] rest]; [simpl in H; now injection H as <- |].
      simpl in Hlen. inversion Hall as [| ? ? Ht Hrest]; subst.
      destruct t as [v | o flag expl | | |]; simpl in H; try discriminate.
      + eapply IH; [| exact Hrest | | exact H]; [lia | exact Hs].
      + unfold tok_ok in Ht. simpl in Ht.
        pose proof (consume_opt_inv len o flag expl st Ht Hs) as Hinv.
        destruct (consume_opt X opts len o flag expl st) as [| | | o' st1 | st1]; try discriminate.
        * destruct Hinv as (Hin' & Hs1 & Hk').
          assert (Hother :
            match nargs_optional o' with
            | Some true => match store o' AVNone st1 with
                           | SDone st'' => run_tokens X opts rest st''
                           | SErr => inl PUsage
                           | _ => inl PUnmodelled
                           end
            | _ => inl PUsage
            end = inr st' -> Sh (ps_ns st')).
          { intros H'. destruct (nargs_optional o') as [[] |] eqn:Hn; try discriminate.
            destruct (store o' AVNone st1) as [| | | | st2] eqn:Es; try discriminate.
            eapply IH; [| exact Hrest | | exact H']; [lia |].
            apply (store_sh o' AVNone st1 st2 Hs1); [apply H_none; assumption | exact Es]. }
          destruct rest as [| [[v | ? ? ? | | |] len'] rest']; try (exact (Hother H)).
          destruct (store_converted X o' v st1) as [| | | | st2] eqn:Es; try discriminate.
          inversion Hrest; subst.
          eapply IH; [| eassumption | | exact H]; [simpl in Hlen; lia |].
          apply (store_converted_sh o' v st1 st2 Hin' Hk' Hs1 Es).
        * eapply IH; [| exact Hrest | exact Hinv | exact H]. lia.
      + eapply IH; [| exact Hrest | | exact H]; [lia | exact Hs].
  Qed.

  Lemma all_flags_in o f : In (o, f) (all_flags opts) -> In o (optionals opts).
  Proof.
    unfold all_flags. intros H. apply in_flat_map in H as (o' & Ho' & Hin).
    apply in_map_iff in Hin as (f' & E & _). now injection E as <- _.
  Qed.

  Lemma classify_ok t : tok_ok (classify opts t, length t).
  Proof.
    unfold tok_ok. simpl. unfold classify.
    destruct t as [| c r]; [exact I |].
    destruct (negb (c =? 45)); [exact I |].
    destruct (find_flag opts (c :: r)) as [o |] eqn:Ef; [exact (find_flag_in _ _ Ef) |].
    destruct (Nat.eqb (length (c :: r)) 1); [exact I |].
    destruct (str_eqb (c :: r) [45; 45]); [exact I |].
    destruct (split1 61 (c :: r)) as [name expl].
    destruct (match expl with Some _ => find_flag opts name | None => None end) as [o |] eqn:Ef2.
    { destruct expl; [exact (find_flag_in _ _ Ef2) | discriminate]. }
    match goal with |- match (match ?tu with _ => _ end) with _ => _ end => remember tu as tuples eqn:Etu end.
    destruct tuples as [| [[o f] e] [| ? ?]]; try exact I.
    - destruct (negative_number_like (c :: r)); [exact I |]. destruct (has_char 32 (c :: r)); exact I.
    - assert (Hin : In (o, f, e) [(o, f, e)]) by (left; reflexivity). rewrite Etu in Hin.
      destruct (is_long (c :: r)).
      + apply in_map_iff in Hin as ([o' f'] & E & Hin). injection E as <- <- _.
        apply filter_In in Hin as [Hin _]. exact (all_flags_in _ _ Hin).
      + apply in_flat_map in Hin as ([o' f'] & Hin & Hx). cbn [fst snd] in Hx.
        match type of Hx with In _ (if ?b then _ else _) => destruct b end.
        { destruct Hx as [E | []]. injection E as <- _ _. exact (all_flags_in _ _ Hin). }
        match type of Hx with In _ (if ?b then _ else _) => destruct b end.
        { destruct Hx as [E | []]. injection E as <- _ _. exact (all_flags_in _ _ Hin). }
        contradiction.
  Qed.

  Theorem parse_args_shape argv ns :
    (forall ns0, initial_ns X (optionals opts) = Some ns0 -> Sh ns0) ->
    parse_args X opts argv = PArgs ns ->
    exists nso vals, Sh nso /\ assign_positionals (positionals opts) vals nso = Some ns.
  Proof.
    unfold parse_args. intros Hinit H.
    destruct (existsb _ (map _ argv)); [discriminate |].
    destruct (existsb _ (positionals opts)); [discriminate |].
    destruct (initial_ns X (optionals opts)) as [ns0 |] eqn:E0; [| discriminate].
    destruct (run_tokens X opts _ _) as [r | st] eqn:Er; [destruct r; discriminate |].
    destruct (assign_positionals (positionals opts) (rev (ps_pos st)) (ps_ns st)) as [ns' |] eqn:Ea; [| discriminate].
    destruct (ps_extras st); [discriminate |]. injection H as <-.
    exists (ps_ns st), (rev (ps_pos st)). split; [| exact Ea].
    eapply (run_tokens_inv _ _ _ st (le_n _)); [| | exact Er].
    - apply Forall_forall. intros t Ht. apply in_map_iff in Ht as (a & <- & _). apply classify_ok.
    - simpl. exact (Hinit ns0 eq_refl).
  Qed.
End ParseInvariant.

Definition diff_shape (ns : list (str * argval)) : Prop :=
  exists chk fmt kw pp F ua rm fm bm ia,
    ns = opt_ns chk fmt kw pp F ua rm fm bm ia /\
    ostr_val ua = true /\ ostr_val ia = true /\ smem fmt formatter_keys = true.

Definition val_okb (d : str) (v : argval) : bool :=
  if smem d [L "check"; L "keep_whitespace"; L "pretty_print"; L "fast_match"; L "best_match"]
  then match v with AVBool _ => true | _ => false end
  else if str_eqb d (L "formatter") then match v with AVStr s => smem s formatter_keys | _ => false end
  else if str_eqb d (L "ratio_mode") then match v with AVStr _ => true | _ => false end
  else if smem d [L "unique_attributes"; L "ignored_attributes"] then ostr_val v
  else str_eqb d (L "F").

Lemma diff_shape_set ns d v : diff_shape ns -> val_okb d v = true -> diff_shape (set_ns d v ns).
Proof.
  intros (chk & fmt & kw & pp & F & ua & rm & fm & bm & ia & -> & Hua & Hia & Hf) Hv.
  unfold val_okb in Hv. unfold smem in Hv. cbn [existsb] in Hv.
  repeat match type of Hv with
         | (if ?b || _ then _ else _) = true => destruct b eqn:?E; cbn [orb] in Hv
         | (if false then _ else _) = true => cbv iota in Hv
         | (if str_eqb ?a ?b then _ else _) = true => destruct (str_eqb a b) eqn:?E
         end;
    try match goal with E : str_eqb d _ = true |- _ => apply str_eqb_true in E; subst d end.
  all: try discriminate.
  all: destruct v; try discriminate; unfold diff_shape; cbv [set_ns opt_ns L str_eqb map String.list_ascii_of_string Ascii.N_of_ascii Ascii.nat_of_ascii N.eqb N.of_nat Pos.eqb andb Pos.of_succ_nat Pos.succ]; simpl.
  all: try (do 10 eexists; split; [reflexivity | auto]; fail).
Qed.

Definition diffX : pctx := pctx_of flags cli.

Lemma convert_str X o s v :
  convert X o s = CvOk v -> co_type o = None \/ co_type o = Some (L "str") -> v = AVStr s.
Proof.
  unfold convert. intros H Ht.
  assert (Ha : apply_type X (co_type o) s = CvOk (AVStr s)) by (destruct Ht as [-> | ->]; reflexivity).
  rewrite Ha in H. destruct (co_choices o) as [c |]; [| now injection H as <-].
  destruct (resolve_choices X c); [| discriminate]. destruct (smem s l); [now injection H as <- | discriminate].
Qed.

Lemma convert_choice X o s v c l :
  convert X o s = CvOk v -> co_choices o = Some c -> resolve_choices X c = Some l ->
  exists s', v = AVStr s' /\ smem s' l = true.
Proof.
  unfold convert. intros H Hc Hl. destruct (apply_type X (co_type o) s) as [v' | |]; try discriminate.
  rewrite Hc, Hl in H. destruct v' as [| | s' |]; try discriminate.
  destruct (smem s' l) eqn:E; [| discriminate]. injection H as <-. eauto.
Qed.

Lemma diff_true_ok o :
  In o (optionals (ct_diff_opts cli)) -> opt_kind o = Some KStoreTrue -> val_okb (dest_of o) (AVBool true) = true.
Proof.
  intros Hin Hk. cbv [ct_diff_opts cli diff_options_table optionals filter is_positional co_flags starts_with negb] in Hin.
  simpl in Hin. repeat (destruct Hin as [<- | Hin]; [first [discriminate Hk | reflexivity] |]). contradiction.
Qed.

Lemma diff_none_ok o :
  In o (optionals (ct_diff_opts cli)) -> opt_kind o = Some KStore -> nargs_optional o = Some true ->
  val_okb (dest_of o) AVNone = true.
Proof.
  intros Hin Hk Hn. cbv [ct_diff_opts cli diff_options_table optionals filter is_positional co_flags starts_with negb] in Hin.
  simpl in Hin. repeat (destruct Hin as [<- | Hin]; [first [discriminate Hk | discriminate Hn | reflexivity] |]). contradiction.
Qed.

Lemma diff_conv_ok o s v :
  In o (optionals (ct_diff_opts cli)) -> opt_kind o = Some KStore -> convert diffX o s = CvOk v ->
  val_okb (dest_of o) v = true.
Proof.
  intros Hin Hk Hc. cbv [ct_diff_opts cli diff_options_table optionals filter is_positional co_flags starts_with negb] in Hin.
  simpl in Hin.
  repeat (destruct Hin as [<- | Hin]; [try discriminate Hk |]); try contradiction.
  - (* -f *) destruct (convert_choice _ _ _ _ _ formatter_keys Hc eq_refl eq_refl) as (s' & -> & Hs). exact Hs.
  - (* -F *) reflexivity.
  - (* --unique-attributes *) rewrite (convert_str _ _ _ _ Hc (or_intror eq_refl)). reflexivity.
  - (* --ratio-mode *) destruct (convert_choice _ _ _ _ _ _ Hc eq_refl eq_refl) as (s' & -> & Hs). reflexivity.
  - (* --ignored-attributes *) rewrite (convert_str _ _ _ _ Hc (or_intror eq_refl)). reflexivity.
Qed.

Lemma diff_initial ns0 : initial_ns diffX (optionals (ct_diff_opts cli)) = Some ns0 -> diff_shape ns0.
Proof.
  intros H. vm_compute in H. injection H as <-.
  exists false, (L "diff"), false, false, AVNone, (AVStr (L "{http://www.w3.org/XML/1998/namespace}id")), (L "fast"),
         false, false, AVNone.
  repeat split; reflexivity.
Qed.

(* every Namespace the parser of xmldiff produces has the canonical shape *)
Theorem diff_parse_args_shape argv ns :
  parse_args diffX (ct_diff_opts cli) argv = PArgs ns ->
  exists chk fmt kw pp F ua rm fm bm ia f1 f2,
    ns = mk_ns chk fmt kw pp F ua rm fm bm ia f1 f2 /\
    ostr_val ua = true /\ ostr_val ia = true /\ smem fmt formatter_keys = true.
Proof.
  intros H.
  destruct (parse_args_shape diffX (ct_diff_opts cli) diff_shape (fun d v => val_okb d v = true)
              diff_shape_set diff_true_ok diff_conv_ok diff_none_ok argv ns diff_initial H)
    as (nso & vals & (chk & fmt & kw & pp & F & ua & rm & fm & bm & ia & -> & Hua & Hia & Hf) & Ha).
  change (positionals (ct_diff_opts cli))
    with [nth 0 (ct_diff_opts cli) (nth 0 (ct_diff_opts cli) (nth 0 (ct_diff_opts cli) (nth 0 (ct_diff_opts cli)
          {| co_flags := []; co_dest := None; co_default := None; co_type := None; co_choices := None;
             co_action := None; co_nargs := None; co_group := None |})));
          nth 1 (ct_diff_opts cli) (nth 0 (ct_diff_opts cli)
          {| co_flags := []; co_dest := None; co_default := None; co_type := None; co_choices := None;
             co_action := None; co_nargs := None; co_group := None |})] in Ha.
  destruct vals as [| f1 [| f2 [| ? ?]]]; try discriminate Ha.
  exists chk, fmt, kw, pp, F, ua, rm, fm, bm, ia, f1, f2.
  split; [| auto]. vm_compute in Ha. injection Ha as <-. reflexivity.
Qed.

Theorem diff_command_plan_spec argv ns :
  parse_args diffX (ct_diff_opts cli) argv = PArgs ns -> diff_command_plan flags cli argv = spec_plan ns.
Proof.
  intros H. unfold diff_command_plan. change (pctx_of flags cli) with diffX. rewrite H.
  destruct (diff_parse_args_shape argv ns H) as (chk & fmt & kw & pp & F & ua & rm & fm & bm & ia & f1 & f2 & -> & Hua & Hia & Hf).
  now apply plan_spec.
Qed.

(* ------------------------------------------------------------------------- *)
(* C15 (2): the entry points                                                  *)

Section EntryPoints.
  Variables (src tree script optsT fmtT outT actionsT : Type).
  Variable P : prims src tree script optsT fmtT outT actionsT.

  (* diff_trees is the composition prepare ; Differ( **opts).diff ; list | format *)
  Theorem diff_trees_spec l r o f : api_diff_trees P entry l r o f = Some (spec_diff_trees P l r o f).
  Proof. destruct o, f; reflexivity. Qed.

  (* the parser flag is the whitespace switch of C14 *)
  Theorem spec_rb_flags f :
    spec_rb P flags f =
    Some (negb (N.land (match f with
                        | Some x => match p_norm_attr P x with Some v => v | None => 1 end
                        | None => 1
                        end) 1 =? 0)).
  Proof. destruct f as [x |]; [| reflexivity]. unfold spec_rb. destruct (p_norm_attr P x); reflexivity. Qed.

  (* diff_texts / diff_files = diff_trees on the two inputs parsed by fromstring / parse
     with ONE parser whose remove_blank_text is the switch *)
  Theorem diff_texts_spec l r o f :
    api_diff_texts P flags entry l r o f =
    match spec_rb P flags f with
    | Some rb => api_diff_trees P entry (p_fromstring P (Some rb) l) (p_fromstring P (Some rb) r) o f
    | None => None
    end.
  Proof. destruct o, f; reflexivity. Qed.

  Theorem diff_files_spec l r o f :
    api_diff_files P flags entry l r o f =
    match spec_rb P flags f with
    | Some rb => api_diff_trees P entry (p_parse P (Some rb) l) (p_parse P (Some rb) r) o f
    | None => None
    end.
  Proof. destruct o, f; reflexivity. Qed.

  (* patch_text / patch_file = tounicode . patch_tree . (parse, DiffParser().parse) *)
  Theorem patch_text_spec a t :
    api_patch_text P entry a t = Some (spec_patch P a (p_fromstring P None t)).
  Proof. reflexivity. Qed.

  Theorem patch_file_spec a t e :
    api_patch_file P entry a t e = Some (spec_patch P (p_read P a e) (p_parse P None t)).
  Proof. destruct e; reflexivity. Qed.
End EntryPoints.

(* ------------------------------------------------------------------------- *)
(* C15 (3): --check                                                           *)

Definition call_fmt (c : df_call) : option fmt_spec :=
  match assoc (L "formatter") (c_kwargs c) with Some (CAFmt f) => Some f | _ => None end.
Definition call_class (c : df_call) : option str := option_map fs_class (call_fmt c).
Definition call_opts (c : df_call) : option (list (str * optval)) :=
  match assoc (L "diff_options") (c_kwargs c) with Some (CAOpts o) => Some o | _ => None end.
Definition call_normalize (c : df_call) : option kwval :=
  match call_fmt c with Some f => assoc s_normalize (fs_kwargs f) | None => None end.
Definition decisive (c1 : df_call) (c2 : option df_call) : df_call := match c2 with Some c => c | None => c1 end.

(* the call whose result decides the exit status renders the script as text:
   it is made with DiffFormatter or XmlDiffFormatter, on the same files, with the
   same Differ options and the same normalize as the call that is printed *)
Theorem check_decisive_call argv ns c1 c2 :
  parse_args diffX (ct_diff_opts cli) argv = PArgs ns ->
  diff_command_plan flags cli argv = PlanRun c1 true c2 ->
  let d := decisive c1 c2 in
  (call_class d = Some s_DiffFormatter \/ call_class d = Some s_XmlDiffFormatter) /\
  (call_class c1 = Some s_XMLFormatter <-> c2 <> None) /\
  c_callee d = c_callee c1 /\ c_args d = c_args c1 /\ call_opts d = call_opts c1 /\
  call_normalize d = call_normalize c1.
Proof.
  intros Hp Hplan. rewrite (diff_command_plan_spec argv ns Hp) in Hplan.
  destruct (diff_parse_args_shape argv ns Hp) as (chk & fmt & kw & pp & F & ua & rm & fm & bm & ia & f1 & f2 & -> & _ & _ & Hf).
  assert (Hc : In fmt formatter_keys).
  { unfold smem in Hf. apply existsb_exists in Hf as (k & Hk & E). apply str_eqb_true in E. now subst. }
  repeat (destruct Hc as [<- | Hc]); try contradiction; destruct chk; try discriminate Hplan;
    injection Hplan as <- <-; cbv zeta.
  all: split; [first [left; reflexivity | right; reflexivity] |].
  all: split; [split; [intros E; first [discriminate | vm_compute in E; discriminate E]
                      | intros E; first [reflexivity | exfalso; apply E; reflexivity]] |].
  all: repeat split; reflexivity.
Qed.

Section CheckStatus.
  Variable api : df_call -> str.     (* what main.diff_files returns for a call *)

  Theorem check_exit_status argv c1 c2 :
    diff_command_plan flags cli argv = PlanRun c1 true c2 ->
    exists res, diff_command_run flags cli api argv = Some res /\
                cr_stdout res = api c1 ++ [10] /\
                (cr_status res = Some 1%Z <-> api (decisive c1 c2) <> []) /\
                (cr_status res = None <-> api (decisive c1 c2) = []).
  Proof.
    intros H. unfold diff_command_run. rewrite H.
    change (diff_prints cli) with true. cbv iota. cbn [negb].
    destruct c2 as [c |]; cbn [decisive].
    - destruct (api c) as [| x r]; eexists; (split; [reflexivity |]); simpl;
        (split; [reflexivity |]); split; split; intros; congruence.
    - destruct (api c1) as [| x r] eqn:E1; eexists; (split; [reflexivity |]); simpl;
        (split; [reflexivity |]); split; split; intros; congruence.
  Qed.

  Theorem nocheck_exit_status argv c1 c2 :
    diff_command_plan flags cli argv = PlanRun c1 false c2 ->
    diff_command_run flags cli api argv = Some {| cr_stdout := api c1 ++ [10]; cr_status := None |}.
  Proof. intros H. unfold diff_command_run. rewrite H. reflexivity. Qed.

  Theorem usage_exit_status argv :
    diff_command_plan flags cli argv = PlanUsage ->
    diff_command_run flags cli api argv = Some {| cr_stdout := []; cr_status := Some 2%Z |}.
  Proof. intros H. unfold diff_command_run. rewrite H. reflexivity. Qed.
End CheckStatus.

(* the rendered text of the DiffFormatter is empty exactly for the empty script *)
Lemma format_action_nonempty T a line : tt_pre T <> [] -> format_action T a = Ok line -> line <> [].
Proof.
  unfold format_action. intros Hpre H. destruct (find_fmt T (ga_ctor a)); [| discriminate].
  destruct (mapM _ (fe_fields f)); [| discriminate]. cbn [bind] in H. injection H as <-.
  destruct (tt_pre T); [congruence | discriminate].
Qed.

Theorem format_empty_iff T acts text :
  tt_pre T <> [] -> format T acts = Ok text -> (text = [] <-> acts = []).
Proof.
  unfold format. intros Hpre H. destruct (mapM (format_action T) acts) as [lines |] eqn:Em; [| discriminate].
  cbn [bind] in H. injection H as <-. apply mapM_inv in Em.
  destruct Em as [| a line acts' lines' Ha Hr]; [tauto |].
  split; [| discriminate]. intros E. exfalso. apply (format_action_nonempty T a line Hpre Ha).
  destruct lines'; simpl in E; [exact E |]. now destruct line.
Qed.

Corollary diff_text_empty_iff acts text :
  format tables acts = Ok text -> (text = [] <-> acts = []).
Proof. apply format_empty_iff. discriminate. Qed.

(* exit status in terms of the edit script.  `script c` is the list of actions
   Differ( **opts).diff yields for the call c (its files, options, normalize flag and
   formatter.prepare); `api c` the string diff_files returns.  For DiffFormatter the
   string is TextFormat.format of the script (C02's model); for the 'old' formatter
   all that is needed is that it renders nothing exactly for the empty script. *)
Theorem check_status_script :
  forall (api : df_call -> str) (script : df_call -> list gaction)
         (diff_formatter_renders : forall c, call_class c = Some s_DiffFormatter -> format tables (script c) = Ok (api c))
         (old_formatter_nonempty : forall c, call_class c = Some s_XmlDiffFormatter -> (api c = [] <-> script c = []))
         argv ns c1 c2,
    parse_args diffX (ct_diff_opts cli) argv = PArgs ns ->
    diff_command_plan flags cli argv = PlanRun c1 true c2 ->
    exists res, diff_command_run flags cli api argv = Some res /\
                cr_stdout res = api c1 ++ [10] /\
                (cr_status res = Some 1%Z <-> script (decisive c1 c2) <> []) /\
                (cr_status res = None <-> script (decisive c1 c2) = []).
Proof.
  intros api script Hdiff Hold argv ns c1 c2 Hp Hplan.
  destruct (check_exit_status api argv c1 c2 Hplan) as (res & Hrun & Hout & H1 & H0).
  destruct (check_decisive_call argv ns c1 c2 Hp Hplan) as ([Hc | Hc] & _).
  - pose proof (diff_text_empty_iff _ _ (Hdiff _ Hc)) as Hiff.
    exists res. repeat split; try assumption; try tauto.
  - pose proof (Hold _ Hc) as Hiff.
    exists res. repeat split; try assumption; try tauto.
Qed.
