(* PathProofs.v -- property C04, path half: the XPath strings produced by
   utils.getpath are unambiguous and survive printing + parsing.

   Exported, in plain words:
   - [env_agrees pe env f root]: every prefix that the prefix policy [pe] prints
     for the namespace URI of a document element is bound to that URI in the
     evaluation environment [env] (URIs with pe u = None are printed as "*" and
     need no binding).  Consequently two URIs used in the document never share
     a prefix.  Boolean version [env_agreesb] with [env_agreesb_iff].
   - [names_ok pe f root]: every name that getpath prints for a document node
     (local names; prefixes chosen by pe) is a non-empty string without the
     characters / [ ] : * ( ).  Boolean version [names_okb] with [names_okb_iff];
     character-level reflection [ncname_ok_spec].
   - [getpath_unique]: in a well-formed forest, evaluating getpath n selects
     exactly [n], and the last step is indexed.
   - [path_of_str_to_str]: parsing the printed form of a non-empty path with
     well-formed names gives the path back (for arbitrary indices).
   - [path_roundtrip]: the instance for getpath. *)
From Coq Require Import List NArith ZArith Bool Arith Lia.
Import ListNotations.
Require Import XV.Str XV.Forest XV.Matcher XV.Differ XV.Spec XV.WF XV.ForestProofs XV.TreeProofs
               XV.StrProofs XV.Path.

(* ------------------------------------------------------------------ *)
(** * Strings                                                          *)
(* ------------------------------------------------------------------ *)
Lemma pp_str_eqb_sym (a b : str) : str_eqb a b = str_eqb b a.
Proof.
  destruct (str_eqb a b) eqn:E1, (str_eqb b a) eqn:E2; try reflexivity.
  - apply str_eqb_true in E1. subst. rewrite str_eqb_refl in E2. discriminate.
  - apply str_eqb_true in E2. subst. rewrite str_eqb_refl in E1. discriminate.
Qed.

Lemma In_existsb_N (c : N) (s : str) : In c s -> existsb (N.eqb c) s = true.
Proof. intros H. apply existsb_exists. exists c. split; [exact H|apply N.eqb_refl]. Qed.

(* ------------------------------------------------------------------ *)
(** * Clark notation                                                   *)
(* ------------------------------------------------------------------ *)
Lemma split_brace_spec s : forall acc u l,
  split_brace s acc = Some (u, l) -> exists s1, s = s1 ++ 125%N :: l /\ u = rev acc ++ s1.
Proof.
  induction s as [|c r IH]; intros acc u l H; cbn [split_brace] in H; [discriminate|].
  destruct (c =? 125)%N eqn:E.
  - inversion H; subst. apply N.eqb_eq in E. subst. exists []. rewrite app_nil_r. split; reflexivity.
  - apply IH in H as (s1 & -> & ->). exists (c :: s1). cbn [rev]. rewrite <- app_assoc. split; reflexivity.
Qed.

Lemma unclark_Some name u l : unclark name = (Some u, l) -> name = clark u l.
Proof.
  unfold unclark. destruct name as [|c r]; [discriminate|].
  destruct (c =? 123)%N eqn:E; [|discriminate].
  destruct (split_brace r []) as [[u' l']|] eqn:Es; [|discriminate].
  intros H. inversion H; subst. apply N.eqb_eq in E. subst.
  apply split_brace_spec in Es as (s1 & -> & ->). reflexivity.
Qed.

Lemma unclark_None name l : unclark name = (None, l) -> l = name.
Proof.
  unfold unclark. destruct name as [|c r]; [intros H; inversion H; reflexivity|].
  destruct (c =? 123)%N.
  - destruct (split_brace r []) as [[u' l']|]; intros H; inversion H; reflexivity.
  - intros H; inversion H; reflexivity.
Qed.

(* ------------------------------------------------------------------ *)
(** * The node test of a step selects the siblings libxml2 counts      *)
(* ------------------------------------------------------------------ *)
Definition tag_env_ok (pe : penv) (env : nsenv) (t : tagt) : Prop :=
  forall name u l p, t = TElem name -> unclark name = (Some u, l) -> pe u = Some p ->
                     env_get env p = Some u.

Definition env_agrees (pe : penv) (env : nsenv) (f : forest) (root : id) : Prop :=
  forall n, In n (doc_nodes f root) -> tag_env_ok pe env (ltag (flab f n)).

Definition tag_env_okb (pe : penv) (env : nsenv) (t : tagt) : bool :=
  match t with
  | TComment => true
  | TElem name =>
      match unclark name with
      | (Some u, _) => match pe u with
                       | Some p => match env_get env p with Some u' => str_eqb u' u | None => false end
                       | None => true
                       end
      | (None, _) => true
      end
  end.
Definition env_agreesb (pe : penv) (env : nsenv) (f : forest) (root : id) : bool :=
  forallb (fun n => tag_env_okb pe env (ltag (flab f n))) (doc_nodes f root).

Lemma tag_env_okb_iff pe env t : tag_env_okb pe env t = true <-> tag_env_ok pe env t.
Proof.
  unfold tag_env_okb, tag_env_ok. destruct t as [name|].
  - destruct (unclark name) as [[u|] l] eqn:Eu.
    + destruct (pe u) as [p|] eqn:Ep.
      * split.
        -- intros H name' u' l' p' E Eu' Ep'. inversion E; subst name'. rewrite Eu in Eu'.
           inversion Eu'; subst u' l'. rewrite Ep in Ep'. inversion Ep'; subst p'.
           destruct (env_get env p) as [u2|]; [|discriminate]. apply str_eqb_true in H. subst. reflexivity.
        -- intros H. rewrite (H name u l p eq_refl Eu Ep). apply str_eqb_refl.
      * split; [|reflexivity]. intros _ name' u' l' p' E Eu' Ep'. inversion E; subst name'.
        rewrite Eu in Eu'. inversion Eu'; subst u' l'. rewrite Ep in Ep'. discriminate.
    + split; [|reflexivity]. intros _ name' u' l' p' E Eu' Ep'. inversion E; subst name'.
      rewrite Eu in Eu'. discriminate.
  - split; [|reflexivity]. intros _ name u l p E. discriminate.
Qed.

Lemma env_agreesb_iff pe env f root : env_agreesb pe env f root = true <-> env_agrees pe env f root.
Proof.
  unfold env_agreesb, env_agrees. rewrite forallb_forall.
  split; intros H n Hn; apply tag_env_okb_iff; apply H; exact Hn.
Qed.

Lemma test_matches_same_kind pe env t t' :
  tag_env_ok pe env t -> test_matches env (test_of pe t) t' = Some (same_kind pe t t').
Proof.
  intros H. destruct t as [name|].
  - unfold same_kind, test_of. destruct (unclark name) as [[u|] l] eqn:Eu.
    + destruct (pe u) as [p|] eqn:Ep.
      * cbn [test_matches]. rewrite (H name u l p eq_refl Eu Ep).
        apply unclark_Some in Eu. subst name.
        destruct t' as [n'|]; cbn [tag_eqb]; [rewrite pp_str_eqb_sym|]; reflexivity.
      * destruct t'; reflexivity.
    + apply unclark_None in Eu. subst l.
      destruct t' as [n'|]; cbn [test_matches tag_eqb]; [rewrite pp_str_eqb_sym|]; reflexivity.
  - destruct t'; reflexivity.
Qed.

Lemma same_kind_refl pe t : same_kind pe t t = true.
Proof.
  destruct t as [name|]; [|reflexivity].
  unfold same_kind, test_of. destruct (unclark name) as [[u|] l].
  - destruct (pe u); [cbn [tag_eqb]; apply str_eqb_refl|reflexivity].
  - cbn [tag_eqb]. apply str_eqb_refl.
Qed.

(* the siblings counted together with a node of tag t *)
Definition sk (pe : penv) (f : forest) (t : tagt) (s : id) : bool := same_kind pe t (ltag (labof f s)).

Lemma filter_test_same_kind pe env f t sibs :
  tag_env_ok pe env t -> filter_test env f (test_of pe t) sibs = Some (filter (sk pe f t) sibs).
Proof.
  intros H. induction sibs as [|s r IH]; [reflexivity|].
  cbn [filter_test filter]. rewrite (test_matches_same_kind pe env t _ H), IH. reflexivity.
Qed.

Lemma count_before_nth pe f t n sibs : forall k pre,
  In n sibs -> sk pe f t n = true -> length pre = k ->
  nth_error (pre ++ filter (sk pe f t) sibs) (count_before f pe t n sibs k) = Some n.
Proof.
  induction sibs as [|s r IH]; intros k pre Hin Hn Hlen; [contradiction|].
  cbn [count_before filter]. destruct (Nat.eqb s n) eqn:E.
  - apply Nat.eqb_eq in E. subst s. rewrite Hn.
    rewrite nth_error_app2 by lia. subst k. rewrite Nat.sub_diag. reflexivity.
  - apply Nat.eqb_neq in E. destruct Hin as [Hin|Hin]; [contradiction|].
    fold (sk pe f t s). destruct (sk pe f t s) eqn:Es.
    + replace (pre ++ s :: filter (sk pe f t) r) with ((pre ++ [s]) ++ filter (sk pe f t) r)
        by (rewrite <- app_assoc; reflexivity).
      apply IH; [exact Hin|exact Hn|]. rewrite app_length. cbn [length]. lia.
    + apply IH; assumption.
Qed.

Lemma filter_single {A} (P : A -> bool) (l : list A) (x : A) :
  In x l -> P x = true -> length (filter P l) <= 1 -> filter P l = [x].
Proof.
  intros Hin Hx Hlen.
  assert (Hf : In x (filter P l)) by (apply filter_In; split; assumption).
  destruct (filter P l) as [|a [|b r]].
  - contradiction.
  - destruct Hf as [->|[]]. reflexivity.
  - cbn [length] in Hlen. lia.
Qed.

Definition force_step (s : step) : step :=
  Step (st_test s) (match st_idx s with Some i => Some i | None => Some 1 end).

Lemma step_from_step_of pe env f n sibs :
  In n sibs -> tag_env_ok pe env (ltag (labof f n)) ->
  step_from env f (step_of f pe n sibs) sibs = Some [n] /\
  step_from env f (force_step (step_of f pe n sibs)) sibs = Some [n].
Proof.
  intros Hin Henv.
  assert (Hn : sk pe f (ltag (labof f n)) n = true) by apply same_kind_refl.
  unfold step_from, force_step, step_of. cbn [st_test st_idx].
  rewrite (filter_test_same_kind pe env f _ sibs Henv). cbn [option_map].
  fold (sk pe f (ltag (labof f n))).
  destruct (Nat.leb (length (filter (sk pe f (ltag (labof f n))) sibs)) 1) eqn:E.
  - apply Nat.leb_le in E. rewrite (filter_single _ _ n Hin Hn E). split; reflexivity.
  - pose proof (count_before_nth pe f (ltag (labof f n)) n sibs 0 [] Hin Hn eq_refl) as Hc.
    cbn [app] in Hc. cbn [select_idx]. rewrite Hc. split; reflexivity.
Qed.

(* ------------------------------------------------------------------ *)
(** * getpath as the steps along the path from the root                *)
(* ------------------------------------------------------------------ *)
(* l lists a node, its parent, ..., the root (as in [pathto]) *)
Fixpoint chain_steps (f : forest) (pe : penv) (l : list id) : path :=
  match l with
  | [] => []
  | c :: l' =>
      match l' with
      | [] => [step_of f pe c [c]]
      | b :: _ => chain_steps f pe l' ++ [step_of f pe c (kidsof f b)]
      end
  end.

Lemma path_up_chain f pe root : wf_forest f root ->
  forall l n, pathto f root l n -> forall fuel acc, length l <= fuel ->
  path_up fuel f pe root n acc = chain_steps f pe l ++ acc.
Proof.
  intros Hwf. induction 1 as [|l b c Hp IH Hin]; intros fuel acc Hlen.
  - destruct fuel as [|fu]; [cbn [length] in Hlen; lia|].
    cbn [path_up]. rewrite Nat.eqb_refl. reflexivity.
  - destruct fuel as [|fu]; [cbn [length] in Hlen; lia|].
    cbn [length] in Hlen. cbn [path_up].
    assert (Hb : b < fnext f) by (eapply path_end_lt; eauto).
    assert (Hne : Nat.eqb c root = false).
    { apply Nat.eqb_neq. intros ->. eapply (wf_root_top f root Hwf); eauto. }
    rewrite Hne. rewrite (parentof_of_In f root c b Hwf Hb Hin).
    rewrite IH by lia. destruct (path_head _ _ _ _ Hp) as [l' ->].
    cbn [chain_steps]. rewrite <- app_assoc. reflexivity.
Qed.

Lemma chain_steps_last f pe root l n : pathto f root l n ->
  (n = root /\ chain_steps f pe l = [step_of f pe root [root]]) \/
  (exists l' b, pathto f root l' b /\ In n (fkids f b) /\ l = n :: l' /\
                chain_steps f pe l = chain_steps f pe l' ++ [step_of f pe n (kidsof f b)]).
Proof.
  intros H. inversion H as [|l' b c Hp Hin]; subst.
  - left. split; reflexivity.
  - right. exists l', b. split; [exact Hp|]. split; [exact Hin|]. split; [reflexivity|].
    destruct (path_head _ _ _ _ Hp) as [l'' ->]. reflexivity.
Qed.

Lemma doc_tag_env_ok pe env f root n :
  wf_forest f root -> env_agrees pe env f root -> desc f root n -> tag_env_ok pe env (ltag (labof f n)).
Proof. intros Hwf He Hd. apply He. apply doc_nodes_iff; assumption. Qed.

Lemma eval_chain pe env f root : wf_forest f root -> env_agrees pe env f root ->
  forall l n, pathto f root l n -> forall acc,
  eval_all env f root (chain_steps f pe l ++ acc) = eval_steps env f acc [n].
Proof.
  intros Hwf He. induction 1 as [|l b c Hp IH Hin]; intros acc.
  - cbn [chain_steps app eval_all].
    destruct (step_from_step_of pe env f root [root]) as [E _].
    + left; reflexivity.
    + eapply doc_tag_env_ok; eauto. constructor.
    + rewrite E. reflexivity.
  - destruct (path_head _ _ _ _ Hp) as [l' ->].
    cbn [chain_steps]. rewrite <- app_assoc. cbn [app]. rewrite IH.
    cbn [eval_steps map all_some].
    destruct (step_from_step_of pe env f c (kidsof f b)) as [E _].
    + exact Hin.
    + eapply doc_tag_env_ok; eauto. eapply desc_step; [|exact Hin].
      eapply path_desc; [exact Hp|left; reflexivity].
    + rewrite E. cbn [option_map all_some concat app]. reflexivity.
Qed.

Lemma force_last_snoc pre s : force_last_index (pre ++ [s]) = pre ++ [force_step s].
Proof.
  unfold force_last_index. rewrite rev_app_distr. cbn [rev app].
  rewrite rev_involutive. reflexivity.
Qed.

(* the shape of getpath *)
Lemma getpath_shape pe f root n : wf_forest f root -> desc f root n ->
  (n = root /\ getpath pe f root n = [force_step (step_of f pe root [root])]) \/
  (exists l' b, pathto f root l' b /\ In n (fkids f b) /\
                getpath pe f root n = chain_steps f pe l' ++ [force_step (step_of f pe n (kidsof f b))]).
Proof.
  intros Hwf Hd. destruct (desc_path _ _ _ Hd) as [l Hp].
  pose proof (path_length _ _ _ _ Hwf Hp) as Hlen.
  unfold getpath. rewrite (path_up_chain f pe root Hwf l n Hp) by lia. rewrite app_nil_r.
  destruct (chain_steps_last f pe root l n Hp) as [[-> E]|(l' & b & Hp' & Hin & -> & E)].
  - left. split; [reflexivity|]. rewrite E. apply (force_last_snoc []).
  - right. exists l', b. split; [exact Hp'|]. split; [exact Hin|].
    rewrite E. apply force_last_snoc.
Qed.

Theorem getpath_unique pe env f root n :
  wf_forest f root -> In n (doc_nodes f root) -> env_agrees pe env f root ->
  eval_all env f root (getpath pe f root n) = Some [n] /\
  last_indexed (getpath pe f root n) = true.
Proof.
  intros Hwf Hn He. apply (doc_nodes_iff f root n Hwf) in Hn.
  destruct (getpath_shape pe f root n Hwf Hn) as [[-> E]|(l' & b & Hp & Hin & E)]; rewrite E.
  - split.
    + cbn [eval_all]. destruct (step_from_step_of pe env f root [root]) as [_ E2].
      * left; reflexivity.
      * eapply doc_tag_env_ok; eauto.
      * rewrite E2. reflexivity.
    + unfold last_indexed, force_step. cbn [rev app st_idx].
      destruct (st_idx (step_of f pe root [root])); reflexivity.
  - split.
    + rewrite (eval_chain pe env f root Hwf He l' b Hp). cbn [eval_steps map all_some].
      destruct (step_from_step_of pe env f n (kidsof f b)) as [_ E2].
      * exact Hin.
      * eapply doc_tag_env_ok; eauto.
      * rewrite E2. reflexivity.
    + unfold last_indexed. rewrite rev_app_distr. unfold force_step. cbn [rev app st_idx].
      destruct (st_idx (step_of f pe n (kidsof f b))); reflexivity.
Qed.

(* ------------------------------------------------------------------ *)
(** * Printing and parsing                                             *)
(* ------------------------------------------------------------------ *)
Definition name_char_ok (c : N) : bool :=
  negb ((c =? 47) || (c =? 91) || (c =? 93) || (c =? 58) || (c =? 42) || (c =? 40) || (c =? 41))%N.
(* a non-empty string without the characters / [ ] : * ( ) *)
Definition ncname_ok (s : str) : bool :=
  match s with [] => false | _ => forallb name_char_ok s end.
Definition test_okb (t : ntest) : bool :=
  match t with
  | NName None l => ncname_ok l
  | NName (Some p) l => ncname_ok p && ncname_ok l
  | NStar | NComment => true
  end.
Definition path_okb (p : path) : bool := forallb (fun s => test_okb (st_test s)) p.

Lemma name_char_ok_spec c :
  name_char_ok c = true <->
  (c <> 47 /\ c <> 91 /\ c <> 93 /\ c <> 58 /\ c <> 42 /\ c <> 40 /\ c <> 41)%N.
Proof.
  unfold name_char_ok. rewrite negb_true_iff, !orb_false_iff, !N.eqb_neq. tauto.
Qed.

Lemma ncname_ok_spec s :
  ncname_ok s = true <-> s <> [] /\ forall c, In c s -> name_char_ok c = true.
Proof.
  unfold ncname_ok. destruct s as [|a r].
  - split; [discriminate|]. intros [H _]. contradiction.
  - rewrite forallb_forall. split; [intros H; split; [discriminate|exact H]|intros [_ H]; exact H].
Qed.

Lemma ncname_notin s c : ncname_ok s = true -> name_char_ok c = false -> ~ In c s.
Proof.
  intros H Hc Hin. apply ncname_ok_spec in H as [_ H]. rewrite (H c Hin) in Hc. discriminate.
Qed.

Lemma ncname_nonempty s : ncname_ok s = true -> s <> [].
Proof. intros H. apply ncname_ok_spec in H as [H _]. exact H. Qed.

(* split_on *)
Lemma split_on_nosep c x : forall cur, ~ In c x -> split_on c x cur = [rev cur ++ x].
Proof.
  induction x as [|a x IH]; intros cur H; cbn [split_on].
  - rewrite app_nil_r. reflexivity.
  - destruct (a =? c)%N eqn:E.
    + apply N.eqb_eq in E. subst. exfalso. apply H. left; reflexivity.
    + rewrite IH by (intros Hin; apply H; right; exact Hin).
      cbn [rev]. rewrite <- app_assoc. reflexivity.
Qed.

Lemma split_on_sep c x y : forall cur, ~ In c x ->
  split_on c (x ++ c :: y) cur = (rev cur ++ x) :: split_on c y [].
Proof.
  induction x as [|a x IH]; intros cur H; cbn [split_on app].
  - rewrite N.eqb_refl, app_nil_r. reflexivity.
  - destruct (a =? c)%N eqn:E.
    + apply N.eqb_eq in E. subst. exfalso. apply H. left; reflexivity.
    + rewrite IH by (intros Hin; apply H; right; exact Hin).
      cbn [rev]. rewrite <- app_assoc. reflexivity.
Qed.

(* characters of the printed form *)
Lemma digit_notin n c : is_digit c = false -> ~ In c (str_of_N n).
Proof.
  intros Hc Hin. pose proof (str_of_N_digits n) as H. rewrite Forall_forall in H.
  rewrite (H c Hin) in Hc. discriminate.
Qed.

Lemma test_str_notin t c :
  test_okb t = true -> name_char_ok c = false ->
  existsb (N.eqb c) (58%N :: 42%N :: s_comment) = false ->
  ~ In c (test_to_str t).
Proof.
  intros Ht Hc Hx Hin.
  assert (Hno : ~ In c (58%N :: 42%N :: s_comment)).
  { intros H. apply In_existsb_N in H. rewrite H in Hx. discriminate. }
  destruct t as [[p|] l| |]; cbn [test_to_str test_okb] in *.
  - apply andb_true_iff in Ht as [Hp Hl]. apply in_app_or in Hin as [Hin|[Hin|Hin]].
    + exact (ncname_notin p c Hp Hc Hin).
    + apply Hno. left. exact Hin.
    + exact (ncname_notin l c Hl Hc Hin).
  - exact (ncname_notin l c Ht Hc Hin).
  - apply Hno. right. destruct Hin as [Hin|[]]. left. exact Hin.
  - apply Hno. right. right. exact Hin.
Qed.

Lemma step_str_notin s c :
  test_okb (st_test s) = true -> name_char_ok c = false ->
  existsb (N.eqb c) (58%N :: 42%N :: s_comment) = false ->
  is_digit c = false -> c <> 93%N ->
  ~ In c (step_to_str s) \/ c = 91%N.
Proof.
  intros Ht Hc Hx Hd H93. destruct (N.eq_dec c 91) as [->|H91]; [right; reflexivity|left].
  unfold step_to_str. intros Hin. apply in_app_or in Hin as [Hin|Hin].
  - exact (test_str_notin _ c Ht Hc Hx Hin).
  - destruct (st_idx s) as [i|]; [|contradiction].
    destruct Hin as [Hin|Hin]; [congruence|].
    apply in_app_or in Hin as [Hin|[Hin|[]]].
    + exact (digit_notin _ c Hd Hin).
    + congruence.
Qed.

Lemma step_str_no_slash s : test_okb (st_test s) = true -> ~ In 47%N (step_to_str s).
Proof.
  intros Ht. destruct (step_str_notin s 47%N Ht eq_refl eq_refl eq_refl) as [H|H];
    [discriminate|exact H|discriminate].
Qed.

(* parse_test *)
Lemma parse_test_to_str t : test_okb t = true -> parse_test (test_to_str t) = Some t.
Proof.
  intros Ht. destruct t as [[p|] l| |]; cbn [test_to_str test_okb] in *; try reflexivity.
  - apply andb_true_iff in Ht as [Hp Hl]. unfold parse_test.
    assert (E1 : str_eqb (p ++ 58%N :: l) [42%N] = false).
    { destruct (str_eqb (p ++ 58%N :: l) [42%N]) eqn:E; [|reflexivity].
      apply str_eqb_true in E. apply (f_equal (@length _)) in E. rewrite app_length in E.
      cbn [length] in E. pose proof (ncname_nonempty p Hp). destruct p; [congruence|cbn [length] in E; lia]. }
    assert (E2 : str_eqb (p ++ 58%N :: l) s_comment = false).
    { destruct (str_eqb (p ++ 58%N :: l) s_comment) eqn:E; [|reflexivity].
      apply str_eqb_true in E.
      assert (Hin : In 58%N s_comment) by (rewrite <- E; apply in_or_app; right; left; reflexivity).
      apply In_existsb_N in Hin. vm_compute in Hin. discriminate. }
    rewrite E1, E2.
    rewrite (split_on_sep 58%N p l []) by (exact (ncname_notin p 58%N Hp eq_refl)).
    rewrite (split_on_nosep 58%N l []) by (exact (ncname_notin l 58%N Hl eq_refl)).
    cbn [rev app]. pose proof (ncname_nonempty p Hp). pose proof (ncname_nonempty l Hl).
    destruct p; [congruence|]. destruct l; [congruence|]. reflexivity.
  - unfold parse_test.
    assert (E1 : str_eqb l [42%N] = false).
    { destruct (str_eqb l [42%N]) eqn:E; [|reflexivity]. apply str_eqb_true in E. subst l.
      vm_compute in Ht. discriminate. }
    assert (E2 : str_eqb l s_comment = false).
    { destruct (str_eqb l s_comment) eqn:E; [|reflexivity]. apply str_eqb_true in E. subst l.
      vm_compute in Ht. discriminate. }
    rewrite E1, E2.
    rewrite (split_on_nosep 58%N l []) by (exact (ncname_notin l 58%N Ht eq_refl)).
    cbn [rev app]. pose proof (ncname_nonempty l Ht). destruct l; [congruence|]. reflexivity.
Qed.

(* split_index *)
Lemma split_index_to_str s : test_okb (st_test s) = true ->
  split_index (step_to_str s) = Some (test_to_str (st_test s), st_idx s).
Proof.
  intros Ht.
  assert (H91 : ~ In 91%N (test_to_str (st_test s))) by (exact (test_str_notin _ 91%N Ht eq_refl eq_refl)).
  unfold split_index, step_to_str. destruct (st_idx s) as [i|].
  - rewrite (split_on_sep 91%N _ _ [] H91).
    rewrite (split_on_nosep 91%N).
    2:{ intros Hin. apply in_app_or in Hin as [Hin|[Hin|[]]]; [|discriminate].
        exact (digit_notin _ 91%N eq_refl Hin). }
    cbn [rev app]. rewrite rev_app_distr. cbn [rev app]. rewrite N.eqb_refl, rev_involutive.
    rewrite nat_of_digits_str_of_N. rewrite Nat2N.id. reflexivity.
  - rewrite app_nil_r. rewrite (split_on_nosep 91%N _ [] H91). reflexivity.
Qed.

Lemma parse_step_to_str s : test_okb (st_test s) = true -> parse_step (step_to_str s) = Some s.
Proof.
  intros Ht. unfold parse_step. rewrite (split_index_to_str s Ht), (parse_test_to_str _ Ht).
  destruct s; reflexivity.
Qed.

Lemma split_path p : path_okb p = true -> forall x cur, ~ In 47%N x ->
  split_on 47%N (x ++ path_to_str p) cur = (rev cur ++ x) :: map step_to_str p.
Proof.
  induction p as [|s r IH]; intros Hok x cur Hx.
  - cbn [path_to_str flat_map map]. rewrite app_nil_r. apply split_on_nosep. exact Hx.
  - cbn [path_okb forallb] in Hok. apply andb_true_iff in Hok as [Hs Hr].
    change (path_to_str (s :: r)) with ((47%N :: step_to_str s) ++ path_to_str r).
    cbn [app]. rewrite (split_on_sep 47%N x _ cur Hx). f_equal.
    rewrite (IH Hr (step_to_str s) [] (step_str_no_slash s Hs)). reflexivity.
Qed.

Lemma all_some_parse p : path_okb p = true ->
  all_some (map parse_step (map step_to_str p)) = Some p.
Proof.
  induction p as [|s r IH]; intros Hok; [reflexivity|].
  cbn [path_okb forallb] in Hok. apply andb_true_iff in Hok as [Hs Hr].
  cbn [map all_some]. rewrite (parse_step_to_str s Hs), (IH Hr). reflexivity.
Qed.

Theorem path_of_str_to_str p : p <> [] -> path_okb p = true ->
  path_of_str (path_to_str p) = Some p.
Proof.
  intros Hne Hok. destruct p as [|s r]; [congruence|].
  change (path_to_str (s :: r)) with (47%N :: step_to_str s ++ path_to_str r).
  unfold path_of_str. rewrite N.eqb_refl.
  pose proof Hok as Hok'. cbn [path_okb forallb] in Hok'. apply andb_true_iff in Hok' as [Hs Hr].
  rewrite (split_path r Hr (step_to_str s) [] (step_str_no_slash s Hs)).
  cbn [rev app]. change (step_to_str s :: map step_to_str r) with (map step_to_str (s :: r)).
  apply all_some_parse. exact Hok.
Qed.

(* ------------------------------------------------------------------ *)
(** * The names getpath prints                                          *)
(* ------------------------------------------------------------------ *)
Definition names_ok (pe : penv) (f : forest) (root : id) : Prop :=
  forall n, In n (doc_nodes f root) -> test_okb (test_of pe (ltag (flab f n))) = true.
Definition names_okb (pe : penv) (f : forest) (root : id) : bool :=
  forallb (fun n => test_okb (test_of pe (ltag (flab f n)))) (doc_nodes f root).

Lemma names_okb_iff pe f root : names_okb pe f root = true <-> names_ok pe f root.
Proof. unfold names_okb, names_ok. apply forallb_forall. Qed.

(* what names_ok says about a tag, in terms of Clark notation *)
Lemma tag_name_ok_spec pe name :
  test_okb (test_of pe (TElem name)) = true <->
  match unclark name with
  | (None, l) => ncname_ok l = true
  | (Some u, l) => match pe u with
                   | Some p => ncname_ok p = true /\ ncname_ok l = true
                   | None => True
                   end
  end.
Proof.
  unfold test_of. destruct (unclark name) as [[u|] l].
  - destruct (pe u) as [p|]; cbn [test_okb].
    + apply andb_true_iff.
    + split; auto.
  - cbn [test_okb]. reflexivity.
Qed.

Lemma path_okb_app a b : path_okb (a ++ b) = path_okb a && path_okb b.
Proof. apply forallb_app. Qed.

Lemma chain_steps_ok pe f root : wf_forest f root -> names_ok pe f root ->
  forall l n, pathto f root l n -> path_okb (chain_steps f pe l) = true.
Proof.
  intros Hwf Hok. induction 1 as [|l b c Hp IH Hin].
  - cbn [chain_steps path_okb forallb]. rewrite andb_true_r.
    apply Hok. apply doc_nodes_iff; [exact Hwf|constructor].
  - destruct (path_head _ _ _ _ Hp) as [l' ->].
    change (chain_steps f pe (c :: b :: l')) with (chain_steps f pe (b :: l') ++ [step_of f pe c (kidsof f b)]).
    rewrite path_okb_app, IH. cbn [path_okb forallb andb]. rewrite andb_true_r.
    apply Hok. apply doc_nodes_iff; [exact Hwf|]. eapply desc_step; [|exact Hin].
    eapply path_desc; [exact Hp|left; reflexivity].
Qed.

Lemma getpath_ok pe f root n :
  wf_forest f root -> In n (doc_nodes f root) -> names_ok pe f root ->
  getpath pe f root n <> [] /\ path_okb (getpath pe f root n) = true.
Proof.
  intros Hwf Hn Hok. pose proof Hn as Hn'. apply (doc_nodes_iff f root n Hwf) in Hn.
  destruct (getpath_shape pe f root n Hwf Hn) as [[-> E]|(l' & b & Hp & Hin & E)]; rewrite E.
  - split; [discriminate|]. cbn [path_okb forallb force_step st_test]. rewrite andb_true_r.
    apply Hok. exact Hn'.
  - split; [intros H; apply app_eq_nil in H as [_ H]; discriminate|].
    rewrite path_okb_app, (chain_steps_ok pe f root Hwf Hok l' b Hp).
    cbn [path_okb forallb andb force_step st_test]. rewrite andb_true_r. apply Hok. exact Hn'.
Qed.

Theorem path_roundtrip pe f root n :
  wf_forest f root -> In n (doc_nodes f root) -> names_ok pe f root ->
  path_of_str (path_to_str (getpath pe f root n)) = Some (getpath pe f root n).
Proof.
  intros Hwf Hn Hok. destruct (getpath_ok pe f root n Hwf Hn Hok) as [H1 H2].
  apply path_of_str_to_str; assumption.
Qed.
