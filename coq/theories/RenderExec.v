(* Executable check: the model's rendering of the script (paths by the getpath
   model) equals the actions the implementation yielded.  No proofs. *)
From Coq Require Import List NArith ZArith Bool Arith.
Import ListNotations.
Require Import XV.Str XV.Json XV.TextFormat XV.Forest XV.Matcher XV.Differ XV.Spec XV.Path XV.Render XV.DifferExec.

Definition rcase := (dcase * list (str * option str) * option (list gaction))%type.
Definition pe_of (l : list (str * option str)) : penv :=
  fun u => match find (fun p => str_eqb (fst p) u) l with Some (_, p) => p | None => None end.
Definition check_render (c : rcase) : bool :=
  let '(d, pl, e) := c in
  match dscript d, e with
  | Some s, Some g => match render_script (pe_of pl) 0 (dL d) s with
                      | Some g' => list_eqb gaction_eqb g' g
                      | None => false
                      end
  | None, None => true
  | _, _ => false
  end.
Definition check_rcase (c : rcase) : bool := check_dcase (fst (fst c)) && check_render c.
Definition check_rcase_all (c : rcase) : bool := check_all (fst (fst c)) && check_render c.
