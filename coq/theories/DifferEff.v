(* DifferEff.v -- every action emitted by Differ.diff changes the document (C17).

   Exported, in plain words:
   - [lcs_extend]: if, besides the pairs returned by the LCS helper, one more
     pair of partner children were in corresponding order, there would be a
     longer common subsequence -- contradiction with lcs_seq_maximal;
   - [align_eff]: the moves made by align_children are applicable AND effective
     (Step true): a node which is not in the LCS and is moved never lands where it was;
   - gen_script_effective: run_checked rootL L (out s) = Some (W s). *)
From Coq Require Import List NArith ZArith Arith Bool Lia Sorted.
Import ListNotations.
Require Import XV.Str XV.Forest XV.LCS XV.LCSProofs XV.Matcher XV.Differ XV.Spec XV.WF XV.ForestProofs XV.TreeProofs.
Require Import XV.DifferFrame XV.DifferInv XV.DifferAlign XV.DifferSound.

(* ------------------------------------------------------------------ *)
(** * Lists: positions and sortedness                                   *)
(* ------------------------------------------------------------------ *)
Lemma index_of_nth_error x l : In x l -> nth_error l (index_of x l) = Some x.
Proof.
  induction l as [|a l IH]; intros H; [contradiction|]. cbn.
  destruct (Nat.eqb x a) eqn:E; [apply Nat.eqb_eq in E; subst; reflexivity|].
  cbn. apply IH. destruct H as [->|H]; [rewrite Nat.eqb_refl in E; discriminate|exact H].
Qed.

Lemma StronglySorted_impl_in {A} (R1 R2 : A -> A -> Prop) l :
  StronglySorted R1 l -> (forall a b, In a l -> In b l -> R1 a b -> R2 a b) -> StronglySorted R2 l.
Proof.
  induction 1 as [|a l Hs IH Hall]; intros H; constructor.
  - apply IH. intros x y Hx Hy. apply H; right; assumption.
  - rewrite Forall_forall in Hall |- *. intros b Hb. apply H; [left; reflexivity|right; exact Hb|auto].
Qed.

Lemma StronglySorted_map_inv {A B} (Rr : B -> B -> Prop) (f : A -> B) l :
  StronglySorted Rr (map f l) -> StronglySorted (fun a b => Rr (f a) (f b)) l.
Proof.
  induction l as [|a l IH]; cbn; intros H; constructor; inversion H as [|? ? Hs Hall]; subst.
  - apply IH. exact Hs.
  - rewrite Forall_forall in Hall |- *. intros b Hb. apply Hall. apply in_map. exact Hb.
Qed.

Lemma StronglySorted_map {A B} (Rr : B -> B -> Prop) (f : A -> B) l :
  StronglySorted (fun a b => Rr (f a) (f b)) l -> StronglySorted Rr (map f l).
Proof.
  induction 1 as [|a l Hs IH Hall]; cbn; constructor; [exact IH|].
  rewrite Forall_forall in Hall |- *. intros b Hb. apply in_map_iff in Hb as (x & <- & Hx). auto.
Qed.

Lemma StronglySorted_conj {A} (R1 R2 : A -> A -> Prop) l :
  StronglySorted R1 l -> StronglySorted R2 l -> StronglySorted (fun a b => R1 a b /\ R2 a b) l.
Proof.
  induction 1 as [|a l Hs IH Hall]; intros H2; constructor; inversion H2 as [|? ? Hs2 Hall2]; subst.
  - apply IH. exact Hs2.
  - rewrite Forall_forall in *. intros b Hb. split; auto.
Qed.

Lemma index_of_cons_ne x a l : x <> a -> index_of x (a :: l) = S (index_of x l).
Proof. intros H. cbn. apply Nat.eqb_neq in H. rewrite H. reflexivity. Qed.

Lemma index_of_cons_eq x l : index_of x (x :: l) = 0.
Proof. cbn. rewrite Nat.eqb_refl. reflexivity. Qed.

Lemma filter_index_sorted (p : id -> bool) l : NoDup l ->
  StronglySorted (fun a b => index_of a l < index_of b l) (filter p l).
Proof.
  induction 1 as [|x l Hx Hnd IH]; cbn [filter]; [constructor|].
  assert (Hshift : StronglySorted (fun a b => index_of a (x :: l) < index_of b (x :: l)) (filter p l)).
  { eapply StronglySorted_impl_in; [exact IH|]. intros a b Ha Hb Hab.
    apply filter_In in Ha as [Ha _]. apply filter_In in Hb as [Hb _].
    cbn beta in Hab. rewrite !index_of_cons_ne by (intros ->; contradiction). lia. }
  destruct (p x); [|exact Hshift]. constructor; [exact Hshift|].
  rewrite Forall_forall. intros b Hb. apply filter_In in Hb as [Hb _].
  rewrite index_of_cons_eq, index_of_cons_ne by (intros ->; contradiction). lia.
Qed.

Lemma filter_add_one (p : id -> bool) u l : NoDup l -> In u l -> p u = false ->
  length (filter (fun e => p e || Nat.eqb e u) l) = S (length (filter p l)).
Proof.
  induction 1 as [|x l Hx Hnd IH]; intros Hu Hp; [contradiction|]. cbn [filter].
  destruct Hu as [->|Hu].
  - rewrite Hp, Nat.eqb_refl. cbn. f_equal. f_equal. apply filter_ext_in'. intros e He.
    replace (Nat.eqb e u) with false; [apply orb_false_r|].
    symmetry. apply Nat.eqb_neq. intros ->. contradiction.
  - replace (Nat.eqb x u) with false by (symmetry; apply Nat.eqb_neq; intros ->; contradiction).
    rewrite orb_false_r. destruct (p x); cbn; rewrite IH by assumption; reflexivity.
Qed.

Lemma map_filter_restrict {A B} (f : A -> option B) (p : A -> bool) (q : B -> bool) :
  forall a b, map f a = map Some b -> (forall x y, In x a -> f x = Some y -> p x = q y) ->
  map f (filter p a) = map Some (filter q b).
Proof.
  induction a as [|x a IH]; intros [|y b] E H; cbn in E; try discriminate; [reflexivity|].
  inversion E as [[E1 E2]]. cbn [filter]. rewrite (H x y (or_introl eq_refl) E1).
  destruct (q y); cbn [map]; [rewrite E1; f_equal|]; apply IH; auto; intros x' y' Hx'; apply H; right; exact Hx'.
Qed.

(* ------------------------------------------------------------------ *)
(** * One more pair in order would contradict maximality                *)
(* ------------------------------------------------------------------ *)
Lemma lcs_extend (l2r : id -> option id) (lch rch : list id) (ps : list (Z * Z)) (u r : id) :
  NoDup lch -> NoDup rch ->
  lcs_seq (fun x y => oid_eqb (l2r x) (Some y)) lch rch = Some ps ->
  let SL := map (fun p => nth_id lch (fst p)) ps in
  let SR := map (fun p => nth_id rch (snd p)) ps in
  In u lch -> ~ In u SL -> l2r u = Some r ->
  map l2r (filter (fun e => mem e SL || Nat.eqb e u) lch)
  = map Some (filter (fun v => mem v SR || Nat.eqb v r) rch) ->
  False.
Proof.
  intros Hnl Hnr Hps SL SR Hu HuS Hur Hmap.
  pose proof (lcs_seq_valid _ _ _ _ Hps) as Hvalid.
  destruct (lcs_marks l2r lch rch ps Hnl Hnr Hvalid) as (M1 & M2 & M3). fold SL SR in M1, M2, M3.
  set (pS := fun e => mem e SL || Nat.eqb e u) in *.
  set (qS := fun v => mem v SR || Nat.eqb v r) in *.
  set (Es := filter pS lch) in *. set (Fs := filter qS rch) in *.
  set (partner := fun e => match l2r e with Some v => v | None => 0 end).
  destruct (map_eq_Some_In _ _ _ Hmap) as [HEF _].
  assert (Hpart : map partner Es = Fs).
  { apply map_Some_inj. rewrite <- Hmap. rewrite map_map. apply map_ext_in. intros e He.
    destruct (HEF e He) as (v & _ & Ev). unfold partner. rewrite Ev. reflexivity. }
  set (F := fun e => (Z.of_nat (index_of e lch), Z.of_nat (index_of (partner e) rch))).
  set (qs := map F Es).
  assert (Hlen : length qs = S (length ps)).
  { unfold qs, Es, pS. rewrite map_length. rewrite filter_add_one; try assumption.
    - rewrite M2. unfold SL. rewrite map_length. reflexivity.
    - apply mem_false. exact HuS. }
  assert (Hcs : seq_common_subseq (fun x y => oid_eqb (l2r x) (Some y)) lch rch qs).
  { split.
    - unfold qs. apply StronglySorted_map.
      apply (StronglySorted_impl_in (fun a b => index_of a lch < index_of b lch /\
                                                index_of (partner a) rch < index_of (partner b) rch)).
      + apply StronglySorted_conj.
        * apply filter_index_sorted. exact Hnl.
        * apply (StronglySorted_map_inv (fun a b => index_of a rch < index_of b rch) partner).
          rewrite Hpart. apply filter_index_sorted. exact Hnr.
      + intros a b _ _ [H1 H2]. unfold lt2, F. cbn. lia.
    - apply Forall_forall. intros p Hp. unfold qs in Hp. apply in_map_iff in Hp as (e & <- & He).
      destruct (HEF e He) as (v & Hv & Ev).
      assert (Hel : In e lch) by (apply filter_In in He; tauto).
      assert (Hvr : In v rch) by (apply filter_In in Hv; tauto).
      unfold matching_pair, F. cbn [fst snd]. split; [lia|]. split; [lia|].
      exists e, v. rewrite !Nat2Z.id. unfold partner. rewrite Ev.
      split; [apply index_of_nth_error; exact Hel|]. split; [apply index_of_nth_error; exact Hvr|].
      apply oid_eqb_true. reflexivity. }
  pose proof (lcs_seq_maximal _ _ _ _ _ Hps Hcs). lia.
Qed.

(* ------------------------------------------------------------------ *)
(** * align_children is effective                                       *)
(* ------------------------------------------------------------------ *)
Lemma filter_ins_remove (q : id -> bool) u pos ks :
  q u = false -> filter q (ins_at pos u (remove_id u ks)) = filter q ks.
Proof.
  intros Hq. unfold ins_at. rewrite filter_app. cbn [filter]. rewrite Hq.
  rewrite <- filter_app, firstn_skipn. apply filter_remove_id. exact Hq.
Qed.

Lemma bool_eq_iff (a b : bool) : (a = true <-> b = true) -> a = b.
Proof.
  destruct a, b; intros [H1 H2]; try reflexivity.
  - specialize (H1 eq_refl). discriminate.
  - specialize (H2 eq_refl). discriminate.
Qed.

Section AlignEff.
Variable R : forest.
Variables rootL rootR : id.
Hypothesis HwfR : wf_forest R rootR.
Variable Orig : id -> Prop.
Notation Inv := (Inv R rootL rootR Orig).

Lemma align_eff Pp Pa Pm s ln rn :
  Inv Pp Pa Pm s -> In rn Pm -> r2l s rn = Some ln ->
  (forall z, In z (fkids R rn) -> ~ In z Pp) ->
  (forall v, In v (fkids R rn) -> inoR s v = false) ->
  Step true rootL s (align R s ln rn).
Proof.
  intros HI Hrn Hln Hkids Hunm.
  destruct (Inv_r2l_lt _ _ _ HwfR _ _ _ _ _ HI _ _ Hln) as [Hlnlt Hrnlt].
  pose proof (I_wf _ _ _ _ _ _ _ _ HI) as Hwf.
  set (lch := lch_of R s ln rn). set (rch := rch_of R s ln rn).
  assert (Hlr : forall u, In u lch -> exists v, In v rch /\ l2r s u = Some v).
  { intros u Hu. apply (lch_In R rootR HwfR) in Hu as [H1 (r & H2 & H3)]; [|exact Hrnlt].
    exists r. split; [|exact H2]. apply (rch_In R rootL); try assumption. split; [exact H3|].
    exists u. split; [apply (I_bij _ _ _ _ _ _ _ _ HI); exact H2|exact H1]. }
  rewrite align_unfold. fold lch rch. cbn zeta. rewrite match_nil2.
  destruct (is_nil lch || is_nil rch); [apply Step_refl|].
  destruct (lcs_seq_total (fun x y => oid_eqb (l2r s x) (Some y)) lch rch) as [ps Hps].
  rewrite Hps.
  pose proof (lcs_seq_valid _ _ _ _ Hps) as Hvalid.
  assert (Hndl : NoDup lch) by (apply NoDup_filter; apply (wf_kids_nodup _ _ Hwf _ Hlnlt)).
  assert (Hndr : NoDup rch) by (apply NoDup_filter; apply (wf_kids_nodup _ _ HwfR _ Hrnlt)).
  destruct (lcs_marks (l2r s) lch rch ps Hndl Hndr Hvalid) as (M1 & M2 & M3).
  set (gL := fun p : Z * Z => nth_id lch (fst p)) in *.
  set (gR := fun p : Z * Z => nth_id rch (snd p)) in *.
  set (SL := map gL ps) in *. set (SR := map gR ps) in *.
  set (s0 := fold_left (fun s p => mark s (gL p) (gR p)) ps s).
  destruct (fold_mark_fields gL gR ps s) as (F1 & F2 & F3 & F4 & F5 & F6 & F7).
  fold s0 SL SR in F1, F2, F3, F4, F5, F6, F7.
  assert (HSLlch : forall e, In e SL -> In e lch).
  { intros e He. rewrite <- M2 in He. apply filter_In in He. tauto. }
  assert (HSRrch : forall v, In v SR -> In v rch).
  { intros v Hv. rewrite <- M3 in Hv. apply filter_In in Hv. tauto. }
  assert (HI0 : Inv Pp Pa Pm s0).
  { apply (Inv_marks _ _ _ HwfR _ Pp Pa Pm s s0 ln rn SL SR); auto.
    - transitivity (filter (fun u => mem u SL) lch); [|exact M2].
      unfold lch, lch_of, kidsof. symmetry. apply filter_filter_sub.
      intros u Hu Hm. apply mem_In in Hm. apply HSLlch in Hm.
      unfold lch, lch_of in Hm. apply filter_In in Hm. tauto.
    - transitivity (filter (fun u => mem u SR) rch); [|exact M3].
      unfold rch, rch_of, kidsof. symmetry. apply filter_filter_sub.
      intros u Hu Hm. apply mem_In in Hm. apply HSRrch in Hm.
      unfold rch, rch_of in Hm. apply filter_In in Hm. tauto. }
  set (J := fun (t : st) (todo : list id) =>
     Inv Pp Pa Pm t /\ l2r t = l2r s /\ r2l t = r2l s /\ fnext (W t) = fnext (W s) /\
     (forall z, In z (fkids (W t) ln) <-> In z (fkids (W s) ln)) /\
     filter (fun e => mem e SL || mem e todo) (fkids (W t) ln)
     = filter (fun e => mem e SL || mem e todo) (fkids (W s) ln) /\
     (forall e, In e SL -> inoL t e = true) /\ (forall v, In v SR -> inoR t v = true)).
  assert (Hloop : forall todo done t, lch = done ++ todo -> J t todo ->
                    Step true rootL t (fold_left (align_body R) todo t)).
  { induction todo as [|u todo IH]; intros done t E (JI & Jl & Jr & Jn & Jk & Jo & JmL & JmR); [apply Step_refl|].
    cbn [fold_left].
    assert (Hu : In u lch) by (rewrite E; apply in_or_app; right; left; reflexivity).
    assert (Hutodo : ~ In u todo).
    { rewrite E in Hndl. apply NoDup_remove_2 in Hndl. intros H; apply Hndl; apply in_or_app; right; exact H. }
    assert (E' : lch = (done ++ [u]) ++ todo) by (rewrite E, <- app_assoc; reflexivity).
    pose proof (proj1 (lch_In R rootR HwfR s ln rn u Hrnlt) Hu) as [Hk0 (r & Hl0 & Hr)].
    assert (Hk : In u (fkids (W t) ln)) by (apply Jk; exact Hk0).
    assert (Hl : l2r t u = Some r) by (rewrite Jl; exact Hl0).
    assert (Hlnt : r2l t rn = Some ln) by (rewrite Jr; exact Hln).
    (* the order invariant for the smaller todo list *)
    assert (Hord : forall ks', filter (fun e => mem e SL || mem e todo) ks'
                   = filter (fun e => mem e SL || mem e todo)
                            (filter (fun e => mem e SL || mem e (u :: todo)) ks')).
    { intros ks'. symmetry. apply filter_filter_sub. intros x _ Hx.
      apply orb_true_iff in Hx as [Hx|Hx]; [rewrite Hx; reflexivity|].
      apply orb_true_iff. right. apply mem_In. right. apply mem_In. exact Hx. }
    destruct (align_iter R rootL rootR HwfR Orig Pp Pa Pm t ln rn u r JI Hrn Hlnt Hkids Hk Hl Hr)
      as [[Em ->]|(Em & pos & s1 & s2 & Ek & Hpos & -> & HI' & Hsp & Hple)].
    - apply (IH (done ++ [u])); [exact E'|].
      split; [exact JI|]. split; [exact Jl|]. split; [exact Jr|]. split; [exact Jn|]. split; [exact Jk|].
      split; [|split; assumption].
      rewrite (Hord (fkids (W t) ln)), (Hord (fkids (W s) ln)), Jo. reflexivity.
    - set (t' := do_move t u ln pos r) in *.
      assert (HuSL : ~ In u SL) by (intros H; rewrite (JmL u H) in Em; discriminate).
      assert (Hlnt' : ln < fnext (W t)) by (rewrite Jn; exact Hlnlt).
      assert (Hk' : fkids (W t') ln = ins_at pos u (remove_id u (fkids (W t) ln))).
      { unfold t'. rewrite do_move_W. apply (fkids_move_t (W t) rootL u ln pos (I_wf _ _ _ _ _ _ _ _ JI) Hlnt'). }
      eapply Step_trans.
      + (* the move is applicable and effective *)
        apply (Step_one true rootL t t' (IMove u ln pos)); try reflexivity; [exact Hsp|].
        cbn [is_ns_action orb]. apply negb_true_iff.
        apply (same_doc_kids rootL (W t) (W t') ln (I_wf _ _ _ _ _ _ _ _ JI)).
        { eapply I_aliveL; [exact JI|]. apply (I_bij _ _ _ _ _ _ _ _ JI). exact Hlnt. }
        intros Eq.
        pose proof (I_o2 _ _ _ _ _ _ _ _ HI' ln rn Hlnt) as O2. rewrite <- Eq in O2.
        change (l2r t') with (l2r t) in O2. rewrite Jl in O2.
        change (inoL t') with (upd (inoL t) u true) in O2.
        change (inoR t') with (upd (inoR t) r true) in O2.
        set (pS := fun e => mem e SL || Nat.eqb e u).
        set (qS := fun v => mem v SR || Nat.eqb v r).
        assert (Hinj : forall a b y, l2r s a = Some y -> l2r s b = Some y -> a = b).
        { intros a b y Ha Hb. rewrite <- Jl in Ha, Hb. eapply (Inv_inj_l _ _ _ _ _ _ _ _ JI); eauto. }
        destruct (map_eq_Some_In _ _ _ M1) as [ML MR].
        pose proof (map_filter_restrict (l2r s) pS qS _ _ O2) as O2'.
        rewrite filter_filter_sub in O2'.
        2:{ intros x _ Hx. unfold pS in Hx. apply orb_true_iff in Hx as [Hx|Hx].
            - apply mem_In in Hx. unfold upd. destruct (Nat.eqb x u); [reflexivity|apply JmL; exact Hx].
            - apply Nat.eqb_eq in Hx. subst x. apply upd_same. }
        rewrite (filter_filter_sub qS) in O2'.
        2:{ intros x _ Hx. unfold qS in Hx. apply orb_true_iff in Hx as [Hx|Hx].
            - apply mem_In in Hx. unfold upd. destruct (Nat.eqb x r); [reflexivity|apply JmR; exact Hx].
            - apply Nat.eqb_eq in Hx. subst x. apply upd_same. }
        assert (O3 : map (l2r s) (filter pS (fkids (W t) ln)) = map Some (filter qS (fkids R rn))).
        { apply O2'. intros x y _ Hxy. unfold pS, qS. f_equal.
          - apply bool_eq_iff. rewrite !mem_In. split.
            + intros Hx. destruct (ML x Hx) as (z & Hz & Exz). congruence.
            + intros Hy. destruct (MR y Hy) as (x' & Hx' & Ex'). rewrite (Hinj x x' y Hxy Ex'). exact Hx'.
          - apply bool_eq_iff. rewrite !Nat.eqb_eq. split.
            + intros ->. congruence.
            + intros ->. apply (Hinj x u r Hxy Hl0). }
        (* transport to lch / rch *)
        assert (E1 : filter pS (fkids (W t) ln) = filter pS lch).
        { transitivity (filter pS (fkids (W s) ln)).
          - assert (Hsub : forall ks', filter pS ks'
                      = filter pS (filter (fun e => mem e SL || mem e (u :: todo)) ks')).
            { intros ks'. symmetry. apply filter_filter_sub. intros x _ Hx. unfold pS in Hx.
              apply orb_true_iff in Hx as [Hx|Hx]; [rewrite Hx; reflexivity|].
              apply orb_true_iff. right. apply mem_In. left. apply Nat.eqb_eq in Hx. congruence. }
            rewrite (Hsub (fkids (W t) ln)), (Hsub (fkids (W s) ln)), Jo. reflexivity.
          - unfold lch, lch_of, kidsof. symmetry. apply filter_filter_sub. intros x Hx Hp.
            assert (Hxl : In x lch).
            { unfold pS in Hp. apply orb_true_iff in Hp as [Hp|Hp].
              - apply HSLlch. apply mem_In. exact Hp.
              - apply Nat.eqb_eq in Hp. subst x. exact Hu. }
            unfold lch, lch_of in Hxl. apply filter_In in Hxl. tauto. }
        assert (E2 : filter qS (fkids R rn) = filter qS rch).
        { unfold rch, rch_of, kidsof. symmetry. apply filter_filter_sub. intros x Hx Hp.
          assert (Hxr : In x rch).
          { unfold qS in Hp. apply orb_true_iff in Hp as [Hp|Hp].
            - apply HSRrch. apply mem_In. exact Hp.
            - apply Nat.eqb_eq in Hp. subst x. destruct (Hlr u Hu) as (v & Hv & Ev). congruence. }
          unfold rch, rch_of in Hxr. apply filter_In in Hxr. tauto. }
        rewrite E1, E2 in O3.
        exact (lcs_extend (l2r s) lch rch ps u r Hndl Hndr Hps Hu HuSL Hl0 O3).
      + apply (IH (done ++ [u])); [exact E'|].
        split; [exact HI'|]. split; [exact Jl|]. split; [exact Jr|].
        split; [unfold t'; rewrite do_move_W, fnext_move; exact Jn|]. split; [|split; [|split]].
        * intros z. rewrite <- Jk, Hk', ins_at_In, remove_id_In. split; [intros [->|[H _]]; auto|].
          intros H. destruct (Nat.eq_dec z u); auto.
        * rewrite Hk', filter_ins_remove.
          -- rewrite (Hord (fkids (W t) ln)), (Hord (fkids (W s) ln)), Jo. reflexivity.
          -- apply orb_false_iff. split; apply mem_false; assumption.
        * intros e He. cbn. unfold upd. destruct (Nat.eqb e u); [reflexivity|apply JmL; exact He].
        * intros v Hv. cbn. unfold upd. destruct (Nat.eqb v r); [reflexivity|apply JmR; exact Hv]. }
  eapply Step_trans; [apply (Step_nop true rootL s s0); assumption|].
  apply (Hloop lch [] s0 eq_refl).
  split; [exact HI0|]. split; [exact F2|]. split; [exact F3|]. split; [rewrite F1; reflexivity|].
  split; [intros z; rewrite F1; reflexivity|]. split; [rewrite F1; reflexivity|]. split.
  - intros e He. rewrite F6. apply orb_true_iff. right. apply mem_In. exact He.
  - intros v Hv. rewrite F7. apply orb_true_iff. right. apply mem_In. exact Hv.
Qed.

End AlignEff.

(* ------------------------------------------------------------------ *)
(** * Effectiveness of the whole script (C17)                           *)
(* ------------------------------------------------------------------ *)
Theorem gen_script_effective : forall ignored L R rootL rootR m,
  wf_forest L rootL -> wf_forest R rootR -> valid_matching L R rootL rootR m ->
  let s := gen_script ignored R rootR L rootL m in
  run_checked rootL L (out s) = Some (W s).
Proof.
  intros ign L R rootL rootR m HwfL HwfR Hvm.
  apply (gen_script_core ign R rootL rootR HwfR (desc L rootL) true); [|exact HwfL|exact Hvm|auto].
  intros Pp Pa Pm s ln rn HI H1 H2 H3 H4.
  apply (align_eff R rootL rootR HwfR _ Pp Pa Pm s ln rn HI H1 H2 H3 H4).
Qed.

Print Assumptions gen_script_effective.
