(* DifferAlign.v -- align_children preserves the invariant.

   Exported, in plain words:
   - [filter_idx]: filtering a duplicate-free list by membership in the elements
     at strictly increasing positions returns exactly those elements, in order;
   - [lcs_marks]: the pairs returned by the LCS helper designate partner nodes,
     and marking them keeps the marked children in corresponding order;
   - [align_unfold], [lch_In], [rch_In]: align and its two child lists;
   - [align_iter]: one iteration of the move loop (nothing, or a documented,
     applicable move inside the same parent which preserves Inv);
   - [align_ok]: align preserves Inv, establishes "children aligned" for the
     node, does not touch maps, labels or fnext, never fails, and its moves are
     applicable as documented (Step false). *)
From Coq Require Import List NArith ZArith Arith Bool Lia Sorted.
Import ListNotations.
Require Import XV.Str XV.Forest XV.LCS XV.LCSProofs XV.Matcher XV.Differ XV.Spec XV.WF XV.ForestProofs XV.TreeProofs.
Require Import XV.DifferFrame XV.DifferInv.

(* ------------------------------------------------------------------ *)
(** * Increasing positions                                              *)
(* ------------------------------------------------------------------ *)
Lemma sorted_shift (is_ : list nat) :
  StronglySorted lt is_ -> (forall i, In i is_ -> 1 <= i) ->
  exists js, is_ = map S js /\ StronglySorted lt js.
Proof.
  induction 1 as [|i is_ Hs IH Hall]; intros Hge.
  - exists []. split; [reflexivity|constructor].
  - destruct IH as (js & -> & Hjs); [intros j Hj; apply Hge; right; exact Hj|].
    destruct i as [|i]; [specialize (Hge 0 (or_introl eq_refl)); lia|].
    exists (i :: js). split; [reflexivity|]. constructor; [exact Hjs|].
    rewrite Forall_forall in Hall |- *. intros j Hj.
    specialize (Hall (S j) (in_map S _ _ Hj)). lia.
Qed.

Lemma filter_idx (l : list id) : NoDup l -> forall is_,
  StronglySorted lt is_ -> (forall i, In i is_ -> i < length l) ->
  filter (fun u => mem u (map (fun i => nth i l 0) is_)) l = map (fun i => nth i l 0) is_.
Proof.
  induction 1 as [|a l Ha Hnd IH]; intros is_ Hs Hlt.
  - destruct is_ as [|i is_]; [reflexivity|]. specialize (Hlt i (or_introl eq_refl)). cbn in Hlt. lia.
  - assert (Hshift : forall js, map (fun i => nth i (a :: l) 0) (map S js) = map (fun j => nth j l 0) js).
    { intros js. rewrite map_map. reflexivity. }
    assert (Hsub : forall js, (forall j, In j js -> j < length l) ->
                   forall u, In u (map (fun j => nth j l 0) js) -> In u l).
    { intros js Hjs u Hu. apply in_map_iff in Hu as (j & <- & Hj). apply nth_In. apply Hjs. exact Hj. }
    destruct is_ as [|i0 is_].
    + cbn [map]. apply filter_all_false. intros; reflexivity.
    + destruct i0 as [|i0].
      * (* position 0 is selected *)
        inversion Hs as [|? ? Hs' Hall]; subst.
        destruct (sorted_shift is_ Hs') as (js & -> & Hjs).
        { intros i Hi. rewrite Forall_forall in Hall. specialize (Hall i Hi). lia. }
        assert (Hjlt : forall j, In j js -> j < length l).
        { intros j Hj. specialize (Hlt (S j) (or_intror (in_map S _ _ Hj))). cbn in Hlt. lia. }
        cbn [map nth]. rewrite Hshift. cbn [filter]. unfold mem at 1. cbn [existsb].
        rewrite Nat.eqb_refl. cbn [orb]. f_equal.
        transitivity (filter (fun u => mem u (map (fun j => nth j l 0) js)) l); [|apply IH; assumption].
        apply filter_ext_in'. intros u Hu.
        unfold mem. cbn [existsb]. replace (Nat.eqb u a) with false; [reflexivity|].
        symmetry. apply Nat.eqb_neq. intros ->. contradiction.
      * destruct (sorted_shift (S i0 :: is_) Hs) as (js & E & Hjs).
        { intros i [<-|Hi]; [lia|]. inversion Hs as [|? ? _ Hall]; subst.
          rewrite Forall_forall in Hall. specialize (Hall i Hi). lia. }
        rewrite E.
        assert (Hjlt : forall j, In j js -> j < length l).
        { intros j Hj. assert (Hin : In (S j) (S i0 :: is_)) by (rewrite E; apply in_map; exact Hj).
          specialize (Hlt (S j) Hin). cbn in Hlt. lia. }
        rewrite Hshift. cbn [filter].
        replace (mem a (map (fun j => nth j l 0) js)) with false.
        -- apply IH; assumption.
        -- symmetry. apply mem_false. intros Hin. apply Ha. eapply Hsub; eauto.
Qed.

Lemma sorted_map {A} (Rr : A -> A -> Prop) (f : A -> nat) l :
  StronglySorted Rr l -> (forall a b, In a l -> In b l -> Rr a b -> f a < f b) ->
  StronglySorted lt (map f l).
Proof.
  induction 1 as [|a l Hs IH Hall]; intros Hf; cbn; constructor.
  - apply IH. intros x y Hx Hy. apply Hf; right; assumption.
  - rewrite Forall_forall in Hall |- *. intros j Hj. apply in_map_iff in Hj as (b & <- & Hb).
    apply Hf; [left; reflexivity|right; exact Hb|apply Hall; exact Hb].
Qed.

Lemma filter_filter_sub {A} (p q : A -> bool) l :
  (forall x, In x l -> p x = true -> q x = true) -> filter p (filter q l) = filter p l.
Proof.
  induction l as [|x l IH]; intros H; [reflexivity|]. cbn.
  destruct (q x) eqn:Eq; cbn.
  - destruct (p x); rewrite IH; try reflexivity; intros y Hy; apply H; right; exact Hy.
  - destruct (p x) eqn:Ep.
    + rewrite (H x (or_introl eq_refl) Ep) in Eq. discriminate.
    + apply IH. intros y Hy. apply H. right; exact Hy.
Qed.

(* what the LCS helper returns, in terms of marks *)
Lemma lcs_marks (l2r : id -> option id) (lch rch : list id) (ps : list (Z * Z)) :
  NoDup lch -> NoDup rch ->
  seq_common_subseq (fun x y => oid_eqb (l2r x) (Some y)) lch rch ps ->
  let SL := map (fun p => nth_id lch (fst p)) ps in
  let SR := map (fun p => nth_id rch (snd p)) ps in
  map l2r SL = map Some SR /\
  filter (fun u => mem u SL) lch = SL /\ filter (fun v => mem v SR) rch = SR.
Proof.
  intros Hnl Hnr [Hsorted Hmatch] SL SR.
  rewrite Forall_forall in Hmatch.
  split; [|split].
  - unfold SL, SR. rewrite !map_map. apply map_ext_in. intros p Hp. cbn beta.
    destruct (Hmatch p Hp) as (_ & _ & a & b & Ha & Hb & Hab).
    replace (nth_id lch (fst p)) with a by (unfold nth_id; symmetry; apply nth_error_nth; exact Ha).
    replace (nth_id rch (snd p)) with b by (unfold nth_id; symmetry; apply nth_error_nth; exact Hb).
    apply oid_eqb_true. exact Hab.
  - unfold SL. replace (map (fun p => nth_id lch (fst p)) ps)
      with (map (fun i => nth i lch 0) (map (fun p => Z.to_nat (fst p)) ps))
      by (rewrite map_map; reflexivity).
    apply filter_idx; [exact Hnl| |].
    + eapply sorted_map; [exact Hsorted|]. intros p q Hp Hq [Hlt _].
      destruct (Hmatch p Hp) as (H1 & _). destruct (Hmatch q Hq) as (H2 & _). lia.
    + intros i Hi. apply in_map_iff in Hi as (p & <- & Hp).
      destruct (Hmatch p Hp) as (_ & _ & a & b & Ha & _). apply nth_error_Some. rewrite Ha. discriminate.
  - unfold SR. replace (map (fun p => nth_id rch (snd p)) ps)
      with (map (fun i => nth i rch 0) (map (fun p => Z.to_nat (snd p)) ps))
      by (rewrite map_map; reflexivity).
    apply filter_idx; [exact Hnr| |].
    + eapply sorted_map; [exact Hsorted|]. intros p q Hp Hq [_ Hlt].
      destruct (Hmatch p Hp) as (_ & H1 & _). destruct (Hmatch q Hq) as (_ & H2 & _). lia.
    + intros i Hi. apply in_map_iff in Hi as (p & <- & Hp).
      destruct (Hmatch p Hp) as (_ & _ & a & b & _ & Hb & _). apply nth_error_Some. rewrite Hb. discriminate.
Qed.

Lemma fold_left_stable {A B} (f : A -> B -> A) (I : A -> Prop) (Q : A -> Prop) l :
  (forall a b, I a -> In b l -> I (f a b)) ->
  (forall a b, I a -> In b l -> Q a -> Q (f a b)) ->
  forall a, I a -> Q a -> I (fold_left f l a) /\ Q (fold_left f l a).
Proof.
  induction l as [|b l IH]; intros HI HQ a Ia Qa; cbn; [auto|].
  apply IH.
  - intros a' b' Ia' Hb'. apply HI; [exact Ia'|right; exact Hb'].
  - intros a' b' Ia' Hb'. apply HQ; [exact Ia'|right; exact Hb'].
  - apply HI; [exact Ia|left; reflexivity].
  - apply HQ; [exact Ia|left; reflexivity|exact Qa].
Qed.

Lemma fold_left_inv {A B} (f : A -> B -> A) (I : A -> Prop) (Q : B -> A -> Prop) l :
  (forall a b, I a -> In b l -> I (f a b) /\ Q b (f a b)) ->
  (forall a b b', I a -> In b l -> Q b' a -> Q b' (f a b)) ->
  forall a, I a -> I (fold_left f l a) /\ forall b, In b l -> Q b (fold_left f l a).
Proof.
  induction l as [|b0 l IH]; intros H1 H2 a Ia; cbn; [split; [exact Ia|intros b []]|].
  destruct (H1 a b0 Ia (or_introl eq_refl)) as [Ia' Qb0].
  destruct (IH (fun a b Ia Hb => H1 a b Ia (or_intror Hb))
               (fun a b b' Ia Hb => H2 a b b' Ia (or_intror Hb)) _ Ia') as [If Qf].
  split; [exact If|]. intros b [<-|Hb]; [|apply Qf; exact Hb].
  apply (fold_left_stable f I (Q b0) l); auto.
  - intros a' b' Ia'' Hb'. apply (H1 a' b' Ia'' (or_intror Hb')).
  - intros a' b' Ia'' Hb'. apply (H2 a' b' b0 Ia'' (or_intror Hb')).
Qed.

(* ------------------------------------------------------------------ *)
(** * align                                                             *)
(* ------------------------------------------------------------------ *)
Section Align.
Variable R : forest.
Variables rootL rootR : id.
Hypothesis HwfR : wf_forest R rootR.

Definition lch_of (s : st) (ln rn : id) : list id :=
  filter (fun c => match l2r s c with
                   | Some r => oid_eqb (parentof R r) (Some rn)
                   | None => false end) (kidsof (W s) ln).
Definition rch_of (s : st) (ln rn : id) : list id :=
  filter (fun c => match r2l s c with
                   | Some l => oid_eqb (parentof (W s) l) (Some ln)
                   | None => false end) (kidsof R rn).

Definition align_body (s : st) (lchild : id) : st :=
  if inoL s lchild then s else
  match l2r s lchild with
  | None => fail s
  | Some rchild =>
      match find_pos R s rchild, parentof R rchild with
      | Some pos, Some rtarget =>
          match r2l s rtarget with
          | Some ltarget => do_move s lchild ltarget pos rchild
          | None => fail s
          end
      | _, _ => fail s
      end
  end.

Lemma align_unfold s ln rn : align R s ln rn =
  let lch := lch_of s ln rn in let rch := rch_of s ln rn in
  match lch, rch with
  | [], _ | _, [] => s
  | _, _ =>
      match lcs_seq (fun x y => oid_eqb (l2r s x) (Some y)) lch rch with
      | None => fail s
      | Some ps =>
          fold_left align_body lch
            (fold_left (fun s p => mark s (nth_id lch (fst p)) (nth_id rch (snd p))) ps s)
      end
  end.
Proof. reflexivity. Qed.

Lemma match_nil2 {A B C} (l : list A) (r : list B) (x y : C) :
  (match l, r with [], _ | _, [] => x | _, _ => y end) = if is_nil l || is_nil r then x else y.
Proof. destruct l, r; reflexivity. Qed.

Lemma lch_In s ln rn u : rn < fnext R ->
  (In u (lch_of s ln rn) <->
   In u (fkids (W s) ln) /\ exists r, l2r s u = Some r /\ In r (fkids R rn)).
Proof.
  intros Hrn. unfold lch_of, kidsof. rewrite filter_In. split.
  - intros [H1 H2]. split; [exact H1|]. destruct (l2r s u) as [r|]; [|discriminate].
    exists r. split; [reflexivity|]. apply oid_eqb_true in H2. apply parentof_Some in H2. tauto.
  - intros [H1 (r & H2 & H3)]. split; [exact H1|]. rewrite H2. apply oid_eqb_true.
    eapply parentof_of_In; eauto.
Qed.

Lemma rch_In s ln rn v : wf_forest (W s) rootL -> ln < fnext (W s) ->
  (In v (rch_of s ln rn) <->
   In v (fkids R rn) /\ exists l, r2l s v = Some l /\ In l (fkids (W s) ln)).
Proof.
  intros Hwf Hln. unfold rch_of, kidsof. rewrite filter_In. split.
  - intros [H1 H2]. split; [exact H1|]. destruct (r2l s v) as [l|]; [|discriminate].
    exists l. split; [reflexivity|]. apply oid_eqb_true in H2. apply parentof_Some in H2. tauto.
  - intros [H1 (l & H2 & H3)]. split; [exact H1|]. rewrite H2. apply oid_eqb_true.
    eapply parentof_of_In; eauto.
Qed.

Variable Orig : id -> Prop.
Notation Inv := (Inv R rootL rootR Orig).

Lemma align_iter Pp Pa Pm s ln rn u r :
  Inv Pp Pa Pm s -> In rn Pm -> r2l s rn = Some ln -> (forall z, In z (fkids R rn) -> ~ In z Pp) ->
  In u (fkids (W s) ln) -> l2r s u = Some r -> In r (fkids R rn) ->
  (inoL s u = true /\ align_body s u = s) \/
  (inoL s u = false /\ exists pos s1 s2,
     fkids R rn = s1 ++ r :: s2 /\
     pos_ok (inoL s) (inoR s) (l2r s) (fkids (W s) ln) s1 u pos /\
     align_body s u = do_move s u ln pos r /\
     Inv Pp Pa Pm (do_move s u ln pos r) /\
     spec_apply rootL (W s) (IMove u ln pos) = Some (W (do_move s u ln pos r)) /\
     pos <= length (remove_id u (fkids (W s) ln))).
Proof.
  intros HI Hrn Hln Hkids Hu Hl Hr.
  unfold align_body. destruct (inoL s u) eqn:Em; [left; auto|right]. split; [reflexivity|].
  destruct (Inv_r2l_lt _ _ _ HwfR _ _ _ _ _ HI _ _ Hln) as [Hlnlt Hrnlt].
  apply in_split in Hr as Hsplit. destruct Hsplit as (s1 & s2 & Ek).
  assert (Hru : r2l s r = Some u) by (apply (I_bij _ _ _ _ _ _ _ _ HI); exact Hl).
  destruct (pos_ok_of_find _ _ _ HwfR _ Pp Pa Pm s rn r ln s1 s2 u HI Hrnlt Ek Hln (or_introl Hru))
    as (pos & Hf & Hpos).
  exists pos, s1, s2. rewrite Hl, Hf.
  rewrite (parentof_of_In R rootR r rn HwfR Hrnlt Hr). rewrite Hln.
  assert (Hnd : ~ desc (W s) u ln).
  { intros Hd. eapply (no_cycle (W s) rootL ln u); eauto; [apply (I_wf _ _ _ _ _ _ _ _ HI)|].
    eapply I_aliveL; [exact HI|]. apply (I_bij _ _ _ _ _ _ _ _ HI). exact Hln. }
  destruct (Inv_do_move _ _ _ HwfR _ Pp Pa Pm s rn r ln u s1 s2 pos HI (Hkids r Hr) Hrn Ek Hln Hru Em Hnd Hpos)
    as (H1 & H2 & H3 & H4).
  split; [exact Ek|]. split; [exact Hpos|]. split; [reflexivity|].
  split; [exact H1|]. split; [exact H2|exact H4].
Qed.

Lemma align_ok Pp Pa Pm s ln rn :
  Inv Pp Pa Pm s -> In rn Pm -> r2l s rn = Some ln ->
  (forall z, In z (fkids R rn) -> ~ In z Pp) ->
  (forall v, In v (fkids R rn) -> inoR s v = false) ->
  let s' := align R s ln rn in
  Inv Pp (Pa ++ [rn]) Pm s' /\ Step false rootL s s' /\
  l2r s' = l2r s /\ r2l s' = r2l s /\ flab (W s') = flab (W s) /\ fnext (W s') = fnext (W s).
Proof.
  intros HI Hrn Hln Hkids Hunm s'.
  destruct (Inv_r2l_lt _ _ _ HwfR _ _ _ _ _ HI _ _ Hln) as [Hlnlt Hrnlt].
  pose proof (I_wf _ _ _ _ _ _ _ _ HI) as Hwf.
  assert (HrnP : In rn Pp) by (apply (I_Pm _ _ _ _ _ _ _ _ HI); exact Hrn).
  set (lch := lch_of s ln rn). set (rch := rch_of s ln rn).
  (* partners *)
  assert (Hlr : forall u, In u lch -> exists v, In v rch /\ l2r s u = Some v).
  { intros u Hu. apply lch_In in Hu as [H1 (r & H2 & H3)]; [|exact Hrnlt].
    exists r. split; [|exact H2]. apply rch_In; try assumption. split; [exact H3|].
    exists u. split; [apply (I_bij _ _ _ _ _ _ _ _ HI); exact H2|exact H1]. }
  (* trivial case: nothing to align, and then no child of ln has its partner under rn *)
  assert (Htriv : lch = [] \/ rch = [] ->
          Inv Pp (Pa ++ [rn]) Pm s).
  { intros Hnil. apply Inv_aligned; [exact HI|exact HrnP|].
    intros w c z Hw Hc Hl Hz. exfalso. rewrite Hln in Hw. inversion Hw; subst w.
    assert (Hcl : In c lch) by (apply lch_In; [exact Hrnlt|]; eauto).
    destruct (Hlr c Hcl) as (v & Hv & _).
    destruct Hnil as [E|E]; rewrite E in *; contradiction. }
  unfold s'. rewrite align_unfold. fold lch rch. cbn zeta. rewrite match_nil2.
  destruct (is_nil lch) eqn:El; cbn [orb].
  { assert (lch = []) by (destruct lch; [reflexivity|discriminate]).
    split; [apply Htriv; left; assumption|]. split; [apply Step_refl|]. repeat split; reflexivity. }
  destruct (is_nil rch) eqn:Er; cbn [orb].
  { assert (rch = []) by (destruct rch; [reflexivity|discriminate]).
    split; [apply Htriv; right; assumption|]. split; [apply Step_refl|]. repeat split; reflexivity. }
  destruct (lcs_seq_total (fun x y => oid_eqb (l2r s x) (Some y)) lch rch) as [ps Hps].
  rewrite Hps.
  pose proof (lcs_seq_valid _ _ _ _ Hps) as Hvalid.
  assert (Hndl : NoDup lch) by (apply NoDup_filter; apply (wf_kids_nodup _ _ Hwf _ Hlnlt)).
  assert (Hndr : NoDup rch) by (apply NoDup_filter; apply (wf_kids_nodup _ _ HwfR _ Hrnlt)).
  destruct (lcs_marks (l2r s) lch rch ps Hndl Hndr Hvalid) as (M1 & M2 & M3).
  set (gL := fun p : Z * Z => nth_id lch (fst p)) in *.
  set (gR := fun p : Z * Z => nth_id rch (snd p)) in *.
  set (s0 := fold_left (fun s p => mark s (gL p) (gR p)) ps s) in *.
  destruct (fold_mark_fields gL gR ps s) as (F1 & F2 & F3 & F4 & F5 & F6 & F7). fold s0 in F1, F2, F3, F4, F5, F6, F7.
  (* marks *)
  assert (HI0 : Inv Pp Pa Pm s0).
  { apply (Inv_marks _ _ _ HwfR _ Pp Pa Pm s s0 ln rn (map gL ps) (map gR ps)); auto.
    - transitivity (filter (fun u => mem u (map gL ps)) lch); [|exact M2].
      unfold lch, lch_of, kidsof. symmetry. apply filter_filter_sub.
      intros u Hu Hm. apply mem_In in Hm. rewrite <- M2 in Hm. apply filter_In in Hm as [Hm _].
      unfold lch, lch_of in Hm. apply filter_In in Hm. tauto.
    - transitivity (filter (fun u => mem u (map gR ps)) rch); [|exact M3].
      unfold rch, rch_of, kidsof. symmetry. apply filter_filter_sub.
      intros u Hu Hm. apply mem_In in Hm. rewrite <- M3 in Hm. apply filter_In in Hm as [Hm _].
      unfold rch, rch_of in Hm. apply filter_In in Hm. tauto. }
  (* the loop *)
  set (J := fun t : st => Inv Pp Pa Pm t /\ Step false rootL s0 t /\ l2r t = l2r s /\ r2l t = r2l s /\
                          (forall z, In z (fkids (W t) ln) <-> In z (fkids (W s) ln)) /\
                          flab (W t) = flab (W s) /\ fnext (W t) = fnext (W s)).
  assert (Hlchfacts : forall t u, J t -> In u lch ->
            exists r, In u (fkids (W t) ln) /\ l2r t u = Some r /\ In r (fkids R rn)).
  { intros t u (_ & _ & Jl & _ & Jk & _) Hu. apply lch_In in Hu as [H1 (r & H2 & H3)]; [|exact Hrnlt].
    exists r. rewrite Jl. split; [apply Jk; exact H1|auto]. }
  assert (Hloop : J (fold_left align_body lch s0) /\
                  forall u, In u lch -> inoL (fold_left align_body lch s0) u = true).
  { apply (fold_left_inv align_body J (fun u t => inoL t u = true)).
    - intros t u Jt Hu. destruct (Hlchfacts t u Jt Hu) as (r & Hk & Hl & Hr).
      destruct Jt as (JI & JS & Jl & Jr & Jk & Jf & Jn).
      assert (Hlnt : r2l t rn = Some ln) by (rewrite Jr; exact Hln).
      destruct (align_iter Pp Pa Pm t ln rn u r JI Hrn Hlnt Hkids Hk Hl Hr)
        as [[Em ->]|(Em & pos & s1 & s2 & Ek & Hpos & -> & HI' & Hsp & Hple)].
      + split; [|exact Em]. exact (conj JI (conj JS (conj Jl (conj Jr (conj Jk (conj Jf Jn)))))).
      + split; [|cbn; apply upd_same].
        split; [exact HI'|]. split.
        { eapply Step_trans; [exact JS|].
          apply (Step_one_gen false rootL t _ (IMove u ln pos)); try reflexivity; [exact Hsp|discriminate]. }
        split; [exact Jl|]. split; [exact Jr|]. split; [|split].
        * intros z. rewrite <- Jk. rewrite do_move_W.
          assert (Hlnt' : ln < fnext (W t)) by (rewrite Jn; exact Hlnlt).
          rewrite (fkids_move_t (W t) rootL u ln pos (I_wf _ _ _ _ _ _ _ _ JI) Hlnt').
          rewrite ins_at_In, remove_id_In. split; [intros [->|[H _]]; auto|].
          intros H. destruct (Nat.eq_dec z u); auto.
        * rewrite do_move_W, flab_move. exact Jf.
        * rewrite do_move_W, fnext_move. exact Jn.
    - intros t u u' Jt Hu Hm. destruct (Hlchfacts t u Jt Hu) as (r & Hk & Hl & Hr).
      destruct Jt as (JI & JS & Jl & Jr & Jk & Jf & Jn).
      assert (Hlnt : r2l t rn = Some ln) by (rewrite Jr; exact Hln).
      destruct (align_iter Pp Pa Pm t ln rn u r JI Hrn Hlnt Hkids Hk Hl Hr)
        as [[Em ->]|(Em & pos & s1 & s2 & Ek & Hpos & -> & _)]; [exact Hm|].
      cbn. unfold upd. destruct (Nat.eqb u' u); [reflexivity|exact Hm].
    - split; [exact HI0|]. split; [apply Step_refl|]. rewrite F1, F2, F3.
      split; [reflexivity|]. split; [reflexivity|]. split; [intros z; reflexivity|]. split; reflexivity. }
  set (sE := fold_left align_body lch s0) in *.
  destruct Hloop as [(JI & JS & Jl & Jr & Jk & Jf & Jn) Hall].
  change (Inv Pp (Pa ++ [rn]) Pm sE /\ Step false rootL s sE /\
          l2r sE = l2r s /\ r2l sE = r2l s /\ flab (W sE) = flab (W s) /\ fnext (W sE) = fnext (W s)).
  split; [|split; [|repeat split; assumption]].
  - apply Inv_aligned; [exact JI|exact HrnP|].
    intros w c z Hw Hc Hl Hz. rewrite Jr, Hln in Hw. inversion Hw; subst w.
    apply Hall. apply lch_In; [exact Hrnlt|]. split; [apply Jk; exact Hc|]. exists z. rewrite <- Jl. auto.
  - eapply Step_trans; [|exact JS]. apply Step_nop; assumption.
Qed.

End Align.
