(* DifferCount.v -- size bounds for the script of Differ.diff (C17) and the
   "created, hence not deleted" property.

   With |X| = number of document nodes of X and ||X|| = total number of
   attributes of the document nodes of X, for every valid matching:
     #IInsert + #IInsertComment <= |R|     #IDelete <= |L|     #IMove <= 2 |R|
     #IRename <= |R|    #IText <= |R|    #ITail <= |R|
     #attribute actions <= ||L|| + ||R||
   ([gen_script_counts]); no id allocated by an insert is the subject of a
   later IDelete ([gen_script_created_not_deleted]). *)
From Coq Require Import List NArith ZArith Arith Bool Lia.
Import ListNotations.
Require Import XV.Str XV.Forest XV.LCS XV.LCSProofs XV.Matcher XV.Differ XV.Spec XV.WF XV.ForestProofs XV.TreeProofs.
Require Import XV.AttrProofs XV.DifferFrame XV.DifferInv XV.DifferAlign XV.DifferCounters XV.DifferSound.

Definition doc_size (f : forest) (root : id) : nat := length (doc_nodes f root).
Definition attr_count (f : forest) (n : id) : nat := length (lattrs (flab f n)).
Definition attr_total (f : forest) (root : id) : nat := sumf (attr_count f) (doc_nodes f root).

(* ---------- sums ---------- *)
Lemma sumf_add f g l : sumf (fun y => f y + g y) l = sumf f l + sumf g l.
Proof. induction l as [|x l IH]; [reflexivity|]. rewrite !sumf_cons, IH. lia. Qed.

Lemma sumf_ext f g l : (forall x, In x l -> f x = g x) -> sumf f l = sumf g l.
Proof.
  induction l as [|x l IH]; intros H; [reflexivity|]. rewrite !sumf_cons, (H x (or_introl eq_refl)).
  f_equal. apply IH. intros y Hy. apply H. right; exact Hy.
Qed.

Lemma sum_incl_le (g : id -> nat) cs : forall ds, NoDup cs -> incl cs ds -> sumf g cs <= sumf g ds.
Proof.
  induction cs as [|c cs IH]; intros ds Hnd Hi; [unfold sumf; cbn; lia|].
  inversion Hnd as [|? ? Hc Hnd']; subst.
  assert (Hcd : In c ds) by (apply Hi; left; reflexivity).
  apply in_split in Hcd as (d1 & d2 & ->).
  rewrite sumf_cons, sumf_app, sumf_cons.
  assert (H : sumf g cs <= sumf g (d1 ++ d2)).
  { apply IH; [exact Hnd'|]. intros x Hx. specialize (Hi x (or_intror Hx)).
    apply in_app_or in Hi as [Hi|[Hi|Hi]]; [apply in_or_app; left; exact Hi| |apply in_or_app; right; exact Hi].
    subst x. contradiction. }
  rewrite sumf_app in H. lia.
Qed.

Lemma length_flat_map' {A B} (f : A -> list B) l :
  length (flat_map f l) = list_sum (map (fun x => length (f x)) l).
Proof. induction l as [|x l IH]; cbn; [reflexivity|]. rewrite app_length, IH. reflexivity. Qed.

(* ---------- the breadth-first list ---------- *)
Section BfsSums.
Variable R : forest.
Variable rootR : id.
Hypothesis HwfR : wf_forest R rootR.
Let B := bfs R (S (fnext R)) [rootR].

Lemma B_lt x : In x B -> x < fnext R.
Proof.
  intros Hx. destruct (bfs_spec R rootR HwfR) as (_ & Hm & _). apply Hm in Hx.
  eapply desc_lt; [exact HwfR|apply (wf_root_lt _ _ HwfR)|exact Hx].
Qed.

Lemma kids_sum_le : sumf (fun y => length (fkids R y)) B <= length B.
Proof.
  destruct (bfs_spec R rootR HwfR) as (Hnd & Hm & _).
  unfold sumf. rewrite <- length_flat_map'. apply NoDup_incl_length.
  - apply NoDup_flat_map_intro; [exact Hnd| |].
    + intros x Hx. apply (wf_kids_nodup _ _ HwfR). apply B_lt. exact Hx.
    + intros x y b Hx Hy Hne Hbx Hby. apply Hne.
      apply (wf_uparent R rootR HwfR x y b); auto using B_lt.
  - intros c Hc. apply in_flat_map in Hc as (x & Hx & Hcx). apply Hm. eapply desc_step; [apply Hm; exact Hx|exact Hcx].
Qed.

Lemma attrR_sum_le : sumf (attr_count R) B <= attr_total R rootR.
Proof.
  destruct (bfs_spec R rootR HwfR) as (Hnd & Hm & _). apply sum_incl_le; [exact Hnd|].
  intros x Hx. apply doc_nodes_iff; [exact HwfR|]. apply Hm. exact Hx.
Qed.
End BfsSums.

(* ---------- the initial partners ---------- *)
Lemma laL_sum_le L R rootL rootR m (B : list id) :
  wf_forest L rootL -> valid_matching L R rootL rootR m -> NoDup B ->
  sumf (la_of (r2l (init_state L m)) (flab L)) B <= attr_total L rootL.
Proof.
  intros HwfL (V1 & V2 & V3 & V4 & V5) Hnd.
  set (r0 := r2l (init_state L m)).
  set (partner := fun y => match r0 y with Some c => c | None => 0 end).
  set (Bm := filter (fun y => match r0 y with Some _ => true | None => false end) B).
  assert (E : sumf (la_of r0 (flab L)) B = sumf (attr_count L) (map partner Bm)).
  { unfold Bm. clear Hnd. induction B as [|y B IH]; [reflexivity|]. rewrite sumf_cons. cbn [filter].
    unfold la_of at 1. destruct (r0 y) as [c|] eqn:Ey.
    - cbn [map]. rewrite sumf_cons. unfold partner at 1. rewrite Ey. unfold attr_count at 1. rewrite IH. reflexivity.
    - rewrite IH. reflexivity. }
  rewrite E. apply sum_incl_le.
  - apply NoDup_map_inj_in.
    + intros x y Hx Hy Exy. unfold Bm in Hx, Hy. apply filter_In in Hx as [_ Hx]. apply filter_In in Hy as [_ Hy].
      unfold partner in Exy. destruct (r0 x) as [c|] eqn:Ex; [|discriminate]. destruct (r0 y) as [c'|] eqn:Ey; [|discriminate].
      subst c'. apply (init_maps L m c x V1 V2) in Ex. apply (init_maps L m c y V1 V2) in Ey.
      pose proof (proj2 (proj1 (init_maps L m c x V1 V2)) Ex) as Lx.
      pose proof (proj2 (proj1 (init_maps L m c y V1 V2)) Ey) as Ly. congruence.
    + apply NoDup_filter. exact Hnd.
  - intros c Hc. apply in_map_iff in Hc as (y & <- & Hy). unfold Bm in Hy. apply filter_In in Hy as [_ Hy].
    unfold partner. destruct (r0 y) as [c|] eqn:Ey; [|discriminate].
    apply (init_maps L m c y V1 V2) in Ey. apply doc_nodes_iff; [exact HwfL|]. apply (V4 c y Ey).
Qed.

(* ---------- the theorems ---------- *)
Theorem gen_script_counts : forall ignored L R rootL rootR m,
  wf_forest L rootL -> wf_forest R rootR -> valid_matching L R rootL rootR m ->
  let s := gen_script ignored R rootR L rootL m in
  cnt is_ins (out s) <= doc_size R rootR /\
  cnt is_del (out s) <= doc_size L rootL /\
  cnt is_move (out s) <= 2 * doc_size R rootR /\
  cnt is_ren (out s) <= doc_size R rootR /\
  cnt is_text (out s) <= doc_size R rootR /\
  cnt is_tail (out s) <= doc_size R rootR /\
  cnt is_attr (out s) <= attr_total L rootL + attr_total R rootR.
Proof.
  intros ign L R rootL rootR m HwfL HwfR Hvm s.
  destruct (gen_script_counts_core ign R rootL rootR HwfR (desc L rootL) false) with (L := L) (m := m)
    as (C1 & C2 & C3 & C4 & C5 & C6 & C7 & _); auto.
  { intros Pp Pa Pm s0 ln rn HI H1 H2 H3 H4.
    apply (align_ok R rootL rootR HwfR _ Pp Pa Pm s0 ln rn HI H1 H2 H3 H4). }
  { intros n Hn. apply doc_nodes_iff; assumption. }
  fold s in C1, C2, C3, C4, C5, C6, C7.
  pose proof (bfs_length R rootR HwfR) as HB. unfold doc_size.
  pose proof (kids_sum_le R rootR HwfR) as HK.
  pose proof (attrR_sum_le R rootR HwfR) as HA.
  destruct (bfs_spec R rootR HwfR) as (HndB & _).
  pose proof (laL_sum_le L R rootL rootR m _ HwfL Hvm HndB) as HL.
  rewrite sumf_add in C7. unfold attr_count in HA.
  repeat split; try lia.
Qed.

Theorem gen_script_created_not_deleted : forall ignored L R rootL rootR m,
  wf_forest L rootL -> wf_forest R rootR -> valid_matching L R rootL rootR m ->
  let s := gen_script ignored R rootR L rootL m in
  forall pre a post n, out s = pre ++ a :: post -> created a = Some n -> ~ In (IDelete n) post.
Proof.
  intros ign L R rootL rootR m HwfL HwfR Hvm s pre a post n E Hc Hd.
  destruct (gen_script_counts_core ign R rootL rootR HwfR (desc L rootL) false) with (L := L) (m := m)
    as (_ & _ & _ & _ & _ & _ & _ & K1 & K2); auto.
  { intros Pp Pa Pm s0 ln rn HI H1 H2 H3 H4.
    apply (align_ok R rootL rootR HwfR _ Pp Pa Pm s0 ln rn HI H1 H2 H3 H4). }
  { intros k Hk. apply doc_nodes_iff; assumption. }
  fold s in K1, K2.
  apply (K1 a n); [rewrite E; apply in_or_app; right; left; reflexivity|exact Hc|].
  apply K2. rewrite E. apply in_or_app. right. right. exact Hd.
Qed.

Print Assumptions gen_script_counts.
Print Assumptions gen_script_created_not_deleted.
