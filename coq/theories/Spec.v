(* The documented meaning of the edit actions (docs/source/api.rst), as a STRICT
   interpreter on id-indexed forests: it refuses (None) whenever a documented
   precondition is violated.  Independent of the differ and of the patcher.
   Model only -- no proofs in this file. *)
From Coq Require Import List NArith ZArith Bool Arith.
Import ListNotations.
Require Import XV.Str XV.Forest XV.Matcher XV.Differ.

(* the nodes of the document: reachable from the root *)
Fixpoint subtree (fuel : nat) (f : forest) (n : id) : list id :=
  match fuel with
  | O => []
  | S fu => n :: flat_map (subtree fu f) (kidsof f n)
  end.
Definition doc_nodes (f : forest) (root : id) : list id := subtree (S (fnext f)) f root.
Definition alive (f : forest) (root n : id) : bool := mem n (doc_nodes f root).

Definition is_elem (f : forest) (n : id) : bool := negb (is_comment (ltag (labof f n))).
Definition set_attrs_f (f : forest) (n : id) (a : list (str * str)) : forest :=
  let l := labof f n in set_lab f n (Lab (ltag l) a (ltext l) (ltail l)).

Definition spec_apply (root : id) (f : forest) (a : iact) : option forest :=
  match a with
  | IInsert t tag pos n =>
      if alive f root t && is_elem f t && Nat.leb pos (length (kidsof f t)) && Nat.eqb n (fnext f)
      then let '(w, _) := alloc f (Lab (TElem tag) [] None None) in Some (insert_at w t pos n)
      else None
  | IInsertComment t pos txt n =>
      if alive f root t && is_elem f t && Nat.leb pos (length (kidsof f t)) && Nat.eqb n (fnext f)
      then let '(w, _) := alloc f (Lab TComment [] txt None) in Some (insert_at w t pos n)
      else None
  | IMove n t pos =>
      (* both paths refer to the tree before the move; the node may not be the root,
         the target may not lie inside the moved subtree, the position counts the
         target's children without the moved node *)
      if alive f root n && negb (Nat.eqb n root) && alive f root t && is_elem f t
         && negb (mem t (subtree (S (fnext f)) f n))
         && Nat.leb pos (length (remove_id n (kidsof f t)))
      then Some (insert_at (detach f n) t pos n)
      else None
  | IDelete n =>
      if alive f root n && negb (Nat.eqb n root) && match kidsof f n with [] => true | _ => false end
      then Some (detach f n) else None
  | IRename n tag =>
      if alive f root n && is_elem f n
      then let l := labof f n in Some (set_lab f n (Lab (TElem tag) (lattrs l) (ltext l) (ltail l)))
      else None
  | IText n t =>
      if alive f root n
      then let l := labof f n in Some (set_lab f n (Lab (ltag l) (lattrs l) t (ltail l)))
      else None
  | ITail n t =>
      if alive f root n && negb (Nat.eqb n root)
      then let l := labof f n in Some (set_lab f n (Lab (ltag l) (lattrs l) (ltext l) t))
      else None
  | IUpdAttr n k v =>
      let at_ := lattrs (labof f n) in
      if alive f root n && is_elem f n && ahas at_ k then Some (set_attrs_f f n (aput at_ k v)) else None
  | IInsAttr n k v =>
      let at_ := lattrs (labof f n) in
      if alive f root n && is_elem f n && negb (ahas at_ k) then Some (set_attrs_f f n (aput at_ k v)) else None
  | IDelAttr n k =>
      let at_ := lattrs (labof f n) in
      if alive f root n && is_elem f n && ahas at_ k then Some (set_attrs_f f n (adel at_ k)) else None
  | IRenAttr n k k' =>
      let at_ := lattrs (labof f n) in
      match aget at_ k with
      | Some v => if alive f root n && is_elem f n && negb (ahas at_ k')
                  then Some (set_attrs_f f n (adel (aput at_ k' v) k)) else None
      | None => None
      end
  | IInsNs _ _ | IDelNs _ => Some f
  end.

Fixpoint run_spec (root : id) (f : forest) (script : list iact) : option forest :=
  match script with
  | [] => Some f
  | a :: r => match spec_apply root f a with Some f' => run_spec root f' r | None => None end
  end.

(* C17: an action is effective if the document after it differs from the
   document before it (as a tree with identities: child lists and labels) *)
Definition label_eqb (a b : label) : bool :=
  tag_eqb (ltag a) (ltag b) && lst_eqb attr_eqb (lattrs a) (lattrs b)
  && ostr_eqb (ltext a) (ltext b) && ostr_eqb (ltail a) (ltail b).
Definition same_doc (root : id) (f g : forest) : bool :=
  lst_eqb Nat.eqb (doc_nodes f root) (doc_nodes g root) &&
  forallb (fun n => lst_eqb Nat.eqb (kidsof f n) (kidsof g n) && label_eqb (labof f n) (labof g n))
          (doc_nodes f root).
Definition is_ns_action (a : iact) : bool :=
  match a with IInsNs _ _ | IDelNs _ => true | _ => false end.

(* all the identity-level clauses of C01/C05/C17 for one script, as a boolean *)
Fixpoint run_checked (root : id) (f : forest) (script : list iact) : option forest :=
  match script with
  | [] => Some f
  | a :: r =>
      match spec_apply root f a with
      | Some f' => if is_ns_action a || negb (same_doc root f f') then run_checked root f' r else None
      | None => None
      end
  end.
