(* XmlFmtProofs6 -- the ACCEPT side of the refinement, part 1: the working tree decorated
   with the identities of the spec-level document.

   The documented meaning of an edit script is given on id-indexed forests (XV.Spec).  To
   follow it, every node of the formatter's working tree is given (in the proof only) the
   id of the spec node it stands for: [dt].  A moved node keeps its ids -- the original
   left behind is marked deleted and dead ids do not count.
     [rel f d]   every LIVE node of d has the label the forest f gives its id (tag, plain
                 attributes in order, accepted text and tail) and its live children are,
                 in order, the children f gives its id;
     [lids d]    the ids of the live nodes; the invariant keeps them duplicate free.
   This file: the decorated tree, positions, framing and replacement lemmas, and the final
   conversion [rel_tree]: a related tree, accepted, IS the document of the forest.
   No axioms. *)
From Coq Require Import List NArith ZArith Bool Arith Lia.
Import ListNotations.
Require Import XV.Str XV.Json XV.TextFormat XV.Forest XV.Matcher XV.Differ XV.Spec XV.Path XV.WF XV.ForestProofs XV.TreeProofs
               XV.AttrProofs XV.XmlFmt XV.Projections
               XV.XmlFmtProofs0 XV.XmlFmtProofs1 XV.XmlFmtProofs2 XV.XmlFmtProofs3 XV.XmlFmtProofs4.
Require XV.Placeholder XV.PlaceholderUndo.
Local Open Scope nat_scope.

(* ------------------------------------------------------------------ *)
(** * Decorated trees *)

(* [node]: the element's own fields (its children are ignored); [kids]: the children *)
Inductive dt := DN (n : id) (node : xtree) (kids : list dt).
Definition did (d : dt) : id := let 'DN n _ _ := d in n.
Definition dlab (d : dt) : xtree := let 'DN _ x _ := d in x.
Definition dkids (d : dt) : list dt := let 'DN _ _ k := d in k.

Definition dt_ind2 (P : dt -> Prop)
  (H : forall n node kids, Forall P kids -> P (DN n node kids)) : forall d, P d :=
  fix F (d : dt) : P d :=
    match d with
    | DN n node kids =>
        H n node kids ((fix G (l : list dt) : Forall P l :=
                          match l with [] => Forall_nil P | k :: r => Forall_cons k (F k) (G r) end) kids)
    end.

Fixpoint erase (d : dt) : xtree :=
  match d with DN _ node kids => with_kids node (map erase kids) end.

Definition alive_d (d : dt) : bool := alive_w (dlab d).

Lemma alive_erase d : alive_w (erase d) = alive_d d.
Proof. destruct d as [n [tg at_ tx tl ks] kids]. reflexivity. Qed.

Lemma erase_kids d : xkids (erase d) = map erase (dkids d).
Proof. destruct d as [n [tg at_ tx tl ks] kids]. reflexivity. Qed.

Fixpoint dget_at (d : dt) (p : pos) : option dt :=
  match p with
  | [] => Some d
  | i :: r => match nth_error (dkids d) i with Some k => dget_at k r | None => None end
  end.

Fixpoint dmap_at (p : pos) (g : dt -> dt) (d : dt) : dt :=
  match p with
  | [] => g d
  | i :: r => match nth_error (dkids d) i with
              | Some k => DN (did d) (dlab d) (set_nth i (dmap_at r g k) (dkids d))
              | None => d
              end
  end.

Lemma get_at_erase d p : get_at (erase d) p = option_map erase (dget_at d p).
Proof.
  revert d; induction p as [|i p IH]; intros d; cbn [get_at dget_at]; [reflexivity|].
  rewrite erase_kids, nth_error_map. destruct (nth_error (dkids d) i); cbn [option_map]; [apply IH|reflexivity].
Qed.

Lemma map_set_nth {A B} (g : A -> B) i x l : map g (set_nth i x l) = set_nth i (g x) (map g l).
Proof. revert i; induction l as [|y l IH]; intros [|i]; cbn; try reflexivity. now rewrite IH. Qed.

Lemma erase_dmap_at p g d : erase (dmap_at p g d) = map_at p (fun x => match dget_at d p with Some k => erase (g k) | None => x end) (erase d).
Proof.
  revert d; induction p as [|i p IH]; intros d; cbn [dmap_at map_at dget_at]; [reflexivity|].
  rewrite erase_kids, nth_error_map. destruct (nth_error (dkids d) i) as [k|] eqn:Ek; cbn [option_map]; [|reflexivity].
  destruct d as [n [tg at_ tx tl ks] kids]. cbn [erase did dlab dkids with_kids xtag xattrs xtext xtail xkids] in *.
  rewrite map_set_nth, IH. reflexivity.
Qed.

(* ------------------------------------------------------------------ *)
(** * The relation with a spec forest *)

Section Rel.
Variable ws : bool.

Definition txt_ok (o : option str) (s : str) : Prop :=
  ntxt ws (match o with Some x => x | None => [] end) = ntxt ws s.

Definition lab_ok (f : forest) (n : id) (W : xtree) : Prop :=
  ltag (flab f n) = TElem (xtag W) /\ lattrs (flab f n) = plain_attrs (xattrs W) /\
  txt_ok (ltext (flab f n)) (astr (otxt (xtext W))) /\ txt_ok (ltail (flab f n)) (astr (xtail W)).

Inductive rel (f : forest) : dt -> Prop :=
| Rel n node kids :
    lab_ok f n node -> map did (filter alive_d kids) = fkids f n ->
    Forall (fun k => alive_d k = true -> rel f k) kids ->
    rel f (DN n node kids).

Fixpoint lids (d : dt) : list id :=
  match d with
  | DN n _ kids => n :: (fix go (ks : list dt) : list id :=
                           match ks with [] => [] | k :: r => (if alive_d k then lids k else []) ++ go r end) kids
  end.
Definition klids (ks : list dt) : list id := flat_map (fun k => if alive_d k then lids k else []) ks.
Lemma lids_unfold n node kids : lids (DN n node kids) = n :: klids kids.
Proof. reflexivity. Qed.

(* framing: a forest that agrees on the live ids relates the same tree *)
Lemma rel_frame f f' : forall d, rel f d ->
  (forall x, In x (lids d) -> flab f' x = flab f x /\ fkids f' x = fkids f x) -> rel f' d.
Proof.
  induction d as [n node kids IH] using dt_ind2. intros HR HF. inversion HR as [? ? ? HL HK HA]; subst.
  rewrite lids_unfold in HF. destruct (HF n (or_introl eq_refl)) as [E1 E2].
  constructor.
  - unfold lab_ok in *. rewrite E1. exact HL.
  - rewrite E2. exact HK.
  - rewrite Forall_forall in *. intros k Hin Ha. apply (IH k Hin); [apply HA; assumption|].
    intros x Hx. apply HF. right. unfold klids. apply in_flat_map. exists k. split; [exact Hin|]. now rewrite Ha.
Qed.
End Rel.

Lemma canon_unfold_6 ws0 tag attrs text tail kids :
  canon ws0 (XNode tag attrs text tail kids)
  = XNode tag (sort_attrs attrs) (Some (ntxt ws0 (otxt text))) (ntxt ws0 tail) (map (canon ws0) kids).
Proof. reflexivity. Qed.

(* ------------------------------------------------------------------ *)
(** * A related tree, accepted, is the document of the forest *)

Definition root_label (t : tree) : label := match t with Node l _ => l end.

Lemma remove_comments_unfold l ks : Forall (fun t => is_comment (ltag (root_label t)) = false) ks ->
  remove_comments (Node l ks) = XNode (lab_tag l) (lattrs l) (ltext l) (otxt (ltail l)) (map remove_comments ks).
Proof.
  intros H. cbn [remove_comments]. f_equal. induction H as [|t r Ht _ IH]; [reflexivity|].
  destruct t as [lt kt]. cbn [root_label] in Ht. rewrite Ht. cbn [map]. f_equal. exact IH.
Qed.

Lemma to_tree_label k f n : root_label (to_tree k f n) = flab f n.
Proof. destruct k; reflexivity. Qed.

Theorem rel_tree ws f : forall k d, rel ws f d -> fin f (did d) k ->
  canon ws (aw (erase d)) = canon ws (remove_comments (to_tree k f (did d))).
Proof.
  induction k as [|k IH]; intros d HR HF; [inversion HF|].
  destruct d as [n node kids]. inversion HR as [? ? ? (L1 & L2 & L3 & L4) HK HA]; subst.
  cbn [did] in *. cbn [to_tree].
  assert (Hlive : Forall (fun c => exists d', In d' kids /\ alive_d d' = true /\ did d' = c) (fkids f n)).
  { rewrite <- HK. apply Forall_forall. intros c Hc. apply in_map_iff in Hc as (d' & E & Hin).
    apply filter_In in Hin as [Hin Ha]. eauto. }
  rewrite remove_comments_unfold.
  2:{ rewrite Forall_forall in *. intros t Ht. apply in_map_iff in Ht as (c & <- & Hc).
      destruct (Hlive c Hc) as (d' & Hin & Ha & <-). specialize (HA d' Hin Ha). inversion HA as [? ? ? (M1 & _) _ _]; subst.
      rewrite to_tree_label. cbn [did]. rewrite M1. reflexivity. }
  destruct node as [tg at_ tx tl ks]. cbn [erase].
  change (with_kids (XNode tg at_ tx tl ks) (map erase kids)) with (XNode tg at_ tx tl (map erase kids)).
  rewrite aw_unfold, !canon_unfold_6.
  cbn [xtag xattrs xtext xtail otxt] in *. unfold lab_tag. rewrite L1, L2.
  unfold txt_ok in L3, L4. f_equal.
  - f_equal. rewrite <- L3. destruct (ltext (flab f n)); reflexivity.
  - rewrite <- L4. destruct (ltail (flab f n)); reflexivity.
  - rewrite !map_map. rewrite <- HK. rewrite map_map.
    (* filter over erased kids = erased filter *)
    assert (Ef : filter alive_w (map erase kids) = map erase (filter alive_d kids)).
    { clear. induction kids as [|d r IHr]; [reflexivity|]. cbn [map filter]. rewrite alive_erase.
      destruct (alive_d d); cbn [map]; [f_equal|]; exact IHr. }
    rewrite Ef, map_map. apply map_ext_in. intros d' Hin. apply filter_In in Hin as [Hin Ha].
    rewrite Forall_forall in HA. apply IH; [apply HA; assumption|].
    eapply fin_kid; [exact HF|]. rewrite <- HK. apply in_map. apply filter_In. auto.
Qed.

(* ------------------------------------------------------------------ *)
(** * Live ids are the descendants, each once *)

Section Ids.
Variable ws : bool.
Variable f : forest.
Variable root : id.
Hypothesis Hwf : wf_forest f root.

Lemma lids_desc : forall d, rel ws f d -> forall x, In x (lids d) -> desc f (did d) x.
Proof.
  induction d as [n node kids IH] using dt_ind2. intros HR x Hx. inversion HR as [? ? ? HL HK HA]; subst.
  rewrite lids_unfold in Hx. destruct Hx as [<-|Hx]; [constructor|].
  unfold klids in Hx. apply in_flat_map in Hx as (k & Hin & Hk). destruct (alive_d k) eqn:Ea; [|contradiction].
  rewrite Forall_forall in IH, HA. specialize (IH k Hin (HA k Hin Ea) x Hk). cbn [did].
  eapply desc_trans; [|exact IH]. apply desc_child. rewrite <- HK. apply in_map, filter_In. auto.
Qed.

Lemma lids_NoDup : forall d, rel ws f d -> desc f root (did d) -> NoDup (lids d).
Proof.
  induction d as [n node kids IH] using dt_ind2. intros HR HD. inversion HR as [? ? ? HL HK HA]; subst.
  cbn [did] in HD. rewrite lids_unfold. rewrite Forall_forall in IH, HA.
  assert (Hn : n < fnext f) by (eapply desc_lt; [exact Hwf|apply (wf_root_lt _ _ Hwf)|exact HD]).
  assert (Hkid : forall k, In k kids -> alive_d k = true -> In (did k) (fkids f n)).
  { intros k Hin Ha. rewrite <- HK. apply in_map, filter_In. auto. }
  constructor.
  - intros Hx. unfold klids in Hx. apply in_flat_map in Hx as (k & Hin & Hk).
    destruct (alive_d k) eqn:Ea; [|contradiction].
    pose proof (lids_desc k (HA k Hin Ea) n Hk) as D.
    eapply (no_cycle f root n (did k) Hwf HD); [apply Hkid; assumption|exact D].
  - (* the live children, as a list without repeated ids *)
    assert (E : klids kids = flat_map lids (filter alive_d kids)).
    { unfold klids. clear. induction kids as [|k r IHr]; [reflexivity|]. cbn [flat_map filter].
      destruct (alive_d k); cbn [flat_map app]; now rewrite IHr. }
    rewrite E.
    assert (ND : NoDup (map did (filter alive_d kids))) by (rewrite HK; apply (wf_kids_nodup _ _ Hwf n Hn)).
    apply NoDup_flat_map_intro.
    + eapply NoDup_map_inv; exact ND.
    + intros k Hk. apply filter_In in Hk as [Hin Ha]. apply IH; [exact Hin|apply HA; assumption|].
      eapply desc_step; [exact HD|apply Hkid; assumption].
    + intros k1 k2 b H1 H2 Hne B1 B2. apply filter_In in H1 as [I1 A1]. apply filter_In in H2 as [I2 A2].
      assert (Hd : did k1 <> did k2).
      { intros Heq. clear - ND Heq Hne I1 I2 A1 A2.
        assert (In1 : In k1 (filter alive_d kids)) by (apply filter_In; auto).
        assert (In2 : In k2 (filter alive_d kids)) by (apply filter_In; auto).
        revert ND In1 In2. generalize (filter alive_d kids). induction l as [|a l IHl]; intros ND In1 In2; [contradiction|].
        cbn [map] in ND. inversion ND as [|? ? Hnotin ND']; subst.
        destruct In1 as [->|In1]; destruct In2 as [->|In2]; try congruence.
        - apply Hnotin. rewrite Heq. apply in_map, In2.
        - apply Hnotin. rewrite <- Heq. apply in_map, In1.
        - apply IHl; assumption. }
      eapply (kids_disjoint f root n (did k1) (did k2) b (fnext f) Hwf Hn); eauto.
      * eapply fin_alive; eauto.
      * apply lids_desc; [apply HA; assumption|exact B1].
      * apply lids_desc; [apply HA; assumption|exact B2].
Qed.
End Ids.

(* ------------------------------------------------------------------ *)
(** * Live paths and replacing a subtree *)

Fixpoint dlpath (d : dt) (p : pos) : Prop :=
  match p with
  | [] => True
  | i :: r => exists k, nth_error (dkids d) i = Some k /\ alive_d k = true /\ dlpath k r
  end.

Lemma dlpath_lpath d p : lpath (erase d) p <-> dlpath d p.
Proof.
  revert d; induction p as [|i p IH]; intros d; cbn [lpath dlpath]; [tauto|].
  rewrite erase_kids. split.
  - intros (k & Hk & Ha & Hp). rewrite nth_error_map in Hk. destruct (nth_error (dkids d) i) as [k0|]; [|discriminate].
    inversion Hk; subst. exists k0. rewrite alive_erase in Ha. split; [reflexivity|]. split; [exact Ha|]. apply IH, Hp.
  - intros (k & Hk & Ha & Hp). exists (erase k). rewrite nth_error_map, Hk. split; [reflexivity|].
    rewrite alive_erase. split; [exact Ha|]. apply IH, Hp.
Qed.

Lemma klids_In ks k x : In k ks -> alive_d k = true -> In x (lids k) -> In x (klids ks).
Proof. intros H1 H2 H3. unfold klids. apply in_flat_map. exists k. rewrite H2. auto. Qed.

Lemma lids_sub : forall p d k, dlpath d p -> dget_at d p = Some k -> incl (lids k) (lids d).
Proof.
  induction p as [|i p IH]; intros d k HP HG; cbn [dlpath dget_at] in *.
  - inversion HG; subst. apply incl_refl.
  - destruct HP as (c & Hc & Ha & HP). rewrite Hc in HG. destruct d as [n node kids]. cbn [dkids] in *.
    intros x Hx. rewrite lids_unfold. right. eapply klids_In; [eapply nth_error_In; eauto|exact Ha|].
    eapply IH; eauto.
Qed.

Lemma rel_get ws f : forall p d k, rel ws f d -> dlpath d p -> dget_at d p = Some k -> rel ws f k.
Proof.
  induction p as [|i p IH]; intros d k HR HP HG; cbn [dlpath dget_at] in *.
  - inversion HG; subst. exact HR.
  - destruct HP as (c & Hc & Ha & HP). rewrite Hc in HG. inversion HR as [? ? ? _ _ HA]; subst. cbn [dkids] in Hc.
    rewrite Forall_forall in HA. eapply IH; [apply HA; [eapply nth_error_In; eauto|exact Ha]|exact HP|exact HG].
Qed.

Lemma filter_did_set_nth ks i c c' : nth_error ks i = Some c -> did c' = did c -> alive_d c' = alive_d c ->
  map did (filter alive_d (set_nth i c' ks)) = map did (filter alive_d ks).
Proof.
  revert i; induction ks as [|y ks IH]; intros [|i] E Hd Ha; cbn [nth_error] in E; try discriminate.
  - inversion E; subst. cbn [set_nth filter]. rewrite Ha. destruct (alive_d c); cbn [map]; [now rewrite Hd|reflexivity].
  - cbn [set_nth filter]. destruct (alive_d y); cbn [map]; [f_equal|]; eauto.
Qed.

(* replacing the subtree at a live position by a related subtree with the same root id *)
Lemma rel_replace ws f f' : forall p d k k',
  rel ws f d -> NoDup (lids d) -> dlpath d p -> dget_at d p = Some k ->
  did k' = did k -> alive_d k' = alive_d k -> rel ws f' k' ->
  (forall x, In x (lids d) -> ~ In x (lids k) -> flab f' x = flab f x /\ fkids f' x = fkids f x) ->
  rel ws f' (dmap_at p (fun _ => k') d).
Proof.
  induction p as [|i p IH]; intros d k k' HR ND HP HG Hid Hal HR' HF; cbn [dlpath dget_at dmap_at] in *.
  - exact HR'.
  - destruct HP as (c & Hc & Ha & HP). rewrite Hc in *. destruct d as [n node kids]. cbn [dkids did dlab] in *.
    inversion HR as [? ? ? HL HK HA]; subst. rewrite lids_unfold in ND, HF. inversion ND as [|? ? Hn NDk]; subst.
    assert (Hsub : incl (lids k) (lids c)) by (eapply lids_sub; eauto).
    assert (Hcin : In c kids) by (eapply nth_error_In; eauto).
    (* the root id n is not inside k *)
    assert (Hnk : ~ In n (lids k)).
    { intros Hx. apply Hn. eapply klids_In; [exact Hcin|exact Ha|]. apply Hsub, Hx. }
    destruct (HF n (or_introl eq_refl) Hnk) as [E1 E2].
    (* the rewritten child *)
    assert (NDc : NoDup (lids c)).
    { clear - NDk Hcin Ha. unfold klids in NDk. induction kids as [|y r IHr]; [contradiction|].
      cbn [flat_map] in NDk. apply NoDup_app_iff in NDk as (N1 & N2 & _).
      destruct Hcin as [->|Hin]; [now rewrite Ha in N1|auto]. }
    rewrite Forall_forall in HA.
    assert (HRc : rel ws f' (dmap_at p (fun _ => k') c)).
    { apply (IH c k k' (HA c Hcin Ha) NDc HP HG Hid Hal HR').
      intros x Hx Hxk. apply HF; [right; eapply klids_In; eauto|exact Hxk]. }
    assert (Hdc : did (dmap_at p (fun _ => k') c) = did c /\ alive_d (dmap_at p (fun _ => k') c) = alive_d c).
    { clear - HG Hid Hal. destruct p as [|j p]; cbn [dmap_at dget_at] in *.
      - inversion HG; subst. auto.
      - destruct (nth_error (dkids c) j); [destruct c; auto|auto]. }
    destruct Hdc as [Hd1 Hd2].
    constructor.
    + unfold lab_ok in *. rewrite E1. exact HL.
    + rewrite E2, (filter_did_set_nth kids i c _ Hc Hd1 Hd2). exact HK.
    + apply Forall_forall. intros y Hy Hay.
      (* y is the rewritten child or another child *)
      assert (Hcase : y = dmap_at p (fun _ => k') c \/ (In y kids /\ (y = c -> False) \/ In y kids)).
      { clear - Hy Hc. revert i Hc Hy. induction kids as [|z r IHr]; intros [|i] Hc Hy; cbn in *; try discriminate; try contradiction.
        - destruct Hy as [<-|Hy]; [now left|right; right; now right].
        - destruct Hy as [<-|Hy]; [right; right; now left|].
          destruct (IHr i Hc Hy) as [H|[[H _]|H]]; [now left|right; right; now right|right; right; now right]. }
      destruct Hcase as [->|_]; [exact HRc|].
      (* locate y precisely: it sits at an index different from i *)
      apply In_nth_error in Hy as [j Hj].
      destruct (Nat.eq_dec j i) as [->|Hji].
      * rewrite nth_error_set_nth_same in Hj by (eapply nth_error_Some_lt; eauto). inversion Hj; subst. exact HRc.
      * rewrite nth_error_set_nth_other in Hj by congruence.
        assert (Hyin : In y kids) by (eapply nth_error_In; eauto).
        apply (rel_frame ws f f' y (HA y Hyin Hay)). intros x Hx.
        apply HF; [right; eapply klids_In; eauto|].
        intros Hxk. apply Hsub in Hxk.
        (* x in two different children: contradicts NoDup *)
        clear - NDk Hc Hj Hji Ha Hay Hx Hxk.
        revert i j Hc Hj Hji. unfold klids in NDk. induction kids as [|z r IHr]; intros i j Hc Hj Hji; [destruct i; discriminate|].
        cbn [flat_map] in NDk. apply NoDup_app_iff in NDk as (N1 & N2 & N3).
        destruct i as [|i]; destruct j as [|j]; cbn [nth_error] in *; try congruence.
        -- inversion Hc; subst z. rewrite Ha in N3. apply (N3 x Hxk). apply in_flat_map. exists y.
           split; [eapply nth_error_In; eauto|now rewrite Hay].
        -- inversion Hj; subst z. rewrite Hay in N3. apply (N3 x Hx). apply in_flat_map. exists c.
           split; [eapply nth_error_In; eauto|now rewrite Ha].
        -- eapply (IHr N2 i j); eauto.
Qed.

(* ------------------------------------------------------------------ *)
(** * The live nodes with their own fields *)

(* (id, own fields) of every live node; the children stored in [node] are not looked at *)
Fixpoint lnodes (d : dt) : list (id * xtree) :=
  match d with
  | DN n node kids => (n, node) :: (fix go (ks : list dt) : list (id * xtree) :=
                                      match ks with [] => [] | k :: r => (if alive_d k then lnodes k else []) ++ go r end) kids
  end.
Definition klnodes (ks : list dt) : list (id * xtree) := flat_map (fun k => if alive_d k then lnodes k else []) ks.
Lemma lnodes_unfold n node kids : lnodes (DN n node kids) = (n, node) :: klnodes kids.
Proof. reflexivity. Qed.

Lemma lnodes_root d : In (did d, dlab d) (lnodes d).
Proof. destruct d. rewrite lnodes_unfold. now left. Qed.

Lemma klnodes_In ks k e : In k ks -> alive_d k = true -> In e (lnodes k) -> In e (klnodes ks).
Proof. intros H1 H2 H3. unfold klnodes. apply in_flat_map. exists k. rewrite H2. auto. Qed.

Lemma klnodes_inv ks e : In e (klnodes ks) -> exists k, In k ks /\ alive_d k = true /\ In e (lnodes k).
Proof.
  unfold klnodes. intros H. apply in_flat_map in H as (k & Hk & He). destruct (alive_d k) eqn:E; [eauto|contradiction].
Qed.

Lemma lnodes_sub : forall p d k, dlpath d p -> dget_at d p = Some k -> incl (lnodes k) (lnodes d).
Proof.
  induction p as [|i p IH]; intros d k HP HG; cbn [dlpath dget_at] in *.
  - inversion HG; subst. apply incl_refl.
  - destruct HP as (c & Hc & Ha & HP). rewrite Hc in HG. destruct d as [n node kids]. cbn [dkids] in *.
    intros x Hx. rewrite lnodes_unfold. right. eapply klnodes_In; [eapply nth_error_In; eauto|exact Ha|].
    eapply IH; eauto.
Qed.

Lemma lnodes_ids d : map fst (lnodes d) = lids d.
Proof.
  induction d as [n node kids IH] using dt_ind2. rewrite lnodes_unfold, lids_unfold. cbn [map fst]. f_equal.
  unfold klnodes, klids. induction IH as [|k r Hk _ IHr]; [reflexivity|]. cbn [flat_map]. rewrite map_app, IHr.
  destruct (alive_d k); [now rewrite Hk|reflexivity].
Qed.

Lemma klnodes_set_nth ks i c' e : In e (klnodes (set_nth i c' ks)) ->
  In e (klnodes ks) \/ (i < length ks /\ alive_d c' = true /\ In e (lnodes c')).
Proof.
  revert i; induction ks as [|y ks IH]; intros [|i] H; cbn [set_nth] in H; try (now left).
  - unfold klnodes in H. cbn [flat_map] in H. apply in_app_or in H as [H|H].
    + destruct (alive_d c') eqn:E; [|contradiction]. right. cbn [length]. split; [lia|auto].
    + left. unfold klnodes. cbn [flat_map]. apply in_or_app. now right.
  - unfold klnodes in H. cbn [flat_map] in H. apply in_app_or in H as [H|H].
    + left. unfold klnodes. cbn [flat_map]. apply in_or_app. now left.
    + destruct (IH i H) as [H1|(H1 & H2 & H3)].
      * left. unfold klnodes. cbn [flat_map]. apply in_or_app. now right.
      * right. cbn [length]. split; [lia|auto].
Qed.

Lemma klnodes_insert_kid ks i x e : In e (klnodes (insert_kid i x ks)) ->
  In e (klnodes ks) \/ (alive_d x = true /\ In e (lnodes x)).
Proof.
  unfold insert_kid, klnodes. rewrite flat_map_app. cbn [flat_map]. intros H.
  rewrite <- (firstn_skipn i ks) at 1. rewrite flat_map_app.
  apply in_app_or in H as [H|H]; [left; apply in_or_app; now left|].
  apply in_app_or in H as [H|H]; [|left; apply in_or_app; now right].
  destruct (alive_d x); [right; auto|contradiction].
Qed.

Lemma dmap_at_root_lab p g d : p <> [] -> did (dmap_at p g d) = did d /\ dlab (dmap_at p g d) = dlab d.
Proof. destruct p as [|i p]; [congruence|]. intros _. cbn [dmap_at]. destruct (nth_error (dkids d) i); [split; reflexivity|destruct d; split; reflexivity]. Qed.

(* the live nodes after a subtree has been rewritten: old ones, or those of the new subtree *)
Lemma lnodes_dmap_at : forall p d g e, In e (lnodes (dmap_at p g d)) ->
  In e (lnodes d) \/ exists k, dget_at d p = Some k /\ In e (lnodes (g k)).
Proof.
  induction p as [|i p IH]; intros d g e H; cbn [dmap_at dget_at] in *; [right; eauto|].
  destruct (nth_error (dkids d) i) as [c|] eqn:Ec; [|now left].
  destruct d as [n node kids]. cbn [did dlab dkids] in *. rewrite lnodes_unfold in H. destruct H as [<-|H].
  - left. rewrite lnodes_unfold. now left.
  - apply klnodes_set_nth in H as [H|(_ & Ha & H)]; [left; rewrite lnodes_unfold; now right|].
    destruct p as [|j p'].
    + right. exists c. split; [reflexivity|exact H].
    + assert (Hac : alive_d c = true).
      { unfold alive_d in *. rewrite (proj2 (dmap_at_root_lab (j :: p') g c ltac:(discriminate))) in Ha. exact Ha. }
      destruct (IH c g e H) as [H1|H1]; [|right; exact H1].
      left. rewrite lnodes_unfold. right. eapply klnodes_In; [eapply nth_error_In; eauto|exact Hac|exact H1].
Qed.

(* a node that is marked dead below the root disappears *)
Lemma lnodes_dmap_dead : forall p d g k, p <> [] -> dget_at d p = Some k -> alive_d (g k) = false ->
  incl (lnodes (dmap_at p g d)) (lnodes d).
Proof.
  induction p as [|i p IH]; intros d g k Hp HG Hd e H; [congruence|]. cbn [dmap_at dget_at] in *.
  destruct (nth_error (dkids d) i) as [c|] eqn:Ec; [|exact H].
  destruct d as [n node kids]. cbn [did dlab dkids] in *. rewrite lnodes_unfold in *. destruct H as [<-|H]; [now left|].
  right. apply klnodes_set_nth in H as [H|(_ & Ha & H)]; [exact H|].
  destruct p as [|j p'].
  + cbn [dmap_at dget_at] in *. inversion HG; subst. congruence.
  + assert (Hac : alive_d c = true).
    { unfold alive_d in *. rewrite (proj2 (dmap_at_root_lab (j :: p') g c ltac:(discriminate))) in Ha. exact Ha. }
    eapply klnodes_In; [eapply nth_error_In; eauto|exact Hac|]. apply (IH c g k ltac:(discriminate) HG Hd e H).
Qed.
