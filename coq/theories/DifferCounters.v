(* DifferCounters.v -- counting the actions emitted by each transition (syntactic
   facts: no invariant is needed here).

   Exported, in plain words:
   - [cnt p l]: number of actions of l satisfying p; the seven classes is_ins,
     is_del, is_move, is_ren, is_text, is_tail, is_attr; [created a]: the id
     allocated by an insert action;
   - [Deltas s s' bi bd bm br bt bl ba]: from s to s' the script grew by at most
     bi inserts, bd deletes, bm moves, br renames, bt text updates, bl tail
     updates, ba attribute actions; reflexive, transitive (adding the bounds);
   - the growth of [out] for do_ins, do_move, upd_tag, upd_text, upd_attr, align,
     the delete loop;
   - [Cr s]: every id created by the script so far is matched; preserved by all
     transitions of the breadth-first phase. *)
From Coq Require Import List NArith ZArith Arith Bool Lia.
Import ListNotations.
Require Import XV.Str XV.Forest XV.LCS XV.Matcher XV.Differ XV.Spec XV.WF XV.ForestProofs XV.TreeProofs.
Require Import XV.AttrProofs XV.DifferFrame XV.DifferInv XV.DifferAlign.

Definition cnt (p : iact -> bool) (l : list iact) : nat := length (filter p l).

Lemma cnt_app p a b : cnt p (a ++ b) = cnt p a + cnt p b.
Proof. unfold cnt. rewrite filter_app, app_length. reflexivity. Qed.

Lemma cnt_le_length p l : cnt p l <= length l.
Proof. unfold cnt. induction l as [|x l IH]; cbn; [lia|]. destruct (p x); cbn; lia. Qed.

Lemma cnt_none p l : (forall a, In a l -> p a = false) -> cnt p l = 0.
Proof. intros H. unfold cnt. rewrite filter_all_false; [reflexivity|exact H]. Qed.

Definition is_ins (a : iact) : bool :=
  match a with IInsert _ _ _ _ | IInsertComment _ _ _ _ => true | _ => false end.
Definition is_del (a : iact) : bool := match a with IDelete _ => true | _ => false end.
Definition is_move (a : iact) : bool := match a with IMove _ _ _ => true | _ => false end.
Definition is_ren (a : iact) : bool := match a with IRename _ _ => true | _ => false end.
Definition is_text (a : iact) : bool := match a with IText _ _ => true | _ => false end.
Definition is_tail (a : iact) : bool := match a with ITail _ _ => true | _ => false end.
Definition is_attr (a : iact) : bool :=
  match a with IUpdAttr _ _ _ | IInsAttr _ _ _ | IDelAttr _ _ | IRenAttr _ _ _ => true | _ => false end.

Definition created (a : iact) : option id :=
  match a with IInsert _ _ _ n | IInsertComment _ _ _ n => Some n | _ => None end.

Definition Deltas (s s' : st) (bi bd bm br bt bl ba : nat) : Prop :=
  cnt is_ins (out s') <= cnt is_ins (out s) + bi /\
  cnt is_del (out s') <= cnt is_del (out s) + bd /\
  cnt is_move (out s') <= cnt is_move (out s) + bm /\
  cnt is_ren (out s') <= cnt is_ren (out s) + br /\
  cnt is_text (out s') <= cnt is_text (out s) + bt /\
  cnt is_tail (out s') <= cnt is_tail (out s) + bl /\
  cnt is_attr (out s') <= cnt is_attr (out s) + ba.

Lemma Deltas_acts s s' acts bi bd bm br bt bl ba :
  out s' = out s ++ acts ->
  cnt is_ins acts <= bi -> cnt is_del acts <= bd -> cnt is_move acts <= bm -> cnt is_ren acts <= br ->
  cnt is_text acts <= bt -> cnt is_tail acts <= bl -> cnt is_attr acts <= ba ->
  Deltas s s' bi bd bm br bt bl ba.
Proof. intros E. unfold Deltas. rewrite E, !cnt_app. intros. lia. Qed.

Lemma Deltas_refl s : Deltas s s 0 0 0 0 0 0 0.
Proof. unfold Deltas. lia. Qed.

Lemma Deltas_same s s' : out s' = out s -> Deltas s s' 0 0 0 0 0 0 0.
Proof. intros E. unfold Deltas. rewrite E. lia. Qed.

Lemma Deltas_trans s1 s2 s3 a1 a2 a3 a4 a5 a6 a7 b1 b2 b3 b4 b5 b6 b7 :
  Deltas s1 s2 a1 a2 a3 a4 a5 a6 a7 -> Deltas s2 s3 b1 b2 b3 b4 b5 b6 b7 ->
  Deltas s1 s3 (a1 + b1) (a2 + b2) (a3 + b3) (a4 + b4) (a5 + b5) (a6 + b6) (a7 + b7).
Proof. unfold Deltas. intros. lia. Qed.

Lemma Deltas_weaken s s' a1 a2 a3 a4 a5 a6 a7 b1 b2 b3 b4 b5 b6 b7 :
  Deltas s s' a1 a2 a3 a4 a5 a6 a7 ->
  a1 <= b1 -> a2 <= b2 -> a3 <= b3 -> a4 <= b4 -> a5 <= b5 -> a6 <= b6 -> a7 <= b7 ->
  Deltas s s' b1 b2 b3 b4 b5 b6 b7.
Proof. unfold Deltas. intros. lia. Qed.

(* ------------------------------------------------------------------ *)
(** * Growth of the script, transition by transition                    *)
(* ------------------------------------------------------------------ *)
Lemma do_ins_deltas R s lt pos y : Deltas s (do_ins R s lt pos y) 1 0 0 0 0 0 0.
Proof.
  apply (Deltas_acts _ _ [fst (new_act R lt pos (fnext (W s)) y)]); [apply do_ins_out|..];
    unfold new_act; destruct (ltag (labof R y)); cbn; lia.
Qed.

Lemma do_move_deltas s c t pos y : Deltas s (do_move s c t pos y) 0 0 1 0 0 0 0.
Proof. apply (Deltas_acts _ _ [IMove c t pos]); [reflexivity|..]; cbn; lia. Qed.

Lemma upd_tag_deltas R s ln rn : Deltas s (upd_tag R s ln rn) 0 0 0 1 0 0 0.
Proof.
  unfold upd_tag. destruct (tag_eqb _ _); [eapply Deltas_weaken; [apply Deltas_refl|..]; lia|].
  destruct (ltag (labof R rn)) as [t|].
  - apply (Deltas_acts _ _ [IRename ln t]); [reflexivity|..]; cbn; lia.
  - eapply Deltas_weaken; [apply (Deltas_same s (fail s)); reflexivity|..]; lia.
Qed.

Lemma upd_text_deltas R s ln rn : Deltas s (upd_text R s ln rn) 0 0 0 0 1 1 0.
Proof.
  unfold upd_text.
  set (s1 := if ostr_eqb (ltext (labof (W s) ln)) (ltext (labof R rn)) then s else _).
  assert (D1 : Deltas s s1 0 0 0 0 1 0 0).
  { unfold s1. destruct (ostr_eqb _ _); [eapply Deltas_weaken; [apply Deltas_refl|..]; lia|].
    eapply (Deltas_acts _ _ [IText ln (ltext (labof R rn))]); [reflexivity|..]; cbn; lia. }
  cbn zeta. destruct (ostr_eqb (ltail (labof (W s1) ln)) (ltail (labof R rn))).
  - eapply Deltas_weaken; [exact D1|..]; lia.
  - eapply Deltas_weaken.
    + eapply Deltas_trans; [exact D1|].
      eapply (Deltas_acts s1 _ [ITail ln (ltail (labof R rn))] 0 0 0 0 0 1 0); [reflexivity|..]; cbn; lia.
    + lia.
    + lia.
    + lia.
    + lia.
    + lia.
    + lia.
    + lia.
Qed.

Lemma lift_classes ln a :
  is_attr (lift ln a) = true /\ is_ins (lift ln a) = false /\ is_del (lift ln a) = false /\
  is_move (lift ln a) = false /\ is_ren (lift ln a) = false /\ is_text (lift ln a) = false /\
  is_tail (lift ln a) = false /\ created (lift ln a) = None.
Proof. destruct a; cbn; repeat split; reflexivity. Qed.

Lemma cnt_lift p ln acts : (forall a, p (lift ln a) = false) -> cnt p (map (lift ln) acts) = 0.
Proof. intros H. apply cnt_none. intros a Ha. apply in_map_iff in Ha as (x & <- & _). apply H. Qed.

Lemma upd_attr_deltas ign R s ln rn :
  NoDup (map fst (cur_attrs s ln)) -> NoDup (map fst (lattrs (labof R rn))) ->
  Deltas s (upd_attr ign R s ln rn) 0 0 0 0 0 0
         (length (cur_attrs s ln) + length (lattrs (labof R rn))).
Proof.
  intros NDl NDr. pose proof (upd_attr_correct ign R s ln rn NDl NDr) as C.
  pose proof (attr_script_sound ign _ _ NDl NDr) as S. unfold attr_script in C, S.
  destruct C as (C1 & _). destruct S as (_ & _ & _ & _ & _ & _ & _ & S8).
  eapply (Deltas_acts _ _ _ 0 0 0 0 0 0 _ C1).
  - rewrite cnt_lift; [lia|]. intros a. apply (lift_classes ln a).
  - rewrite cnt_lift; [lia|]. intros a. apply (lift_classes ln a).
  - rewrite cnt_lift; [lia|]. intros a. apply (lift_classes ln a).
  - rewrite cnt_lift; [lia|]. intros a. apply (lift_classes ln a).
  - rewrite cnt_lift; [lia|]. intros a. apply (lift_classes ln a).
  - rewrite cnt_lift; [lia|]. intros a. apply (lift_classes ln a).
  - etransitivity; [apply cnt_le_length|]. rewrite map_length. exact S8.
Qed.

(* align: at most one move per element of lch *)
Lemma align_body_out R s u :
  exists acts, out (align_body R s u) = out s ++ acts /\ length acts <= 1 /\
               (forall a, In a acts -> is_move a = true).
Proof.
  unfold align_body.
  assert (Hnil : exists acts, out s = out s ++ acts /\ length acts <= 1 /\
                              (forall a, In a acts -> is_move a = true)).
  { exists []. rewrite app_nil_r. split; [reflexivity|]. split; [cbn; lia|intros a []]. }
  destruct (inoL s u); [exact Hnil|].
  destruct (l2r s u) as [r|]; [|exact Hnil].
  destruct (find_pos R s r) as [pos|]; [|exact Hnil].
  destruct (parentof R r) as [rt|]; [|exact Hnil].
  destruct (r2l s rt) as [lt|]; [|exact Hnil].
  exists [IMove u lt pos]. split; [reflexivity|]. split; [cbn; lia|].
  intros a [<-|[]]. reflexivity.
Qed.

Lemma align_loop_out R : forall l s,
  exists acts, out (fold_left (align_body R) l s) = out s ++ acts /\ length acts <= length l /\
               (forall a, In a acts -> is_move a = true).
Proof.
  induction l as [|u l IH]; intros s; cbn [fold_left].
  - exists []. rewrite app_nil_r. split; [reflexivity|]. split; [cbn; lia|intros a []].
  - destruct (align_body_out R s u) as (a1 & E1 & L1 & M1).
    destruct (IH (align_body R s u)) as (a2 & E2 & L2 & M2).
    exists (a1 ++ a2). split; [rewrite E2, E1, app_assoc; reflexivity|].
    split; [rewrite app_length; cbn; lia|].
    intros a Ha. apply in_app_or in Ha as [Ha|Ha]; auto.
Qed.

Lemma align_out R s ln rn :
  exists acts, out (align R s ln rn) = out s ++ acts /\ length acts <= length (lch_of R s ln rn) /\
               (forall a, In a acts -> is_move a = true).
Proof.
  rewrite align_unfold. cbn zeta. rewrite match_nil2.
  assert (Hnil : exists acts, out s = out s ++ acts /\ length acts <= length (lch_of R s ln rn) /\
                              (forall a, In a acts -> is_move a = true)).
  { exists []. rewrite app_nil_r. split; [reflexivity|]. split; [cbn; lia|intros a []]. }
  destruct (is_nil _ || is_nil _); [exact Hnil|].
  destruct (lcs_seq _ _ _) as [ps|]; [|exact Hnil].
  set (g := fun p : Z * Z => nth_id (lch_of R s ln rn) (fst p)).
  set (h := fun p : Z * Z => nth_id (rch_of R s ln rn) (snd p)).
  set (s0 := fold_left (fun (s0 : st) (p : Z * Z) =>
                mark s0 (nth_id (lch_of R s ln rn) (fst p)) (nth_id (rch_of R s ln rn) (snd p))) ps s).
  assert (F4 : out s0 = out s) by exact (proj1 (proj2 (proj2 (proj2 (fold_mark_fields g h ps s))))).
  destruct (align_loop_out R (lch_of R s ln rn) s0) as (acts & E & Ln & M).
  exists acts. split; [rewrite E, F4; reflexivity|]. auto.
Qed.

Lemma moves_only acts : (forall a, In a acts -> is_move a = true) ->
  cnt is_ins acts = 0 /\ cnt is_del acts = 0 /\ cnt is_ren acts = 0 /\ cnt is_text acts = 0 /\
  cnt is_tail acts = 0 /\ cnt is_attr acts = 0 /\ (forall a, In a acts -> created a = None).
Proof.
  intros H.
  assert (K : forall a, In a acts -> exists n t p, a = IMove n t p).
  { intros a Ha. specialize (H a Ha). destruct a; try discriminate. eauto. }
  repeat split; try (apply cnt_none; intros a Ha; destruct (K a Ha) as (? & ? & ? & ->); reflexivity).
  intros a Ha. destruct (K a Ha) as (? & ? & ? & ->). reflexivity.
Qed.

Lemma align_deltas R s ln rn : Deltas s (align R s ln rn) 0 0 (length (lch_of R s ln rn)) 0 0 0 0.
Proof.
  destruct (align_out R s ln rn) as (acts & E & Ln & M).
  destruct (moves_only acts M) as (H1 & H2 & H3 & H4 & H5 & H6 & _).
  apply (Deltas_acts _ _ acts); try lia; [exact E|].
  etransitivity; [apply cnt_le_length|exact Ln].
Qed.

(* the delete loop *)
Definition del_step (s : st) (n : id) : st :=
  match l2r s n with
  | Some _ => s
  | None => withW (emit s (IDelete n)) (detach (W s) n)
  end.

Lemma delete_phase_unfold rootL s1 :
  delete_phase rootL s1 = fold_left del_step (rpost (S (fnext (W s1))) (W s1) rootL) s1.
Proof. reflexivity. Qed.

Definition unmb (s1 : st) (c : id) : bool := match l2r s1 c with None => true | Some _ => false end.

Lemma delete_loop_out : forall l s,
  out (fold_left del_step l s) = out s ++ map IDelete (filter (unmb s) l) /\
  l2r (fold_left del_step l s) = l2r s.
Proof.
  induction l as [|n l IH]; intros s; cbn [fold_left filter map].
  - rewrite app_nil_r. auto.
  - destruct (IH (del_step s n)) as [E1 E2].
    assert (El : l2r (del_step s n) = l2r s) by (unfold del_step; destruct (l2r s n); reflexivity).
    assert (Eu : filter (unmb (del_step s n)) l = filter (unmb s) l).
    { apply filter_ext. intros x. unfold unmb. rewrite El. reflexivity. }
    rewrite E1, E2, Eu, El. split; [|reflexivity].
    unfold del_step, unmb. destruct (l2r s n); cbn; [reflexivity|].
    rewrite <- app_assoc. reflexivity.
Qed.

(* ------------------------------------------------------------------ *)
(** * Ids created by the script                                         *)
(* ------------------------------------------------------------------ *)
Definition CrIn (s s' : st) (ids : list id) : Prop :=
  forall a n, In a (out s') -> created a = Some n -> In a (out s) \/ In n ids.

Lemma CrIn_acts s s' acts ids :
  out s' = out s ++ acts -> (forall a n, In a acts -> created a = Some n -> In n ids) -> CrIn s s' ids.
Proof.
  intros E H a n Ha Hc. rewrite E in Ha. apply in_app_or in Ha as [Ha|Ha]; [left; exact Ha|right; eauto].
Qed.

Lemma CrIn_refl s : CrIn s s [].
Proof. intros a n Ha _. left; exact Ha. Qed.

Lemma CrIn_same s s' : out s' = out s -> CrIn s s' [].
Proof. intros E a n Ha _. left. rewrite <- E. exact Ha. Qed.

Lemma CrIn_incl s s' i j : CrIn s s' i -> incl i j -> CrIn s s' j.
Proof. intros H Hi a n Ha Hc. destruct (H a n Ha Hc) as [H1|H1]; [left; exact H1|right; apply Hi; exact H1]. Qed.

Lemma CrIn_trans s1 s2 s3 i1 i2 : CrIn s1 s2 i1 -> CrIn s2 s3 i2 -> CrIn s1 s3 (i1 ++ i2).
Proof.
  intros H1 H2 a n Ha Hc. destruct (H2 a n Ha Hc) as [Ha2|Hn]; [|right; apply in_or_app; right; exact Hn].
  destruct (H1 a n Ha2 Hc) as [Ha1|Hn]; [left; exact Ha1|right; apply in_or_app; left; exact Hn].
Qed.

Lemma do_ins_cr R s lt pos y : CrIn s (do_ins R s lt pos y) [fnext (W s)].
Proof.
  apply (CrIn_acts _ _ [fst (new_act R lt pos (fnext (W s)) y)]); [apply do_ins_out|].
  intros a n [<-|[]]. unfold new_act. destruct (ltag (labof R y)); cbn; intros E; inversion E; left; reflexivity.
Qed.

Lemma do_move_cr s c t pos y : CrIn s (do_move s c t pos y) [].
Proof. apply (CrIn_acts _ _ [IMove c t pos]); [reflexivity|]. intros a n [<-|[]]. discriminate. Qed.

Lemma upd_tag_cr R s ln rn : CrIn s (upd_tag R s ln rn) [].
Proof.
  unfold upd_tag. destruct (tag_eqb _ _); [apply CrIn_refl|].
  destruct (ltag (labof R rn)) as [t|]; [|apply CrIn_same; reflexivity].
  apply (CrIn_acts _ _ [IRename ln t]); [reflexivity|]. intros a n [<-|[]]. discriminate.
Qed.

Lemma upd_text_cr R s ln rn : CrIn s (upd_text R s ln rn) [].
Proof.
  unfold upd_text.
  set (s1 := if ostr_eqb (ltext (labof (W s) ln)) (ltext (labof R rn)) then s else _).
  assert (C1 : CrIn s s1 []).
  { unfold s1. destruct (ostr_eqb _ _); [apply CrIn_refl|].
    apply (CrIn_acts _ _ [IText ln (ltext (labof R rn))]); [reflexivity|]. intros a n [<-|[]]. discriminate. }
  cbn zeta. destruct (ostr_eqb (ltail (labof (W s1) ln)) (ltail (labof R rn))); [exact C1|].
  apply (CrIn_trans s s1 _ [] [] C1).
  apply (CrIn_acts _ _ [ITail ln (ltail (labof R rn))]); [reflexivity|]. intros a n [<-|[]]. discriminate.
Qed.

Lemma upd_attr_cr ign R s ln rn : CrIn s (upd_attr ign R s ln rn) [].
Proof.
  destruct (upd_attr_lift ign R s ln rn) as (E & _).
  apply (CrIn_acts _ _ _ [] E). intros a n Ha Hc. apply in_map_iff in Ha as (x & <- & _).
  destruct (lift_classes ln x) as (_ & _ & _ & _ & _ & _ & _ & Hn). congruence.
Qed.

Lemma align_cr R s ln rn : CrIn s (align R s ln rn) [].
Proof.
  destruct (align_out R s ln rn) as (acts & E & _ & M).
  apply (CrIn_acts _ _ acts [] E). intros a n Ha Hc.
  destruct (moves_only acts M) as (_ & _ & _ & _ & _ & _ & Hn). rewrite (Hn a Ha) in Hc. discriminate.
Qed.
