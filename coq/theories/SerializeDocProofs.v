(* The string XMLFormatter.render prints (XV.SerializeDoc.render) is read back by the parser of XV.Serialize as the
   tree it was printed from (up to knorm: an empty text in front of children is invisible), for every tree of the
   fragment [dnode_ok]: names without prefix or in the diff namespace, at ANY depth.  In particular the printed string
   is well formed: tags balance, attribute values and character data are escaped so that they end where they should,
   and the prefix P is declared on the root exactly when it is used.  No axioms. *)
From Coq Require Import List NArith Bool Lia Arith.
Import ListNotations.
Require Import XV.Placeholder XV.PlaceholderProofs XV.Serialize XV.SerializeProofs XV.SerializeDoc.
Local Open Scope N_scope.

Definition ser_kids_g (P : str) (ks : list xtree) : str :=
  concat (map (fun k => ser_gen P false k ++ esc_text (xtail k)) ks).

Section Nodes.
Variable P : str.
Hypothesis HP : P_ok P.

Lemma ser_gen_head : forall d t, dnode_ok t = true ->
  exists c r, ser_gen P d t = 60 :: c :: r /\ c <> 47.
Proof.
  intros d [tag attrs text tail kids] OK. cbn [dnode_ok ser_gen] in *.
  destruct (str_eqb tag S_COMMENT).
  - exists 33. eexists. split; [reflexivity | discriminate].
  - destruct (strip_prefix S_PI tag) as [tg|].
    + exists 63. eexists. split; [reflexivity | discriminate].
    + apply andb_true_iff in OK. destruct OK as [OK _]. apply andb_true_iff in OK. destruct OK as [AN _].
      destruct (rn_namechars P tag HP AN) as [_ (c & r & E & NC)]. cbv zeta. rewrite E.
      exists c. eexists. split; [reflexivity|]. not_name_char NC.
Qed.

Lemma ser_kids_g_head : forall ks W, forallb dnode_ok ks = true ->
  exists Z, ser_kids_g P ks ++ 60 :: 47 :: W = 60 :: Z.
Proof.
  intros [|k ks] W OK; [eexists; reflexivity|]. cbn [forallb] in OK. apply andb_true_iff in OK. destruct OK as [OK _].
  destruct (ser_gen_head false k OK) as (c & r & E & _). unfold ser_kids_g. cbn [map concat]. rewrite E.
  eexists. reflexivity.
Qed.

Definition pnodeG (t : xtree) : Prop :=
  forall d fuel rest, dnode_ok t = true -> (pneed t <= fuel)%nat ->
    pnode P fuel (ser_gen P d t ++ rest) = Some (nk t, rest).

Lemma pkids_ser_g : forall ks, Forall pnodeG ks -> forallb dnode_ok ks = true ->
  forall fuel W, (pneeds ks <= fuel)%nat ->
    pkids P fuel (ser_kids_g P ks ++ 60 :: 47 :: W) = Some (map knorm ks, W).
Proof.
  intros ks F. induction F as [|k ks Hk _ IH]; intros OK fuel W LF.
  - destruct fuel as [|f]; [cbn in LF; lia|]. reflexivity.
  - cbn [forallb] in OK. apply andb_true_iff in OK. destruct OK as [OK1 OK2].
    cbn [pneeds] in LF. destruct fuel as [|f]; [lia|].
    unfold ser_kids_g. cbn [map concat]. fold (ser_kids_g P ks). rewrite <- !app_assoc.
    destruct (ser_gen_head false k OK1) as (c & r & E & NE).
    assert (SN : forall X, strip_prefix [60; 47] (ser_gen P false k ++ X) = None).
    { intro X. rewrite E. cbn [app strip_prefix]. rewrite N.eqb_refl.
      destruct (N.eqb 47 c) eqn:E47; [apply N.eqb_eq in E47; congruence | reflexivity]. }
    cbn [pkids]. rewrite SN. rewrite (Hk false f _ OK1 ltac:(lia)).
    destruct (ser_kids_g_head ks W OK2) as [Z EZ]. rewrite EZ. rewrite punesc_esc_text. rewrite <- EZ.
    rewrite (IH OK2 f W ltac:(lia)). rewrite set_tail_nk. reflexivity.
Qed.

Lemma pnode_ser_g : forall t, pnodeG t.
Proof.
  induction t as [tag attrs text tail kids IH] using xtree_ind2.
  intros d fuel rest OK LF. rewrite pneed_unfold in LF. destruct fuel as [|f]; [lia|].
  cbn [dnode_ok] in OK. cbn [ser_gen]. unfold nk. cbn [knorm set_tail xtag xattrs xtext xkids].
  destruct (str_eqb tag S_COMMENT) eqn:EC.
  - (* comment *)
    apply str_eqb_eq in EC. subst tag.
    destruct attrs as [|? ?]; [|discriminate]. destruct kids as [|? ?]; [|discriminate].
    destruct text as [x|]; [|discriminate]. cbn [otxt map].
    replace (([60; 33; 45; 45] ++ x ++ [45; 45; 62]) ++ rest) with ([60; 33; 45; 45] ++ (x ++ 45 :: 45 :: 62 :: rest))
      by (rewrite <- !app_assoc; reflexivity).
    cbn [pnode]. rewrite strip_prefix_app. rewrite (until2_app 45 45 x _ OK). cbn [strip_prefix N.eqb Pos.eqb].
    destruct x; reflexivity.
  - destruct (strip_prefix S_PI tag) as [tg|] eqn:EP.
    + (* processing instruction *)
      apply strip_prefix_some in EP. subst tag. apply andb_true_iff in OK. destruct OK as [PN OK].
      destruct attrs as [|? ?]; [|discriminate]. destruct kids as [|? ?]; [|discriminate]. cbn [map].
      pose proof (plain_namechars tg PN) as NC.
      destruct text as [x|].
      * replace (([60; 63] ++ tg ++ (32 :: x) ++ [63; 62]) ++ rest) with (60 :: 63 :: tg ++ (32 :: x ++ 63 :: 62 :: rest))
          by (cbn [app]; rewrite <- !app_assoc; cbn [app]; rewrite <- !app_assoc; reflexivity).
        cbn [pnode strip_prefix N.eqb Pos.eqb].
        rewrite (span_app namechar tg (32 :: _) NC eq_refl). cbn [strip_prefix N.eqb Pos.eqb].
        rewrite (until2_app 63 62 x rest (no_adj_snoc 63 62 x ltac:(discriminate) OK)).
        destruct x; reflexivity.
      * replace (([60; 63] ++ tg ++ [] ++ [63; 62]) ++ rest) with (60 :: 63 :: tg ++ (63 :: 62 :: rest))
          by (cbn [app]; rewrite <- !app_assoc; reflexivity).
        cbn [pnode strip_prefix N.eqb Pos.eqb].
        rewrite (span_app namechar tg (63 :: _) NC eq_refl). cbn [strip_prefix N.eqb Pos.eqb]. reflexivity.
    + (* element *)
      apply andb_true_iff in OK. destruct OK as [OK OKK]. apply andb_true_iff in OK. destruct OK as [AN AA].
      destruct (rn_namechars P tag HP AN) as [NC (c & r & ENM & NCc)]. cbv zeta.
      set (nm := rn P tag) in *.
      set (D := if d then decl P else []).
      assert (KN : (1 <= pneeds kids)%nat) by (destruct kids; cbn; lia).
      assert (PA : forall body, match body with [] => False | b :: _ => b = 47 \/ b = 62 end ->
                    pattrs P f (D ++ ser_attrs P attrs ++ body) = Some (attrs, body)).
      { intros body HB. assert (R : match body with [] => True | b :: _ => b <> 32 end).
        { destruct body as [|b ?]; [exact Logic.I|]. destruct HB; subst; discriminate. }
        unfold D. destruct d.
        - destruct f as [|f']; [lia|]. apply pattrs_decl; auto. lia.
        - apply pattrs_ser; auto. lia. }
      assert (SP : forall body, match body with [] => False | b :: _ => b = 47 \/ b = 62 end ->
                    span namechar (nm ++ D ++ ser_attrs P attrs ++ body) = (nm, D ++ ser_attrs P attrs ++ body)).
      { intros body HB. apply span_app; [exact NC|]. unfold D. destruct d; [reflexivity|].
        destruct attrs as [|[k v] ?]; [|reflexivity]. cbn [ser_attrs flat_map app].
        destruct body as [|b ?]; [exact Logic.I|]. destruct HB; subst; reflexivity. }
      assert (DISP : forall X, pnode P (S f) (60 :: nm ++ X) =
                match strip_prefix [60] (60 :: nm ++ X) with
                | Some r0 =>
                  let '(nm1, r1) := span namechar r0 in
                  match pattrs P f r1 with
                  | Some (attrs1, r2) =>
                    match strip_prefix [47;62] r2 with
                    | Some r3 => Some (XNode (unrn P nm1) attrs1 None [] [], r3)
                    | None =>
                      match strip_prefix [62] r2 with
                      | Some r3 =>
                        match ptext r3 with
                        | Some (txt, r4) =>
                          match pkids P f r4 with
                          | Some (kids1, r5) =>
                            let '(nm2, r6) := span namechar r5 in
                            match strip_prefix [62] r6 with
                            | Some r7 =>
                              if str_eqb nm1 nm2 then
                                Some (XNode (unrn P nm1) attrs1
                                            (match txt, kids1 with [], [] => Some [] | [], _ :: _ => None | _ :: _, _ => Some txt end)
                                            [] kids1, r7)
                              else None
                            | None => None
                            end
                          | None => None
                          end
                        | None => None
                        end
                      | None => None
                      end
                    end
                  | None => None
                  end
                | None => None
                end).
      { intro X. rewrite ENM. cbn [pnode app strip_prefix]. rewrite N.eqb_refl.
        assert (N33 : N.eqb 33 c = false) by (apply N.eqb_neq; intro E; symmetry in E; revert E; not_name_char NCc).
        assert (N63 : N.eqb 63 c = false) by (apply N.eqb_neq; intro E; symmetry in E; revert E; not_name_char NCc).
        rewrite N33, N63. reflexivity. }
      assert (UN : unrn P nm = tag) by (apply unrn_rn; assumption).
      assert (F1 : forall W, ptext (esc_text (otxt text) ++ ser_kids_g P kids ++ 60 :: 47 :: W)
                             = Some (otxt text, ser_kids_g P kids ++ 60 :: 47 :: W)).
      { intro W. destruct (ser_kids_g_head kids W OKK) as [Z EZ]. rewrite EZ. apply punesc_esc_text. }
      assert (F2 : forall W, pkids P f (ser_kids_g P kids ++ 60 :: 47 :: W) = Some (map knorm kids, W)).
      { intro W. apply pkids_ser_g; [exact IH | exact OKK | lia]. }
      assert (F3 : forall W, span namechar (nm ++ 62 :: W) = (nm, 62 :: W)).
      { intro W. apply span_app; [exact NC | reflexivity]. }
      assert (BODY :
                 pnode P (S f) ((60 :: nm ++ D ++ ser_attrs P attrs ++
                    62 :: esc_text (otxt text) ++ ser_kids_g P kids ++ [60; 47] ++ nm ++ [62]) ++ rest)
                 = Some (XNode tag attrs
                           (match otxt text, map knorm kids with [], [] => Some [] | [], _ :: _ => None | _ :: _, _ => Some (otxt text) end)
                           [] (map knorm kids), rest)).
      { replace ((60 :: nm ++ D ++ ser_attrs P attrs ++ 62 :: esc_text (otxt text) ++ ser_kids_g P kids ++ [60; 47] ++ nm ++ [62]) ++ rest)
          with (60 :: nm ++ (D ++ ser_attrs P attrs ++ (62 :: esc_text (otxt text) ++ ser_kids_g P kids ++ 60 :: 47 :: nm ++ 62 :: rest))).
        2:{ norm_app. reflexivity. }
        rewrite DISP. cbn [strip_prefix N.eqb Pos.eqb].
        rewrite SP by (right; reflexivity). rewrite PA by (right; reflexivity).
        cbn [strip_prefix N.eqb Pos.eqb].
        rewrite F1, F2, F3. cbn [strip_prefix N.eqb Pos.eqb]. rewrite str_eqb_refl. rewrite UN. reflexivity. }
      assert (EMPTY : pnode P (S f) ((60 :: nm ++ D ++ ser_attrs P attrs ++ [47; 62]) ++ rest)
                      = Some (XNode tag attrs None [] [], rest)).
      { replace ((60 :: nm ++ D ++ ser_attrs P attrs ++ [47; 62]) ++ rest)
          with (60 :: nm ++ (D ++ ser_attrs P attrs ++ (47 :: 62 :: rest))).
        2:{ norm_app. reflexivity. }
        rewrite DISP. cbn [strip_prefix N.eqb Pos.eqb].
        rewrite SP by (left; reflexivity). rewrite PA by (left; reflexivity).
        cbn [strip_prefix N.eqb Pos.eqb]. rewrite UN. reflexivity. }
      unfold ser_kids_g in BODY.
      destruct text as [x|]; destruct kids as [|k0 ks0].
      * lazymatch type of BODY with _ = ?R => transitivity R; [exact BODY|] end. cbn [otxt map]. destruct x; reflexivity.
      * lazymatch type of BODY with _ = ?R => transitivity R; [exact BODY|] end. cbn [otxt map]. destruct x; reflexivity.
      * lazymatch type of EMPTY with _ = ?R => transitivity R; [exact EMPTY|] end. reflexivity.
      * lazymatch type of BODY with _ = ?R => transitivity R; [exact BODY|] end. reflexivity.
Qed.

End Nodes.

(* the printed document parses, and parses back to the tree it was printed from *)
Theorem render_parse : forall P t fuel, P_ok P -> dnode_ok t = true -> (pneed t <= fuel)%nat ->
  parse P fuel (render P t) = Some (nk t).
Proof.
  intros P t fuel HP OK LF. unfold parse, render.
  rewrite <- (app_nil_r (ser_gen P (uses_ns_deep t) t)).
  rewrite (pnode_ser_g P HP t (uses_ns_deep t) fuel [] OK LF). cbn [app]. reflexivity.
Qed.

(* two result trees that print alike are the same tree (up to knorm and the root's tail, which is not printed) *)
Theorem render_injective : forall P t u, P_ok P -> dnode_ok t = true -> dnode_ok u = true ->
  render P t = render P u -> nk t = nk u.
Proof.
  intros P t u HP Ot Ou E.
  pose proof (render_parse P t (Nat.max (pneed t) (pneed u)) HP Ot (Nat.le_max_l _ _)) as Ht.
  pose proof (render_parse P u (Nat.max (pneed t) (pneed u)) HP Ou (Nat.le_max_r _ _)) as Hu.
  rewrite E in Ht. congruence.
Qed.
