(* XmlFmtProofsB -- C08: the output is free of placeholder characters and uses the diff namespace
   only as documented (text_tags = [], with or without use_replace).

   * [out_clean T]   no private-use character in any tag, attribute name, attribute value, text or tail of T;
                     an element in the diff namespace is diff:insert / diff:delete / diff:replace; an attribute in
                     the diff namespace is one of the documented ones;
   * [wclean W]      the same for the working tree (before finalize), where no element is in the diff namespace;
   * [step_clean]    the handlers keep [wclean] (given plain action strings: [act_plain]);
   * [finalize_clean]  finalize succeeds on the trees the handlers build and its result is [out_clean].
   No axioms. *)
From Coq Require Import List NArith ZArith Bool Arith Lia.
Import ListNotations.
Require Import XV.Str XV.Json XV.TextFormat XV.Forest XV.Matcher XV.Differ XV.Path XV.WF XV.AttrProofs XV.XmlFmt XV.Projections
               XV.XmlFmtProofs0 XV.XmlFmtProofs1 XV.XmlFmtProofs2 XV.XmlFmtProofsR2 XV.XmlFmtProofs3 XV.XmlFmtProofs4 XV.XmlFmtProofs5.
Require XV.Placeholder XV.PlaceholderUndo.
Require XV.DMP XV.DMPBase.
Local Open Scope nat_scope.

Definition s_formatting_suffix : str := Placeholder.s_formatting.
Definition documented_attrs : list str :=
  [INSERT_NAME; DELETE_NAME; REPLACE_NAME; RENAME_NAME;
   dname (s_add ++ s_attr_suffix); dname (Placeholder.s_delete ++ s_attr_suffix);
   dname (s_rename ++ s_attr_suffix); dname (s_update ++ s_attr_suffix);
   dname (Placeholder.s_insert ++ Placeholder.s_formatting); dname (Placeholder.s_delete ++ Placeholder.s_formatting);
   dname (Placeholder.s_replace ++ Placeholder.s_formatting)].
Definition documented_elems : list str := [INSERT_NAME; DELETE_NAME; REPLACE_NAME].

Definition name_ok (allowed : list str) (k : str) : bool := negb (is_diff_name k) || smem k allowed.
Definition attr_clean (kv : str * str) : bool := plainb (fst kv) && plainb (snd kv) && name_ok documented_attrs (fst kv).

Fixpoint out_clean (T : xtree) : bool :=
  match T with
  | XNode tag attrs text tail kids =>
      plainb tag && name_ok documented_elems tag && forallb attr_clean attrs &&
      plainb (otxt text) && plainb tail && forallb out_clean kids
  end.

(* the working tree: no element in the diff namespace at all *)
Definition own_wclean (t : xtree) : Prop :=
  plain (xtag t) /\ is_diff_name (xtag t) = false /\ forallb attr_clean (xattrs t) = true.
Inductive wclean : xtree -> Prop :=
| WC t : own_wclean t -> Forall wclean (xkids t) -> wclean t.

Lemma wclean_iff t : wclean t <-> own_wclean t /\ Forall wclean (xkids t).
Proof. split; [intros H; inversion H; auto|intros [H1 H2]; constructor; auto]. Qed.

Lemma wclean_get t p n : wclean t -> get_at t p = Some n -> wclean n.
Proof. apply (local_get wclean). intros x H. apply wclean_iff in H. tauto. Qed.
Lemma wclean_map_at t p n' : wclean t -> wclean n' -> wclean (map_at p (fun _ => n') t).
Proof.
  apply (local_map_at wclean own_wclean).
  - intros x H1 H2. apply wclean_iff. tauto.
  - intros x H. apply wclean_iff in H. tauto.
  - intros x H. apply wclean_iff in H. tauto.
  - intros x ks H. destruct x; exact H.
Qed.

(* ---- attribute lists ---- *)
Lemma forallb_aput a k v : forallb attr_clean a = true -> attr_clean (k, v) = true -> forallb attr_clean (aput a k v) = true.
Proof.
  intros Ha Hkv. unfold aput. destruct (ahas a k).
  - rewrite forallb_forall in *. intros x Hx. apply in_map_iff in Hx as (y & <- & Hy).
    destruct (str_eqb k (fst y)); [exact Hkv|apply Ha, Hy].
  - rewrite forallb_app, Ha. cbn. now rewrite Hkv.
Qed.
Lemma forallb_adel a k : forallb attr_clean a = true -> forallb attr_clean (adel a k) = true.
Proof. intros Ha. unfold adel. rewrite forallb_forall in *. intros x Hx. apply filter_In in Hx as [Hx _]. auto. Qed.

Lemma aget_clean a k v : forallb attr_clean a = true -> aget a k = Some v -> plain v.
Proof.
  intros Ha Hg. apply aget_Some_In in Hg. rewrite forallb_forall in Ha. specialize (Ha _ Hg).
  unfold attr_clean in Ha. cbn [fst snd] in Ha. apply andb_true_iff in Ha as [Ha _]. apply andb_true_iff in Ha as [_ Ha]. exact Ha.
Qed.

Lemma plain_dname l : plain l -> plain (dname l).
Proof. intros H. unfold dname. apply plain_app. split; [reflexivity|exact H]. Qed.

Lemma attr_clean_mark l v : In (dname l) documented_attrs -> plain l -> plain v -> attr_clean (dname l, v) = true.
Proof.
  intros Hin Hl Hv. unfold attr_clean. cbn [fst snd]. rewrite (plain_dname l Hl), Hv. cbn [andb].
  unfold name_ok. rewrite is_diff_dname. cbn [negb orb]. apply smem_In, Hin.
Qed.

Lemma attr_clean_plain k v : plain k -> plain v -> plain_name k -> attr_clean (k, v) = true.
Proof.
  intros Hk Hv Hn. unfold attr_clean, name_ok. cbn [fst snd]. unfold plain_name in Hn. rewrite Hk, Hv, Hn. reflexivity.
Qed.

Lemma extend_clean a action v : action = Placeholder.s_delete \/ action = s_add \/ action = s_rename \/ action = s_update ->
  forallb attr_clean a = true -> plain v -> forallb attr_clean (extend_diff_attr a action v) = true.
Proof.
  intros Hact Ha Hv. unfold extend_diff_attr.
  assert (Hold : plain (match aget a (dname (action ++ s_attr_suffix)) with Some v0 => v0 | None => [] end)).
  { destruct (aget a (dname (action ++ s_attr_suffix))) eqn:E; [eapply aget_clean; eauto|reflexivity]. }
  apply forallb_aput; [exact Ha|]. apply attr_clean_mark.
  - destruct Hact as [->|[->|[->| ->]]]; cbn; tauto.
  - destruct Hact as [->|[->|[->| ->]]]; reflexivity.
  - remember (match aget a (dname (action ++ s_attr_suffix)) with Some v0 => v0 | None => [] end) as old eqn:E.
    destruct old as [|x old']; [exact Hv|].
    apply plain_app. split; [exact Hold|]. apply plain_cons. split; [reflexivity|exact Hv].
Qed.

(* ---- the strings an action brings ---- *)
Definition act_plain (d : dact) : Prop :=
  match d with
  | DInsertNode _ tag _ | DRenameNode _ tag => plain tag /\ is_diff_name tag = false
  | DUpdAttr _ k v | DInsAttr _ k v => plain k /\ plain v
  | DDelAttr _ k => plain k
  | DRenAttr _ k k' => plain k /\ plain k'
  | _ => True
  end.

Lemma wclean_attrs n a : wclean n -> forallb attr_clean a = true -> wclean (with_attrs n a).
Proof.
  intros H Ha. apply wclean_iff in H as [(H1 & H2 & _) Hk]. apply wclean_iff. destruct n. cbn in *. unfold own_wclean. cbn. auto.
Qed.

Lemma wclean_own n : wclean n -> plain (xtag n) /\ is_diff_name (xtag n) = false /\ forallb attr_clean (xattrs n) = true /\ Forall wclean (xkids n).
Proof. intros H. apply wclean_iff in H as [(H1 & H2 & H3) Hk]. auto. Qed.

Section StepClean.
Variable c : cfg.
Variable o : oracle.
Variable rootns : list (option str * str).

Theorem step_clean st d st' :
  wclean (fs_tree st) -> step_ok rootns st d -> act_plain d -> handle_d c o rootns st d = FOk st' ->
  wclean (fs_tree st').
Proof.
  intros HC Hok Hpl H. destruct d; cbn [handle_d step_ok act_plain] in *.
  - (* DeleteNode *)
    unfold handle_DeleteNode in H. apply fbind_ok in H as (p & Ep & H).
    apply upd_node_inv in H as (n & n' & G & E & ->). inversion E; subst n'. cbn [fs_tree].
    pose proof (wclean_get _ _ _ HC G) as Hn. destruct (wclean_own n Hn) as (_ & _ & Ha & _).
    apply wclean_map_at; [exact HC|]. apply wclean_attrs; [exact Hn|].
    apply forallb_aput; [exact Ha|]. apply (attr_clean_mark Placeholder.s_delete []); [cbn; tauto|reflexivity|reflexivity].
  - (* InsertNode *)
    destruct Hpl as [Hp1 Hp2].
    unfold handle_InsertNode in H. apply fbind_ok in H as (p & Ep & H).
    apply upd_node_inv in H as (n & n' & G & E & ->). inversion E; subst n'. cbn [fs_tree].
    pose proof (wclean_get _ _ _ HC G) as Hn. destruct (wclean_own n Hn) as (H1 & H2 & Ha & Hk).
    apply wclean_map_at; [exact HC|]. apply wclean_iff. unfold h_InsertNode. destruct n as [ntg nat_ ntx ntl nks].
    cbn [with_kids xtag xattrs xkids] in *. split; [unfold own_wclean; cbn; auto|].
    apply Forall_insert_kid; [exact Hk|]. constructor; [|constructor].
    unfold own_wclean. cbn [xtag xattrs]. split; [exact Hp1|]. split; [exact Hp2|]. cbn [forallb].
    apply andb_true_iff. split; [|reflexivity].
    apply (attr_clean_mark Placeholder.s_insert []); [cbn; tauto|reflexivity|reflexivity].
  - (* RenameNode *)
    destruct Hpl as [Hp1 Hp2].
    unfold handle_RenameNode in H. apply fbind_ok in H as (p & Ep & H).
    apply upd_node_inv in H as (n & n' & G & E & ->). inversion E; subst n'. cbn [fs_tree].
    pose proof (wclean_get _ _ _ HC G) as Hn. destruct (wclean_own n Hn) as (H1 & H2 & Ha & Hk).
    apply wclean_map_at; [exact HC|]. apply wclean_iff. unfold h_RenameNode. destruct n as [ntg nat_ ntx ntl nks].
    cbn [with_tag with_attrs xtag xattrs xkids] in *. split; [|exact Hk]. unfold own_wclean. cbn [xtag xattrs].
    split; [exact Hp1|]. split; [exact Hp2|]. apply forallb_aput; [exact Ha|].
    apply (attr_clean_mark s_rename ntg); [cbn; tauto|reflexivity|exact H1].
  - (* MoveNode *)
    unfold handle_MoveNode in H. apply fbind_ok in H as (pn & Epn & H).
    unfold node_at in H. destruct (get_at (fs_tree st) pn) as [copy|] eqn:Gn; [|discriminate]. cbn [fbind] in H.
    apply fbind_ok in H as (pt & Ept & H).
    set (t1 := map_at pn delete_node (fs_tree st)) in *.
    destruct (get_at t1 pt) as [tgn|] eqn:Gt; [|discriminate]. cbn [fbind] in H. inversion H; subst st'. clear H. cbn [fs_tree].
    pose proof (wclean_get _ _ _ HC Gn) as Hcp. destruct (wclean_own copy Hcp) as (_ & _ & Hca & _).
    assert (HC1 : wclean t1).
    { unfold t1. rewrite (map_at_ext pn _ (fun _ => delete_node copy)) by (intros n0 Hn0; congruence).
      apply wclean_map_at; [exact HC|]. apply wclean_attrs; [exact Hcp|].
      apply forallb_aput; [exact Hca|]. apply (attr_clean_mark Placeholder.s_delete []); [cbn; tauto|reflexivity|reflexivity]. }
    pose proof (wclean_get _ _ _ HC1 Gt) as Ht. destruct (wclean_own tgn Ht) as (H1 & H2 & Ha & Hk).
    rewrite (map_at_ext pt _ (fun _ => with_kids tgn (insert_kid (real_insert_position (xkids tgn) pos)
               (with_attrs copy (aput (xattrs copy) INSERT_NAME [])) (xkids tgn))) t1) by (intros n0 Hn0; congruence).
    apply wclean_map_at; [exact HC1|]. apply wclean_iff. destruct tgn as [g1 g2 g3 g4 g5]. cbn [with_kids xtag xattrs xkids] in *.
    split; [unfold own_wclean; cbn; auto|]. apply Forall_insert_kid; [exact Hk|].
    apply wclean_attrs; [exact Hcp|]. apply forallb_aput; [exact Hca|].
    apply (attr_clean_mark Placeholder.s_insert []); [cbn; tauto|reflexivity|reflexivity].
  - (* UpdateTextIn *)
    unfold handle_UpdateTextIn in H. apply fbind_ok in H as (p & Ep & H).
    unfold node_at in H. destruct (get_at (fs_tree st) p) as [n|] eqn:G; [|discriminate]. cbn [fbind] in H.
    pose proof (wclean_get _ _ _ HC G) as Hn.
    assert (Hw : forall x, wclean (map_at p (fun n0 => with_text n0 x) (fs_tree st))).
    { intros x. rewrite (map_at_ext p _ (fun _ => with_text n x)) by (intros n0 Hn0; congruence).
      apply wclean_map_at; [exact HC|]. apply wclean_iff in Hn. apply wclean_iff. destruct n; exact Hn. }
    destruct (is_inserted n); [inversion H; subst st'; apply Hw|].
    apply fbind_ok in H as ([[s' out] any] & Em & H). inversion H; subst st'. apply Hw.
  - (* UpdateTextAfter *)
    unfold handle_UpdateTextAfter in H. apply fbind_ok in H as (p & Ep & H).
    unfold node_at in H. destruct (get_at (fs_tree st) p) as [n|] eqn:G; [|discriminate]. cbn [fbind] in H.
    pose proof (wclean_get _ _ _ HC G) as Hn.
    assert (Hw : forall g : xtree -> xtree, (forall x, xtag (g x) = xtag x /\ xattrs (g x) = xattrs x /\ xkids (g x) = xkids x) ->
                 wclean (map_at p g (fs_tree st))).
    { intros g Hg. rewrite (map_at_ext p _ (fun _ => g n)) by (intros n0 Hn0; congruence).
      apply wclean_map_at; [exact HC|]. apply wclean_iff in Hn. apply wclean_iff. destruct (Hg n) as (E1 & E2 & E3).
      unfold own_wclean. rewrite E1, E2, E3. exact Hn. }
    assert (Hres : exists g : xtree -> xtree, fs_tree st' = map_at p g (fs_tree st) /\
                     forall x, xtag (g x) = xtag x /\ xattrs (g x) = xattrs x /\ xkids (g x) = xkids x).
    { destruct p; apply fbind_ok in H as ([[s' out] any] & Em & H); inversion H; subst st'; cbn [fs_tree].
      - exists (fun n0 => with_tail (with_text n0 (if any then Some (otxt (xtext n0) ++ out) else xtext n0)) []).
        split; [reflexivity|]. intros x; destruct x; cbn; auto.
      - exists (fun n0 => with_tail n0 out). split; [reflexivity|]. intros x; destruct x; cbn; auto. }
    destruct Hres as (g & -> & Hg). apply Hw, Hg.
  - (* UpdateAttrib *)
    destruct Hpl as [Hp1 Hp2].
    unfold handle_UpdateAttrib in H. apply fbind_ok in H as (p & Ep & H).
    apply upd_node_inv in H as (n & n' & G & E & ->). unfold h_UpdateAttrib in E.
    destruct (aget (xattrs n) k) as [oldval|] eqn:Eg; [|discriminate]. inversion E; subst n'. cbn [fs_tree].
    pose proof (wclean_get _ _ _ HC G) as Hn. destruct (wclean_own n Hn) as (_ & _ & Ha & _).
    apply wclean_map_at; [exact HC|]. apply wclean_attrs; [exact Hn|].
    apply extend_clean; [auto| |].
    + apply forallb_aput; [exact Ha|apply attr_clean_plain; assumption].
    + apply plain_app. split; [exact Hp1|]. apply plain_cons. split; [reflexivity|eapply aget_clean; eauto].
  - (* DeleteAttrib *)
    unfold handle_DeleteAttrib in H. apply fbind_ok in H as (p & Ep & H).
    apply upd_node_inv in H as (n & n' & G & E & ->). unfold h_DeleteAttrib in E.
    destruct (ahas (xattrs n) k); [|discriminate]. inversion E; subst n'. cbn [fs_tree].
    pose proof (wclean_get _ _ _ HC G) as Hn. destruct (wclean_own n Hn) as (_ & _ & Ha & _).
    apply wclean_map_at; [exact HC|]. apply wclean_attrs; [exact Hn|].
    apply extend_clean; [auto|apply forallb_adel, Ha|exact Hpl].
  - (* InsertAttrib *)
    destruct Hpl as [Hp1 Hp2].
    unfold handle_InsertAttrib in H. apply fbind_ok in H as (p & Ep & H).
    apply upd_node_inv in H as (n & n' & G & E & ->). unfold h_InsertAttrib in E. inversion E; subst n'. cbn [fs_tree].
    pose proof (wclean_get _ _ _ HC G) as Hn. destruct (wclean_own n Hn) as (_ & _ & Ha & _).
    apply wclean_map_at; [exact HC|]. apply wclean_attrs; [exact Hn|].
    apply extend_clean; [auto| |exact Hp1]. apply forallb_aput; [exact Ha|apply attr_clean_plain; assumption].
  - (* RenameAttrib *)
    destruct Hpl as [Hp1 Hp2]. destruct Hok as [Hk Hk'].
    unfold handle_RenameAttrib in H. apply fbind_ok in H as (p & Ep & H).
    apply upd_node_inv in H as (n & n' & G & E & ->). unfold h_RenameAttrib in E.
    destruct (aget (xattrs n) k) as [v|] eqn:Eg; [|discriminate]. inversion E; subst n'. cbn [fs_tree].
    pose proof (wclean_get _ _ _ HC G) as Hn. destruct (wclean_own n Hn) as (_ & _ & Ha & _).
    apply wclean_map_at; [exact HC|]. apply wclean_attrs; [exact Hn|].
    apply extend_clean; [auto| |].
    + apply forallb_adel, forallb_aput; [exact Ha|]. apply attr_clean_plain; [exact Hp2|eapply aget_clean; eauto|exact Hk'].
    + apply plain_app. split; [exact Hp1|]. apply plain_cons. split; [reflexivity|exact Hp2].
  - unfold handle_InsertNamespace in H. inversion H; subst st'. exact HC.
  - inversion H; subst st'. exact HC.
Qed.
End StepClean.

(* ------------------------------------------------------------------ *)
(** * finalize gives a clean tree *)

Section WithS.
Variable S : pstate.
Hypothesis HS : tinv S.

Lemma exp_clean d : Forall (plainseg S) d -> plain (fst (exp d)) /\ forallb out_clean (snd (exp d)) = true.
Proof.
  induction 1 as [|pc d Hsg _ [IH1 IH2]]; cbn [exp]; [split; reflexivity|].
  destruct (exp d) as [l ws]. cbn [fst snd] in *. unfold plainseg in Hsg.
  assert (Hw : forall name t, In (dname name) documented_elems -> plain name -> plain t -> out_clean (welem name t l) = true).
  { intros name t Hin Hname Ht. unfold welem. cbn [out_clean forallb]. fold (dname name).
    rewrite (plain_dname name Hname). unfold name_ok. rewrite is_diff_dname. cbn [negb orb].
    apply smem_In in Hin. rewrite Hin. cbn [andb]. rewrite IH1, !andb_true_r.
    rewrite otxt_ornone. exact Ht. }
  destruct pc as [[o t]|cc new old]; cbn [piece_ok snd] in Hsg.
  - destruct o; cbn [fst snd forallb]; (split; [try reflexivity|]).
    + rewrite Hw, IH2; [reflexivity|cbn; tauto|reflexivity|exact Hsg].
    + rewrite Hw, IH2; [reflexivity|cbn; tauto|reflexivity|exact Hsg].
    + apply plain_app; auto.
    + exact IH2.
  - destruct Hsg as (Hn & Ho & _). cbn [fst snd forallb]. split; [reflexivity|]. rewrite IH2, andb_true_r.
    unfold relw. cbn [out_clean forallb]. fold (dname Placeholder.s_replace).
    rewrite (plain_dname Placeholder.s_replace eq_refl). unfold name_ok at 1. rewrite is_diff_dname. cbn [negb orb].
    change (smem (dname Placeholder.s_replace) documented_elems) with true. cbn [andb].
    rewrite IH1, !andb_true_r, otxt_ornone. unfold attr_clean. cbn [fst snd].
    change (plainb s_old_text) with true. change (name_ok documented_attrs s_old_text) with true.
    cbn [andb]. unfold plain in Ho, Hn. rewrite Ho, Hn. reflexivity.
Qed.

Lemma out_clean_exp : forall W, wclean W -> forall W' sibs, Exp S W W' sibs ->
  out_clean W' = true /\ forallb out_clean sibs = true.
Proof.
  induction W as [tag attrs text tail kids IH] using Placeholder.xtree_ind2.
  intros HC W' sibs HE. inversion HE as [? ? ? ? ? dt dl text1 kids' Hdt Et Hdl El Ht1 F2]; subst.
  destruct (wclean_own _ HC) as (H1 & H2 & Ha & Hk). cbn [xtag xattrs xkids] in *.
  destruct (exp_clean dt Hdt) as [Pt Wt]. destruct (exp_clean dl Hdl) as [Pl Wl].
  split; [|exact Wl]. cbn [out_clean]. rewrite H1, Ha, Ht1, Pt, Pl. unfold name_ok. rewrite H2. cbn [negb orb andb].
  rewrite forallb_app, Wt. cbn [andb].
  clear - IH Hk F2. induction F2 as [|k r kids kids' X _ IHf]; [reflexivity|].
  inversion IH as [|? ? IHk IHr]; subst. inversion Hk as [|? ? Ck Cr]; subst.
  cbn [flat_map]. rewrite forallb_app. cbn [forallb]. destruct (IHk Ck _ _ X) as [A B]. rewrite A, B. cbn [andb]. apply IHf; assumption.
Qed.

(* C08 after the handlers: finalize completes (no IndexError) and the output is clean *)
Theorem finalize_clean W : winv S W -> wclean W ->
  exists T, finalize S W = FOk T /\ out_clean T = true.
Proof.
  intros HW HC.
  destruct (undo_exp S HS W (wi_run _ _ HW) (Placeholder.default_fuel S W) false) as (W' & sibs & E & X).
  - unfold Placeholder.default_fuel, Placeholder.UNDO_DEPTH. pose proof (xheight_le_tsize W). lia.
  - right. apply (wi_tail _ _ HW).
  - exists W'. unfold finalize, Placeholder.undo_tree, Placeholder.undo_tree_fuel. rewrite E. cbn [Placeholder.bind fst of_ph].
    split; [reflexivity|]. apply (out_clean_exp W HC W' sibs X).
Qed.
End WithS.
