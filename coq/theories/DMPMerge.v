(* diff_cleanupMerge keeps both projections of a diff and never introduces an
   empty segment. *)
From Coq Require Import List ZArith NArith Bool Lia.
Import ListNotations.
Require Import XV.DMP XV.DMPBase XV.DMPCommon.
Local Open Scope Z_scope.

(* ------------------------------------------------------------------ *)
(** * small facts *)

Definition sel (k : op -> bool) (td ti : str) : str := if k DELETE then td else ti.

Lemma proj_sing k o s : proj k [(o, s)] = if k o then s else [].
Proof. rewrite proj_cons, proj_nil. now rewrite app_nil_r. Qed.

Lemma proj_eq_sing k s : good_keep k -> proj k [(EQUAL, s)] = s.
Proof. intros [H _]. now rewrite proj_sing, H. Qed.

Lemma proj_eq_cons k s d : good_keep k -> proj k ((EQUAL, s) :: d) = s ++ proj k d.
Proof. intros [H _]. now rewrite proj_cons, H. Qed.

Lemma sel_app k a b c d : sel k (a ++ b) (c ++ d) = sel k a c ++ sel k b d.
Proof. unfold sel. now destruct (k DELETE). Qed.

Lemma sel_same k c : sel k c c = c.
Proof. unfold sel. now destruct (k DELETE). Qed.

Lemma proj_new_ops k td ti : good_keep k -> proj k (merge_new_ops td ti) = sel k td ti.
Proof.
  intros [_ Hx]. unfold merge_new_ops, sel.
  destruct (zlen td =? 0) eqn:E1; destruct (zlen ti =? 0) eqn:E2; cbn [negb app].
  - apply Z.eqb_eq in E1, E2. apply zlen_0 in E1, E2. subst. now destruct (k DELETE).
  - apply Z.eqb_eq in E1. apply zlen_0 in E1. subst td. rewrite proj_sing, Hx. now destruct (k INSERT).
  - apply Z.eqb_eq in E2. apply zlen_0 in E2. subst ti. rewrite proj_sing, Hx. now destruct (k INSERT).
  - rewrite !proj_cons, proj_nil, Hx. destruct (k INSERT); cbn; now rewrite ?app_nil_r.
Qed.

Lemma new_ops_nonempty td ti : Forall nonempty (merge_new_ops td ti).
Proof.
  unfold merge_new_ops.
  apply Forall_app. split.
  - destruct (zlen td =? 0) eqn:E; cbn; [constructor|]. constructor; [|constructor].
    intros H. cbn in H. subst td. discriminate.
  - destruct (zlen ti =? 0) eqn:E; cbn; [constructor|]. constructor; [|constructor].
    intros H. cbn in H. subst ti. discriminate.
Qed.

Lemma new_ops_edits td ti : Forall (fun s => fst s <> EQUAL) (merge_new_ops td ti).
Proof.
  unfold merge_new_ops. apply Forall_app. split.
  - destruct (negb (zlen td =? 0)); repeat constructor; discriminate.
  - destruct (negb (zlen ti =? 0)); repeat constructor; discriminate.
Qed.

Lemma endswithb_spec s p : endswithb s p = true <-> exists u, s = u ++ p.
Proof.
  unfold endswithb. split.
  - intros H. apply andb_true_iff in H as [H1 H2]. apply str_eqb_eq in H2.
    exists (firstn (length s - length p) s).
    transitivity (firstn (length s - length p) s ++ skipn (length s - length p) s);
      [symmetry; apply firstn_skipn | f_equal; exact H2].
  - intros (u & ->). apply andb_true_iff. split.
    + rewrite zlen_app. pose proof (zlen_nonneg u). lia.
    + apply str_eqb_eq. rewrite app_length.
      replace (length u + length p - length p)%nat with (length u) by lia. apply skipn_mid.
Qed.

(* nonempty except possibly for the last element, which is an equality (the dummy) *)
Definition NEL (l : list seg) : Prop :=
  exists body e, l = body ++ [(EQUAL, e)] /\ Forall nonempty body.

Lemma NEL_app a l : Forall nonempty a -> NEL l -> NEL (a ++ l).
Proof.
  intros Ha (body & e & -> & Hb). exists (a ++ body), e. split; [now rewrite app_assoc|].
  apply Forall_app. now split.
Qed.

Lemma NEL_app_inv a l : NEL (a ++ l) -> l <> [] -> Forall nonempty a /\ NEL l.
Proof.
  intros (body & e & H & Hb) Hl.
  destruct l as [|x l] using rev_ind; [congruence|]. clear IHl.
  rewrite app_assoc in H. apply app_inj_tail in H as [H ->].
  subst body. apply Forall_app in Hb as [Ha Hb]. split; [assumption|].
  exists l, e. now split.
Qed.

Lemma NEL_cons_inv x l : NEL (x :: l) -> l <> [] -> nonempty x /\ NEL l.
Proof.
  intros H Hl. change (x :: l) with ([x] ++ l) in H.
  apply NEL_app_inv in H as [H1 H2]; [|assumption]. split; [now inversion H1|assumption].
Qed.

Lemma NEL_last body e : Forall nonempty body -> NEL (body ++ [(EQUAL, e)]).
Proof. intros H. exists body, e. now split. Qed.

Lemma NEL_sing e : NEL [(EQUAL, e)].
Proof. exists [], e. split; [reflexivity|constructor]. Qed.

(* replacing the text of the leading equality by a longer one *)
Lemma NEL_grow_head c t post : NEL ((EQUAL, t) :: post) -> NEL ((EQUAL, c ++ t) :: post).
Proof.
  intros H. destruct post as [|y post].
  - apply NEL_sing.
  - apply NEL_cons_inv in H as [H1 H2]; [|discriminate].
    change ((EQUAL, c ++ t) :: y :: post) with ([(EQUAL, c ++ t)] ++ y :: post).
    apply NEL_app; [|assumption]. constructor; [|constructor].
    unfold nonempty in *. cbn in *. intros Hc. apply app_eq_nil in Hc as [_ Hc]. contradiction.
Qed.

Lemma NEL_all l : NEL l -> forall body x, l = body ++ [x] -> Forall nonempty body.
Proof.
  intros (b & e & -> & Hb) body x H. apply app_inj_tail in H as [-> _]. assumption.
Qed.

(* ------------------------------------------------------------------ *)
(** * first pass *)

Definition pre_ok (pre : list seg) : Prop := pre = [] \/ exists (pre' : list seg) (e : str), pre = pre' ++ [(EQUAL, e)].

Lemma merge_prefix_spec pre run cur post p cd ci td ti d' p' td' ti' :
  p = zlen pre + zlen run -> zlen run = cd + ci -> pre_ok pre ->
  merge_prefix (pre ++ run ++ cur :: post) p cd ci td ti = Ok (d', p', td', ti') ->
  exists pre1 c, d' = pre1 ++ run ++ cur :: post /\ p' = zlen pre1 + zlen run /\
    td = c ++ td' /\ ti = c ++ ti' /\
    ((pre1 = pre /\ c = []) \/
     (c <> [] /\ ((pre = [] /\ pre1 = [(EQUAL, c)]) \/
                  exists (pre' : list seg) (e : str), pre = pre' ++ [(EQUAL, e)] /\ pre1 = pre' ++ [(EQUAL, e ++ c)]))).
Proof.
  intros Hp Hrl Hpre H. unfold merge_prefix in H.
  inv_bind H. apply commonPrefix_spec in E as (c & r1 & r2 & Hti & Htd & Hc & _).
  destruct (v =? 0) eqn:Ev; cbn [negb] in H.
  - ok_inv. assert (c = []) by (apply zlen_0; lia). subst c. cbn in *.
    exists pre, []. repeat split; auto.
  - assert (Hcn : c <> []). { intros ->. change (zlen (@nil N)) with 0 in Hc. lia. }
    assert (Sti : slice_to ti v = c) by (rewrite Hti; apply slice_to_app; lia).
    assert (Fti : slice_from ti v = r1) by (rewrite Hti; apply slice_from_app; lia).
    assert (Ftd : slice_from td v = r2) by (rewrite Htd; apply slice_from_app; lia).
    rewrite Sti, Fti, Ftd in H.
    destruct Hpre as [-> | (pre' & e & ->)].
    + (* the run starts the list: x = -1, the common prefix becomes a new first equality *)
      change (zlen (@nil seg)) with 0 in Hp.
      destruct (p - cd - ci - 1 >=? 0) eqn:Ex; [lia|]. cbn [bind] in H.
      cbn [app] in H. unfold py_insert in H. cbn [zlen length Z.of_nat clampi Z.ltb Z.compare] in H.
      replace (Z.to_nat (Z.min 0 (zlen (run ++ cur :: post)))) with O in H
        by (pose proof (zlen_nonneg (run ++ cur :: post)); lia).
      cbn [firstn skipn app] in H. ok_inv.
      exists [(EQUAL, c)], c. repeat split; auto;
        try (rewrite zlen_sing; change (zlen (@nil seg)) with 0; lia);
        try (right; split; [assumption|]; left; split; reflexivity).
    + (* the run follows an equality, which absorbs the common prefix *)
      rewrite zlen_app, zlen_sing in Hp.
      pose proof (zlen_nonneg pre').
      destruct (p - cd - ci - 1 >=? 0) eqn:Ex; [|lia].
      rewrite <- app_assoc in H. cbn [app] in H.
      rewrite !(get0 pre' (EQUAL, e)) in H by lia. cbn [bind is_equal] in H.
      rewrite (set0 pre' (EQUAL, e)) in H by lia. cbn [bind] in H. ok_inv.
      exists (pre' ++ [(EQUAL, e ++ c)]), c. repeat split; auto;
        try (now rewrite <- app_assoc);
        try (rewrite zlen_app, zlen_sing; lia);
        try (right; split; [assumption|]; right; exists pre', e; split; reflexivity).
Qed.

Lemma merge_suffix_spec pre run o t post p td ti d' td' ti' :
  p = zlen pre + zlen run ->
  merge_suffix (pre ++ run ++ (o, t) :: post) p td ti = Ok (d', td', ti') ->
  exists c, d' = pre ++ run ++ (o, c ++ t) :: post /\ td = td' ++ c /\ ti = ti' ++ c.
Proof.
  intros Hp H. unfold merge_suffix in H.
  inv_bind H. apply commonSuffix_spec in E as (c & r1 & r2 & Hti & Htd & Hc & _).
  destruct (v =? 0) eqn:Ev; cbn [negb] in H.
  - ok_inv. assert (c = []) by (apply zlen_0; lia). subst c. rewrite !app_nil_r in *.
    exists []. repeat split; auto; rewrite ?app_nil_r; congruence.
  - assert (Hcn : c <> []). { intros ->. change (zlen (@nil N)) with 0 in Hc. lia. }
    rewrite (app_assoc pre run) in H.
    rewrite get0 in H by (rewrite zlen_app; lia). cbn [bind] in H.
    rewrite set0 in H by (rewrite zlen_app; lia). cbn [bind] in H. ok_inv.
    exists c. rewrite <- app_assoc. repeat split.
    + rewrite Hti. rewrite slice_from_app_neg by (auto; lia). reflexivity.
    + rewrite Htd. rewrite slice_to_app_neg by (auto; lia). reflexivity.
    + rewrite Hti. rewrite slice_to_app_neg by (auto; lia). reflexivity.
Qed.

Section Pass1.
  Variable d0 : list seg.

  Definition inv1 (s : mstate) : Prop :=
    let '(d, p, cd, ci, td, ti) := s in
    exists pre run post,
      d = pre ++ run ++ post /\ p = zlen pre + zlen run /\ zlen run = cd + ci /\ 0 <= cd /\ 0 <= ci /\
      Forall (fun s => fst s <> EQUAL) run /\
      (forall k, good_keep k -> proj k run = sel k td ti) /\
      pre_ok pre /\
      (forall k, good_keep k -> proj k d = proj k d0) /\
      (NEL d0 -> NEL d).

  Lemma inv1_step s s' : inv1 s -> merge1_step s = Ok (inl s') -> inv1 s'.
  Proof.
    destruct s as [[[[[d p] cd] ci] td] ti].
    intros (pre & run & post & Hd & Hp & Hrl & Hcd & Hci & Hrun & Hsel & Hpre & Hproj & Hnel) Hs.
    unfold merge1_step in Hs.
    destruct (p <? zlen d) eqn:Elt; cbn [negb] in Hs; [|discriminate].
    destruct post as [|[o t] post].
    { exfalso. subst d. rewrite app_nil_r, zlen_app in Elt. lia. }
    subst d. rewrite (app_assoc pre run) in Hs.
    rewrite get0 in Hs by (rewrite zlen_app; lia). cbn [bind] in Hs.
    rewrite <- (app_assoc pre run) in Hs.
    destruct o.
    - (* DELETE *)
      ok_inv. exists pre, (run ++ [(DELETE, t)]), post.
      rewrite <- !app_assoc. cbn [app]. repeat split; auto; try lia.
      + rewrite zlen_app, zlen_sing. lia.
      + rewrite zlen_app, zlen_sing. lia.
      + apply Forall_app. split; [assumption|]. repeat constructor. discriminate.
      + intros k Hk. rewrite proj_app, proj_sing, (Hsel k Hk). unfold sel.
        destruct Hk as [_ Hx]. destruct (k DELETE); [reflexivity|now rewrite app_nil_r].
    - (* INSERT *)
      ok_inv. exists pre, (run ++ [(INSERT, t)]), post.
      rewrite <- !app_assoc. cbn [app]. repeat split; auto; try lia.
      + rewrite zlen_app, zlen_sing. lia.
      + rewrite zlen_app, zlen_sing. lia.
      + apply Forall_app. split; [assumption|]. repeat constructor. discriminate.
      + intros k Hk. rewrite proj_app, proj_sing, (Hsel k Hk). unfold sel.
        destruct Hk as [_ Hx]. rewrite Hx. destruct (k INSERT); cbn; [reflexivity|now rewrite app_nil_r].
    - (* EQUAL *)
      destruct (cd + ci >? 1) eqn:Ec.
      + (* a run of several edits: factor, rebuild *)
        inv_bind Hs. destruct v as [[[d1 p1] td1] ti1]. ok_inv.
        assert (Hf : exists pre1 c1 c2,
                   d1 = pre1 ++ run ++ (EQUAL, c2 ++ t) :: post /\ p1 = zlen pre1 + zlen run /\
                   td = c1 ++ td1 ++ c2 /\ ti = c1 ++ ti1 ++ c2 /\ pre_ok pre1 /\
                   (forall k, good_keep k -> proj k pre1 = proj k pre ++ c1) /\
                   (Forall nonempty pre -> Forall nonempty pre1)).
        { destruct (negb (cd =? 0) && negb (ci =? 0)) eqn:Eb.
          - inv_bind E. destruct v as [[[d2 p2] td2] ti2].
            inv_bind E. destruct v as [[d3 td3] ti3]. ok_inv.
            apply merge_prefix_spec in E0 as (pre1 & c1 & -> & -> & -> & -> & Hc1); auto.
            apply merge_suffix_spec in E1 as (c2 & -> & -> & ->); auto.
            exists pre1, c1, c2. repeat split; auto.
            + destruct Hc1 as [[-> _]|[Hn [[_ ->]|(pre' & e & _ & ->)]]]; [assumption|right|right].
              * exists [], c1. reflexivity.
              * exists pre', (e ++ c1). reflexivity.
            + intros k Hk. destruct Hc1 as [[-> ->]|[Hn [[-> ->]|(pre' & e & -> & ->)]]].
              * now rewrite app_nil_r.
              * now rewrite proj_eq_sing.
              * rewrite !proj_app, !(proj_eq_sing k _ Hk). now rewrite app_assoc.
            + intros Hne. destruct Hc1 as [[-> ->]|[Hn [[-> ->]|(pre' & e & -> & ->)]]].
              * assumption.
              * repeat constructor. assumption.
              * apply Forall_app in Hne as [Hne1 Hne2]. apply Forall_app. split; [assumption|].
                repeat constructor. inversion Hne2 as [|? ? Hne3 _]; subst. unfold nonempty in *. cbn in *.
                intros Hc. apply app_eq_nil in Hc as [Hc _]. contradiction.
          - ok_inv. exists pre, [], []. cbn [app]. rewrite !app_nil_r. repeat split; auto.
            intros k Hk. now rewrite app_nil_r. }
        destruct Hf as (pre1 & c1 & c2 & -> & -> & Htd & Hti & Hpre1 & Hpp & Hpn).
        replace (zlen pre1 + zlen run - (cd + ci)) with (zlen pre1) by lia.
        rewrite slice_assign0 by lia.
        exists (pre1 ++ merge_new_ops td1 ti1 ++ [(EQUAL, c2 ++ t)]), [], post.
        rewrite <- !app_assoc. cbn [app]. repeat split; auto; try lia;
          try (intros k Hk; unfold sel; now destruct (k DELETE)).
        * rewrite !zlen_app, zlen_sing. change (zlen (@nil seg)) with 0. lia.
        * right. exists (pre1 ++ merge_new_ops td1 ti1), (c2 ++ t). now rewrite <- app_assoc.
        * intros k Hk. rewrite <- (Hproj k Hk).
          rewrite !proj_app, !(proj_eq_cons k _ _ Hk), (Hpp k Hk), (proj_new_ops k _ _ Hk), (Hsel k Hk).
          rewrite Htd, Hti, !sel_app, !sel_same. now rewrite <- !app_assoc.
        * intros H0. specialize (Hnel H0).
          apply NEL_app_inv in Hnel as [Hn1 Hnel]; [|destruct run; discriminate].
          apply NEL_app_inv in Hnel as [Hn2 Hnel]; [|discriminate].
          apply NEL_app; [auto|]. apply NEL_app; [apply new_ops_nonempty|].
          now apply NEL_grow_head.
      + (* at most one edit before this equality *)
        inv_bind Hs. destruct v.
        * (* merge this equality with the previous one *)
          destruct (p =? 0) eqn:Ep0; cbn [negb] in E; [discriminate|].
          inv_bind E. destruct v as [o' t']. ok_inv.
          (* the previous entry is an equality: the run is empty and pre ends with an equality *)
          assert (Hr : run = []).
          { destruct run as [|r run] using rev_ind; [reflexivity|]. exfalso.
            rewrite <- (app_assoc run [r]) in E0. cbn [app] in E0. rewrite (app_assoc pre run) in E0.
            rewrite get0 in E0 by (rewrite !zlen_app, ?zlen_sing in *; lia).
            ok_inv. apply Forall_app in Hrun as [_ Hrun]. inversion Hrun; subst. cbn in *.
            destruct o'; [discriminate|discriminate|]. congruence. }
          subst run. cbn [app] in *. change (zlen (@nil seg)) with 0 in *.
          destruct Hpre as [-> | (pre' & e & ->)]; [change (zlen (@nil seg)) with 0 in *; lia|].
          rewrite zlen_app, zlen_sing in *.
          rewrite <- app_assoc in Hs. cbn [app] in Hs.
          rewrite (get0 pre' (EQUAL, e)) in Hs by lia. cbn [bind] in Hs.
          rewrite (set0 pre' (EQUAL, e)) in Hs by lia. cbn [bind] in Hs.
          rewrite (del1 pre') in Hs by lia. cbn [bind] in Hs. ok_inv.
          exists (pre' ++ [(EQUAL, e ++ t)]), [], post.
          rewrite <- !app_assoc. cbn [app]. repeat split; auto; try lia;
            try (intros k Hk; unfold sel; now destruct (k DELETE)).
          -- rewrite !zlen_app, zlen_sing. change (zlen (@nil seg)) with 0. lia.
          -- right. exists pre', (e ++ t). reflexivity.
          -- intros k Hk. rewrite <- (Hproj k Hk). rewrite <- !app_assoc. cbn [app].
             rewrite !proj_app, !(proj_eq_cons k _ _ Hk). now rewrite <- !app_assoc.
          -- intros H0. specialize (Hnel H0). rewrite <- app_assoc in Hnel. cbn [app] in Hnel.
             apply NEL_app_inv in Hnel as [Hn1 Hnel]; [|discriminate].
             apply NEL_app; [assumption|].
             destruct post as [|y post].
             ++ apply NEL_sing.
             ++ apply NEL_cons_inv in Hnel as [Hn2 Hnel]; [|discriminate].
                apply NEL_cons_inv in Hnel as [Hn3 Hnel]; [|discriminate].
                change ((EQUAL, e ++ t) :: y :: post) with ([(EQUAL, e ++ t)] ++ y :: post).
                apply NEL_app; [|assumption]. repeat constructor. unfold nonempty in *. cbn in *.
                intros Hc. apply app_eq_nil in Hc as [Hc _]. contradiction.
        * (* move past this equality *)
          ok_inv. exists (pre ++ run ++ [(EQUAL, t)]), [], post.
          rewrite <- !app_assoc. cbn [app]. repeat split; auto; try lia;
            try (intros k Hk; unfold sel; now destruct (k DELETE)).
          -- rewrite !zlen_app, zlen_sing. change (zlen (@nil seg)) with 0. lia.
          -- right. exists (pre ++ run), t. now rewrite <- app_assoc.
  Qed.

  Lemma inv1_exit s d : inv1 s -> merge1_step s = Ok (inr d) ->
    (forall k, good_keep k -> proj k d = proj k d0) /\ (NEL d0 -> NEL d).
  Proof.
    destruct s as [[[[[d' p] cd] ci] td] ti].
    intros (pre & run & post & Hd & Hp & Hrl & Hcd & Hci & Hrun & Hsel & Hpre & Hproj & Hnel) Hs.
    unfold merge1_step in Hs.
    destruct (p <? zlen d') eqn:Elt; cbn [negb] in Hs.
    - inv_bind Hs. destruct v as [o t]. destruct o; try discriminate.
      destruct (cd + ci >? 1).
      + inv_bind Hs. destruct v as [[[? ?] ?] ?]. discriminate.
      + inv_bind Hs. destruct v.
        * inv_bind Hs. destruct v. inv_bind Hs. destruct v. inv_bind Hs. inv_bind Hs. discriminate.
        * discriminate.
    - ok_inv. split; assumption.
  Qed.
End Pass1.

(* ------------------------------------------------------------------ *)
(** * second pass *)

Section Pass2.
  Variable d0 : list seg.

  Definition inv2 (s : list seg * Z * bool) : Prop :=
    let '(d, p, _) := s in
    1 <= p /\ (forall k, good_keep k -> proj k d = proj k d0) /\ (Forall nonempty d0 -> Forall nonempty d).

  Lemma nonempty_rot (o : op) (a b : str) : nonempty (o, a ++ b) -> nonempty (o, b ++ a).
  Proof.
    unfold nonempty. cbn. intros H Hc. apply app_eq_nil in Hc as [-> ->]. now apply H.
  Qed.

  Lemma inv2_step s s' : inv2 s -> merge2_step s = Ok (inl s') -> inv2 s'.
  Proof.
    destruct s as [[d p] ch]. intros (Hp & Hproj & Hne) Hs. unfold merge2_step in Hs.
    destruct (p <? zlen d - 1) eqn:Elt; cbn [negb] in Hs; [|discriminate].
    destruct (window3 d p) as (pre & [o0 t0] & [o1 t1] & [o2 t2] & post & -> & Hpre); [lia|lia|].
    rewrite get0 in Hs by lia. cbn [bind] in Hs.
    rewrite get2 in Hs by lia. cbn [bind] in Hs.
    destruct (is_equal o0 && is_equal o2) eqn:Eeq.
    2:{ ok_inv. repeat split; auto; lia. }
    apply andb_true_iff in Eeq as [E0 E2].
    destruct o0; try discriminate. destruct o2; try discriminate.
    rewrite get1 in Hs by lia. cbn [bind] in Hs.
    destruct (endswithb t1 t0) eqn:Eend.
    - apply endswithb_spec in Eend as (u & ->).
      destruct (str_eqb t0 []) eqn:Et0; cbn [negb] in Hs.
      + apply str_eqb_eq in Et0. subst t0. cbn [bind] in Hs.
        rewrite del0 in Hs by lia. cbn [bind] in Hs. ok_inv.
        split; [lia|]. split.
        * intros k Hk. rewrite <- (Hproj k Hk). rewrite !proj_app, (proj_eq_cons k _ _ Hk). reflexivity.
        * intros H0. specialize (Hne H0). apply Forall_app in Hne as [H1 H2].
          apply Forall_app. split; [assumption|]. now inversion H2.
      + apply str_eqb_neq in Et0.
        rewrite set1 in Hs by lia. cbn [bind] in Hs.
        rewrite set2 in Hs by lia. cbn [bind] in Hs.
        rewrite del0 in Hs by lia. cbn [bind] in Hs. ok_inv.
        rewrite slice_to_app_neg by (auto; lia).
        split; [lia|]. split.
        * intros k Hk. rewrite <- (Hproj k Hk).
          rewrite !proj_app, !proj_cons, !(gk_eq _ Hk).
          destruct (k o1); cbn [app]; rewrite <- ?app_assoc; reflexivity.
        * intros H0. specialize (Hne H0). apply Forall_app in Hne as [H1 H2].
          apply Forall_app. split; [assumption|].
          inversion H2 as [|? ? Ha H3]; subst. inversion H3 as [|? ? Hb H4]; subst.
          inversion H4 as [|? ? Hc H5]; subst.
          constructor; [now apply nonempty_rot|]. constructor; [|assumption].
          unfold nonempty in *. cbn in *. intros Hx. apply app_eq_nil in Hx as [Hx _]. contradiction.
    - destruct (prefixb t2 t1) eqn:Epre.
      + apply prefixb_spec in Epre as (u & ->).
        rewrite set0 in Hs by lia. cbn [bind] in Hs.
        rewrite set1 in Hs by lia. cbn [bind] in Hs.
        rewrite del2 in Hs by lia. cbn [bind] in Hs. ok_inv.
        rewrite slice_from_app by reflexivity.
        split; [lia|]. split.
        * intros k Hk. rewrite <- (Hproj k Hk).
          rewrite !proj_app, !proj_cons, !(gk_eq _ Hk).
          destruct (k o1); cbn [app]; rewrite <- ?app_assoc; reflexivity.
        * intros H0. specialize (Hne H0). apply Forall_app in Hne as [H1 H2].
          apply Forall_app. split; [assumption|].
          inversion H2 as [|? ? Ha H3]; subst. inversion H3 as [|? ? Hb H4]; subst.
          inversion H4 as [|? ? Hc H5]; subst.
          constructor.
          { unfold nonempty in *. cbn in *. intros Hx. apply app_eq_nil in Hx as [Hx _]. contradiction. }
          constructor; [now apply nonempty_rot|assumption].
      + ok_inv. repeat split; auto; lia.
  Qed.

  Lemma inv2_exit s d ch : inv2 s -> merge2_step s = Ok (inr (d, ch)) ->
    (forall k, good_keep k -> proj k d = proj k d0) /\ (Forall nonempty d0 -> Forall nonempty d).
  Proof.
    destruct s as [[d' p] ch']. intros (Hp & Hproj & Hne) Hs. unfold merge2_step in Hs.
    destruct (p <? zlen d' - 1) eqn:Elt; cbn [negb] in Hs.
    - inv_bind Hs. destruct v as [o0 t0]. inv_bind Hs. destruct v as [o2 t2].
      destruct (is_equal o0 && is_equal o2); [|discriminate].
      inv_bind Hs. destruct v as [o1 t1].
      destruct (endswithb t1 t0).
      + inv_bind Hs. inv_bind Hs. discriminate.
      + destruct (prefixb t2 t1); [|discriminate].
        inv_bind Hs. inv_bind Hs. inv_bind Hs. discriminate.
    - ok_inv. split; assumption.
  Qed.
End Pass2.

(* ------------------------------------------------------------------ *)
(** * the whole of diff_cleanupMerge *)

Lemma merge_once_spec d d' ch : merge_once d = Ok (d', ch) ->
  (forall k, good_keep k -> proj k d' = proj k d) /\ (Forall nonempty d -> Forall nonempty d').
Proof.
  unfold merge_once. intros H. inv_bind H.
  assert (H1 : (forall k, good_keep k -> proj k v = proj k (d ++ [(EQUAL, [])])) /\
               (NEL (d ++ [(EQUAL, [])]) -> NEL v)).
  { revert E. apply (loop_inv (inv1 (d ++ [(EQUAL, [])]))
                              (fun v => (forall k, good_keep k -> proj k v = proj k (d ++ [(EQUAL, [])])) /\
                                        (NEL (d ++ [(EQUAL, [])]) -> NEL v))).
    - apply inv1_step.
    - apply inv1_exit.
    - exists [], [], (d ++ [(EQUAL, [])]). cbn [app]. change (zlen (@nil seg)) with 0.
      repeat split; auto; try lia; try (now left); try (intros k Hk; unfold sel; now destruct (k DELETE)). }
  destruct H1 as [Hp1 Hn1].
  inv_bind H. destruct v0 as [ol tl].
  apply py_get_last_inv in E0 as (body & ->).
  inv_bind H as w Ew.
  assert (H2 : (forall k, good_keep k -> proj k w = proj k d) /\ (Forall nonempty d -> Forall nonempty w)).
  { destruct (str_eqb tl []) eqn:Etl.
    - apply str_eqb_eq in Etl. subst tl. rewrite py_pop_app in Ew. ok_inv. split.
      + intros k Hk. specialize (Hp1 k Hk). rewrite !proj_app, !proj_sing in Hp1.
        destruct (k ol), (k EQUAL); rewrite ?app_nil_r in Hp1; assumption.
      + intros H0. specialize (Hn1 (NEL_last _ _ H0)). eapply NEL_all; [eassumption|reflexivity].
    - apply str_eqb_neq in Etl. ok_inv. split.
      + intros k Hk. specialize (Hp1 k Hk). rewrite (proj_app _ d), proj_eq_sing, app_nil_r in Hp1; assumption.
      + intros H0. specialize (Hn1 (NEL_last _ _ H0)). destruct Hn1 as (b & e & Hb & Hn).
        apply app_inj_tail in Hb as [-> Hb]. apply Forall_app. split; [assumption|].
        repeat constructor. exact Etl. }
  destruct H2 as [Hp2 Hn2].
  revert H.
  apply (loop_inv (inv2 w) (fun r : list seg * bool => let '(d', _) := r in
            (forall k, good_keep k -> proj k d' = proj k d) /\ (Forall nonempty d -> Forall nonempty d'))).
  - apply inv2_step.
  - intros s [dd cc] Hi Hs. destruct (inv2_exit _ _ _ _ Hi Hs) as [Ha Hb]. split.
    + intros k Hk. rewrite (Ha k Hk). auto.
    + auto.
  - repeat split; auto; lia.
Qed.

Lemma cleanupMerge_f_spec fuel d d' : cleanupMerge_f fuel d = Ok d' ->
  (forall k, good_keep k -> proj k d' = proj k d) /\ (Forall nonempty d -> Forall nonempty d').
Proof.
  revert d. induction fuel as [|f IH]; intros d H; cbn in H; [discriminate|].
  inv_bind H. destruct v as [d1 ch].
  apply merge_once_spec in E as [Hp Hn].
  destruct ch.
  - apply IH in H as [Hp' Hn']. split.
    + intros k Hk. now rewrite (Hp' k Hk), (Hp k Hk).
    + auto.
  - ok_inv. split; assumption.
Qed.

Theorem cleanupMerge_spec d d' : cleanupMerge d = Ok d' ->
  (forall k, good_keep k -> proj k d' = proj k d) /\ (Forall nonempty d -> Forall nonempty d').
Proof. apply cleanupMerge_f_spec. Qed.
