(* diff_bisect, part 5: the model's search ([bisect_core]) returns without error, and a split
   point it reports lies in the grid and is not one of its corners: [bisect_safe]. *)
From Coq Require Import List ZArith NArith Bool Lia.
Import ListNotations.
Require Import XV.DMP XV.DMPBase XV.DMPCommon XV.DMPBisect1 XV.DMPBisect2 XV.DMPBisect3 XV.DMPBisect4
               XV.DMPTotalMain.
Local Open Scope Z_scope.

(* ------------------------------------------------------------------ *)
(** * first / last characters *)

Lemma M1_head t1 t2 : 1 <= zlen t1 -> 1 <= zlen t2 -> nohead t1 t2 -> M1 t1 t2 0 0 = false.
Proof.
  intros H1 H2 Hh. destruct t1 as [|x t1]; [cbn in H1; lia|]. destruct t2 as [|y t2]; [cbn in H2; lia|].
  cbn in Hh. unfold M1, nthZ. cbn. now apply N.eqb_neq.
Qed.

Lemma nth_last {A} (d : A) (l : list A) x : nth (length l) (l ++ [x]) d = x.
Proof. rewrite app_nth2 by lia. now rewrite Nat.sub_diag. Qed.

Lemma M1_last t1 t2 : 1 <= zlen t1 -> 1 <= zlen t2 -> nolast t1 t2 ->
  M1 t1 t2 (zlen t1 - 1) (zlen t2 - 1) = false.
Proof.
  intros H1 H2 Hl. unfold nolast in Hl.
  destruct (rev t1) as [|x r1] eqn:E1.
  { apply (f_equal (@length _)) in E1. rewrite rev_length in E1. unfold zlen in H1. cbn in E1. lia. }
  destruct (rev t2) as [|y r2] eqn:E2.
  { apply (f_equal (@length _)) in E2. rewrite rev_length in E2. unfold zlen in H2. cbn in E2. lia. }
  cbn in Hl.
  assert (T1 : t1 = rev r1 ++ [x]) by (rewrite <- (rev_involutive t1), E1; reflexivity).
  assert (T2 : t2 = rev r2 ++ [y]) by (rewrite <- (rev_involutive t2), E2; reflexivity).
  unfold M1, nthZ. rewrite T1, T2. unfold zlen. rewrite !app_length. cbn [length].
  replace (Z.to_nat (Z.of_nat (length (rev r1) + 1) - 1)) with (length (rev r1)) by lia.
  replace (Z.to_nat (Z.of_nat (length (rev r2) + 1) - 1)) with (length (rev r2)) by lia.
  rewrite !nth_last. now apply N.eqb_neq.
Qed.

(* ------------------------------------------------------------------ *)
(** * depth 0 *)

Definition f_init (k : Z) : Z := if k =? 1 then 0 else -1.
Definition f00 : Z -> Z := upd f_init 0 0.

Section Depth0.
  Variables n1 n2 : Z.
  Variable M : Z -> Z -> bool.
  Variable delta : Z.
  Hypothesis Hn1 : 2 <= n1.
  Hypothesis Hn2 : 2 <= n2.
  Hypothesis HM0 : M 0 0 = false.

  Lemma newval_0 : newval n1 n2 M f_init 0 0 = 0.
  Proof.
    unfold newval. change (pickx f_init 0 0) with 0. unfold snake.
    replace (Z.to_nat (n1 - 0)) with (S (Z.to_nat (n1 - 1))) by lia.
    cbn [snk]. unfold scond. change (0 - 0) with 0. rewrite HM0.
    now rewrite !andb_false_r.
  Qed.

  Lemma hbody_0 off vlen chk g : g delta = -1 \/ g delta = 0 ->
    hbody n1 n2 M delta off vlen chk g 0 0 f_init 0 0 = HCont f00 0 0.
  Proof.
    intros Hg.
    destruct (hbody_cases n1 n2 M delta off vlen chk g 0 0 f_init 0 0) as [(E & H1)|[(E & H1 & H2)|[(E & H1 & H2 & H3)|(E & H1 & H2 & H3)]]];
      rewrite newval_0 in *.
    - lia.
    - lia.
    - exact E.
    - destruct H3 as (_ & _ & G1 & G2). replace (delta - 0) with delta in * by lia. lia.
  Qed.

  Lemma HI_0 : HI n1 n2 M delta 0 f00 0 0 0 0 0 0.
  Proof.
    assert (F0 : f00 0 = 0) by reflexivity.
    assert (Fk : forall k, k <> 0 -> f00 k = f_init k) by (intros k Hk; unfold f00; now rewrite upd_other).
    split; try lia.
    - exists 0, 0, 0, 0. lia.
    - intros k Hk. assert (k = 0) by lia. subst. rewrite F0. lia.
    - intros k Hk. rewrite Fk by lia. unfold f_init. destruct (k =? 1) eqn:E; bz; [right; lia|left; reflexivity].
    - intros k Hk. assert (k = 0) by lia. subst. rewrite F0. unfold scond. change (0 - 0) with 0. rewrite HM0.
      now rewrite !andb_false_r.
    - intros k Hk. assert (k = 0) by lia. subst. rewrite F0. lia.
    - intros k Hk. assert (k = 0) by lia. subst. rewrite F0. lia.
    - intros k Hk. assert (k = 0) by lia. subst. rewrite F0. lia.
    - intros k Hk. assert (k = 0) by lia. subst. rewrite F0. lia.
    - intros k Hk. assert (k = 0) by lia. subst. rewrite F0. lia.
  Qed.
End Depth0.

(* ------------------------------------------------------------------ *)
(** * the two k-loops of the model compute [hiter (hbody ..)] *)

Section Main.
  Variables t1 t2 : str.
  Let n1 := zlen t1.
  Let n2 := zlen t2.
  Let max_d := (n1 + n2 + 1) / 2.
  Let delta := n1 - n2.
  Hypothesis Hn1 : 2 <= n1.
  Hypothesis Hn2 : 2 <= n2.
  Hypothesis Hh : nohead t1 t2.
  Hypothesis Hl : nolast t1 t2.

  Lemma max_d_ge : 2 <= max_d /\ n1 + n2 <= 2 * max_d <= n1 + n2 + 1.
  Proof. unfold max_d. Local Ltac Zify.zify_post_hook ::= Z.div_mod_to_equations. lia. Qed.

  Section RunLoop.
    Variables (D : Z) (f : Z -> Z) (s e sp ep L H : Z) (M : Z -> Z -> bool) (chk : bool) (g : Z -> Z).
    Hypothesis I : HI n1 n2 M delta D f s e sp ep L H.
    Hypothesis HD : D + 1 <= max_d - 1.
    Let d := D + 1.
    Let lo := - d + s.
    Let hi := d - e.

    Definition LInv (k : Z) (f' : Z -> Z) (s' e' : Z) : Prop :=
      exists j, 0 <= j /\ k = lo + 2 * j /\ Cur n1 n2 M delta max_d (2 * max_d) chk g d lo f s e j f' s' e'.

    Lemma LInv_pre k f' s' e' : LInv k f' s' e' -> k < hi + 1 ->
      pick_ok max_d (2 * max_d) d k /\ 0 <= pickx f' d k /\ 0 <= pickx f' d k - k.
    Proof.
      intros (j & Hj & -> & C) Hk.
      pose proof max_d_ge as Hm.
      destruct (hi_se _ _ _ _ _ _ _ _ _ _ _ _ I) as (S1 & S2). pose proof (hi_D _ _ _ _ _ _ _ _ _ _ _ _ I) as HD0.
      assert (Ep : pickx f' d (lo + 2 * j) = pickx f d (lo + 2 * j)).
      { apply pickx_ext; apply (cur_old _ _ _ _ _ _ _ _ _ _ _ _ _ _ _ _ _ C); intros i Hi; lia. }
      rewrite Ep.
      destruct (pick_valid n1 n2 M delta D f s e sp ep L H I j Hj ltac:(fold d lo hi; lia)) as (V1 & V2 & _).
      fold d lo in V1, V2.
      split; [|split; assumption].
      unfold pick_ok, hi, lo, d in *. lia.
    Qed.

    Lemma LInv_step k f' s' e' f'' s'' e'' : LInv k f' s' e' ->
      hbody n1 n2 M delta max_d (2 * max_d) chk g d k f' s' e' = HCont f'' s'' e'' -> LInv (k + 2) f'' s'' e''.
    Proof.
      intros (j & Hj & -> & C) Hb. exists (j + 1). split; [lia|]. split; [lia|].
      now apply (Cur_step n1 n2 M delta max_d (2 * max_d) chk g d lo f s e j f' s' e').
    Qed.

    Lemma loop_count : exists N, 0 <= N /\ 2 * N = hi - lo + 2 /\
      Z.to_nat ((d + 1 - e - (- d + s) + 1) / 2) = Z.to_nat N.
    Proof.
      destruct (hi_even _ _ _ _ _ _ _ _ _ _ _ _ I) as (a & b & c & c' & Ea & Eb & Ec & Ec').
      pose proof (hi_range _ _ _ _ _ _ _ _ _ _ _ _ I) as Hr.
      exists (d + 1 - a - b). unfold hi, lo, d in *. repeat split; lia.
    Qed.
  End RunLoop.

  Notation chk1 := (negb (delta mod 2 =? 0)).
  Notation chk2 := (delta mod 2 =? 0).

  Lemma run_k1 D f s e sp ep L H g v v2 :
    HI n1 n2 (M1 t1 t2) delta D f s e sp ep L H -> D + 1 <= max_d - 1 ->
    repr max_d v f -> zlen v = 2 * max_d -> repr max_d v2 g -> zlen v2 = 2 * max_d ->
    exists N, 0 <= N /\ 2 * N = (D + 1 - e) - (- (D + 1) + s) + 2 /\
    exists r, for_loop (range2 (- (D + 1) + s) (D + 1 + 1 - e)) (k1_body t1 t2 v2 (D + 1)) (v, s, e) = Ok r /\
      match hiter (hbody n1 n2 (M1 t1 t2) delta max_d (2 * max_d) chk1 g (D + 1)) (Z.to_nat N) (- (D + 1) + s) f s e with
      | HCont f' s' e' => exists v', r = inl (v', s', e') /\ repr max_d v' f' /\ zlen v' = 2 * max_d
      | HHit x y kk xo => r = inr (x, y)
      end.
  Proof.
    intros I HD Hr Hlen Hr2 Hlen2.
    destruct (loop_count D f s e sp ep L H (M1 t1 t2) g I) as (N & HN0 & HN & HNn).
    exists N. split; [assumption|]. split; [assumption|].
    rewrite range2_unfold, HNn.
    apply (phase_refine_b (k1_body t1 t2 v2 (D + 1))
             (hbody n1 n2 (M1 t1 t2) delta max_d (2 * max_d) chk1 g (D + 1)) (fun x y _ _ => (x, y))
             max_d (2 * max_d) (D + 1 - e + 1)
             (LInv D f s e (M1 t1 t2) chk1 g)).
    - intros k v' f' s' e' Hi Hk Hr' Hl'.
      destruct (LInv_pre D f s e sp ep L H (M1 t1 t2) chk1 g I HD k f' s' e' Hi Hk) as (P1 & P2 & P3).
      exact (k1_body_refine t1 t2 v2 g (D + 1) k v' f' s' e' Hr' Hl' Hr2 Hlen2 P1 P2 P3).
    - intros k f' s' e' f'' s'' e'' Hi _ Hb. eapply LInv_step; eassumption.
    - exists 0. split; [lia|]. split; [lia|]. apply Cur_0.
    - lia.
    - assumption.
    - assumption.
  Qed.

  Lemma run_k2 D f s e sp ep L H g v v1 :
    HI n1 n2 (M2 t1 t2) delta D f s e sp ep L H -> D + 1 <= max_d - 1 ->
    repr max_d v f -> zlen v = 2 * max_d -> repr max_d v1 g -> zlen v1 = 2 * max_d ->
    exists N, 0 <= N /\ 2 * N = (D + 1 - e) - (- (D + 1) + s) + 2 /\
    exists r, for_loop (range2 (- (D + 1) + s) (D + 1 + 1 - e)) (k2_body t1 t2 v1 (D + 1)) (v, s, e) = Ok r /\
      match hiter (hbody n1 n2 (M2 t1 t2) delta max_d (2 * max_d) chk2 g (D + 1)) (Z.to_nat N) (- (D + 1) + s) f s e with
      | HCont f' s' e' => exists v', r = inl (v', s', e') /\ repr max_d v' f' /\ zlen v' = 2 * max_d
      | HHit x y kk xo => r = inr (xo, xo - kk)
      end.
  Proof.
    intros I HD Hr Hlen Hr2 Hlen2.
    destruct (loop_count D f s e sp ep L H (M2 t1 t2) g I) as (N & HN0 & HN & HNn).
    exists N. split; [assumption|]. split; [assumption|].
    rewrite range2_unfold, HNn.
    apply (phase_refine_b (k2_body t1 t2 v1 (D + 1))
             (hbody n1 n2 (M2 t1 t2) delta max_d (2 * max_d) chk2 g (D + 1)) (fun _ _ kk xo => (xo, xo - kk))
             max_d (2 * max_d) (D + 1 - e + 1)
             (LInv D f s e (M2 t1 t2) chk2 g)).
    - intros k v' f' s' e' Hi Hk Hr' Hl'.
      destruct (LInv_pre D f s e sp ep L H (M2 t1 t2) chk2 g I HD k f' s' e' Hi Hk) as (P1 & P2 & P3).
      exact (k2_body_refine t1 t2 v1 g (D + 1) k v' f' s' e' Hr' Hl' Hr2 Hlen2 P1 P2 P3).
    - intros k f' s' e' f'' s'' e'' Hi _ Hb. eapply LInv_step; eassumption.
    - exists 0. split; [lia|]. split; [lia|]. apply Cur_0.
    - lia.
    - assumption.
    - assumption.
  Qed.

  (* ---------------------------------------------------------------- *)
  (** * the d-loop *)

  Lemma HM1_0 : M1 t1 t2 0 0 = false.
  Proof. apply M1_head; fold n1 n2; try lia. assumption. Qed.
  Lemma HM1_c : M1 t1 t2 (n1 - 1) (n2 - 1) = false.
  Proof. apply M1_last; fold n1 n2; try lia. assumption. Qed.
  Lemma HM2_0 : M2 t1 t2 0 0 = false.
  Proof. unfold M2. fold n1 n2. replace (n1 - 1 - 0) with (n1 - 1) by lia. replace (n2 - 1 - 0) with (n2 - 1) by lia. exact HM1_c. Qed.
  Lemma HM2_c : M2 t1 t2 (n1 - 1) (n2 - 1) = false.
  Proof. unfold M2. fold n1 n2. replace (n1 - 1 - (n1 - 1)) with 0 by lia. replace (n2 - 1 - (n2 - 1)) with 0 by lia. exact HM1_0. Qed.
  Lemma Hsym_e : forall x y, M2 t1 t2 x y = M1 t1 t2 (n1 - 1 - x) (n2 - 1 - y).
  Proof. reflexivity. Qed.
  Lemma Hsym_o : forall x y, M1 t1 t2 x y = M2 t1 t2 (n1 - 1 - x) (n2 - 1 - y).
  Proof. intros x y. unfold M2. fold n1 n2. f_equal; lia. Qed.

  Definition good (r : kres) : Prop :=
    match r with
    | KFound x y => 0 <= x <= n1 /\ 0 <= y <= n2 /\ 0 < x + y < n1 + n2
    | KNone => True
    end.

  Definition DInv (d : Z) (v1 v2 : list Z) (s1 e1 s2 e2 : Z) : Prop :=
    exists D f1 f2 sp1 ep1 L1 H1 sp2 ep2 L2 H2 LO0 HO0,
      d = D + 1 /\ D + 1 <= max_d /\
      repr max_d v1 f1 /\ zlen v1 = 2 * max_d /\ repr max_d v2 f2 /\ zlen v2 = 2 * max_d /\
      if chk2
      then Qinv n1 n2 delta (M1 t1 t2) (M2 t1 t2) D f1 s1 e1 sp1 ep1 L1 H1 D f2 s2 e2 sp2 ep2 L2 H2
      else Minv n1 n2 delta (M2 t1 t2) (M1 t1 t2) D f2 s2 e2 sp2 ep2 L2 H2 D f1 s1 e1 sp1 ep1 L1 H1 LO0 HO0.

  Lemma d_step_ok clock d v1 v2 s1 e1 s2 e2 tick : DInv d v1 v2 s1 e1 s2 e2 ->
    exists r, d_step t1 t2 clock (d, v1, v2, s1, e1, s2, e2, tick) = Ok r /\
      match r with
      | inl (d', v1', v2', s1', e1', s2', e2', _) => d' = d + 1 /\ DInv d' v1' v2' s1' e1' s2' e2'
      | inr (res, _) => good res
      end.
  Proof.
    intros (D & f1 & f2 & sp1 & ep1 & L1 & H1 & sp2 & ep2 & L2 & H2 & LO0 & HO0 & -> & HD & R1 & Z1 & R2 & Z2 & Hinv).
    unfold d_step. cbv zeta. fold n1 n2. fold max_d. fold delta.
    destruct (D + 1 <? max_d) eqn:Ed; cbn [negb]; [|eexists; split; [reflexivity|exact I]].
    bz.
    destruct (clock tick); [eexists; split; [reflexivity|exact I]|].
    destruct chk2 eqn:Ec.
    - (* even: the front half goes first and does not test *)
      rename Hinv into QI.
      destruct (run_k1 D f1 s1 e1 sp1 ep1 L1 H1 f2 v1 v2 (q_O _ _ _ _ _ _ _ _ _ _ _ _ _ _ _ _ _ _ _ _ _ QI) ltac:(lia) R1 Z1 R2 Z2)
        as (N1 & HN10 & HN1 & r1 & E1 & Hm1).
      rewrite E1. cbn [bind].
      pose proof (O_phase n1 n2 delta eq_refl (M1 t1 t2) (M2 t1 t2) Hsym_e HM1_c _ _ _ _ _ _ _ _ _ _ _ _ _ _ _ _ QI
                    max_d (2 * max_d) f2 N1 HN1 HN10) as HO.
      rewrite Ec in Hm1. cbn [negb] in Hm1.
      destruct (hiter (hbody n1 n2 (M1 t1 t2) delta max_d (2 * max_d) false f2 (D + 1)) (Z.to_nat N1) (- (D + 1) + s1) f1 s1 e1)
        as [f1' s1' e1'|x y kk xo]; [|contradiction].
      destruct Hm1 as (v1' & -> & R1' & Z1').
      destruct (run_k2 D f2 s2 e2 sp2 ep2 L2 H2 f1' v2 v1' (q_C _ _ _ _ _ _ _ _ _ _ _ _ _ _ _ _ _ _ _ _ _ QI) ltac:(lia) R2 Z2 R1' Z1')
        as (N2 & HN20 & HN2 & r2 & E2 & Hm2).
      rewrite E2. cbn [bind].
      pose proof (C_phase n1 n2 delta eq_refl (M1 t1 t2) (M2 t1 t2) Hsym_e HM1_0 _ _ _ _ _ _ _ _ _ _ _ _ _ _ _ _ _ _ HO
                    max_d (2 * max_d) ltac:(lia) N2 HN2 HN20) as HC.
      rewrite Ec in Hm2.
      destruct (hiter (hbody n1 n2 (M2 t1 t2) delta max_d (2 * max_d) true f1' (D + 1)) (Z.to_nat N2) (- (D + 1) + s2) f2 s2 e2)
        as [f2' s2' e2'|x y kk xo].
      + destruct Hm2 as (v2' & -> & R2' & Z2').
        eexists; split; [reflexivity|]. split; [reflexivity|].
        exists (D + 1), f1', f2', s1, e1, (Z.min L1 (- (D + 1) + s1)), (Z.max H1 (D + 1 - e1)),
               s2, e2, (Z.min L2 (- (D + 1) + s2)), (Z.max H2 (D + 1 - e2)), 0, 0.
        repeat split; try assumption; try lia. rewrite Ec. exact HC.
      + subst r2. eexists; split; [reflexivity|]. destruct HC as (_ & (G1 & G2 & G3)). cbn. lia.
    - (* odd: the front half goes first and tests *)
      rename Hinv into MI.
      destruct (run_k1 D f1 s1 e1 sp1 ep1 L1 H1 f2 v1 v2 (m_C _ _ _ _ _ _ _ _ _ _ _ _ _ _ _ _ _ _ _ _ _ _ _ MI) ltac:(lia) R1 Z1 R2 Z2)
        as (N1 & HN10 & HN1 & r1 & E1 & Hm1).
      rewrite E1. cbn [bind].
      pose proof (C_phase n1 n2 delta eq_refl (M2 t1 t2) (M1 t1 t2) Hsym_o HM2_0 _ _ _ _ _ _ _ _ _ _ _ _ _ _ _ _ _ _ MI
                    max_d (2 * max_d) ltac:(lia) N1 HN1 HN10) as HC.
      rewrite Ec in Hm1. cbn [negb] in Hm1.
      destruct (hiter (hbody n1 n2 (M1 t1 t2) delta max_d (2 * max_d) true f2 (D + 1)) (Z.to_nat N1) (- (D + 1) + s1) f1 s1 e1)
        as [f1' s1' e1'|x y kk xo].
      + destruct Hm1 as (v1' & -> & R1' & Z1').
        destruct (run_k2 D f2 s2 e2 sp2 ep2 L2 H2 f1' v2 v1' (q_O _ _ _ _ _ _ _ _ _ _ _ _ _ _ _ _ _ _ _ _ _ HC) ltac:(lia) R2 Z2 R1' Z1')
          as (N2 & HN20 & HN2 & r2 & E2 & Hm2).
        rewrite E2. cbn [bind].
        pose proof (O_phase n1 n2 delta eq_refl (M2 t1 t2) (M1 t1 t2) Hsym_o HM2_c _ _ _ _ _ _ _ _ _ _ _ _ _ _ _ _ HC
                      max_d (2 * max_d) f1' N2 HN2 HN20) as HO.
        rewrite Ec in Hm2.
        destruct (hiter (hbody n1 n2 (M2 t1 t2) delta max_d (2 * max_d) false f1' (D + 1)) (Z.to_nat N2) (- (D + 1) + s2) f2 s2 e2)
          as [f2' s2' e2'|x y kk xo]; [|contradiction].
        destruct Hm2 as (v2' & -> & R2' & Z2').
        eexists; split; [reflexivity|]. split; [reflexivity|].
        exists (D + 1), f1', f2', s1, e1, (Z.min L1 (- (D + 1) + s1)), (Z.max H1 (D + 1 - e1)),
               s2, e2, (Z.min L2 (- (D + 1) + s2)), (Z.max H2 (D + 1 - e2)), L2, H2.
        repeat split; try assumption; try lia. rewrite Ec. exact HO.
      + subst r1. eexists; split; [reflexivity|]. destruct HC as ((G1 & G2 & G3) & _). cbn. lia.
  Qed.

  (* ---------------------------------------------------------------- *)
  (** * the first iteration, and the whole search *)

  Lemma f00_delta : f00 delta = -1 \/ f00 delta = 0.
  Proof.
    unfold f00, upd, f_init. destruct (delta =? 0); [now right|]. destruct (delta =? 1); [now right|now left].
  Qed.
  Lemma f_init_delta : f_init delta = -1 \/ f_init delta = 0.
  Proof. unfold f_init. destruct (delta =? 1); [now right|now left]. Qed.

  Lemma DInv_1 v1 v2 : repr max_d v1 f00 -> zlen v1 = 2 * max_d -> repr max_d v2 f00 -> zlen v2 = 2 * max_d ->
    DInv 1 v1 v2 0 0 0 0.
  Proof.
    intros R1 Z1 R2 Z2. pose proof max_d_ge as Hm.
    exists 0, f00, f00, 0, 0, 0, 0, 0, 0, 0, 0, 0, 0.
    repeat split; try assumption; try lia.
    assert (F0 : f00 0 = 0) by reflexivity.
    destruct chk2 eqn:Ec.
    - bz. split.
      + apply HI_0; [assumption|assumption|exact HM1_0].
      + apply HI_0; [assumption|assumption|exact HM2_0].
      + exists (delta / 2). lia.
      + intros a b Wa Wb _. assert (a = 0) by lia. assert (b = 0) by lia. subst. rewrite F0. unfold Sep. lia.
    - bz. split.
      + apply HI_0; [assumption|assumption|exact HM2_0].
      + apply HI_0; [assumption|assumption|exact HM1_0].
      + exists (delta / 2). lia.
      + lia.
      + intros a Wa Wb. assert (a = 0) by lia. subst. replace (delta - 0) with 0 by lia. rewrite F0. unfold Sep. lia.
      + intros a b Wa Wb _ _. assert (a = 0) by lia. assert (b = 0) by lia. subst. rewrite F0. unfold Sep. lia.
      + intros b Wb Ht. assert (b = 0) by lia. subst. rewrite F0 in Ht. lia.
      + lia.
      + lia.
  Qed.

  Lemma step0 clock v tick : repr max_d v f_init -> zlen v = 2 * max_d ->
    exists r, d_step t1 t2 clock (0, v, v, 0, 0, 0, 0, tick) = Ok r /\
      match r with
      | inl (d', v1', v2', s1', e1', s2', e2', _) => d' = 1 /\ DInv d' v1' v2' s1' e1' s2' e2'
      | inr (res, _) => res = KNone
      end.
  Proof.
    intros R Zl. pose proof max_d_ge as Hm.
    unfold d_step. cbv zeta. fold n1 n2. fold max_d. fold delta.
    destruct (0 <? max_d) eqn:Ed; [|bz; lia]. cbn [negb].
    destruct (clock tick); [eexists; split; [reflexivity|reflexivity]|].
    assert (Hr2 : range2 (- 0 + 0) (0 + 1 - 0) = [0]) by reflexivity.
    rewrite Hr2. cbn [for_loop].
    assert (Pk : pick_ok max_d (2 * max_d) 0 0) by (unfold pick_ok; lia).
    destruct (k1_body_refine t1 t2 v f_init 0 0 v f_init 0 0 R Zl R Zl Pk ltac:(cbn; lia) ltac:(cbn; lia)) as (r1 & E1 & Hm1).
    fold n1 n2 in Hm1. fold max_d in Hm1. fold delta in Hm1.
    rewrite (hbody_0 n1 n2 (M1 t1 t2) delta Hn1 Hn2 HM1_0 max_d (2 * max_d) _ f_init f_init_delta) in Hm1.
    destruct Hm1 as (v1' & -> & R1' & Z1'). rewrite E1. cbn [bind].
    destruct (k2_body_refine t1 t2 v1' f00 0 0 v f_init 0 0 R Zl R1' Z1' Pk ltac:(cbn; lia) ltac:(cbn; lia)) as (r2 & E2 & Hm2).
    fold n1 n2 in Hm2. fold max_d in Hm2. fold delta in Hm2.
    rewrite (hbody_0 n1 n2 (M2 t1 t2) delta Hn1 Hn2 HM2_0 max_d (2 * max_d) _ f00 f00_delta) in Hm2.
    destruct Hm2 as (v2' & -> & R2' & Z2'). rewrite E2. cbn [bind].
    eexists; split; [reflexivity|]. split; [reflexivity|].
    now apply DInv_1.
  Qed.

  Lemma loop_ok clock fuel : forall d v1 v2 s1 e1 s2 e2 tick, DInv d v1 v2 s1 e1 s2 e2 ->
    (Z.to_nat (max_d - d) < fuel)%nat ->
    exists r tick', loop fuel (d_step t1 t2 clock) (d, v1, v2, s1, e1, s2, e2, tick) = Ok (r, tick') /\ good r.
  Proof.
    induction fuel as [|fuel IH]; intros d v1 v2 s1 e1 s2 e2 tick HI Hf; [lia|].
    cbn [loop].
    destruct (d_step_ok clock d v1 v2 s1 e1 s2 e2 tick HI) as (r & Er & Hr). rewrite Er.
    destruct r as [[[[[[[[d' v1'] v2'] s1'] e1'] s2'] e2'] tick']|[res tick']].
    - destruct Hr as (-> & HI').
      apply IH; [assumption|].
      destruct HI' as (D' & _ & _ & _ & _ & _ & _ & _ & _ & _ & _ & _ & _ & E' & B' & _). lia.
    - exists res, tick'. split; [reflexivity|assumption].
  Qed.

  Lemma repr_init : let v0 := repeat (-1) (Z.to_nat (2 * max_d)) in
    py_set v0 (max_d + 1) 0 = Ok (aset v0 (max_d + 1) 0) /\
    repr max_d (aset v0 (max_d + 1) 0) f_init /\ zlen (aset v0 (max_d + 1) 0) = 2 * max_d.
  Proof.
    intros v0. pose proof max_d_ge as Hm.
    assert (Z0 : zlen v0 = 2 * max_d) by (unfold v0, zlen; rewrite repeat_length; lia).
    split; [apply py_set_aset; lia|]. split; [|rewrite aset_len; lia].
    intros k Hk. rewrite aset_len in Hk by lia. rewrite aget_aset by lia.
    unfold f_init. destruct (max_d + k =? max_d + 1) eqn:E; bz.
    - replace k with 1 by lia. reflexivity.
    - destruct (k =? 1) eqn:E'; bz; [lia|].
      unfold aget, nthZ, v0. apply nth_repeat.
  Qed.

  Theorem bisect_core_safe clock tick :
    exists r tick', bisect_core t1 t2 clock tick = Ok (r, tick') /\ good r.
  Proof.
    pose proof max_d_ge as Hm.
    unfold bisect_core. cbv zeta. fold n1 n2. fold max_d.
    destruct repr_init as (E0 & R0 & Z0). rewrite E0. cbn [bind].
    replace (Z.to_nat (max_d + 1)) with (S (Z.to_nat max_d)) by lia. cbn [loop].
    destruct (step0 clock _ tick R0 Z0) as (r & Er & Hr). rewrite Er.
    destruct r as [[[[[[[[d' v1'] v2'] s1'] e1'] s2'] e2'] tick']|[res tick']].
    - destruct Hr as (-> & HI'). apply loop_ok; [assumption|lia].
    - subst res. exists KNone, tick'. split; [reflexivity|exact I].
  Qed.
End Main.

(* ------------------------------------------------------------------ *)
(** * the obligation of DMPTotalMain *)

Theorem bisect_safe_holds : bisect_safe.
Proof.
  intros text1 text2 clock tick H1 H2 Hh Hl _.
  destruct (bisect_core_safe text1 text2 H1 H2 Hh Hl clock tick) as (r & tick' & E & G).
  exists r, tick'. split; [exact E|]. destruct r; [exact G|exact I].
Qed.
Print Assumptions bisect_safe_holds.
