(* XmlFmtProofsT1 -- _make_diff_tags WITH text tags (use_replace = false), at the level of the string it writes:
   the FLATTENED readings.

   With text tags the text of a text-tag element is a string over the maker's placeholders: T_SINGLE placeholders stand
   for whole child elements, T_OPEN / T_CLOSE pairs for the start and the end of formatting elements.  The FLATTENED
   content of such a string ([flat0]) is the sequence of its characters and of its T_SINGLE elements ("atoms"), the
   T_OPEN / T_CLOSE placeholders ERASED: this is what "up to where formatting elements begin and end" means here --
   nothing is claimed about where formatting elements start and stop, and nothing about their attributes or marks.
   The string _make_diff_tags writes is read flattened in two ways ([fl true] = every marked change accepted,
   [fl false] = rejected): a diff:delete / diff:insert group is skipped or kept, a T_SINGLE placeholder whose element
   carries diff:delete(-formatting) / diff:insert(-formatting) is dropped or kept (marks removed: [unmark]).

   * [realign_chars]   what _realign_placeholders returns is made of single classified characters (of the input, or
                       the close placeholder of an OPEN character of the input) and of unclassified texts of the input;
   * [mdt_loop_flat]   the marking loop, one segment at a time;
   * [text_update_flat]  make_diff_tags c o s left right false = FOk (s', x, _)  ->
                       fl true s' x = flat0 s (new text)  /\  fl false s' x = flat0 s (old text).
   Premises (all on the maker and the two strings; they hold for what prepare() builds from documents without
   private-use characters, without elements named diff:insert/delete and without diff: attributes -- this is NOT proved
   here): see [pinv], [txt_ok].
   NOT covered: the tree level (finalize = undo_tree with nested formatting elements and the projections of the result),
   use_replace with text tags (open finding), tails (in_tail = true: marked placeholders are dropped by the code; the
   tails of formatter-built trees contain no placeholders).
   No axioms. *)
From Coq Require Import List NArith ZArith Bool Arith Lia.
Import ListNotations.
Require Import XV.Str XV.Json XV.TextFormat XV.Forest XV.Matcher XV.Differ XV.Path XV.WF XV.AttrProofs XV.XmlFmt XV.Projections
               XV.XmlFmtProofs1 XV.XmlFmtProofs2 XV.XmlFmtProofsR2.
Require XV.Placeholder XV.PlaceholderProofs XV.PlaceholderRound XV.PlaceholderUndo XV.PlaceholderFinal.
Require XV.DMP XV.DMPBase XV.DMPMain XV.DMPSemantic XV.DMPRealign.
Local Open Scope N_scope.

(* ------------------------------------------------------------------ *)
(** * Characters *)

Section Chars.
Variable P : N -> Prop.
Hypothesis P32 : P 32.

Lemma cleanup_ws_all x : forall b, Forall P x -> Forall P (cleanup_ws_aux b x).
Proof.
  induction x as [|c r IH]; intros b H; cbn [cleanup_ws_aux]; [exact H|].
  apply Forall_cons_iff in H as [Hc Hr].
  destruct (is_space c); [destruct b|]; try (constructor; [first [exact P32|exact Hc]|]); auto.
Qed.
Lemma lstrip_all x : Forall P x -> Forall P (lstrip x).
Proof.
  induction x as [|c r IH]; intros H; cbn [lstrip]; [exact H|].
  destruct (is_space c); [apply IH; apply Forall_cons_iff in H; tauto|exact H].
Qed.
Lemma rev_all x : Forall P x -> Forall P (rev x).
Proof. rewrite !Forall_forall. intros H c Hc. apply H. now apply in_rev. Qed.
Lemma norm_if_all c x : Forall P x -> Forall P (norm_if c x).
Proof.
  intros H. unfold norm_if. destruct (ws_text c); [|exact H].
  unfold normalize_text, Str.strip, rstrip, cleanup_whitespace.
  apply rev_all, lstrip_all, rev_all, lstrip_all, cleanup_ws_all, H.
Qed.
End Chars.

(* ------------------------------------------------------------------ *)
(** * What _realign_placeholders is made of *)

Section RealignChars.
Variable cls : DMP.cls_t.
Variable inp : N -> Prop.          (* the characters of the input *)

(* a segment text of the output *)
Definition rc_ok (t : str) : Prop :=
  (exists c, t = [c] /\ cls c <> None /\ (inp c \/ exists c0, inp c0 /\ cls c0 = Some (DMP.T_OPEN, Some c))) \/
  (Forall (fun c => inp c /\ cls c = None) t).
Definition stack_ok (st : DMP.rstack) : Prop :=
  Forall (fun e : DMP.op * option N => match snd e with
                                      | Some cl => exists c0, inp c0 /\ cls c0 = Some (DMP.T_OPEN, Some cl)
                                      | None => True end) st.
Hypothesis Hwf : DMP.wf_cls cls.

Lemma split_acc_chars text : Forall inp text -> forall cur, Forall (fun c => inp c /\ cls c = None) cur ->
  Forall (fun sg => (exists c, sg = [c] /\ cls c <> None /\ inp c) \/ Forall (fun c => inp c /\ cls c = None) sg)
         (DMP.split_acc cls text cur).
Proof.
  induction 1 as [|c r Hc _ IH]; intros cur Hcur; cbn [DMP.split_acc].
  - unfold DMP.flush. destruct cur; [constructor|]. constructor; [|constructor]. right. apply rev_all. exact Hcur.
  - destruct (cls c) as [e|] eqn:E.
    + apply Forall_app. split.
      * unfold DMP.flush. destruct cur; [constructor|]. constructor; [|constructor]. right. apply rev_all. exact Hcur.
      * constructor; [left; exists c; split; [reflexivity|split; [congruence|exact Hc]]|]. apply IH. constructor.
    + apply IH. constructor; auto.
Qed.

Lemma close_loop_chars c st nd r : DMP.close_loop c st nd = DMP.Ok r -> stack_ok st -> Forall (fun sg : DMP.seg => rc_ok (snd sg)) nd ->
  stack_ok (snd (fst r)) /\ Forall (fun sg : DMP.seg => rc_ok (snd sg)) (snd r).
Proof.
  revert nd. induction st as [|[sop cl] rest IH]; intros nd H Hst Hnd; cbn [DMP.close_loop] in H.
  - inversion H; subst. cbn. split; [constructor|exact Hnd].
  - apply Forall_cons_iff in Hst as [H1 H2]. cbn [snd] in H1. destruct cl as [clc|]; [|discriminate].
    destruct (N.eqb clc c).
    + inversion H; subst. cbn. auto.
    + apply (IH _ H H2). apply Forall_app. split; [exact Hnd|]. constructor; [|constructor]. cbn [snd].
      left. exists clc. split; [reflexivity|]. destruct H1 as (c0 & Hc0 & E0). split; [|right; eauto].
      pose proof (Hwf c0 clc E0) as W. unfold DMP.is_close in W. destruct (cls clc); [discriminate|discriminate].
Qed.

Lemma realign_seg_chars o sg nd st r :
  DMP.realign_seg cls o sg (nd, st) = DMP.Ok r ->
  ((exists c, sg = [c] /\ cls c <> None /\ inp c) \/ Forall (fun c => inp c /\ cls c = None) sg) ->
  stack_ok st -> Forall (fun s : DMP.seg => rc_ok (snd s)) nd ->
  stack_ok (snd r) /\ Forall (fun s : DMP.seg => rc_ok (snd s)) (fst r).
Proof.
  intros H Hsg Hst Hnd.
  assert (Hrc : rc_ok sg).
  { destruct Hsg as [(c & -> & N0 & I0)|F]; [left; exists c; auto|right; exact F]. }
  assert (Happ : Forall (fun s : DMP.seg => rc_ok (snd s)) (nd ++ [(o, sg)])).
  { apply Forall_app. split; [exact Hnd|]. constructor; [exact Hrc|constructor]. }
  unfold DMP.realign_seg in H. destruct sg as [|c [|c' rr]]; try solve [inversion H; subst; cbn; auto].
  destruct (cls c) as [[ty cl]|] eqn:E; [|inversion H; subst; cbn; auto].
  destruct ty.
  - inversion H; subst. cbn [fst snd]. split; [|exact Happ]. constructor; [|exact Hst]. cbn [snd].
    destruct cl as [clc|]; [|exact I]. exists c. split; [|exact E].
    destruct Hsg as [(c1 & E1 & _ & I1)|F]; [inversion E1; subst; exact I1|].
    apply Forall_cons_iff in F as [[_ F] _]. congruence.
  - destruct (DMP.close_loop c st nd) as [[[sop st'] nd']|e] eqn:Ec; cbn [DMP.bind] in H; [|discriminate].
    destruct (close_loop_chars c st nd _ Ec Hst Hnd) as [S1 N1]. cbn [fst snd] in S1, N1.
    destruct sop as [so|]; [|inversion H; subst; cbn; auto].
    destruct (Z.leb (DMP.op_code so) (DMP.op_code o)); [|discriminate]. inversion H; subst. cbn [fst snd].
    split; [exact S1|]. apply Forall_app. split; [exact N1|]. constructor; [exact Hrc|constructor].
  - inversion H; subst. cbn. auto.
Qed.

Lemma realign_segs_chars o sgs : forall nd st r,
  DMP.realign_segs cls o sgs (nd, st) = DMP.Ok r ->
  Forall (fun sg => (exists c, sg = [c] /\ cls c <> None /\ inp c) \/ Forall (fun c => inp c /\ cls c = None) sg) sgs ->
  stack_ok st -> Forall (fun s : DMP.seg => rc_ok (snd s)) nd ->
  stack_ok (snd r) /\ Forall (fun s : DMP.seg => rc_ok (snd s)) (fst r).
Proof.
  induction sgs as [|sg sgs IH]; intros nd st r H F Hst Hnd; cbn [DMP.realign_segs] in H.
  - inversion H; subst. cbn. auto.
  - apply Forall_cons_iff in F as [F1 F2].
    destruct (DMP.realign_seg cls o sg (nd, st)) as [[nd1 st1]|e] eqn:E1; cbn [DMP.bind] in H; [|discriminate].
    destruct (realign_seg_chars o sg nd st _ E1 F1 Hst Hnd) as [S1 N1]. cbn [fst snd] in S1, N1.
    apply (IH nd1 st1 r H F2 S1 N1).
Qed.

Lemma realign_loop_chars d : forall nd st r,
  DMP.realign_loop cls d (nd, st) = DMP.Ok r ->
  Forall (fun s : DMP.seg => Forall inp (snd s)) d ->
  stack_ok st -> Forall (fun s : DMP.seg => rc_ok (snd s)) nd ->
  Forall (fun s : DMP.seg => rc_ok (snd s)) (fst r).
Proof.
  induction d as [|[o t] d IH]; intros nd st r H F Hst Hnd; cbn [DMP.realign_loop] in H.
  - inversion H; subst. exact Hnd.
  - apply Forall_cons_iff in F as [F1 F2]. cbn [snd] in F1.
    destruct (DMP.realign_segs cls o (DMP.split_string cls t) (nd, st)) as [[nd1 st1]|e] eqn:E1; cbn [DMP.bind] in H; [|discriminate].
    destruct (realign_segs_chars o _ nd st _ E1 (split_acc_chars t F1 [] ltac:(constructor)) Hst Hnd) as [S1 N1].
    cbn [fst snd] in S1, N1. apply (IH nd1 st1 r H F2 S1 N1).
Qed.

Theorem realign_chars d d' : DMP.realign cls d = DMP.Ok d' ->
  Forall (fun s : DMP.seg => Forall inp (snd s)) d -> Forall (fun s : DMP.seg => rc_ok (snd s)) d'.
Proof.
  unfold DMP.realign. intros H F.
  destruct (DMP.realign_loop cls d ([], [])) as [[nd st]|e] eqn:E; cbn [DMP.bind] in H; [|discriminate].
  inversion H; subst. apply (realign_loop_chars d [] [] _ E F); constructor.
Qed.
End RealignChars.

(* ------------------------------------------------------------------ *)
(** * Flattened readings *)

Notation TSingle := Placeholder.TSingle.
Notation TClose := Placeholder.TClose.
Notation ph_inv := PlaceholderProofs.ph_inv.
Notation seqb := Placeholder.str_eqb.

Definition K_ins : str := Placeholder.DIFF_NS_BRACED ++ Placeholder.s_insert.
Definition K_del : str := Placeholder.DIFF_NS_BRACED ++ Placeholder.s_delete.
Definition K_insf : str := Placeholder.DIFF_NS_BRACED ++ (Placeholder.s_insert ++ Placeholder.s_formatting).
Definition K_delf : str := Placeholder.DIFF_NS_BRACED ++ (Placeholder.s_delete ++ Placeholder.s_formatting).
Definition is_mark_key (k : str) : bool := seqb k K_ins || seqb k K_del || seqb k K_insf || seqb k K_delf.
Definition has_key (a : list (str * str)) (k : str) : bool := existsb (fun kv => seqb k (fst kv)) a.
Definition has_mark (a : list (str * str)) : bool := existsb (fun kv => is_mark_key (fst kv)) a.
(* the element goes when the marked changes are accepted (acc = true: it is marked deleted) / rejected (marked inserted) *)
Definition marked (acc : bool) (a : list (str * str)) : bool :=
  if acc then has_key a K_del || has_key a K_delf else has_key a K_ins || has_key a K_insf.
Definition unmark_attrs (a : list (str * str)) : list (str * str) := filter (fun kv => negb (is_mark_key (fst kv))) a.
Definition unmark (el : xtree) : xtree := Placeholder.with_attrs el (unmark_attrs (xattrs el)).

(* an atom of flattened content: a character, or a child element (as its table key, the four marks removed) *)
Inductive atom := AC (c : N) | AE (e : xtree).
Definition atom_of (el : xtree) : atom := AE (Placeholder.knorm (unmark el)).
Definition base4 : list N := [INS_O; INS_C; DEL_O; DEL_C].

Fixpoint fl (acc : bool) (s : pstate) (skip : bool) (x : str) : list atom :=
  match x with
  | [] => []
  | c :: r =>
      if N.eqb c (if acc then DEL_O else INS_O) then fl acc s true r
      else if N.eqb c (if acc then DEL_C else INS_C) then fl acc s false r
      else if existsb (N.eqb c) base4 then fl acc s skip r
      else match p2t_get (p2t s) c with
           | Some (el, Placeholder.TSingle, _) =>
               (if skip || marked acc (xattrs el) then [] else [atom_of el]) ++ fl acc s skip r
           | Some _ => fl acc s skip r
           | None => (if skip then [] else [AC c]) ++ fl acc s skip r
           end
  end.

Fixpoint flat0 (s : pstate) (x : str) : list atom :=
  match x with
  | [] => []
  | c :: r => match p2t_get (p2t s) c with
              | Some (el, Placeholder.TSingle, _) => atom_of el :: flat0 s r
              | Some _ => flat0 s r
              | None => AC c :: flat0 s r
              end
  end.

Lemma flat0_app s a b : flat0 s (a ++ b) = flat0 s a ++ flat0 s b.
Proof.
  induction a as [|c a IH]; [reflexivity|]. cbn [app flat0]. destruct (p2t_get (p2t s) c) as [[[el ty] cl]|]; [destruct ty|]; cbn [app]; now rewrite IH.
Qed.

Lemma flat0_filter s f y : (forall c, In c y -> f c = false -> flat0 s [c] = []) -> flat0 s (filter f y) = flat0 s y.
Proof.
  induction y as [|c y IH]; intros H; [reflexivity|]. cbn [filter].
  assert (IH' : flat0 s (filter f y) = flat0 s y) by (apply IH; intros; apply H; [now right|assumption]).
  change (c :: y) with ([c] ++ y). rewrite (flat0_app s [c] y). destruct (f c) eqn:E.
  - change (c :: filter f y) with ([c] ++ filter f y). now rewrite flat0_app, IH'.
  - rewrite (H c (or_introl eq_refl) E). exact IH'.
Qed.

(* ---- attribute lists ---- *)
Lemma seqb_eq a b : seqb a b = true -> a = b.
Proof. apply PlaceholderProofs.str_eqb_eq. Qed.

Lemma set_attr_unmark a k v : is_mark_key k = true -> unmark_attrs (Placeholder.set_attr a k v) = unmark_attrs a.
Proof.
  intros Hk. induction a as [|[k' v'] a IH]; cbn [Placeholder.set_attr unmark_attrs filter fst].
  - now rewrite Hk.
  - destruct (seqb k k') eqn:E.
    + apply seqb_eq in E. subst k'. cbn [filter fst]. now rewrite Hk.
    + cbn [filter fst]. unfold unmark_attrs in IH. now rewrite IH.
Qed.

Lemma has_key_set_same a k v : has_key (Placeholder.set_attr a k v) k = true.
Proof.
  induction a as [|[k' v'] a IH]; cbn [Placeholder.set_attr has_key existsb fst].
  - now rewrite PlaceholderProofs.str_eqb_refl.
  - destruct (seqb k k') eqn:E; cbn [existsb fst]; [now rewrite E|]. rewrite E. exact IH.
Qed.

Lemma has_key_set_other a k v k' : k' <> k -> has_key (Placeholder.set_attr a k v) k' = has_key a k'.
Proof.
  intros Hne. induction a as [|[k2 v2] a IH]; cbn [Placeholder.set_attr has_key existsb fst].
  - destruct (seqb k' k) eqn:E; [apply seqb_eq in E; congruence|reflexivity].
  - destruct (seqb k k2) eqn:E; cbn [existsb fst]; [reflexivity|]. unfold has_key in IH. now rewrite IH.
Qed.

Lemma has_mark_set a k v : is_mark_key k = true -> has_mark (Placeholder.set_attr a k v) = true.
Proof.
  intros Hk. induction a as [|[k' v'] a IH]; cbn [Placeholder.set_attr has_mark existsb fst].
  - now rewrite Hk.
  - destruct (seqb k k') eqn:E; cbn [existsb fst].
    + apply seqb_eq in E. subst k'. now rewrite Hk.
    + unfold has_mark in IH. rewrite IH. apply orb_true_r.
Qed.

Lemma set_attr_nonnil a k v : Placeholder.set_attr a k v <> [].
Proof. destruct a as [|[k' v'] a]; cbn; [discriminate|]. destruct (seqb k k'); discriminate. Qed.

Lemma knorm_with_attrs t a : Placeholder.knorm (Placeholder.with_attrs t a) = Placeholder.with_attrs (Placeholder.knorm t) a.
Proof. destruct t; reflexivity. Qed.
Lemma knorm_attrs t : xattrs (Placeholder.knorm t) = xattrs t.
Proof. destruct t; reflexivity. Qed.
Lemma knorm_unmark t : Placeholder.knorm (unmark t) = unmark (Placeholder.knorm t).
Proof. unfold unmark. now rewrite knorm_with_attrs, knorm_attrs. Qed.

(* ------------------------------------------------------------------ *)
(** * The maker with text tags *)

(* marked T_SINGLE keys hold the element they were filed with (mark_diff files the marked copy itself) *)
Definition minv (s : pstate) : Prop :=
  forall c e cl k, p2t_get (p2t s) c = Some (e, TSingle, cl) -> t2p_get (t2p s) (k, TSingle, cl) = Some c ->
                   has_mark (xattrs k) = true -> Placeholder.knorm e = k.
(* the keys of the four wrapper placeholders are attribute-free elements, and they are below the counter *)
Definition binv (s : pstate) : Prop :=
  (forall k ty cl c, t2p_get (t2p s) (k, ty, cl) = Some c -> In c base4 -> xattrs k = []) /\ 57348 <= ctr s.
Definition pinv (s : pstate) : Prop := ph_inv s /\ minv s /\ binv s.

Lemma gp_gen s el ty cl s' c m : Placeholder.gp s el el ty cl = (s', c, m) -> pinv s -> xattrs el <> [] ->
  pinv s' /\ sext s s' /\ ~ In c base4 /\
  exists e', p2t_get (p2t s') c = Some (e', ty, cl) /\
             (ty = TSingle -> has_mark (xattrs el) = true -> Placeholder.knorm e' = Placeholder.knorm el).
Proof.
  intros G (I & M & (B1 & B2)) Hne.
  pose proof (PlaceholderProofs.gp_inv _ _ _ _ _ _ _ _ G I) as I'.
  destruct (t2p_get (t2p s) (Placeholder.knorm el, ty, cl)) as [c0|] eqn:L.
  - rewrite (PlaceholderProofs.gp_hit _ _ _ _ _ _ L) in G. inversion G; subst s' c0 m.
    split; [exact (conj I (conj M (conj B1 B2)))|]. split; [apply sext_refl|].
    split. { intros Hin. apply Hne. rewrite <- (knorm_attrs el). exact (B1 _ _ _ _ L Hin). }
    destruct I as ((I1 & I2) & J & C). destruct (I1 _ _ _ _ L) as [e0 E0]. exists e0. split; [exact E0|].
    intros -> Hm. apply (M c e0 cl _ E0 L). now rewrite knorm_attrs.
  - rewrite (PlaceholderProofs.gp_miss _ _ _ _ _ L) in G. inversion G; subst s' c m. clear G.
    destruct I as ((I1 & I2) & J & (C1 & C2 & C3 & C4)).
    assert (Hold : forall x e, p2t_get (p2t s) x = Some e -> x <> ctr s + 1) by (intros x e Hx; destruct (C1 _ _ Hx); lia).
    assert (Hkeys : forall k x, t2p_get (t2p s) k = Some x -> x <> ctr s + 1) by (intros k x Hx; destruct (C2 _ _ Hx); lia).
    split; [split; [exact I'|split]|].
    + (* minv *)
      intros x e cl0 k Hp Ht Hm. cbn [Placeholder.p2t Placeholder.t2p Placeholder.p2t_get Placeholder.t2p_get] in Hp, Ht.
      destruct (Placeholder.key_eqb (k, TSingle, cl0) (Placeholder.knorm el, ty, cl)) eqn:Ek.
      * apply PlaceholderProofs.key_eqb_eq in Ek. inversion Ek; subst. inversion Ht; subst x. rewrite N.eqb_refl in Hp. inversion Hp; subst. reflexivity.
      * destruct (N.eqb_spec x (ctr s + 1)) as [->|Hx]; [exfalso; eapply Hkeys; eauto|]. apply (M x e cl0 k Hp Ht Hm).
    + (* binv *)
      split; [|cbn [Placeholder.ctr]; lia]. intros k ty0 cl0 x Ht Hin. cbn [Placeholder.t2p Placeholder.t2p_get] in Ht.
      destruct (Placeholder.key_eqb (k, ty0, cl0) (Placeholder.knorm el, ty, cl)) eqn:Ek; [|apply (B1 _ _ _ _ Ht Hin)].
      inversion Ht; subst x. exfalso. cbn [base4 In] in Hin. unfold INS_O, INS_C, DEL_O, DEL_C in Hin. lia.
    + split.
      { intros x e Hx. cbn [Placeholder.p2t Placeholder.p2t_get]. destruct (N.eqb_spec x (ctr s + 1)); [exfalso; eapply Hold; eauto|exact Hx]. }
      split. { cbn [base4 In]. unfold INS_O, INS_C, DEL_O, DEL_C. lia. }
      exists el. cbn [Placeholder.p2t Placeholder.p2t_get]. rewrite N.eqb_refl. split; reflexivity.
Qed.

Lemma mark_key_action fmt el action : action = Placeholder.s_insert \/ action = Placeholder.s_delete ->
  let k := Placeholder.DIFF_NS_BRACED ++ (if Placeholder.mem (xtag el) fmt then action ++ Placeholder.s_formatting else action) in
  is_mark_key k = true /\
  (action = Placeholder.s_delete -> (k = K_del \/ k = K_delf) /\ k <> K_ins /\ k <> K_insf) /\
  (action = Placeholder.s_insert -> (k = K_ins \/ k = K_insf) /\ k <> K_del /\ k <> K_delf).
Proof.
  intros [-> | ->]; cbv zeta; destruct (Placeholder.mem (xtag el) fmt); (split; [reflexivity|]); split; intros E; try discriminate E;
    (split; [first [left; reflexivity|right; reflexivity]|split; discriminate]).
Qed.

(* mark_diff on a placeholder of the maker *)
Lemma mark_diff_spec fmt si c action si' c' el ty cl :
  action = Placeholder.s_insert \/ action = Placeholder.s_delete ->
  Placeholder.mark_diff fmt si c action [] = Placeholder.Ok (si', c') -> pinv si ->
  p2t_get (p2t si) c = Some (el, ty, cl) -> ~ In c base4 ->
  pinv si' /\ sext si si' /\ ~ In c' base4 /\
  exists e', p2t_get (p2t si') c' = Some (e', ty, cl) /\
    (ty = TSingle ->
       Placeholder.knorm (unmark e') = Placeholder.knorm (unmark el) /\
       xattrs e' = Placeholder.set_attr (xattrs el)
                     (Placeholder.DIFF_NS_BRACED ++ (if Placeholder.mem (xtag el) fmt then action ++ Placeholder.s_formatting else action)) []).
Proof.
  intros Ha H HI Hp Hc. unfold Placeholder.mark_diff in H. rewrite Hp in H.
  destruct (mark_key_action fmt el action Ha) as (Hk & _). cbv zeta in Hk.
  set (k := Placeholder.DIFF_NS_BRACED ++ (if Placeholder.mem (xtag el) fmt then action ++ Placeholder.s_formatting else action)) in *.
  cbn [Placeholder.set_attrs fold_left] in H.
  set (el' := Placeholder.with_attrs el (Placeholder.set_attr (xattrs el) k [])) in *.
  assert (Hattrs : xattrs el' = Placeholder.set_attr (xattrs el) k []) by (destruct el; reflexivity).
  assert (Gen : forall ty0, ty0 = ty -> ty0 <> TClose ->
            (let '(s', c0, _) := Placeholder.gp si el' el' ty0 cl in Placeholder.Ok (s', c0)) = Placeholder.Ok (si', c') ->
            pinv si' /\ sext si si' /\ ~ In c' base4 /\
            exists e', p2t_get (p2t si') c' = Some (e', ty, cl) /\
              (ty = TSingle -> Placeholder.knorm (unmark e') = Placeholder.knorm (unmark el) /\ xattrs e' = Placeholder.set_attr (xattrs el) k [])).
  { intros ty0 -> Hty G. destruct (Placeholder.gp si el' el' ty cl) as [[s1 c1] m] eqn:G1. inversion G; subst s1 c1.
    destruct (gp_gen si el' ty cl si' c' m G1 HI ltac:(rewrite Hattrs; apply set_attr_nonnil)) as (P' & X & Hb & e' & E' & Hs).
    split; [exact P'|]. split; [exact X|]. split; [exact Hb|]. exists e'. split; [exact E'|].
    intros Hsing. specialize (Hs Hsing ltac:(rewrite Hattrs; apply has_mark_set, Hk)).
    assert (A : xattrs e' = xattrs el') by (rewrite <- (knorm_attrs e'), Hs, knorm_attrs; reflexivity).
    split; [|rewrite A; exact Hattrs].
    rewrite !knorm_unmark, Hs. unfold el'. rewrite knorm_with_attrs. unfold unmark.
    destruct (Placeholder.knorm el) as [tg at_ tx tl ks] eqn:Ekn. cbn [Placeholder.with_attrs xattrs xtag xtext xtail xkids].
    rewrite <- (knorm_attrs el), Ekn. cbn [xattrs]. now rewrite (set_attr_unmark at_ k [] Hk). }
  destruct ty.
  - apply (Gen Placeholder.TOpen eq_refl ltac:(discriminate) H).
  - inversion H; subst si' c'. split; [exact HI|]. split; [apply sext_refl|]. split; [exact Hc|]. exists el. split; [exact Hp|discriminate].
  - apply (Gen TSingle eq_refl ltac:(discriminate) H).
Qed.

(* ------------------------------------------------------------------ *)
(** * The marking loop, flattened *)

(* the maker only grows along the loop, whatever the segments *)
Lemma mdt_seg_sext fmt it si out any o t r : ph_inv si ->
  mdt_seg fmt it (si, out, any) (DMP.JS o t) = FOk r -> ph_inv (fst (fst r)) /\ sext si (fst (fst r)).
Proof.
  intros I H.
  assert (Gp : forall s el ty cl s' c m, Placeholder.gp s el el ty cl = (s', c, m) -> ph_inv s -> ph_inv s' /\ sext s s').
  { intros s el ty cl s' c m G Is. split; [eapply PlaceholderProofs.gp_inv; eauto|].
    destruct (t2p_get (t2p s) (Placeholder.knorm el, ty, cl)) as [c0|] eqn:L.
    - rewrite (PlaceholderProofs.gp_hit _ _ _ _ _ _ L) in G. inversion G; subst. apply sext_refl.
    - rewrite (PlaceholderProofs.gp_miss _ _ _ _ _ L) in G. inversion G; subst. clear G.
      destruct Is as (_ & _ & (C1 & _)). intros x e Hx. cbn [Placeholder.p2t Placeholder.p2t_get].
      destruct (N.eqb_spec x (ctr s + 1)); [destruct (C1 _ _ Hx); lia|exact Hx]. }
  assert (Mk : forall action, mdt_marked fmt it (si, out, any) t Placeholder.s_delete action [] = FOk r \/
                               mdt_marked fmt it (si, out, any) t Placeholder.s_insert action [] = FOk r ->
                               ph_inv (fst (fst r)) /\ sext si (fst (fst r))).
  { intros action HM. assert (HM' : exists a, mdt_marked fmt it (si, out, any) t a action [] = FOk r) by (destruct HM; eauto).
    destruct HM' as [a HM']. clear HM. unfold mdt_marked in HM'. destruct (is_placeholder si t) as [ph|].
    - destruct (Placeholder.mark_diff _ _ _ _ _) as [[s1 c1]|[]] eqn:Em; cbn [of_ph fbind] in HM'; try discriminate.
      assert (R : ph_inv s1 /\ sext si s1).
      { unfold Placeholder.mark_diff in Em. destruct (p2t_get (p2t si) ph) as [[[el ty] cl]|]; [|discriminate].
        cbv zeta in Em.
        destruct ty; try (inversion Em; subst; split; [exact I|apply sext_refl]);
          destruct (Placeholder.gp _ _ _ _ _) as [[s2 c2] m] eqn:G; inversion Em; subst; eapply Gp; eauto. }
      destruct it; inversion HM'; subst; exact R.
    - destruct (Placeholder.wrap_diff _ _ _ _) as [[s1 w]|[]] eqn:Ew; cbn [of_ph fbind] in HM'; try discriminate.
      unfold Placeholder.wrap_diff in Ew. destruct (Placeholder.diff_tags action). inversion Ew; subst. inversion HM'; subst.
      split; [exact I|apply sext_refl]. }
  destruct o; cbn [mdt_seg] in H.
  - apply (Mk Placeholder.ADel). now left.
  - apply (Mk Placeholder.AIns). now right.
  - inversion H; subst. split; [exact I|apply sext_refl].
Qed.

Lemma mdt_loop_sext fmt it d : forall si out any r, ph_inv si ->
  mdt_loop fmt it (si, out, any) (map (fun sg : DMP.seg => DMP.JS (fst sg) (snd sg)) d) = FOk r ->
  ph_inv (fst (fst r)) /\ sext si (fst (fst r)).
Proof.
  induction d as [|[o t] d IH]; intros si out any r I H; cbn [map mdt_loop fst snd] in H.
  - inversion H; subst. split; [exact I|apply sext_refl].
  - apply fbind_ok in H as ([[s1 o1] a1] & E1 & H).
    destruct (mdt_seg_sext fmt it si out any o t _ I E1) as [I1 X1]. cbn [fst] in I1, X1.
    destruct (IH s1 o1 a1 r I1 H) as [I2 X2]. split; [exact I2|eapply sext_trans; eauto].
Qed.

Section Loop.
Variable fmt : list str.
Variable s0 S : pstate.          (* the maker before the update / after it *)
Hypothesis HIS : ph_inv S.
Hypothesis HRoom : ctr S <= PUA_END.

(* a segment handed to the loop: one placeholder of the maker (unmarked if it stands for an element), or a text
   none of whose characters is a placeholder even of the final maker *)
Definition seg_ok (t : str) : Prop :=
  (exists c el ty cl, t = [c] /\ p2t_get (p2t s0) c = Some (el, ty, cl) /\ ~ In c base4 /\
                      (ty = TSingle -> marked true (xattrs el) = false /\ marked false (xattrs el) = false)) \/
  Forall (fun c => p2t_get (p2t S) c = None /\ ~ In c base4) t.

Definition drops (acc : bool) (o : DMP.op) : bool := if acc then DMP.is_delete o else DMP.is_insert o.

Lemma not_base c : ~ In c base4 -> forall acc : bool, N.eqb c (if acc then DEL_O else INS_O) = false /\
  N.eqb c (if acc then DEL_C else INS_C) = false /\ existsb (N.eqb c) base4 = false.
Proof.
  intros H acc. cbn [base4 In existsb] in *.
  assert (c <> INS_O /\ c <> INS_C /\ c <> DEL_O /\ c <> DEL_C) as (A1 & A2 & A3 & A4) by (repeat split; intros E; apply H; auto).
  apply N.eqb_neq in A1, A2, A3, A4. rewrite A1, A2, A3, A4. destruct acc; auto.
Qed.

Lemma fl_plain acc t : Forall (fun c => p2t_get (p2t S) c = None /\ ~ In c base4) t -> forall skip rest,
  fl acc S skip (t ++ rest) = (if skip then [] else map AC t) ++ fl acc S skip rest.
Proof.
  induction 1 as [|c t [Hc Hb] _ IH]; intros skip rest; [destruct skip; reflexivity|].
  cbn [app fl]. destruct (not_base c Hb acc) as (E1 & E2 & E3). rewrite E1, E2, E3, Hc, IH.
  destruct skip; reflexivity.
Qed.

Lemma flat0_plain t : Forall (fun c => p2t_get (p2t S) c = None /\ ~ In c base4) t -> flat0 S t = map AC t.
Proof. induction 1 as [|c t [Hc _] _ IH]; [reflexivity|]. cbn [flat0 map]. now rewrite Hc, IH. Qed.

(* one placeholder of the final maker at the head *)
Lemma fl_ph acc c e ty cl rest : p2t_get (p2t S) c = Some (e, ty, cl) -> ~ In c base4 ->
  fl acc S false (c :: rest) =
  (match ty with TSingle => if marked acc (xattrs e) then [] else [atom_of e] | _ => [] end) ++ fl acc S false rest.
Proof.
  intros Hp Hb. cbn [fl]. destruct (not_base c Hb acc) as (E1 & E2 & E3). rewrite E1, E2, E3, Hp.
  destruct ty; reflexivity.
Qed.

Lemma flat0_ph c e ty cl : p2t_get (p2t S) c = Some (e, ty, cl) ->
  flat0 S [c] = match ty with TSingle => [atom_of e] | _ => [] end.
Proof. intros Hp. cbn [flat0]. rewrite Hp. destruct ty; reflexivity. Qed.

Lemma seg_flat si out any o t si' out' any' :
  pinv si -> sext s0 si -> seg_ok t ->
  mdt_seg fmt false (si, out, any) (DMP.JS o t) = FOk (si', out', any') -> sext si' S ->
  pinv si' /\ sext si si' /\
  exists w, out' = out ++ w /\
    forall acc rest, fl acc S false (w ++ rest) = (if drops acc o then [] else flat0 S t) ++ fl acc S false rest.
Proof.
  intros HI X0 Hsg H XS.
  destruct Hsg as [(c & el & ty & cl & -> & Hp0 & Hb & Hun)|Hpl].
  - (* one placeholder *)
    pose proof (X0 _ _ Hp0) as Hpi.
    assert (Hisp : is_placeholder si [c] = Some c) by (unfold is_placeholder, Placeholder.is_ph; now rewrite Hpi).
    assert (Mark : forall action dact, action = Placeholder.s_insert \/ action = Placeholder.s_delete ->
              mdt_marked fmt false (si, out, any) [c] action dact [] = FOk (si', out', any') ->
              pinv si' /\ sext si si' /\ exists c' e', out' = out ++ [c'] /\ ~ In c' base4 /\
                p2t_get (p2t S) c' = Some (e', ty, cl) /\
                (ty = TSingle -> Placeholder.knorm (unmark e') = Placeholder.knorm (unmark el) /\
                   xattrs e' = Placeholder.set_attr (xattrs el)
                     (Placeholder.DIFF_NS_BRACED ++ (if Placeholder.mem (xtag el) fmt then action ++ Placeholder.s_formatting else action)) [])).
    { intros action dact Ha HM. unfold mdt_marked in HM. rewrite Hisp in HM.
      destruct (Placeholder.mark_diff _ _ _ _ _) as [[s1 c1]|[]] eqn:Em; cbn [of_ph fbind] in HM; try discriminate.
      inversion HM; subst s1 out' any'. clear HM.
      destruct (mark_diff_spec fmt si c action si' c1 el ty cl Ha Em HI Hpi Hb) as (P' & X & Hb' & e' & E' & Hs).
      split; [exact P'|]. split; [exact X|]. exists c1, e'. split; [reflexivity|]. split; [exact Hb'|]. split; [apply XS, E'|exact Hs]. }
    destruct o; cbn [mdt_seg] in H.
    + (* DELETE *)
      assert (HpS : p2t_get (p2t S) c = Some (el, ty, cl)).
      { destruct (Mark _ _ (or_intror eq_refl) H) as (_ & X & _). apply XS, X, Hpi. }
      destruct (Mark _ _ (or_intror eq_refl) H) as (P' & X & c' & e' & -> & Hb' & E' & Hs).
      split; [exact P'|]. split; [exact X|]. exists [c']. split; [reflexivity|].
      intros acc rest. cbn [app]. rewrite (fl_ph acc c' e' ty cl rest E' Hb'), (flat0_ph c el ty cl HpS).
      destruct ty; try (destruct acc; reflexivity).
      destruct (Hs eq_refl) as [Hk Ha]. destruct (Hun eq_refl) as [U1 U2].
      destruct (mark_key_action fmt el Placeholder.s_delete (or_intror eq_refl)) as (_ & Hd & _). cbv zeta in Hd.
      destruct (Hd eq_refl) as (Hk1 & Hk2 & Hk3). unfold atom_of. rewrite Hk.
      destruct acc; cbn [drops DMP.is_delete DMP.is_insert marked].
      * rewrite Ha. destruct Hk1 as [-> | ->]; rewrite has_key_set_same; rewrite ?orb_true_r; reflexivity.
      * rewrite Ha, !has_key_set_other by (intros E; symmetry in E; auto). cbn [marked] in U2. rewrite U2. reflexivity.
    + (* INSERT *)
      assert (HpS : p2t_get (p2t S) c = Some (el, ty, cl)).
      { destruct (Mark _ _ (or_introl eq_refl) H) as (_ & X & _). apply XS, X, Hpi. }
      destruct (Mark _ _ (or_introl eq_refl) H) as (P' & X & c' & e' & -> & Hb' & E' & Hs).
      split; [exact P'|]. split; [exact X|]. exists [c']. split; [reflexivity|].
      intros acc rest. cbn [app]. rewrite (fl_ph acc c' e' ty cl rest E' Hb'), (flat0_ph c el ty cl HpS).
      destruct ty; try (destruct acc; reflexivity).
      destruct (Hs eq_refl) as [Hk Ha]. destruct (Hun eq_refl) as [U1 U2].
      destruct (mark_key_action fmt el Placeholder.s_insert (or_introl eq_refl)) as (_ & _ & Hd). cbv zeta in Hd.
      destruct (Hd eq_refl) as (Hk1 & Hk2 & Hk3). unfold atom_of. rewrite Hk.
      destruct acc; cbn [drops DMP.is_delete DMP.is_insert marked].
      * rewrite Ha, !has_key_set_other by (intros E; symmetry in E; auto). cbn [marked] in U1. rewrite U1. reflexivity.
      * rewrite Ha. destruct Hk1 as [-> | ->]; rewrite has_key_set_same; rewrite ?orb_true_r; reflexivity.
    + (* EQUAL *)
      inversion H; subst si' out' any'. pose proof (XS _ _ Hpi) as HpS0. split; [exact HI|]. split; [apply sext_refl|]. exists [c]. split; [reflexivity|].
      intros acc rest. cbn [app]. rewrite (fl_ph acc c el ty cl rest HpS0 Hb), (flat0_ph c el ty cl HpS0).
      destruct ty; try (destruct acc; reflexivity). destruct (Hun eq_refl) as [U1 U2].
      destruct acc; cbn [drops DMP.is_delete DMP.is_insert]; [rewrite U1|rewrite U2]; reflexivity.
  - (* a text without placeholders *)
    assert (Hisp : is_placeholder si t = None).
    { unfold is_placeholder. destruct t as [|c [|c2 r]]; try reflexivity. apply Forall_cons_iff in Hpl as [[Hc _] _].
      unfold Placeholder.is_ph. destruct (p2t_get (p2t si) c) as [e|] eqn:E; [|reflexivity].
      (* an entry of si would be an entry of S: but the loop has not returned yet -- use the result state *)
      exfalso. destruct HI as (I & _).
      destruct (mdt_seg_sext fmt false si out any o [c] _ I H) as [_ X]. cbn [fst] in X.
      rewrite (XS _ _ (X _ _ E)) in Hc. discriminate. }
    destruct o; cbn [mdt_seg] in H.
    + unfold mdt_marked in H. rewrite Hisp in H. cbn in H. inversion H; subst si' out' any'.
      split; [exact HI|]. split; [apply sext_refl|]. exists (DEL_O :: t ++ [DEL_C]). split; [reflexivity|].
      intros acc rest. rewrite (flat0_plain t Hpl). destruct acc; cbn [drops DMP.is_delete DMP.is_insert].
      * cbn [app fl]. change (N.eqb DEL_O DEL_O) with true. cbv iota. rewrite <- app_assoc, (fl_plain true t Hpl true). cbn [app fl].
        change (N.eqb DEL_C DEL_O) with false. change (N.eqb DEL_C DEL_C) with true. cbv iota. reflexivity.
      * cbn [app fl]. change (N.eqb DEL_O INS_O) with false. change (N.eqb DEL_O INS_C) with false.
        change (existsb (N.eqb DEL_O) base4) with true. cbv iota. rewrite <- app_assoc, (fl_plain false t Hpl false). f_equal; reflexivity.
    + unfold mdt_marked in H. rewrite Hisp in H. cbn in H. inversion H; subst si' out' any'.
      split; [exact HI|]. split; [apply sext_refl|]. exists (INS_O :: t ++ [INS_C]). split; [reflexivity|].
      intros acc rest. rewrite (flat0_plain t Hpl). destruct acc; cbn [drops DMP.is_delete DMP.is_insert].
      * cbn [app fl]. change (N.eqb INS_O DEL_O) with false. change (N.eqb INS_O DEL_C) with false.
        change (existsb (N.eqb INS_O) base4) with true. cbv iota. rewrite <- app_assoc, (fl_plain true t Hpl false). f_equal; reflexivity.
      * cbn [app fl]. change (N.eqb INS_O INS_O) with true. cbv iota. rewrite <- app_assoc, (fl_plain false t Hpl true). cbn [app fl].
        change (N.eqb INS_C INS_O) with false. change (N.eqb INS_C INS_C) with true. cbv iota. reflexivity.
    + inversion H; subst si' out' any'. split; [exact HI|]. split; [apply sext_refl|]. exists t. split; [reflexivity|].
      intros acc rest. rewrite (fl_plain acc t Hpl false), (flat0_plain t Hpl). destruct acc; reflexivity.
Qed.

Definition side (acc : bool) (d : list DMP.seg) : str := if acc then DMP.t2 d else DMP.t1 d.

Lemma side_cons acc o t d : side acc ((o, t) :: d) = (if drops acc o then [] else t) ++ side acc d.
Proof.
  unfold side. rewrite DMPBase.t1_proj, DMPBase.t2_proj, !DMPBase.proj_cons, <- DMPBase.t1_proj, <- DMPBase.t2_proj.
  unfold DMPBase.keep1, DMPBase.keep2. destruct acc, o; reflexivity.
Qed.

Theorem mdt_loop_flat d : Forall (fun sg : DMP.seg => seg_ok (snd sg)) d -> forall si out any out' any',
  pinv si -> sext s0 si ->
  mdt_loop fmt false (si, out, any) (map (fun sg : DMP.seg => DMP.JS (fst sg) (snd sg)) d) = FOk (S, out', any') ->
  exists w, out' = out ++ w /\ forall acc rest, fl acc S false (w ++ rest) = flat0 S (side acc d) ++ fl acc S false rest.
Proof.
  induction 1 as [|[o t] d Hsg _ IH]; intros si out any out' any' HI X0 H; cbn [map mdt_loop fst snd] in H.
  - inversion H; subst. exists []. split; [now rewrite app_nil_r|]. intros acc rest. destruct acc; reflexivity.
  - apply fbind_ok in H as ([[s1 o1] a1] & E1 & H). cbn [snd] in Hsg.
    assert (I1 : ph_inv s1) by (destruct HI as (I & _); apply (mdt_seg_sext fmt false si out any o t _ I E1)).
    destruct (mdt_loop_sext fmt false d s1 o1 a1 _ I1 H) as [_ X1S]. cbn [fst] in X1S.
    destruct (seg_flat si out any o t s1 o1 a1 HI X0 Hsg E1 X1S) as (P1 & X1 & w1 & -> & F1).
    destruct (IH s1 (out ++ w1) a1 out' any' P1 (sext_trans _ _ _ X0 X1) H) as (w2 & -> & F2).
    exists (w1 ++ w2). split; [now rewrite app_assoc|]. intros acc rest.
    rewrite <- app_assoc, F1, F2, side_cons, flat0_app, <- app_assoc. destruct (drops acc o); reflexivity.
Qed.
End Loop.

(* ------------------------------------------------------------------ *)
(** * _make_diff_tags with text tags: the flattened readings *)

(* a character of the two texts: not one of the four wrapper placeholders; a placeholder of the maker (an element
   placeholder: of an element without the four marks) or a character outside the private-use range *)
Definition txt_ok (s : pstate) (c : N) : Prop :=
  ~ In c base4 /\
  match p2t_get (p2t s) c with
  | Some (el, Placeholder.TSingle, _) => marked true (xattrs el) = false /\ marked false (xattrs el) = false
  | Some _ => True
  | None => okc c = true
  end.
(* the close placeholder of a formatting element is not one of the wrapper placeholders *)
Definition capart (s : pstate) : Prop :=
  forall c0 el cl, p2t_get (p2t s) c0 = Some (el, Placeholder.TOpen, Some cl) -> ~ In c0 base4 -> ~ In cl base4.

Lemma segs_all (P : N -> Prop) (d : list DMP.seg) : Forall P (DMP.t1 d) -> Forall P (DMP.t2 d) ->
  Forall (fun sg => Forall P (snd sg)) d.
Proof.
  rewrite DMPBase.t1_proj, DMPBase.t2_proj. induction d as [|[o t] d IH]; intros H1 H2; [constructor|].
  rewrite DMPBase.proj_cons in H1, H2. apply Forall_app in H1 as [A1 B1]. apply Forall_app in H2 as [A2 B2].
  constructor; [|auto]. cbn [snd]. unfold DMPBase.keep1, DMPBase.keep2 in *. destruct o; cbn in A1, A2; assumption.
Qed.

Lemma flat0_agree s S y :
  Forall (fun c => match p2t_get (p2t s) c with Some e => p2t_get (p2t S) c = Some e | None => p2t_get (p2t S) c = None end) y ->
  flat0 S y = flat0 s y.
Proof.
  induction 1 as [|c y Hc _ IH]; [reflexivity|]. cbn [flat0].
  destruct (p2t_get (p2t s) c) as [[[el ty] cl]|]; rewrite Hc, IH; reflexivity.
Qed.

Theorem text_update_flat c o s left right s' x any :
  c_replace c = false -> pinv s -> DMP.wf_cls (cls_of s) -> capart s ->
  Forall (txt_ok s) left -> Forall (txt_ok s) right ->
  make_diff_tags c o s left right false = FOk (s', x, any) -> ctr s' <= PUA_END ->
  sext s s' /\
  fl true s' false x = flat0 s (norm_if c right) /\
  fl false s' false x = flat0 s (norm_if c left).
Proof.
  intros Hrep HP Hwf Hcap Hl Hr H Hroom.
  unfold make_diff_tags in H. apply fbind_ok in H as (ds & E & H).
  unfold text_diff in E. fold (norm_if c left) in E. fold (norm_if c right) in E.
  apply fbind_ok in E as (d0 & E0 & E). apply of_dmp_ok in E0.
  apply fbind_ok in E as (d1 & E1 & E). apply of_dmp_ok in E1.
  apply fbind_ok in E as (d2 & E2 & E). apply of_dmp_ok in E2.
  rewrite Hrep in E. inversion E; subst ds; clear E.
  apply DMPMain.diff_main_spec in E0 as (A1 & A2 & _).
  apply DMPSemantic.cleanupSemantic_t12 in E1 as (B1 & B2 & _).
  destruct HP as (I & M & B). pose proof I as I0. destruct I0 as (_ & _ & (C1 & _)).
  assert (P32 : txt_ok s 32).
  { split; [cbn [base4 In]; unfold INS_O, INS_C, DEL_O, DEL_C; lia|].
    destruct (p2t_get (p2t s) 32) as [e|] eqn:E32; [|reflexivity]. destruct (C1 _ _ E32). unfold Placeholder.PLACEHOLDER_START in *. lia. }
  pose proof (norm_if_all (txt_ok s) P32 c left Hl) as Hl'. pose proof (norm_if_all (txt_ok s) P32 c right Hr) as Hr'.
  assert (Hd1 : Forall (fun sg : DMP.seg => Forall (txt_ok s) (snd sg)) d1).
  { apply segs_all; [rewrite B1, A1; exact Hl'|rewrite B2, A2; exact Hr']. }
  pose proof (realign_chars (cls_of s) (txt_ok s) Hwf d1 d2 E2 Hd1) as Hd2.
  destruct (mdt_loop_sext (c_fmt c) false d2 s [] false _ I H) as [I' X]. cbn [fst] in I', X.
  (* entries of s are entries of s'; characters outside the range are not *)
  assert (Hnone : forall ch, txt_ok s ch -> p2t_get (p2t s) ch = None -> p2t_get (p2t s') ch = None).
  { intros ch [_ Hc] En. rewrite En in Hc. apply (PlaceholderUndo.okc_no_entry s' I' Hroom ch Hc). }
  assert (Hcls : forall ch, cls_of s ch = None -> p2t_get (p2t s) ch = None).
  { intros ch. unfold cls_of. destruct (p2t_get (p2t s) ch) as [[[el ty] cl]|]; [discriminate|reflexivity]. }
  assert (Hsegs : Forall (fun sg : DMP.seg => seg_ok s s' (snd sg)) d2).
  { eapply Forall_impl; [|exact Hd2]. intros [oo t]. cbn [snd]. intros [(ch & -> & Hn & Hfrom)|Hplain].
    - left. unfold cls_of in Hn. destruct (p2t_get (p2t s) ch) as [[[el ty] cl]|] eqn:Ech; [|congruence].
      exists ch, el, ty, cl. split; [reflexivity|]. split; [exact Ech|].
      destruct Hfrom as [[Hb Hm]|(c0 & [Hb0 _] & E0)].
      + split; [exact Hb|]. intros ->. rewrite Ech in Hm. exact Hm.
      + assert (Ec0 : exists el0, p2t_get (p2t s) c0 = Some (el0, Placeholder.TOpen, Some ch)).
        { unfold cls_of in E0. destruct (p2t_get (p2t s) c0) as [[[el0 ty0] cl0]|]; [|discriminate].
          destruct ty0; inversion E0; subst. eauto. }
        destruct Ec0 as [el0 Ec0]. split; [apply (Hcap c0 el0 ch Ec0 Hb0)|].
        intros ->. pose proof (Hwf c0 ch E0) as W. unfold DMP.is_close, cls_of in W. rewrite Ech in W. discriminate.
    - right. eapply Forall_impl; [|exact Hplain]. intros ch [Hok En]. split; [apply (Hnone ch Hok (Hcls ch En))|apply Hok]. }
  destruct (mdt_loop_flat (c_fmt c) s s' d2 Hsegs s [] false x any (conj I (conj M B)) (sext_refl s) H) as (w & Ew & F).
  cbn [app] in Ew. subst w.
  assert (Hag : forall y, Forall (txt_ok s) y -> flat0 s' y = flat0 s y).
  { intros y Hy. apply flat0_agree. eapply Forall_impl; [|exact Hy]. intros ch Hok.
    destruct (p2t_get (p2t s) ch) as [e|] eqn:Ech; [apply X, Ech|apply (Hnone ch Hok Ech)]. }
  assert (Her : forall y, flat0 s' (DMP.erase_oc (cls_of s) y) = flat0 s' y).
  { intros y. unfold DMP.erase_oc. apply flat0_filter. intros ch _ Hf. apply negb_false_iff in Hf.
    unfold DMP.is_open, DMP.is_close, cls_of in Hf. destruct (p2t_get (p2t s) ch) as [[[el ty] cl]|] eqn:Ech; [|discriminate].
    cbn [flat0]. rewrite (X _ _ Ech). destruct ty; [reflexivity|reflexivity|discriminate]. }
  destruct (DMPRealign.realign_spec_oc (cls_of s) d1 d2 Hwf E2) as [R1 R2].
  split; [exact X|]. split.
  - assert (Ft : fl true s' false x = flat0 s' (side true d2)).
    { pose proof (F true []) as Ft. rewrite app_nil_r in Ft. rewrite Ft. cbn [fl]. apply app_nil_r. }
    rewrite Ft. cbn [side].
    rewrite <- (Her (DMP.t2 d2)), R2, Her, B2, A2. apply Hag, Hr'.
  - assert (Ft : fl false s' false x = flat0 s' (side false d2)).
    { pose proof (F false []) as Ft. rewrite app_nil_r in Ft. rewrite Ft. cbn [fl]. apply app_nil_r. }
    rewrite Ft. cbn [side].
    rewrite <- (Her (DMP.t1 d2)), R1, Her, B1, A1. apply Hag, Hl'.
Qed.

(* the premises on the maker hold of the maker as created *)
Lemma pinv_init : pinv ph_init /\ capart ph_init /\ DMP.wf_cls (cls_of ph_init).
Proof.
  split; [split; [exact (proj1 (PlaceholderFinal.ph_wf_init [] []))|split]|split].
  - intros ch e cl k Hp. rewrite ph_init_p2t in Hp. cbn [Placeholder.p2t_get] in Hp.
    repeat match type of Hp with (if ?b then _ else _) = _ => destruct b; [inversion Hp|] end. discriminate.
  - split; [|vm_compute; discriminate]. intros k ty cl ch Ht _. revert Ht. unfold ph_init, Placeholder.init_pair. vm_compute Placeholder.t2p.
    cbn [Placeholder.t2p_get]. intros Ht.
    repeat match type of Ht with (if ?b then _ else _) = _ =>
      let E := fresh "E" in destruct b eqn:E; [apply PlaceholderProofs.key_eqb_eq in E; inversion E; reflexivity|] end. discriminate.
  - intros c0 el cl Hp Hb. rewrite ph_init_p2t in Hp. cbn [Placeholder.p2t_get] in Hp.
    repeat match type of Hp with (if N.eqb c0 ?k then _ else _) = _ =>
      destruct (N.eqb_spec c0 k);
        [subst c0; first [discriminate Hp
                         |inversion Hp; subst; first [exfalso; apply Hb; cbn; unfold INS_O, INS_C, DEL_O, DEL_C; tauto
                                                     |cbn; unfold INS_O, INS_C, DEL_O, DEL_C; lia]]|] end.
    discriminate.
  - intros c0 cl Hc. unfold cls_of in *. rewrite ph_init_p2t in *. cbn [Placeholder.p2t_get] in Hc.
    repeat match type of Hc with context [N.eqb c0 ?k] => destruct (N.eqb_spec c0 k); [inversion Hc; subst; reflexivity|] end.
    discriminate.
Qed.

(* ------------------------------------------------------------------ *)
(** * Non-vacuity: a maker with one element placeholder; a<i k="v"/>b -> ab *)

Definition ex_el : xtree := XNode [105] [([107], [118])] None [] [].
Definition ex_s : pstate := fst (fst (Placeholder.gp ph_init ex_el ex_el Placeholder.TSingle None)).
Definition ex_c : N := 57351.
Definition ex_o : oracle :=
  Orc {| DMP.isalnum := fun c => (97 <=? c) && (c <=? 122); DMP.isspace := fun c => c =? 32 |} (fun _ => false).
Definition ex_cfg : cfg := Cfg 0 false [[112]] [].

Lemma ex_p2t : p2t ex_s = (57351, (ex_el, Placeholder.TSingle, None)) :: p2t ph_init.
Proof. vm_compute. reflexivity. Qed.

Ltac not_base := cbn [base4 In]; unfold INS_O, INS_C, DEL_O, DEL_C; intros [H|[H|[H|[H|[]]]]]; discriminate H.

Lemma ex_premises :
  pinv ex_s /\ capart ex_s /\ DMP.wf_cls (cls_of ex_s) /\
  Forall (txt_ok ex_s) [97; ex_c; 98] /\ Forall (txt_ok ex_s) [97; 98].
Proof.
  assert (G : Placeholder.gp ph_init ex_el ex_el Placeholder.TSingle None = (ex_s, 57351, true)) by (vm_compute; reflexivity).
  destruct pinv_init as (P0 & _).
  destruct (gp_gen ph_init ex_el Placeholder.TSingle None ex_s 57351 true G P0 ltac:(discriminate)) as (P1 & _).
  split; [exact P1|]. split; [|split; [|split]].
  - intros c0 el cl Hp Hb. rewrite ex_p2t, ph_init_p2t in Hp. cbn [Placeholder.p2t_get] in Hp.
    repeat match type of Hp with (if N.eqb c0 ?k then _ else _) = _ =>
      destruct (N.eqb_spec c0 k);
        [subst c0; first [discriminate Hp
                         |inversion Hp; subst; first [exfalso; apply Hb; cbn; unfold INS_O, INS_C, DEL_O, DEL_C; tauto
                                                     |cbn; unfold INS_O, INS_C, DEL_O, DEL_C; lia]]|] end.
    discriminate.
  - intros c0 cl Hc. unfold cls_of, DMP.is_close in *. rewrite ex_p2t, ph_init_p2t in *. cbn [Placeholder.p2t_get] in Hc.
    repeat match type of Hc with context [N.eqb c0 ?k] => destruct (N.eqb_spec c0 k); [inversion Hc; subst; reflexivity|] end.
    discriminate.
  - repeat constructor; try not_base; vm_compute; auto.
  - repeat constructor; try not_base; vm_compute; auto.
Qed.

Example ex_flat :
  exists s' x any,
    make_diff_tags ex_cfg ex_o ex_s [97; ex_c; 98] [97; 98] false = FOk (s', x, any) /\
    fl true s' false x = flat0 ex_s [97; 98] /\ fl false s' false x = flat0 ex_s [97; ex_c; 98] /\
    flat0 ex_s [97; ex_c; 98] = [AC 97; atom_of ex_el; AC 98] /\ x = [97; 57352; 98].
Proof.
  destruct ex_premises as (P & Cp & W & Hl & Hr).
  destruct (make_diff_tags ex_cfg ex_o ex_s [97; ex_c; 98] [97; 98] false) as [[[s' x] any]|e] eqn:E; [|vm_compute in E; discriminate].
  exists s', x, any. split; [reflexivity|].
  assert (Hroom : ctr s' <= PUA_END) by (revert E; vm_compute; intros E; inversion E; subst; discriminate).
  destruct (text_update_flat ex_cfg ex_o ex_s _ _ s' x any eq_refl P W Cp Hl Hr E Hroom) as (_ & A & R).
  split; [exact A|]. split; [exact R|]. split; [vm_compute; reflexivity|]. revert E. vm_compute. intros E. inversion E. reflexivity.
Qed.
