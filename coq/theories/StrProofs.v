(* Facts about the Python-str model XV.Str used by the text-format round trip
   (property C02): str_eqb reflection, strip fixpoints, splitlines/join,
   int(str(z)) = z. *)
From Coq Require Import List NArith ZArith Bool Lia.
Import ListNotations.
Require Import XV.Str.
Local Open Scope N_scope.

(* Decide every comparison in the goal whose outcome lia can establish. *)
Ltac decide_cmp :=
  repeat match goal with
  | |- context [?a <=? ?b] =>
      first [ replace (a <=? b) with true by (symmetry; apply N.leb_le; lia)
            | replace (a <=? b) with false by (symmetry; apply N.leb_gt; lia) ]
  | |- context [?a <? ?b] =>
      first [ replace (a <? b) with true by (symmetry; apply N.ltb_lt; lia)
            | replace (a <? b) with false by (symmetry; apply N.ltb_ge; lia) ]
  | |- context [?a =? ?b] =>
      first [ replace (a =? b) with true by (symmetry; apply N.eqb_eq; lia)
            | replace (a =? b) with false by (symmetry; apply N.eqb_neq; lia) ]
  end.

(* ---------- str_eqb ---------- *)

Lemma str_eqb_refl (a : str) : str_eqb a a = true.
Proof.
  induction a as [|x a IH]; [reflexivity|].
  cbn [str_eqb]. rewrite N.eqb_refl, IH. reflexivity.
Qed.

Lemma str_eqb_true (a b : str) : str_eqb a b = true -> a = b.
Proof.
  revert b; induction a as [|x a IH]; intros [|y b] H; cbn [str_eqb] in H;
    try reflexivity; try discriminate.
  apply andb_true_iff in H as [H1 H2].
  apply N.eqb_eq in H1. apply IH in H2. subst. reflexivity.
Qed.

Lemma str_eqb_eq (a b : str) : str_eqb a b = true <-> a = b.
Proof. split; [apply str_eqb_true|]. intros ->. apply str_eqb_refl. Qed.

(* ---------- character classes ---------- *)

Lemma is_linebreak_printable c : 32 <= c <= 126 -> is_linebreak c = false.
Proof. intros H. unfold is_linebreak. decide_cmp. reflexivity. Qed.

Lemma is_space_graph c : 33 <= c <= 126 -> is_space c = false.
Proof. intros H. unfold is_space. decide_cmp. reflexivity. Qed.

Lemma is_linebreak_space c : is_linebreak c = true -> is_space c = true.
Proof.
  unfold is_linebreak, is_space. intros H.
  repeat (apply orb_true_iff in H as [H|H]).
  - apply andb_true_iff in H as [H1 H2]. apply N.leb_le in H1. apply N.leb_le in H2.
    decide_cmp. reflexivity.
  - apply andb_true_iff in H as [H1 H2]. apply N.leb_le in H1. apply N.leb_le in H2.
    decide_cmp. reflexivity.
  - apply N.eqb_eq in H. subst. reflexivity.
  - apply N.eqb_eq in H. subst. reflexivity.
  - apply N.eqb_eq in H. subst. reflexivity.
Qed.

Definition no_lb (s : str) : Prop := Forall (fun c => is_linebreak c = false) s.
Definition no_sp (s : str) : Prop := Forall (fun c => is_space c = false) s.

(* ---------- join ---------- *)

Lemma join_cons2 sep (p q : str) r : join sep (p :: q :: r) = p ++ sep ++ join sep (q :: r).
Proof. reflexivity. Qed.

(* ---------- strip ---------- *)

Lemma strip_fix s : lstrip s = s -> lstrip (rev s) = rev s -> strip s = s.
Proof. intros H1 H2. unfold strip, rstrip. rewrite H1, H2. apply rev_involutive. Qed.

Lemma lstrip_hd c r : is_space c = false -> lstrip (c :: r) = c :: r.
Proof. intros H. cbn [lstrip]. rewrite H. reflexivity. Qed.

Lemma strip_space_cons c s : is_space c = true -> strip (c :: s) = strip s.
Proof. intros H. unfold strip. cbn [lstrip]. rewrite H. reflexivity. Qed.

Lemma lstrip_no_sp s : no_sp s -> lstrip s = s.
Proof. intros H. destruct H as [|c r Hc _]; [reflexivity|]. apply lstrip_hd, Hc. Qed.

Lemma strip_no_sp s : no_sp s -> strip s = s.
Proof.
  intros H. apply strip_fix; apply lstrip_no_sp; [assumption|].
  unfold no_sp. apply Forall_rev. exact H.
Qed.

(* a string delimited by two non-space characters *)
Lemma strip_delimited a m b :
  is_space a = false -> is_space b = false -> strip (a :: m ++ [b]) = a :: m ++ [b].
Proof.
  intros Ha Hb. apply strip_fix; [apply lstrip_hd, Ha|].
  change (a :: m ++ [b]) with ((a :: m) ++ [b]). rewrite rev_app_distr.
  cbn [rev app]. apply lstrip_hd, Hb.
Qed.

(* ---------- splitlines ---------- *)

Lemma splitlines_aux_nolb l : forall cur rest,
  no_lb l -> splitlines_aux cur (l ++ rest) = splitlines_aux (rev l ++ cur) rest.
Proof.
  induction l as [|c l IH]; intros cur rest H.
  - reflexivity.
  - inversion H as [|? ? Hc Hl]; subst.
    cbn [app splitlines_aux]. rewrite Hc. rewrite IH by assumption.
    cbn [rev]. rewrite <- app_assoc. reflexivity.
Qed.

Lemma splitlines_aux_last l : l <> [] -> no_lb l -> splitlines_aux [] l = [l].
Proof.
  intros Hne H. rewrite <- (app_nil_r l) at 1.
  rewrite splitlines_aux_nolb by assumption. cbn [splitlines_aux]. rewrite app_nil_r.
  destruct (rev l) as [|x t] eqn:E.
  - apply (f_equal (@rev N)) in E. rewrite rev_involutive in E. cbn in E. contradiction.
  - rewrite <- E, rev_involutive. reflexivity.
Qed.

Lemma splitlines_join lines :
  Forall (fun l => l <> [] /\ no_lb l) lines -> splitlines (join [10] lines) = lines.
Proof.
  unfold splitlines.
  induction lines as [|p lines IH]; intros H.
  - reflexivity.
  - inversion H as [|? ? [Hne Hp] H']; subst.
    destruct lines as [|q r].
    + cbn [join]. apply splitlines_aux_last; assumption.
    + rewrite join_cons2. rewrite splitlines_aux_nolb by assumption.
      cbn [app splitlines_aux].
      change (is_linebreak 10) with true. change (10 =? 13) with false.
      cbv match. rewrite app_nil_r, rev_involutive.
      f_equal. apply IH. assumption.
Qed.

(* ---------- str(int) / int(str) ---------- *)

Lemma digits_fuel_S f n :
  digits_fuel (S f) n = if n <? 10 then [48 + n] else digits_fuel f (n / 10) ++ [48 + n mod 10].
Proof. reflexivity. Qed.

Lemma is_digit_48 d : d < 10 -> is_digit (48 + d) = true.
Proof. intros H. unfold is_digit. decide_cmp. reflexivity. Qed.

Lemma digits_val_app a : forall acc d,
  d < 10 ->
  digits_val acc (a ++ [48 + d]) = option_map (fun v => v * 10 + d) (digits_val acc a).
Proof.
  induction a as [|c a IH]; intros acc d Hd.
  - cbn [app digits_val]. rewrite is_digit_48 by assumption.
    cbn [option_map]. f_equal; lia.
  - cbn [app digits_val]. destruct (is_digit c); [apply IH; assumption|reflexivity].
Qed.

Lemma digits_fuel_val f : forall n,
  n < 2 ^ N.of_nat f -> digits_val 0 (digits_fuel (S f) n) = Some n.
Proof.
  induction f as [|f IH]; intros n Hn.
  - change (2 ^ N.of_nat 0) with 1 in Hn.
    rewrite digits_fuel_S. replace (n <? 10) with true by (symmetry; apply N.ltb_lt; lia).
    change [48 + n] with ([] ++ [48 + n]). rewrite digits_val_app by lia.
    cbn [digits_val option_map]. f_equal; lia.
  - rewrite digits_fuel_S. destruct (N.ltb_spec n 10) as [Hlt|Hge].
    + change [48 + n] with ([] ++ [48 + n]). rewrite digits_val_app by lia.
      cbn [digits_val option_map]. f_equal; lia.
    + assert (Hm : n mod 10 < 10) by (apply N.mod_lt; lia).
      rewrite digits_val_app by assumption.
      rewrite Nat2N.inj_succ, N.pow_succ_r' in Hn.
      rewrite IH.
      * cbn [option_map]. f_equal. pose proof (N.div_mod n 10). lia.
      * apply N.div_lt_upper_bound; lia.
Qed.

Lemma str_of_N_val n : digits_val 0 (str_of_N n) = Some n.
Proof.
  unfold str_of_N. apply digits_fuel_val. rewrite N2Nat.id. apply N.size_gt.
Qed.

Lemma digits_fuel_digits f : forall n, Forall (fun c => is_digit c = true) (digits_fuel f n).
Proof.
  induction f as [|f IH]; intros n; [constructor|].
  rewrite digits_fuel_S. destruct (N.ltb_spec n 10) as [Hlt|Hge].
  - constructor; [apply is_digit_48; assumption|constructor].
  - apply Forall_app. split; [apply IH|].
    constructor; [|constructor]. apply is_digit_48. apply N.mod_lt. lia.
Qed.

Lemma digits_fuel_nonempty f n : digits_fuel (S f) n <> [].
Proof.
  rewrite digits_fuel_S. destruct (n <? 10); [discriminate|].
  intros H. apply app_eq_nil in H as [_ H]. discriminate.
Qed.

Lemma str_of_N_digits n : Forall (fun c => is_digit c = true) (str_of_N n).
Proof. apply digits_fuel_digits. Qed.

Lemma str_of_N_nonempty n : str_of_N n <> [].
Proof. apply digits_fuel_nonempty. Qed.

Lemma is_digit_range c : is_digit c = true -> 48 <= c <= 57.
Proof.
  unfold is_digit. intros H. apply andb_true_iff in H as [H1 H2].
  apply N.leb_le in H1. apply N.leb_le in H2. lia.
Qed.

(* every character of str(z) is '-' or an ASCII digit *)
Definition int_char (c : N) : Prop := 45 <= c <= 57.

Lemma str_of_Z_chars z : Forall int_char (str_of_Z z).
Proof.
  assert (HN : forall n, Forall int_char (str_of_N n)).
  { intros n. eapply Forall_impl; [|apply str_of_N_digits].
    intros c Hc. apply is_digit_range in Hc. unfold int_char. lia. }
  unfold str_of_Z. destruct (z <? 0)%Z; [|apply HN].
  constructor; [unfold int_char; lia|apply HN].
Qed.

Lemma str_of_Z_no_sp z : no_sp (str_of_Z z).
Proof.
  eapply Forall_impl; [|apply str_of_Z_chars].
  intros c Hc. unfold int_char in Hc. apply is_space_graph. lia.
Qed.

Lemma str_of_Z_no_lb z : no_lb (str_of_Z z).
Proof.
  eapply Forall_impl; [|apply str_of_Z_chars].
  intros c Hc. unfold int_char in Hc. apply is_linebreak_printable. lia.
Qed.

Lemma nat_of_digits_str_of_N n : nat_of_digits (str_of_N n) = Some n.
Proof.
  pose proof (str_of_N_val n) as Hv. pose proof (str_of_N_nonempty n) as Hne.
  unfold nat_of_digits. destruct (str_of_N n); [contradiction|exact Hv].
Qed.

Theorem int_of_str_of_Z z : int_of_str (str_of_Z z) = Some z.
Proof.
  unfold int_of_str. rewrite strip_no_sp by apply str_of_Z_no_sp.
  unfold str_of_Z. destruct (Z.ltb_spec z 0) as [Hneg|Hpos].
  - change (45 =? 45) with true. cbv match.
    rewrite nat_of_digits_str_of_N. cbn [option_map]. f_equal; lia.
  - pose proof (nat_of_digits_str_of_N (Z.to_N z)) as Hv.
    pose proof (str_of_N_digits (Z.to_N z)) as Hd.
    destruct (str_of_N (Z.to_N z)) as [|c r] eqn:E.
    + exfalso. apply (str_of_N_nonempty (Z.to_N z)). exact E.
    + inversion Hd as [|? ? Hc _]; subst. apply is_digit_range in Hc.
      decide_cmp. cbv match. rewrite Hv. cbn [option_map]. f_equal; lia.
Qed.
