(* Python str as a list of code points, and the str methods the modelled code uses.
   Model only -- no proofs in this file. *)
From Coq Require Import List NArith ZArith Bool.
Import ListNotations.
Local Open Scope N_scope.

Definition str := list N.

Fixpoint str_eqb (a b : str) : bool :=
  match a, b with
  | [], [] => true
  | x :: a', y :: b' => N.eqb x y && str_eqb a' b'
  | _, _ => false
  end.

Definition ostr_eqb (a b : option str) : bool :=
  match a, b with
  | None, None => true
  | Some x, Some y => str_eqb x y
  | _, _ => false
  end.

(* sep.join(parts) *)
Fixpoint join (sep : str) (parts : list str) : str :=
  match parts with
  | [] => []
  | [p] => p
  | p :: r => p ++ sep ++ join sep r
  end.

(* str.isspace() for one code point (CPython 3.12 / Unicode 15) *)
Definition is_space (c : N) : bool :=
  ((9 <=? c) && (c <=? 13)) || ((28 <=? c) && (c <=? 32)) || (c =? 133) || (c =? 160)
  || (c =? 5760) || ((8192 <=? c) && (c <=? 8202)) || (c =? 8232) || (c =? 8233)
  || (c =? 8239) || (c =? 8287) || (c =? 12288).

Fixpoint lstrip (s : str) : str :=
  match s with
  | c :: r => if is_space c then lstrip r else s
  | [] => []
  end.
Definition rstrip (s : str) : str := rev (lstrip (rev s)).
Definition strip (s : str) : str := rstrip (lstrip s).

(* line boundaries of str.splitlines() *)
Definition is_linebreak (c : N) : bool :=
  ((10 <=? c) && (c <=? 13)) || ((28 <=? c) && (c <=? 30)) || (c =? 133) || (c =? 8232) || (c =? 8233).

(* cur is the current line, reversed *)
Fixpoint splitlines_aux (cur : str) (s : str) : list str :=
  match s with
  | [] => match cur with [] => [] | _ => [rev cur] end
  | c :: r =>
      if is_linebreak c then
        rev cur :: (if c =? 13
                    then match r with
                         | d :: r' => if d =? 10 then splitlines_aux [] r' else splitlines_aux [] r
                         | [] => splitlines_aux [] r
                         end
                    else splitlines_aux [] r)
      else splitlines_aux (c :: cur) r
  end.
Definition splitlines (s : str) : list str := splitlines_aux [] s.

(* str.replace(a, b) for single characters *)
Definition replace_char (a b : N) (s : str) : str := map (fun c => if c =? a then b else c) s.

(* str(int) *)
Fixpoint digits_fuel (fuel : nat) (n : N) : str :=
  match fuel with
  | O => []
  | S f => if n <? 10 then [48 + n] else digits_fuel f (n / 10) ++ [48 + n mod 10]
  end.
Definition str_of_N (n : N) : str := digits_fuel (S (N.to_nat (N.size n))) n.
Definition str_of_Z (z : Z) : str :=
  if (z <? 0)%Z then 45 :: str_of_N (Z.to_N (- z)) else str_of_N (Z.to_N z).

(* int(s): after stripping, an optional sign followed by one or more ASCII digits.
   (CPython additionally accepts underscores between digits and non-ASCII decimal
   digits; the model returns None = ValueError there, and the harness does not
   generate such inputs.) *)
Definition is_digit (c : N) : bool := (48 <=? c) && (c <=? 57).
Fixpoint digits_val (acc : N) (s : str) : option N :=
  match s with
  | [] => Some acc
  | c :: r => if is_digit c then digits_val (acc * 10 + (c - 48)) r else None
  end.
Definition nat_of_digits (s : str) : option N :=
  match s with [] => None | _ => digits_val 0 s end.
Definition int_of_str (s0 : str) : option Z :=
  match strip s0 with
  | c :: r =>
      if c =? 45 then option_map (fun n => (- Z.of_N n)%Z) (nat_of_digits r)
      else if c =? 43 then option_map Z.of_N (nat_of_digits r)
      else option_map Z.of_N (nat_of_digits (c :: r))
  | [] => None
  end.

(* whitespace clean-up of xmldiff.utils: re.sub("\\s+", " ", text).  Python's \s
   for str patterns is str.isspace(). *)
Fixpoint cleanup_ws_aux (in_ws : bool) (s : str) : str :=
  match s with
  | [] => []
  | c :: r => if is_space c then (if in_ws then cleanup_ws_aux true r else 32 :: cleanup_ws_aux true r)
              else c :: cleanup_ws_aux false r
  end.
Definition cleanup_whitespace (s : str) : str := cleanup_ws_aux false s.

(* Python's str ordering: lexicographic by code point *)
Fixpoint str_ltb (a b : str) : bool :=
  match a, b with
  | _, [] => false
  | [], _ :: _ => true
  | x :: a', y :: b' => if x <? y then true else if y <? x then false else str_ltb a' b'
  end.
Definition str_leb (a b : str) : bool := negb (str_ltb b a).
Fixpoint insert_str (x : str) (l : list str) : list str :=
  match l with
  | [] => [x]
  | y :: r => if str_leb x y then x :: l else y :: insert_str x r
  end.
(* sorted(keys) for pairwise distinct keys *)
Definition sort_strs (l : list str) : list str := fold_right insert_str [] l.
Definition smem (x : str) (l : list str) : bool := existsb (str_eqb x) l.
