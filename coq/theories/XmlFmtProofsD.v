(* XmlFmtProofsD -- C09 composed with the soundness of the differ (DifferSound.gen_script_replay):
   accepting every marked change in the XML output of the differ's own script gives the RIGHT document.
   No axioms. *)
From Coq Require Import List NArith ZArith Bool Arith Lia.
Import ListNotations.
Require Import XV.Str XV.Json XV.TextFormat XV.Forest XV.Matcher XV.Differ XV.Spec XV.Path XV.WF XV.ForestProofs XV.TreeProofs
               XV.AttrProofs XV.PathProofs XV.Render XV.DifferSound XV.PipelineProofs XV.XmlFmt XV.Projections
               XV.XmlFmtProofs1 XV.XmlFmtProofs2 XV.XmlFmtProofs3 XV.XmlFmtProofs4 XV.XmlFmtProofs5 XV.XmlFmtProofs6 XV.XmlFmtProofs9.
Require XV.Placeholder XV.PlaceholderUndo.
Local Open Scope nat_scope.

Definition tree_ind2 (P : tree -> Prop)
  (H : forall l kids, Forall P kids -> P (Node l kids)) : forall t, P t :=
  fix F (t : tree) : P t :=
    match t with
    | Node l kids =>
        H l kids ((fix G (ks : list tree) : Forall P ks :=
                     match ks with [] => Forall_nil P | k :: r => Forall_cons k (F k) (G r) end) kids)
    end.

Lemma lst_eqb_attr_eq a b : lst_eqb attr_eqb a b = true -> a = b.
Proof.
  revert b; induction a as [|[k v] a IH]; intros [|[k' v'] b] H; cbn in H; try discriminate; [reflexivity|].
  apply andb_true_iff in H as [H1 H2]. unfold attr_eqb in H1. cbn [fst snd] in H1.
  apply andb_true_iff in H1 as [Hk Hv]. apply streqb_true in Hk. apply streqb_true in Hv. subst. f_equal. apply IH, H2.
Qed.

Lemma otext_eqb_eq a b : otext_eqb a b = true -> otxt a = otxt b.
Proof. unfold otext_eqb. intros H. apply streqb_true in H. destruct a, b; exact H. Qed.

Lemma tag_eqb_eq a b : tag_eqb a b = true -> a = b.
Proof. destruct a, b; cbn; intros H; try discriminate; [apply streqb_true in H; congruence|reflexivity]. Qed.

(* equal documents (C01's conclusion) stay equal when the comments are removed *)
Lemma tree_equivb_rc ws : forall a b wt, tree_equivb_aux wt a b = true ->
  canon ws (if wt then remove_comments a else drop_root_tail (remove_comments a))
  = canon ws (if wt then remove_comments b else drop_root_tail (remove_comments b)).
Proof.
  induction a as [la ka IH] using tree_ind2. intros [lb kb] wt H. cbn [tree_equivb_aux] in H.
  apply andb_true_iff in H as [HL HK]. unfold label_equivb in HL.
  apply andb_true_iff in HL as [HL Htail]. apply andb_true_iff in HL as [HL Htext]. apply andb_true_iff in HL as [Htag Hattrs].
  apply tag_eqb_eq in Htag. apply lst_eqb_attr_eq in Hattrs. apply otext_eqb_eq in Htext.
  assert (Hkids : map (canon ws) ((fix go (ks : list tree) : list xtree :=
                     match ks with [] => [] | (Node lk _ as k) :: r => if is_comment (ltag lk) then go r else remove_comments k :: go r end) ka)
                = map (canon ws) ((fix go (ks : list tree) : list xtree :=
                     match ks with [] => [] | (Node lk _ as k) :: r => if is_comment (ltag lk) then go r else remove_comments k :: go r end) kb)).
  { clear - IH HK. revert kb HK. induction ka as [|x ka IHk]; intros [|y kb] HK; try discriminate; [reflexivity|].
    apply andb_true_iff in HK as [H1 H2]. inversion IH as [|? ? IHx IHr]; subst.
    destruct x as [lx kx]. destruct y as [ly ky].
    assert (Hc : is_comment (ltag lx) = is_comment (ltag ly)).
    { cbn [tree_equivb_aux] in H1. apply andb_true_iff in H1 as [H1 _]. unfold label_equivb in H1.
      apply andb_true_iff in H1 as [H1 _]. apply andb_true_iff in H1 as [H1 _]. apply andb_true_iff in H1 as [H1 _].
      apply tag_eqb_eq in H1. now rewrite H1. }
    rewrite <- Hc. destruct (is_comment (ltag lx)); [apply IHk; assumption|].
    cbn [map]. f_equal; [apply (IHx (Node ly ky) true H1)|apply IHk; assumption]. }
  destruct wt; cbn [remove_comments drop_root_tail xtag xattrs xtext xkids canon].
  - cbn [negb orb] in Htail. apply otext_eqb_eq in Htail. unfold lab_tag. rewrite Htag, Hattrs, Htext, Htail, Hkids. reflexivity.
  - unfold lab_tag. rewrite Htag, Hattrs, Htext, Hkids. reflexivity.
Qed.

Corollary tree_equivb_xequiv ws a b : tree_equivb a b = true -> xequiv ws (remove_comments a) (remove_comments b).
Proof. intros H. unfold xequiv. apply (tree_equivb_rc ws a b false H). Qed.

Lemma xequiv_trans ws a b c : xequiv ws a b -> xequiv ws b c -> xequiv ws a c.
Proof. unfold xequiv. congruence. Qed.

(* C09 for the differ's own script, every valid matching *)
Theorem accept_differ c o rootns pe L R rootL rootR m gs T :
  wf_forest L rootL -> wf_forest R rootR -> valid_matching L R rootL rootR m ->
  (forall x, desc L rootL x -> is_comment (ltag (flab L x)) = false) ->
  let s := gen_script [] R rootR L rootL m in
  let W := remove_comments (doc_tree L rootL) in
  PlaceholderUndo.npua W = true -> clean_tags W -> nodiff W ->
  render_script pe rootL L (out s) = Some gs ->
  fscript_ok rootns pe rootL [(Some DIFF_PREFIX, DIFF_NS)] L (out s) -> Forall names_plain (out s) ->
  run_ok c o rootns (FS W Placeholder.ph_init [(Some DIFF_PREFIX, DIFF_NS)]) gs ->
  xml_format c o rootns Placeholder.ph_init gs W = FOk T ->
  xequiv (ws_text c) (accept T) (remove_comments (doc_tree R rootR)).
Proof.
  intros HwfL HwfR Hvm HC s W HP HCl HN Hren Hok Hnp Hro H.
  destruct (gen_script_replay [] L R rootL rootR m HwfL HwfR Hvm) as (_ & Hrun & Heq). fold s in Hrun, Heq.
  apply doc_equiv_nil in Heq.
  eapply xequiv_trans; [apply (accept_format c o rootns pe rootL L (out s) gs (Differ.W s) T HwfL HC HP HCl HN Hrun Hren Hok Hnp Hro H)|].
  apply tree_equivb_xequiv, Heq.
Qed.
