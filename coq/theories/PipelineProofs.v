(* PipelineProofs.v -- glue between the matcher theorems (MatcherProofs), the
   differ theorems (DifferSound, DifferEff) and the documented semantics (Spec):
   theorems about the whole pipeline [Pipeline.diff_model].

   Exported, in plain words:
   - post_order of a well-formed forest has no duplicates and lists exactly the
     document ([post_order_NoDup], [post_order_desc], [post_order_alive],
     [post_order_doc_nodes]);
   - [match_valid_matching]: what Differ.match() returns is a valid_matching
     (the hypothesis of all differ theorems);
   - namespace actions are no-ops of the documented semantics
     ([run_spec_ns], [ns_prologue_all_ns]);
   - [diff_model_sound] (C01): the script of diff_model is applicable action by
     action (run_spec) and leads to a document equal to the right one;
     [diff_model_checked] (C17): every non-namespace action changes the document;
   - [run_spec_split] and the clause-by-clause inversion of spec_apply (C05);
   - [attr_acts_ok]: no action names an ignored attribute (C13), for EVERY
     matching and EVERY pair of forests ([gen_script_attr_acts_ok]);
   - [empty_script_equiv] (C03, converse direction);
   - [diff_model_counts], [diff_model_created_not_deleted] (C17);
   - [diff_model_relab] (C13): the pipeline looks at the attributes of the RIGHT
     document only through the filter that removes the ignored ones -- replacing
     them by lists with the same non-ignored part changes neither the script nor
     the final tree ([match_nodes_relab], [attr_run_right_filtered],
     [gen_script_relab]; [lcs_seq_ext]);
   - [ignored_only_empty_script] (C13): documents that differ only in ignored
     attributes ([same_doc_upto]) get the empty script (via [graft]: the right
     document with the left one's ignored attributes is an equal document, C03). *)
From Coq Require Import List NArith ZArith Arith Bool Lia Sorting.Permutation.
Import ListNotations.
Require Import XV.Str XV.Forest XV.LCS XV.LCSProofs XV.Matcher XV.MatcherProofs XV.Differ XV.Spec XV.WF
               XV.ForestProofs XV.TreeProofs XV.AttrProofs XV.DifferFrame XV.DifferAlign XV.DifferSound XV.DifferEff
               XV.DifferCounters XV.DifferCount XV.EqualDocsBase XV.EqualDocs XV.Path XV.Render XV.Pipeline.

(* ------------------------------------------------------------------ *)
(** * post_order, desc, alive, doc_nodes                                *)
(* ------------------------------------------------------------------ *)
Lemma post_order_NoDup f root : wf_forest f root -> NoDup (post_order (S (fnext f)) f root).
Proof. intros Hwf. exact (po_NoDup f root Hwf). Qed.

Lemma post_order_desc f root n :
  wf_forest f root -> (In n (post_order (S (fnext f)) f root) <-> desc f root n).
Proof. intros Hwf. exact (po_In f root Hwf n). Qed.

Lemma post_order_alive f root n :
  wf_forest f root -> (In n (post_order (S (fnext f)) f root) <-> alive f root n = true).
Proof. intros Hwf. rewrite (alive_iff f root n Hwf). apply post_order_desc, Hwf. Qed.

Lemma post_order_doc_nodes f root n :
  wf_forest f root -> (In n (post_order (S (fnext f)) f root) <-> In n (doc_nodes f root)).
Proof. intros Hwf. rewrite (doc_nodes_iff f root n Hwf). apply post_order_desc, Hwf. Qed.

(* ------------------------------------------------------------------ *)
(** * The matcher delivers a valid matching                             *)
(* ------------------------------------------------------------------ *)
Section Glue.
Variable sim : Type.
Variables (sim_ltb sim_leb : sim -> sim -> bool) (sim_is_one : sim -> bool) (zero one : sim).
Variable leaf_sim : str -> str -> sim.
Variable combine : sim -> nat -> nat -> sim.
Local Notation matchn := (match_nodes sim sim_ltb sim_leb sim_is_one zero one leaf_sim combine).
Local Notation diffm := (diff_model sim sim_ltb sim_leb sim_is_one zero one leaf_sim combine).
Local Notation vopts := (valid_options sim sim_leb sim_is_one zero).

Lemma match_valid_matching o L R rootL rootR m :
  vopts o -> wf_forest L rootL -> wf_forest R rootR ->
  matchn o L R rootL rootR = Some m -> valid_matching L R rootL rootR m.
Proof.
  intros [HF H1] HwfL HwfR Hm.
  destruct (match_valid sim sim_ltb sim_leb sim_is_one zero one leaf_sim combine o L R rootL rootR m
              HF H1 (post_order_NoDup L rootL HwfL) (post_order_NoDup R rootR HwfR) Hm)
    as (V1 & V2 & V3 & V4 & V5 & _).
  split; [exact V1|]. split; [exact V2|]. split; [exact V3|]. split.
  - intros l r Hin. destruct (V4 l r Hin) as [Hl Hr].
    split; [apply (post_order_desc L rootL l HwfL), Hl|apply (post_order_desc R rootR r HwfR), Hr].
  - intros l r Hin Hne. exact (V5 l r Hin Hne).
Qed.

Lemma match_exists o L R rootL rootR : exists m, matchn o L R rootL rootR = Some m.
Proof. apply match_total. Qed.

(* ------------------------------------------------------------------ *)
(** * Namespace actions and the documented semantics                    *)
(* ------------------------------------------------------------------ *)
Lemma run_spec_ns root f pro :
  forallb is_ns_action pro = true -> run_spec root f pro = Some f.
Proof.
  induction pro as [|a pro IH]; intros H; cbn in *; [reflexivity|].
  apply andb_true_iff in H as [Ha Hp]. destruct a; try discriminate; cbn; apply IH, Hp.
Qed.

Lemma run_checked_ns root f pro :
  forallb is_ns_action pro = true -> run_checked root f pro = Some f.
Proof.
  induction pro as [|a pro IH]; intros H; cbn in *; [reflexivity|].
  apply andb_true_iff in H as [Ha Hp]. destruct a; try discriminate; cbn; apply IH, Hp.
Qed.

Lemma ns_prologue_r_all_ns lns : forall rns pro,
  ns_prologue_r lns rns = Some pro -> forallb is_ns_action pro = true.
Proof.
  induction rns as [|[k v] rns IH]; intros pro H; cbn [ns_prologue_r] in H.
  - inversion H. reflexivity.
  - destruct (ns_get lns k) as [v'|].
    + destruct (str_eqb v v'); [apply IH, H|discriminate].
    + destruct (ns_prologue_r lns rns) as [p|]; [|discriminate]. inversion H. cbn. apply (IH p eq_refl).
Qed.

Lemma ns_prologue_all_ns lns rns pro :
  ns_prologue lns rns = Some pro -> forallb is_ns_action pro = true.
Proof.
  unfold ns_prologue. destruct (ns_prologue_r lns rns) as [ins|] eqn:E; [|discriminate].
  intros H. inversion H. rewrite forallb_app. apply andb_true_iff. split.
  - eapply ns_prologue_r_all_ns; eauto.
  - clear. induction lns as [|[k v] lns IH]; [reflexivity|]. cbn [flat_map fst].
    rewrite forallb_app, IH, andb_true_r. destruct (ns_get rns k); reflexivity.
Qed.

(* ------------------------------------------------------------------ *)
(** * diff_model: soundness (C01) and effectiveness (C17)               *)
(* ------------------------------------------------------------------ *)
(* the shape of the result of diff_model *)
Lemma diff_model_shape o L R rootL rootR lns rns :
  vopts o -> wf_forest L rootL -> wf_forest R rootR -> ns_consistent lns rns ->
  exists m pro,
    matchn o L R rootL rootR = Some m /\ valid_matching L R rootL rootR m /\
    ns_prologue lns rns = Some pro /\ forallb is_ns_action pro = true /\
    let s := gen_script (oignored sim o) R rootR L rootL m in
    diffm o L R rootL rootR lns rns = Some (pro ++ out s, W s).
Proof.
  intros Hv HwfL HwfR Hns.
  destruct (match_exists o L R rootL rootR) as [m Hm].
  pose proof (match_valid_matching o L R rootL rootR m Hv HwfL HwfR Hm) as Hvm.
  unfold ns_consistent in Hns. destruct (ns_prologue lns rns) as [pro|] eqn:Epro; [|congruence].
  exists m, pro. split; [exact Hm|]. split; [exact Hvm|]. split; [reflexivity|].
  split; [eapply ns_prologue_all_ns; eauto|].
  intros s. unfold diff_model, diff_given. rewrite Hm, Epro.
  destruct (gen_script_replay (oignored sim o) L R rootL rootR m HwfL HwfR Hvm) as (E & _).
  fold s in E. fold s. rewrite E. reflexivity.
Qed.

Theorem diff_model_sound : forall o L R rootL rootR lns rns,
  vopts o -> wf_forest L rootL -> wf_forest R rootR -> ns_consistent lns rns ->
  exists script W,
    diffm o L R rootL rootR lns rns = Some (script, W)
    /\ run_spec rootL L script = Some W
    /\ doc_equiv (oignored sim o) W rootL R rootR.
Proof.
  intros o L R rootL rootR lns rns Hv HwfL HwfR Hns.
  destruct (diff_model_shape o L R rootL rootR lns rns Hv HwfL HwfR Hns)
    as (m & pro & Hm & Hvm & Epro & Hpro & Hd).
  destruct (gen_script_replay (oignored sim o) L R rootL rootR m HwfL HwfR Hvm) as (_ & H2 & H3).
  eexists _, _. split; [exact Hd|]. split; [|exact H3].
  rewrite run_spec_app, (run_spec_ns rootL L pro Hpro). exact H2.
Qed.

Theorem diff_model_checked : forall o L R rootL rootR lns rns,
  vopts o -> wf_forest L rootL -> wf_forest R rootR -> ns_consistent lns rns ->
  exists script W,
    diffm o L R rootL rootR lns rns = Some (script, W)
    /\ run_checked rootL L script = Some W.
Proof.
  intros o L R rootL rootR lns rns Hv HwfL HwfR Hns.
  destruct (diff_model_shape o L R rootL rootR lns rns Hv HwfL HwfR Hns)
    as (m & pro & Hm & Hvm & Epro & Hpro & Hd).
  eexists _, _. split; [exact Hd|].
  rewrite run_checked_app, (run_checked_ns rootL L pro Hpro).
  apply (gen_script_effective (oignored sim o) L R rootL rootR m HwfL HwfR Hvm).
Qed.

End Glue.

(* ------------------------------------------------------------------ *)
(** * Splitting a run; inversion of spec_apply (C05)                    *)
(* ------------------------------------------------------------------ *)
Lemma run_spec_split root L pre a post T :
  run_spec root L (pre ++ a :: post) = Some T ->
  exists f f', run_spec root L pre = Some f /\ spec_apply root f a = Some f' /\
               run_spec root f' post = Some T.
Proof.
  rewrite run_spec_app. destruct (run_spec root L pre) as [f|]; [|discriminate].
  cbn [run_spec]. destruct (spec_apply root f a) as [f'|] eqn:E; [|discriminate].
  intros H. exists f, f'. auto.
Qed.

Ltac split_andb H :=
  repeat match type of H with
         | (_ && _) = true => let H' := fresh H in apply andb_true_iff in H as [H H']
         end.

Lemma spec_upd_attr_inv root f n k v f' :
  spec_apply root f (IUpdAttr n k v) = Some f' ->
  alive f root n = true /\ is_elem f n = true /\ ahas (lattrs (labof f n)) k = true.
Proof.
  cbn [spec_apply]. destruct (alive f root n && is_elem f n && ahas (lattrs (labof f n)) k) eqn:E; [|discriminate].
  intros _. split_andb E. auto.
Qed.

Lemma spec_ins_attr_inv root f n k v f' :
  spec_apply root f (IInsAttr n k v) = Some f' ->
  alive f root n = true /\ is_elem f n = true /\ ahas (lattrs (labof f n)) k = false.
Proof.
  cbn [spec_apply]. destruct (alive f root n && is_elem f n && negb (ahas (lattrs (labof f n)) k)) eqn:E; [|discriminate].
  intros _. split_andb E. apply negb_true_iff in E0. auto.
Qed.

Lemma spec_del_attr_inv root f n k f' :
  spec_apply root f (IDelAttr n k) = Some f' ->
  alive f root n = true /\ is_elem f n = true /\ ahas (lattrs (labof f n)) k = true.
Proof.
  cbn [spec_apply]. destruct (alive f root n && is_elem f n && ahas (lattrs (labof f n)) k) eqn:E; [|discriminate].
  intros _. split_andb E. auto.
Qed.

Lemma spec_ren_attr_inv root f n k k' f' :
  spec_apply root f (IRenAttr n k k') = Some f' ->
  alive f root n = true /\ is_elem f n = true /\
  ahas (lattrs (labof f n)) k = true /\ ahas (lattrs (labof f n)) k' = false.
Proof.
  cbn [spec_apply].
  destruct (aget (lattrs (labof f n)) k) as [v|] eqn:Ek; [|discriminate].
  destruct (alive f root n && is_elem f n && negb (ahas (lattrs (labof f n)) k')) eqn:E; [|discriminate].
  intros _. split_andb E. apply negb_true_iff in E0.
  split; [exact E|]. split; [exact E1|]. split; [|exact E0]. unfold ahas. rewrite Ek. reflexivity.
Qed.

Lemma spec_insert_inv root f t tag pos n f' :
  spec_apply root f (IInsert t tag pos n) = Some f' ->
  alive f root t = true /\ is_elem f t = true /\ pos <= length (kidsof f t) /\ n = fnext f.
Proof.
  cbn [spec_apply].
  destruct (alive f root t && is_elem f t && Nat.leb pos (length (kidsof f t)) && Nat.eqb n (fnext f)) eqn:E;
    [|discriminate].
  intros _. split_andb E. apply Nat.leb_le in E1. apply Nat.eqb_eq in E0. auto.
Qed.

Lemma spec_insert_comment_inv root f t pos txt n f' :
  spec_apply root f (IInsertComment t pos txt n) = Some f' ->
  alive f root t = true /\ is_elem f t = true /\ pos <= length (kidsof f t) /\ n = fnext f.
Proof.
  cbn [spec_apply].
  destruct (alive f root t && is_elem f t && Nat.leb pos (length (kidsof f t)) && Nat.eqb n (fnext f)) eqn:E;
    [|discriminate].
  intros _. split_andb E. apply Nat.leb_le in E1. apply Nat.eqb_eq in E0. auto.
Qed.

Lemma spec_move_inv root f n t pos f' :
  spec_apply root f (IMove n t pos) = Some f' ->
  alive f root n = true /\ n <> root /\ alive f root t = true /\ is_elem f t = true /\
  mem t (subtree (S (fnext f)) f n) = false /\
  pos <= length (remove_id n (kidsof f t)).
Proof.
  cbn [spec_apply].
  destruct (alive f root n && negb (Nat.eqb n root) && alive f root t && is_elem f t
            && negb (mem t (subtree (S (fnext f)) f n))
            && Nat.leb pos (length (remove_id n (kidsof f t)))) eqn:E; [|discriminate].
  intros _. split_andb E.
  apply negb_true_iff, Nat.eqb_neq in E4. apply negb_true_iff in E1. apply Nat.leb_le in E0.
  auto 10.
Qed.

Lemma spec_delete_inv root f n f' :
  spec_apply root f (IDelete n) = Some f' ->
  alive f root n = true /\ n <> root /\ kidsof f n = [].
Proof.
  cbn [spec_apply].
  destruct (alive f root n && negb (Nat.eqb n root) && match kidsof f n with [] => true | _ => false end) eqn:E;
    [|discriminate].
  intros _. split_andb E. apply negb_true_iff, Nat.eqb_neq in E1.
  destruct (kidsof f n); [auto|discriminate].
Qed.

(* all clauses of C05 for one applicable script *)
Definition applicable_clauses (root : id) (L : forest) (script : list iact) : Prop :=
  forall pre a post f, script = pre ++ a :: post -> run_spec root L pre = Some f ->
  match a with
  | IUpdAttr n k _ => ahas (lattrs (labof f n)) k = true
  | IInsAttr n k _ => ahas (lattrs (labof f n)) k = false
  | IDelAttr n k => ahas (lattrs (labof f n)) k = true
  | IRenAttr n k k' => ahas (lattrs (labof f n)) k = true /\ ahas (lattrs (labof f n)) k' = false
  | IInsert t _ pos _ | IInsertComment t pos _ _ => pos <= length (kidsof f t)
  | IMove n t pos => pos <= length (remove_id n (kidsof f t))
                     /\ mem t (subtree (S (fnext f)) f n) = false /\ n <> root
  | IDelete n => kidsof f n = [] /\ n <> root
  | _ => True
  end.

Lemma run_spec_clauses root L script T :
  run_spec root L script = Some T -> applicable_clauses root L script.
Proof.
  intros Hrun pre a post f -> Hpre.
  destruct (run_spec_split root L pre a post T Hrun) as (f0 & f' & E1 & E2 & _).
  rewrite Hpre in E1. inversion E1; subst f0. clear E1.
  destruct a; try exact I.
  - apply spec_insert_inv in E2. tauto.
  - apply spec_insert_comment_inv in E2. tauto.
  - apply spec_move_inv in E2. tauto.
  - apply spec_delete_inv in E2. tauto.
  - apply spec_upd_attr_inv in E2. tauto.
  - apply spec_ins_attr_inv in E2. tauto.
  - apply spec_del_attr_inv in E2. tauto.
  - apply spec_ren_attr_inv in E2. tauto.
Qed.

(* ------------------------------------------------------------------ *)
(** * C03, converse direction                                           *)
(* ------------------------------------------------------------------ *)
Theorem empty_script_equiv ignored L R rootL rootR m :
  wf_forest L rootL -> wf_forest R rootR -> valid_matching L R rootL rootR m ->
  out (gen_script ignored R rootR L rootL m) = [] ->
  doc_equiv ignored L rootL R rootR.
Proof.
  intros HwfL HwfR Hvm He.
  destruct (gen_script_replay ignored L R rootL rootR m HwfL HwfR Hvm) as (_ & H2 & H3).
  cbv zeta in H2, H3. rewrite He in H2. cbn [run_spec] in H2. injection H2 as E.
  rewrite <- E in H3. exact H3.
Qed.

(* ------------------------------------------------------------------ *)
(** * No action names an ignored attribute (C13)                        *)
(* ------------------------------------------------------------------ *)
(* holds of EVERY run of the differ: no hypothesis on the forests or on the
   matching is needed *)
Definition act_ok (ign : list str) (a : iact) : Prop :=
  match a with
  | IUpdAttr _ k _ | IInsAttr _ k _ | IDelAttr _ k => ~ In k ign
  | IRenAttr _ k k' => ~ In k ign /\ ~ In k' ign
  | _ => True
  end.
Definition attr_acts_ok (ign : list str) (script : list iact) : Prop := Forall (act_ok ign) script.

Definition keys_ok (ign : list str) (a : attr_act) : Prop := forall k, In k (act_keys a) -> ~ In k ign.

Lemma lift_ok ign n a : keys_ok ign a -> act_ok ign (lift n a).
Proof.
  unfold keys_ok. destruct a; cbn [lift act_ok act_keys]; intros H;
    try (apply H; left; reflexivity).
  split; apply H; [left|right; left]; reflexivity.
Qed.

Lemma fold_left_inv_in {A K} (I : A -> Prop) (P : K -> Prop) (f : A -> K -> A) :
  (forall a k, I a -> P k -> I (f a k)) ->
  forall ks a, (forall k, In k ks -> P k) -> I a -> I (fold_left f ks a).
Proof.
  intros Hstep ks. induction ks as [|k ks IH]; intros a HP Ha; cbn [fold_left]; [exact Ha|].
  apply IH; [intros x Hx; apply HP; right; exact Hx|]. apply Hstep; [exact Ha|apply HP; left; reflexivity].
Qed.

Section KeysOk.
Variable ign : list str.
Local Notation Q := (fun p : pst => Forall (keys_ok ign) (pacts p)).

Lemma Q_snoc p a l e : Q p -> keys_ok ign a -> Q (P (pacts p ++ [a]) l e).
Proof. cbn [pacts]. intros H1 H2. apply Forall_app. split; [exact H1|]. constructor; [exact H2|constructor]. Qed.

Lemma upd_step_Q ra p k : Q p -> ~ In k ign -> Q (upd_step ra p k).
Proof.
  intros HQ Hk. unfold upd_step.
  destruct (aget (pcur p) k) as [a|]; [|exact HQ]. destruct (aget ra k) as [b|]; [|exact HQ].
  destruct (str_eqb a b); [exact HQ|]. apply Q_snoc; [exact HQ|].
  intros x [<-|[]]. exact Hk.
Qed.

Definition RQ (x : pst * list str * list (str * str)) : Prop :=
  Q (fst (fst x)) /\ (forall k, In k (snd (fst x)) -> ~ In k ign) /\
  (forall v k, aget (snd x) v = Some k -> ~ In k ign).

Lemma ren_step_RQ x k : RQ x -> ~ In k ign -> RQ (ren_step x k).
Proof.
  destruct x as [[p newk] nmap]. intros (H1 & H2 & H3) Hk. unfold RQ in *. cbn [fst snd] in *.
  unfold ren_step. destruct (aget (pcur p) k) as [v|]; cbn [fst snd]; [|auto].
  destruct (aget nmap v) as [rk|] eqn:Ev; cbn [fst snd]; [|auto].
  split; [|split].
  - apply Q_snoc; [exact H1|]. intros x [<-|[<-|[]]]; [exact Hk|eapply H3; eauto].
  - intros x Hx. apply filter_In in Hx as [Hx _]. apply H2, Hx.
  - intros v' k'. rewrite aget_adel. destruct (str_eqb v v'); [discriminate|apply H3].
Qed.

Lemma ren_fold_newk_incl ks : forall x k,
  In k (snd (fst (fold_left ren_step ks x))) -> In k (snd (fst x)).
Proof.
  induction ks as [|k0 ks IH]; intros x k H; cbn [fold_left] in H; [exact H|].
  apply IH in H. destruct x as [[p newk] nmap]. unfold ren_step in H. cbn [fst snd] in *.
  destruct (aget (pcur p) k0) as [v|]; cbn [fst snd] in H; [|exact H].
  destruct (aget nmap v); cbn [fst snd] in H; [|exact H]. apply filter_In in H as [H _]. exact H.
Qed.

Lemma newattrmap_In ra newk v k : aget (newattrmap ra newk) v = Some k -> In k newk.
Proof.
  unfold newattrmap.
  assert (G : forall l m, (forall v k, aget m v = Some k -> In k newk) ->
            forall v k, aget (fold_left (fun m kv => if smem (fst kv) newk then aput m (snd kv) (fst kv) else m) l m) v
                        = Some k -> In k newk).
  { induction l as [|[k0 v0] l IH]; intros m Hm v1 k1 H1; cbn [fold_left] in H1; [eapply Hm; eauto|].
    eapply IH; [|exact H1]. intros v2 k2. cbn [fst snd].
    destruct (smem_spec k0 newk) as [Hin|Hnin]; [|apply Hm].
    rewrite aget_aput. destruct (str_eqb v0 v2); [|apply Hm]. intros E. injection E as <-. exact Hin. }
  apply (G ra []). intros v' k' E. discriminate.
Qed.

Lemma ins_step_Q ra p k : Q p -> ~ In k ign -> Q (ins_step ra p k).
Proof.
  intros HQ Hk. unfold ins_step. destruct (aget ra k) as [b|]; [|exact HQ].
  apply Q_snoc; [exact HQ|]. intros x [<-|[]]. exact Hk.
Qed.

Lemma del_step_Q p k : Q p -> ~ In k ign -> Q (AttrProofs.del_step p k).
Proof.
  intros HQ Hk. unfold AttrProofs.del_step. destruct (ahas (pcur p) k); [|exact HQ].
  apply Q_snoc; [exact HQ|]. intros x [<-|[]]. exact Hk.
Qed.

(* the pure attribute script never mentions an ignored name -- whatever the two
   attribute lists (duplicate keys included) *)
Theorem attr_run_keys_ok la ra : Forall (keys_ok ign) (pacts (attr_run ign la ra)).
Proof.
  unfold attr_run. cbv zeta.
  assert (Klk : forall l k, In k (left_keys ign l) -> ~ In k ign) by (intros l k H; apply left_keys_In in H; tauto).
  assert (Knew : forall k, In k (new_keys ign la ra) -> ~ In k ign).
  { intros k H. apply new_keys_In in H as [H _]. eapply Klk; eauto. }
  assert (Krem : forall k, In k (removed_keys ign la ra) -> ~ In k ign).
  { intros k H. apply removed_keys_In in H as [H _]. eapply Klk; eauto. }
  assert (Kcom : forall k, In k (common_keys ign la ra) -> ~ In k ign).
  { intros k H. apply common_keys_In in H as [H _]. eapply Klk; eauto. }
  set (p1 := fold_left (upd_step ra) (sort_strs (common_keys ign la ra)) (P [] la false)).
  assert (Q1 : Q p1).
  { apply (fold_left_inv_in Q (fun k => ~ In k ign)).
    - intros a k. apply upd_step_Q.
    - intros k Hk. apply (proj1 (sort_strs_In _ _)) in Hk. apply Kcom, Hk.
    - constructor. }
  set (x0 := (p1, new_keys ign la ra, newattrmap ra (new_keys ign la ra))).
  assert (R2 : RQ (fold_left ren_step (sort_strs (removed_keys ign la ra)) x0)).
  { apply (fold_left_inv_in RQ (fun k => ~ In k ign)).
    - intros a k. apply ren_step_RQ.
    - intros k Hk. apply (proj1 (sort_strs_In _ _)) in Hk. apply Krem, Hk.
    - unfold RQ, x0. cbn [fst snd]. split; [exact Q1|]. split; [exact Knew|].
      intros v k E. apply Knew. eapply newattrmap_In; eauto. }
  destruct (fold_left ren_step (sort_strs (removed_keys ign la ra)) x0) as [[p2 nk2] nm2].
  destruct R2 as (Q2 & N2 & _). cbn [fst snd] in Q2, N2.
  apply (fold_left_inv_in Q (fun k => ~ In k ign)).
  - intros a k. apply del_step_Q.
  - intros k Hk. apply (proj1 (sort_strs_In _ _)) in Hk. apply Krem, Hk.
  - apply (fold_left_inv_in Q (fun k => ~ In k ign)).
    + intros a k. apply ins_step_Q.
    + intros k Hk. apply (proj1 (sort_strs_In _ _)) in Hk. apply N2, Hk.
    + exact Q2.
Qed.

(* ---- the differ's transitions only append acceptable actions ---- *)
Definition ext_ok (s s' : st) : Prop :=
  exists acts, out s' = out s ++ acts /\ Forall (act_ok ign) acts.

Lemma ext_ok_refl s : ext_ok s s.
Proof. exists []. rewrite app_nil_r. split; [reflexivity|constructor]. Qed.

Lemma ext_ok_same s s' : out s' = out s -> ext_ok s s'.
Proof. intros E. exists []. rewrite app_nil_r. split; [exact E|constructor]. Qed.

Lemma ext_ok_one s s' a : out s' = out s ++ [a] -> act_ok ign a -> ext_ok s s'.
Proof. intros E H. exists [a]. split; [exact E|]. constructor; [exact H|constructor]. Qed.

Lemma ext_ok_trans s1 s2 s3 : ext_ok s1 s2 -> ext_ok s2 s3 -> ext_ok s1 s3.
Proof.
  intros (a1 & E1 & F1) (a2 & E2 & F2). exists (a1 ++ a2).
  split; [rewrite E2, E1, app_assoc; reflexivity|]. apply Forall_app. split; assumption.
Qed.

Lemma ext_ok_fold {K} (f : st -> K -> st) :
  (forall s k, ext_ok s (f s k)) -> forall ks s, ext_ok s (fold_left f ks s).
Proof.
  intros Hstep ks. induction ks as [|k ks IH]; intros s; cbn [fold_left]; [apply ext_ok_refl|].
  eapply ext_ok_trans; [apply Hstep|apply IH].
Qed.

Lemma upd_attr_ext R s ln rn : ext_ok s (upd_attr ign R s ln rn).
Proof.
  destruct (upd_attr_lift ign R s ln rn) as (E & _).
  eexists. split; [exact E|]. apply Forall_forall. intros a Ha.
  apply in_map_iff in Ha as (x & <- & Hx). apply lift_ok.
  pose proof (attr_run_keys_ok (cur_attrs s ln) (lattrs (labof R rn))) as HF.
  rewrite Forall_forall in HF. apply HF, Hx.
Qed.

Lemma upd_tag_ext R s ln rn : ext_ok s (upd_tag R s ln rn).
Proof.
  unfold upd_tag. destruct (tag_eqb _ _); [apply ext_ok_refl|].
  destruct (ltag (labof R rn)); [|apply ext_ok_same; reflexivity].
  eapply ext_ok_one; [reflexivity|exact I].
Qed.

Lemma upd_text_ext R s ln rn : ext_ok s (upd_text R s ln rn).
Proof.
  unfold upd_text.
  set (s1 := if ostr_eqb (ltext (labof (W s) ln)) (ltext (labof R rn)) then s else _).
  assert (H1 : ext_ok s s1).
  { unfold s1. destruct (ostr_eqb _ _); [apply ext_ok_refl|]. eapply ext_ok_one; [reflexivity|exact I]. }
  eapply ext_ok_trans; [exact H1|]. cbv zeta.
  destruct (ostr_eqb (ltail (labof (W s1) ln)) (ltail (labof R rn))); [apply ext_ok_refl|].
  eapply ext_ok_one; [reflexivity|exact I].
Qed.

Lemma do_move_ext s c t pos y : ext_ok s (do_move s c t pos y).
Proof. eapply ext_ok_one; [reflexivity|exact I]. Qed.

Lemma align_body_ext R s c : ext_ok s (align_body R s c).
Proof.
  unfold align_body. destruct (inoL s c); [apply ext_ok_refl|].
  destruct (l2r s c) as [r|]; [|apply ext_ok_same; reflexivity].
  destruct (find_pos R s r) as [pos|]; [|apply ext_ok_same; reflexivity].
  destruct (parentof R r) as [rt|]; [|apply ext_ok_same; reflexivity].
  destruct (r2l s rt) as [lt|]; [apply do_move_ext|apply ext_ok_same; reflexivity].
Qed.

Lemma fold_out_same {K} (f : st -> K -> st) :
  (forall s k, out (f s k) = out s) -> forall ks s, out (fold_left f ks s) = out s.
Proof.
  intros H ks. induction ks as [|k ks IH]; intros s; cbn [fold_left]; [reflexivity|].
  rewrite IH. apply H.
Qed.

Lemma align_ext R s ln rn : ext_ok s (align R s ln rn).
Proof.
  rewrite align_unfold. cbv zeta. rewrite match_nil2.
  destruct (_ || _); [apply ext_ok_refl|].
  destruct (lcs_seq _ _ _) as [ps|]; [|apply ext_ok_same; reflexivity].
  eapply ext_ok_trans; [|apply ext_ok_fold; intros; apply align_body_ext].
  apply ext_ok_same.
  apply fold_out_same. intros; reflexivity.
Qed.

Lemma finish_ext R s ln y : ext_ok s (finish R s ln y).
Proof.
  unfold finish. cbv zeta. eapply ext_ok_trans; [apply align_ext|].
  destruct (r2l _ y); [apply upd_text_ext|apply ext_ok_same; reflexivity].
Qed.

Lemma visit_ext R s y : ext_ok s (visit ign R s y).
Proof.
  set (ltarget := match parentof R y with Some rp => r2l s rp | None => None end).
  destruct (r2l s y) as [c|] eqn:Er.
  - assert (E : visit ign R s y =
                finish R (upd_attr ign R (upd_tag R
                   (if oid_eqb ltarget (parentof (W s) c) then s
                    else match ltarget, find_pos R s y with
                         | Some lt, Some pos => do_move s c lt pos y
                         | _, _ => fail s
                         end) c y) c y) c y).
    { unfold visit, finish. rewrite Er. reflexivity. }
    rewrite E. eapply ext_ok_trans; [|apply finish_ext]. eapply ext_ok_trans; [|apply upd_attr_ext].
    eapply ext_ok_trans; [|apply upd_tag_ext].
    destruct (oid_eqb _ _); [apply ext_ok_refl|].
    destruct ltarget as [lt|]; [|apply ext_ok_same; reflexivity].
    destruct (find_pos R s y); [apply do_move_ext|apply ext_ok_same; reflexivity].
  - destruct ltarget as [lt|] eqn:El.
    + destruct (find_pos R s y) as [pos|] eqn:Ef.
      * assert (E : visit ign R s y =
                    finish R (upd_attr ign R (do_ins R s lt pos y) (fnext (W s)) y) (fnext (W s)) y).
        { unfold visit, finish, do_ins, new_act. fold ltarget. rewrite Er, El, Ef.
          destruct (ltag (labof R y)); reflexivity. }
        rewrite E. eapply ext_ok_trans; [|apply finish_ext]. eapply ext_ok_trans; [|apply upd_attr_ext].
        eapply ext_ok_one; [apply do_ins_out|].
        unfold new_act. destruct (ltag (labof R y)); exact I.
      * assert (E : visit ign R s y = finish R (fail s) 0 y).
        { unfold visit, finish. fold ltarget. rewrite Er, El, Ef. reflexivity. }
        rewrite E. eapply ext_ok_trans; [|apply finish_ext]. apply ext_ok_same; reflexivity.
    + assert (E : visit ign R s y = finish R (fail s) 0 y).
      { unfold visit, finish. fold ltarget. rewrite Er, El. reflexivity. }
      rewrite E. eapply ext_ok_trans; [|apply finish_ext]. apply ext_ok_same; reflexivity.
Qed.

Lemma delete_phase_ext rootL s : ext_ok s (delete_phase rootL s).
Proof.
  unfold delete_phase. apply ext_ok_fold. intros t n.
  destruct (l2r t n); [apply ext_ok_refl|]. eapply ext_ok_one; [reflexivity|exact I].
Qed.

Theorem gen_script_attr_acts_ok R rootR L rootL m :
  attr_acts_ok ign (out (gen_script ign R rootR L rootL m)).
Proof.
  unfold gen_script.
  assert (H : ext_ok (init_state L m)
                (delete_phase rootL (fold_left (visit ign R) (bfs R (S (fnext R)) [rootR]) (init_state L m)))).
  { eapply ext_ok_trans; [|apply delete_phase_ext]. apply ext_ok_fold. intros s y. apply visit_ext. }
  destruct H as (acts & E & HF). rewrite E. exact HF.
Qed.

End KeysOk.

(* ------------------------------------------------------------------ *)
(** * More glue: the script of diff_model as a whole                    *)
(* ------------------------------------------------------------------ *)
Lemma ns_actions_ok ign pro : forallb is_ns_action pro = true -> attr_acts_ok ign pro.
Proof.
  intros H. apply Forall_forall. intros a Ha. rewrite forallb_forall in H. specialize (H a Ha).
  destruct a; try discriminate; exact I.
Qed.

Section Glue2.
Variable sim : Type.
Variables (sim_ltb sim_leb : sim -> sim -> bool) (sim_is_one : sim -> bool) (zero one : sim).
Variable leaf_sim : str -> str -> sim.
Variable combine : sim -> nat -> nat -> sim.
Local Notation diffm := (diff_model sim sim_ltb sim_leb sim_is_one zero one leaf_sim combine).
Local Notation vopts := (valid_options sim sim_leb sim_is_one zero).

(* C13: no action of ANY script names an ignored attribute -- no hypothesis *)
Theorem diff_model_attr_acts_ok o L R rootL rootR lns rns script W :
  diffm o L R rootL rootR lns rns = Some (script, W) -> attr_acts_ok (oignored sim o) script.
Proof.
  unfold diff_model, diff_given.
  destruct (match_nodes _ _ _ _ _ _ _ _ _ _ _ _ _) as [m|]; [|discriminate].
  destruct (ns_prologue lns rns) as [pro|] eqn:Epro; [|discriminate].
  destruct (serr _); [discriminate|]. intros E. injection E as <- _.
  apply Forall_app. split.
  - apply ns_actions_ok. eapply ns_prologue_all_ns; eauto.
  - apply gen_script_attr_acts_ok.
Qed.

(* C03, converse: a script made of namespace actions only means equal documents *)
Theorem diff_model_only_ns_equiv o L R rootL rootR lns rns script W :
  vopts o -> wf_forest L rootL -> wf_forest R rootR ->
  diffm o L R rootL rootR lns rns = Some (script, W) ->
  forallb is_ns_action script = true ->
  doc_equiv (oignored sim o) L rootL R rootR.
Proof.
  intros Hv HwfL HwfR Hd Hall.
  assert (Hns : ns_consistent lns rns).
  { unfold ns_consistent. intros E. unfold diff_model, diff_given in Hd. rewrite E in Hd.
    destruct (match_nodes _ _ _ _ _ _ _ _ _ _ _ _ _); discriminate. }
  destruct (diff_model_shape sim sim_ltb sim_leb sim_is_one zero one leaf_sim combine
              o L R rootL rootR lns rns Hv HwfL HwfR Hns) as (m & pro & Hm & Hvm & Epro & Hpro & Hd').
  cbv zeta in Hd'. rewrite Hd in Hd'. injection Hd' as E1 E2.
  rewrite E1, forallb_app in Hall. apply andb_true_iff in Hall as [_ Hall].
  destruct (gen_script_replay (oignored sim o) L R rootL rootR m HwfL HwfR Hvm) as (_ & H2 & H3).
  cbv zeta in H2, H3. rewrite (run_spec_ns rootL L _ Hall) in H2. injection H2 as E.
  rewrite <- E in H3. exact H3.
Qed.

End Glue2.

(* ------------------------------------------------------------------ *)
(** * run_checked, clause by clause (C17)                               *)
(* ------------------------------------------------------------------ *)
Lemma run_checked_clauses root L script T :
  run_checked root L script = Some T ->
  forall pre a post f, script = pre ++ a :: post -> run_spec root L pre = Some f ->
  exists f', spec_apply root f a = Some f' /\ (is_ns_action a = true \/ Spec.same_doc root f f' = false).
Proof.
  intros Hrun pre a post f -> Hpre. rewrite run_checked_app in Hrun.
  destruct (run_checked root L pre) as [g|] eqn:Eg; [|discriminate].
  apply run_checked_spec in Eg. rewrite Hpre in Eg. injection Eg as <-.
  cbn [run_checked] in Hrun. destruct (spec_apply root f a) as [f'|]; [|discriminate].
  exists f'. split; [reflexivity|].
  destruct (is_ns_action a); [left; reflexivity|right]. cbn [orb] in Hrun.
  destruct (Spec.same_doc root f f'); [discriminate|reflexivity].
Qed.

(* ------------------------------------------------------------------ *)
(** * Identity maps, pointwise-equal forests, rendering                 *)
(* ------------------------------------------------------------------ *)
Lemma node_attribs_d_nil l : node_attribs_d [] l = l.
Proof.
  unfold node_attribs_d, smem. cbn [existsb negb].
  induction l as [|x l IH]; cbn [filter]; [reflexivity|]. rewrite IH. reflexivity.
Qed.

Fixpoint tree_map_attrs_id (g : list (str * str) -> list (str * str)) (Hg : forall l, g l = l)
         (t : tree) {struct t} : tree_map_attrs g t = t.
Proof.
  destruct t as [l ks]. cbn [tree_map_attrs]. rewrite Hg. destruct l as [a b c d]. cbn [ltag lattrs ltext ltail].
  f_equal. induction ks as [|k ks IH]; cbn [map]; [reflexivity|].
  rewrite (tree_map_attrs_id g Hg k), IH. reflexivity.
Qed.

(* with no ignored attribute, doc_equiv is plain tree equivalence *)
Lemma doc_equiv_nil W rootL R rootR :
  doc_equiv [] W rootL R rootR <-> tree_equivb (doc_tree W rootL) (doc_tree R rootR) = true.
Proof.
  unfold doc_equiv. rewrite !(tree_map_attrs_id _ node_attribs_d_nil). reflexivity.
Qed.

Lemma to_tree_ext T W : forest_ext_eq T W -> forall k n, to_tree k T n = to_tree k W n.
Proof.
  intros (_ & Hk & Hl). induction k as [|k IH]; intros n; cbn [to_tree]; rewrite Hl; [reflexivity|].
  rewrite Hk. f_equal. apply map_ext. exact IH.
Qed.

Lemma doc_equiv_ext ign T W rootL R rootR :
  forest_ext_eq T W -> doc_equiv ign W rootL R rootR -> doc_equiv ign T rootL R rootR.
Proof.
  intros Hext. unfold doc_equiv, doc_tree. destruct Hext as (Hn & Hrest).
  rewrite Hn, (to_tree_ext T W (conj Hn Hrest)). exact (fun H => H).
Qed.

(* an applicable script can always be rendered *)
Lemma render_script_total pe root script : forall L T,
  run_spec root L script = Some T -> exists gs, render_script pe root L script = Some gs.
Proof.
  induction script as [|a r IH]; intros L T H; cbn [run_spec render_script] in *; [eexists; reflexivity|].
  destruct (spec_apply root L a) as [f'|]; [|discriminate].
  destruct (IH f' T H) as [gs E]. rewrite E. eexists. reflexivity.
Qed.

(* ------------------------------------------------------------------ *)
(** * Size bounds and "created, hence not deleted" for diff_model (C17) *)
(* ------------------------------------------------------------------ *)
Lemma cnt_ns p pro :
  forallb is_ns_action pro = true -> (forall a, is_ns_action a = true -> p a = false) -> cnt p pro = 0.
Proof.
  intros H Hp. apply cnt_none. intros a Ha. apply Hp. rewrite forallb_forall in H. apply H, Ha.
Qed.

Lemma split_after_ns a post n : forall pro pre o,
  forallb is_ns_action pro = true -> pro ++ o = pre ++ a :: post -> created a = Some n ->
  exists pre', o = pre' ++ a :: post.
Proof.
  induction pro as [|x pro IH]; intros pre o Hns E Hc; cbn [app] in E.
  - exists pre. exact E.
  - cbn [forallb] in Hns. apply andb_true_iff in Hns as [Hx Hns].
    destruct pre as [|y pre]; cbn [app] in E.
    + injection E as -> _. destruct a; try discriminate Hx; discriminate Hc.
    + injection E as _ E. eapply IH; eauto.
Qed.

Section Glue3.
Variable sim : Type.
Variables (sim_ltb sim_leb : sim -> sim -> bool) (sim_is_one : sim -> bool) (zero one : sim).
Variable leaf_sim : str -> str -> sim.
Variable combine : sim -> nat -> nat -> sim.
Local Notation diffm := (diff_model sim sim_ltb sim_leb sim_is_one zero one leaf_sim combine).
Local Notation vopts := (valid_options sim sim_leb sim_is_one zero).

Theorem diff_model_counts : forall o L R rootL rootR lns rns,
  vopts o -> wf_forest L rootL -> wf_forest R rootR -> ns_consistent lns rns ->
  exists script W,
    diffm o L R rootL rootR lns rns = Some (script, W) /\
    cnt is_ins script <= doc_size R rootR /\
    cnt is_del script <= doc_size L rootL /\
    cnt is_move script <= 2 * doc_size R rootR /\
    cnt is_ren script <= doc_size R rootR /\
    cnt is_text script <= doc_size R rootR /\
    cnt is_tail script <= doc_size R rootR /\
    cnt is_attr script <= attr_total L rootL + attr_total R rootR.
Proof.
  intros o L R rootL rootR lns rns Hv HwfL HwfR Hns.
  destruct (diff_model_shape sim sim_ltb sim_leb sim_is_one zero one leaf_sim combine
              o L R rootL rootR lns rns Hv HwfL HwfR Hns) as (m & pro & Hm & Hvm & Epro & Hpro & Hd).
  destruct (gen_script_counts (oignored sim o) L R rootL rootR m HwfL HwfR Hvm)
    as (C1 & C2 & C3 & C4 & C5 & C6 & C7).
  eexists _, _. split; [exact Hd|].
  rewrite !cnt_app.
  rewrite (cnt_ns is_ins pro Hpro), (cnt_ns is_del pro Hpro), (cnt_ns is_move pro Hpro),
          (cnt_ns is_ren pro Hpro), (cnt_ns is_text pro Hpro), (cnt_ns is_tail pro Hpro),
          (cnt_ns is_attr pro Hpro);
    try (intros a Ha; destruct a; try discriminate Ha; reflexivity).
  cbn [plus]. auto 10.
Qed.

Theorem diff_model_created_not_deleted : forall o L R rootL rootR lns rns,
  vopts o -> wf_forest L rootL -> wf_forest R rootR -> ns_consistent lns rns ->
  exists script W,
    diffm o L R rootL rootR lns rns = Some (script, W) /\
    forall pre a post n, script = pre ++ a :: post -> created a = Some n -> ~ In (IDelete n) post.
Proof.
  intros o L R rootL rootR lns rns Hv HwfL HwfR Hns.
  destruct (diff_model_shape sim sim_ltb sim_leb sim_is_one zero one leaf_sim combine
              o L R rootL rootR lns rns Hv HwfL HwfR Hns) as (m & pro & Hm & Hvm & Epro & Hpro & Hd).
  eexists _, _. split; [exact Hd|].
  intros pre a post n E Hc.
  destruct (split_after_ns a post n pro pre _ Hpro E Hc) as [pre' E'].
  exact (gen_script_created_not_deleted (oignored sim o) L R rootL rootR m HwfL HwfR Hvm pre' a post n E' Hc).
Qed.

End Glue3.

(* ------------------------------------------------------------------ *)
(** * C03 converse, positive form                                       *)
(* ------------------------------------------------------------------ *)
Lemma forallb_false_ex {A} (p : A -> bool) (l : list A) :
  forallb p l = false -> exists a, In a l /\ p a = false.
Proof.
  induction l as [|x l IH]; cbn [forallb]; [discriminate|].
  destruct (p x) eqn:E; cbn [andb].
  - intros H. destruct (IH H) as (a & Ha & Hp). exists a. split; [right; exact Ha|exact Hp].
  - intros _. exists x. split; [left; reflexivity|exact E].
Qed.

Theorem diff_model_differ_nonempty
        (sim : Type) (sim_ltb sim_leb : sim -> sim -> bool) (sim_is_one : sim -> bool)
        (zero one : sim) (leaf_sim : str -> str -> sim) (combine : sim -> nat -> nat -> sim)
        o L R rootL rootR lns rns script W :
  valid_options sim sim_leb sim_is_one zero o -> wf_forest L rootL -> wf_forest R rootR ->
  diff_model sim sim_ltb sim_leb sim_is_one zero one leaf_sim combine o L R rootL rootR lns rns
    = Some (script, W) ->
  ~ doc_equiv (oignored sim o) L rootL R rootR ->
  exists a, In a script /\ is_ns_action a = false.
Proof.
  intros Hv HL HR Hd Hne.
  destruct (forallb is_ns_action script) eqn:E.
  - exfalso. apply Hne.
    exact (diff_model_only_ns_equiv sim sim_ltb sim_leb sim_is_one zero one leaf_sim combine
             o L R rootL rootR lns rns script W Hv HL HR Hd E).
  - apply forallb_false_ex, E.
Qed.

(* ------------------------------------------------------------------ *)
(** * lcs only looks at the values of its predicate                     *)
(* ------------------------------------------------------------------ *)
Section LcsExt.
Variables eqf eqf' : Z -> Z -> bool.
Hypothesis Heq : forall i j, eqf i j = eqf' i j.

Lemma trim_start_ext fuel : forall s le re, trim_start eqf fuel s le re = trim_start eqf' fuel s le re.
Proof. induction fuel as [|fuel IH]; intros; cbn [trim_start]; [reflexivity|]. rewrite Heq, IH. reflexivity. Qed.

Lemma trim_end_ext fuel : forall s le re, trim_end eqf fuel s le re = trim_end eqf' fuel s le re.
Proof. induction fuel as [|fuel IH]; intros; cbn [trim_end]; [reflexivity|]. rewrite Heq, IH. reflexivity. Qed.

Lemma snake_ext fuel : forall st lm rm x y h, snake eqf fuel st lm rm x y h = snake eqf' fuel st lm rm x y h.
Proof. induction fuel as [|fuel IH]; intros; cbn [snake]; [reflexivity|]. rewrite Heq, IH. reflexivity. Qed.

Lemma kstep_ext st lm rm d k f : kstep eqf st lm rm d k f = kstep eqf' st lm rm d k f.
Proof.
  unfold kstep. cbv zeta.
  match goal with |- match ?s with Some _ => _ | None => _ end = _ => destruct s as [[ox h]|] end; [|reflexivity].
  rewrite snake_ext. reflexivity.
Qed.

Lemma kloop_ext ks : forall st lm rm d f, kloop eqf ks st lm rm d f = kloop eqf' ks st lm rm d f.
Proof.
  induction ks as [|k ks IH]; intros; cbn [kloop]; [reflexivity|]. rewrite kstep_ext.
  destruct (kstep eqf' st lm rm d k f); try reflexivity. apply IH.
Qed.

Lemma dloop_ext fuel : forall st lm rm d f, dloop eqf fuel st lm rm d f = dloop eqf' fuel st lm rm d f.
Proof.
  induction fuel as [|fuel IH]; intros; cbn [dloop]; [reflexivity|]. rewrite kloop_ext.
  destruct (kloop eqf' (kvals d) st lm rm d f); try reflexivity. apply IH.
Qed.

Lemma lcs_ext n m : lcs eqf n m = lcs eqf' n m.
Proof.
  unfold lcs. cbv zeta. rewrite trim_start_ext, trim_end_ext.
  destruct (trim_end eqf' _ _ _ _) as [lend rend]. rewrite dloop_ext. reflexivity.
Qed.
End LcsExt.

Lemma lcs_seq_ext {A B} (p q : A -> B -> bool) xs ys :
  (forall a b, p a b = q a b) -> lcs_seq p xs ys = lcs_seq q xs ys.
Proof.
  intros H. unfold lcs_seq. apply lcs_ext. intros i j.
  destruct (nth_error xs (Z.to_nat i)); [|reflexivity]. destruct (nth_error ys (Z.to_nat j)); [apply H|reflexivity].
Qed.

(* ------------------------------------------------------------------ *)
(** * The right document's ignored attributes are invisible            *)
(* ------------------------------------------------------------------ *)
(* R with the attribute list of every node n replaced by g n *)
Definition relab (R : forest) (g : id -> list (str * str)) : forest :=
  Forest (fkids R)
         (fun n => Lab (ltag (flab R n)) (g n) (ltext (flab R n)) (ltail (flab R n)))
         (fnext R).

Lemma post_order_relab R g k : forall n, post_order k (relab R g) n = post_order k R n.
Proof.
  induction k as [|k IH]; intros n; cbn [post_order]; [reflexivity|].
  f_equal. apply flat_map_ext. exact IH.
Qed.

Section RightIgnoredMatch.
Variable sim : Type.
Variables (sim_ltb sim_leb : sim -> sim -> bool) (sim_is_one : sim -> bool) (zero one : sim).
Variable leaf_sim : str -> str -> sim.
Variable combine : sim -> nat -> nat -> sim.
Variable o : mopts sim.
Variables L R : forest.
Variable g : id -> list (str * str).
Local Notation ign := (oignored sim o).
Hypothesis Hg : forall n, node_attribs_d ign (g n) = node_attribs_d ign (lattrs (flab R n)).
Local Notation R' := (relab R g).

Lemma aget_relab n k : smem k ign = false -> aget (g n) k = aget (lattrs (flab R n)) k.
Proof.
  intros Hk. pose proof (aget_node_attribs ign (g n) k) as H1.
  rewrite Hg, aget_node_attribs, Hk in H1. symmetry. exact H1.
Qed.

Lemma uniq_decide_relab lt rt la n us : forall found,
  uniq_decide sim zero one o us lt rt la (g n) found
  = uniq_decide sim zero one o us lt rt la (lattrs (flab R n)) found.
Proof.
  induction us as [|u us IH]; intros found; cbn [uniq_decide]; [reflexivity|].
  destruct u as [a|t a].
  - destruct (smem a ign) eqn:Ea; cbn [andb negb]; [apply IH|].
    unfold ahas. rewrite (aget_relab n a Ea), !IH. reflexivity.
  - destruct (tag_eqb (TElem t) lt && tag_eqb (TElem t) rt); cbn [andb]; [|apply IH].
    destruct (smem a ign) eqn:Ea; cbn [andb negb]; [apply IH|].
    unfold ahas. rewrite (aget_relab n a Ea), !IH. reflexivity.
Qed.

Lemma node_text_relab n : node_text sim o R' n = node_text sim o R n.
Proof.
  unfold node_text. cbv zeta.
  change (text_nodes R' n) with (text_nodes R n).
  change (labof R' n) with (Lab (ltag (flab R n)) (g n) (ltext (flab R n)) (ltail (flab R n))).
  cbn [ltag lattrs].
  change (node_attribs sim o (g n)) with (node_attribs_d ign (g n)). rewrite Hg. reflexivity.
Qed.

Lemma node_ratio_relab l2r l r :
  node_ratio sim zero one leaf_sim combine o L R' l2r l r
  = node_ratio sim zero one leaf_sim combine o L R l2r l r.
Proof.
  unfold node_ratio. cbv zeta.
  change (child_ratio L R' l2r l r) with (child_ratio L R l2r l r).
  change (labof R' r) with (Lab (ltag (flab R r)) (g r) (ltext (flab R r)) (ltail (flab R r))).
  cbn [ltag lattrs ltext].
  rewrite uniq_decide_relab, node_text_relab. reflexivity.
Qed.

Local Notation nr := (node_ratio sim zero one leaf_sim combine o L).

Lemma best_cand_relab l2r l : forall rs mn mx,
  best_cand sim sim_ltb sim_is_one zero one leaf_sim combine o L R' l2r l rs mn mx
  = best_cand sim sim_ltb sim_is_one zero one leaf_sim combine o L R l2r l rs mn mx.
Proof.
  induction rs as [|r rs IH]; intros mn mx; cbn [best_cand]; [reflexivity|].
  rewrite node_ratio_relab. cbv zeta.
  destruct (if sim_ltb mx (nr R l2r l r) then _ else _) as [mn' mx'].
  destruct (sim_is_one (nr R l2r l r)); [reflexivity|apply IH].
Qed.

Lemma default_loop_relab : forall ls rs s,
  default_loop sim sim_ltb sim_leb sim_is_one zero one leaf_sim combine o L R' ls rs s
  = default_loop sim sim_ltb sim_leb sim_is_one zero one leaf_sim combine o L R ls rs s.
Proof.
  induction ls as [|l ls IH]; intros rs s; cbn [default_loop]; [reflexivity|].
  rewrite best_cand_relab.
  destruct (best_cand _ _ _ _ _ _ _ _ _ _ _ _ _ _ _) as [mn mx].
  destruct (sim_leb (oF sim o) mx); [|apply IH]. destruct mn; apply IH.
Qed.

Lemma perfect_cand_relab l2r l : forall rs mn mx,
  perfect_cand sim sim_ltb sim_is_one zero one leaf_sim combine o L R' l2r l rs mn mx
  = perfect_cand sim sim_ltb sim_is_one zero one leaf_sim combine o L R l2r l rs mn mx.
Proof.
  induction rs as [|r rs IH]; intros mn mx; cbn [perfect_cand]; [reflexivity|].
  rewrite node_ratio_relab. cbv zeta.
  destruct (sim_is_one (nr R l2r l r)); [reflexivity|].
  destruct (sim_ltb mx (nr R l2r l r)); apply IH.
Qed.

Lemma best_stage1_relab : forall ls rs s un,
  best_stage1 sim sim_ltb sim_is_one zero one leaf_sim combine o L R' ls rs s un
  = best_stage1 sim sim_ltb sim_is_one zero one leaf_sim combine o L R ls rs s un.
Proof.
  induction ls as [|l ls IH]; intros rs s un; cbn [best_stage1]; [reflexivity|].
  rewrite perfect_cand_relab.
  destruct (perfect_cand _ _ _ _ _ _ _ _ _ _ _ _ _ _ _) as [r|[mn mx]]; apply IH.
Qed.

Theorem match_nodes_relab rootL rootR :
  match_nodes sim sim_ltb sim_leb sim_is_one zero one leaf_sim combine o L R' rootL rootR
  = match_nodes sim sim_ltb sim_leb sim_is_one zero one leaf_sim combine o L R rootL rootR.
Proof.
  unfold match_nodes. cbv zeta.
  change (fnext R') with (fnext R). rewrite post_order_relab.
  set (ls := remove_id rootL (post_order (S (fnext L)) L rootL)).
  set (rs := remove_id rootR (post_order (S (fnext R)) R rootR)).
  destruct (ofast sim o).
  - rewrite (lcs_seq_ext (fun x y => sim_leb (oF sim o) (nr R' (fun _ => None) x y))
                         (fun x y => sim_leb (oF sim o) (nr R (fun _ => None) x y)))
      by (intros a b; rewrite node_ratio_relab; reflexivity).
    destruct (lcs_seq _ ls rs) as [ps|]; [|reflexivity]. rewrite default_loop_relab. reflexivity.
  - destruct (obest sim o).
    + rewrite best_stage1_relab.
      destruct (best_stage1 _ _ _ _ _ _ _ _ _ _ _ _ _ _) as [[rs1 s1] un].
      destruct (best_stage2 _ _ _ _ _ _ _) as [[ls2 rs2] s2]. rewrite default_loop_relab. reflexivity.
    + rewrite default_loop_relab. reflexivity.
Qed.
End RightIgnoredMatch.

(* ---- the attribute phase only looks at the filtered right list ---- *)
Lemma fold_left_ext_in {A K} (f f' : A -> K -> A) ks :
  (forall a k, In k ks -> f a k = f' a k) -> forall a, fold_left f ks a = fold_left f' ks a.
Proof.
  induction ks as [|k ks IH]; intros H a; cbn [fold_left]; [reflexivity|].
  rewrite (H a k (or_introl eq_refl)). apply IH. intros b x Hx. apply H. right; exact Hx.
Qed.

Section AttrRight.
Variable ign : list str.

Lemma newattrmap_filtered ra newk :
  (forall k, In k newk -> ~ In k ign) -> newattrmap (node_attribs_d ign ra) newk = newattrmap ra newk.
Proof.
  intros Hn. unfold newattrmap. generalize (@nil (str * str)).
  induction ra as [|[k v] ra IH]; intros m; [reflexivity|].
  unfold node_attribs_d in *. cbn [filter fst fold_left].
  destruct (smem k ign) eqn:Ek; cbn [negb fold_left fst snd].
  - replace (smem k newk) with false; [apply IH|].
    symmetry. apply smem_false. intros Hin. apply (Hn k Hin). apply smem_In, Ek.
  - apply IH.
Qed.

Variables la ra ra' : list (str * str).
Hypothesis Hf : node_attribs_d ign ra' = node_attribs_d ign ra.

Lemma aget_right_filtered k : ~ In k ign -> aget ra' k = aget ra k.
Proof.
  intros Hk. apply smem_false in Hk.
  pose proof (aget_node_attribs ign ra' k) as H1. rewrite Hf, aget_node_attribs, Hk in H1.
  symmetry. exact H1.
Qed.

Theorem attr_run_right_filtered : attr_run ign la ra' = attr_run ign la ra.
Proof.
  assert (Elk : left_keys ign ra' = left_keys ign ra) by (unfold left_keys; rewrite Hf; reflexivity).
  assert (Enew : new_keys ign la ra' = new_keys ign la ra) by (unfold new_keys; rewrite Elk; reflexivity).
  assert (Erem : removed_keys ign la ra' = removed_keys ign la ra) by (unfold removed_keys; rewrite Elk; reflexivity).
  assert (Ecom : common_keys ign la ra' = common_keys ign la ra) by (unfold common_keys; rewrite Elk; reflexivity).
  assert (Klk : forall l k, In k (left_keys ign l) -> ~ In k ign) by (intros l k H; apply left_keys_In in H; tauto).
  assert (Knew : forall k, In k (new_keys ign la ra) -> ~ In k ign).
  { intros k H. apply new_keys_In in H as [H _]. eapply Klk; eauto. }
  unfold attr_run. cbv zeta. rewrite Enew, Erem, Ecom.
  assert (E1 : fold_left (upd_step ra') (sort_strs (common_keys ign la ra)) (P [] la false)
             = fold_left (upd_step ra) (sort_strs (common_keys ign la ra)) (P [] la false)).
  { apply fold_left_ext_in. intros p k Hk. apply (proj1 (sort_strs_In _ _)) in Hk.
    apply common_keys_In in Hk as [Hk _]. unfold upd_step. rewrite (aget_right_filtered k (Klk _ _ Hk)). reflexivity. }
  assert (E2 : newattrmap ra' (new_keys ign la ra) = newattrmap ra (new_keys ign la ra)).
  { rewrite <- (newattrmap_filtered ra' _ Knew), <- (newattrmap_filtered ra _ Knew), Hf. reflexivity. }
  rewrite E1, E2.
  set (x := fold_left ren_step _ _).
  assert (Hx : forall k, In k (snd (fst x)) -> ~ In k ign).
  { intros k Hk. apply ren_fold_newk_incl in Hk. cbn [fst snd] in Hk. apply Knew, Hk. }
  destruct x as [[p2 nk2] nm2]. cbn [fst snd] in Hx.
  f_equal. apply fold_left_ext_in. intros p k Hk. apply (proj1 (sort_strs_In _ _)) in Hk.
  unfold ins_step. rewrite (aget_right_filtered k (Hx k Hk)). reflexivity.
Qed.
End AttrRight.

Lemma lifted_det ln s x y p : lifted ln s x p -> lifted ln s y p -> x = y.
Proof.
  intros (A1 & A2 & _ & A4 & A5 & A6 & A7 & A8) (B1 & B2 & _ & B4 & B5 & B6 & B7 & B8).
  destruct x as [w1 a1 b1 c1 d1 o1 e1], y as [w2 a2 b2 c2 d2 o2 e2].
  cbn [out W serr l2r r2l inoL inoR] in *. congruence.
Qed.

(* ---- visit as a composition of transitions (no hypotheses) ---- *)
Lemma visit_shape ign R s y :
  visit ign R s y =
  let lt := match parentof R y with Some rp => r2l s rp | None => None end in
  match r2l s y with
  | Some c =>
      finish R (upd_attr ign R (upd_tag R
         (if oid_eqb lt (parentof (W s) c) then s
          else match lt, find_pos R s y with
               | Some t, Some pos => do_move s c t pos y
               | _, _ => fail s
               end) c y) c y) c y
  | None =>
      match lt, find_pos R s y with
      | Some t, Some pos => finish R (upd_attr ign R (do_ins R s t pos y) (fnext (W s)) y) (fnext (W s)) y
      | _, _ => finish R (fail s) 0 y
      end
  end.
Proof.
  cbv zeta. set (lt := match parentof R y with Some rp => r2l s rp | None => None end).
  destruct (r2l s y) as [c|] eqn:Er.
  - unfold visit, finish. rewrite Er. reflexivity.
  - destruct lt as [t|] eqn:El.
    + destruct (find_pos R s y) as [pos|] eqn:Ef.
      * unfold visit, finish, do_ins, new_act. fold lt. rewrite Er, El, Ef.
        destruct (ltag (labof R y)); reflexivity.
      * unfold visit, finish. fold lt. rewrite Er, El, Ef. reflexivity.
    + unfold visit, finish. fold lt. rewrite Er, El. reflexivity.
Qed.

Section RightIgnoredScript.
Variable ign : list str.
Variable R : forest.
Variable g : id -> list (str * str).
Hypothesis Hg : forall n, node_attribs_d ign (g n) = node_attribs_d ign (lattrs (flab R n)).
Local Notation R' := (relab R g).

Lemma upd_attr_relab s ln rn : upd_attr ign R' s ln rn = upd_attr ign R s ln rn.
Proof.
  apply (lifted_det ln s _ _ (attr_run ign (cur_attrs s ln) (lattrs (labof R rn)))); [|apply upd_attr_lift].
  pose proof (upd_attr_lift ign R' s ln rn) as H.
  change (lattrs (labof R' rn)) with (g rn) in H.
  rewrite (attr_run_right_filtered ign (cur_attrs s ln) (lattrs (labof R rn)) (g rn) (Hg rn)) in H. exact H.
Qed.

Lemma upd_tag_relab s ln rn : upd_tag R' s ln rn = upd_tag R s ln rn.
Proof. reflexivity. Qed.
Lemma finish_relab s ln y : finish R' s ln y = finish R s ln y.
Proof. reflexivity. Qed.
Lemma do_ins_relab s t pos y : do_ins R' s t pos y = do_ins R s t pos y.
Proof. reflexivity. Qed.

Lemma visit_relab s y : visit ign R' s y = visit ign R s y.
Proof.
  rewrite !visit_shape. cbv zeta.
  change (parentof R' y) with (parentof R y). change (find_pos R' s y) with (find_pos R s y).
  destruct (r2l s y) as [c|].
  - rewrite finish_relab, upd_attr_relab, upd_tag_relab. reflexivity.
  - destruct (match parentof R y with Some rp => r2l s rp | None => None end) as [t|]; [|apply finish_relab].
    destruct (find_pos R s y) as [pos|]; [|apply finish_relab].
    rewrite finish_relab, upd_attr_relab, do_ins_relab. reflexivity.
Qed.

Lemma bfs_relab k : forall q, bfs R' k q = bfs R k q.
Proof.
  induction k as [|k IH]; intros q; cbn [bfs]; [reflexivity|].
  destruct q as [|n q]; [reflexivity|]. rewrite IH. reflexivity.
Qed.

Lemma fold_visit_relab l : forall s, fold_left (visit ign R') l s = fold_left (visit ign R) l s.
Proof.
  induction l as [|y l IH]; intros s; cbn [fold_left]; [reflexivity|]. rewrite visit_relab. apply IH.
Qed.

Theorem gen_script_relab rootR L rootL m :
  gen_script ign R' rootR L rootL m = gen_script ign R rootR L rootL m.
Proof.
  unfold gen_script. change (fnext R') with (fnext R). rewrite bfs_relab, fold_visit_relab. reflexivity.
Qed.

Theorem diff_given_relab rootR L rootL lns rns m :
  diff_given ign R' rootR L rootL lns rns m = diff_given ign R rootR L rootL lns rns m.
Proof. unfold diff_given. rewrite gen_script_relab. reflexivity. Qed.
End RightIgnoredScript.

(* the whole pipeline: replacing the attributes of the right document by lists
   with the same non-ignored part changes NOTHING -- same script, same tree *)
Theorem diff_model_relab
        (sim : Type) (sim_ltb sim_leb : sim -> sim -> bool) (sim_is_one : sim -> bool)
        (zero one : sim) (leaf_sim : str -> str -> sim) (combine : sim -> nat -> nat -> sim)
        (o : mopts sim) L R g rootL rootR lns rns :
  (forall n, node_attribs_d (oignored sim o) (g n) = node_attribs_d (oignored sim o) (lattrs (flab R n))) ->
  diff_model sim sim_ltb sim_leb sim_is_one zero one leaf_sim combine o L (relab R g) rootL rootR lns rns
  = diff_model sim sim_ltb sim_leb sim_is_one zero one leaf_sim combine o L R rootL rootR lns rns.
Proof.
  intros Hg. unfold diff_model. rewrite (match_nodes_relab _ _ _ _ _ _ _ _ o L R g Hg).
  destruct (match_nodes _ _ _ _ _ _ _ _ _ _ _ _ _); [|reflexivity].
  apply diff_given_relab, Hg.
Qed.

(* ------------------------------------------------------------------ *)
(** * Documents that differ only in ignored attributes (C13)            *)
(* ------------------------------------------------------------------ *)
(* R is L up to the attributes named in ign (and up to attribute order): same
   ids (both trees are numbered in pre-order), same child lists, tags, texts,
   tails; the NON-ignored attributes are the same up to order *)
Definition same_doc_upto (ign : list str) (L R : forest) : Prop :=
  fnext L = fnext R /\
  (forall n, n < fnext L -> fkids L n = fkids R n) /\
  (forall n, n < fnext L ->
     ltag (flab L n) = ltag (flab R n) /\ ltext (flab L n) = ltext (flab R n) /\
     ltail (flab L n) = ltail (flab R n) /\
     Permutation (node_attribs_d ign (lattrs (flab L n))) (node_attribs_d ign (lattrs (flab R n)))).

Lemma filter_partition_perm {A} (p q : A -> bool) l :
  (forall x, q x = negb (p x)) -> Permutation l (filter p l ++ filter q l).
Proof.
  intros Hq. induction l as [|x l IH]; cbn [filter]; [constructor|].
  rewrite (Hq x). destruct (p x); cbn [negb app].
  - constructor. exact IH.
  - apply Permutation_cons_app. exact IH.
Qed.

Lemma filter_filter_same {A} (p : A -> bool) l : filter p (filter p l) = filter p l.
Proof.
  induction l as [|x l IH]; cbn [filter]; [reflexivity|].
  destruct (p x) eqn:E; cbn [filter]; [rewrite E, IH; reflexivity|exact IH].
Qed.

Lemma filter_filter_neg {A} (p q : A -> bool) l : (forall x, q x = negb (p x)) -> filter p (filter q l) = [].
Proof.
  intros Hq. induction l as [|x l IH]; cbn [filter]; [reflexivity|].
  rewrite (Hq x). destruct (p x) eqn:E; cbn [negb filter]; [exact IH|rewrite E; exact IH].
Qed.

(* the right document, with the ignored attributes of the LEFT one *)
Definition graft (ign : list str) (L R : forest) (n : id) : list (str * str) :=
  if Nat.ltb n (fnext L)
  then node_attribs_d ign (lattrs (flab R n)) ++ filter (fun kv => smem (fst kv) ign) (lattrs (flab L n))
  else lattrs (flab R n).

Lemma graft_filtered ign L R n :
  node_attribs_d ign (graft ign L R n) = node_attribs_d ign (lattrs (flab R n)).
Proof.
  unfold graft. destruct (Nat.ltb n (fnext L)); [|reflexivity].
  unfold node_attribs_d. rewrite filter_app, filter_filter_same.
  rewrite (filter_filter_neg (fun kv : str * str => negb (smem (fst kv) ign)) (fun kv => smem (fst kv) ign)).
  - apply app_nil_r.
  - intros x. rewrite negb_involutive. reflexivity.
Qed.

Lemma graft_same_doc ign L R : same_doc_upto ign L R -> same_doc L (relab R (graft ign L R)).
Proof.
  intros (Hn & Hk & Hl). split; [exact Hn|]. split; [exact Hk|].
  intros n Hlt. destruct (Hl n Hlt) as (H1 & H2 & H3 & H4).
  unfold same_label. cbn [relab flab ltag ltext ltail lattrs].
  split; [exact H1|]. split; [exact H2|]. split; [exact H3|].
  unfold graft. replace (Nat.ltb n (fnext L)) with true by (symmetry; apply Nat.ltb_lt; exact Hlt).
  eapply Permutation_trans.
  - apply (filter_partition_perm (fun kv : str * str => negb (smem (fst kv) ign)) (fun kv => smem (fst kv) ign)).
    intros x. rewrite negb_involutive. reflexivity.
  - apply Permutation_app_tail. exact H4.
Qed.

Theorem ignored_only_empty_script :
  forall (sim : Type) (sim_ltb sim_leb : sim -> sim -> bool) (sim_is_one : sim -> bool)
         (zero one : sim) (leaf_sim : str -> str -> sim) (combine : sim -> nat -> nat -> sim)
         (o : mopts sim) (L R : forest) (root : id) (lns : nsmap),
  (forall s, sim_is_one (leaf_sim s s) = true) ->
  (forall m n, sim_is_one m = true -> 0 < n -> sim_is_one (combine m n n) = true) ->
  sim_is_one one = true ->
  (forall x, sim_is_one x = true -> sim_ltb zero x = true) ->
  (forall x, sim_is_one x = true -> sim_leb (oF sim o) x = true) ->
  (ofast sim o = true -> sim_leb (oF sim o) zero = false) ->
  (ofast sim o = true ->
   forall s t n x n', 0 < n -> sim_leb (oF sim o) (combine (leaf_sim s t) 0 n) = true ->
                      sim_is_one x = true -> 0 < n' ->
                      sim_leb (oF sim o) (combine x 0 n') = true) ->
  wf_forest L root ->
  same_doc_upto (oignored sim o) L R ->
  (forall k v, In (k, v) lns -> ns_get lns k = Some v) ->
  diff_model sim sim_ltb sim_leb sim_is_one zero one leaf_sim combine o L R root root lns lns
  = Some ([], L).
Proof.
  intros sim sim_ltb sim_leb sim_is_one zero one leaf_sim combine o L R root lns
         H1 H2 H3 H4 H5 H6 H7 Hwf Hsame Hns.
  set (g := graft (oignored sim o) L R).
  rewrite <- (diff_model_relab sim sim_ltb sim_leb sim_is_one zero one leaf_sim combine o L R g
                root root lns lns (graft_filtered (oignored sim o) L R)).
  destruct (equal_docs_empty_script sim sim_ltb sim_leb sim_is_one zero one leaf_sim combine
              o L (relab R g) root lns H1 H2 H3 H4 H5 H6 H7 Hwf
              (graft_same_doc (oignored sim o) L R Hsame) Hns) as (m & Hm & _ & _ & Hd).
  unfold diff_model. rewrite Hm. exact Hd.
Qed.
