(* XmlFmtDiffer1 -- the run-level premise [run_ok] of the C08/C09/C10 theorems (text_tags = []) from conditions on the
   SCRIPT alone: no node is the target of two text updates, of two tail updates or of two renames; the strings the
   actions carry are plain; with use_replace, the texts fit the private-use range.

   The link is an invariant on the live nodes of the decorated working tree ([J]): a node that is still going to be
   text-updated carries a plain text (unless it is marked inserted: the handler then just stores the new text), a node
   still going to be tail-updated a plain tail, a node still going to be renamed no diff:rename attribute.  Every
   handler keeps it ([XmlFmtProofs8.nstep]: which live nodes an action touches, and how).
   No axioms. *)
From Coq Require Import List NArith ZArith Bool Arith Lia.
Import ListNotations.
Require Import XV.Str XV.Json XV.TextFormat XV.Forest XV.Matcher XV.Differ XV.Spec XV.Path XV.WF XV.ForestProofs XV.TreeProofs
               XV.AttrProofs XV.PathProofs XV.PatcherProofs XV.Render XV.XmlFmt XV.Projections
               XV.XmlFmtProofs0 XV.XmlFmtProofs1 XV.XmlFmtProofs2 XV.XmlFmtProofsR2 XV.XmlFmtProofs3 XV.XmlFmtProofs4 XV.XmlFmtProofs5
               XV.XmlFmtProofs6 XV.XmlFmtProofs7 XV.XmlFmtProofs8 XV.XmlFmtProofs9.
Require XV.Placeholder XV.PlaceholderUndo.
Local Open Scope nat_scope.

(* ------------------------------------------------------------------ *)
(** * Conditions on a script *)

Definition ttext (a : iact) : list id := match a with IText n _ => [n] | _ => [] end.
Definition ttail (a : iact) : list id := match a with ITail n _ => [n] | _ => [] end.
Definition tren (a : iact) : list id := match a with IRename n _ => [n] | _ => [] end.
Definition tgts (g : iact -> list id) (script : list iact) : list id := flat_map g script.

(* the strings an action carries *)
Definition act_ok (a : iact) : Prop :=
  match a with
  | IInsert _ tag _ _ | IRename _ tag => tag_ok tag
  | IText _ t | ITail _ t => plain (otxt t)
  | IUpdAttr _ k _ | IInsAttr _ k _ | IDelAttr _ k => plain_name k
  | IRenAttr _ k k' => plain_name k /\ plain_name k'
  | _ => True
  end.

(* the characters of the new texts: one private-use code point each is enough for the diff:replace openers *)
Definition budget (script : list iact) : N :=
  fold_right (fun a acc => (match a with IText _ t | ITail _ t => N.of_nat (length (otxt t)) | _ => 0 end + acc)%N) 0%N script.

Record script_side (script : list iact) : Prop := {
  ss_text : NoDup (tgts ttext script);
  ss_tail : NoDup (tgts ttail script);
  ss_ren : NoDup (tgts tren script);
  ss_acts : Forall act_ok script }.

Lemma script_side_tl a r : script_side (a :: r) -> script_side r.
Proof.
  intros [H1 H2 H3 H4]. unfold tgts in *. cbn [flat_map] in *.
  apply NoDup_app_iff in H1 as (_ & H1 & _). apply NoDup_app_iff in H2 as (_ & H2 & _). apply NoDup_app_iff in H3 as (_ & H3 & _).
  inversion H4; subst. constructor; assumption.
Qed.

(* ------------------------------------------------------------------ *)
(** * The invariant on the live nodes *)

Definition Jn (rest : list iact) (e : id * xtree) : Prop :=
  let '(n, x) := e in
  (In n (tgts ttext rest) -> is_inserted x = false -> plain (otxt (xtext x))) /\
  (In n (tgts ttail rest) -> plain (xtail x)) /\
  (In n (tgts tren rest) -> aget (xattrs x) RENAME_NAME = None).
Definition J (rest : list iact) (d : dt) : Prop := forall e, In e (lnodes d) -> Jn rest e.

Lemma Jn_tl a r e : Jn (a :: r) e -> Jn r e.
Proof.
  destruct e as [n x]. unfold Jn, tgts. cbn [flat_map]. intros (H1 & H2 & H3).
  repeat split; intros Hin; [apply H1|apply H2|apply H3]; apply in_or_app; now right.
Qed.

(* attribute handlers keep text, tail, diff:rename and diff:insert *)
Lemma attrs_keep x A' : same_marks A' (xattrs x) ->
  xtext (with_attrs x A') = xtext x /\ xtail (with_attrs x A') = xtail x /\
  aget (xattrs (with_attrs x A')) RENAME_NAME = aget (xattrs x) RENAME_NAME /\
  is_inserted (with_attrs x A') = is_inserted x.
Proof.
  intros [M1 M2]. destruct x as [tg at_ tx tl ks]. cbn [with_attrs xtext xtail xattrs] in *.
  repeat split; [exact M1|]. unfold is_inserted, ahas. cbn [xattrs with_attrs]. now rewrite M2.
Qed.

Lemma upd_keeps x k v x' : plain_name k -> h_UpdateAttrib x k v = FOk x' ->
  xtext x' = xtext x /\ xtail x' = xtail x /\ aget (xattrs x') RENAME_NAME = aget (xattrs x) RENAME_NAME /\ is_inserted x' = is_inserted x.
Proof.
  intros Hk H. unfold h_UpdateAttrib in H. destruct (aget (xattrs x) k) as [old|]; [|discriminate]. inversion H; subst x'.
  apply attrs_keep. eapply same_marks_trans; [apply same_marks_extend; auto|apply same_marks_aput, Hk].
Qed.
Lemma ins_keeps x k v x' : plain_name k -> h_InsertAttrib x k v = FOk x' ->
  xtext x' = xtext x /\ xtail x' = xtail x /\ aget (xattrs x') RENAME_NAME = aget (xattrs x) RENAME_NAME /\ is_inserted x' = is_inserted x.
Proof.
  intros Hk H. unfold h_InsertAttrib in H. inversion H; subst x'.
  apply attrs_keep. eapply same_marks_trans; [apply same_marks_extend; auto|apply same_marks_aput, Hk].
Qed.
Lemma del_keeps x k x' : plain_name k -> h_DeleteAttrib x k = FOk x' ->
  xtext x' = xtext x /\ xtail x' = xtail x /\ aget (xattrs x') RENAME_NAME = aget (xattrs x) RENAME_NAME /\ is_inserted x' = is_inserted x.
Proof.
  intros Hk H. unfold h_DeleteAttrib in H. destruct (ahas (xattrs x) k) eqn:E0; [|discriminate]. inversion H; subst x'.
  apply attrs_keep. eapply same_marks_trans; [apply same_marks_extend; auto|apply same_marks_adel, Hk].
Qed.
Lemma ren_keeps x k k' x' : plain_name k -> plain_name k' -> h_RenameAttrib x k k' = FOk x' ->
  xtext x' = xtext x /\ xtail x' = xtail x /\ aget (xattrs x') RENAME_NAME = aget (xattrs x) RENAME_NAME /\ is_inserted x' = is_inserted x.
Proof.
  intros Hk Hk' H. unfold h_RenameAttrib in H. destruct (aget (xattrs x) k) as [v|]; [|discriminate]. inversion H; subst x'.
  apply attrs_keep. eapply same_marks_trans; [apply same_marks_extend; auto|].
  eapply same_marks_trans; [apply same_marks_adel, Hk|apply same_marks_aput, Hk'].
Qed.

Lemma J_step a rest d d' : nstep a d d' -> J (a :: rest) d -> script_side (a :: rest) -> J rest d'.
Proof.
  intros HN HJ [S1 S2 S3 S4] [n' x'] Hin. apply Forall_cons_iff in S4 as [Ha _].
  destruct (HN n' x' Hin) as [Hold|Hnew]; [apply (Jn_tl a), HJ, Hold|].
  unfold tgts in S1, S2, S3. cbn [flat_map] in S1, S2, S3.
  assert (Keep : forall n x, In (n, x) (lnodes d) -> xtext x' = xtext x -> xtail x' = xtail x ->
            aget (xattrs x') RENAME_NAME = aget (xattrs x) RENAME_NAME -> (is_inserted x = true -> is_inserted x' = true) ->
            n' = n -> Jn rest (n', x')).
  { intros n x Hx E1 E2 E3 E4 ->. pose proof (Jn_tl a rest _ (HJ _ Hx)) as (K1 & K2 & K3). cbn [Jn]. rewrite E1, E2, E3.
    repeat split; auto. intros Hi Hx'. apply K1; [exact Hi|]. destruct (is_inserted x); [rewrite E4 in Hx' by reflexivity; discriminate|reflexivity]. }
  destruct a; cbn [act_ok ttext ttail tren app] in *; try contradiction.
  - (* Insert *) destruct Hnew as [-> ->]. cbn [Jn xtext xtail xattrs otxt]. repeat split; intros; try reflexivity.
  - (* Move *) destruct Hnew as (-> & x & Hx & ->). apply (Keep n x Hx); try (destruct x; reflexivity).
    + destruct x as [tg at_ tx tl ks]. cbn [with_attrs xattrs]. apply aget_aput_other. intros E; apply dname_inj in E; discriminate.
    + intros _. destruct x as [tg at_ tx tl ks]. unfold is_inserted, ahas. cbn [with_attrs xattrs]. now rewrite aget_aput, streqb_refl.
  - (* Rename *) destruct Hnew as (-> & x & Hx & ->). pose proof (Jn_tl _ rest _ (HJ _ Hx)) as (K1 & K2 & K3).
    inversion S3 as [|? ? Hn3 _]; subst. destruct x as [tg at_ tx tl ks]. unfold h_RenameNode. cbn [Jn with_tag with_attrs xtext xtail xattrs xtag] in *.
    repeat split; auto; [|intros Hi; contradiction].
    intros Hi Hx'. apply K1; [exact Hi|]. unfold is_inserted, ahas in *. cbn [with_tag with_attrs xattrs xtag] in *.
    rewrite aget_aput_other in Hx' by (intros E; apply dname_inj in E; discriminate). exact Hx'.
  - (* Text *) destruct Hnew as (-> & x & Hx & E1 & E2 & E3). pose proof (Jn_tl _ rest _ (HJ _ Hx)) as (K1 & K2 & K3).
    inversion S1 as [|? ? Hn1 _]; subst. cbn [Jn]. rewrite E2, E3. repeat split; auto. intros Hi; contradiction.
  - (* Tail *) destruct Hnew as (-> & x & Hx & E1 & E2 & E3). pose proof (Jn_tl _ rest _ (HJ _ Hx)) as (K1 & K2 & K3).
    inversion S2 as [|? ? Hn2 _]; subst. cbn [Jn]. rewrite E2, E3. repeat split; auto; [|intros Hi; contradiction].
    intros Hi Hx'. apply K1; [exact Hi|]. unfold is_inserted in *. now rewrite <- E2.
  - destruct Hnew as (-> & x & Hx & Hh). destruct (upd_keeps x k v x' Ha Hh) as (E1 & E2 & E3 & E4).
    apply (Keep n x Hx E1 E2 E3); [intros Hi; now rewrite E4|reflexivity].
  - destruct Hnew as (-> & x & Hx & Hh). destruct (ins_keeps x k v x' Ha Hh) as (E1 & E2 & E3 & E4).
    apply (Keep n x Hx E1 E2 E3); [intros Hi; now rewrite E4|reflexivity].
  - destruct Hnew as (-> & x & Hx & Hh). destruct (del_keeps x k x' Ha Hh) as (E1 & E2 & E3 & E4).
    apply (Keep n x Hx E1 E2 E3); [intros Hi; now rewrite E4|reflexivity].
  - destruct Ha as [Hk Hk']. destruct Hnew as (-> & x & Hx & Hh). destruct (ren_keeps x k k' x' Hk Hk' Hh) as (E1 & E2 & E3 & E4).
    apply (Keep n x Hx E1 E2 E3); [intros Hi; now rewrite E4|reflexivity].
Qed.

(* ------------------------------------------------------------------ *)
(** * run_ok from the conditions on the script *)

Lemma budget_cons a r : budget (a :: r) = (match a with IText _ t | ITail _ t => N.of_nat (length (otxt t)) | _ => 0 end + budget r)%N.
Proof. reflexivity. Qed.

Section Gen.
Variable c : cfg.
Variable o : oracle.
Variable rootns : list (option str * str).
Variable pe : penv.
Variable root : id.
Let ws := ws_text c.

(* the node an action names, in the working tree: its own fields are those of the live node with that id *)
Lemma node_of_id f st d n : ainv c rootns pe root f st d -> alive f root n = true ->
  forall p n0, resolve rootns st (gpath pe root f n) = FOk p -> get_at (fs_tree st) p = Some n0 ->
  (p = [] -> n = root) /\
  exists x, In (n, x) (lnodes d) /\ xtag n0 = xtag x /\ xattrs n0 = xattrs x /\ xtext n0 = xtext x /\ xtail n0 = xtail x.
Proof.
  intros HI Hal p n0 Er G.
  destruct (resolve_node c rootns pe root f st d n HI Hal) as (q & kn & Er' & HL & HG & Hk).
  unfold gpath in Er. rewrite Er in Er'. inversion Er'; subst q. clear Er'.
  rewrite <- (ai_erase _ _ _ _ _ _ _ HI), get_at_erase, HG in G. cbn [option_map] in G. inversion G; subst n0. clear G.
  split.
  - intros ->. cbn [dget_at] in HG. inversion HG; subst kn. rewrite <- Hk. apply (ai_root _ _ _ _ _ _ _ HI).
  - exists (dlab kn). split.
    + rewrite <- Hk. apply (lnodes_sub p d kn HL HG), lnodes_root.
    + destruct kn as [m [tg at_ tx tl ks] kids]. cbn. auto.
Qed.

Lemma spec_alive f a f' : spec_apply root f a = Some f' ->
  match a with
  | IRename n _ | IText n _ | IUpdAttr n _ _ | IInsAttr n _ _ | IDelAttr n _ | IRenAttr n _ _ => alive f root n = true
  | ITail n _ => alive f root n = true /\ n <> root
  | _ => True
  end.
Proof.
  destruct a; cbn [spec_apply]; intros H; try exact I.
  - destruct (alive f root n && is_elem f n) eqn:C; [|discriminate]. apply andb_true_iff in C. tauto.
  - destruct (alive f root n) eqn:C; [reflexivity|discriminate].
  - destruct (alive f root n && negb (Nat.eqb n root)) eqn:C; [|discriminate]. apply andb_true_iff in C as [C1 C2].
    apply negb_true_iff, Nat.eqb_neq in C2. auto.
  - destruct (alive f root n && is_elem f n && ahas (lattrs (labof f n)) k) eqn:C; [|discriminate]. apply and3 in C. tauto.
  - destruct (alive f root n && is_elem f n && negb (ahas (lattrs (labof f n)) k)) eqn:C; [|discriminate]. apply and3 in C. tauto.
  - destruct (alive f root n && is_elem f n && ahas (lattrs (labof f n)) k) eqn:C; [|discriminate]. apply and3 in C. tauto.
  - destruct (aget (lattrs (labof f n)) k); [|discriminate].
    destruct (alive f root n && is_elem f n && negb (ahas (lattrs (labof f n)) k')) eqn:C; [|discriminate]. apply and3 in C. tauto.
Qed.

(* the side conditions of one step *)
Lemma gen_step_ok f st d a rest f' D :
  ainv c rootns pe root f st d -> J (a :: rest) d -> act_ok a ->
  spec_apply root f a = Some f' -> dact_of pe root f a = FOk D -> step_ok rootns st D.
Proof.
  intros HI HJ Ha Hs HD. pose proof (spec_alive f a f' Hs) as Hal.
  destruct a; cbn [dact_of] in HD; inversion HD; subst D; clear HD; cbn [step_ok act_ok] in *; try exact I; try exact Ha.
  - (* Rename *) split; [exact Ha|]. intros p n0 Er G.
    destruct (node_of_id f st d n HI Hal p n0 Er G) as (_ & x & Hx & _ & E2 & _).
    destruct (HJ _ Hx) as (_ & _ & K3). rewrite E2. apply K3. unfold tgts. cbn. now left.
  - (* Text *) split; [exact Ha|]. intros p n0 Er G Hi.
    destruct (node_of_id f st d n HI Hal p n0 Er G) as (_ & x & Hx & _ & E2 & E3 & _).
    destruct (HJ _ Hx) as (K1 & _). rewrite E3. apply K1; [unfold tgts; cbn; now left|].
    unfold is_inserted in *. now rewrite <- E2.
  - (* Tail *) destruct Hal as [Hal Hnr]. split; [exact Ha|]. intros p n0 Er G.
    destruct (node_of_id f st d n HI Hal p n0 Er G) as (Hp & x & Hx & _ & _ & _ & E4).
    split; [intros E; apply Hnr, Hp, E|]. destruct (HJ _ Hx) as (_ & K2 & _). rewrite E4. apply K2. unfold tgts. cbn. now left.
Qed.

Lemma names_plain_of a : act_ok a -> names_plain a.
Proof. destruct a; cbn; auto. Qed.

Theorem gen_run_ok script : forall f st d gs fT,
  wf_forest f root -> erase d = fs_tree st -> rel ws f d -> did d = root -> alive_d d = true ->
  tinv (fs_ph st) -> J script d -> script_side script ->
  (c_replace c = true -> (Placeholder.ctr (fs_ph st) + budget script <= Placeholder.PUA_END)%N) ->
  run_spec root f script = Some fT -> render_script pe root f script = Some gs ->
  fscript_ok rootns pe root (fs_ns st) f script ->
  run_ok c o rootns st gs.
Proof.
  induction script as [|a r IH]; intros f st d gs fT Hwf He HR Hid Hal Hph HJ HS Hbud Hrun Hren Hok.
  - cbn [render_script] in Hren. inversion Hren; subst. exact I.
  - cbn [run_spec render_script fscript_ok] in *.
    destruct (spec_apply root f a) as [f1|] eqn:Hspec; [|discriminate].
    destruct (render_script pe root f1 r) as [gs'|] eqn:Hren'; [|discriminate].
    cbn [option_map] in Hren. inversion Hren; subst gs. clear Hren.
    destruct Hok as (Henv & Hnm & Hok).
    cbn [run_ok]. rewrite decode_render.
    destruct (dact_of pe root f a) as [D|e] eqn:ED; [|exact I].
    assert (HI : ainv c rootns pe root f st d) by (constructor; assumption).
    pose proof (ss_acts _ HS) as HA. apply Forall_cons_iff in HA as [Ha HAr].
    pose proof (gen_step_ok f st d a r f1 D HI HJ Ha Hspec ED) as Hs.
    assert (Hcost : (step_cost c D <= match a with IText _ t | ITail _ t => N.of_nat (length (otxt t)) | _ => 0 end)%N).
    { destruct a; cbn [dact_of] in ED; inversion ED; subst D; cbn [step_cost]; try lia;
        pose proof (norm_if_len c (otxt t)); lia. }
    assert (Hroom : room_ok c st D).
    { rewrite budget_cons in Hbud. destruct a; cbn [dact_of] in ED; inversion ED; subst D; cbn [room_ok step_cost] in *; try exact I;
        intros Hr; specialize (Hbud Hr); lia. }
    split; [exact Hs|]. split; [exact Hroom|]. intros st1 E1.
    destruct (accept_step c o rootns pe root f st d a f1 D st1 HI Hph Hspec ED Hs Hroom E1) as (d1 & He1 & HR1 & Hid1 & Hal1 & HN).
    destruct (step_ph c o rootns st D st1 Hph Hs Hroom E1) as (Hph1 & _).
    pose proof (step_ctr c o rootns st D st1 Hph Hs Hroom E1) as Hc1.
    apply (IH f1 st1 d1 gs' fT); auto.
    + eapply spec_apply_wf; eauto.
    + apply (J_step a r d d1 HN HJ HS).
    + apply (script_side_tl a r HS).
    + intros Hr. specialize (Hbud Hr). rewrite budget_cons in Hbud. lia.
    + rewrite (handle_d_ns c o rootns pe root st a f D st1 ED E1). exact Hok.
Qed.
End Gen.
