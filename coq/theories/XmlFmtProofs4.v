(* XmlFmtProofs4 -- what every handler of the XML formatter does to the working tree
   (text_tags = [], use_replace = false): invariants and the REJECT refinement.

   * [winv]      the working tree is a run tree (every text and tail is a run over the
                 wrapper placeholders), carries no wrapper tag, its root is not marked
                 inserted and has a plain tail;
   * [step_ok]   side conditions of one action on the current tree (they hold along the
                 scripts of the differ; they are conditions on the RUN, evaluated by
                 [run_ok]): a text update meets a text that has not been marked up yet,
                 a node is renamed at most once, action strings are plain, action names
                 are not in the diff namespace, the root's tail is not updated;
   * [step_inv]  handlers preserve [winv];
   * [reject_step]  handlers do not change the rejected view of the tree, up to whitespace
                 normalisation when normalize & WS_TEXT, attributes set aside ([vr]).
   No axioms. *)
From Coq Require Import List NArith ZArith Bool Arith Lia.
Import ListNotations.
Require Import XV.Str XV.Json XV.TextFormat XV.Forest XV.Matcher XV.Differ XV.Path XV.WF XV.AttrProofs XV.XmlFmt XV.Projections
               XV.XmlFmtProofs0 XV.XmlFmtProofs1 XV.XmlFmtProofs2 XV.XmlFmtProofs3.
Require XV.Placeholder XV.PlaceholderUndo.
Require XV.DMP XV.DMPBase.
Local Open Scope nat_scope.

(* ------------------------------------------------------------------ *)
(** * Generic facts about map_at *)

Lemma Forall_set_nth {A} (P : A -> Prop) i x l : Forall P l -> P x -> Forall P (set_nth i x l).
Proof.
  intros H Hx. revert i; induction H as [|y l Hy Hl IH]; intros [|i]; cbn; constructor; auto.
Qed.

Lemma Forall_insert_kid {A} (P : A -> Prop) i x l : Forall P l -> P x -> Forall P (insert_kid i x l).
Proof.
  intros H Hx. unfold insert_kid. rewrite <- (firstn_skipn i l) in H. apply Forall_app in H as [H1 H2].
  apply Forall_app. split; [exact H1|]. constructor; assumption.
Qed.

Lemma Forall_nth {A} (P : A -> Prop) l i x : Forall P l -> nth_error l i = Some x -> P x.
Proof. intros H E. rewrite Forall_forall in H. apply H. eapply nth_error_In; eauto. Qed.

(* a property of trees that is local: it holds of a node iff it holds of the node's own
   fields and of all its children *)
Section Local.
Variable P : xtree -> Prop.
Variable Q : xtree -> Prop.    (* the node's own fields *)
Hypothesis P_intro : forall t, Q t -> Forall P (xkids t) -> P t.
Hypothesis P_kids : forall t, P t -> Forall P (xkids t).
Hypothesis P_own : forall t, P t -> Q t.
Hypothesis Q_kids : forall t ks, Q t -> Q (with_kids t ks).

Lemma local_get t p n : P t -> get_at t p = Some n -> P n.
Proof.
  revert t; induction p as [|i p IH]; intros t H E; cbn in E; [congruence|].
  destruct (nth_error (xkids t) i) as [k|] eqn:Ek; [|discriminate].
  apply (IH k); [|exact E]. eapply Forall_nth; [apply P_kids, H|exact Ek].
Qed.

Lemma local_map_at t p n' : P t -> P n' -> P (map_at p (fun _ => n') t).
Proof.
  revert t; induction p as [|i p IH]; intros t H Hn; cbn; [exact Hn|].
  destruct (nth_error (xkids t) i) as [k|] eqn:Ek; [|exact H].
  apply P_intro; [apply Q_kids, P_own, H|]. cbn [xkids with_kids].
  apply Forall_set_nth; [apply P_kids, H|]. apply IH; [|exact Hn].
  eapply Forall_nth; [apply P_kids, H|exact Ek].
Qed.
End Local.

(* ------------------------------------------------------------------ *)
(** * The invariant *)

Definition own_run (t : xtree) : Prop := is_run (otxt (xtext t)) /\ is_run (xtail t).
Definition own_clean (t : xtree) : Prop := wrapper_kind t = None.

Lemma run_tree_iff t : run_tree t <-> own_run t /\ Forall run_tree (xkids t).
Proof.
  split.
  - intros H. inversion H; subst. cbn. unfold own_run. cbn. tauto.
  - destruct t. intros [[H1 H2] H3]. constructor; assumption.
Qed.
Lemma clean_tags_iff t : clean_tags t <-> own_clean t /\ Forall clean_tags (xkids t).
Proof.
  split.
  - intros H. inversion H; subst. cbn. unfold own_clean. tauto.
  - destruct t. intros [H1 H2]. constructor; assumption.
Qed.

Lemma run_tree_get t p n : run_tree t -> get_at t p = Some n -> run_tree n.
Proof.
  apply (local_get run_tree). intros x H. apply run_tree_iff in H. tauto.
Qed.
Lemma run_tree_map_at t p n' : run_tree t -> run_tree n' -> run_tree (map_at p (fun _ => n') t).
Proof.
  apply (local_map_at run_tree own_run).
  - intros x H1 H2. apply run_tree_iff. tauto.
  - intros x H. apply run_tree_iff in H. tauto.
  - intros x H. apply run_tree_iff in H. tauto.
  - intros x ks H. exact H.
Qed.
Lemma clean_tags_get t p n : clean_tags t -> get_at t p = Some n -> clean_tags n.
Proof.
  apply (local_get clean_tags). intros x H. apply clean_tags_iff in H. tauto.
Qed.
Lemma clean_tags_map_at t p n' : clean_tags t -> clean_tags n' -> clean_tags (map_at p (fun _ => n') t).
Proof.
  apply (local_map_at clean_tags own_clean).
  - intros x H1 H2. apply clean_tags_iff. tauto.
  - intros x H. apply clean_tags_iff in H. tauto.
  - intros x H. apply clean_tags_iff in H. tauto.
  - intros x ks H. exact H.
Qed.

Record winv (W : xtree) : Prop := {
  wi_run : run_tree W;
  wi_tags : clean_tags W;
  wi_tail : plain (xtail W);
  wi_root : is_inserted W = false }.

Lemma is_run_plain x : plain x -> is_run x.
Proof.
  intros H. exists [(DMP.EQUAL, x)]. split; [constructor; [exact H|constructor]|].
  unfold enc. cbn. now rewrite app_nil_r.
Qed.

Lemma is_run_enc d : Forall (fun sg : DMP.op * str => plain (snd sg) /\ snd sg <> []) d -> is_run (enc d).
Proof. intros H. exists d. split; [|reflexivity]. eapply Forall_impl; [|exact H]. intros a [Ha _]. exact Ha. Qed.

(* ------------------------------------------------------------------ *)
(** * The rejected view without attributes *)

Section VR.
Variable ws : bool.

Fixpoint vr (W : xtree) : xtree :=
  match W with
  | XNode tag attrs text tail kids =>
      XNode (proj_tag false W) [] (Some (ntxt ws (rstr (otxt text)))) (ntxt ws (rstr tail))
            ((fix go (ks : list xtree) : list xtree :=
                match ks with
                | [] => []
                | k :: r => if alive_r k then vr k :: go r else go r
                end) kids)
  end.

Lemma vr_unfold W :
  vr W = XNode (proj_tag false W) [] (Some (ntxt ws (rstr (otxt (xtext W))))) (ntxt ws (rstr (xtail W)))
               (map vr (filter alive_r (xkids W))).
Proof.
  destruct W as [tag attrs text tail kids]. cbn [vr xtext xtail xkids]. f_equal.
  induction kids as [|k r IH]; cbn; [reflexivity|]. destruct (alive_r k); cbn; [f_equal|]; exact IH.
Qed.

(* the view only looks at the tag, the diff:rename and diff:insert attributes, text, tail, children *)
Definition same_r (a b : xtree) : Prop :=
  proj_tag false a = proj_tag false b /\
  ntxt ws (rstr (otxt (xtext a))) = ntxt ws (rstr (otxt (xtext b))) /\
  ntxt ws (rstr (xtail a)) = ntxt ws (rstr (xtail b)) /\
  map vr (filter alive_r (xkids a)) = map vr (filter alive_r (xkids b)).

Lemma vr_same a b : same_r a b -> vr a = vr b.
Proof. intros (H1 & H2 & H3 & H4). rewrite (vr_unfold a), (vr_unfold b), H1, H2, H3, H4. reflexivity. Qed.

Lemma vr_kids_set_nth ks i k k' : nth_error ks i = Some k -> alive_r k' = alive_r k ->
  (alive_r k = true -> vr k' = vr k) ->
  map vr (filter alive_r (set_nth i k' ks)) = map vr (filter alive_r ks).
Proof.
  revert i; induction ks as [|y ks IH]; intros [|i] E Ha Hv; cbn [nth_error] in E; try discriminate.
  - inversion E; subst. cbn [set_nth filter]. rewrite Ha. destruct (alive_r k) eqn:Ek; cbn [map]; [|reflexivity].
    now rewrite Hv.
  - cbn [set_nth filter]. destruct (alive_r y); cbn [map]; [f_equal|]; eauto.
Qed.

Lemma vr_map_at W p n n' : get_at W p = Some n -> alive_r n' = alive_r n ->
  (alive_r n = true -> vr n' = vr n) ->
  alive_r (map_at p (fun _ => n') W) = alive_r W /\
  (p <> [] \/ alive_r n = true -> vr (map_at p (fun _ => n') W) = vr W).
Proof.
  revert W; induction p as [|i p IH]; intros W E Ha Hv; cbn [get_at map_at] in *.
  - inversion E; subst. split; [exact Ha|]. intros [H|H]; [congruence|auto].
  - destruct (nth_error (xkids W) i) as [k|] eqn:Ek; [|discriminate].
    destruct (IH k E Ha Hv) as [A V].
    split; [destruct W; reflexivity|]. intros _.
    apply vr_same. destruct W as [tag attrs text tail kids]. unfold same_r.
    cbn [with_kids xtag xattrs xtext xtail xkids proj_tag]. repeat split.
    cbn [xkids] in Ek. apply (vr_kids_set_nth kids i k _ Ek A). intros Hk. apply V.
    destruct p as [|j p]; [right|left; discriminate]. cbn in E. inversion E; subst. exact Hk.
Qed.
End VR.

(* ------------------------------------------------------------------ *)
(** * Side conditions of one action on the current tree *)

Lemma ntxt_norm_if c x : ntxt (ws_text c) (norm_if c x) = ntxt (ws_text c) x.
Proof.
  unfold ntxt, norm_if. destruct (ws_text c); [|reflexivity]. apply (norm_ws_idem x).
Qed.

(* attribute handlers touch a plain attribute and one diff:*-attr annotation: neither
   diff:rename nor diff:insert *)
Definition plain_name (k : str) : Prop := is_diff_name k = false.

Lemma aget_aput_other a k v k' : k' <> k -> aget (aput a k v) k' = aget a k'.
Proof.
  intros H. rewrite aget_aput. destruct (str_eqb k k') eqn:E; [|reflexivity].
  apply streqb_true in E. congruence.
Qed.
Lemma aget_adel_other a k k' : k' <> k -> aget (adel a k) k' = aget a k'.
Proof.
  intros H. rewrite aget_adel. destruct (str_eqb k k') eqn:E; [|reflexivity].
  apply streqb_true in E. congruence.
Qed.

Lemma dname_inj a b : dname a = dname b -> a = b.
Proof. unfold dname. apply app_inv_head. Qed.

Lemma extend_get a action value k : k <> dname (action ++ s_attr_suffix) ->
  aget (extend_diff_attr a action value) k = aget a k.
Proof. intros H. unfold extend_diff_attr. apply aget_aput_other, H. Qed.

Lemma attr_suffix_neq action l : l = Placeholder.s_insert \/ l = s_rename -> action = Placeholder.s_delete \/ action = s_add \/ action = s_rename \/ action = s_update ->
  dname l <> dname (action ++ s_attr_suffix).
Proof.
  intros [->| ->] [->|[->|[->| ->]]] H; apply dname_inj in H; discriminate.
Qed.

Lemma plain_name_neq k l : plain_name k -> k <> dname l.
Proof. intros H E. subst. unfold plain_name in H. rewrite is_diff_dname in H. discriminate. Qed.

(* what the rejected view reads of the attributes *)
Definition same_marks (a b : list (str * str)) : Prop :=
  aget a RENAME_NAME = aget b RENAME_NAME /\ aget a INSERT_NAME = aget b INSERT_NAME.

Lemma same_marks_view ws n a : same_marks a (xattrs n) ->
  vr ws (with_attrs n a) = vr ws n /\ alive_r (with_attrs n a) = alive_r n.
Proof.
  intros [H1 H2]. split.
  - apply vr_same. destruct n as [tag attrs text tail kids]. unfold same_r.
    cbn [with_attrs xtag xattrs xtext xtail xkids proj_tag] in *.
    change (dn l_rename) with RENAME_NAME. rewrite H1. auto.
  - unfold alive_r, is_inserted, ahas. destruct n. cbn [with_attrs xattrs] in *. now rewrite H2.
Qed.
