(* XmlFmtProofs4 -- what every handler of the XML formatter does to the working tree
   (text_tags = [], use_replace or not; strings read with a maker S, see XmlFmtProofs3): invariants and the REJECT refinement.

   * [winv]      the working tree is a run tree (every text and tail is a run over the
                 wrapper placeholders), carries no wrapper tag, its root is not marked
                 inserted and has a plain tail;
   * [step_ok]   side conditions of one action on the current tree (they hold along the
                 scripts of the differ; they are conditions on the RUN, evaluated by
                 [run_ok]): a text update meets a text that has not been marked up yet,
                 a node is renamed at most once, action strings are plain, action names
                 are not in the diff namespace, the root's tail is not updated;
   * [step_inv]  handlers preserve [winv];
   * [reject_step]  handlers do not change the rejected view of the tree, up to whitespace
                 normalisation when normalize & WS_TEXT, attributes set aside ([vr]).
   No axioms. *)
From Coq Require Import List NArith ZArith Bool Arith Lia.
Import ListNotations.
Require Import XV.Str XV.Json XV.TextFormat XV.Forest XV.Matcher XV.Differ XV.Path XV.WF XV.AttrProofs XV.XmlFmt XV.Projections
               XV.XmlFmtProofs0 XV.XmlFmtProofs1 XV.XmlFmtProofs2 XV.XmlFmtProofsR2 XV.XmlFmtProofs3.
Require XV.Placeholder XV.PlaceholderUndo.
Require XV.DMP XV.DMPBase.
Local Open Scope nat_scope.

(* ------------------------------------------------------------------ *)
(** * Generic facts about map_at *)

Lemma Forall_set_nth {A} (P : A -> Prop) i x l : Forall P l -> P x -> Forall P (set_nth i x l).
Proof.
  intros H Hx. revert i; induction H as [|y l Hy Hl IH]; intros [|i]; cbn; constructor; auto.
Qed.

Lemma Forall_insert_kid {A} (P : A -> Prop) i x l : Forall P l -> P x -> Forall P (insert_kid i x l).
Proof.
  intros H Hx. unfold insert_kid. rewrite <- (firstn_skipn i l) in H. apply Forall_app in H as [H1 H2].
  apply Forall_app. split; [exact H1|]. constructor; assumption.
Qed.

Lemma Forall_nth {A} (P : A -> Prop) l i x : Forall P l -> nth_error l i = Some x -> P x.
Proof. intros H E. rewrite Forall_forall in H. apply H. eapply nth_error_In; eauto. Qed.

(* a property of trees that is local: it holds of a node iff it holds of the node's own
   fields and of all its children *)
Section Local.
Variable P : xtree -> Prop.
Variable Q : xtree -> Prop.    (* the node's own fields *)
Hypothesis P_intro : forall t, Q t -> Forall P (xkids t) -> P t.
Hypothesis P_kids : forall t, P t -> Forall P (xkids t).
Hypothesis P_own : forall t, P t -> Q t.
Hypothesis Q_kids : forall t ks, Q t -> Q (with_kids t ks).

Lemma local_get t p n : P t -> get_at t p = Some n -> P n.
Proof.
  revert t; induction p as [|i p IH]; intros t H E; cbn in E; [congruence|].
  destruct (nth_error (xkids t) i) as [k|] eqn:Ek; [|discriminate].
  apply (IH k); [|exact E]. eapply Forall_nth; [apply P_kids, H|exact Ek].
Qed.

Lemma local_map_at t p n' : P t -> P n' -> P (map_at p (fun _ => n') t).
Proof.
  revert t; induction p as [|i p IH]; intros t H Hn; cbn; [exact Hn|].
  destruct (nth_error (xkids t) i) as [k|] eqn:Ek; [|exact H].
  apply P_intro; [apply Q_kids, P_own, H|]. cbn [xkids with_kids].
  apply Forall_set_nth; [apply P_kids, H|]. apply IH; [|exact Hn].
  eapply Forall_nth; [apply P_kids, H|exact Ek].
Qed.
End Local.

(* ------------------------------------------------------------------ *)
(** * The invariant *)

Section WithS.
(* the maker the strings of the working tree are read with (see XmlFmtProofs3) *)
Variable S : pstate.
Hypothesis HS : tinv S.
Local Notation is_run := (XmlFmtProofs3.is_run S).
Local Notation run_tree := (XmlFmtProofs3.run_tree S).
Local Notation rstr := (XmlFmtProofs1.rstr S).

Definition own_run (t : xtree) : Prop := is_run (otxt (xtext t)) /\ is_run (xtail t).
Definition own_clean (t : xtree) : Prop := wrapper_kind t = None.

Lemma run_tree_iff t : run_tree t <-> own_run t /\ Forall run_tree (xkids t).
Proof.
  split.
  - intros H. inversion H; subst. cbn. unfold own_run. cbn. tauto.
  - destruct t. intros [[H1 H2] H3]. constructor; assumption.
Qed.
Lemma clean_tags_iff t : clean_tags t <-> own_clean t /\ Forall clean_tags (xkids t).
Proof.
  split.
  - intros H. inversion H; subst. cbn. unfold own_clean. tauto.
  - destruct t. intros [H1 H2]. constructor; assumption.
Qed.

Lemma run_tree_get t p n : run_tree t -> get_at t p = Some n -> run_tree n.
Proof.
  apply (local_get run_tree). intros x H. apply run_tree_iff in H. tauto.
Qed.
Lemma run_tree_map_at t p n' : run_tree t -> run_tree n' -> run_tree (map_at p (fun _ => n') t).
Proof.
  apply (local_map_at run_tree own_run).
  - intros x H1 H2. apply run_tree_iff. tauto.
  - intros x H. apply run_tree_iff in H. tauto.
  - intros x H. apply run_tree_iff in H. tauto.
  - intros x ks H. exact H.
Qed.
Lemma clean_tags_get t p n : clean_tags t -> get_at t p = Some n -> clean_tags n.
Proof.
  apply (local_get clean_tags). intros x H. apply clean_tags_iff in H. tauto.
Qed.
Lemma clean_tags_map_at t p n' : clean_tags t -> clean_tags n' -> clean_tags (map_at p (fun _ => n') t).
Proof.
  apply (local_map_at clean_tags own_clean).
  - intros x H1 H2. apply clean_tags_iff. tauto.
  - intros x H. apply clean_tags_iff in H. tauto.
  - intros x H. apply clean_tags_iff in H. tauto.
  - intros x ks H. exact H.
Qed.

Record winv (W : xtree) : Prop := {
  wi_run : run_tree W;
  wi_tags : clean_tags W;
  wi_tail : plain (xtail W);
  wi_root : is_inserted W = false }.

Lemma is_run_plain x : plain x -> is_run x.
Proof.
  intros H. exists [PS (DMP.EQUAL, x)]. split; [constructor; [exact H|constructor]|].
  unfold encp. cbn. now rewrite app_nil_r.
Qed.

Lemma is_run_encp d : Forall (piece_ok S) d -> is_run (encp d).
Proof. intros H. exists d. split; [exact H|reflexivity]. Qed.

Lemma rstr_plain x : plain x -> rstr x = x.
Proof.
  intros H. pose proof (rstr_encp S [PS (DMP.EQUAL, x)] HS ltac:(constructor; [exact H|constructor])) as E.
  unfold encp, pt1 in E. cbn in E. now rewrite !app_nil_r in E.
Qed.

(* ------------------------------------------------------------------ *)
(** * The rejected view without attributes *)

Section VR.
Variable ws : bool.

Fixpoint vr (W : xtree) : xtree :=
  match W with
  | XNode tag attrs text tail kids =>
      XNode (proj_tag false W) [] (Some (ntxt ws (rstr (otxt text)))) (ntxt ws (rstr tail))
            ((fix go (ks : list xtree) : list xtree :=
                match ks with
                | [] => []
                | k :: r => if alive_r k then vr k :: go r else go r
                end) kids)
  end.

Lemma vr_unfold W :
  vr W = XNode (proj_tag false W) [] (Some (ntxt ws (rstr (otxt (xtext W))))) (ntxt ws (rstr (xtail W)))
               (map vr (filter alive_r (xkids W))).
Proof.
  destruct W as [tag attrs text tail kids]. cbn [vr xtext xtail xkids]. f_equal.
  induction kids as [|k r IH]; cbn; [reflexivity|]. destruct (alive_r k); cbn; [f_equal|]; exact IH.
Qed.

(* the view only looks at the tag, the diff:rename and diff:insert attributes, text, tail, children *)
Definition same_r (a b : xtree) : Prop :=
  proj_tag false a = proj_tag false b /\
  ntxt ws (rstr (otxt (xtext a))) = ntxt ws (rstr (otxt (xtext b))) /\
  ntxt ws (rstr (xtail a)) = ntxt ws (rstr (xtail b)) /\
  map vr (filter alive_r (xkids a)) = map vr (filter alive_r (xkids b)).

Lemma vr_same a b : same_r a b -> vr a = vr b.
Proof. intros (H1 & H2 & H3 & H4). rewrite (vr_unfold a), (vr_unfold b), H1, H2, H3, H4. reflexivity. Qed.

Lemma vr_kids_set_nth ks i k k' : nth_error ks i = Some k -> alive_r k' = alive_r k ->
  (alive_r k = true -> vr k' = vr k) ->
  map vr (filter alive_r (set_nth i k' ks)) = map vr (filter alive_r ks).
Proof.
  revert i; induction ks as [|y ks IH]; intros [|i] E Ha Hv; cbn [nth_error] in E; try discriminate.
  - inversion E; subst. cbn [set_nth filter]. rewrite Ha. destruct (alive_r k) eqn:Ek; cbn [map]; [|reflexivity].
    now rewrite Hv.
  - cbn [set_nth filter]. destruct (alive_r y); cbn [map]; [f_equal|]; eauto.
Qed.

Lemma vr_map_at W p n n' : get_at W p = Some n -> alive_r n' = alive_r n ->
  (alive_r n = true -> vr n' = vr n) ->
  alive_r (map_at p (fun _ => n') W) = alive_r W /\
  (p <> [] \/ alive_r n = true -> vr (map_at p (fun _ => n') W) = vr W).
Proof.
  revert W; induction p as [|i p IH]; intros W E Ha Hv; cbn [get_at map_at] in *.
  - inversion E; subst. split; [exact Ha|]. intros [H|H]; [congruence|auto].
  - destruct (nth_error (xkids W) i) as [k|] eqn:Ek; [|discriminate].
    destruct (IH k E Ha Hv) as [A V].
    split; [destruct W; reflexivity|]. intros _.
    apply vr_same. destruct W as [tag attrs text tail kids]. unfold same_r.
    cbn [with_kids xtag xattrs xtext xtail xkids proj_tag]. repeat split.
    cbn [xkids] in Ek. apply (vr_kids_set_nth kids i k _ Ek A). intros Hk. apply V.
    destruct p as [|j p]; [right|left; discriminate]. cbn in E. inversion E; subst. exact Hk.
Qed.
End VR.

(* ------------------------------------------------------------------ *)
(** * Side conditions of one action on the current tree *)

Lemma ntxt_norm_if c x : ntxt (ws_text c) (norm_if c x) = ntxt (ws_text c) x.
Proof.
  unfold ntxt, norm_if. destruct (ws_text c); [|reflexivity]. apply (norm_ws_idem x).
Qed.

(* attribute handlers touch a plain attribute and one diff:*-attr annotation: neither
   diff:rename nor diff:insert *)
Definition plain_name (k : str) : Prop := is_diff_name k = false.

Lemma aget_aput_other a k v k' : k' <> k -> aget (aput a k v) k' = aget a k'.
Proof.
  intros H. rewrite aget_aput. destruct (str_eqb k k') eqn:E; [|reflexivity].
  apply streqb_true in E. congruence.
Qed.
Lemma aget_adel_other a k k' : k' <> k -> aget (adel a k) k' = aget a k'.
Proof.
  intros H. rewrite aget_adel. destruct (str_eqb k k') eqn:E; [|reflexivity].
  apply streqb_true in E. congruence.
Qed.

Lemma dname_inj a b : dname a = dname b -> a = b.
Proof. unfold dname. apply app_inv_head. Qed.

Lemma extend_get a action value k : k <> dname (action ++ s_attr_suffix) ->
  aget (extend_diff_attr a action value) k = aget a k.
Proof. intros H. unfold extend_diff_attr. apply aget_aput_other, H. Qed.

Lemma attr_suffix_neq action l : l = Placeholder.s_insert \/ l = s_rename -> action = Placeholder.s_delete \/ action = s_add \/ action = s_rename \/ action = s_update ->
  dname l <> dname (action ++ s_attr_suffix).
Proof.
  intros [->| ->] [->|[->|[->| ->]]] H; apply dname_inj in H; discriminate.
Qed.

Lemma plain_name_neq k l : plain_name k -> k <> dname l.
Proof. intros H E. subst. unfold plain_name in H. rewrite is_diff_dname in H. discriminate. Qed.

(* what the rejected view reads of the attributes *)
Definition same_marks (a b : list (str * str)) : Prop :=
  aget a RENAME_NAME = aget b RENAME_NAME /\ aget a INSERT_NAME = aget b INSERT_NAME.

Lemma same_marks_view ws n a : same_marks a (xattrs n) ->
  vr ws (with_attrs n a) = vr ws n /\ alive_r (with_attrs n a) = alive_r n.
Proof.
  intros [H1 H2]. split.
  - apply vr_same. destruct n as [tag attrs text tail kids]. unfold same_r.
    cbn [with_attrs xtag xattrs xtext xtail xkids proj_tag] in *.
    change (dn l_rename) with RENAME_NAME. rewrite H1. auto.
  - unfold alive_r, is_inserted, ahas. destruct n. cbn [with_attrs xattrs] in *. now rewrite H2.
Qed.

(* ------------------------------------------------------------------ *)
(** * Decoded actions *)

Inductive dact :=
| DDeleteNode (nd : str)
| DInsertNode (tg tag : str) (pos : nat)
| DRenameNode (nd tag : str)
| DMoveNode (nd tg : str) (pos : nat)
| DTextIn (nd : str) (t : option str)
| DTextAfter (nd : str) (t : option str)
| DUpdAttr (nd k v : str)
| DDelAttr (nd k : str)
| DInsAttr (nd k v : str)
| DRenAttr (nd k k' : str)
| DInsNs (p : option str) (u : str)
| DDelNs.

Section Steps.
Variable c : cfg.
Variable o : oracle.
Variable rootns : list (option str * str).

Definition handle_d (st : fstate) (d : dact) : fres fstate :=
  match d with
  | DDeleteNode nd => handle_DeleteNode rootns st nd
  | DInsertNode tg tag pos => handle_InsertNode rootns st tg tag pos
  | DRenameNode nd tag => handle_RenameNode rootns st nd tag
  | DMoveNode nd tg pos => handle_MoveNode rootns st nd tg pos
  | DTextIn nd t => handle_UpdateTextIn c o rootns st nd t
  | DTextAfter nd t => handle_UpdateTextAfter c o rootns st nd t
  | DUpdAttr nd k v => handle_UpdateAttrib rootns st nd k v
  | DDelAttr nd k => handle_DeleteAttrib rootns st nd k
  | DInsAttr nd k v => handle_InsertAttrib rootns st nd k v
  | DRenAttr nd k k' => handle_RenameAttrib rootns st nd k k'
  | DInsNs p u => handle_InsertNamespace st p u
  | DDelNs => FOk st
  end.

Lemma p_str_ok v s : p_str v = FOk s -> v = PStr s.
Proof. destruct v; cbn; intros H; inversion H; reflexivity. Qed.
Lemma po_str_ok v s : po_str v = FOk s -> v = match s with Some x => PStr x | None => PNone end.
Proof. destruct v; cbn; intros H; inversion H; reflexivity. Qed.

(* the dispatch of handle_action, once and for all *)
Definition decode (a : gaction) : fres dact :=
  let f := ga_fields a in
  if ctor_is a n_DeleteNode then
    match f with [nd] => fbind (p_str nd) (fun nd => FOk (DDeleteNode nd)) | _ => FErr FUnsupported end
  else if ctor_is a n_InsertNode then
    match f with [tg; tag; ps] =>
      fbind (p_str tg) (fun tg => fbind (p_str tag) (fun tag => fbind (p_nat ps) (fun ps => FOk (DInsertNode tg tag ps))))
    | _ => FErr FUnsupported end
  else if ctor_is a n_RenameNode then
    match f with [nd; tag] => fbind (p_str nd) (fun nd => fbind (p_str tag) (fun tag => FOk (DRenameNode nd tag)))
    | _ => FErr FUnsupported end
  else if ctor_is a n_MoveNode then
    match f with [nd; tg; ps] =>
      fbind (p_str nd) (fun nd => fbind (p_str tg) (fun tg => fbind (p_nat ps) (fun ps => FOk (DMoveNode nd tg ps))))
    | _ => FErr FUnsupported end
  else if ctor_is a n_UpdateTextIn then
    match f with [nd; tx] => fbind (p_str nd) (fun nd => fbind (po_str tx) (fun tx => FOk (DTextIn nd tx)))
    | _ => FErr FUnsupported end
  else if ctor_is a n_UpdateTextAfter then
    match f with [nd; tx] => fbind (p_str nd) (fun nd => fbind (po_str tx) (fun tx => FOk (DTextAfter nd tx)))
    | _ => FErr FUnsupported end
  else if ctor_is a n_UpdateAttrib then
    match f with [nd; k; v] =>
      fbind (p_str nd) (fun nd => fbind (p_str k) (fun k => fbind (p_str v) (fun v => FOk (DUpdAttr nd k v))))
    | _ => FErr FUnsupported end
  else if ctor_is a n_DeleteAttrib then
    match f with [nd; k] => fbind (p_str nd) (fun nd => fbind (p_str k) (fun k => FOk (DDelAttr nd k)))
    | _ => FErr FUnsupported end
  else if ctor_is a n_InsertAttrib then
    match f with [nd; k; v] =>
      fbind (p_str nd) (fun nd => fbind (p_str k) (fun k => fbind (p_str v) (fun v => FOk (DInsAttr nd k v))))
    | _ => FErr FUnsupported end
  else if ctor_is a n_RenameAttrib then
    match f with [nd; k; k'] =>
      fbind (p_str nd) (fun nd => fbind (p_str k) (fun k => fbind (p_str k') (fun k' => FOk (DRenAttr nd k k'))))
    | _ => FErr FUnsupported end
  else if ctor_is a n_InsertNamespace then
    match f with [p; u] => fbind (po_str p) (fun p => fbind (p_str u) (fun u => FOk (DInsNs p u)))
    | _ => FErr FUnsupported end
  else if ctor_is a n_DeleteNamespace then FOk DDelNs
  else FErr FAttributeError.

Lemma handle_action_decode st a : handle_action c o rootns st a = fbind (decode a) (handle_d st).
Proof.
  unfold handle_action, decode.
  repeat match goal with
  | |- (if ctor_is a ?n then _ else _) = _ => destruct (ctor_is a n)
  end; try reflexivity;
  repeat match goal with
  | |- match ?l with [] => _ | _ :: _ => _ end = _ => destruct l; try reflexivity
  end;
  repeat match goal with
  | |- fbind (?g ?v) _ = _ => destruct (g v); cbn [fbind]; try reflexivity
  end.
Qed.

Lemma upd_node_inv st p f st' : upd_node st p f = FOk st' ->
  exists n n', get_at (fs_tree st) p = Some n /\ f n = FOk n' /\
               st' = FS (map_at p (fun _ => n') (fs_tree st)) (fs_ph st) (fs_ns st).
Proof.
  unfold upd_node, node_at. intros H. apply fbind_ok in H as (n & E & H).
  destruct (get_at (fs_tree st) p) as [n0|] eqn:G; [|discriminate]. inversion E; subst n0.
  apply fbind_ok in H as (n' & E' & H). inversion H; subst. eauto.
Qed.

Definition tag_ok (tag : str) : Prop := wrapper_kind (XNode tag [] None [] []) = None.

Lemma wrapper_kind_tag t : wrapper_kind t = wrapper_kind (XNode (xtag t) [] None [] []).
Proof. destruct t; reflexivity. Qed.

Definition step_ok (st : fstate) (d : dact) : Prop :=
  match d with
  | DRenameNode nd tag =>
      tag_ok tag /\ forall p n, resolve rootns st nd = FOk p -> get_at (fs_tree st) p = Some n ->
                                aget (xattrs n) RENAME_NAME = None
  | DInsertNode _ tag _ => tag_ok tag
  | DTextIn nd t =>
      plain (otxt t) /\ forall p n, resolve rootns st nd = FOk p -> get_at (fs_tree st) p = Some n ->
                                    is_inserted n = false -> plain (otxt (xtext n))
  | DTextAfter nd t =>
      plain (otxt t) /\ forall p n, resolve rootns st nd = FOk p -> get_at (fs_tree st) p = Some n ->
                                    p <> [] /\ plain (xtail n)
  | DUpdAttr _ k _ | DDelAttr _ k | DInsAttr _ k _ => plain_name k
  | DRenAttr _ k k' => plain_name k /\ plain_name k'
  | _ => True
  end.

(* ---- one node rewritten: invariant and view ---- *)
Lemma winv_map_at W p n n' : winv W -> get_at W p = Some n ->
  run_tree n' -> clean_tags n' -> alive_r n' = alive_r n -> (p = [] -> xtail n' = xtail n) ->
  winv (map_at p (fun _ => n') W).
Proof.
  intros [H1 H2 H3 H4] G R C A T. split.
  - apply run_tree_map_at; assumption.
  - apply clean_tags_map_at; assumption.
  - destruct p as [|i p]; cbn [map_at get_at] in *.
    + inversion G; subst. rewrite T by reflexivity. exact H3.
    + destruct (nth_error (xkids W) i); [destruct W; exact H3|exact H3].
  - destruct p as [|i p]; cbn [map_at get_at] in *.
    + inversion G; subst. unfold alive_r in A. apply (f_equal negb) in A. rewrite !negb_involutive in A. congruence.
    + destruct (nth_error (xkids W) i); [destruct W; exact H4|exact H4].
Qed.

Lemma root_alive_r W p n : winv W -> get_at W p = Some n -> p = [] -> alive_r n = true.
Proof. intros H G ->. cbn in G. inversion G; subst. unfold alive_r. now rewrite (wi_root _ H). Qed.

Lemma reject_map_at ws W p n n' : winv W -> get_at W p = Some n -> alive_r n' = alive_r n ->
  (alive_r n = true -> vr ws n' = vr ws n) -> vr ws (map_at p (fun _ => n') W) = vr ws W.
Proof.
  intros HW G A V. destruct (vr_map_at ws W p n n' G A V) as [_ H]. apply H.
  destruct p; [right; eapply root_alive_r; eauto|left; discriminate].
Qed.

(* an attribute-only rewrite that keeps diff:rename and diff:insert *)
Lemma attrs_step ws W p n a : winv W -> get_at W p = Some n -> same_marks a (xattrs n) ->
  winv (map_at p (fun _ => with_attrs n a) W) /\ vr ws (map_at p (fun _ => with_attrs n a) W) = vr ws W.
Proof.
  intros HW G M. destruct (same_marks_view ws n a M) as [V A]. split.
  - apply (winv_map_at W p n _ HW G); [| |exact A|destruct n; reflexivity].
    + pose proof (run_tree_get _ _ _ (wi_run _ HW) G) as R. destruct n. inversion R; subst. constructor; assumption.
    + pose proof (clean_tags_get _ _ _ (wi_tags _ HW) G) as C. destruct n. inversion C; subst. constructor; assumption.
  - apply (reject_map_at ws W p n _ HW G A). intros _. exact V.
Qed.

Lemma same_marks_delete a : same_marks (aput a DELETE_NAME []) a.
Proof. split; apply aget_aput_other; intros E; apply dname_inj in E; discriminate. Qed.

Lemma same_marks_extend a action v : action = Placeholder.s_delete \/ action = s_add \/ action = s_rename \/ action = s_update ->
  same_marks (extend_diff_attr a action v) a.
Proof.
  intros H. split; apply extend_get; apply attr_suffix_neq; auto.
Qed.

Lemma same_marks_trans a b d : same_marks a b -> same_marks b d -> same_marks a d.
Proof. intros [A1 A2] [B1 B2]. split; congruence. Qed.

Lemma same_marks_aput a k v : plain_name k -> same_marks (aput a k v) a.
Proof. intros H. split; apply aget_aput_other; intros E; symmetry in E; revert E; apply plain_name_neq, H. Qed.
Lemma same_marks_adel a k : plain_name k -> same_marks (adel a k) a.
Proof. intros H. split; apply aget_adel_other; intros E; symmetry in E; revert E; apply plain_name_neq, H. Qed.
End Steps.

Section Steps2.
Variable c : cfg.
Variable o : oracle.
Variable rootns : list (option str * str).
Let ws := ws_text c.

Lemma own_of_run n : run_tree n -> is_run (otxt (xtext n)) /\ is_run (xtail n) /\ Forall run_tree (xkids n).
Proof. intros H. inversion H; subst. cbn. auto. Qed.
Lemma own_of_clean n : clean_tags n -> wrapper_kind n = None /\ Forall clean_tags (xkids n).
Proof. intros H. inversion H; subst. cbn. auto. Qed.

Lemma vr_text_tail ws0 n n' :
  proj_tag false n' = proj_tag false n -> xkids n' = xkids n ->
  ntxt ws0 (rstr (otxt (xtext n'))) = ntxt ws0 (rstr (otxt (xtext n))) ->
  ntxt ws0 (rstr (xtail n')) = ntxt ws0 (rstr (xtail n)) -> vr ws0 n' = vr ws0 n.
Proof. intros H1 H2 H3 H4. apply vr_same. unfold same_r. rewrite H1, H2, H3, H4. auto. Qed.

(* the maker has room for the diff:replace openers of one text update (one per replaced segment at most, hence at most
   one per character of the new text); only asked with use_replace *)
Definition room_ok (st : fstate) (d : dact) : Prop :=
  match d with
  | DTextIn _ t | DTextAfter _ t =>
      c_replace c = true -> (Placeholder.ctr (fs_ph st) + N.of_nat (length (norm_if c (otxt t))) <= Placeholder.PUA_END)%N
  | _ => True
  end.

(* the maker after the step: still without text-tag placeholders, and it has only grown *)
Definition ph_step (st st' : fstate) : Prop := tinv (fs_ph st') /\ sext (fs_ph st) (fs_ph st').

Lemma upd_node_ph st p f st' : upd_node st p f = FOk st' -> fs_ph st' = fs_ph st.
Proof. intros H. apply upd_node_inv in H as (n & n' & _ & _ & ->). reflexivity. Qed.

(* the maker along one step: only the two text handlers touch it, and they only add diff:replace openers *)
Theorem step_ph st d st' :
  tinv (fs_ph st) -> step_ok rootns st d -> room_ok st d -> handle_d c o rootns st d = FOk st' -> ph_step st st'.
Proof.
  intros Hph0 Hok Hroom H.
  assert (Same : fs_ph st' = fs_ph st -> ph_step st st').
  { intros E. unfold ph_step. rewrite E. split; [exact Hph0|apply sext_refl]. }
  destruct d; cbn [handle_d step_ok room_ok] in *;
    try (unfold handle_DeleteNode, handle_InsertNode, handle_RenameNode, handle_UpdateAttrib, handle_DeleteAttrib,
           handle_InsertAttrib, handle_RenameAttrib in H;
         apply fbind_ok in H as (p & _ & H); apply Same, (upd_node_ph _ _ _ _ H)).
  - (* MoveNode *)
    unfold handle_MoveNode in H. apply fbind_ok in H as (pn & _ & H). apply fbind_ok in H as (cp & _ & H).
    apply fbind_ok in H as (pt & _ & H). cbv zeta in H. apply fbind_ok in H as (tg0 & _ & H). inversion H; subst st'. apply Same. reflexivity.
  - (* UpdateTextIn *)
    destruct Hok as [Htxt Hold]. unfold handle_UpdateTextIn in H. apply fbind_ok in H as (p & Ep & H).
    unfold node_at in H. destruct (get_at (fs_tree st) p) as [n|] eqn:G; [|discriminate]. cbn [fbind] in H.
    destruct (is_inserted n) eqn:Ei; [inversion H; subst st'; apply Same; reflexivity|].
    destruct (make_diff_tags_gen c o (fs_ph st) _ _ false Hph0 (Hold p n Ep G Ei) Htxt Hroom)
      as (s' & d & Em & Hs' & Xs' & _).
    rewrite Em in H. cbn [fbind] in H. inversion H; subst st'. split; assumption.
  - (* UpdateTextAfter *)
    destruct Hok as [Htxt Hold]. unfold handle_UpdateTextAfter in H. apply fbind_ok in H as (p & Ep & H).
    unfold node_at in H. destruct (get_at (fs_tree st) p) as [n|] eqn:G; [|discriminate]. cbn [fbind] in H.
    destruct (Hold p n Ep G) as [Hp Hpl]. destruct p as [|i p]; [congruence|].
    destruct (make_diff_tags_gen c o (fs_ph st) _ _ true Hph0 Hpl Htxt Hroom) as (s' & d & Em & Hs' & Xs' & _).
    rewrite Em in H. cbn [fbind] in H. inversion H; subst st'. split; assumption.
  - (* InsertNamespace *)
    unfold handle_InsertNamespace in H. inversion H; subst st'. apply Same. reflexivity.
  - (* DeleteNamespace *)
    inversion H; subst st'. apply Same. reflexivity.
Qed.

(* how far the maker's counter can move in one step (nothing without use_replace) *)
Definition step_cost (d : dact) : N :=
  match d with DTextIn _ t | DTextAfter _ t => N.of_nat (length (norm_if c (otxt t))) | _ => 0%N end.

Theorem step_ctr st d st' :
  tinv (fs_ph st) -> step_ok rootns st d -> room_ok st d -> handle_d c o rootns st d = FOk st' ->
  (Placeholder.ctr (fs_ph st') <= Placeholder.ctr (fs_ph st) + step_cost d)%N.
Proof.
  intros Hph0 Hok Hroom H.
  assert (Same : fs_ph st' = fs_ph st -> (Placeholder.ctr (fs_ph st') <= Placeholder.ctr (fs_ph st) + step_cost d)%N).
  { intros E. rewrite E. lia. }
  destruct d; cbn [handle_d step_ok room_ok] in *;
    try (unfold handle_DeleteNode, handle_InsertNode, handle_RenameNode, handle_UpdateAttrib, handle_DeleteAttrib,
           handle_InsertAttrib, handle_RenameAttrib in H;
         apply fbind_ok in H as (p & _ & H); apply Same, (upd_node_ph _ _ _ _ H)).
  - unfold handle_MoveNode in H. apply fbind_ok in H as (pn & _ & H). apply fbind_ok in H as (cp & _ & H).
    apply fbind_ok in H as (pt & _ & H). cbv zeta in H. apply fbind_ok in H as (tg0 & _ & H). inversion H; subst st'. apply Same. reflexivity.
  - destruct Hok as [Htxt Hold]. unfold handle_UpdateTextIn in H. apply fbind_ok in H as (p & Ep & H).
    unfold node_at in H. destruct (get_at (fs_tree st) p) as [n|] eqn:G; [|discriminate]. cbn [fbind] in H.
    destruct (is_inserted n) eqn:Ei; [inversion H; subst st'; apply Same; reflexivity|].
    destruct (make_diff_tags_gen c o (fs_ph st) _ _ false Hph0 (Hold p n Ep G Ei) Htxt Hroom)
      as (s' & ps & Em & _ & _ & _ & _ & _ & _ & _ & Hc).
    rewrite Em in H. cbn [fbind] in H. inversion H; subst st'. cbn [fs_ph step_cost]. exact Hc.
  - destruct Hok as [Htxt Hold]. unfold handle_UpdateTextAfter in H. apply fbind_ok in H as (p & Ep & H).
    unfold node_at in H. destruct (get_at (fs_tree st) p) as [n|] eqn:G; [|discriminate]. cbn [fbind] in H.
    destruct (Hold p n Ep G) as [Hp Hpl]. destruct p as [|i p]; [congruence|].
    destruct (make_diff_tags_gen c o (fs_ph st) _ _ true Hph0 Hpl Htxt Hroom) as (s' & ps & Em & _ & _ & _ & _ & _ & _ & _ & Hc).
    rewrite Em in H. cbn [fbind] in H. inversion H; subst st'. cbn [fs_ph step_cost]. exact Hc.
  - unfold handle_InsertNamespace in H. inversion H; subst st'. apply Same. reflexivity.
  - inversion H; subst st'. apply Same. reflexivity.
Qed.

Theorem step_reject st d st' :
  winv (fs_tree st) -> tinv (fs_ph st) -> sext (fs_ph st') S -> step_ok rootns st d -> room_ok st d ->
  handle_d c o rootns st d = FOk st' ->
  winv (fs_tree st') /\ ph_step st st' /\ vr ws (fs_tree st') = vr ws (fs_tree st).
Proof.
  intros HW Hph0 HX Hok Hroom H.
  assert (Hph : forall t ns, ph_step st (FS t (fs_ph st) ns)) by (intros; split; [exact Hph0|apply sext_refl]).
  destruct d; cbn [handle_d step_ok room_ok] in *.
  - (* DeleteNode *)
    unfold handle_DeleteNode in H. apply fbind_ok in H as (p & Ep & H).
    apply upd_node_inv in H as (n & n' & G & E & ->). inversion E; subst n'. cbn [fs_tree fs_ph].
    destruct (attrs_step ws _ p n _ HW G (same_marks_delete (xattrs n))) as [I V]. auto.
  - (* InsertNode *)
    unfold handle_InsertNode in H. apply fbind_ok in H as (p & Ep & H).
    apply upd_node_inv in H as (n & n' & G & E & ->). inversion E; subst n'. cbn [fs_tree fs_ph].
    pose proof (run_tree_get _ _ _ (wi_run _ HW) G) as R. pose proof (clean_tags_get _ _ _ (wi_tags _ HW) G) as C.
    destruct (own_of_run n R) as (R1 & R2 & R3). destruct (own_of_clean n C) as (C1 & C2).
    set (new := XNode tag [(INSERT_NAME, [])] None [] []).
    assert (Hdead : alive_r new = false) by reflexivity.
    assert (A : alive_r (h_InsertNode n tag pos) = alive_r n) by (destruct n; reflexivity).
    split; [|split; [apply Hph|]].
    + apply (winv_map_at _ p n _ HW G); [| |exact A|destruct n; reflexivity].
      * destruct n. constructor; cbn in *; auto. apply Forall_insert_kid; [exact R3|].
        constructor; [apply is_run_plain; reflexivity|apply is_run_plain; reflexivity|constructor].
      * destruct n. constructor; [exact C1|]. cbn in *. apply Forall_insert_kid; [exact C2|].
        constructor; [exact Hok|constructor].
    + apply (reject_map_at ws _ p n _ HW G A). intros _. apply vr_same.
      destruct n as [ntg nat_ ntx ntl nks]. unfold same_r, h_InsertNode. cbn [with_kids xtag xattrs xtext xtail xkids proj_tag].
      repeat split. now rewrite (filter_insert_kid_dead alive_r nks _ new Hdead).
  - (* RenameNode *)
    destruct Hok as [Htag Hren].
    unfold handle_RenameNode in H. apply fbind_ok in H as (p & Ep & H).
    apply upd_node_inv in H as (n & n' & G & E & ->). inversion E; subst n'. cbn [fs_tree fs_ph].
    specialize (Hren p n Ep G).
    pose proof (run_tree_get _ _ _ (wi_run _ HW) G) as R. pose proof (clean_tags_get _ _ _ (wi_tags _ HW) G) as C.
    destruct (own_of_run n R) as (R1 & R2 & R3). destruct (own_of_clean n C) as (C1 & C2).
    assert (A : alive_r (h_RenameNode n tag) = alive_r n).
    { destruct n as [ntg nat_ ntx ntl nks]. unfold alive_r, is_inserted, ahas, h_RenameNode. cbn [with_tag with_attrs xattrs xtag].
      rewrite aget_aput_other; [reflexivity|]. intros E0; apply dname_inj in E0; discriminate. }
    split; [|split; [apply Hph|]].
    + apply (winv_map_at _ p n _ HW G); [| |exact A|destruct n; reflexivity].
      * destruct n. constructor; cbn in *; auto.
      * destruct n. constructor; [|exact C2]. rewrite wrapper_kind_tag. exact Htag.
    + apply (reject_map_at ws _ p n _ HW G A). intros _. apply vr_text_tail; try (destruct n; reflexivity).
      destruct n as [ntg nat_ ntx ntl nks]. unfold h_RenameNode. cbn [with_tag with_attrs xattrs xtag proj_tag] in *.
      change (dn l_rename) with RENAME_NAME. rewrite aget_aput, str_eqb_refl, Hren. reflexivity.
  - (* MoveNode *)
    unfold handle_MoveNode in H. apply fbind_ok in H as (pn & Epn & H).
    unfold node_at in H. destruct (get_at (fs_tree st) pn) as [copy|] eqn:Gn; [|discriminate]. cbn [fbind] in H.
    apply fbind_ok in H as (pt & Ept & H).
    set (t1 := map_at pn delete_node (fs_tree st)) in *.
    destruct (get_at t1 pt) as [tgn|] eqn:Gt; [|discriminate]. cbn [fbind] in H. inversion H; subst st'. clear H.
    cbn [fs_tree fs_ph].
    assert (E1 : t1 = map_at pn (fun _ => delete_node copy) (fs_tree st)).
    { unfold t1. apply map_at_ext. intros n0 Hn0. congruence. }
    destruct (attrs_step ws _ pn copy _ HW Gn (same_marks_delete (xattrs copy))) as [I1 V1].
    fold (delete_node copy) in I1, V1. rewrite <- E1 in I1, V1.
    set (ins := with_attrs copy (aput (xattrs copy) INSERT_NAME [])) in *.
    set (real := real_insert_position (xkids tgn) pos) in *.
    rewrite (map_at_ext pt _ (fun _ => with_kids tgn (insert_kid real ins (xkids tgn))) t1)
      by (intros n0 Hn0; congruence).
    pose proof (run_tree_get _ _ _ (wi_run _ HW) Gn) as Rc. pose proof (clean_tags_get _ _ _ (wi_tags _ HW) Gn) as Cc.
    pose proof (run_tree_get _ _ _ (wi_run _ I1) Gt) as R. pose proof (clean_tags_get _ _ _ (wi_tags _ I1) Gt) as C.
    destruct (own_of_run tgn R) as (R1 & R2 & R3). destruct (own_of_clean tgn C) as (C1 & C2).
    assert (Hdead : alive_r ins = false).
    { unfold ins, alive_r, is_inserted, ahas. destruct copy. cbn [with_attrs xattrs]. now rewrite aget_aput, str_eqb_refl. }
    assert (A : alive_r (with_kids tgn (insert_kid real ins (xkids tgn))) = alive_r tgn) by (destruct tgn; reflexivity).
    split; [|split; [apply Hph|]].
    + apply (winv_map_at _ pt tgn _ I1 Gt); [| |exact A|destruct tgn; reflexivity].
      * destruct tgn. constructor; cbn in *; auto. apply Forall_insert_kid; [exact R3|].
        unfold ins. destruct copy. inversion Rc; subst. constructor; assumption.
      * destruct tgn. constructor; [exact C1|]. cbn in *. apply Forall_insert_kid; [exact C2|].
        unfold ins. destruct copy. inversion Cc; subst. constructor; assumption.
    + rewrite <- V1. apply (reject_map_at ws _ pt tgn _ I1 Gt A). intros _. apply vr_same.
      destruct tgn as [tg0 at_ tx tl ks]. unfold same_r. cbn [with_kids xtag xattrs xtext xtail xkids proj_tag].
      repeat split. now rewrite (filter_insert_kid_dead alive_r ks _ ins Hdead).
  - (* UpdateTextIn *)
    destruct Hok as [Htxt Hold].
    unfold handle_UpdateTextIn in H. apply fbind_ok in H as (p & Ep & H).
    unfold node_at in H. destruct (get_at (fs_tree st) p) as [n|] eqn:G; [|discriminate]. cbn [fbind] in H.
    specialize (Hold p n Ep G).
    pose proof (run_tree_get _ _ _ (wi_run _ HW) G) as R. pose proof (clean_tags_get _ _ _ (wi_tags _ HW) G) as C.
    destruct (own_of_run n R) as (R1 & R2 & R3). destruct (own_of_clean n C) as (C1 & C2).
    destruct (is_inserted n) eqn:Ei.
    + inversion H; subst st'. clear H. cbn [fs_tree fs_ph].
      rewrite (map_at_ext p _ (fun _ => with_text n t) (fs_tree st)) by (intros n0 Hn0; congruence).
      assert (A : alive_r (with_text n t) = alive_r n) by (destruct n; reflexivity).
      split; [|split; [apply Hph|]].
      * apply (winv_map_at _ p n _ HW G); [| |exact A|destruct n; reflexivity].
        -- destruct n. constructor; cbn in *; auto. apply is_run_plain, Htxt.
        -- destruct n. constructor; assumption.
      * apply (reject_map_at ws _ p n _ HW G A). unfold alive_r. rewrite Ei. discriminate.
    + destruct (make_diff_tags_gen c o (fs_ph st) _ _ false Hph0 (Hold eq_refl) Htxt Hroom)
        as (s' & d & Em & Hs' & Xs' & _ & Fd0 & T1 & T2 & _).
      rewrite Em in H. cbn [fbind] in H. inversion H; subst st'. clear H. cbn [fs_tree fs_ph] in *.
      assert (Fd : Forall (piece_ok S) d) by (eapply Forall_impl; [|exact Fd0]; intros a; apply piece_ok_ext, HX).
      set (newtext := if match d with [] => false | _ => true end then Some (encp d) else None).
      rewrite (map_at_ext p _ (fun _ => with_text n newtext) (fs_tree st)) by (intros n0 Hn0; congruence).
      assert (Hnt : otxt newtext = encp d) by (unfold newtext; destruct d; reflexivity).
      assert (A : alive_r (with_text n newtext) = alive_r n) by (destruct n; reflexivity).
      split; [|split; [split; assumption|]].
      * apply (winv_map_at _ p n _ HW G); [| |exact A|destruct n; reflexivity].
        -- destruct n. constructor; cbn in *; auto. rewrite Hnt. apply is_run_encp, Fd.
        -- destruct n. constructor; assumption.
      * apply (reject_map_at ws _ p n _ HW G A). intros _. apply vr_text_tail; try (destruct n; reflexivity).
        destruct n as [ntg nat_ ntx ntl nks]. cbn [with_text xtext] in *. rewrite Hnt, (rstr_encp S d HS Fd), T1.
        rewrite (rstr_plain _ (Hold eq_refl)). apply ntxt_norm_if.
  - (* UpdateTextAfter *)
    destruct Hok as [Htxt Hold].
    unfold handle_UpdateTextAfter in H. apply fbind_ok in H as (p & Ep & H).
    unfold node_at in H. destruct (get_at (fs_tree st) p) as [n|] eqn:G; [|discriminate]. cbn [fbind] in H.
    destruct (Hold p n Ep G) as [Hp Hpl].
    assert (Hm : forall (x y : fres fstate), match p with [] => x | _ :: _ => y end = y) by (destruct p; [congruence|reflexivity]).
    rewrite Hm in H. clear Hm.
    pose proof (run_tree_get _ _ _ (wi_run _ HW) G) as R. pose proof (clean_tags_get _ _ _ (wi_tags _ HW) G) as C.
    destruct (own_of_run n R) as (R1 & R2 & R3). destruct (own_of_clean n C) as (C1 & C2).
    destruct (make_diff_tags_gen c o (fs_ph st) _ _ true Hph0 Hpl Htxt Hroom)
      as (s' & d & Em & Hs' & Xs' & _ & Fd0 & T1 & T2 & _).
    rewrite Em in H. cbn [fbind] in H. inversion H; subst st'. clear H. cbn [fs_tree fs_ph] in *.
    assert (Fd : Forall (piece_ok S) d) by (eapply Forall_impl; [|exact Fd0]; intros a; apply piece_ok_ext, HX).
    rewrite (map_at_ext p _ (fun _ => with_tail n (encp d)) (fs_tree st)) by (intros n0 Hn0; congruence).
    assert (A : alive_r (with_tail n (encp d)) = alive_r n) by (destruct n; reflexivity).
    split; [|split; [split; assumption|]].
    + apply (winv_map_at _ p n _ HW G); [| |exact A|congruence].
      * destruct n. constructor; cbn in *; auto. apply is_run_encp, Fd.
      * destruct n. constructor; assumption.
    + apply (reject_map_at ws _ p n _ HW G A). intros _. apply vr_text_tail; try (destruct n; reflexivity).
      destruct n as [ntg nat_ ntx ntl nks]. cbn [with_tail xtail] in *. rewrite (rstr_encp S d HS Fd), T1.
      rewrite (rstr_plain _ Hpl). apply ntxt_norm_if.
  - (* UpdateAttrib *)
    unfold handle_UpdateAttrib in H. apply fbind_ok in H as (p & Ep & H).
    apply upd_node_inv in H as (n & n' & G & E & ->). unfold h_UpdateAttrib in E.
    destruct (aget (xattrs n) k) as [oldval|]; [|discriminate]. inversion E; subst n'. cbn [fs_tree fs_ph].
    match goal with |- context [with_attrs n ?a] => destruct (attrs_step ws _ p n a HW G) as [I V] end; [|auto].
    eapply same_marks_trans; [apply same_marks_extend; auto|apply same_marks_aput, Hok].
  - (* DeleteAttrib *)
    unfold handle_DeleteAttrib in H. apply fbind_ok in H as (p & Ep & H).
    apply upd_node_inv in H as (n & n' & G & E & ->). unfold h_DeleteAttrib in E.
    destruct (ahas (xattrs n) k); [|discriminate]. inversion E; subst n'. cbn [fs_tree fs_ph].
    match goal with |- context [with_attrs n ?a] => destruct (attrs_step ws _ p n a HW G) as [I V] end; [|auto].
    eapply same_marks_trans; [apply same_marks_extend; auto|apply same_marks_adel, Hok].
  - (* InsertAttrib *)
    unfold handle_InsertAttrib in H. apply fbind_ok in H as (p & Ep & H).
    apply upd_node_inv in H as (n & n' & G & E & ->). unfold h_InsertAttrib in E. inversion E; subst n'. cbn [fs_tree fs_ph].
    match goal with |- context [with_attrs n ?a] => destruct (attrs_step ws _ p n a HW G) as [I V] end; [|auto].
    eapply same_marks_trans; [apply same_marks_extend; auto|apply same_marks_aput, Hok].
  - (* RenameAttrib *)
    destruct Hok as [Hk Hk'].
    unfold handle_RenameAttrib in H. apply fbind_ok in H as (p & Ep & H).
    apply upd_node_inv in H as (n & n' & G & E & ->). unfold h_RenameAttrib in E.
    destruct (aget (xattrs n) k) as [v|]; [|discriminate]. inversion E; subst n'. cbn [fs_tree fs_ph].
    match goal with |- context [with_attrs n ?a] => destruct (attrs_step ws _ p n a HW G) as [I V] end; [|auto].
    eapply same_marks_trans; [apply same_marks_extend; auto|].
    eapply same_marks_trans; [apply same_marks_adel, Hk|apply same_marks_aput, Hk'].
  - (* InsertNamespace *)
    unfold handle_InsertNamespace in H. inversion H; subst st'. cbn [fs_tree fs_ph]. auto.
  - (* DeleteNamespace *)
    inversion H; subst st'. split; [exact HW|]. split; [split; [exact Hph0|apply sext_refl]|reflexivity].
Qed.
End Steps2.
End WithS.
