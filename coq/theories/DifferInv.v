(* DifferInv.v -- the invariant of the breadth-first phase of Differ.diff and its
   preservation by the placement transitions.

   Exported, in plain words:
   - list facts about find_pos's helpers (index_of, last_inorder, count_to) and
     [place_order]: putting a node right after the partner of the nearest
     in-order left sibling keeps the in-order children of a matched pair in
     corresponding order;
   - [Inv Pp Pa Pm s]: the invariant (Pp = right nodes already placed, Pa = right
     nodes whose children have been aligned, Pm = right nodes under which in-order
     marks may exist; section variable Orig = the nodes of the original left
     document: every document node of W is original or matched): W well formed, the two maps are
     mutually inverse, matched nodes are in the documents and of the same kind,
     placed nodes sit under the partner of their parent, in-order marks come in
     matched pairs under matched parents, the in-order children of a matched
     pair correspond in order, every child of an aligned node whose partner is a
     child of the partner is in order;
   - [find_pos_spec]: under Inv, find_pos does not fail and returns the position
     described above;
   - [Inv_place]: the generic placement step (insert or move + mark) preserves Inv;
   - [Inv_marks]: marking an order-preserving set of matched children preserves Inv;
   - [Inv_shape]: label-only changes preserve Inv;
   - [anc_matched]: the ancestors of the partner of a placed node are partners of
     its ancestors (hence a move target is never inside the moved subtree). *)
From Coq Require Import List NArith ZArith Arith Bool Lia.
Import ListNotations.
Require Import XV.Str XV.Forest XV.LCS XV.Matcher XV.Differ XV.Spec XV.WF XV.ForestProofs XV.TreeProofs.
Require Import XV.DifferFrame.

(* ------------------------------------------------------------------ *)
(** * Lists                                                             *)
(* ------------------------------------------------------------------ *)
Lemma index_of_app y s1 s2 : ~ In y s1 -> index_of y (s1 ++ y :: s2) = length s1.
Proof.
  induction s1 as [|a s1 IH]; cbn; intros H.
  - rewrite Nat.eqb_refl. reflexivity.
  - destruct (Nat.eqb y a) eqn:E.
    + apply Nat.eqb_eq in E. exfalso. apply H. left. symmetry; exact E.
    + f_equal. apply IH. intros Hin. apply H. right; exact Hin.
Qed.

Lemma firstn_app_exact {A} (a b : list A) : firstn (length a) (a ++ b) = a.
Proof. induction a as [|x a IH]; cbn; [destruct b; reflexivity|f_equal; exact IH]. Qed.

Lemma skipn_app_exact {A} (a b : list A) : skipn (length a) (a ++ b) = b.
Proof. induction a as [|x a IH]; cbn; [reflexivity|exact IH]. Qed.

Lemma last_inorder_spec ino s1 :
  (last_inorder ino (rev s1) = None /\ forall v, In v s1 -> ino v = false) \/
  (exists v a b, last_inorder ino (rev s1) = Some v /\ s1 = a ++ v :: b /\ ino v = true /\
                 forall u, In u b -> ino u = false).
Proof.
  induction s1 as [|z s IH] using rev_ind.
  - left. split; [reflexivity|intros v []].
  - rewrite rev_app_distr. cbn [rev app last_inorder]. destruct (ino z) eqn:Ez.
    + right. exists z, s, []. split; [reflexivity|]. split; [reflexivity|]. split; [exact Ez|intros u []].
    + destruct IH as [[H1 H2]|(v & a & b & H1 & H2 & H3 & H4)].
      * left. split; [exact H1|]. intros v Hv. apply in_app_or in Hv as [Hv|[<-|[]]]; auto.
      * right. exists v, a, (b ++ [z]). split; [exact H1|]. split; [rewrite H2, <- app_assoc; reflexivity|].
        split; [exact H3|]. intros u Hu. apply in_app_or in Hu as [Hu|[<-|[]]]; auto.
Qed.

Definition rm (oc : option id) (ks : list id) : list id :=
  match oc with Some c => remove_id c ks | None => ks end.

Lemma remove_id_app c a b : remove_id c (a ++ b) = remove_id c a ++ remove_id c b.
Proof. unfold remove_id. apply filter_app. Qed.

Lemma remove_id_cons_ne c x l : x <> c -> remove_id c (x :: l) = x :: remove_id c l.
Proof. intros H. unfold remove_id. cbn. apply Nat.eqb_neq in H. rewrite H. reflexivity. Qed.

Lemma remove_id_cons_eq c l : remove_id c (c :: l) = remove_id c l.
Proof. unfold remove_id. cbn. rewrite Nat.eqb_refl. reflexivity. Qed.

Lemma count_to_spec oc sm k2 : forall k1 i, ~ In sm k1 -> oc <> Some sm ->
  count_to oc sm (k1 ++ sm :: k2) i = i + length (rm oc k1) + 1.
Proof.
  induction k1 as [|c' k1 IH]; intros i Hsm Hoc; cbn [app count_to].
  - destruct (oid_eqb (Some sm) oc) eqn:E.
    + apply oid_eqb_true in E. congruence.
    + rewrite Nat.eqb_refl. destruct oc; cbn; lia.
  - destruct (oid_eqb (Some c') oc) eqn:E.
    + apply oid_eqb_true in E. subst oc. rewrite IH; [|intros H; apply Hsm; right; exact H|exact Hoc].
      cbn [rm]. rewrite remove_id_cons_eq. reflexivity.
    + apply oid_eqb_false in E. destruct (Nat.eqb c' sm) eqn:E2.
      * apply Nat.eqb_eq in E2. exfalso. apply Hsm. left; exact E2.
      * rewrite IH; [|intros H; apply Hsm; right; exact H|exact Hoc].
        destruct oc as [c|]; cbn [rm].
        -- rewrite remove_id_cons_ne by congruence. cbn. lia.
        -- cbn. lia.
Qed.

Lemma filter_ext_in' {A} (f g : A -> bool) l : (forall x, In x l -> f x = g x) -> filter f l = filter g l.
Proof.
  induction l as [|x l IH]; cbn; intros H; [reflexivity|].
  rewrite (H x (or_introl eq_refl)). rewrite IH; [reflexivity|]. intros y Hy. apply H. right; exact Hy.
Qed.

Lemma filter_upd_notin (f : id -> bool) c l : ~ In c l -> filter (upd f c true) l = filter f l.
Proof.
  intros H. apply filter_ext_in'. intros x Hx. apply upd_other. intros ->. contradiction.
Qed.

Lemma filter_remove_id (f : id -> bool) c l : f c = false -> filter f (remove_id c l) = filter f l.
Proof.
  intros Hc. induction l as [|x l IH]; [reflexivity|].
  destruct (Nat.eq_dec x c) as [->|Hne].
  - rewrite remove_id_cons_eq. cbn. rewrite Hc. exact IH.
  - rewrite remove_id_cons_ne by exact Hne. cbn. rewrite IH. reflexivity.
Qed.

Lemma remove_id_self_notin c l : ~ In c (remove_id c l).
Proof. rewrite remove_id_In. intros [_ H]. apply H; reflexivity. Qed.

Lemma filter_In_ne (f : id -> bool) c l u : f c = false -> In u (filter f l) -> u <> c.
Proof. intros Hc Hu ->. apply filter_In in Hu as [_ Hu]. congruence. Qed.

Lemma In_map_Some {A} (v : A) l : In (Some v) (map Some l) -> In v l.
Proof. intros H. apply in_map_iff in H as (x & E & Hx). inversion E; subst. exact Hx. Qed.

Lemma map_Some_inj {A} (a b : list A) : map Some a = map Some b -> a = b.
Proof.
  revert b. induction a as [|x a IH]; intros [|y b] H; cbn in H; try discriminate; [reflexivity|].
  inversion H; subst. f_equal. apply IH. assumption.
Qed.

Lemma ins_at_0 {A} (x : A) l : ins_at 0 x l = x :: l.
Proof. reflexivity. Qed.

Lemma ins_at_after {A} (x sm : A) a b : ins_at (length a + 1) x (a ++ sm :: b) = a ++ sm :: x :: b.
Proof.
  unfold ins_at. replace (a ++ sm :: b) with ((a ++ [sm]) ++ b) by (rewrite <- app_assoc; reflexivity).
  replace (length a + 1) with (length (a ++ [sm])) by (rewrite app_length; reflexivity).
  rewrite firstn_app_exact, skipn_app_exact. rewrite <- app_assoc. reflexivity.
Qed.

(* the position computed by find_pos, in terms of lists *)
Definition pos_ok (inL inR : id -> bool) (l2r : id -> option id) (ks s1 : list id) (c : id) (pos : nat) : Prop :=
  ((forall v, In v s1 -> inR v = false) /\ pos = 0) \/
  (exists v a b sm k1 k2, s1 = a ++ v :: b /\ inR v = true /\ (forall u, In u b -> inR u = false) /\
     l2r sm = Some v /\ inL sm = true /\ ks = k1 ++ sm :: k2 /\ pos = length (remove_id c k1) + 1).

Lemma place_order (l2r l2r' : id -> option id) (inL inR : id -> bool) (ks s1 s2 : list id) (c y : id) pos :
  map l2r (filter inL ks) = map Some (filter inR (s1 ++ y :: s2)) ->
  NoDup ks -> NoDup (s1 ++ y :: s2) ->
  inR y = false -> inL c = false ->
  (forall u, In u ks -> u <> c -> l2r' u = l2r u) -> l2r' c = Some y ->
  (forall u u' r, In u ks -> In u' ks -> l2r u = Some r -> l2r u' = Some r -> u = u') ->
  pos_ok inL inR l2r ks s1 c pos ->
  pos <= length (remove_id c ks) /\
  map l2r' (filter (upd inL c true) (ins_at pos c (remove_id c ks)))
  = map Some (filter (upd inR y true) (s1 ++ y :: s2)).
Proof.
  intros Hold Hnk Hns HRy HLc Hl2r' Hc Hinj Hpos.
  assert (Hy1 : ~ In y s1).
  { apply NoDup_remove_2 in Hns. intros H; apply Hns; apply in_or_app; left; exact H. }
  assert (Hy2 : ~ In y s2).
  { apply NoDup_remove_2 in Hns. intros H; apply Hns; apply in_or_app; right; exact H. }
  assert (Hmap : forall l, incl l ks -> (forall u, In u l -> u <> c) -> map l2r' l = map l2r l).
  { intros l Hl Hne. apply map_ext_in. intros u Hu. apply Hl2r'; auto. }
  assert (HR : filter (upd inR y true) (s1 ++ y :: s2) = filter inR s1 ++ y :: filter inR s2).
  { rewrite filter_app. cbn [filter]. rewrite upd_same. rewrite !filter_upd_notin by assumption. reflexivity. }
  rewrite HR.
  assert (HRold : filter inR (s1 ++ y :: s2) = filter inR s1 ++ filter inR s2).
  { rewrite filter_app. cbn [filter]. rewrite HRy. reflexivity. }
  rewrite HRold in Hold.
  destruct Hpos as [[Hnone ->]|(v & a & b & sm & k1 & k2 & Es1 & Hv & Hb & Hsm & HLsm & Eks & ->)].
  - split; [lia|]. rewrite ins_at_0. cbn [filter]. rewrite upd_same.
    rewrite filter_upd_notin by apply remove_id_self_notin.
    rewrite filter_remove_id by exact HLc. cbn [map]. rewrite Hc.
    rewrite Hmap.
    + rewrite Hold.
      assert (E : filter inR s1 = []).
      { clear - Hnone. induction s1 as [|z s1 IH]; [reflexivity|]. cbn.
        rewrite (Hnone z (or_introl eq_refl)). apply IH. intros v Hv. apply Hnone. right; exact Hv. }
      rewrite E. reflexivity.
    + intros u Hu. apply filter_In in Hu. tauto.
    + intros u Hu. eapply filter_In_ne; eauto.
  - assert (Hsmc : sm <> c) by (intros ->; congruence).
    subst ks. rewrite remove_id_app, remove_id_cons_ne by exact Hsmc.
    split; [rewrite app_length; cbn; lia|].
    rewrite ins_at_after. rewrite filter_app. cbn [filter]. rewrite !upd_same.
    rewrite (upd_other inL c true sm Hsmc), HLsm.
    rewrite !filter_upd_notin by apply remove_id_self_notin.
    rewrite !filter_remove_id by exact HLc.
    rewrite filter_app in Hold. cbn [filter] in Hold. rewrite HLsm in Hold.
    rewrite map_app in Hold. cbn [map] in Hold. rewrite Hsm in Hold.
    subst s1.
    assert (Eb : filter inR b = []).
    { clear - Hb. induction b as [|z b IH]; [reflexivity|]. cbn.
      rewrite (Hb z (or_introl eq_refl)). apply IH. intros u Hu. apply Hb. right; exact Hu. }
    rewrite filter_app in Hold |- *. cbn [filter] in Hold |- *. rewrite Hv, Eb in Hold |- *.
    rewrite <- app_assoc in Hold |- *. cbn [app] in Hold |- *.
    rewrite !map_app in Hold. cbn [map] in Hold.
    apply app_cons_unique in Hold as [E1 E2].
    + rewrite !map_app. cbn [map]. rewrite Hc.
      rewrite (Hl2r' sm) by (try (apply in_or_app; right; left; reflexivity); exact Hsmc). rewrite Hsm.
      rewrite !Hmap.
      * rewrite E1, E2. reflexivity.
      * intros u Hu. apply filter_In in Hu as [Hu _]. apply in_or_app. right; right; exact Hu.
      * intros u Hu. eapply filter_In_ne; eauto.
      * intros u Hu. apply filter_In in Hu as [Hu _]. apply in_or_app. left; exact Hu.
      * intros u Hu. eapply filter_In_ne; eauto.
    + intros Hin. apply in_map_iff in Hin as (u & Eu & Hu). apply filter_In in Hu as [Hu _].
      assert (u = sm).
      { apply (Hinj u sm v); try assumption.
        - apply in_or_app; left; exact Hu.
        - apply in_or_app; right; left; reflexivity. }
      subst u. apply NoDup_remove_2 in Hnk. apply Hnk. apply in_or_app. left; exact Hu.
    + intros Hin. apply In_map_Some in Hin. apply filter_In in Hin as [Hin _].
      rewrite <- app_assoc in Hns. cbn [app] in Hns.
      apply NoDup_remove_2 in Hns. apply Hns. apply in_or_app. left; exact Hin.
Qed.

(* ------------------------------------------------------------------ *)
(** * The invariant                                                     *)
(* ------------------------------------------------------------------ *)
Section Inv.
Variable R : forest.
Variables rootL rootR : id.
Hypothesis HwfR : wf_forest R rootR.
(* the nodes of the original left document *)
Variable Orig : id -> Prop.

Record Inv (Pp Pa Pm : list id) (s : st) : Prop := {
  I_wf : wf_forest (W s) rootL;
  I_bij : forall l r, l2r s l = Some r <-> r2l s r = Some l;
  I_root : r2l s rootR = Some rootL;
  I_aliveL : forall l r, l2r s l = Some r -> desc (W s) rootL l;
  I_aliveR : forall l r, l2r s l = Some r -> desc R rootR r;
  I_cmt : forall l r, l2r s l = Some r ->
            is_comment (ltag (flab (W s) l)) = is_comment (ltag (flab R r));
  I_Pp : forall x, In x Pp -> desc R rootR x;
  I_Pa : incl Pa Pp;
  I_Pm : incl Pm Pp;
  I_vis : forall x, In x Pp -> exists w, r2l s x = Some w;
  I_par : forall x xp w, In x Pp -> xp < fnext R -> In x (fkids R xp) -> r2l s x = Some w ->
            exists wp, r2l s xp = Some wp /\ In w (fkids (W s) wp);
  I_o1R : forall v, inoR s v = true -> exists w xp wp,
            r2l s v = Some w /\ inoL s w = true /\ In xp Pm /\ In v (fkids R xp) /\
            r2l s xp = Some wp /\ In w (fkids (W s) wp);
  I_o1L : forall u, inoL s u = true -> exists v, l2r s u = Some v /\ inoR s v = true;
  I_o2 : forall w x, r2l s x = Some w ->
            map (l2r s) (filter (inoL s) (fkids (W s) w)) = map Some (filter (inoR s) (fkids R x));
  I_o3 : forall x w c y, In x Pa -> r2l s x = Some w -> In c (fkids (W s) w) ->
            l2r s c = Some y -> In y (fkids R x) -> inoL s c = true;
  I_orig : forall n, desc (W s) rootL n -> Orig n \/ l2r s n <> None
}.

Lemma R_lt x : desc R rootR x -> x < fnext R.
Proof. intros H. eapply desc_lt; [exact HwfR|apply (wf_root_lt _ _ HwfR)|exact H]. Qed.

Section Facts.
Variables (Pp Pa Pm : list id) (s : st).
Hypothesis HI : Inv Pp Pa Pm s.

Lemma W_lt n : desc (W s) rootL n -> n < fnext (W s).
Proof.
  intros H. eapply desc_lt; [apply (I_wf _ _ _ _ HI)|apply (wf_root_lt _ _ (I_wf _ _ _ _ HI))|exact H].
Qed.

Lemma Inv_lt_l l r : l2r s l = Some r -> l < fnext (W s).
Proof. intros H. apply W_lt. eapply I_aliveL; eauto. Qed.

Lemma Inv_lt_r l r : l2r s l = Some r -> r < fnext R.
Proof. intros H. apply R_lt. eapply I_aliveR; eauto. Qed.

Lemma Inv_r2l_lt x w : r2l s x = Some w -> w < fnext (W s) /\ x < fnext R.
Proof.
  intros H. apply (I_bij _ _ _ _ HI) in H. split; [eapply Inv_lt_l|eapply Inv_lt_r]; eauto.
Qed.

Lemma Inv_inj_l l l' r : l2r s l = Some r -> l2r s l' = Some r -> l = l'.
Proof.
  intros H1 H2. apply (I_bij _ _ _ _ HI) in H1, H2. congruence.
Qed.

Lemma Inv_inj_r x x' w : r2l s x = Some w -> r2l s x' = Some w -> x = x'.
Proof.
  intros H1 H2. apply (I_bij _ _ _ _ HI) in H1, H2. congruence.
Qed.

Lemma Inv_fresh_unmatched : l2r s (fnext (W s)) = None.
Proof.
  destruct (l2r s (fnext (W s))) as [r|] eqn:E; [|reflexivity].
  apply Inv_lt_l in E. lia.
Qed.

(* an in-order right node which is a child of x has its partner among the
   children of the partner of x *)
Lemma o1R_under x w v :
  x < fnext R -> In v (fkids R x) -> r2l s x = Some w -> inoR s v = true ->
  exists sm, r2l s v = Some sm /\ inoL s sm = true /\ In sm (fkids (W s) w).
Proof.
  intros Hx Hv Hw Hm.
  destruct (I_o1R _ _ _ _ HI v Hm) as (sm & xp & wp & H1 & H2 & H3 & H4 & H5 & H6).
  assert (xp = x).
  { apply (wf_uparent R rootR HwfR xp x v); try assumption. apply R_lt.
    apply (I_Pp _ _ _ _ HI). apply (I_Pm _ _ _ _ HI). exact H3. }
  subst xp. exists sm. rewrite Hw in H5. inversion H5; subst. auto.
Qed.

Lemma find_pos_spec x y w s1 s2 :
  x < fnext R -> fkids R x = s1 ++ y :: s2 -> r2l s x = Some w ->
  exists pos, find_pos R s y = Some pos /\
    (((forall v, In v s1 -> inoR s v = false) /\ pos = 0) \/
     (exists v a b sm k1 k2, s1 = a ++ v :: b /\ inoR s v = true /\
        (forall u, In u b -> inoR s u = false) /\
        l2r s sm = Some v /\ inoL s sm = true /\ fkids (W s) w = k1 ++ sm :: k2 /\
        pos = length (rm (r2l s y) k1) + 1)).
Proof.
  intros Hx Ek Hw.
  pose proof (wf_kids_nodup R rootR HwfR x Hx) as Hnd. rewrite Ek in Hnd.
  assert (Hy1 : ~ In y s1).
  { apply NoDup_remove_2 in Hnd. intros H; apply Hnd; apply in_or_app; left; exact H. }
  assert (Hpar : parentof R y = Some x).
  { eapply parentof_of_In; [exact HwfR|exact Hx|]. rewrite Ek. apply in_or_app. right; left; reflexivity. }
  unfold find_pos. rewrite Hpar. unfold kidsof. rewrite Ek. rewrite index_of_app by exact Hy1.
  rewrite firstn_app_exact.
  destruct (last_inorder_spec (inoR s) s1) as [[E Hnone]|(v & a & b & E & Es1 & Hv & Hb)]; rewrite E.
  - exists 0. split; [reflexivity|]. left. auto.
  - assert (Hvk : In v (fkids R x)).
    { rewrite Ek, Es1. apply in_or_app. left. apply in_or_app. right; left; reflexivity. }
    destruct (o1R_under x w v Hx Hvk Hw Hv) as (sm & Hsm & HLsm & Hin).
    rewrite Hsm.
    destruct (Inv_r2l_lt _ _ Hw) as [Hwlt _].
    rewrite (parentof_of_In _ rootL sm w (I_wf _ _ _ _ HI) Hwlt Hin).
    apply in_split in Hin as (k1 & k2 & Ekw).
    pose proof (wf_kids_nodup _ _ (I_wf _ _ _ _ HI) w Hwlt) as Hndw. unfold kidsof. rewrite Ekw in Hndw |- *.
    rewrite count_to_spec.
    + eexists. split; [reflexivity|]. right. exists v, a, b, sm, k1, k2.
      repeat split; auto. apply (I_bij _ _ _ _ HI). exact Hsm.
    + apply NoDup_remove_2 in Hndw. intros H; apply Hndw; apply in_or_app; left; exact H.
    + intros Hc. assert (y = v) by (eapply Inv_inj_r; eauto). subst v.
      apply Hy1. rewrite Es1. apply in_or_app. right; left; reflexivity.
Qed.

End Facts.
Lemma filter_all_false {A} (f : A -> bool) l : (forall x, In x l -> f x = false) -> filter f l = [].
Proof.
  induction l as [|z l IH]; intros H; [reflexivity|]. cbn.
  rewrite (H z (or_introl eq_refl)). apply IH. intros x Hx. apply H. right; exact Hx.
Qed.

(* the generic placement step: c (the partner of y, or a fresh node becoming
   its partner) is put under w = r2l x at the position found by find_pos, and
   the pair (c, y) is marked in order *)
Lemma Inv_place Pp Pa Pm s s' x y w c pos s1 s2 :
  Inv Pp Pa Pm s ->
  ~ In y Pp -> desc R rootR y -> In x Pm -> fkids R x = s1 ++ y :: s2 -> r2l s x = Some w ->
  inoL s c = false -> inoR s y = false ->
  pos_ok (inoL s) (inoR s) (l2r s) (fkids (W s) w) s1 c pos ->
  (l2r s c = Some y \/ (c = fnext (W s) /\ r2l s y = None /\ fkids (W s') c = [])) ->
  l2r s' c = Some y -> r2l s' y = Some c ->
  (forall l, l <> c -> l2r s' l = l2r s l) -> (forall r, r <> y -> r2l s' r = r2l s r) ->
  inoL s' = upd (inoL s) c true -> inoR s' = upd (inoR s) y true ->
  wf_forest (W s') rootL ->
  (forall p, p < fnext (W s) -> p <> w -> fkids (W s') p = remove_id c (fkids (W s) p)) ->
  fkids (W s') w = ins_at pos c (remove_id c (fkids (W s) w)) ->
  (forall n, desc (W s) rootL n -> desc (W s') rootL n) -> desc (W s') rootL c ->
  (forall m, m <> c -> flab (W s') m = flab (W s) m) ->
  is_comment (ltag (flab (W s') c)) = is_comment (ltag (flab R y)) ->
  (forall n, desc (W s') rootL n -> n = c \/ desc (W s) rootL n) ->
  Inv Pp Pa Pm s'.
Proof.
  intros HI HyP Hy HxM Ek Hw HLc HRy Hpos Hcase Hlc Hry Hl' Hr' HmL HmR Hwf' K2 K3 K6 K6c K7 K7c K8.
  assert (HxP : In x Pp) by (apply (I_Pm _ _ _ _ HI); exact HxM).
  assert (Hxlt : x < fnext R) by (apply R_lt; eapply I_Pp; eauto).
  destruct (Inv_r2l_lt _ _ _ _ HI _ _ Hw) as [Hwlt _].
  assert (Hyx : In y (fkids R x)) by (rewrite Ek; apply in_or_app; right; left; reflexivity).
  assert (Hylt : y < fnext R) by (apply R_lt; exact Hy).
  assert (Hxy : x <> y) by (intros ->; contradiction).
  (* the maps only grow, by the pair (c, y) *)
  assert (A : forall l r, l2r s l = Some r -> l2r s' l = Some r).
  { intros l r H. destruct (Nat.eq_dec l c) as [->|Hne]; [|rewrite Hl'; assumption].
    destruct Hcase as [Hm|(-> & _ & _)]; [congruence|].
    rewrite (Inv_fresh_unmatched _ _ _ _ HI) in H. discriminate. }
  assert (B : forall r l, r2l s r = Some l -> r2l s' r = Some l).
  { intros r l H. destruct (Nat.eq_dec r y) as [->|Hne]; [|rewrite Hr'; assumption].
    destruct Hcase as [Hm|(_ & Hn & _)]; [|congruence].
    apply (I_bij _ _ _ _ HI) in Hm. congruence. }
  assert (C : forall l r, l2r s' l = Some r -> (l = c /\ r = y) \/ (l <> c /\ l2r s l = Some r)).
  { intros l r H. destruct (Nat.eq_dec l c) as [->|Hne]; [left; split; congruence|].
    right. split; [exact Hne|]. rewrite <- Hl'; assumption. }
  assert (D : forall r l, r2l s' r = Some l -> (r = y /\ l = c) \/ (r <> y /\ r2l s r = Some l)).
  { intros r l H. destruct (Nat.eq_dec r y) as [->|Hne]; [left; split; congruence|].
    right. split; [exact Hne|]. rewrite <- Hr'; assumption. }
  assert (E : forall r l, r2l s r = Some l -> r <> y -> l <> c).
  { intros r l H Hne ->. apply (I_bij _ _ _ _ HI) in H. destruct Hcase as [Hm|(-> & _ & _)]; [congruence|].
    rewrite (Inv_fresh_unmatched _ _ _ _ HI) in H. discriminate. }
  assert (F : forall p u, p < fnext (W s) -> u <> c -> (In u (fkids (W s') p) <-> In u (fkids (W s) p))).
  { intros p u Hp Hu. destruct (Nat.eq_dec p w) as [->|Hne].
    - rewrite K3, ins_at_In, remove_id_In. tauto.
    - rewrite K2 by assumption. rewrite remove_id_In. tauto. }
  assert (G : In c (fkids (W s') w)) by (rewrite K3; apply ins_at_In; left; reflexivity).
  assert (HkeepL : forall ks, map (l2r s') (filter (upd (inoL s) c true) (remove_id c ks))
                              = map (l2r s) (filter (inoL s) ks)).
  { intros ks. rewrite filter_upd_notin by apply remove_id_self_notin.
    rewrite filter_remove_id by exact HLc. apply map_ext_in. intros u Hu.
    apply Hl'. eapply filter_In_ne; eauto. }
  assert (Hyy : ~ In y (fkids R y)).
  { intros H. apply Hxy. apply (wf_uparent R rootR HwfR x y y); assumption. }
  constructor.
  - exact Hwf'.
  - intros l r. split; intros H.
    + apply C in H as [[-> ->]|[Hne H]]; [exact Hry|]. apply B. apply (I_bij _ _ _ _ HI). exact H.
    + apply D in H as [[-> ->]|[Hne H]]; [exact Hlc|]. apply A. apply (I_bij _ _ _ _ HI). exact H.
  - apply B. apply (I_root _ _ _ _ HI).
  - intros l r H. apply C in H as [[-> ->]|[Hne H]]; [exact K6c|]. apply K6. eapply I_aliveL; eauto.
  - intros l r H. apply C in H as [[-> ->]|[Hne H]]; [exact Hy|]. eapply I_aliveR; eauto.
  - intros l r H. apply C in H as [[-> ->]|[Hne H]]; [exact K7c|]. rewrite K7 by exact Hne.
    eapply I_cmt; eauto.
  - apply (I_Pp _ _ _ _ HI).
  - apply (I_Pa _ _ _ _ HI).
  - apply (I_Pm _ _ _ _ HI).
  - intros x' Hx'. destruct (I_vis _ _ _ _ HI x' Hx') as [w' Hw']. exists w'. apply B. exact Hw'.
  - intros x' xp w' Hx' Hxp Hin H. apply D in H as [[-> _]|[Hne H]]; [contradiction|].
    destruct (I_par _ _ _ _ HI x' xp w' Hx' Hxp Hin H) as (wp & Hwp & Hin').
    exists wp. split; [apply B; exact Hwp|]. apply F; [|eapply E; eauto|exact Hin'].
    apply (Inv_r2l_lt _ _ _ _ HI _ _ Hwp).
  - intros v Hv. rewrite HmR in Hv. destruct (Nat.eq_dec v y) as [->|Hne].
    + exists c, x, w. rewrite HmL, upd_same. repeat split; auto.
    + rewrite upd_other in Hv by exact Hne.
      destruct (I_o1R _ _ _ _ HI v Hv) as (wv & xp & wp & H1 & H2 & H3 & H4 & H5 & H6).
      exists wv, xp, wp. rewrite HmL. repeat split; auto.
      * unfold upd. destruct (Nat.eqb wv c); [reflexivity|exact H2].
      * apply F; [apply (Inv_r2l_lt _ _ _ _ HI _ _ H5)|intros ->; congruence|exact H6].
  - intros u Hu. rewrite HmL in Hu. rewrite HmR. destruct (Nat.eq_dec u c) as [->|Hne].
    + exists y. rewrite upd_same. auto.
    + rewrite upd_other in Hu by exact Hne. destruct (I_o1L _ _ _ _ HI u Hu) as (v & H1 & H2).
      exists v. split; [apply A; exact H1|]. unfold upd. destruct (Nat.eqb v y); [reflexivity|exact H2].
  - intros w' x' H. rewrite HmL, HmR. apply D in H as [[-> ->]|[Hne H]].
    + rewrite (filter_upd_notin (inoR s) y (fkids R y) Hyy).
      destruct Hcase as [Hm|(_ & _ & Hnil)].
      * assert (Hcw : c <> w).
        { intros ->. apply Hxy. eapply (Inv_inj_r _ _ _ _ HI); eauto. apply (I_bij _ _ _ _ HI). exact Hm. }
        rewrite K2; [|eapply Inv_lt_l; eauto|exact Hcw].
        rewrite HkeepL. apply (I_o2 _ _ _ _ HI). apply (I_bij _ _ _ _ HI). exact Hm.
      * rewrite Hnil. cbn. symmetry. rewrite filter_all_false; [reflexivity|]. intros z Hz.
        destruct (inoR s z) eqn:Ez; [|reflexivity]. exfalso.
        destruct (I_o1R _ _ _ _ HI z Ez) as (wv & xp & wp & H1 & H2 & H3 & H4 & H5 & H6).
        assert (xp = y).
        { apply (wf_uparent R rootR HwfR xp y z); try assumption. apply R_lt.
          apply (I_Pp _ _ _ _ HI). apply (I_Pm _ _ _ _ HI). exact H3. }
        subst xp. apply HyP. apply (I_Pm _ _ _ _ HI). exact H3.
    + destruct (Inv_r2l_lt _ _ _ _ HI _ _ H) as [Hw'lt Hx'lt].
      destruct (Nat.eq_dec w' w) as [->|Hnw].
      * assert (x' = x) by (eapply (Inv_inj_r _ _ _ _ HI); eauto). subst x'.
        rewrite K3, Ek.
        refine (proj2 (place_order (l2r s) (l2r s') (inoL s) (inoR s) (fkids (W s) w) s1 s2 c y pos
                         _ _ _ HRy HLc _ Hlc _ Hpos)).
        -- rewrite <- Ek. apply (I_o2 _ _ _ _ HI). exact H.
        -- apply (wf_kids_nodup _ _ (I_wf _ _ _ _ HI)). exact Hwlt.
        -- rewrite <- Ek. apply (wf_kids_nodup _ _ HwfR). exact Hxlt.
        -- intros u _ Hu. apply Hl'. exact Hu.
        -- intros u u' r _ _. apply (Inv_inj_l _ _ _ _ HI).
      * rewrite K2 by assumption. rewrite HkeepL.
        rewrite filter_upd_notin; [apply (I_o2 _ _ _ _ HI); exact H|].
        intros Hin. apply Hnw.
        assert (x' = x) by (apply (wf_uparent R rootR HwfR x' x y); assumption). subst x'. congruence.
  - intros x' w' c' y' Hx' H Hc' Hl Hy'. rewrite HmL. destruct (Nat.eq_dec c' c) as [->|Hne]; [apply upd_same|].
    rewrite upd_other by exact Hne.
    assert (Hx'y : x' <> y) by (intros ->; apply HyP; apply (I_Pa _ _ _ _ HI); exact Hx').
    apply D in H as [[? _]|[_ H]]; [contradiction|].
    apply C in Hl as [[? _]|[_ Hl]]; [contradiction|].
    eapply (I_o3 _ _ _ _ HI); eauto. apply F in Hc'; [exact Hc'| |exact Hne].
    apply (Inv_r2l_lt _ _ _ _ HI _ _ H).
  - intros n Hn. destruct (K8 n Hn) as [->|Hd]; [right; congruence|].
    destruct (I_orig _ _ _ _ HI n Hd) as [Ho|Hm]; [left; exact Ho|right].
    destruct (l2r s n) as [r|] eqn:En; [|congruence]. rewrite (A n r En). discriminate.
Qed.

(* label-only changes *)
Lemma Inv_shape Pp Pa Pm s s' :
  Inv Pp Pa Pm s -> l2r s' = l2r s -> r2l s' = r2l s -> inoL s' = inoL s -> inoR s' = inoR s ->
  fkids (W s') = fkids (W s) -> wf_forest (W s') rootL ->
  (forall l r, l2r s l = Some r ->
     is_comment (ltag (flab (W s') l)) = is_comment (ltag (flab (W s) l))) ->
  Inv Pp Pa Pm s'.
Proof.
  intros HI E1 E2 E3 E4 Ek Hwf Hc.
  constructor; rewrite ?E1, ?E2, ?E3, ?E4, ?Ek.
  - exact Hwf.
  - apply (I_bij _ _ _ _ HI).
  - apply (I_root _ _ _ _ HI).
  - intros l r H. eapply desc_ext; [|eapply I_aliveL; eauto]. intros p. rewrite Ek. reflexivity.
  - apply (I_aliveR _ _ _ _ HI).
  - intros l r H. rewrite (Hc l r H). eapply I_cmt; eauto.
  - apply (I_Pp _ _ _ _ HI).
  - apply (I_Pa _ _ _ _ HI).
  - apply (I_Pm _ _ _ _ HI).
  - apply (I_vis _ _ _ _ HI).
  - apply (I_par _ _ _ _ HI).
  - apply (I_o1R _ _ _ _ HI).
  - apply (I_o1L _ _ _ _ HI).
  - apply (I_o2 _ _ _ _ HI).
  - apply (I_o3 _ _ _ _ HI).
  - intros n Hn. apply (I_orig _ _ _ _ HI). eapply desc_ext; [|exact Hn]. intros p. rewrite Ek. reflexivity.
Qed.

(* y has been placed *)
Lemma Inv_extend Pp Pa Pm s y c :
  Inv Pp Pa Pm s -> desc R rootR y -> r2l s y = Some c ->
  (forall xp, xp < fnext R -> In y (fkids R xp) ->
     exists wp, r2l s xp = Some wp /\ In c (fkids (W s) wp)) ->
  Inv (Pp ++ [y]) Pa Pm s.
Proof.
  intros HI Hy Hc Hpar. constructor.
  - apply (I_wf _ _ _ _ HI).
  - apply (I_bij _ _ _ _ HI).
  - apply (I_root _ _ _ _ HI).
  - apply (I_aliveL _ _ _ _ HI).
  - apply (I_aliveR _ _ _ _ HI).
  - apply (I_cmt _ _ _ _ HI).
  - intros x Hx. apply in_app_or in Hx as [Hx|[<-|[]]]; [eapply I_Pp; eauto|exact Hy].
  - intros x Hx. apply in_or_app. left. apply (I_Pa _ _ _ _ HI). exact Hx.
  - intros x Hx. apply in_or_app. left. apply (I_Pm _ _ _ _ HI). exact Hx.
  - intros x Hx. apply in_app_or in Hx as [Hx|[<-|[]]]; [eapply I_vis; eauto|eauto].
  - intros x xp w Hx Hxp Hin Hw. apply in_app_or in Hx as [Hx|[<-|[]]]; [eapply I_par; eauto|].
    rewrite Hc in Hw. inversion Hw; subst. apply Hpar; assumption.
  - intros v Hv. destruct (I_o1R _ _ _ _ HI v Hv) as (w & xp & wp & H1 & H2 & H3 & H4).
    exists w, xp, wp. repeat split; tauto.
  - apply (I_o1L _ _ _ _ HI).
  - apply (I_o2 _ _ _ _ HI).
  - apply (I_o3 _ _ _ _ HI).
  - apply (I_orig _ _ _ _ HI).
Qed.

(* the children of y have been aligned *)
Lemma Inv_aligned Pp Pa Pm s y :
  Inv Pp Pa Pm s -> In y Pp ->
  (forall w c z, r2l s y = Some w -> In c (fkids (W s) w) -> l2r s c = Some z ->
                 In z (fkids R y) -> inoL s c = true) ->
  Inv Pp (Pa ++ [y]) Pm s.
Proof.
  intros HI Hy H3. constructor.
  - apply (I_wf _ _ _ _ HI).
  - apply (I_bij _ _ _ _ HI).
  - apply (I_root _ _ _ _ HI).
  - apply (I_aliveL _ _ _ _ HI).
  - apply (I_aliveR _ _ _ _ HI).
  - apply (I_cmt _ _ _ _ HI).
  - apply (I_Pp _ _ _ _ HI).
  - intros x Hx. apply in_app_or in Hx as [Hx|[<-|[]]]; [apply (I_Pa _ _ _ _ HI); exact Hx|exact Hy].
  - apply (I_Pm _ _ _ _ HI).
  - apply (I_vis _ _ _ _ HI).
  - apply (I_par _ _ _ _ HI).
  - apply (I_o1R _ _ _ _ HI).
  - apply (I_o1L _ _ _ _ HI).
  - apply (I_o2 _ _ _ _ HI).
  - intros x w c z Hx. apply in_app_or in Hx as [Hx|[<-|[]]]; [eapply I_o3; eauto|apply H3].
  - apply (I_orig _ _ _ _ HI).
Qed.

Lemma map_eq_Some_In {A B} (f : A -> option B) : forall a b, map f a = map Some b ->
  (forall x, In x a -> exists z, In z b /\ f x = Some z) /\
  (forall z, In z b -> exists x, In x a /\ f x = Some z).
Proof.
  induction a as [|x a IH]; intros [|z b] H; cbn in H; try discriminate.
  - split; intros ? [].
  - inversion H as [[H1 H2]]. destruct (IH b H2) as [I1 I2]. split.
    + intros x' [<-|Hx']; [exists z; split; [left; reflexivity|exact H1]|].
      destruct (I1 x' Hx') as (z' & Hz' & E). exists z'. split; [right; exact Hz'|exact E].
    + intros z' [<-|Hz']; [exists x; split; [left; reflexivity|exact H1]|].
      destruct (I2 z' Hz') as (x' & Hx' & E). exists x'. split; [right; exact Hx'|exact E].
Qed.

(* marking an order-preserving set of matched children of (ln, rn) *)
Lemma Inv_marks Pp Pa Pm s s' ln rn SL SR :
  Inv Pp Pa Pm s -> In rn Pm -> r2l s rn = Some ln ->
  W s' = W s -> l2r s' = l2r s -> r2l s' = r2l s ->
  (forall u, inoL s' u = inoL s u || mem u SL) -> (forall v, inoR s' v = inoR s v || mem v SR) ->
  map (l2r s) SL = map Some SR ->
  filter (fun u => mem u SL) (fkids (W s) ln) = SL ->
  filter (fun v => mem v SR) (fkids R rn) = SR ->
  (forall v, In v (fkids R rn) -> inoR s v = false) ->
  Inv Pp Pa Pm s'.
Proof.
  intros HI Hrn Hln EW El Er HmL HmR Hmap HfL HfR Hnone.
  destruct (Inv_r2l_lt _ _ _ _ HI _ _ Hln) as [Hlnlt Hrnlt].
  destruct (map_eq_Some_In _ _ _ Hmap) as [MapL MapR].
  assert (HSL : forall u, In u SL -> In u (fkids (W s) ln)).
  { intros u Hu. rewrite <- HfL in Hu. apply filter_In in Hu. tauto. }
  assert (HSR : forall v, In v SR -> In v (fkids R rn)).
  { intros v Hv. rewrite <- HfR in Hv. apply filter_In in Hv. tauto. }
  assert (HnoneL : forall u, In u (fkids (W s) ln) -> inoL s u = false).
  { intros u Hu. destruct (inoL s u) eqn:E; [|reflexivity]. exfalso.
    destruct (I_o1L _ _ _ _ HI u E) as (v & Hv & Ev).
    destruct (I_o1R _ _ _ _ HI v Ev) as (wv & xp & wp & H1 & H2 & H3 & H4 & H5 & H6).
    apply (I_bij _ _ _ _ HI) in Hv. rewrite Hv in H1. inversion H1; subst wv.
    assert (wp = ln).
    { apply (wf_uparent _ _ (I_wf _ _ _ _ HI) wp ln u); try assumption.
      apply (Inv_r2l_lt _ _ _ _ HI _ _ H5). }
    subst wp. assert (xp = rn) by (eapply (Inv_inj_r _ _ _ _ HI); eauto). subst xp.
    rewrite (Hnone v H4) in Ev. discriminate. }
  constructor; rewrite ?EW, ?El, ?Er.
  - apply (I_wf _ _ _ _ HI).
  - apply (I_bij _ _ _ _ HI).
  - apply (I_root _ _ _ _ HI).
  - apply (I_aliveL _ _ _ _ HI).
  - apply (I_aliveR _ _ _ _ HI).
  - apply (I_cmt _ _ _ _ HI).
  - apply (I_Pp _ _ _ _ HI).
  - apply (I_Pa _ _ _ _ HI).
  - apply (I_Pm _ _ _ _ HI).
  - apply (I_vis _ _ _ _ HI).
  - apply (I_par _ _ _ _ HI).
  - intros v Hv. rewrite HmR in Hv. apply orb_true_iff in Hv as [Hv|Hv].
    + destruct (I_o1R _ _ _ _ HI v Hv) as (wv & xp & wp & H1 & H2 & H3).
      exists wv, xp, wp. rewrite HmL, H2. tauto.
    + apply mem_In in Hv. destruct (MapR v Hv) as (u & Hu & E).
      exists u, rn, ln. rewrite HmL. repeat split; auto.
      * apply (I_bij _ _ _ _ HI). exact E.
      * apply orb_true_iff. right. apply mem_In. exact Hu.
  - intros u Hu. rewrite HmL in Hu. apply orb_true_iff in Hu as [Hu|Hu].
    + destruct (I_o1L _ _ _ _ HI u Hu) as (v & H1 & H2). exists v. rewrite HmR, H2. auto.
    + apply mem_In in Hu. destruct (MapL u Hu) as (v & Hv & E). exists v. split; [exact E|].
      rewrite HmR. apply orb_true_iff. right. apply mem_In. exact Hv.
  - intros w x Hw.
    rewrite (filter_ext _ _ HmL), (filter_ext _ _ HmR).
    destruct (Nat.eq_dec x rn) as [->|Hne].
    + rewrite Hln in Hw. inversion Hw; subst w.
      rewrite (filter_ext_in' _ (fun u => mem u SL)).
      2:{ intros u Hu. rewrite (HnoneL u Hu). reflexivity. }
      rewrite (filter_ext_in' (fun v => inoR s v || mem v SR) (fun v => mem v SR)).
      2:{ intros v Hv. rewrite (Hnone v Hv). reflexivity. }
      rewrite HfL, HfR. exact Hmap.
    + destruct (Inv_r2l_lt _ _ _ _ HI _ _ Hw) as [Hwlt Hxlt].
      rewrite (filter_ext_in' _ (inoL s)).
      2:{ intros u Hu. replace (mem u SL) with false; [apply orb_false_r|]. symmetry. apply mem_false.
          intros Hin. apply Hne. apply HSL in Hin.
          assert (w = ln) by (apply (wf_uparent _ _ (I_wf _ _ _ _ HI) w ln u); assumption).
          subst w. eapply (Inv_inj_r _ _ _ _ HI); eauto. }
      rewrite (filter_ext_in' (fun v => inoR s v || mem v SR) (inoR s)).
      2:{ intros v Hv. replace (mem v SR) with false; [apply orb_false_r|]. symmetry. apply mem_false.
          intros Hin. apply Hne. apply HSR in Hin.
          apply (wf_uparent R rootR HwfR x rn v); assumption. }
      apply (I_o2 _ _ _ _ HI). exact Hw.
  - intros x w c y Hx Hw Hc Hl Hy. rewrite HmL. rewrite (I_o3 _ _ _ _ HI x w c y); auto.
  - apply (I_orig _ _ _ _ HI).
Qed.

(* the ancestors of the partner of a placed node are partners of its ancestors *)
Definition P_closed (Pp : list id) : Prop :=
  forall x, In x Pp -> x = rootR \/ exists xp, In xp Pp /\ In x (fkids R xp).

Lemma anc_matched Pp Pa Pm s a : Inv Pp Pa Pm s -> P_closed Pp -> a < fnext (W s) ->
  forall n, desc (W s) a n -> forall x, In x Pp -> r2l s x = Some n ->
  exists x', r2l s x' = Some a /\ desc R x' x.
Proof.
  intros HI Hcl Ha n Hd. induction Hd as [|b c Hd IH Hin]; intros x Hx Hw.
  - exists x. split; [exact Hw|constructor].
  - assert (Hb : b < fnext (W s)) by (eapply desc_lt; [apply (I_wf _ _ _ _ HI)|exact Ha|exact Hd]).
    destruct (Hcl x Hx) as [->|(xp & Hxp & Hin')].
    + rewrite (I_root _ _ _ _ HI) in Hw. inversion Hw; subst c.
      exfalso. eapply (wf_root_top _ _ (I_wf _ _ _ _ HI)); eauto.
    + assert (Hxplt : xp < fnext R) by (apply R_lt; eapply I_Pp; eauto).
      destruct (I_par _ _ _ _ HI x xp c Hx Hxplt Hin' Hw) as (wp & Hwp & Hcwp).
      assert (wp = b).
      { apply (wf_uparent _ _ (I_wf _ _ _ _ HI) wp b c); try assumption.
        apply (Inv_r2l_lt _ _ _ _ HI _ _ Hwp). }
      subst wp. destruct (IH xp Hxp Hwp) as (x' & H1 & H2).
      exists x'. split; [exact H1|]. eapply desc_step; eauto.
Qed.

Lemma move_target_ok Pp Pa Pm s x y w c :
  Inv Pp Pa Pm s -> P_closed Pp -> In x Pp -> In y (fkids R x) ->
  r2l s x = Some w -> r2l s y = Some c -> ~ desc (W s) c w.
Proof.
  intros HI Hcl Hx Hyx Hw Hc Hd.
  destruct (Inv_r2l_lt _ _ _ _ HI _ _ Hc) as [Hclt _].
  destruct (anc_matched Pp Pa Pm s c HI Hcl Hclt w Hd x Hx Hw) as (x' & H1 & H2).
  assert (x' = y) by (eapply (Inv_inj_r _ _ _ _ HI); eauto). subst x'.
  eapply (no_cycle R rootR x y HwfR); eauto. eapply I_Pp; eauto.
Qed.

Lemma target_elem Pp Pa Pm s x y w :
  Inv Pp Pa Pm s -> r2l s x = Some w -> In y (fkids R x) -> is_comment (ltag (flab (W s) w)) = false.
Proof.
  intros HI Hw Hy. apply (I_bij _ _ _ _ HI) in Hw. rewrite (I_cmt _ _ _ _ HI _ _ Hw).
  destruct (is_comment (ltag (flab R x))) eqn:E; [|reflexivity].
  destruct (wf_comment R rootR HwfR x (Inv_lt_r _ _ _ _ HI _ _ Hw) E) as [Hk _].
  rewrite Hk in Hy. contradiction.
Qed.

Lemma pos_ok_of_find Pp Pa Pm s x y w s1 s2 c :
  Inv Pp Pa Pm s -> x < fnext R -> fkids R x = s1 ++ y :: s2 -> r2l s x = Some w ->
  (r2l s y = Some c \/ (r2l s y = None /\ c = fnext (W s))) ->
  exists pos, find_pos R s y = Some pos /\
              pos_ok (inoL s) (inoR s) (l2r s) (fkids (W s) w) s1 c pos.
Proof.
  intros HI Hx Ek Hw Hc.
  destruct (find_pos_spec _ _ _ _ HI x y w s1 s2 Hx Ek Hw) as (pos & Hf & Hp).
  exists pos. split; [exact Hf|].
  destruct Hp as [Hp|(v & a & b & sm & k1 & k2 & H1 & H2 & H3 & H4 & H5 & H6 & H7)]; [left; exact Hp|].
  right. exists v, a, b, sm, k1, k2. repeat split; auto. rewrite H7. f_equal. f_equal.
  destruct Hc as [->|[-> ->]]; [reflexivity|]. cbn [rm]. symmetry. apply remove_id_notin.
  intros Hin. destruct (Inv_r2l_lt _ _ _ _ HI _ _ Hw) as [Hwlt _].
  assert (fnext (W s) < fnext (W s)); [|lia].
  apply (wf_kids_lt _ _ (I_wf _ _ _ _ HI) w _ Hwlt). rewrite H6. apply in_or_app. left; exact Hin.
Qed.

Lemma spec_apply_ins f t pos y :
  alive f rootL t = true -> is_elem f t = true -> pos <= length (fkids f t) ->
  spec_apply rootL f (fst (new_act R t pos (fnext f) y))
  = Some (ins_f f (snd (new_act R t pos (fnext f) y)) t pos).
Proof.
  intros Ha He Hp. apply Nat.leb_le in Hp. unfold new_act.
  destruct (ltag (labof R y)); cbn [fst snd spec_apply]; unfold kidsof;
    rewrite Ha, He, Hp, Nat.eqb_refl; reflexivity.
Qed.

Lemma new_act_label t pos n y :
  let l := snd (new_act R t pos n y) in
  ltag l = ltag (flab R y) /\ lattrs l = [] /\ ltail l = None /\
  (is_comment (ltag l) = false -> ltag l = ltag (flab R y) /\ ltext l = None) /\
  (is_comment (ltag l) = true -> ltext l = ltext (flab R y)).
Proof.
  unfold new_act, labof. destruct (ltag (flab R y)) eqn:E; cbn; repeat split; auto; discriminate.
Qed.

Lemma new_act_not_ns t pos n y : is_ns_action (fst (new_act R t pos n y)) = false.
Proof. unfold new_act. destruct (ltag (labof R y)); reflexivity. Qed.

Lemma Inv_do_ins Pp Pa Pm s x y w s1 s2 pos :
  Inv Pp Pa Pm s -> ~ In y Pp -> desc R rootR y -> In x Pm -> fkids R x = s1 ++ y :: s2 ->
  r2l s x = Some w -> r2l s y = None ->
  pos_ok (inoL s) (inoR s) (l2r s) (fkids (W s) w) s1 (fnext (W s)) pos ->
  let s' := do_ins R s w pos y in
  Inv (Pp ++ [y]) Pa Pm s' /\ Step true rootL s s' /\ r2l s' y = Some (fnext (W s)).
Proof.
  intros HI HyP Hy HxM Ek Hw Hyn Hpos s'.
  assert (HxP : In x Pp) by (apply (I_Pm _ _ _ _ HI); exact HxM).
  set (n := fnext (W s)) in *.
  set (lab := snd (new_act R w pos n y)).
  assert (Hxlt : x < fnext R) by (apply R_lt; eapply I_Pp; eauto).
  destruct (Inv_r2l_lt _ _ _ _ HI _ _ Hw) as [Hwlt _].
  assert (Hyx : In y (fkids R x)) by (rewrite Ek; apply in_or_app; right; left; reflexivity).
  pose proof (I_wf _ _ _ _ HI) as Hwf.
  assert (Hwalive : desc (W s) rootL w) by (eapply I_aliveL; [exact HI|apply (I_bij _ _ _ _ HI); exact Hw]).
  assert (Hwe : is_comment (ltag (flab (W s) w)) = false) by (eapply target_elem; eauto).
  destruct (new_act_label w pos n y) as (L1 & L2 & L3 & L4 & L5). fold lab in L1, L2, L3, L4, L5.
  assert (HLc : inoL s n = false).
  { destruct (inoL s n) eqn:E; [|reflexivity]. destruct (I_o1L _ _ _ _ HI n E) as (v & Hv & _).
    unfold n in Hv. rewrite (Inv_fresh_unmatched _ _ _ _ HI) in Hv. discriminate. }
  assert (HRy : inoR s y = false).
  { destruct (inoR s y) eqn:E; [|reflexivity]. destruct (I_o1R _ _ _ _ HI y E) as (wv & ? & ? & Hv & _).
    congruence. }
  assert (Hnotin : forall p, p < n -> ~ In n (fkids (W s) p)).
  { intros p Hp Hin. assert (n < n); [|lia]. apply (wf_kids_lt _ _ Hwf p n Hp Hin). }
  assert (HW' : W s' = ins_f (W s) lab w pos) by reflexivity.
  assert (Hwf' : wf_forest (W s') rootL).
  { rewrite HW'. apply wf_ins; try assumption; [intros _; exact L2|rewrite L2; constructor]. }
  assert (Hposle : pos <= length (fkids (W s) w)).
  { destruct Hpos as [[_ ->]|(v & a & b & sm & k1 & k2 & _ & _ & _ & _ & _ & E6 & ->)]; [lia|].
    rewrite E6, app_length. cbn. pose proof (remove_id_length n k1). lia. }
  assert (HInv : Inv Pp Pa Pm s').
  { apply (Inv_place Pp Pa Pm s s' x y w n pos s1 s2); try assumption.
    - right. split; [reflexivity|]. split; [exact Hyn|]. rewrite HW'. apply fkids_ins_new. exact Hwlt.
    - cbn. apply upd_same.
    - cbn. apply upd_same.
    - intros l Hl. cbn. apply upd_other. exact Hl.
    - intros r Hr. cbn. apply upd_other. exact Hr.
    - reflexivity.
    - reflexivity.
    - intros p Hp Hpw. rewrite HW'. rewrite fkids_ins_other; [|exact Hpw|unfold n in Hp; lia].
      symmetry. apply remove_id_notin. apply Hnotin. exact Hp.
    - rewrite HW'. rewrite fkids_ins_t by exact Hwlt. f_equal. symmetry. apply remove_id_notin.
      apply Hnotin. exact Hwlt.
    - intros m Hm. rewrite HW'. eapply desc_ins; eauto. apply (wf_root_lt _ _ Hwf).
    - rewrite HW'. eapply desc_ins_new; eauto. apply (wf_root_lt _ _ Hwf).
    - intros m Hm. rewrite HW', flab_ins. apply Nat.eqb_neq in Hm. fold n. rewrite Hm. reflexivity.
    - rewrite HW', flab_ins. fold n. rewrite Nat.eqb_refl. rewrite L1. reflexivity.
    - intros m Hm. rewrite HW' in Hm. apply (desc_ins_inv (W s) rootL lab w pos m Hwf Hwlt Hm). }
  split; [|split].
  - apply (Inv_extend Pp Pa Pm s' y n); [exact HInv|exact Hy|cbn; apply upd_same|].
    intros xp Hxp Hin. assert (xp = x) by (apply (wf_uparent R rootR HwfR xp x y); assumption). subst xp.
    exists w. split.
    + cbn. rewrite upd_other by (intros ->; contradiction). exact Hw.
    + rewrite HW', fkids_ins_t by exact Hwlt. apply ins_at_In. left; reflexivity.
  - apply (Step_one true rootL s s' (fst (new_act R w pos n y))); try reflexivity.
    + rewrite HW'. unfold lab, n. apply spec_apply_ins; [|unfold is_elem, labof; rewrite Hwe; reflexivity|exact Hposle].
      apply alive_iff; assumption.
    + rewrite new_act_not_ns. cbn [orb]. apply negb_true_iff.
      apply (same_doc_kids rootL (W s) (W s') w Hwf Hwalive).
      rewrite HW', fkids_ins_t by exact Hwlt. intros E. apply (f_equal (@length _)) in E.
      rewrite ins_at_length in E. lia.
  - cbn. apply upd_same.
Qed.

Lemma Inv_do_move Pp Pa Pm s x y w c s1 s2 pos :
  Inv Pp Pa Pm s -> ~ In y Pp -> In x Pm -> fkids R x = s1 ++ y :: s2 ->
  r2l s x = Some w -> r2l s y = Some c -> inoL s c = false -> ~ desc (W s) c w ->
  pos_ok (inoL s) (inoR s) (l2r s) (fkids (W s) w) s1 c pos ->
  let s' := do_move s c w pos y in
  Inv Pp Pa Pm s' /\ spec_apply rootL (W s) (IMove c w pos) = Some (W s') /\
  In c (fkids (W s') w) /\ pos <= length (remove_id c (fkids (W s) w)).
Proof.
  intros HI HyP HxM Ek Hw Hc HLc Hnd Hpos s'.
  assert (HxP : In x Pp) by (apply (I_Pm _ _ _ _ HI); exact HxM).
  assert (Hxlt : x < fnext R) by (apply R_lt; eapply I_Pp; eauto).
  destruct (Inv_r2l_lt _ _ _ _ HI _ _ Hw) as [Hwlt _].
  destruct (Inv_r2l_lt _ _ _ _ HI _ _ Hc) as [Hclt Hylt].
  assert (Hyx : In y (fkids R x)) by (rewrite Ek; apply in_or_app; right; left; reflexivity).
  pose proof (I_wf _ _ _ _ HI) as Hwf.
  assert (Hlc : l2r s c = Some y) by (apply (I_bij _ _ _ _ HI); exact Hc).
  assert (Hwalive : desc (W s) rootL w) by (eapply I_aliveL; [exact HI|apply (I_bij _ _ _ _ HI); exact Hw]).
  assert (Hcalive : desc (W s) rootL c) by (eapply I_aliveL; eauto).
  assert (Hy : desc R rootR y) by (eapply I_aliveR; eauto).
  assert (Hwe : is_comment (ltag (flab (W s) w)) = false) by (eapply target_elem; eauto).
  assert (HRy : inoR s y = false).
  { destruct (inoR s y) eqn:E; [|reflexivity]. destruct (I_o1R _ _ _ _ HI y E) as (wv & ? & ? & Hv & Hm & _).
    congruence. }
  assert (Hcroot : c <> rootL).
  { intros ->. assert (y = rootR) by (eapply (Inv_inj_r _ _ _ _ HI); [exact Hc|apply (I_root _ _ _ _ HI)]).
    subst y. apply (wf_root_top R rootR HwfR x Hxlt Hyx). }
  assert (HW' : W s' = move_f (W s) c w pos) by reflexivity.
  assert (Hwf' : wf_forest (W s') rootL) by (apply wf_move; assumption).
  assert (Hple : pos <= length (remove_id c (fkids (W s) w))).
  { destruct Hpos as [[_ ->]|(v & a & b & sm & k1 & k2 & _ & _ & _ & _ & HLsm & E6 & ->)]; [lia|].
    rewrite E6, remove_id_app, remove_id_cons_ne by (intros ->; congruence).
    rewrite app_length. cbn. lia. }
  split; [|split; [|split]].
  - apply (Inv_place Pp Pa Pm s s' x y w c pos s1 s2); try assumption; try reflexivity.
    + left. exact Hlc.
    + intros p Hp Hpw. rewrite HW'. apply (fkids_move_other _ rootL); assumption.
    + rewrite HW'. apply (fkids_move_t _ rootL); assumption.
    + intros m Hm. rewrite HW'. apply alive_move; assumption.
    + rewrite HW'. apply alive_move; assumption.
    + intros m _. rewrite HW', flab_move. reflexivity.
    + rewrite HW', flab_move. apply (I_cmt _ _ _ _ HI c y Hlc).
    + intros m Hm. right. rewrite HW' in Hm. apply (desc_move_inv (W s) rootL c w pos m Hwf Hwalive Hcalive Hm).
  - cbn [spec_apply].
    rewrite (proj2 (alive_iff _ _ c Hwf) Hcalive), (proj2 (alive_iff _ _ w Hwf) Hwalive).
    replace (Nat.eqb c rootL) with false by (symmetry; apply Nat.eqb_neq; exact Hcroot).
    unfold is_elem, labof. rewrite Hwe. rewrite subtree_not_in by exact Hnd.
    unfold kidsof. apply Nat.leb_le in Hple. rewrite Hple. reflexivity.
  - rewrite HW', (fkids_move_t _ rootL) by assumption. apply ins_at_In. left; reflexivity.
  - exact Hple.
Qed.

Lemma Inv_start_align Pp Pa Pm s y :
  Inv Pp Pa Pm s -> In y Pp -> Inv Pp Pa (Pm ++ [y]) s.
Proof.
  intros HI Hy. constructor.
  - apply (I_wf _ _ _ _ HI).
  - apply (I_bij _ _ _ _ HI).
  - apply (I_root _ _ _ _ HI).
  - apply (I_aliveL _ _ _ _ HI).
  - apply (I_aliveR _ _ _ _ HI).
  - apply (I_cmt _ _ _ _ HI).
  - apply (I_Pp _ _ _ _ HI).
  - apply (I_Pa _ _ _ _ HI).
  - intros x Hx. apply in_app_or in Hx as [Hx|[<-|[]]]; [apply (I_Pm _ _ _ _ HI); exact Hx|exact Hy].
  - apply (I_vis _ _ _ _ HI).
  - apply (I_par _ _ _ _ HI).
  - intros v Hv. destruct (I_o1R _ _ _ _ HI v Hv) as (w & xp & wp & H1 & H2 & H3 & H4).
    exists w, xp, wp. repeat split; try tauto. apply in_or_app. left; exact H3.
  - apply (I_o1L _ _ _ _ HI).
  - apply (I_o2 _ _ _ _ HI).
  - apply (I_o3 _ _ _ _ HI).
  - apply (I_orig _ _ _ _ HI).
Qed.

Lemma unmarked_before_align Pp Pa Pm s rn :
  Inv Pp Pa Pm s -> rn < fnext R -> ~ In rn Pm -> forall v, In v (fkids R rn) -> inoR s v = false.
Proof.
  intros HI Hrn Hn v Hv. destruct (inoR s v) eqn:E; [|reflexivity]. exfalso.
  destruct (I_o1R _ _ _ _ HI v E) as (w & xp & wp & H1 & H2 & H3 & H4 & _).
  assert (xp = rn).
  { apply (wf_uparent R rootR HwfR xp rn v); try assumption. apply R_lt.
    apply (I_Pp _ _ _ _ HI). apply (I_Pm _ _ _ _ HI). exact H3. }
  subst xp. contradiction.
Qed.

End Inv.
