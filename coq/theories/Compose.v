(* Compose.v -- definitions used to compose the per-component theorems
   (differ + renderer + text format + patcher; command line + formatters;
   white-space stripping + differ).  Definitions only; proofs in ComposeProofs.v.

   For C02's second sentence ("patching the left document with the TEXT produced
   by diffing left against right gives a document equal to right") the rendered
   actions must be well formed for the text format (TextFormatProofs.wf_action):
   verbatim fields (xpaths, tag and attribute names, prefixes, URIs) free of
   comma, double quote, line-break characters and surrounding white space
   (raw_ok); JSON-encoded fields (texts, attribute values) made of XML
   characters.  The conditions below state this on the two DOCUMENTS. *)
From Coq Require Import List NArith ZArith Bool Arith.
Import ListNotations.
Require Import XV.Str XV.Json XV.JsonProofs XV.TextFormat XV.TextFormatProofs
               XV.Forest XV.Matcher XV.Differ XV.Path.

(* None, or a string of XML characters (non-surrogate code points <= U+10FFFF) *)
Definition otext_xmlb (t : option str) : bool :=
  match t with Some s => forallb xml_charb s | None => true end.

(* a tag or attribute name that the text format can carry: raw_ok as a whole (no comma, quote, line break,
   surrounding white space), or a Clark name {uri}local whose namespace part is ANY string without a line break
   (commas and quotes included: DiffParser._split does not split inside the braces, repair a8953ad) and whose
   local part is printable ASCII without comma and quote *)
Definition local_charb (c : N) : bool := (33 <=? c)%N && (c <=? 126)%N && negb (c =? 44)%N && negb (c =? 34)%N.
Definition clark_nameb (s : str) : bool :=
  match unclark s with
  | (Some u, l) => forallb (fun c => negb (is_linebreak c)) u && negb (match l with [] => true | _ => false end)
                   && forallb local_charb l
  | (None, _) => false
  end.
Definition name_okb (s : str) : bool := raw_okb s || clark_nameb s.

(* a label that the text format can carry: the tag (a Clark name "{uri}local" or
   "local") and the attribute names are name_okb; values, text and tail are XML
   character strings *)
Definition lab_fmt_okb (l : label) : bool :=
  match ltag l with TElem t => name_okb t | TComment => true end
  && forallb (fun kv => name_okb (fst kv) && forallb xml_charb (snd kv)) (lattrs l)
  && otext_xmlb (ltext l) && otext_xmlb (ltail l).

(* every node slot of the forest (all ids < fnext) *)
Definition doc_fmt_okb (f : forest) : bool :=
  forallb (fun n => lab_fmt_okb (flab f n)) (seq 0 (fnext f)).

(* the namespace actions of the prologue: a prefix (not None: ", ".join raises
   TypeError on InsertNamespace(None, ..) and DeleteNamespace(None)) and raw_ok
   prefix / URI *)
Definition ns_act_fmt_okb (a : iact) : bool :=
  match a with
  | IInsNs (Some p) u => raw_okb p && raw_okb u
  | IDelNs (Some p) => raw_okb p
  | IInsNs None _ | IDelNs None => false
  | _ => true
  end.
Definition ns_fmt_okb (lns rns : nsmap) : bool :=
  match ns_prologue lns rns with
  | Some pro => forallb ns_act_fmt_okb pro
  | None => false
  end.

(* the prefixes lxml prints contain no comma, double quote or line break *)
Definition pe_raw_ok (pe : penv) : Prop := forall u p, pe u = Some p -> forallb raw_charb p = true.

(* what an action carries literally (everything but node identities and
   positions) can be written by the text format *)
Definition lit_okb (a : iact) : bool :=
  match a with
  | IInsert _ tag _ _ => name_okb tag
  | IInsertComment _ _ txt _ => otext_xmlb txt
  | IRename _ tag => name_okb tag
  | IText _ t | ITail _ t => otext_xmlb t
  | IUpdAttr _ k v | IInsAttr _ k v => name_okb k && forallb xml_charb v
  | IRenAttr _ _ k' => name_okb k'
  | IInsNs _ _ | IDelNs _ => ns_act_fmt_okb a
  | IMove _ _ _ | IDelete _ | IDelAttr _ _ => true
  end.
