(* Totality, part 2: diff_cleanupMerge always returns (no index error, the fuel
   of its two loops and of its self-recursion suffices). *)
From Coq Require Import List ZArith NArith Bool Lia.
Import ListNotations.
Require Import XV.DMP XV.DMPBase XV.DMPCommon XV.DMPMerge XV.DMPTotal.
Local Open Scope Z_scope.

(* ------------------------------------------------------------------ *)
(** * the potential: number of segments + characters in edits *)

Definition ec1 (s : seg) : Z := if is_equal (fst s) then 0 else zlen (snd s).
Fixpoint echars (d : list seg) : Z := match d with [] => 0 | s :: r => ec1 s + echars r end.
Definition phi (d : list seg) : Z := zlen d + echars d.

Lemma echars_app a b : echars (a ++ b) = echars a + echars b.
Proof. induction a as [|s a IH]; cbn [app echars]; lia. Qed.
Lemma echars_nonneg d : 0 <= echars d.
Proof.
  induction d as [|[o t] d IH]; cbn [echars]; [lia|]. unfold ec1. cbn [fst snd].
  pose proof (zlen_nonneg t). destruct (is_equal o); lia.
Qed.
Lemma phi_nonneg d : 0 <= phi d.
Proof. unfold phi. pose proof (zlen_nonneg d). pose proof (echars_nonneg d). lia. Qed.
Lemma phi_app a b : phi (a ++ b) = phi a + phi b.
Proof. unfold phi. rewrite zlen_app, echars_app. lia. Qed.
Lemma phi_cons s d : phi (s :: d) = 1 + ec1 s + phi d.
Proof. unfold phi. rewrite zlen_cons. cbn [echars]. lia. Qed.
Lemma phi_nil : phi [] = 0.
Proof. reflexivity. Qed.

Lemma ec1_eq t : ec1 (EQUAL, t) = 0. Proof. reflexivity. Qed.
Lemma ec1_edit o t : o <> EQUAL -> ec1 (o, t) = zlen t.
Proof. intros H. unfold ec1. cbn [fst snd]. destruct o; cbn; congruence. Qed.

Lemma echars_edits run : Forall (fun s : seg => fst s <> EQUAL) run ->
  forall o t, echars (run ++ [(o, t)]) = echars run + ec1 (o, t).
Proof. intros _ o t. rewrite echars_app. cbn [echars]. lia. Qed.

Lemma new_ops_len td ti : zlen (merge_new_ops td ti) <= 2.
Proof.
  unfold merge_new_ops. rewrite zlen_app.
  destruct (negb (zlen td =? 0)), (negb (zlen ti =? 0)); cbn; lia.
Qed.
Lemma new_ops_echars td ti : echars (merge_new_ops td ti) = zlen td + zlen ti.
Proof.
  unfold merge_new_ops. rewrite echars_app.
  destruct (zlen td =? 0) eqn:E1; destruct (zlen ti =? 0) eqn:E2; cbn [negb echars]; rewrite ?ec1_edit by discriminate; lia.
Qed.

(* ------------------------------------------------------------------ *)
(** * first pass *)

Lemma merge_prefix_total pre run cur post p cd ci td ti :
  p = zlen pre + zlen run -> zlen run = cd + ci -> pre_ok pre ->
  total (merge_prefix (pre ++ run ++ cur :: post) p cd ci td ti).
Proof.
  intros Hp Hrl Hpre. unfold merge_prefix.
  apply total_bind; [apply commonPrefix_total|]. intros cl _.
  destruct (negb (cl =? 0)); [|apply total_ok].
  destruct Hpre as [-> | (pre' & e & ->)].
  - change (zlen (@nil seg)) with 0 in Hp.
    destruct (p - cd - ci - 1 >=? 0) eqn:Ex; [lia|]. cbn [bind]. apply total_ok.
  - rewrite zlen_app, zlen_sing in Hp. pose proof (zlen_nonneg pre').
    destruct (p - cd - ci - 1 >=? 0) eqn:Ex; [|lia].
    rewrite <- app_assoc. cbn [app].
    rewrite !(get0 pre' (EQUAL, e)) by lia. cbn [bind is_equal].
    rewrite (set0 pre' (EQUAL, e)) by lia. cbn [bind]. apply total_ok.
Qed.

Lemma merge_suffix_total pre run o t post p td ti :
  p = zlen pre + zlen run ->
  total (merge_suffix (pre ++ run ++ (o, t) :: post) p td ti).
Proof.
  intros Hp. unfold merge_suffix.
  apply total_bind; [apply commonSuffix_total|]. intros cl _.
  destruct (negb (cl =? 0)); [|apply total_ok].
  rewrite (app_assoc pre run).
  rewrite get0 by (rewrite zlen_app; lia). cbn [bind].
  rewrite set0 by (rewrite zlen_app; lia). cbn [bind]. apply total_ok.
Qed.

Definition ends_dummy (d : list seg) : Prop := exists body, d = body ++ [(EQUAL, [])].

Lemma ends_dummy_app_inv a l : ends_dummy (a ++ l) -> l <> [] -> ends_dummy l.
Proof.
  intros (body & H) Hl. destruct l as [|x l] using rev_ind; [congruence|]. clear IHl.
  rewrite app_assoc in H. apply app_inj_tail in H as [_ ->]. now exists l.
Qed.
Lemma ends_dummy_app a l : ends_dummy l -> ends_dummy (a ++ l).
Proof. intros (body & ->). exists (a ++ body). now rewrite app_assoc. Qed.

Ltac nonnil :=
  let Hx := fresh "Hx" in
  intros Hx; apply (f_equal (@length seg)) in Hx; rewrite ?app_length in Hx; cbn [length] in Hx;
  rewrite ?app_length in Hx; cbn [length] in Hx; lia.

Section TPass1.
  Variable d0 : list seg.

  Definition sinv1 (s : mstate) : Prop :=
    let '(d, p, cd, ci, td, ti) := s in
    exists pre run post,
      d = pre ++ run ++ post /\ p = zlen pre + zlen run /\ zlen run = cd + ci /\ 0 <= cd /\ 0 <= ci /\
      Forall (fun s => fst s <> EQUAL) run /\ pre_ok pre /\
      echars run = zlen td + zlen ti /\
      phi d <= phi d0 /\ (ends_dummy d \/ phi d + 1 <= phi d0) /\ d <> [].

  Definition mu1 (s : mstate) : nat := let '(d, p, _, _, _, _) := s in Z.to_nat (zlen d - p).

  Lemma sinv1_step s : sinv1 s -> exists r, merge1_step s = Ok r /\
    match r with
    | inl s' => sinv1 s' /\ (mu1 s' < mu1 s)%nat
    | inr d => phi d <= phi d0 /\ (ends_dummy d \/ phi d + 1 <= phi d0) /\ d <> []
    end.
  Proof.
    destruct s as [[[[[d p] cd] ci] td] ti].
    intros (pre & run & post & Hd & Hp & Hrl & Hcd & Hci & Hrun & Hpre & Hec & Hphi & Hdum & Hnn).
    unfold merge1_step.
    pose proof (zlen_nonneg pre) as Zpre. pose proof (zlen_nonneg run) as Zrun. pose proof (zlen_nonneg post) as Zpost.
    destruct (p <? zlen d) eqn:Elt; cbn [negb].
    2:{ eexists. split; [reflexivity|]. repeat split; assumption. }
    destruct post as [|[o t] post].
    { exfalso. subst d. rewrite app_nil_r, zlen_app in Elt. lia. }
    rewrite zlen_cons in Zpost. pose proof (zlen_nonneg post) as Zpost'.
    subst d. rewrite (app_assoc pre run).
    rewrite get0 by (rewrite zlen_app; lia). cbn [bind].
    rewrite <- (app_assoc pre run).
    destruct o.
    - (* DELETE *)
      eexists. split; [reflexivity|]. cbn beta iota. split.
      + exists pre, (run ++ [(DELETE, t)]), post.
        rewrite <- !app_assoc. cbn [app]. repeat split; auto; try lia; try nonnil;
          try (rewrite zlen_app, zlen_sing; lia).
        * apply Forall_app. split; [assumption|]. repeat constructor. discriminate.
        * rewrite echars_app. cbn [echars]. rewrite ec1_edit by discriminate. rewrite zlen_app. lia.
      + cbn [mu1]; zlia.
    - (* INSERT *)
      eexists. split; [reflexivity|]. cbn beta iota. split.
      + exists pre, (run ++ [(INSERT, t)]), post.
        rewrite <- !app_assoc. cbn [app]. repeat split; auto; try lia; try nonnil;
          try (rewrite zlen_app, zlen_sing; lia).
        * apply Forall_app. split; [assumption|]. repeat constructor. discriminate.
        * rewrite echars_app. cbn [echars]. rewrite ec1_edit by discriminate. rewrite zlen_app. lia.
      + cbn [mu1]; zlia.
    - (* EQUAL *)
      destruct (cd + ci >? 1) eqn:Ec.
      + (* rebuild the run *)
        assert (Hf : exists d1 p1 td1 ti1,
                   (if negb (cd =? 0) && negb (ci =? 0)
                    then '(d, p, td, ti) <- merge_prefix (pre ++ run ++ (EQUAL, t) :: post) p cd ci td ti ;;
                         '(d, td, ti) <- merge_suffix d p td ti ;; Ok (d, p, td, ti)
                    else Ok (pre ++ run ++ (EQUAL, t) :: post, p, td, ti)) = Ok (d1, p1, td1, ti1) /\
                   exists pre1 c1 c2,
                   d1 = pre1 ++ run ++ (EQUAL, c2 ++ t) :: post /\ p1 = zlen pre1 + zlen run /\
                   td = c1 ++ td1 ++ c2 /\ ti = c1 ++ ti1 ++ c2 /\ pre_ok pre1 /\
                   phi pre1 <= phi pre + (if zlen c1 =? 0 then 0 else 1)).
        { destruct (negb (cd =? 0) && negb (ci =? 0)) eqn:Eb.
          - destruct (merge_prefix_total pre run (EQUAL, t) post p cd ci td ti Hp Hrl Hpre) as ([[[d2 p2] td2] ti2] & E0).
            rewrite E0. cbn [bind].
            apply merge_prefix_spec in E0 as (pre1 & c1 & -> & -> & -> & -> & Hc1); auto.
            destruct (merge_suffix_total pre1 run EQUAL t post (zlen pre1 + zlen run) td2 ti2 eq_refl) as ([[d3 td3] ti3] & E1).
            rewrite E1. cbn [bind].
            apply merge_suffix_spec in E1 as (c2 & -> & -> & ->); auto.
            do 4 eexists. split; [reflexivity|].
            exists pre1, c1, c2. repeat split; auto.
            + destruct Hc1 as [[-> _]|[Hn [[_ ->]|(pre' & e & _ & ->)]]]; [assumption|right|right].
              * exists [], c1. reflexivity.
              * exists pre', (e ++ c1). reflexivity.
            + destruct Hc1 as [[-> ->]|[Hn [[-> ->]|(pre' & e & -> & ->)]]].
              * change (zlen (@nil N)) with 0. cbn. lia.
              * assert (zlen c1 <> 0) by (intros Hz; apply zlen_0 in Hz; congruence).
                destruct (zlen c1 =? 0) eqn:Ez; [lia|]. cbn. lia.
              * rewrite !phi_app, !phi_cons, !ec1_eq. destruct (zlen c1 =? 0); lia.
          - do 4 eexists. split; [reflexivity|].
            exists pre, [], []. cbn [app]. rewrite !app_nil_r. repeat split; auto.
            change (zlen (@nil N)) with 0. cbn. lia. }
        destruct Hf as (d1 & p1 & td1 & ti1 & E & pre1 & c1 & c2 & -> & -> & Htd & Hti & Hpre1 & Hphi1).
        rewrite E. cbn [bind].
        replace (zlen pre1 + zlen run - (cd + ci)) with (zlen pre1) by lia.
        rewrite slice_assign0 by lia.
        eexists. split; [reflexivity|]. cbn beta iota.
        pose proof (new_ops_len td1 ti1) as Hnl. pose proof (new_ops_echars td1 ti1) as Hne.
        pose proof (zlen_nonneg (merge_new_ops td1 ti1)) as Znl.
        pose proof (zlen_nonneg pre1) as Zpre1.
        assert (Hlen : zlen td = zlen c1 + zlen td1 + zlen c2 /\ zlen ti = zlen c1 + zlen ti1 + zlen c2).
        { rewrite Htd, Hti, !zlen_app. lia. }
        pose proof (zlen_nonneg c1) as Zc1. pose proof (zlen_nonneg c2) as Zc2.
        (* the potential of the new list *)
        assert (Hphi' : phi (pre1 ++ merge_new_ops td1 ti1 ++ (EQUAL, c2 ++ t) :: post) + 2 * zlen c2
                        <= phi (pre ++ run ++ (EQUAL, t) :: post)).
        { rewrite !phi_app, !phi_cons, !ec1_eq. unfold phi at 2. unfold phi at 4.
          destruct (zlen c1 =? 0) eqn:Ez; lia. }
        split.
        * exists (pre1 ++ merge_new_ops td1 ti1 ++ [(EQUAL, c2 ++ t)]), [], post.
          rewrite <- !app_assoc. cbn [app]. repeat split; auto; try lia; try nonnil.
          -- rewrite !zlen_app, zlen_sing. change (zlen (@nil seg)) with 0. lia.
          -- right. exists (pre1 ++ merge_new_ops td1 ti1), (c2 ++ t). now rewrite <- app_assoc.
          -- destruct Hdum as [Hdum|Hdum]; [|right; lia].
             rewrite (app_assoc pre run) in Hdum.
             apply ends_dummy_app_inv in Hdum; [|discriminate].
             destruct post as [|y post'].
             ++ destruct Hdum as (body & Hb).
                destruct body as [|b body]; [|destruct body; discriminate].
                cbn in Hb. inversion Hb; subst.
                destruct c2 as [|x c2'].
                ** left. cbn [app]. rewrite (app_assoc pre1). apply ends_dummy_app. now exists [].
                ** right. rewrite zlen_cons in Hphi'. pose proof (zlen_nonneg c2'). lia.
             ++ left. rewrite (app_assoc pre1). apply ends_dummy_app.
                change ((EQUAL, c2 ++ t) :: y :: post') with ([(EQUAL, c2 ++ t)] ++ y :: post').
                apply ends_dummy_app.
                change ((EQUAL, t) :: y :: post') with ([(EQUAL, t)] ++ y :: post') in Hdum.
                apply ends_dummy_app_inv in Hdum; [assumption|discriminate].
        * cbn [mu1]; zlia.
      + (* at most one edit before this equality *)
        destruct (p =? 0) eqn:Ep0; cbn [negb bind].
        { eexists. split; [reflexivity|]. cbn beta iota. split.
          - exists (pre ++ run ++ [(EQUAL, t)]), [], post.
            rewrite <- !app_assoc. cbn [app]. repeat split; auto; try lia; try nonnil.
            + rewrite !zlen_app, zlen_sing. change (zlen (@nil seg)) with 0. lia.
            + right. exists (pre ++ run), t. now rewrite <- app_assoc.
          - cbn [mu1]; zlia. }
        (* p <> 0: look at the previous entry *)
        destruct run as [|r run'] using rev_ind.
        * (* no edit: the previous entry ends [pre], an equality *)
          cbn [app] in *. change (zlen (@nil seg)) with 0 in *.
          destruct Hpre as [-> | (pre' & e & ->)]; [change (zlen (@nil seg)) with 0 in *; lia|].
          rewrite zlen_app, zlen_sing in *. pose proof (zlen_nonneg pre').
          rewrite <- app_assoc. cbn [app].
          rewrite !(get0 pre' (EQUAL, e)) by lia. cbn [bind is_equal].
          rewrite (set0 pre' (EQUAL, e)) by lia. cbn [bind].
          rewrite (del1 pre') by lia. cbn [bind].
          eexists. split; [reflexivity|]. cbn beta iota.
          assert (Hphi' : phi (pre' ++ (EQUAL, e ++ t) :: post) + 1 <= phi ((pre' ++ [(EQUAL, e)]) ++ (EQUAL, t) :: post)).
          { rewrite !phi_app, !phi_cons, !ec1_eq, phi_nil. lia. }
          split.
          -- exists (pre' ++ [(EQUAL, e ++ t)]), [], post.
             rewrite <- !app_assoc. cbn [app]. repeat split; auto; try lia; try nonnil;
               try (rewrite !zlen_app, zlen_sing; change (zlen (@nil seg)) with 0; lia);
               try (right; exists pre', (e ++ t); reflexivity); try (right; lia).
          -- cbn [mu1]; zlia.
        * (* one edit: move on *)
          clear IHrun'.
          apply Forall_app in Hrun as [_ Hr]. inversion Hr as [|? ? Hr1 _]; subst.
          destruct r as [or tr]. cbn [fst] in Hr1.
          rewrite <- (app_assoc run' [(or, tr)]). cbn [app]. rewrite (app_assoc pre run').
          rewrite zlen_app, zlen_sing in *.
          rewrite (get0 (pre ++ run') (or, tr)) by (rewrite zlen_app; lia). cbn [bind].
          replace (is_equal or) with false by (destruct or; [reflexivity|reflexivity|congruence]).
          eexists. split; [reflexivity|]. cbn beta iota. split.
          -- exists ((pre ++ run') ++ (or, tr) :: [(EQUAL, t)]), [], post.
             rewrite <- !app_assoc. cbn [app]. repeat split; auto; try lia; try nonnil.
             ++ rewrite !zlen_app, !zlen_cons. change (zlen (@nil seg)) with 0. lia.
             ++ right. exists (pre ++ run' ++ [(or, tr)]), t. rewrite <- !app_assoc. reflexivity.
             ++ rewrite <- !app_assoc in Hphi. cbn [app] in Hphi. exact Hphi.
             ++ rewrite <- !app_assoc in Hdum. cbn [app] in Hdum. exact Hdum.
          -- cbn [mu1]; zlia.
  Qed.
End TPass1.

(* ------------------------------------------------------------------ *)
(** * second pass *)

Section TPass2.
  Variable v0 : list seg.

  Definition sinv2 (s : list seg * Z * bool) : Prop :=
    let '(d, p, ch) := s in 1 <= p /\ phi d + (if ch then 1 else 0) <= phi v0.
  Definition mu2 (s : list seg * Z * bool) : nat := let '(d, p, _) := s in Z.to_nat (zlen d - p).

  Lemma ec1_same_len o (a b : str) : zlen a = zlen b -> ec1 (o, a) = ec1 (o, b).
  Proof. intros H. unfold ec1. cbn [fst snd]. now rewrite H. Qed.

  Lemma sinv2_step s : sinv2 s -> exists r, merge2_step s = Ok r /\
    match r with
    | inl s' => sinv2 s' /\ (mu2 s' < mu2 s)%nat
    | inr (d, ch) => phi d + (if ch then 1 else 0) <= phi v0
    end.
  Proof.
    destruct s as [[d p] ch]. intros (Hp & Hphi). unfold merge2_step.
    destruct (p <? zlen d - 1) eqn:Elt; cbn [negb].
    2:{ eexists. split; [reflexivity|]. assumption. }
    destruct (window3 d p) as (pre & [o0 t0] & [o1 t1] & [o2 t2] & post & -> & Hpre); [lia|lia|].
    pose proof (zlen_nonneg post) as Zpost.
    rewrite get0 by lia. cbn [bind]. rewrite get2 by lia. cbn [bind].
    destruct (is_equal o0 && is_equal o2) eqn:Eeq.
    2:{ eexists. split; [reflexivity|]. cbn beta iota. split; [split; [lia|assumption]|].
        cbn [mu2]; zlia. }
    apply andb_true_iff in Eeq as [E0 E2].
    destruct o0; try discriminate. destruct o2; try discriminate.
    rewrite get1 by lia. cbn [bind].
    destruct (endswithb t1 t0) eqn:Eend.
    - apply endswithb_spec in Eend as (u & ->).
      destruct (str_eqb t0 []) eqn:Et0; cbn [negb bind].
      + rewrite del0 by lia. cbn [bind]. eexists. split; [reflexivity|]. cbn beta iota. split.
        * split; [lia|]. rewrite !phi_app, !phi_cons, !ec1_eq in *. destruct ch; lia.
        * cbn [mu2]; zlia.
      + rewrite set1 by lia. cbn [bind]. rewrite set2 by lia. cbn [bind].
        rewrite del0 by lia. cbn [bind]. eexists. split; [reflexivity|]. cbn beta iota. split.
        * split; [lia|]. rewrite !phi_app, !phi_cons, !ec1_eq in *.
          apply str_eqb_neq in Et0.
          rewrite slice_to_app_neg by (auto; lia).
          rewrite (ec1_same_len o1 (t0 ++ u) (u ++ t0)) by (rewrite !zlen_app; lia). destruct ch; lia.
        * cbn [mu2]; zlia.
    - destruct (prefixb t2 t1) eqn:Epre.
      + apply prefixb_spec in Epre as (u & ->).
        rewrite set0 by lia. cbn [bind]. rewrite set1 by lia. cbn [bind].
        rewrite del2 by lia. cbn [bind]. eexists. split; [reflexivity|]. cbn beta iota. split.
        * split; [lia|]. rewrite !phi_app, !phi_cons, !ec1_eq in *.
          rewrite slice_from_app by reflexivity.
          rewrite (ec1_same_len o1 (u ++ t2) (t2 ++ u)) by (rewrite !zlen_app; lia). destruct ch; lia.
        * cbn [mu2]; zlia.
      + eexists. split; [reflexivity|]. cbn beta iota. split; [split; [lia|assumption]|].
        cbn [mu2]; zlia.
  Qed.
End TPass2.

(* ------------------------------------------------------------------ *)
(** * one round, and the recursion *)

(* a loop that is total, with a postcondition *)
Lemma loop_total_post {St R} (Inv : St -> Prop) (Post : R -> Prop) (mu : St -> nat) (step : St -> result (St + R)) :
  (forall s, Inv s -> exists r, step s = Ok r /\
     match r with inl s' => Inv s' /\ (mu s' < mu s)%nat | inr x => Post x end) ->
  forall fuel s, Inv s -> (mu s < fuel)%nat -> exists x, loop fuel step s = Ok x /\ Post x.
Proof.
  intros Hs. induction fuel as [|f IH]; intros s Hi Hm; [lia|].
  destruct (Hs s Hi) as (r & Er & Hr). cbn [loop]. rewrite Er.
  destruct r as [s'|x].
  - destruct Hr as [Hi' Hm']. apply IH; [assumption|lia].
  - exists x. split; [reflexivity|assumption].
Qed.

Lemma merge_once_total d : exists d' ch, merge_once d = Ok (d', ch) /\ phi d' + (if ch then 1 else 0) <= phi d.
Proof.
  unfold merge_once.
  set (d0 := d ++ [(EQUAL, [])]).
  destruct (loop_total_post (sinv1 d0) (fun v => phi v <= phi d0 /\ (ends_dummy v \/ phi v + 1 <= phi d0) /\ v <> [])
              mu1 merge1_step (sinv1_step d0) (S (length d0)) (d0, 0, 0, 0, [], [])) as (v & Ev & Hv1 & Hv2 & Hvn).
  { exists [], [], d0. cbn [app]. change (zlen (@nil seg)) with 0. change (zlen (@nil N)) with 0.
    repeat split; auto; try lia; try (now left); try (subst d0; nonnil). left. unfold ends_dummy. exists d. reflexivity. }
  { cbn. unfold zlen. lia. }
  rewrite Ev. cbn [bind].
  assert (Hd0 : phi d0 = phi d + 1). { subst d0. rewrite phi_app, phi_cons, ec1_eq, phi_nil. lia. }
  (* the pop *)
  assert (Hpop : exists w, ('(_, tl) <- py_get v (-1) ;; (if str_eqb tl [] then py_pop v else Ok v)) = Ok w /\ phi w <= phi d).
  { destruct v as [|x v'] using rev_ind.
    - congruence.
    - clear IHv'. rewrite get_last. cbn [bind]. destruct x as [ox tx].
      destruct (str_eqb tx []) eqn:Etx.
      + rewrite py_pop_app. eexists. split; [reflexivity|].
        rewrite phi_app, phi_cons, phi_nil in Hv1. unfold ec1 in Hv1. cbn [fst snd] in Hv1.
        pose proof (zlen_nonneg tx). destruct (is_equal ox); lia.
      + eexists. split; [reflexivity|]. apply str_eqb_neq in Etx.
        destruct Hv2 as [(body & Hb)|Hv2]; [|lia].
        apply app_inj_tail in Hb as [_ Hb]. inversion Hb; subst. congruence. }
  destruct Hpop as (w & Ew & Hw).
  change (d0 <- (let '(_, tl) := ?x in ?f) ;; ?g) with (bind (let '(_, tl) := x in f) (fun d0 => g)).
  destruct (py_get v (-1)) as [[ol tl]|] eqn:Eg; [|cbn in Ew; discriminate]. cbn [bind] in *.
  rewrite Ew. cbn [bind].
  destruct (loop_total_post (sinv2 w) (fun r : list seg * bool => let '(d', ch) := r in phi d' + (if ch then 1 else 0) <= phi w)
              mu2 merge2_step) with (fuel := S (length w)) (s := (w, 1, false)) as ([d' ch] & Er & Hr).
  - intros s Hs. destruct (sinv2_step w s Hs) as (r & Er & Hr). exists r. split; [assumption|].
    destruct r as [s'|[dd cc]]; assumption.
  - split; lia.
  - cbn. unfold zlen. lia.
  - exists d', ch. split; [assumption|]. lia.
Qed.

Lemma cleanupMerge_f_total fuel d : phi d < Z.of_nat fuel -> total (cleanupMerge_f fuel d).
Proof.
  revert d. induction fuel as [|f IH]; intros d Hf; [pose proof (phi_nonneg d); lia|].
  cbn [cleanupMerge_f].
  destruct (merge_once_total d) as (d' & ch & E & Hphi). rewrite E. cbn [bind].
  destruct ch; [|apply total_ok].
  apply IH. lia.
Qed.

Lemma echars_le_total d : echars d <= Z.of_nat (total_len d).
Proof.
  induction d as [|[o t] d IH]; cbn [echars total_len fold_right]; [lia|].
  fold (total_len d). unfold ec1. cbn [fst snd]. unfold zlen. destruct (is_equal o); lia.
Qed.

Theorem cleanupMerge_total d : total (cleanupMerge d).
Proof.
  unfold cleanupMerge. apply cleanupMerge_f_total.
  unfold phi. pose proof (echars_le_total d). unfold zlen. lia.
Qed.
