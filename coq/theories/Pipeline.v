(* Pipeline.v -- the whole of xmldiff.main.diff_trees / Differ.diff as ONE model
   function: Differ.match() (Matcher.match_nodes) followed by the script
   generation for the matching it returns (Differ.diff_given).
   Definitions only -- no proofs in this file (see PipelineProofs.v).

   The similarity of two node texts is an ORACLE (sim, sim_ltb, sim_leb,
   sim_is_one, zero, one, leaf_sim, combine), as in Matcher.v; the option record
   o : mopts sim carries F, uniqueattrs, fast_match, best_match, ignored_attrs. *)
From Coq Require Import List NArith ZArith Bool Arith.
Import ListNotations.
Require Import XV.Str XV.Forest XV.LCS XV.Matcher XV.Differ.

Section Pipeline.
Variable sim : Type.
Variables (sim_ltb sim_leb : sim -> sim -> bool) (sim_is_one : sim -> bool) (zero one : sim).
Variable leaf_sim : str -> str -> sim.
Variable combine : sim -> nat -> nat -> sim.

(* Differ.diff(left, right): the edit script (namespace prologue first) and the
   final working tree; None = the Python code raises *)
Definition diff_model (o : mopts sim) (L R : forest) (rootL rootR : id) (lns rns : nsmap)
  : option (list iact * forest) :=
  match match_nodes sim sim_ltb sim_leb sim_is_one zero one leaf_sim combine o L R rootL rootR with
  | None => None
  | Some m => diff_given (oignored sim o) R rootR L rootL lns rns m
  end.

(* the two oracle laws the matcher theorem needs: "0 < F" and "0 != 1.0" *)
Definition valid_options (o : mopts sim) : Prop :=
  sim_leb (oF sim o) zero = false /\ sim_is_one zero = false.

End Pipeline.

(* no prefix is bound to two different URIs by the two root namespace maps
   (otherwise Differ.diff raises RuntimeError before emitting anything) *)
Definition ns_consistent (lns rns : nsmap) : Prop := ns_prologue lns rns <> None.
