(* XmlFmtProofs3 -- finalize (PlaceholderMaker.undo_tree) on a working tree whose
   strings are RUNS over the wrapper placeholders, and the two projections of the
   result.

   * [exp d]       what undo_string makes of the run [enc d]: the leading text and one
                   wrapper element per marked segment, each followed by the equal text
                   after it;
   * [us_run] / [ustr_run]   undo_string (enc d) = Ok (exp d): in particular NO IndexError
                   (every open placeholder of a run is closed);
   * [undo_exp]    undo_element on a run tree succeeds and returns its expansion [Exp];
   * [proj_exp]    the projection (accept / reject) of the expansion is the view
                   [aw] / [rw] of the working tree: a dropped element takes the wrappers
                   made from its tail with it (the "text region" of C09/C10).
   No axioms. *)
From Coq Require Import List NArith ZArith Bool Arith Lia.
Import ListNotations.
Require Import XV.Str XV.Json XV.TextFormat XV.Forest XV.Matcher XV.Differ XV.Path XV.WF XV.XmlFmt XV.Projections
               XV.XmlFmtProofs1 XV.XmlFmtProofs2.
Require XV.Placeholder XV.PlaceholderProofs XV.PlaceholderRound XV.PlaceholderUndo XV.PlaceholderFinal.
Require XV.DMP XV.DMPBase.
Local Open Scope N_scope.

Notation ornone := Placeholder.ornone.
Notation F0 := Placeholder.ph_init.

Lemma INV0 : PlaceholderProofs.ph_inv F0.
Proof. exact (proj1 (PlaceholderFinal.ph_wf_init [] [])). Qed.
Lemma ROOM0 : Placeholder.ctr F0 <= Placeholder.PUA_END.
Proof. vm_compute. discriminate. Qed.
Lemma NEMP0 : Placeholder.p2t F0 <> [].
Proof. rewrite ph_init_p2t. discriminate. Qed.

(* ------------------------------------------------------------------ *)
(** * Runs and their expansion *)

Definition plainseg (sg : DMP.op * str) : Prop := plain (snd sg).

Definition welem (name : str) (t l : str) : xtree :=
  XNode (Placeholder.DIFF_NS_BRACED ++ name) [] (ornone t) l [].

Fixpoint exp (d : list (DMP.op * str)) : str * list xtree :=
  match d with
  | [] => ([], [])
  | (o, t) :: r =>
      let '(l, ws) := exp r in
      match o with
      | DMP.EQUAL => (t ++ l, ws)
      | DMP.INSERT => ([], welem Placeholder.s_insert t l :: ws)
      | DMP.DELETE => ([], welem Placeholder.s_delete t l :: ws)
      end
  end.

Definition set_tail (e : xtree) (l : str) : xtree := XNode (xtag e) (xattrs e) (xtext e) l (xkids e).

(* the result of the undo_string loop on  p ++ enc d  started with (rtext, acc) *)
Definition res_of (d : list (DMP.op * str)) (p rtext : str) (acc : list xtree) : str * list xtree :=
  let '(l, ws) := exp d in
  match acc with
  | [] => (p ++ l, ws)
  | e :: a => (rtext, rev a ++ set_tail e (p ++ l) :: ws)
  end.

(* nothing has been appended yet to the element on top / to the text of <wrap> *)
Definition fresh (rtext : str) (acc : list xtree) : Prop :=
  match acc with [] => rtext = [] | e :: _ => xtail e = [] end.

Lemma push_plain_fresh p rtext acc : fresh rtext acc ->
  PlaceholderUndo.push_plain p rtext acc
  = match acc with [] => (p, []) | e :: a => (rtext, set_tail e p :: a) end.
Proof.
  unfold PlaceholderUndo.push_plain, fresh. destruct p as [|c p]; destruct acc as [|e a]; intros H.
  - now subst.
  - destruct e as [tag attrs text tail kids]. cbn in H. subst. reflexivity.
  - now subst.
  - destruct e as [tag attrs text tail kids]. cbn in H. subst. reflexivity.
Qed.

Section Run.
Variable uel : xtree -> Placeholder.res xtree.
Hypothesis uel_wrapper : forall name t, plain t ->
  uel (XNode (Placeholder.DIFF_NS_BRACED ++ name) [] (ornone t) [] []) =
  Placeholder.Ok (XNode (Placeholder.DIFF_NS_BRACED ++ name) [] (ornone t) [] []).

Lemma not_in_plain c t : okc c = false -> plain t -> ~ In c t.
Proof.
  intros Hc Ht Hin. apply plain_Forall in Ht. rewrite Forall_forall in Ht. specialize (Ht _ Hin). congruence.
Qed.

Lemma get_INS_O : Placeholder.p2t_get (Placeholder.p2t F0) INS_O
                  = Some (Placeholder.diff_elem Placeholder.s_insert, Placeholder.TOpen, Some INS_C).
Proof. rewrite ph_init_p2t. reflexivity. Qed.
Lemma get_DEL_O : Placeholder.p2t_get (Placeholder.p2t F0) DEL_O
                  = Some (Placeholder.diff_elem Placeholder.s_delete, Placeholder.TOpen, Some DEL_C).
Proof. rewrite ph_init_p2t. reflexivity. Qed.
Lemma is_ph_const c : In c [INS_O; INS_C; DEL_O; DEL_C] -> Placeholder.is_ph F0 c = true.
Proof.
  unfold Placeholder.is_ph. rewrite ph_init_p2t. cbn [In]. intros [<-|[<-|[<-|[<-|[]]]]]; reflexivity.
Qed.

(* one wrapper group at the head of the run *)
Lemma us_group (po pc : N) (name : str) :
  Placeholder.p2t_get (Placeholder.p2t F0) po = Some (Placeholder.diff_elem name, Placeholder.TOpen, Some pc) ->
  Placeholder.is_ph F0 po = true -> Placeholder.is_ph F0 pc = true -> okc pc = false ->
  forall p t z rtext acc n,
  plain p -> plain t -> fresh rtext acc ->
  (length (Placeholder.split_string F0 (p ++ po :: t ++ pc :: z)) <= n)%nat ->
  exists n', (length (Placeholder.split_string F0 z) <= n')%nat /\
    Placeholder.us_loop F0 uel n (Placeholder.split_string F0 (p ++ po :: t ++ pc :: z)) rtext acc
    = Placeholder.us_loop F0 uel n' (Placeholder.split_string F0 z)
        (fst (PlaceholderUndo.push_plain p rtext acc))
        (welem name t [] :: snd (PlaceholderUndo.push_plain p rtext acc)).
Proof.
  intros Hget Hpo Hpc Hokc p t z rtext acc n Hp Ht Hf Hlen.
  rewrite (PlaceholderUndo.split_plain_ph F0 INV0 ROOM0 p po _ Hp Hpo) in *.
  pose proof (PlaceholderUndo.split_length_app F0 ROOM0 (t ++ [pc]) z) as SL.
  rewrite <- app_assoc in SL. cbn [app] in SL. cbn [length] in Hlen.
  destruct n as [|[|n2]]; try lia.
  rewrite (PlaceholderUndo.us_loop_plain F0 INV0 ROOM0) by exact Hp.
  cbn [Placeholder.us_loop]. rewrite Hget.
  rewrite (PlaceholderUndo.take_until_split F0 pc t z [] Hpc (not_in_plain pc t Hokc Ht)). cbn [app].
  unfold Placeholder.set_text_tail, Placeholder.diff_elem. cbn [xtag xattrs xkids].
  rewrite (uel_wrapper name t Ht). cbn [Placeholder.bind].
  exists n2. split; [lia|]. reflexivity.
Qed.

Lemma fresh_after_push p rtext acc e : xtail e = [] ->
  fresh (fst (PlaceholderUndo.push_plain p rtext acc)) (e :: snd (PlaceholderUndo.push_plain p rtext acc)).
Proof. intros H. exact H. Qed.

Theorem us_run d : Forall plainseg d -> forall p rtext acc n,
  plain p -> fresh rtext acc ->
  (length (Placeholder.split_string F0 (p ++ enc d)) <= n)%nat ->
  Placeholder.us_loop F0 uel n (Placeholder.split_string F0 (p ++ enc d)) rtext acc
  = Placeholder.Ok (fst (res_of d p rtext acc), snd (res_of d p rtext acc)).
Proof.
  induction 1 as [|[o t] d Hsg _ IH]; intros p rtext acc n Hp Hf Hlen.
  - unfold enc in *. cbn [map concat] in *. rewrite app_nil_r in *.
    rewrite (PlaceholderUndo.split_plain F0 INV0 ROOM0 p Hp) in *. cbn [length] in Hlen.
    destruct n as [|n1]; [lia|].
    rewrite (PlaceholderUndo.us_loop_plain F0 INV0 ROOM0) by exact Hp. rewrite PlaceholderUndo.us_loop_nil.
    rewrite (push_plain_fresh p rtext acc Hf). unfold res_of. cbn [exp]. rewrite app_nil_r.
    destruct acc as [|e a]; cbn [fst snd rev]; [reflexivity|]. reflexivity.
  - unfold plainseg in Hsg. cbn [snd] in Hsg.
    assert (Eenc : enc ((o, t) :: d) = enc_seg (o, t) ++ enc d) by reflexivity.
    rewrite Eenc in *. unfold enc_seg in *. cbn [fst snd] in *.
    destruct o.
    + (* DELETE *)
      replace (p ++ (DEL_O :: t ++ [DEL_C]) ++ enc d) with (p ++ DEL_O :: t ++ DEL_C :: enc d) in *
        by (cbn [app]; rewrite <- app_assoc; reflexivity).
      destruct (us_group DEL_O DEL_C Placeholder.s_delete get_DEL_O
                  (is_ph_const _ ltac:(cbn; tauto)) (is_ph_const _ ltac:(cbn; tauto)) eq_refl
                  p t (enc d) rtext acc n Hp Hsg Hf Hlen) as (n' & Hn' & ->).
      match goal with |- Placeholder.us_loop _ _ _ _ ?rt (?e :: ?ac) = _ =>
        pose proof (IH [] rt (e :: ac) n' plain_nil eq_refl Hn') as E end.
      cbn [app] in E. rewrite E. clear E.
      f_equal. rewrite (push_plain_fresh p rtext acc Hf). unfold res_of. cbn [exp].
      destruct (exp d) as [l ws]. cbn [app].
      destruct acc as [|e a]; cbn [fst snd rev app]; rewrite ?app_nil_r; [reflexivity|].
      rewrite <- app_assoc. reflexivity.
    + (* INSERT *)
      replace (p ++ (INS_O :: t ++ [INS_C]) ++ enc d) with (p ++ INS_O :: t ++ INS_C :: enc d) in *
        by (cbn [app]; rewrite <- app_assoc; reflexivity).
      destruct (us_group INS_O INS_C Placeholder.s_insert get_INS_O
                  (is_ph_const _ ltac:(cbn; tauto)) (is_ph_const _ ltac:(cbn; tauto)) eq_refl
                  p t (enc d) rtext acc n Hp Hsg Hf Hlen) as (n' & Hn' & ->).
      match goal with |- Placeholder.us_loop _ _ _ _ ?rt (?e :: ?ac) = _ =>
        pose proof (IH [] rt (e :: ac) n' plain_nil eq_refl Hn') as E end.
      cbn [app] in E. rewrite E. clear E.
      f_equal. rewrite (push_plain_fresh p rtext acc Hf). unfold res_of. cbn [exp].
      destruct (exp d) as [l ws]. cbn [app].
      destruct acc as [|e a]; cbn [fst snd rev app]; rewrite ?app_nil_r; [reflexivity|].
      rewrite <- app_assoc. reflexivity.
    + (* EQUAL *)
      rewrite app_assoc in *.
      rewrite (IH (p ++ t) rtext acc n ltac:(apply plain_app; auto) Hf Hlen).
      unfold res_of. cbn [exp]. destruct (exp d) as [l ws]. rewrite <- !app_assoc.
      destruct acc; reflexivity.
Qed.
End Run.

(* undo_string on a run, with the fuel undo_element hands down *)
Theorem ustr_run f d : Forall plainseg d -> (2 <= f)%nat ->
  Placeholder.undo_string f F0 (enc d) = Placeholder.Ok (exp d).
Proof.
  intros Hd Hf. unfold Placeholder.undo_string.
  pose proof (us_run (fun el => Placeholder.bind (Placeholder.undo_element f F0 false el)
                                                 (fun r => Placeholder.Ok (fst r)))) as R.
  specialize (R ltac:(
    intros name t Ht; destruct f as [|f1]; [lia|];
    rewrite (PlaceholderUndo.undo_id F0 INV0 ROOM0 NEMP0); [reflexivity| |cbn; lia];
    cbn [PlaceholderUndo.npua forallb]; rewrite !andb_true_r;
    destruct t; [reflexivity|exact Ht])).
  specialize (R d Hd [] [] [] (S (length (Placeholder.split_string F0 (enc d)))) plain_nil eq_refl).
  cbn [app] in R. rewrite R by lia. unfold res_of. cbn [app]. destruct (exp d). reflexivity.
Qed.
