(* XmlFmtProofs3 -- finalize (PlaceholderMaker.undo_tree) on a working tree whose
   strings are RUNS over the wrapper placeholders, and the two projections of the
   result.

   * [exp d]       what undo_string makes of the run [enc d]: the leading text and one
                   wrapper element per marked segment, each followed by the equal text
                   after it;
   * [us_run] / [ustr_run]   undo_string (enc d) = Ok (exp d): in particular NO IndexError
                   (every open placeholder of a run is closed);
   * [undo_exp]    undo_element on a run tree succeeds and returns its expansion [Exp];
   * [proj_exp]    the projection (accept / reject) of the expansion is the view
                   [aw] / [rw] of the working tree: a dropped element takes the wrappers
                   made from its tail with it (the "text region" of C09/C10).
   No axioms. *)
From Coq Require Import List NArith ZArith Bool Arith Lia.
Import ListNotations.
Require Import XV.Str XV.Json XV.TextFormat XV.Forest XV.Matcher XV.Differ XV.Path XV.WF XV.XmlFmt XV.Projections
               XV.XmlFmtProofs1 XV.XmlFmtProofs2 XV.XmlFmtProofsR2.
Require XV.Placeholder XV.PlaceholderProofs XV.PlaceholderRound XV.PlaceholderUndo XV.PlaceholderFinal.
Require XV.DMP XV.DMPBase.
Local Open Scope N_scope.

Notation ornone := Placeholder.ornone.
(* ------------------------------------------------------------------ *)
(** * Runs and their expansion *)

Definition welem (name : str) (t l : str) : xtree :=
  XNode (Placeholder.DIFF_NS_BRACED ++ name) [] (ornone t) l [].
(* the diff:replace wrapper: the new text inside, the old text in the old-text attribute *)
Definition relw (new old l : str) : xtree :=
  XNode (Placeholder.DIFF_NS_BRACED ++ Placeholder.s_replace) [(s_old_text, old)] (ornone new) l [].

Fixpoint exp (d : list piece) : str * list xtree :=
  match d with
  | [] => ([], [])
  | p :: r =>
      let '(l, ws) := exp r in
      match p with
      | PS (DMP.EQUAL, t) => (t ++ l, ws)
      | PS (DMP.INSERT, t) => ([], welem Placeholder.s_insert t l :: ws)
      | PS (DMP.DELETE, t) => ([], welem Placeholder.s_delete t l :: ws)
      | PR _ new old => ([], relw new old l :: ws)
      end
  end.

Definition set_tail (e : xtree) (l : str) : xtree := XNode (xtag e) (xattrs e) (xtext e) l (xkids e).

(* the result of the undo_string loop on  p ++ enc d  started with (rtext, acc) *)
Definition res_of (d : list piece) (p rtext : str) (acc : list xtree) : str * list xtree :=
  let '(l, ws) := exp d in
  match acc with
  | [] => (p ++ l, ws)
  | e :: a => (rtext, rev a ++ set_tail e (p ++ l) :: ws)
  end.

(* nothing has been appended yet to the element on top / to the text of <wrap> *)
Definition fresh (rtext : str) (acc : list xtree) : Prop :=
  match acc with [] => rtext = [] | e :: _ => xtail e = [] end.

Lemma push_plain_fresh p rtext acc : fresh rtext acc ->
  PlaceholderUndo.push_plain p rtext acc
  = match acc with [] => (p, []) | e :: a => (rtext, set_tail e p :: a) end.
Proof.
  unfold PlaceholderUndo.push_plain, fresh. destruct p as [|c p]; destruct acc as [|e a]; intros H.
  - now subst.
  - destruct e as [tag attrs text tail kids]. cbn in H. subst. reflexivity.
  - now subst.
  - destruct e as [tag attrs text tail kids]. cbn in H. subst. reflexivity.
Qed.

Section WithS.
(* the maker the strings are read with: any maker without text-tag placeholders ([tinv]); the working tree's strings
   are runs over ITS placeholders.  (Makers only grow: a run over a maker is a run over every later one.) *)
Variable F0 : pstate.
Hypothesis HS : tinv F0.

Lemma INV0 : PlaceholderProofs.ph_inv F0.
Proof. exact (ti_inv F0 HS). Qed.
Lemma ROOM0 : Placeholder.ctr F0 <= Placeholder.PUA_END.
Proof. exact (ti_room F0 HS). Qed.
Lemma NEMP0 : Placeholder.p2t F0 <> [].
Proof. exact (tinv_nemp F0 HS). Qed.

Definition plainseg (p : piece) : Prop := piece_ok F0 p.

Section Run.
Variable uel : xtree -> Placeholder.res xtree.
Hypothesis uel_wrapper : forall tag attrs t, plain t ->
  uel (XNode tag attrs (ornone t) [] []) = Placeholder.Ok (XNode tag attrs (ornone t) [] []).

Lemma not_in_plain c t : okc c = false -> plain t -> ~ In c t.
Proof.
  intros Hc Ht Hin. apply plain_Forall in Ht. rewrite Forall_forall in Ht. specialize (Ht _ Hin). congruence.
Qed.

Lemma get_INS_O : Placeholder.p2t_get (Placeholder.p2t F0) INS_O
                  = Some (Placeholder.diff_elem Placeholder.s_insert, Placeholder.TOpen, Some INS_C).
Proof. rewrite (ti_base F0 HS INS_O ltac:(cbn; tauto)), ph_init_p2t. reflexivity. Qed.
Lemma get_DEL_O : Placeholder.p2t_get (Placeholder.p2t F0) DEL_O
                  = Some (Placeholder.diff_elem Placeholder.s_delete, Placeholder.TOpen, Some DEL_C).
Proof. rewrite (ti_base F0 HS DEL_O ltac:(cbn; tauto)), ph_init_p2t. reflexivity. Qed.
Lemma is_ph_const c : In c [INS_O; INS_C; DEL_O; DEL_C; REP_C] -> Placeholder.is_ph F0 c = true.
Proof.
  intros H. unfold Placeholder.is_ph. rewrite (ti_base F0 HS c), ph_init_p2t.
  - cbn [In] in H. destruct H as [<-|[<-|[<-|[<-|[<-|[]]]]]]; reflexivity.
  - cbn [In] in H. cbn [base6 In]. unfold INS_O, INS_C, DEL_O, DEL_C, REP_C in H. tauto.
Qed.

(* one wrapper group at the head of the run *)
Lemma us_group (po pc : N) (tag : str) (attrs : list (str * str)) :
  Placeholder.p2t_get (Placeholder.p2t F0) po = Some (XNode tag attrs None [] [], Placeholder.TOpen, Some pc) ->
  Placeholder.is_ph F0 pc = true -> okc pc = false ->
  forall p t z rtext acc n,
  plain p -> plain t -> fresh rtext acc ->
  (length (Placeholder.split_string F0 (p ++ po :: t ++ pc :: z)) <= n)%nat ->
  exists n', (length (Placeholder.split_string F0 z) <= n')%nat /\
    Placeholder.us_loop F0 uel n (Placeholder.split_string F0 (p ++ po :: t ++ pc :: z)) rtext acc
    = Placeholder.us_loop F0 uel n' (Placeholder.split_string F0 z)
        (fst (PlaceholderUndo.push_plain p rtext acc))
        (XNode tag attrs (ornone t) [] [] :: snd (PlaceholderUndo.push_plain p rtext acc)).
Proof.
  intros Hget Hpc Hokc p t z rtext acc n Hp Ht Hf Hlen.
  assert (Hpo : Placeholder.is_ph F0 po = true) by (unfold Placeholder.is_ph; now rewrite Hget).
  rewrite (PlaceholderUndo.split_plain_ph F0 INV0 ROOM0 p po _ Hp Hpo) in *.
  pose proof (PlaceholderUndo.split_length_app F0 ROOM0 (t ++ [pc]) z) as SL.
  rewrite <- app_assoc in SL. cbn [app] in SL. cbn [length] in Hlen.
  destruct n as [|[|n2]]; try lia.
  rewrite (PlaceholderUndo.us_loop_plain F0 INV0 ROOM0) by exact Hp.
  cbn [Placeholder.us_loop]. rewrite Hget.
  rewrite (PlaceholderUndo.take_until_split F0 pc t z [] Hpc (not_in_plain pc t Hokc Ht)). cbn [app].
  unfold Placeholder.set_text_tail. cbn [xtag xattrs xkids].
  rewrite (uel_wrapper tag attrs t Ht). cbn [Placeholder.bind].
  exists n2. split; [lia|]. reflexivity.
Qed.

Lemma fresh_after_push p rtext acc e : xtail e = [] ->
  fresh (fst (PlaceholderUndo.push_plain p rtext acc)) (e :: snd (PlaceholderUndo.push_plain p rtext acc)).
Proof. intros H. exact H. Qed.

Theorem us_run d : Forall plainseg d -> forall p rtext acc n,
  plain p -> fresh rtext acc ->
  (length (Placeholder.split_string F0 (p ++ encp d)) <= n)%nat ->
  Placeholder.us_loop F0 uel n (Placeholder.split_string F0 (p ++ encp d)) rtext acc
  = Placeholder.Ok (fst (res_of d p rtext acc), snd (res_of d p rtext acc)).
Proof.
  induction 1 as [|pc d Hsg _ IH]; intros p rtext acc n Hp Hf Hlen.
  - unfold encp in *. cbn [map concat] in *. rewrite app_nil_r in *.
    rewrite (PlaceholderUndo.split_plain F0 INV0 ROOM0 p Hp) in *. cbn [length] in Hlen.
    destruct n as [|n1]; [lia|].
    rewrite (PlaceholderUndo.us_loop_plain F0 INV0 ROOM0) by exact Hp. rewrite PlaceholderUndo.us_loop_nil.
    rewrite (push_plain_fresh p rtext acc Hf). unfold res_of. cbn [exp]. rewrite app_nil_r.
    destruct acc as [|e a]; cbn [fst snd rev]; [reflexivity|]. reflexivity.
  - assert (Eenc : encp (pc :: d) = enc_piece pc ++ encp d) by reflexivity.
    rewrite Eenc in *.
    assert (GRP : forall po pcl tag attrs t,
              enc_piece pc = po :: t ++ [pcl] -> plain t ->
              Placeholder.p2t_get (Placeholder.p2t F0) po = Some (XNode tag attrs None [] [], Placeholder.TOpen, Some pcl) ->
              Placeholder.is_ph F0 pcl = true -> okc pcl = false ->
              exp (pc :: d) = ([], XNode tag attrs (ornone t) (fst (exp d)) [] :: snd (exp d)) ->
              Placeholder.us_loop F0 uel n (Placeholder.split_string F0 (p ++ enc_piece pc ++ encp d)) rtext acc
              = Placeholder.Ok (fst (res_of (pc :: d) p rtext acc), snd (res_of (pc :: d) p rtext acc))).
    { intros po pcl tag attrs t Ee Ht Hget Hcl Hokc Hexp.
      rewrite Ee in *.
      replace (p ++ (po :: t ++ [pcl]) ++ encp d) with (p ++ po :: t ++ pcl :: encp d) in *
        by (cbn [app]; rewrite <- app_assoc; reflexivity).
      destruct (us_group po pcl tag attrs Hget Hcl Hokc p t (encp d) rtext acc n Hp Ht Hf Hlen) as (n' & Hn' & ->).
      match goal with |- Placeholder.us_loop _ _ _ _ ?rt (?e :: ?ac) = _ =>
        pose proof (IH [] rt (e :: ac) n' plain_nil eq_refl Hn') as E end.
      cbn [app] in E. rewrite E. clear E.
      f_equal. rewrite (push_plain_fresh p rtext acc Hf). unfold res_of. rewrite Hexp.
      destruct (exp d) as [l ws]. cbn [app fst snd].
      destruct acc as [|e a]; cbn [fst snd rev app set_tail xtag xattrs xtext xkids]; rewrite ?app_nil_r; [reflexivity|].
      rewrite <- app_assoc. reflexivity. }
    destruct pc as [[o t]|c new old]; unfold plainseg in Hsg; cbn [piece_ok snd] in Hsg; cbn [enc_piece] in *.
    + unfold enc_seg in *. cbn [fst snd] in *. destruct o.
      * (* DELETE *)
        apply (GRP DEL_O DEL_C (Placeholder.DIFF_NS_BRACED ++ Placeholder.s_delete) [] t eq_refl Hsg get_DEL_O
                 (is_ph_const DEL_C ltac:(cbn; tauto)) eq_refl).
        cbn [exp]. destruct (exp d); reflexivity.
      * (* INSERT *)
        apply (GRP INS_O INS_C (Placeholder.DIFF_NS_BRACED ++ Placeholder.s_insert) [] t eq_refl Hsg get_INS_O
                 (is_ph_const INS_C ltac:(cbn; tauto)) eq_refl).
        cbn [exp]. destruct (exp d); reflexivity.
      * (* EQUAL *)
        rewrite app_assoc in *.
        rewrite (IH (p ++ t) rtext acc n ltac:(apply plain_app; auto) Hf Hlen).
        unfold res_of. cbn [exp]. destruct (exp d) as [l ws]. rewrite <- !app_assoc.
        destruct acc; reflexivity.
    + (* REPLACE *)
      destruct Hsg as (Hn & Ho & He & Hc).
      apply (GRP c REP_C (Placeholder.DIFF_NS_BRACED ++ Placeholder.s_replace) [(s_old_text, old)] new eq_refl Hn He
               (is_ph_const REP_C ltac:(cbn; tauto)) eq_refl).
      cbn [exp]. destruct (exp d); reflexivity.
Qed.
End Run.

(* undo_string on a run, with the fuel undo_element hands down *)
Theorem ustr_run f d : Forall plainseg d -> (2 <= f)%nat ->
  Placeholder.undo_string f F0 (encp d) = Placeholder.Ok (exp d).
Proof.
  intros Hd Hf. unfold Placeholder.undo_string.
  pose proof (us_run (fun el => Placeholder.bind (Placeholder.undo_element f F0 false el)
                                                 (fun r => Placeholder.Ok (fst r)))) as R.
  specialize (R ltac:(
    intros tag attrs t Ht; destruct f as [|f1]; [lia|];
    rewrite (PlaceholderUndo.undo_id F0 INV0 ROOM0 NEMP0); [reflexivity| |cbn; lia];
    cbn [PlaceholderUndo.npua forallb]; rewrite !andb_true_r;
    destruct t; [reflexivity|exact Ht])).
  specialize (R d Hd [] [] [] (S (length (Placeholder.split_string F0 (encp d)))) plain_nil eq_refl).
  cbn [app] in R. rewrite R by lia. unfold res_of. cbn [app]. destruct (exp d). reflexivity.
Qed.

(* ------------------------------------------------------------------ *)
(** * Facts about [exp] *)

Lemma exp_plain_parts d : Forall plainseg d ->
  plain (fst (exp d)) /\ Forall (fun w => PlaceholderUndo.npua w = true) (snd (exp d)).
Proof.
  induction 1 as [|pc d Hsg _ [IH1 IH2]]; cbn [exp]; [split; [reflexivity|constructor]|].
  destruct (exp d) as [l ws]. cbn [fst snd] in *. unfold plainseg in Hsg.
  assert (Hw : forall tag attrs t, plain t -> PlaceholderUndo.npua (XNode tag attrs (ornone t) l []) = true).
  { intros tag attrs t Ht. cbn [PlaceholderUndo.npua forallb]. rewrite andb_true_r.
    apply andb_true_iff. split; [|exact IH1]. destruct t; [reflexivity|exact Ht]. }
  destruct pc as [[o t]|c new old]; cbn [piece_ok snd] in Hsg.
  - destruct o; cbn [fst snd]; (split; [try reflexivity|try (constructor; [apply Hw, Hsg|exact IH2])]).
    + apply plain_app; auto.
    + exact IH2.
  - cbn [fst snd]. split; [reflexivity|]. constructor; [apply Hw, Hsg|exact IH2].
Qed.

Lemma enc_len_ge d : (length (fst (exp d)) + 2 * length (snd (exp d)) <= length (encp d))%nat.
Proof.
  induction d as [|pc d IH]; [cbn; lia|].
  change (encp (pc :: d)) with (enc_piece pc ++ encp d). rewrite app_length.
  cbn [exp]. destruct (exp d) as [l ws]. cbn [fst snd] in *.
  destruct pc as [[o t]|c new old]; [destruct o|]; unfold enc_piece, enc_seg; cbn [fst snd length]; rewrite ?app_length; cbn [length]; lia.
Qed.

Lemma exp_lead_eq d : encp d = fst (exp d) -> snd (exp d) = [].
Proof.
  intros H. pose proof (enc_len_ge d) as L. rewrite H in L.
  destruct (snd (exp d)); [reflexivity|cbn [length] in L; lia].
Qed.

Lemma exp_enc_nil d : encp d = [] -> exp d = ([], []).
Proof.
  intros H. pose proof (enc_len_ge d) as L. rewrite H in L. cbn [length] in L.
  destruct (exp d) as [l ws]. cbn [fst snd] in L. destruct l; [|cbn in L; lia]. destruct ws; [reflexivity|cbn in L; lia].
Qed.

Lemma exp_plain d : Forall plainseg d -> plain (encp d) -> exp d = (encp d, []).
Proof.
  induction 1 as [|pc d Hsg _ IH]; intros Hp; [reflexivity|].
  change (encp (pc :: d)) with (enc_piece pc ++ encp d) in *. apply plain_app in Hp as [H1 H2].
  cbn [exp]. rewrite (IH H2). unfold plainseg in Hsg.
  destruct pc as [[o t]|c new old]; [destruct o|]; unfold enc_piece, enc_seg in *; cbn [fst snd piece_ok] in *.
  - apply plain_cons in H1 as [H1 _]. discriminate.
  - apply plain_cons in H1 as [H1 _]. discriminate.
  - reflexivity.
  - destruct Hsg as (_ & _ & He & _). apply plain_cons in H1 as [H1 _].
    rewrite (tinv_plain_none F0 c HS H1) in He. discriminate.
Qed.

(* ------------------------------------------------------------------ *)
(** * Run trees and their expansion *)

Definition is_run (x : str) : Prop := exists d, Forall plainseg d /\ x = encp d.

Inductive run_tree : xtree -> Prop :=
| RT tag attrs text tail kids :
    is_run (otxt text) -> is_run tail -> Forall run_tree kids ->
    run_tree (XNode tag attrs text tail kids).

Inductive Exp : xtree -> xtree -> list xtree -> Prop :=
| Exp_node tag attrs text tail kids dt dl text1 kids' :
    Forall plainseg dt -> otxt text = encp dt -> Forall plainseg dl -> tail = encp dl ->
    otxt text1 = fst (exp dt) ->
    Forall2 (fun k r => Exp k (fst r) (snd r)) kids kids' ->
    Exp (XNode tag attrs text tail kids)
        (XNode tag attrs text1 (fst (exp dl))
               (snd (exp dt) ++ flat_map (fun r : xtree * list xtree => fst r :: snd r) kids'))
        (snd (exp dl)).

Lemma exp_heights d : Forall (fun w => Placeholder.xheight w = 1%nat) (snd (exp d)).
Proof.
  induction d as [|pc d IH]; [constructor|]. cbn [exp]. destruct (exp d) as [l ws].
  cbn [snd] in *. destruct pc as [[o t]|c new old]; [destruct o|]; try (constructor; [reflexivity|]); exact IH.
Qed.

Lemma wrappers_fixed f d : Forall plainseg d -> (2 <= f)%nat ->
  Forall2 (fun c c2 => Placeholder.undo_element f F0 true c = Placeholder.Ok (c2, [])) (snd (exp d)) (snd (exp d)).
Proof.
  intros Hd Hf. destruct (exp_plain_parts d Hd) as [_ Hw]. pose proof (exp_heights d) as Hh.
  induction Hw as [|w ws Hn _ IH]; [constructor|]. inversion Hh; subst. constructor; [|apply IH; assumption].
  destruct f as [|f1]; [lia|]. apply (PlaceholderUndo.undo_id F0 INV0 ROOM0 NEMP0 w Hn). lia.
Qed.

Lemma mapM_app {A B} (g : A -> Placeholder.res B) l1 l2 r1 r2 :
  Placeholder.mapM g l1 = Placeholder.Ok r1 -> Placeholder.mapM g l2 = Placeholder.Ok r2 ->
  Placeholder.mapM g (l1 ++ l2) = Placeholder.Ok (r1 ++ r2).
Proof.
  revert r1; induction l1 as [|a l1 IH]; intros r1 H1 H2; cbn [app Placeholder.mapM] in *.
  - inversion H1; subst. exact H2.
  - destruct (g a) as [b|e]; cbn [Placeholder.bind] in *; [|discriminate].
    destruct (Placeholder.mapM g l1) as [r|e]; cbn [Placeholder.bind] in *; [|discriminate].
    inversion H1; subst. rewrite (IH r eq_refl H2). reflexivity.
Qed.

Lemma u_text_run f text kids dt : Forall plainseg dt -> otxt text = encp dt -> (2 <= f)%nat ->
  exists text1, PlaceholderUndo.u_text F0 f text kids = Placeholder.Ok (text1, snd (exp dt) ++ kids)
                /\ otxt text1 = fst (exp dt).
Proof.
  intros Hd He Hf. unfold PlaceholderUndo.u_text. destruct (otxt text) as [|c r] eqn:Et.
  - symmetry in He. rewrite (exp_enc_nil dt He). exists text. cbn [fst snd app]. auto.
  - rewrite He, (ustr_run f dt Hd Hf). cbn [Placeholder.bind]. destruct (exp dt) as [l ws] eqn:Ee.
    destruct (Placeholder.str_eqb (encp dt) l) eqn:Es.
    + apply PlaceholderProofs.str_eqb_eq in Es. pose proof (exp_lead_eq dt) as Hn. rewrite Ee in Hn.
      cbn [fst snd] in Hn. rewrite (Hn Es). exists text. cbn [fst snd app]. rewrite Et, He. auto.
    + pose proof (wrappers_fixed f dt Hd Hf) as Hw. rewrite Ee in Hw. cbn [snd] in Hw.
      rewrite (PlaceholderUndo.u_cont_of F0 f ws ws Hw). cbn [Placeholder.bind].
      exists (ornone l). cbn [fst snd]. split; [reflexivity|]. destruct l; reflexivity.
Qed.

Lemma u_tail_run f hp tag attrs text1 tail kids2 dl : Forall plainseg dl -> tail = encp dl -> (2 <= f)%nat ->
  (hp = true \/ plain tail) ->
  PlaceholderUndo.u_tail F0 f hp tag attrs text1 tail kids2
  = Placeholder.Ok (XNode tag attrs text1 (fst (exp dl)) kids2, snd (exp dl)).
Proof.
  intros Hd He Hf Hhp. unfold PlaceholderUndo.u_tail. destruct tail as [|c r] eqn:Et.
  - symmetry in He. rewrite (exp_enc_nil dl He). reflexivity.
  - rewrite <- Et in *. clear Et c r. rewrite He at 1. rewrite (ustr_run f dl Hd Hf). cbn [Placeholder.bind].
    destruct (exp dl) as [l ws] eqn:Ee. cbn [fst snd].
    destruct (Placeholder.str_eqb tail l) eqn:Es.
    + apply PlaceholderProofs.str_eqb_eq in Es. pose proof (exp_lead_eq dl) as Hn. rewrite Ee in Hn.
      cbn [fst snd] in Hn. rewrite Hn by congruence. subst l. destruct tail; reflexivity.
    + destruct Hhp as [->|Hp].
      * pose proof (wrappers_fixed f dl Hd Hf) as Hw. rewrite Ee in Hw. cbn [snd] in Hw.
        rewrite (PlaceholderUndo.u_cont_of F0 f ws ws Hw). reflexivity.
      * rewrite He in Hp. rewrite (exp_plain dl Hd Hp) in Ee. inversion Ee; subst.
        rewrite PlaceholderProofs.str_eqb_refl in Es. discriminate.
Qed.

Theorem undo_exp : forall W, run_tree W -> forall f hp,
  (Placeholder.xheight W + 2 <= f)%nat -> (hp = true \/ plain (xtail W)) ->
  exists W' sibs, Placeholder.undo_element f F0 hp W = Placeholder.Ok (W', sibs) /\ Exp W W' sibs.
Proof.
  induction W as [tag attrs text tail kids IH] using Placeholder.xtree_ind2.
  intros HR f hp Hf Hhp. inversion HR as [? ? ? ? ? [dt [Hdt Et]] [dl [Hdl El]] Hkids]; subst.
  rewrite PlaceholderUndo.xheight_unfold in Hf. destruct f as [|f1]; [lia|].
  rewrite (PlaceholderUndo.undo_element_S F0 NEMP0).
  destruct (u_text_run f1 text kids dt Hdt Et ltac:(lia)) as (text1 & -> & Ht1). cbn [Placeholder.bind].
  unfold PlaceholderUndo.u_rest.
  (* the children *)
  assert (HK : exists kids', Forall2 (fun k r => Placeholder.undo_element f1 F0 true k = Placeholder.Ok (fst r, snd r)
                                              /\ Exp k (fst r) (snd r)) kids kids').
  { assert (Hh : forall k, In k kids -> (Placeholder.xheight k + 2 <= f1)%nat).
    { intros k Hk. pose proof (PlaceholderUndo.xheights_in _ _ Hk). lia. }
    clear Hf Et Ht1 HR Hhp. induction kids as [|k kids IHk]; [exists []; constructor|].
    inversion IH as [|? ? IHk0 IHr]; subst. inversion Hkids as [|? ? Hk0 Hkr]; subst.
    destruct (IHk0 Hk0 f1 true (Hh k (or_introl eq_refl)) (or_introl eq_refl)) as (k' & sib & E & X).
    destruct (IHk IHr Hkr ltac:(intros; apply Hh; now right)) as (kids' & F2).
    exists ((k', sib) :: kids'). constructor; [cbn [fst snd]; auto|exact F2]. }
  destruct HK as (kids' & F2).
  assert (M1 : Placeholder.mapM (fun c => Placeholder.bind (Placeholder.undo_element f1 F0 true c)
                                            (fun r => Placeholder.Ok (fst r :: snd r))) (snd (exp dt))
               = Placeholder.Ok (map (fun c => [c]) (snd (exp dt)))).
  { apply PlaceholderUndo.mapM_kids_of. apply wrappers_fixed; [exact Hdt|lia]. }
  assert (M2 : Placeholder.mapM (fun c => Placeholder.bind (Placeholder.undo_element f1 F0 true c)
                                            (fun r => Placeholder.Ok (fst r :: snd r))) kids
               = Placeholder.Ok (map (fun r : xtree * list xtree => fst r :: snd r) kids')).
  { clear - F2. induction F2 as [|k r kids kids' [E _] _ IHf]; cbn [Placeholder.mapM map]; [reflexivity|].
    rewrite E. cbn [Placeholder.bind fst snd]. rewrite IHf. reflexivity. }
  rewrite (mapM_app _ _ _ _ _ M1 M2). cbn [Placeholder.bind].
  rewrite concat_app, PlaceholderUndo.concat_singletons.
  rewrite (u_tail_run f1 hp tag attrs text1 (encp dl) _ dl Hdl eq_refl ltac:(lia) Hhp).
  eexists _, _. split; [reflexivity|].
  rewrite <- flat_map_concat_map. eapply Exp_node; eauto.
  clear - F2. induction F2 as [|k r kids kids' [_ X] _ IHf]; constructor; auto.
Qed.

(* ------------------------------------------------------------------ *)
(** * The projections of an expansion *)

Definition scan (acc : bool) : list xtree -> pst -> pst :=
  fix go (ks : list xtree) (st : pst) {struct ks} : pst :=
  match ks with
  | [] => st
  | k :: r =>
      let '(txt, a, dropping) := st in
      match wrapper_kind k with
      | Some w => go r (if dropping then st else push (wrapper_text acc w k ++ xtail k) st)
      | None =>
          if goes acc k then go r (txt, a, true)
          else let k' := proj acc k in
               go r (txt, XNode (xtag k') (xattrs k') (xtext k') (xtail k) (xkids k') :: a, false)
      end
  end.

Lemma scan_nil acc st : scan acc [] st = st.
Proof. reflexivity. Qed.
Lemma scan_cons acc k r txt a dropping :
  scan acc (k :: r) (txt, a, dropping)
  = match wrapper_kind k with
    | Some w => scan acc r (if dropping then (txt, a, dropping) else push (wrapper_text acc w k ++ xtail k) (txt, a, dropping))
    | None =>
        if goes acc k then scan acc r (txt, a, true)
        else let k' := proj acc k in
             scan acc r (txt, XNode (xtag k') (xattrs k') (xtext k') (xtail k) (xkids k') :: a, false)
    end.
Proof. reflexivity. Qed.

Lemma proj_unfold acc tag attrs text tail kids :
  proj acc (XNode tag attrs text tail kids)
  = let '(txt, ks, _) := scan acc kids (otxt text, [], false) in
    XNode (proj_tag acc (XNode tag attrs text tail kids)) (proj_attrs acc (XNode tag attrs text tail kids))
          (Some txt) tail (rev ks).
Proof. reflexivity. Qed.

Definition vw (acc : bool) (W : xtree) : xtree := if acc then aw W else rw F0 W.
Definition vs (acc : bool) (x : str) : str := if acc then astr x else rstr F0 x.
Definition live (acc : bool) (k : xtree) : bool := if acc then alive_w k else alive_r k.

Lemma goes_live acc k : goes acc k = negb (live acc k).
Proof. destruct acc; cbn; unfold alive_w, alive_r, is_deleted, is_inserted; now rewrite negb_involutive. Qed.

(* no element of the tree has one of the three wrapper tags *)
Inductive clean_tags : xtree -> Prop :=
| CT tag attrs text tail kids :
    wrapper_kind (XNode tag attrs text tail kids) = None -> Forall clean_tags kids ->
    clean_tags (XNode tag attrs text tail kids).

Definition wsum (acc : bool) (ws : list xtree) : str :=
  concat (map (fun w => match wrapper_kind w with Some k => wrapper_text acc k w | None => [] end ++ xtail w) ws).

Lemma otxt_ornone t : otxt (ornone t) = t.
Proof. destruct t; reflexivity. Qed.

Lemma exp_sum acc d : fst (exp d) ++ wsum acc (snd (exp d)) = if acc then pt2 d else pt1 d.
Proof.
  induction d as [|pc d IH]; [destruct acc; reflexivity|].
  cbn [exp]. destruct (exp d) as [l ws]. cbn [fst snd] in IH.
  rewrite pt1_cons, pt2_cons.
  destruct pc as [[o t]|c new old]; [destruct o|]; cbn [fst snd]; unfold wsum; cbn [map concat]; fold (wsum acc ws).
  - (* DELETE *) change (wrapper_kind (welem Placeholder.s_delete t l)) with (Some WDel).
    unfold wrapper_text. cbn [xtext xtail welem]. rewrite otxt_ornone.
    destruct acc; cbn [DMP.is_insert DMP.is_delete app]; rewrite <- IH; rewrite ?app_nil_r, ?app_assoc; reflexivity.
  - (* INSERT *) change (wrapper_kind (welem Placeholder.s_insert t l)) with (Some WIns).
    unfold wrapper_text. cbn [xtext xtail welem]. rewrite otxt_ornone.
    destruct acc; cbn [DMP.is_insert DMP.is_delete app]; rewrite <- IH; rewrite ?app_nil_r, ?app_assoc; reflexivity.
  - (* EQUAL *) destruct acc; cbn [DMP.is_insert DMP.is_delete app]; rewrite <- IH, <- app_assoc; reflexivity.
  - (* REPLACE *) change (wrapper_kind (relw new old l)) with (Some WRep).
    unfold wrapper_text. cbn [xtext xtail xattrs relw]. rewrite otxt_ornone.
    change (aget [(s_old_text, old)] l_old_text) with (Some old). cbv iota.
    destruct acc; cbn [app]; rewrite <- IH; rewrite ?app_nil_r, ?app_assoc; reflexivity.
Qed.

Lemma exp_sum_vs acc d : Forall plainseg d -> fst (exp d) ++ wsum acc (snd (exp d)) = vs acc (encp d).
Proof. intros H. rewrite exp_sum. destruct acc; cbn [vs]; [now rewrite (astr_encp F0 d HS H)|now rewrite (rstr_encp F0 d HS H)]. Qed.

Lemma exp_wrappers d : Forall (fun w => wrapper_kind w <> None) (snd (exp d)).
Proof.
  induction d as [|pc d IH]; [constructor|]. cbn [exp]. destruct (exp d) as [l ws]. cbn [snd] in *.
  destruct pc as [[o t]|c new old]; [destruct o|]; try (constructor; [discriminate|]); exact IH.
Qed.

Lemma push_app a b st : push (a ++ b) st = push b (push a st).
Proof.
  destruct st as [[txt acc] d]. destruct acc as [|e acc]; cbn [push]; [now rewrite app_assoc|].
  cbn [xtag xattrs xtext xtail xkids]. now rewrite app_assoc.
Qed.

Lemma scan_wrappers acc ws : Forall (fun w => wrapper_kind w <> None) ws -> forall rest txt a,
  scan acc (ws ++ rest) (txt, a, true) = scan acc rest (txt, a, true) /\
  scan acc (ws ++ rest) (txt, a, false) = scan acc rest (push (wsum acc ws) (txt, a, false)).
Proof.
  induction 1 as [|w ws Hw _ IH]; intros rest txt a; cbn [app].
  - split; [reflexivity|]. unfold wsum. cbn [map concat]. destruct a as [|e a]; cbn [push]; [now rewrite app_nil_r|].
    destruct e; cbn. now rewrite app_nil_r.
  - rewrite !scan_cons. destruct (wrapper_kind w) as [k|] eqn:Ek; [|congruence]. split; [apply IH|].
    unfold wsum. cbn [map concat]. rewrite Ek. fold (wsum acc ws).
    destruct a as [|e a]; cbn [push]; rewrite (proj2 (IH rest _ _)); cbn [push xtag xattrs xtext xtail xkids];
      rewrite <- ?app_assoc; reflexivity.
Qed.

Lemma set_tail_id e : set_tail e (xtail e) = e.
Proof. destruct e; reflexivity. Qed.

(* [str] is defined twice (Str.str, Placeholder.str); rewriting needs one spelling *)
Ltac nstr := unfold pst, Placeholder.str, Str.str in *.
Ltac nrewrite H := let E := fresh "E" in pose proof H as E; unfold pst, Placeholder.str, Str.str in E; rewrite E; clear E.

Theorem proj_exp acc : forall W, clean_tags W -> forall W' sibs, Exp W W' sibs ->
  proj acc W' = set_tail (vw acc W) (xtail W').
Proof.
  induction W as [tag attrs text tail kids IH] using Placeholder.xtree_ind2.
  intros HC W' sibs HE. inversion HC as [? ? ? ? ? Hk0 HCk]; subst.
  inversion HE as [? ? ? ? ? dt dl text1 kids' Hdt Et Hdl El Ht1 F2]; subst.
  rewrite proj_unfold.
  (* the text wrappers *)
  destruct (scan_wrappers acc (snd (exp dt)) (exp_wrappers dt)
              (flat_map (fun r : xtree * list xtree => fst r :: snd r) kids') (otxt text1) []) as [_ S1].
  nstr. rewrite S1. cbn [push]. rewrite Ht1. nrewrite (exp_sum_vs acc dt Hdt). rewrite <- Et.
  (* the children, each with the wrappers made from its tail *)
  assert (SK : forall txt a d0, exists d1,
             scan acc (flat_map (fun r : xtree * list xtree => fst r :: snd r) kids') (txt, a, d0)
             = (txt, rev (map (vw acc) (filter (live acc) kids)) ++ a, d1)).
  { clear S1 HE HC Hk0. induction F2 as [|k r kids kids' X _ IHf]; intros txt a d0; [exists d0; reflexivity|].
    inversion IH as [|? ? IHk IHr]; subst. inversion HCk as [|? ? HCk0 HCr]; subst.
    destruct r as [k' sib]. cbn [fst snd] in X.
    cbn [flat_map fst snd]. rewrite <- app_comm_cons. rewrite scan_cons.
    pose proof (IHk HCk0 k' sib X) as Pk.
    inversion X as [ktag kattrs ktext ktail kkids kdt kdl ktext1 kkids' Hkdt KEt Hkdl KEl KHt1 KF2]; subst.
    inversion HCk0 as [? ? ? ? ? Hkk _]; subst.
    match goal with |- context [wrapper_kind ?K] => change (wrapper_kind K) with (wrapper_kind (XNode ktag kattrs ktext (encp kdl) kkids)) end.
    rewrite Hkk. rewrite goes_live.
    match goal with |- context [live acc ?K] =>
      change (live acc K) with (live acc (XNode ktag kattrs ktext (encp kdl) kkids)) end.
    cbn [filter].
    destruct (live acc (XNode ktag kattrs ktext (encp kdl) kkids)) eqn:El; cbn [negb].
    - cbv zeta. rewrite Pk. cbn [set_tail xtail xtag xattrs xtext xkids].
      match goal with |- context [scan acc (snd (exp kdl) ++ ?rest) (?t, ?e :: ?aa, false)] =>
        destruct (scan_wrappers acc (snd (exp kdl)) (exp_wrappers kdl) rest t (e :: aa)) as [_ S2] end.
      nstr. rewrite S2. cbn [push xtag xattrs xtext xtail xkids].
      nrewrite (exp_sum_vs acc kdl Hkdl).
      match goal with |- context [scan acc _ (?t, ?e :: ?aa, false)] =>
        destruct (IHf IHr HCr t (e :: aa) false) as [d1 E1] end.
      exists d1. nstr. rewrite E1. cbn [map rev]. rewrite <- app_assoc. cbn [app]. do 3 f_equal.
      destruct acc; cbn [vw vs]; [rewrite aw_unfold|rewrite rw_unfold]; reflexivity.
    - match goal with |- context [scan acc (snd (exp kdl) ++ ?rest) (?t, ?aa, true)] =>
        destruct (scan_wrappers acc (snd (exp kdl)) (exp_wrappers kdl) rest t aa) as [S2 _] end.
      nstr. rewrite S2. apply IHf; assumption. }
  destruct (SK (vs acc (otxt text)) [] false) as [d1 E]. nstr. rewrite E. rewrite app_nil_r, rev_involutive.
  cbn [set_tail xtail]. destruct acc; cbn [vw vs live]; [rewrite aw_unfold|rewrite rw_unfold]; reflexivity.
Qed.

(* ------------------------------------------------------------------ *)
(** * finalize on a run tree *)

Lemma xheight_le_tsize : forall t, (Placeholder.xheight t <= Placeholder.tsize t)%nat.
Proof.
  induction t as [tag attrs text tail kids IH] using Placeholder.xtree_ind2.
  cbn [Placeholder.xheight Placeholder.tsize].
  assert (H : ((fix go (l : list xtree) : nat :=
                  match l with [] => 0 | k :: r => Nat.max (Placeholder.xheight k) (go r) end) kids
               <= (fix go (l : list xtree) : nat :=
                     match l with [] => 0 | k :: r => Placeholder.tsize k + go r end) kids)%nat).
  { induction IH as [|k r Hk _ IHr]; [lia|]. lia. }
  lia.
Qed.

(* finalize never fails on a run tree, and its result is read by the two projections as the
   two views of the working tree (up to the tail of the root, which is outside the document) *)
Theorem finalize_run W : run_tree W -> clean_tags W -> plain (xtail W) ->
  exists T, finalize F0 W = FOk T /\
            accept T = set_tail (aw W) (xtail T) /\ reject T = set_tail (rw F0 W) (xtail T).
Proof.
  intros HR HC HT.
  destruct (undo_exp W HR (Placeholder.default_fuel F0 W) false) as (W' & sibs & E & X).
  - unfold Placeholder.default_fuel, Placeholder.UNDO_DEPTH. pose proof (xheight_le_tsize W). lia.
  - now right.
  - exists W'. unfold finalize, Placeholder.undo_tree, Placeholder.undo_tree_fuel. rewrite E. cbn [Placeholder.bind fst of_ph].
    split; [reflexivity|]. split; [apply (proj_exp true W HC W' sibs X)|apply (proj_exp false W HC W' sibs X)].
Qed.
End WithS.
