(* C11, supplementary: the table keys taken as the STRINGS the code uses
   (etree.tounicode(element), ttype, close_ph) instead of subtrees.

   XV.Serialize.serialize models etree.tounicode on the fragment [key_ok] (element / attribute names are
   XML names without prefix -- or names of the maker's own diff namespace on the key element itself --,
   comments without '--' and not ending in '-', processing instructions without '?>'); it is compared with
   lxml on every run (harness/props/C11.py, stream 'serialize', and the real dictionary keys of every
   scenario are compared with the serialisation of the model's keys).  [P] is the namespace prefix lxml
   uses ('ns0', or 'diff' once registered).  With C11_serial_injective the assumption 'tounicode is
   injective on subtrees' of Properties/C11.v is discharged for this fragment: two elements are the same
   key for the model (knorm) iff they are the same key for the code (string). *)
From Coq Require Import List NArith Bool.
Import ListNotations.
Require Import XV.Placeholder XV.PlaceholderProofs XV.Serialize XV.SerializeProofs.
Local Open Scope N_scope.

(* the parser reads the (normalised) element back from its serialisation *)
Theorem C11_serial_parse : forall P t fuel, prefix_ok P = true -> key_ok t = true -> (pneed t <= fuel)%nat ->
  parse P fuel (serialize P t) = Some (knorm t).
Proof. exact serialize_parse. Qed.
Print Assumptions C11_serial_parse.

Theorem C11_serial_injective : forall P t u, prefix_ok P = true -> key_ok t = true -> key_ok u = true ->
  serialize P t = serialize P u -> knorm t = knorm u.
Proof. exact serialize_injective. Qed.
Print Assumptions C11_serial_injective.

(* same string <-> same key of the model; the only identification is the one lxml makes itself:
   an empty-string text in front of children prints like no text *)
Theorem C11_serial_key_iff : forall P k1 k2, prefix_ok P = true ->
  key_ok (fst (fst k1)) = true -> key_ok (fst (fst k2)) = true ->
  (skey P k1 = skey P k2 <-> key_norm k1 = key_norm k2).
Proof. exact skey_eq_iff. Qed.
Print Assumptions C11_serial_key_iff.

(* C11_tables, injectivity clause, keys as strings: after every history, two keys share a placeholder
   iff their (string, role, close) keys are equal *)
Theorem C11_serial_tables : forall P tt fmt ops k1 k2, prefix_ok P = true ->
  key_ok (fst (fst k1)) = true -> key_ok (fst (fst k2)) = true ->
  let s := fold_left (ph_step tt fmt) ops ph_init in
  (skey P k1 = skey P k2 -> placeholder_of s k1 = placeholder_of s k2) /\
  (forall c, placeholder_of s k1 = Some c -> placeholder_of s k2 = Some c -> skey P k1 = skey P k2).
Proof. exact serial_tables. Qed.
Print Assumptions C11_serial_tables.

(* C11_distinct with string keys *)
Theorem C11_serial_distinct : forall P s k1 k2 c1 c2, prefix_ok P = true ->
  key_ok (fst (fst k1)) = true -> key_ok (fst (fst k2)) = true ->
  ph_inv s -> skey P k1 <> skey P k2 ->
  placeholder_of s k1 = Some c1 -> placeholder_of s k2 = Some c2 -> c1 <> c2.
Proof. exact serial_distinct. Qed.
Print Assumptions C11_serial_distinct.

(* C11_same_in_two_docs with string keys: an element with the same serialisation (role, close) as one that
   got placeholder [c] gets [c] after any further history of the maker, and nothing is allocated *)
Theorem C11_serial_same_in_two_docs : forall P tt fmt s k s1 c ops k', prefix_ok P = true ->
  key_ok (fst (fst k)) = true -> key_ok (fst (fst k')) = true ->
  ph_inv s -> get_placeholder s k = (s1, c) -> skey P k' = skey P k ->
  let s2 := fold_left (ph_step tt fmt) ops s1 in get_placeholder s2 k' = (s2, c).
Proof. exact serial_same_in_two_docs. Qed.
Print Assumptions C11_serial_same_in_two_docs.
