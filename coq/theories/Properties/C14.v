(* C14 -- ignorable white space is ignored exactly when tag-whitespace normalisation is on.

   Tables: XV.Gen.Flags (WS_* values, each formatter class's default `normalize`,
   `self.normalize = normalize`, FORMATTERS, the expression
   bool(getattr(formatter, "normalize", 1) & formatting.WS_TAGS) of main._diff,
   remove_blank_text=<that>, the WS_TEXT test of XMLFormatter._make_diff_tags) and
   XV.Gen.CliPlumbing (-w -> WS_NONE, otherwise WS_BOTH) are regenerated from
   /repo/xmldiff/{main,formatting}.py by translator/xl_main.py on every run.

   C14_switch             for every formatter kind in {None, DiffFormatter, XmlDiffFormatter,
                          XMLFormatter} and every normalize argument in {left out, 0, 1, 2, 3}
                          (the whole domain: 20 combinations) the parser _diff creates strips
                          blank text iff there is no formatter or bit 0 (WS_TAGS) of the
                          formatter's effective normalize value is set; that value is the
                          argument, or the class's default (WS_TAGS = 1; XMLFormatter: WS_NONE = 0).
   C14_switch_cli         for the command line: -w gives WS_NONE = 0 and nothing is stripped (nor
                          text-normalised); otherwise WS_BOTH = 3 and both happen -- for every
                          entry of FORMATTERS.
   C14_reindent_invisible for every indentation scheme (newline + k spaces or tabs per level) and
                          every layered document, re-indenting is invisible after stripping.
                          strip_blank models libxml2's XML_PARSE_NOBLANKS (areBlanks); validated
                          against lxml on every run.  With C03 (equal documents => empty script,
                          Properties/C03.v) this gives the empty edit script; C03 is not re-proved here.
   C14_strip_idempotent   stripping twice is stripping once.
   C14_reindent_visible   with stripping off: in a document without ignorable white space every
                          element that has a child node gets a new text (None -> indentation of
                          its children) and its last child a new tail; C14_reindent_differs: the
                          re-indented tree is a different tree (with C03's converse: non-empty script).
                          C14_reindent_widths_differ: so are two re-indentations of any document
                          with different widths.
   C14_ws_text_no_markup  with WS_TEXT, _make_diff_tags maps both of its values through
                          cleanup_whitespace-then-strip (read from the source); a value that is
                          None or blank becomes "", so both sides are equal and diff_main(s, s)
                          has no edit (C16: XV.Properties.C16) -- markup-free output.
   C14_ws_text_flag       the WS_TEXT test is bit 1 of normalize.
   Proofs: XV.WhitespaceProofs, XV.CliProofs. *)
From Coq Require Import List NArith Bool.
Require Import XV.Str XV.Cli XV.Whitespace XV.WhitespaceProofs XV.CliProofs XV.Gen.Flags XV.Gen.CliPlumbing.
Import ListNotations.
Local Open Scope N_scope.

Theorem C14_switch : forall fk n,
  In fk [FNone; FDiff; FOld; FXml] -> In n [None; Some 0; Some 1; Some 2; Some 3] ->
  exists e, effective_normalize flags fk n = Some e /\
            e = match fk, n with FNone, _ => 1 | _, Some v => v | FXml, None => 0 | _, None => 1 end /\
            remove_blank flags fk n = Some (fkind_is_none fk || N.testbit e 0).
Proof. apply (switch_ok_sound flags). vm_compute. reflexivity. Qed.
Print Assumptions C14_switch.

Theorem C14_switch_cli : forall (keep_whitespace : bool) key cls,
  In (key, cls) (ft_formatters flags) ->
  exists n, ws_value flags (if keep_whitespace then dcm_norm_then (ct_diff_cmd cli) else dcm_norm_else (ct_diff_cmd cli)) = Some n /\
            n = (if keep_whitespace then 0 else 3) /\
            remove_blank_class flags (Some cls) (Some n) = Some (negb keep_whitespace) /\
            ws_text_on flags n = Some (negb keep_whitespace).
Proof. apply (cli_switch_ok_sound flags cli). vm_compute. reflexivity. Qed.
Print Assumptions C14_switch_cli.

Theorem C14_reindent_invisible : forall s T,
  layered T = true -> strip_blank (reindent s T) = strip_blank T.
Proof. exact reindent_invisible. Qed.
Print Assumptions C14_reindent_invisible.

Theorem C14_strip_idempotent : forall T, strip_blank (strip_blank T) = strip_blank T.
Proof. exact strip_idempotent. Qed.
Print Assumptions C14_strip_idempotent.

Theorem C14_reindent_visible : forall s T d t a c,
  compact T = true -> desc 0 T d (IElem t a c) -> structured c = true ->
  exists c', desc 0 (reindent s T) d (IElem t a c') /\
             leading_text c = None /\ leading_text c' = Some (indent s (S d)) /\
             trailing_text c = None /\ trailing_text c' = Some (indent s d).
Proof. exact reindent_visible. Qed.
Print Assumptions C14_reindent_visible.

Theorem C14_reindent_differs : forall s t a c,
  compact (IElem t a c) = true -> structured c = true -> reindent s (IElem t a c) <> IElem t a c.
Proof. exact reindent_differs. Qed.
Print Assumptions C14_reindent_differs.

Theorem C14_reindent_widths_differ : forall s s' t a c,
  structured c = true -> sc_width s <> sc_width s' ->
  reindent s (IElem t a c) <> reindent s' (IElem t a c).
Proof. exact reindent_widths_differ. Qed.
Print Assumptions C14_reindent_widths_differ.

Theorem C14_ws_text_no_markup : forall l r : option str,
  blank_or_none l -> blank_or_none r ->
  ws_text_normal flags l = Some [] /\ ws_text_normal flags r = Some [] /\
  (forall v, ws_text_normal flags v = Some (strip (cleanup_whitespace (match v with Some s => s | None => [] end)))).
Proof. intros l r Hl Hr. exact (conj (ws_text_blank l Hl) (conj (ws_text_blank r Hr) ws_text_normal_flags)). Qed.
Print Assumptions C14_ws_text_no_markup.

Theorem C14_ws_text_flag : forall n, In n [0; 1; 2; 3] -> ws_text_on flags n = Some (N.testbit n 1).
Proof. intros n H. repeat (destruct H as [<- | H]; [vm_compute; reflexivity |]). contradiction. Qed.
Print Assumptions C14_ws_text_flag.
