(* C02, second sentence -- "patching the left document with the text produced
   by diffing left against right gives a document equal to right."

   C02_pipeline composes, in the model: XV.Pipeline.diff_model (Differ.match +
   Differ.diff; similarity oracle), XV.Render.render_script (node identities
   printed as utils.getpath strings in the tree as it is before each action:
   the namedtuples the differ yields), XV.TextFormat.format (DiffFormatter),
   XV.TextFormat.parse (DiffParser), XV.PatcherDSL.patch with the handler
   programs GENERATED from patch.py (Patcher.patch):
     the rendered script gs is formatted to a text, one action per line; parsing
     that text gives back exactly gs; the patcher run on it returns (no error) a
     tree T' pointwise equal to the differ's final tree W and equal to the right
     document (tree_equivb: tags, attribute sets and values -- up to the
     ignored attributes of the options --, texts, tails, comments, child order).

   Hypotheses, besides those of C01_roundtrip (oracle laws "not (F <= 0)",
   "0 != 1.0"; well-formed documents; script_ok: along the script the prefixes
   getpath prints are bound in namespaces=, names printable as XPath, no
   InsertNamespace for the default namespace -- checkable by script_okb):
   - doc_fmt_okb L, doc_fmt_okb R (XV.Compose; booleans): in every node slot the
     tag and the attribute names contain no comma, double quote or line-break
     character and no leading/trailing white space (raw_okb: they are written
     verbatim), or are Clark names {uri}local whose namespace part is any string
     without a line break -- commas and quotes included -- and whose local part is
     printable ASCII without comma and quote (name_okb); attribute values, texts and tails are strings of XML
     characters (xml_charb: non-surrogate code points <= U+10FFFF; they are
     JSON-encoded, so commas, quotes and line breaks in them are fine);
   - pe_raw_ok pe: the prefixes lxml prints contain no comma, quote, line break;
   - ns_fmt_okb lns rns (boolean): the two root namespace maps are consistent and
     the namespace actions they induce carry a prefix (not None) and raw_ok
     prefix / URI.  A default-namespace declaration present on one root only
     gives InsertNamespace(None, ..) / DeleteNamespace(None), on which
     ", ".join(..) of DiffFormatter raises TypeError: excluded explicitly.
   Proofs: XV.ComposeProofs (gen_script_lit: every string an action carries comes
   from a label of the right document; spec_apply_labs_ok; getpath_raw_ok;
   render_wf), with C01_roundtrip and C02_parse_format. *)
From Coq Require Import List NArith ZArith Bool Arith.
Import ListNotations.
Require Import XV.Str XV.Json XV.TextFormat XV.Gen.TextTables XV.TextFormatProofs
               XV.Forest XV.Matcher XV.Differ XV.Spec XV.WF XV.Path XV.PathProofs XV.PatcherDSL
               XV.Gen.PatcherProg XV.Render XV.PatcherProofs XV.Pipeline XV.Compose XV.ComposeProofs.

Theorem C02_pipeline :
  forall (sim : Type) (sim_ltb sim_leb : sim -> sim -> bool) (sim_is_one : sim -> bool)
         (zero one : sim) (leaf_sim : str -> str -> sim) (combine : sim -> nat -> nat -> sim)
         (o : mopts sim) (L R : forest) (rootL rootR : id) (lns rns : nsmap)
         (pe : penv) (root_nsmap : list (option str * str)),
  sim_leb (oF sim o) zero = false -> sim_is_one zero = false ->
  wf_forest L rootL -> wf_forest R rootR ->
  ns_fmt_okb lns rns = true ->
  doc_fmt_okb L = true -> doc_fmt_okb R = true ->
  (forall u p, pe u = Some p -> forallb raw_charb p = true) ->
  (forall script W,
     diff_model sim sim_ltb sim_leb sim_is_one zero one leaf_sim combine o L R rootL rootR lns rns
       = Some (script, W) ->
     script_ok pe rootL (nsmap_env root_nsmap) L script) ->
  exists script W gs text T',
    (* diff, and the actions as the API yields them *)
    diff_model sim sim_ltb sim_leb sim_is_one zero one leaf_sim combine o L R rootL rootR lns rns
      = Some (script, W)
    /\ render_script pe rootL L script = Some gs
    (* the text of the DiffFormatter, one action per line; DiffParser reads it back *)
    /\ format tables gs = Ok text
    /\ parse tables text = Ok gs
    /\ length (splitlines text) = length gs
    (* Patcher.patch on the parsed actions: no error, the right document *)
    /\ patch actions_sig true rootL patcher_progs L root_nsmap gs = POk T'
    /\ forest_ext_eq T' W
    /\ tree_equivb (tree_map_attrs (node_attribs_d (oignored sim o)) (to_tree (S (fnext T')) T' rootL))
                   (tree_map_attrs (node_attribs_d (oignored sim o)) (to_tree (S (fnext R)) R rootR)) = true.
Proof.
  intros sim sim_ltb sim_leb sim_is_one zero one leaf_sim combine o L R rootL rootR lns rns pe root_nsmap HF H1.
  apply diff_text_patch. split; assumption.
Qed.
Print Assumptions C02_pipeline.

(* Non-vacuity.  L = <r xmlns="u"><a k="1" i="7">x</a><b/></r>,
   R = <r xmlns="u" xmlns:p="v"><b/><a k="2,&quot;" i="8">y\nz</a><p:c z="1"/>t</r>
   (an attribute value with a comma and a double quote, a text with a line break, a
   prefixed element), ignored_attrs = ["i"], nat-valued oracle.  All hypotheses
   hold by computation; the text has 7 lines, starts with
   "[insert-namespace, p, v]", and diff | format | parse | patch computes to a tree
   equal to R up to the ignored attribute. *)
Example C02_pipeline_example :
  let L := mk_forest [(0, [1; 2])]
            [(0, Lab (TElem [114%N]) [] None None);
             (1, Lab (TElem [97%N]) [([107%N], [49%N]); ([105%N], [55%N])] (Some [120%N]) None);
             (2, Lab (TElem [98%N]) [] None None)] 3 in
  let R := mk_forest [(0, [1; 2; 3])]
            [(0, Lab (TElem [114%N]) [] None None);
             (1, Lab (TElem [98%N]) [] None None);
             (2, Lab (TElem [97%N]) [([107%N], [50%N; 44%N; 34%N]); ([105%N], [56%N])] (Some [121%N; 10%N; 122%N]) None);
             (3, Lab (TElem (clark [118%N] [99%N])) [([122%N], [49%N])] None (Some [116%N]))] 4 in
  let leaf := fun a b : str => if str_eqb a b then 100 else
              match a, b with x :: _, y :: _ => if N.eqb x y then 60 else 10 | _, _ => 10 end in
  let comb := fun m c n : nat => if Nat.ltb 0 n && Nat.eqb c n then m else m * 70 / 100 in
  let is_one := fun x => Nat.eqb x 100 in
  let o := MOpts nat 50 [] false false [[105%N]] in
  let lns : nsmap := [(None, [117%N])] in
  let rns : nsmap := [(None, [117%N]); (Some [112%N], [118%N])] in
  let pe : penv := fun u => if str_eqb u [118%N] then Some [112%N] else None in
  let dm := diff_model nat Nat.ltb Nat.leb is_one 0 100 leaf comb o L R 0 0 lns rns in
  (* hypotheses *)
  Nat.leb (oF nat o) 0 = false /\ is_one 0 = false /\
  wf_forest L 0 /\ wf_forest R 0 /\
  ns_fmt_okb lns rns = true /\ doc_fmt_okb L = true /\ doc_fmt_okb R = true /\
  (forall u p, pe u = Some p -> forallb raw_charb p = true) /\
  (forall script W, dm = Some (script, W) -> script_ok pe 0 (nsmap_env lns) L script) /\
  (* conclusion *)
  match dm with
  | Some (script, _) =>
      match render_script pe 0 L script with
      | Some gs =>
          match format tables gs with
          | Ok text =>
              length (splitlines text) = 7 /\
              nth 0 (splitlines text) [] =
                [91;105;110;115;101;114;116;45;110;97;109;101;115;112;97;99;101;44;32;112;44;32;118;93]%N /\
              match parse tables text with
              | Ok gs' =>
                  match patch actions_sig true 0 patcher_progs L lns gs' with
                  | POk T' => tree_equivb (tree_map_attrs (node_attribs_d [[105%N]]) (doc_tree T' 0))
                                          (tree_map_attrs (node_attribs_d [[105%N]]) (doc_tree R 0)) = true
                  | _ => False
                  end
              | Err _ => False
              end
          | Err _ => False
          end
      | None => False
      end
  | None => False
  end.
Proof.
  cbv zeta.
  split; [reflexivity|]. split; [reflexivity|].
  split; [apply wf_forestb_sound; vm_compute; reflexivity|].
  split; [apply wf_forestb_sound; vm_compute; reflexivity|].
  split; [vm_compute; reflexivity|]. split; [vm_compute; reflexivity|]. split; [vm_compute; reflexivity|].
  split.
  { intros u p. destruct (str_eqb u [118%N]); [|discriminate]. intros E. injection E as <-. reflexivity. }
  split.
  { intros script W E. pose proof (f_equal (option_map fst) E) as E'. vm_compute in E'.
    injection E' as <-. apply script_okb_sound. vm_compute. reflexivity. }
  vm_compute. repeat split; reflexivity.
Qed.
Print Assumptions C02_pipeline_example.

(* Namespace names with commas (repair a8953ad, C02_clark_names).  L = <a xmlns:p="tag:example.org,2005:x"><p:b/></a>,
   R = <a xmlns:p="tag:example.org,2005:x"><p:c p:k="1"/></a>: the tag and the attribute name, written verbatim as
   {tag:example.org,2005:x}c and {tag:example.org,2005:x}k, satisfy doc_fmt_okb (name_okb: the namespace part of a Clark
   name may hold commas), all hypotheses hold by computation, and diff | format | parse | patch computes to R. *)
Example C02_pipeline_comma_example :
  let U := [116%N;97%N;103%N;58%N;101%N;120%N;97%N;109%N;112%N;108%N;101%N;46%N;111%N;114%N;103%N;44%N;50%N;48%N;48%N;53%N;58%N;120%N] in
  let L := mk_forest [(0, [1])]
            [(0, Lab (TElem [97%N]) [] None None);
             (1, Lab (TElem (clark U [98%N])) [] None None)] 2 in
  let R := mk_forest [(0, [1])]
            [(0, Lab (TElem [97%N]) [] None None);
             (1, Lab (TElem (clark U [99%N])) [(clark U [107%N], [49%N])] None None)] 2 in
  let leaf := fun a b : str => if str_eqb a b then 100 else
              match a, b with x :: _, y :: _ => if N.eqb x y then 60 else 10 | _, _ => 10 end in
  let comb := fun m c n : nat => if Nat.ltb 0 n && Nat.eqb c n then m else m * 70 / 100 in
  let is_one := fun x => Nat.eqb x 100 in
  let o := MOpts nat 50 [] false false [] in
  let lns : nsmap := [(Some [112%N], U)] in
  let pe : penv := fun u => if str_eqb u U then Some [112%N] else None in
  let dm := diff_model nat Nat.ltb Nat.leb is_one 0 100 leaf comb o L R 0 0 lns lns in
  Nat.leb (oF nat o) 0 = false /\ is_one 0 = false /\
  wf_forest L 0 /\ wf_forest R 0 /\
  ns_fmt_okb lns lns = true /\ doc_fmt_okb L = true /\ doc_fmt_okb R = true /\
  (forall u p, pe u = Some p -> forallb raw_charb p = true) /\
  (forall script W, dm = Some (script, W) -> script_ok pe 0 (nsmap_env lns) L script) /\
  match dm with
  | Some (script, _) =>
      match render_script pe 0 L script with
      | Some gs =>
          match format tables gs with
          | Ok text =>
              script <> [] /\ length (splitlines text) = length script /\
              match parse tables text with
              | Ok gs' =>
                  gs' = gs /\
                  match patch actions_sig true 0 patcher_progs L lns gs' with
                  | POk T' => tree_equivb (doc_tree T' 0) (doc_tree R 0) = true
                  | _ => False
                  end
              | Err _ => False
              end
          | Err _ => False
          end
      | None => False
      end
  | None => False
  end.
Proof.
  cbv zeta.
  split; [reflexivity|]. split; [reflexivity|].
  split; [apply wf_forestb_sound; vm_compute; reflexivity|].
  split; [apply wf_forestb_sound; vm_compute; reflexivity|].
  split; [vm_compute; reflexivity|]. split; [vm_compute; reflexivity|]. split; [vm_compute; reflexivity|].
  split.
  { intros u p. destruct (str_eqb u _); [|discriminate]. intros E. injection E as <-. reflexivity. }
  split.
  { intros script W E. pose proof (f_equal (option_map fst) E) as E'. vm_compute in E'.
    injection E' as <-. apply script_okb_sound. vm_compute. reflexivity. }
  vm_compute. repeat split; try reflexivity. discriminate.
Qed.
Print Assumptions C02_pipeline_comma_example.
