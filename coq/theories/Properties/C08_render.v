(* C08, first clause: ... returns a string that parses as XML.

   Model of the printing step: XV.SerializeDoc.render = XMLFormatter.render(result) with pretty_print = False, i.e.
   etree.tounicode after cleanup_namespaces(top_nsmap = {diff: ...}), for result trees whose only namespace is the diff
   namespace (escaping rules of XV.Serialize; compared with the string the implementation returns on every run:
   harness/xmlfmt_corr.py, stream: printed string).

     dnode_ok T       every element / attribute name of T is a name without prefix, or such a name in the diff namespace
                      (made of name characters: none of blank, tab, nl, cr, slash, angle brackets, equals sign, the two quote characters,
                      question and exclamation mark, ampersand, hash, braces, and no colon);
     render P T       the printed string, the diff namespace spelled with prefix P (P_ok P: a plain name other than xmlns);
     parse P fuel s   the XML reader of XV.Serialize (elements, attributes, character data with the five escapes lxml
                      writes, comments, processing instructions; the declaration xmlns:P is consumed);
     nk T             T with an empty text in front of children read as no text (knorm) and without the root's tail.

   C08_render_parses: the printed string is read back as the tree it was printed from -- so tags balance, every
   attribute value and character datum ends where it should whatever characters it holds (quotes, angle brackets,
   ampersands, line breaks), and the prefix is declared on the root exactly when some node uses it.
   C08_render_injective: different result trees never print alike.

   C08_result_in_fragment / C08_prints_wellformed_differ (XmlFmtNames, XmlFmtNames2, XmlFmtNames3): that the formatter's
   result satisfies dnode_ok is a THEOREM for configurations without text tags: the handlers only add names the script
   brings and the documented diff names, finalize builds diff:insert / diff:delete / diff:replace (old-text) wrappers
   (invariant wn of the working tree).  For the differ's OWN script the premises speak of the two documents only:
   those of C08_total_clean_differ plus doc_xnb -- every element and attribute name is a non-empty string of name
   characters without a colon (documents without namespaces).  Conclusion: xml_format returns T, T is clean, and
   the string printed for T parses back to T, for every admissible spelling P of the diff prefix.

   PARTIAL: pretty_print = True (lxml's indentation), text-tag configurations and documents with namespaces of their own
   are outside the printing theorem; there the clause is established by re-parsing the implementation's string with lxml on
   every run (testing). *)
From Coq Require Import List NArith Bool.
Import ListNotations.
Require Import XV.Placeholder XV.Serialize XV.SerializeProofs XV.SerializeDoc XV.SerializeDocProofs.
Local Open Scope N_scope.

Theorem C08_render_parses : forall (P : str) (T : xtree) (fuel : nat),
  P_ok P -> dnode_ok T = true -> (pneed T <= fuel)%nat ->
  parse P fuel (render P T) = Some (nk T).
Proof. exact render_parse. Qed.
Print Assumptions C08_render_parses.

Theorem C08_render_injective : forall (P : str) (T U : xtree),
  P_ok P -> dnode_ok T = true -> dnode_ok U = true -> render P T = render P U -> nk T = nk U.
Proof. exact render_injective. Qed.
Print Assumptions C08_render_injective.

(* non-vacuity: an element a with attribute k = 1 < (quote)2(quote), children b (marked diff:insert, text x & y, tail t) and c
   (marked diff:delete): the premises hold, and the string is the one lxml prints (declaration on the root although only
   nested nodes use the namespace; the literal is spelled out in harness/xmlfmt_corr.py RENDER_EXAMPLE) *)
Definition DP : str := [100;105;102;102].
Definition exT : xtree :=
  XNode [97] [([107], [49;32;60;32;34;50;34])] None []
    [XNode [98] [(DIFF_NS_BRACED ++ [105;110;115;101;114;116], [])] (Some [120;32;38;32;121]) [116] [];
     XNode [99] [(DIFF_NS_BRACED ++ [100;101;108;101;116;101], [])] None [] []].
Example C08_render_example :
  P_ok DP /\ dnode_ok exT = true /\
  render DP exT =
    [60;97] ++ decl DP ++ [32;107;61;34;49;32;38;108;116;59;32;38;113;117;111;116;59;50;38;113;117;111;116;59;34;62;
     60;98;32;100;105;102;102;58;105;110;115;101;114;116;61;34;34;62;120;32;38;97;109;112;59;32;121;60;47;98;62;116;
     60;99;32;100;105;102;102;58;100;101;108;101;116;101;61;34;34;47;62;60;47;97;62] /\
  parse DP (pneed exT) (render DP exT) = Some (nk exT).
Proof. vm_compute. repeat split; reflexivity. Qed.
Print Assumptions C08_render_example.

(* ---- the formatter's result and the printing step together (names of the Serialize side are written qualified from here on) ---- *)
Require Import XV.Str XV.Json XV.TextFormat XV.Forest XV.Matcher XV.Differ XV.Spec XV.Path XV.WF XV.PathProofs XV.Render
               XV.XmlFmt XV.Projections XV.XmlFmtProofs1 XV.XmlFmtProofs2 XV.XmlFmtProofsR2 XV.XmlFmtProofs3 XV.XmlFmtProofs4 XV.XmlFmtProofs5
               XV.XmlFmtProofs9 XV.XmlFmtProofsB XV.XmlFmtProofsC XV.PrefixProofs XV.XmlFmtDiffer3 XV.XmlFmtDiffer
               XV.XmlFmtNames XV.XmlFmtNames2 XV.XmlFmtNames3.
Require XV.PlaceholderUndo.
Local Open Scope N_scope.

(* The formatter's result lies in the fragment (text_tags = []): premises as C08_total_clean_partial plus
     wn W              the names of the (prepared) left document are XML names of the fragment,
     iact_names        the tags / attribute names the script brings are plain XML names. *)
Theorem C08_result_in_fragment :
  forall (c : cfg) (o : oracle) (rootns : list (option str * str)) (pe : penv) (root : id)
         (L : forest) (script : list iact) (gs : list gaction) (fT : forest),
  c_tt c = [] ->
  wf_forest L root -> (forall m, desc L root m -> is_comment (ltag (flab L m)) = false) ->
  let W := remove_comments (doc_tree L root) in
  PlaceholderUndo.npua W = true -> clean_tags W -> nodiff W -> wclean W -> wn W ->
  run_spec root L script = Some fT -> render_script pe root L script = Some gs ->
  fscript_ok rootns pe root [(Some DIFF_PREFIX, DIFF_NS)] L script ->
  Forall names_plain script -> Forall iact_plain script -> Forall iact_names script ->
  run_ok c o rootns (FS W Placeholder.ph_init [(Some DIFF_PREFIX, DIFF_NS)]) gs ->
  exists T, xml_format c o rootns Placeholder.ph_init gs W = FOk T /\ out_clean T = true /\ SerializeDoc.dnode_ok T = true.
Proof. intros c o rootns pe root L script gs fT _. exact (format_total_names c o rootns pe root L script gs fT). Qed.
Print Assumptions C08_result_in_fragment.

(* All of C08 for the differ's own script, premises about the two documents only (no text tags, pretty_print = False,
   documents without namespaces): the formatter completes, the result is placeholder free and uses the diff namespace
   as documented, and the printed string parses back to the result tree. *)
Theorem C08_prints_wellformed_differ :
  forall (c : cfg) (o : oracle) (pe : penv) (L R : forest) (rootL rootR : id)
         (lns rns : nsmap) (m : list (id * id)) (pro : list iact),
  c_tt c = [] ->
  wf_forest L rootL -> wf_forest R rootR -> valid_matching L R rootL rootR m ->
  ns_prologue lns rns = Some pro ->
  ns_decl_okb pe lns rns L rootL R rootR = true ->
  doc_names_okb pe L rootL = true -> doc_names_okb pe R rootR = true ->
  doc_okb L = true -> doc_okb R = true ->
  doc_xnb L = true -> doc_xnb R = true ->
  (c_replace c = true -> text_size R rootR <= 6393) ->
  let script := pro ++ out (gen_script [] R rootR L rootL m) in
  let W := remove_comments (doc_tree L rootL) in
  exists gs T, render_script pe rootL L script = Some gs /\
    xml_format c o lns Placeholder.ph_init gs W = FOk T /\ out_clean T = true /\ SerializeDoc.dnode_ok T = true /\
    forall P, SerializeProofs.P_ok P ->
      Serialize.parse P (Serialize.pneed T) (SerializeDoc.render P T) = Some (SerializeProofs.nk T).
Proof. intros c o pe L R rootL rootR lns rns m pro _. exact (differ_prints_b c o pe L R rootL rootR lns rns m pro). Qed.
Print Assumptions C08_prints_wellformed_differ.

(* non-vacuity: the example of Properties/C09.v (documents a(b xy, t, c) -> a k=1 (b xz, t, d)): every premise by computation *)
Example C08_prints_example :
  (wf_forest dx_L 0%nat /\ wf_forest dx_R 0%nat /\ valid_matching dx_L dx_R 0%nat 0%nat dx_m /\ ns_prologue [] [] = Some [] /\
   ns_decl_okb dx_pe [] [] dx_L 0%nat dx_R 0%nat = true /\ doc_names_okb dx_pe dx_L 0%nat = true /\ doc_names_okb dx_pe dx_R 0%nat = true /\
   doc_okb dx_L = true /\ doc_okb dx_R = true /\ text_size dx_R 0%nat <= 6393) /\
  doc_xnb dx_L = true /\ doc_xnb dx_R = true.
Proof. split; [exact dx_premises|]. vm_compute. split; reflexivity. Qed.
Print Assumptions C08_prints_example.
