(* C08, first clause: ... returns a string that parses as XML.

   Model of the printing step: XV.SerializeDoc.render = XMLFormatter.render(result) with pretty_print = False, i.e.
   etree.tounicode after cleanup_namespaces(top_nsmap = {diff: ...}), for result trees whose only namespace is the diff
   namespace (escaping rules of XV.Serialize; compared with the string the implementation returns on every run:
   harness/xmlfmt_corr.py, stream: printed string).

     dnode_ok T       every element / attribute name of T is a name without prefix, or such a name in the diff namespace
                      (made of name characters: none of blank, tab, nl, cr, slash, angle brackets, equals sign, the two quote characters,
                      question and exclamation mark, ampersand, hash, braces, and no colon);
     render P T       the printed string, the diff namespace spelled with prefix P (P_ok P: a plain name other than xmlns);
     parse P fuel s   the XML reader of XV.Serialize (elements, attributes, character data with the five escapes lxml
                      writes, comments, processing instructions; the declaration xmlns:P is consumed);
     nk T             T with an empty text in front of children read as no text (knorm) and without the root's tail.

   C08_render_parses: the printed string is read back as the tree it was printed from -- so tags balance, every
   attribute value and character datum ends where it should whatever characters it holds (quotes, angle brackets,
   ampersands, line breaks), and the prefix is declared on the root exactly when some node uses it.
   C08_render_injective: different result trees never print alike.

   PARTIAL in two respects: (1) that the formatter's result satisfies dnode_ok is a TESTED premise (evaluated on every
   result tree of every run together with the conclusion); it holds when the documents' names are plain names, because
   the handlers only add names of the script and the documented diff names -- not yet a theorem;  (2) pretty_print = True
   (lxml's indentation) and documents with namespaces of their own are outside the printing model; there the clause is
   established by re-parsing the implementation's string with lxml on every run (testing). *)
From Coq Require Import List NArith Bool.
Import ListNotations.
Require Import XV.Placeholder XV.Serialize XV.SerializeProofs XV.SerializeDoc XV.SerializeDocProofs.
Local Open Scope N_scope.

Theorem C08_render_parses : forall (P : str) (T : xtree) (fuel : nat),
  P_ok P -> dnode_ok T = true -> (pneed T <= fuel)%nat ->
  parse P fuel (render P T) = Some (nk T).
Proof. exact render_parse. Qed.
Print Assumptions C08_render_parses.

Theorem C08_render_injective : forall (P : str) (T U : xtree),
  P_ok P -> dnode_ok T = true -> dnode_ok U = true -> render P T = render P U -> nk T = nk U.
Proof. exact render_injective. Qed.
Print Assumptions C08_render_injective.

(* non-vacuity: an element a with attribute k = 1 < (quote)2(quote), children b (marked diff:insert, text x & y, tail t) and c
   (marked diff:delete): the premises hold, and the string is the one lxml prints (declaration on the root although only
   nested nodes use the namespace; the literal is spelled out in harness/xmlfmt_corr.py RENDER_EXAMPLE) *)
Definition DP : str := [100;105;102;102].
Definition exT : xtree :=
  XNode [97] [([107], [49;32;60;32;34;50;34])] None []
    [XNode [98] [(DIFF_NS_BRACED ++ [105;110;115;101;114;116], [])] (Some [120;32;38;32;121]) [116] [];
     XNode [99] [(DIFF_NS_BRACED ++ [100;101;108;101;116;101], [])] None [] []].
Example C08_render_example :
  P_ok DP /\ dnode_ok exT = true /\
  render DP exT =
    [60;97] ++ decl DP ++ [32;107;61;34;49;32;38;108;116;59;32;38;113;117;111;116;59;50;38;113;117;111;116;59;34;62;
     60;98;32;100;105;102;102;58;105;110;115;101;114;116;61;34;34;62;120;32;38;97;109;112;59;32;121;60;47;98;62;116;
     60;99;32;100;105;102;102;58;100;101;108;101;116;101;61;34;34;47;62;60;47;97;62] /\
  parse DP (pneed exT) (render DP exT) = Some (nk exT).
Proof. vm_compute. repeat split; reflexivity. Qed.
Print Assumptions C08_render_example.
